(* GenoNext.v — first_dna is the least valid decision; next_dna returns the least valid decision that is
   greater (None exactly when there is none).  Hence next = successor in all_valid. *)
From Coq Require Import Sorted.
From PG Require Import Common.Tactics Model.Geno Proofs.GenoBasics Proofs.GenoValid Proofs.GenoOrder.

(* ---- a component with a successor function and a least element ---------------------------------------- *)
Section Odometer.
  Context {A X : Type} (V : A -> X -> Prop) (f : X -> X -> comparison).
  Hypothesis f_refl : forall a, f a a = Eq.
  Hypothesis f_eq : forall a b, f a b = Eq -> a = b.
  Hypothesis f_antisym : forall a b, f b a = CompOpp (f a b).
  Variable nx : A -> X -> option X.
  Variable fst_ : A -> X.
  (* nx e is the successor function of the valid set of e *)
  Definition next_ok (e : A) : Prop := forall d, V e d ->
    match nx e d with
    | Some d' => V e d' /\ f d d' = Lt /\ (forall x, V e x -> f d x = Lt -> f x d' <> Lt)
    | None => forall x, V e x -> f d x <> Lt
    end.
  Definition first_ok (e : A) : Prop := V e (fst_ e) /\ forall x, V e x -> f x (fst_ e) <> Lt.

  Lemma firsts_min : forall es, Forall first_ok es ->
    Forall2 V es (map fst_ es) /\ forall xs, Forall2 V es xs -> list_cmp f xs (map fst_ es) <> Lt.
  Proof.
    induction es as [|e es IH]; intros H; simpl.
    - split. constructor. intros xs Hx. inv Hx. simpl. discriminate.
    - apply Forall_cons_iff in H as [[Hv Hm] Htl]. destruct (IH Htl) as [IH1 IH2]. split. constructor; auto.
      intros xs Hx. inversion Hx as [|? y ? ys Hy Hys]; subst. simpl. specialize (Hm _ Hy).
      destruct (f y (fst_ e)) eqn:E; try discriminate; auto.
  Qed.

  Lemma odometer_ok : forall es, Forall next_ok es -> Forall first_ok es ->
    forall ds, Forall2 V es ds ->
    match odometer nx fst_ es ds with
    | Some ds' => Forall2 V es ds' /\ list_cmp f ds ds' = Lt /\
                  (forall xs, Forall2 V es xs -> list_cmp f ds xs = Lt -> list_cmp f xs ds' <> Lt)
    | None => forall xs, Forall2 V es xs -> list_cmp f ds xs <> Lt
    end.
  Proof.
    induction es as [|e es IH]; intros Hn Hf ds0 Hv.
    - inv Hv. simpl. intros xs Hx. inv Hx. simpl. discriminate.
    - inversion Hv as [|? d ? ds Hd Hds]; subst.
      apply Forall_cons_iff in Hn as [Hne Hn]. apply Forall_cons_iff in Hf as [Hfe Hf].
      specialize (IH Hn Hf ds Hds). simpl.
      destruct (odometer nx fst_ es ds) as [r|] eqn:Eo.
      + destruct IH as (IH1 & IH2 & IH3). split; [constructor; auto|]. split.
        * simpl. rewrite f_refl. auto.
        * intros xs Hx Hlt. inversion Hx as [|? y ? ys Hy Hys]; subst. simpl in *. rewrite (f_antisym d y).
          destruct (f d y) eqn:E; simpl; try discriminate.
          apply f_eq in E. subst y. apply IH3; auto.
      + specialize (Hne d Hd). destruct (nx e d) as [d'|] eqn:En.
        * destruct Hne as (Hv' & Hlt & Hleast). destruct (firsts_min es Hf) as [Hfv Hfm].
          split; [constructor; auto|]. split.
          { simpl. rewrite Hlt. auto. }
          intros xs Hx Hl. inversion Hx as [|? y ? ys Hy Hys]; subst. simpl in *.
          destruct (f d y) eqn:E; try discriminate.
          { apply f_eq in E. subst y. exfalso. exact (IH _ Hys Hl). }
          specialize (Hleast _ Hy E). destruct (f y d') eqn:E'; try discriminate; try congruence.
          apply f_eq in E'. subst y. apply Hfm; auto.
        * intros xs Hx. inversion Hx as [|? y ? ys Hy Hys]; subst. simpl.
          destruct (f d y) eqn:E; try discriminate.
          { apply f_eq in E. subst y. apply IH; auto. }
          exfalso. exact (Hne _ Hy E).
  Qed.
End Odometer.

(* ---- index level: next_value_for_choice and min_remaining_choices ---------------------------------------- *)
Definition icmp := list_cmp Nat.compare.
Definition asc (l : list nat) : Prop := StronglySorted lt l.

Lemma find_seq_least : forall p len a,
  match find p (seq a len) with
  | Some x => a <= x < a + len /\ p x = true /\ forall y, a <= y < x -> p y = false
  | None => forall y, a <= y < a + len -> p y = false
  end.
Proof.
  induction len; intros a; simpl.
  - intros; lia.
  - destruct (p a) eqn:E.
    + repeat split; auto; try lia.
    + specialize (IHlen (S a)). destruct (find p (seq (S a) len)).
      * destruct IHlen as (H1 & H2 & H3). repeat split; auto; try lia.
        intros y Hy. destruct (Nat.eq_dec y a); subst; auto. apply H3; lia.
      * intros y Hy. destruct (Nat.eq_dec y a); subst; auto. apply IHlen; lia.
Qed.

Lemma next_value_spec : forall dist n prior c,
  match next_value dist n prior c with
  | Some c' => c < c' < n /\ (dist = true -> ~ In c' prior) /\
               forall v, c < v < n -> (dist = true -> ~ In v prior) -> c' <= v
  | None => forall v, c < v < n -> ~ (dist = true -> ~ In v prior)
  end.
Proof.
  intros. unfold next_value.
  pose proof (find_seq_least (fun v => negb dist || negb (memb v prior)) (n - S c) (S c)) as H.
  destruct (find _ _) as [c'|].
  - destruct H as (H1 & H2 & H3). repeat split; try lia.
    + intros -> Hin. simpl in H2. apply negb_true_iff in H2. apply memb_In in Hin. congruence.
    + intros v Hv Hd. destruct (le_lt_dec c' v); auto. exfalso.
      assert (E : negb dist || negb (memb v prior) = false) by (apply H3; lia).
      apply orb_false_iff in E as [E1 E2]. apply negb_false_iff in E1, E2. apply memb_In in E2. apply Hd; auto.
  - intros v Hv Hd. assert (E : negb dist || negb (memb v prior) = false) by (apply H; lia).
    apply orb_false_iff in E as [E1 E2]. apply negb_false_iff in E1, E2. apply memb_In in E2. apply Hd; auto.
Qed.

Lemma asc_head_min : forall p l x, asc (p :: l) -> In x (p :: l) -> p <= x.
Proof. intros p l x H [<-|Hx]; auto. inv H. rewrite Forall_forall in H3. apply H3 in Hx. lia. Qed.
Lemma asc_tail : forall p l, asc (p :: l) -> asc l.
Proof. intros p l H; inv H; auto. Qed.
Lemma asc_filter : forall p l, asc l -> asc (filter p l).
Proof.
  unfold asc. induction l; intros H; simpl. constructor. inv H. destruct (p a); auto. constructor; auto.
  apply Forall_forall. intros x Hx. apply filter_In in Hx as [Hx _]. rewrite Forall_forall in H3; auto.
Qed.
Lemma asc_seq : forall len lo, asc (seq lo len).
Proof.
  induction len; intros lo; simpl; constructor; auto. apply IHlen.
  apply Forall_forall. intros x Hx. apply in_seq in Hx. lia.
Qed.
Lemma asc_NoDup : forall l, asc l -> NoDup l.
Proof.
  induction l; intros H; constructor; inv H; auto.
  intros Hin. rewrite Forall_forall in H3. apply H3 in Hin. lia.
Qed.

Lemma take_min_true_some : forall j l, j <= length l -> exists rem, take_min true j l = Some rem.
Proof.
  induction j; intros l H; simpl. eauto. destruct l; simpl in *. lia.
  destruct (IHj l) as [r Hr]. lia. rewrite Hr. simpl. eauto.
Qed.

(* completeness and minimality of the greedy completion *)
Lemma take_min_min : forall dist j poss ys, asc poss -> length ys = j -> incl ys poss ->
  (dist = true -> NoDup ys) ->
  exists rem, take_min dist j poss = Some rem /\ icmp rem ys <> Gt.
Proof.
  induction j; intros poss ys Ha Hl Hi Hd.
  - destruct ys; [|discriminate]. exists []. split; auto. simpl. discriminate.
  - destruct ys as [|y0 ys]; [discriminate|]. simpl in Hl. injection Hl as Hl.
    assert (Hy0 : In y0 poss) by (apply Hi; simpl; auto).
    destruct poss as [|p0 ptl]; [inv Hy0|].
    pose proof (asc_head_min _ _ _ Ha Hy0) as Hle.
    destruct dist.
    + (* distinct: the head is consumed *)
      specialize (Hd eq_refl). pose proof (proj1 (NoDup_cons_iff _ _) Hd) as [Hn0 Hnd].
      assert (Hlen : j <= length ptl).
      { pose proof (NoDup_incl_length Hd Hi) as HH. simpl in HH. lia. }
      destruct (Nat.eq_dec y0 p0) as [->|Hne].
      * destruct (IHj ptl ys) as [rem [Hr Hc]]; auto.
        { eapply asc_tail; eauto. }
        { intros y Hy. assert (In y (p0 :: ptl)) by (apply Hi; simpl; auto).
          destruct H as [<-|]; auto. contradiction. }
        exists (p0 :: rem). simpl. rewrite Hr. split; auto. unfold icmp in *. simpl. rewrite Nat.compare_refl. auto.
      * destruct (take_min_true_some j ptl Hlen) as [rem Hr].
        exists (p0 :: rem). simpl. rewrite Hr. split; auto. unfold icmp. simpl.
        assert (p0 < y0) by lia. apply Nat.compare_lt_iff in H. rewrite H. discriminate.
    + destruct (IHj (p0 :: ptl) ys) as [rem [Hr Hc]]; auto.
      { intros y Hy. apply Hi; simpl; auto. }
      { intros; discriminate. }
      exists (p0 :: rem). simpl in *. rewrite Hr. split; auto. unfold icmp in *. simpl.
      destruct (Nat.compare p0 y0) eqn:E; auto; try discriminate.
      apply Nat.compare_gt_iff in E. lia.
Qed.

Lemma take_min_sound : forall dist j poss rem, asc poss -> take_min dist j poss = Some rem ->
  length rem = j /\ incl rem poss /\ (dist = true -> NoDup rem) /\ StronglySorted le rem.
Proof.
  induction j; intros poss rem Ha H; simpl in H.
  - inv H. repeat split; auto. intros x []. constructor. constructor.
  - destruct poss as [|p0 ptl]; [discriminate|].
    destruct (take_min dist j (if dist then ptl else p0 :: ptl)) as [rem'|] eqn:E; [|discriminate].
    inv H. apply IHj in E.
    2:{ destruct dist; auto. eapply asc_tail; eauto. }
    destruct E as (E1 & E2 & E3 & E4).
    assert (Hin : incl rem' (p0 :: ptl)).
    { intros x Hx. apply E2 in Hx. destruct dist; auto. simpl; auto. }
    repeat split.
    + simpl; lia.
    + intros x [<-|Hx]; [simpl; auto | apply Hin; auto].
    + intros ->. constructor; auto. intros Hx. apply E2 in Hx.
      inv Ha. rewrite Forall_forall in H2. apply H2 in Hx. lia.
    + constructor; auto. apply Forall_forall. intros x Hx. apply Hin in Hx. eapply asc_head_min; eauto.
Qed.

Section MinRemaining.
  Variables (dist srt : bool) (n k : nat).
  Definition lo_of (prior : list nat) : nat :=
    if srt then match last_opt prior with Some l => l | None => O end else O.
  Definition poss_of (prior : list nat) : list nat :=
    filter (fun v => negb dist || negb (memb v prior)) (seq (lo_of prior) (n - lo_of prior)).
  Lemma min_remaining_unfold : forall prior,
    min_remaining dist srt n k prior = take_min dist (k - length prior) (poss_of prior).
  Proof. reflexivity. Qed.
  Lemma poss_spec : forall prior y,
    In y (poss_of prior) <-> y < n /\ lo_of prior <= y /\ (dist = true -> ~ In y prior).
  Proof.
    intros. unfold poss_of. rewrite filter_In, in_seq. split.
    - intros [H1 H2]. repeat split; try lia. intros -> Hin. simpl in H2. apply negb_true_iff in H2.
      apply memb_In in Hin. congruence.
    - intros (H1 & H2 & H3). split. lia. destruct dist; auto. simpl. apply negb_true_iff.
      destruct (memb y prior) eqn:E; auto. apply memb_In in E. exfalso. apply H3; auto.
  Qed.
  Lemma poss_asc : forall prior, asc (poss_of prior).
  Proof. intros. apply asc_filter. apply asc_seq. Qed.

  (* a valid completion of [prior]: indices only *)
  Definition VC (prior ys : list nat) : Prop :=
    constraint_from dist srt prior ys = true /\ Forall (fun y => y < n) ys.

  Lemma completion_in_poss : forall prior ys, VC prior ys ->
    incl ys (poss_of prior) /\ (dist = true -> NoDup ys).
  Proof.
    intros prior ys [Hc Hn]. apply constraint_from_spec in Hc as [Hd Hs]. split.
    - intros y Hy. apply poss_spec. rewrite Forall_forall in Hn. repeat split; auto.
      + unfold lo_of. destruct srt; try lia. destruct (last_opt prior) eqn:E; try lia.
        destruct (Hs eq_refl) as [_ Hp]. eapply Hp; eauto.
      + intros E. destruct (Hd E) as [_ Hp]. auto.
    - intros E. apply Hd; auto.
  Qed.

  Lemma min_remaining_min : forall prior ys, VC prior ys -> length ys = k - length prior ->
    exists rem, min_remaining dist srt n k prior = Some rem /\ icmp rem ys <> Gt.
  Proof.
    intros prior ys Hv Hl. rewrite min_remaining_unfold.
    destruct (completion_in_poss _ _ Hv) as [Hi Hd].
    apply take_min_min; auto. apply poss_asc.
  Qed.

  Lemma min_remaining_sound : forall prior rem, min_remaining dist srt n k prior = Some rem ->
    VC prior rem /\ length rem = k - length prior.
  Proof.
    intros prior rem H. rewrite min_remaining_unfold in H.
    apply take_min_sound in H; [|apply poss_asc]. destruct H as (H1 & H2 & H3 & H4).
    split; auto. split.
    - apply constraint_from_spec. split.
      + intros E. split; auto. intros x Hx. apply H2 in Hx. apply poss_spec in Hx. apply Hx; auto.
      + intros E. split; auto. intros p x Hp Hx. apply H2 in Hx. apply poss_spec in Hx.
        destruct Hx as (_ & Hx & _). unfold lo_of in Hx. rewrite E, Hp in Hx. auto.
    - apply Forall_forall. intros x Hx. apply H2 in Hx. apply poss_spec in Hx. tauto.
  Qed.
End MinRemaining.

(* ---- when the greedy completion exists ------------------------------------------------------------------- *)
Lemma allowed_dist : forall dist srt prior c, allowed dist srt prior c = true -> dist = true -> ~ In c prior.
Proof.
  intros dist srt prior c H -> Hin. unfold allowed in H. simpl in H. apply andb_true_iff in H as [H _].
  apply negb_true_iff in H. apply memb_In in Hin. congruence.
Qed.
Lemma allowed_sorted : forall dist srt prior c p, allowed dist srt prior c = true -> srt = true ->
  last_opt prior = Some p -> p <= c.
Proof.
  intros dist srt prior c p H -> Hp. unfold allowed in H. rewrite Hp in H. apply andb_true_iff in H as [_ H].
  simpl in H. apply Nat.leb_le; auto.
Qed.
Lemma allowed_mono : forall dist srt prior c c', allowed dist srt prior c = true -> c <= c' ->
  (dist = true -> ~ In c' prior) -> allowed dist srt prior c' = true.
Proof.
  intros dist srt prior c c' H Hle Hd. unfold allowed in *. apply andb_true_iff in H as [H1 H2].
  apply andb_true_iff; split.
  - destruct dist; auto. simpl. apply negb_true_iff. destruct (memb c' prior) eqn:E; auto.
    apply memb_In in E. exfalso. apply Hd; auto.
  - destruct srt; auto. simpl in *. destruct (last_opt prior); auto. apply Nat.leb_le in H2. apply Nat.leb_le. lia.
Qed.

Lemma filter_minus_one : forall (p : nat -> bool) c l, NoDup l -> In c l -> p c = true ->
  length (filter (fun v => p v && negb (v =? c)) l) + 1 = length (filter p l).
Proof.
  induction l as [|a l IH]; intros Hn Hin Hp. inv Hin. inv Hn. destruct Hin as [->|Hin].
  - simpl. rewrite Hp, Nat.eqb_refl. simpl.
    rewrite (filter_ext_in (fun v => p v && negb (v =? c)) p). lia.
    intros x Hx. destruct (x =? c) eqn:E. apply Nat.eqb_eq in E; subst; contradiction. rewrite andb_true_r; auto.
  - simpl. assert (a <> c) by (intros ->; contradiction). apply Nat.eqb_neq in H. rewrite H. rewrite andb_true_r.
    destruct (p a); simpl; rewrite <- IH; auto.
Qed.

Section Completion.
  Variables (dist srt : bool) (n k : nat).
  (* if some c0 >= c' (both admissible after [prior]) has a valid completion, then c' has the greedy one *)
  Lemma min_remaining_exists : forall prior c' c0 ys,
    allowed dist srt prior c' = true -> allowed dist srt prior c0 = true -> c' <= c0 -> c' < n -> c0 < n ->
    VC dist srt n (prior ++ [c0]) ys -> length ys = k - length (prior ++ [c0]) ->
    exists rem, min_remaining dist srt n k (prior ++ [c']) = Some rem.
  Proof.
    intros prior c' c0 ys Ha' Ha0 Hle Hn' Hn0 [Hc Hb] Hl.
    assert (Hlen : length (prior ++ [c']) = length (prior ++ [c0])) by (rewrite !app_length; auto).
    pose proof Hc as Hc0. apply constraint_from_spec in Hc as [Hd Hs].
    destruct dist eqn:Ed; [destruct srt eqn:Es|].
    - (* distinct, sorted: the same completion is valid after c' *)
      destruct (min_remaining_min true true n k (prior ++ [c']) ys) as [rem [Hr _]]; [|rewrite Hlen; auto|eauto].
      split; auto. apply constraint_from_spec. destruct (Hd eq_refl) as [Hnd Hni]. destruct (Hs eq_refl) as [Hso Hlast].
      split; intros _; split; auto.
      + intros x Hx Hin. apply in_app_or in Hin as [Hin|[<-|[]]].
        * apply (Hni x Hx). apply in_or_app; auto.
        * assert (c0 <= c') by (apply (Hlast c0 c'); auto; apply last_opt_app).
          assert (c0 = c') by lia. subst. apply (Hni c' Hx). apply in_or_app; right; simpl; auto.
      + intros p x Hp Hx. rewrite last_opt_app in Hp. inv Hp.
        assert (c0 <= x) by (apply (Hlast c0 x); auto; apply last_opt_app). lia.
    - (* distinct only: count the available indices *)
      rewrite min_remaining_unfold, Hlen, <- Hl.
      apply take_min_true_some.
      destruct (completion_in_poss true false n (prior ++ [c0]) ys) as [Hi Hnd]. split; auto.
      pose proof (NoDup_incl_length (Hnd eq_refl) Hi) as HH.
      assert (E : forall c, c < n -> ~ In c prior ->
                  length (poss_of true false n (prior ++ [c])) + 1 = length (poss_of true false n prior)).
      { intros c Hcn Hcp. unfold poss_of, lo_of. simpl.
        rewrite <- (filter_minus_one (fun v => negb (memb v prior)) c (seq 0 (n - 0))).
        - f_equal. f_equal. apply filter_ext. intros v. unfold memb. rewrite existsb_app. simpl.
          rewrite orb_false_r, negb_orb. auto.
        - apply seq_NoDup.
        - apply in_seq. lia.
        - apply negb_true_iff. destruct (memb c prior) eqn:Em; auto. apply memb_In in Em. contradiction. }
      pose proof (E c' Hn' (allowed_dist _ _ _ _ Ha' eq_refl)).
      pose proof (E c0 Hn0 (allowed_dist _ _ _ _ Ha0 eq_refl)). lia.
    - (* not distinct: the same completion is valid after c' *)
      destruct (min_remaining_min false srt n k (prior ++ [c']) ys) as [rem [Hr _]]; [|rewrite Hlen; auto|eauto].
      split; auto. apply constraint_from_spec. split; [intros; discriminate|].
      intros Es. destruct (Hs Es) as [Hso Hlast]. split; auto.
      intros p x Hp Hx. rewrite last_opt_app in Hp. inv Hp.
      assert (c0 <= x) by (apply (Hlast c0 x); auto; apply last_opt_app). lia.
  Qed.
End Completion.

(* ---- Choices._next_dna ------------------------------------------------------------------------------------ *)
Lemma ccmp_list_antisym : forall a b, list_cmp ccmp b a = CompOpp (list_cmp ccmp a b).
Proof. intros. apply list_cmp_antisym. apply Forall_forall. intros x _ y. apply ccmp_antisym. Qed.

Section ChoicesNext.
  Variables (dist srt : bool) (n k : nat).
  Variable VS : nat -> sdna -> Prop.
  Variable nxt : nat -> sdna -> option sdna.
  Variable fst_ : nat -> sdna.
  Hypothesis Hnext : forall c, c < n -> forall sub, VS c sub ->
    match nxt c sub with
    | Some s' => VS c s' /\ scmp sub s' = Lt /\ (forall x, VS c x -> scmp sub x = Lt -> scmp x s' <> Lt)
    | None => forall x, VS c x -> scmp sub x <> Lt
    end.
  Hypothesis Hfirst : forall c, c < n -> VS c (fst_ c) /\ forall x, VS c x -> scmp x (fst_ c) <> Lt.

  Definition VT (prior : list nat) (l : list (nat * sdna)) : Prop :=
    VC dist srt n prior (map fst l) /\ Forall (fun x => VS (fst x) (snd x)) l.

  Lemma VT_cons : forall prior c sub rest,
    VT prior ((c, sub) :: rest) <-> allowed dist srt prior c = true /\ c < n /\ VS c sub /\ VT (prior ++ [c]) rest.
  Proof.
    intros. unfold VT, VC. simpl. rewrite andb_true_iff. split.
    - intros [[[Ha Hc] Hb] Hf]. inv Hb. inv Hf. simpl in *. tauto.
    - intros (Ha & Hn & Hs & [Hc Hb] & Hf). repeat split; auto.
  Qed.

  Definition firsts (rem : list nat) : list (nat * sdna) := map (fun v => (v, fst_ v)) rem.
  Lemma firsts_fst : forall rem, map fst (firsts rem) = rem.
  Proof. induction rem; simpl; f_equal; auto. Qed.
  Lemma firsts_VT : forall prior rem, VC dist srt n prior rem -> VT prior (firsts rem).
  Proof.
    intros prior rem [Hc Hb]. split. rewrite firsts_fst. split; auto.
    unfold firsts. apply Forall_forall. intros x Hx. apply in_map_iff in Hx as [v [<- Hv]]. simpl.
    rewrite Forall_forall in Hb. apply Hfirst; auto.
  Qed.

  (* the greedy completion with first sub-decisions is the least completion *)
  Lemma firsts_least : forall rem xs, length rem = length xs -> icmp rem (map fst xs) <> Gt ->
    Forall (fun x => fst x < n /\ VS (fst x) (snd x)) xs -> list_cmp ccmp xs (firsts rem) <> Lt.
  Proof.
    induction rem as [|v rem IH]; intros [|[c0 s0] xs] Hl Hc Hf; try discriminate; simpl.
    unfold icmp in Hc. simpl in *. inversion Hf as [|? ? [Hn0 Hs0] Hf']; subst. simpl in *.
    unfold ccmp at 1. simpl. rewrite (Nat.compare_antisym v c0).
    destruct (Nat.compare v c0) eqn:E; simpl; try discriminate; try congruence.
    apply Nat.compare_eq in E. subst v.
    destruct (Hfirst c0 Hn0) as [_ Hm]. specialize (Hm _ Hs0).
    destruct (scmp s0 (fst_ c0)) eqn:E2; try discriminate; try congruence.
    apply IH; auto.
  Qed.

  Lemma VT_bound : forall prior l, VT prior l -> Forall (fun x => fst x < n /\ VS (fst x) (snd x)) l.
  Proof.
    intros prior l [[_ Hb] Hf]. revert Hb Hf. induction l; simpl; intros; constructor; inv Hb; inv Hf; auto.
  Qed.

  Theorem choices_next_ok : forall cs prior, length prior + length cs = k -> VT prior cs ->
    match choices_next dist srt n k nxt fst_ prior cs with
    | Some r => VT prior r /\ length r = length cs /\ list_cmp ccmp cs r = Lt /\
                (forall x, VT prior x -> length x = length cs -> list_cmp ccmp cs x = Lt -> list_cmp ccmp x r <> Lt)
    | None => forall x, VT prior x -> length x = length cs -> list_cmp ccmp cs x <> Lt
    end.
  Proof.
    induction cs as [|[c sub] rest IH]; intros prior Hlen Hv.
    - simpl. intros x _ Hx. destruct x; [|discriminate]. simpl. discriminate.
    - apply VT_cons in Hv as (Ha & Hcn & Hsub & Hrest).
      assert (Hlen' : length (prior ++ [c]) + length rest = k) by (rewrite app_length; simpl in *; lia).
      specialize (IH (prior ++ [c]) Hlen' Hrest).
      simpl choices_next.
      destruct (choices_next dist srt n k nxt fst_ (prior ++ [c]) rest) as [r|] eqn:Ego.
      + (* a later position was incremented *)
        destruct IH as (IH1 & IH2 & IH3 & IH4). split; [apply VT_cons; auto|]. split; [simpl; lia|]. split.
        * simpl. rewrite ccmp_refl. auto.
        * intros [|[c0 s0] xr] Hx Hxl Hlt; [discriminate|]. simpl in *.
          rewrite (ccmp_antisym (c, sub) (c0, s0)).
          destruct (ccmp (c, sub) (c0, s0)) eqn:E; simpl; try discriminate.
          apply ccmp_eq in E. inv E. apply VT_cons in Hx as (_ & _ & _ & Hx). apply IH4; auto.
      + (* this position must change *)
        assert (Hcases : forall x, VT prior x -> length x = length ((c, sub) :: rest) ->
                  list_cmp ccmp ((c, sub) :: rest) x = Lt ->
                  exists c0 s0 xr, x = (c0, s0) :: xr /\ allowed dist srt prior c0 = true /\ c0 < n /\ VS c0 s0 /\
                    VT (prior ++ [c0]) xr /\ length xr = length rest /\
                    ((c0 = c /\ scmp sub s0 = Lt) \/ c < c0)).
        { intros [|[c0 s0] xr] Hx Hxl Hlt; [discriminate|]. simpl in *.
          apply VT_cons in Hx as (Ha0 & Hn0 & Hs0 & Hxr). exists c0, s0, xr.
          split; [reflexivity|]. split; [exact Ha0|]. split; [exact Hn0|]. split; [exact Hs0|]. split; [exact Hxr|]. split; [lia|].
          unfold ccmp at 1 in Hlt. simpl in Hlt.
          destruct (Nat.compare c c0) eqn:E; try discriminate.
          - apply Nat.compare_eq in E. subst c0. destruct (scmp sub s0) eqn:E2; try discriminate; auto.
            apply scmp_eq in E2. subst s0. exfalso. exact (IH _ Hxr ltac:(lia) Hlt).
          - apply Nat.compare_lt_iff in E. auto. }
        specialize (Hnext c Hcn sub Hsub).
        destruct (nxt c sub) as [sub'|] eqn:Enx.
        * (* the sub-decision of this choice has a successor *)
          destruct Hnext as (Hs' & Hlt' & Hleast').
          destruct Hrest as [Hrc Hrf].
          destruct (min_remaining_min dist srt n k (prior ++ [c]) (map fst rest) Hrc) as [rem [Hrem _]].
          { rewrite map_length. lia. }
          rewrite Hrem.
          destruct (min_remaining_sound _ _ _ _ _ _ Hrem) as [Hvc Hrl].
          split; [apply VT_cons; split; [exact Ha|]; split; [exact Hcn|]; split; [exact Hs'|]; apply firsts_VT; exact Hvc|].
          split; [simpl; unfold firsts; rewrite map_length; simpl in *; lia|]. split.
          { simpl. unfold ccmp. simpl. rewrite Nat.compare_refl, Hlt'. auto. }
          intros x Hx Hxl Hlt. destruct (Hcases x Hx Hxl Hlt) as (c0 & s0 & xr & -> & Ha0 & Hn0 & Hs0 & Hxr & Hxrl & Hc0).
          simpl. unfold ccmp at 1. simpl.
          destruct Hc0 as [[-> Hss]|Hc0].
          -- rewrite Nat.compare_refl. specialize (Hleast' _ Hs0 Hss).
             destruct (scmp s0 sub') eqn:E; try discriminate; try congruence.
             apply scmp_eq in E. subst s0.
             destruct Hxr as [Hxc Hxf].
             destruct (min_remaining_min dist srt n k (prior ++ [c]) (map fst xr) Hxc) as [rem' [Hrem' Hmin]].
             { rewrite map_length. lia. }
             rewrite Hrem in Hrem'. inv Hrem'.
             apply firsts_least; auto.
             ++ rewrite Hrl. lia.
             ++ eapply VT_bound. split; eauto.
          -- assert (E : Nat.compare c0 c = Gt) by (apply Nat.compare_gt_iff; lia). rewrite E. discriminate.
        * (* increment the choice itself *)
          pose proof (next_value_spec dist n prior c) as Hnv.
          destruct (next_value dist n prior c) as [c'|] eqn:Env.
          -- destruct Hnv as (Hc' & Hd' & Hleastc).
             assert (Ha' : allowed dist srt prior c' = true) by (eapply allowed_mono; eauto; lia).
             destruct (min_remaining dist srt n k (prior ++ [c'])) as [rem|] eqn:Hrem.
             ++ destruct (min_remaining_sound _ _ _ _ _ _ Hrem) as [Hvc Hrl].
                destruct (Hfirst c' ltac:(lia)) as [Hf1 Hf2].
                split; [apply VT_cons; split; [exact Ha'|]; split; [lia|]; split; [exact Hf1|]; apply firsts_VT; exact Hvc|].
                split; [simpl; unfold firsts; rewrite map_length; rewrite Hrl, app_length; simpl in *; lia|]. split.
                { simpl. unfold ccmp. simpl. assert (E : Nat.compare c c' = Lt) by (apply Nat.compare_lt_iff; lia). rewrite E. auto. }
                intros x Hx Hxl Hlt. destruct (Hcases x Hx Hxl Hlt) as (c0 & s0 & xr & -> & Ha0 & Hn0 & Hs0 & Hxr & Hxrl & Hc0).
                destruct Hc0 as [[-> Hss]|Hc0]; [exfalso; exact (Hnext _ Hs0 Hss)|].
                assert (c' <= c0) by (apply Hleastc; [lia|]; intros; eapply allowed_dist; eauto).
                simpl. unfold ccmp at 1. simpl.
                destruct (Nat.compare c0 c') eqn:E; try discriminate.
                ** apply Nat.compare_eq in E. subst c0. specialize (Hf2 _ Hs0).
                   destruct (scmp s0 (fst_ c')) eqn:E2; try discriminate; try congruence.
                   destruct Hxr as [Hxc Hxf].
                   destruct (min_remaining_min dist srt n k (prior ++ [c']) (map fst xr) Hxc) as [rem' [Hrem' Hmin]].
                   { rewrite map_length, app_length. simpl in *. lia. }
                   rewrite Hrem in Hrem'. inv Hrem'.
                   apply firsts_least; auto.
                   --- rewrite Hrl, app_length. simpl in *. lia.
                   --- eapply VT_bound. split; eauto.
                ** apply Nat.compare_lt_iff in E. lia.
             ++ (* no completion after c': nothing greater exists at this level *)
                intros x Hx Hxl Hlt. destruct (Hcases x Hx Hxl Hlt) as (c0 & s0 & xr & -> & Ha0 & Hn0 & Hs0 & Hxr & Hxrl & Hc0).
                destruct Hc0 as [[-> Hss]|Hc0]; [exact (Hnext _ Hs0 Hss)|].
                assert (c' <= c0) by (apply Hleastc; [lia|]; intros; eapply allowed_dist; eauto).
                destruct Hxr as [Hxc Hxf].
                destruct (min_remaining_exists dist srt n k prior c' c0 (map fst xr)) as [rem Hr]; auto; try lia.
                { rewrite map_length, app_length. simpl in *. lia. }
                congruence.
          -- intros x Hx Hxl Hlt. destruct (Hcases x Hx Hxl Hlt) as (c0 & s0 & xr & -> & Ha0 & Hn0 & Hs0 & Hxr & Hxrl & Hc0).
             destruct Hc0 as [[-> Hss]|Hc0]; [exact (Hnext _ Hs0 Hss)|].
             apply (Hnv c0); [lia|]. intros; eapply allowed_dist; eauto.
  Qed.
End ChoicesNext.

(* ---- the specification-level statements -------------------------------------------------------------------- *)
Definition next_spec (s : dspec) : Prop := forall d, valid s d = true ->
  match next s d with
  | Some d' => valid s d' = true /\ scmp d d' = Lt /\ (forall x, valid s x = true -> scmp d x = Lt -> scmp x d' <> Lt)
  | None => forall x, valid s x = true -> scmp d x <> Lt
  end.
Definition first_spec (s : dspec) : Prop :=
  valid s (first s) = true /\ forall x, valid s x = true -> scmp x (first s) <> Lt.
Definition next_spec_p (p : dpoint) : Prop := forall d, valid_p p d = true ->
  match next_p p d with
  | Some d' => valid_p p d' = true /\ pcmp d d' = Lt /\ (forall x, valid_p p x = true -> pcmp d x = Lt -> pcmp x d' <> Lt)
  | None => forall x, valid_p p x = true -> pcmp d x <> Lt
  end.
Definition first_spec_p (p : dpoint) : Prop :=
  valid_p p (first_p p) = true /\ forall x, valid_p p x = true -> pcmp x (first_p p) <> Lt.

Lemma take_min_true_seq : forall k a n, k <= n -> take_min true k (seq a n) = Some (seq a k).
Proof.
  induction k; intros a n H; simpl; auto. destruct n; [lia|]. simpl. rewrite IHk by lia. reflexivity.
Qed.
Lemma take_min_false_const : forall k a l, take_min false k (a :: l) = Some (map (fun _ => a) (seq 0 k)).
Proof.
  induction k; intros; simpl; auto. rewrite IHk. simpl. rewrite <- seq_shift, map_map. reflexivity.
Qed.
Lemma min_remaining_nil : forall dist srt n k, 1 <= n -> (dist = true -> k <= n) ->
  min_remaining dist srt n k [] = Some (map (fun i => if dist then i else O) (seq 0 k)).
Proof.
  intros dist srt n k Hn Hk. unfold min_remaining. simpl.
  replace (if srt then O else O) with O by (destruct srt; auto).
  rewrite !Nat.sub_0_r.
  rewrite (filter_ext _ (fun _ => true)) by (intros; unfold memb; simpl; destruct dist; auto).
  assert (E : forall l : list nat, filter (fun _ => true) l = l) by (induction l; simpl; congruence).
  rewrite E. destruct dist.
  - rewrite take_min_true_seq by (apply Hk; reflexivity). f_equal. rewrite map_id. reflexivity.
  - destruct n; [lia|]. simpl seq. apply take_min_false_const.
Qed.

Lemma valid_p_choices : forall k cands dist srt nm lits cs,
  valid_p (Choices k cands dist srt nm lits) (PChoices cs) = true <->
  length cs = k /\ VT dist srt (length cands) (fun c sub => with_nth (fun s => valid s sub) false cands c = true) [] cs.
Proof.
  intros. simpl. rewrite !andb_true_iff, Nat.eqb_eq, forallb_forall. unfold VT, VC, constraint_ok. split.
  - intros [[H1 H2] H3]. repeat split; auto.
    + apply Forall_forall. intros y Hy. apply in_map_iff in Hy as [[c sub] [<- Hin]]. simpl.
      specialize (H3 _ Hin). simpl in H3. rewrite with_nth_nth_error in H3.
      destruct (nth_error cands c) eqn:E; [|discriminate]. apply nth_error_Some. congruence.
    + apply Forall_forall. intros x Hx. apply H3; auto.
  - intros [H1 [[H2 _] H3]]. repeat split; auto. rewrite Forall_forall in H3. auto.
Qed.

Lemma VT_bound_n : forall dist srt n VS prior l, VT dist srt n VS prior l -> Forall (fun x => fst x < n) l.
Proof.
  intros dist srt n VS prior l [[_ Hb] _]. apply Forall_forall. intros x Hx. rewrite Forall_forall in Hb.
  apply Hb. apply in_map; auto.
Qed.

Lemma wf_p_choices : forall k cands dist srt nm lits, wf_p (Choices k cands dist srt nm lits) = true ->
  1 <= k /\ 1 <= length cands /\ (dist = true -> k <= length cands) /\ forallb wf cands = true.
Proof.
  intros k cands dist srt nm lits H.
  change (((1 <=? k) && (1 <=? length cands) && (negb dist || (k <=? length cands)) &&
           ((length lits =? 0) || (length lits =? length cands)) && forallb wf cands) = true) in H.
  apply andb_true_iff in H as [H Hc]. apply andb_true_iff in H as [H _].
  apply andb_true_iff in H as [H Hd]. apply andb_true_iff in H as [Hk Hn].
  apply Nat.leb_le in Hk, Hn. repeat split; auto.
  intros ->. simpl in Hd. apply Nat.leb_le; auto.
Qed.

Lemma spec_both :
  (forall s, finite s = true -> wf s = true -> next_spec s /\ first_spec s) /\
  (forall p, finite_p p = true -> wf_p p = true -> next_spec_p p /\ first_spec_p p).
Proof.
  apply dspec_dpoint_ind.
  - (* Space: the odometer over the elements *)
    intros es IH Hfin Hwf. simpl in Hfin, Hwf.
    assert (Hn : Forall (next_ok (fun e x => valid_p e x = true) pcmp next_p) es /\
                 Forall (first_ok (fun e x => valid_p e x = true) pcmp first_p) es).
    { rewrite forallb_forall in Hfin, Hwf. rewrite Forall_forall in IH.
      split; apply Forall_forall; intros e He; destruct (IH e He (Hfin e He) (Hwf e He)) as [H1 H2]; auto. }
    destruct Hn as [Hn Hf]. split.
    + intros [ds] Hv. simpl in Hv. apply forallb2_Forall2 in Hv.
      pose proof (odometer_ok (fun e x => valid_p e x = true) pcmp pcmp_refl pcmp_eq pcmp_antisym next_p first_p es Hn Hf ds Hv) as H.
      simpl. destruct (odometer next_p first_p es ds) as [r|]; simpl.
      * destruct H as (H1 & H2 & H3). split; [apply forallb2_Forall2; auto|]. split; auto.
        intros [xs] Hx. simpl in Hx. apply forallb2_Forall2 in Hx. apply H3; auto.
      * intros [xs] Hx. simpl in Hx. apply forallb2_Forall2 in Hx. apply H; auto.
    + destruct (firsts_min (fun e x => valid_p e x = true) pcmp first_p es Hf) as [H1 H2]. split.
      * simpl. apply forallb2_Forall2; auto.
      * intros [xs] Hx. simpl in Hx. apply forallb2_Forall2 in Hx. apply H2; auto.
  - (* Choices *)
    intros k cands dist srt nm lits IH Hfin Hwf. simpl in Hfin.
    apply wf_p_choices in Hwf as (Hwk & Hwn & Hdk & Hwc).
    set (n := length cands).
    set (VS := fun c sub => with_nth (fun s => valid s sub) false cands c = true).
    set (nxt := fun c sub => with_nth (fun s => next s sub) None cands c).
    set (fst_ := fun c => with_nth first (SSpace []) cands c).
    assert (Hcand : forall c, c < n -> exists sc, nth_error cands c = Some sc /\ next_spec sc /\ first_spec sc).
    { intros c Hc. destruct (nth_error cands c) as [sc|] eqn:E; [|apply nth_error_None in E; unfold n in Hc; lia].
      exists sc. split; auto. rewrite forallb_forall in Hfin, Hwc.
      eapply nth_error_Forall in IH; eauto. apply IH; [apply Hfin|apply Hwc]; eapply nth_error_In; eauto. }
    assert (Hnext : forall c, c < n -> forall sub, VS c sub ->
              match nxt c sub with
              | Some s' => VS c s' /\ scmp sub s' = Lt /\ (forall x, VS c x -> scmp sub x = Lt -> scmp x s' <> Lt)
              | None => forall x, VS c x -> scmp sub x <> Lt end).
    { intros c Hc sub Hs. destruct (Hcand c Hc) as (sc & E & Hns & _). unfold VS, nxt in *.
      rewrite with_nth_nth_error, E in Hs. rewrite with_nth_nth_error, E.
      specialize (Hns sub Hs). destruct (next sc sub).
      - destruct Hns as (A & B & C). rewrite with_nth_nth_error, E. repeat split; auto.
        intros x Hx. rewrite with_nth_nth_error, E in Hx. auto.
      - intros x Hx. rewrite with_nth_nth_error, E in Hx. auto. }
    assert (Hfirst : forall c, c < n -> VS c (fst_ c) /\ forall x, VS c x -> scmp x (fst_ c) <> Lt).
    { intros c Hc. destruct (Hcand c Hc) as (sc & E & _ & [Hf1 Hf2]). unfold VS, fst_.
      rewrite !with_nth_nth_error, E. split; auto. intros x Hx. rewrite with_nth_nth_error, E in Hx. auto. }
    split.
    + intros [cs| |] Hv; try discriminate.
      apply valid_p_choices in Hv as [Hl Hv].
      pose proof (choices_next_ok dist srt n k VS nxt fst_ Hnext Hfirst cs [] ltac:(simpl; lia) Hv) as H.
      simpl next_p. fold n. change (fun c sub => with_nth (fun s => next s sub) None cands c) with nxt.
      change (fun c => with_nth first (SSpace []) cands c) with fst_.
      destruct (choices_next dist srt n k nxt fst_ [] cs) as [r|]; simpl.
      * destruct H as (H1 & H2 & H3 & H4). split; [apply (proj2 (valid_p_choices k cands dist srt nm lits r)); split; auto; lia|]. split; auto.
        intros [xs| |] Hx; try discriminate. apply (proj1 (valid_p_choices k cands dist srt nm lits xs)) in Hx as [Hxl Hx]. intros Hlt. apply H4; auto. lia.
      * intros [xs| |] Hx; try discriminate. apply (proj1 (valid_p_choices k cands dist srt nm lits xs)) in Hx as [Hxl Hx]. apply H; auto. lia.
    + (* first_dna = the greedy completion of the empty prefix *)
      assert (Ef : first_p (Choices k cands dist srt nm lits) =
                   PChoices (firsts fst_ (map (fun i => if dist then i else O) (seq 0 k)))).
      { simpl. f_equal. unfold firsts. rewrite map_map. apply map_ext. intros i. destruct dist; reflexivity. }
      pose proof (min_remaining_nil dist srt n k Hwn Hdk) as Hmr.
      destruct (min_remaining_sound _ _ _ _ _ _ Hmr) as [Hvc Hrl].
      unfold first_spec_p. rewrite Ef. split.
      * apply (proj2 (valid_p_choices k cands dist srt nm lits _)). split.
        { unfold firsts. rewrite !map_length, seq_length. reflexivity. }
        apply firsts_VT; auto.
      * intros [xs| |] Hx; try discriminate. apply (proj1 (valid_p_choices k cands dist srt nm lits xs)) in Hx as [Hxl [Hxc Hxf]].
        destruct (min_remaining_min dist srt n k [] (map fst xs) Hxc) as [rem [Hrem Hmin]].
        { rewrite map_length. simpl. lia. }
        rewrite Hmr in Hrem. injection Hrem as <-.
        change (pcmp (PChoices xs) (PChoices (firsts fst_ (map (fun i => if dist then i else O) (seq 0 k)))))
          with (list_cmp ccmp xs (firsts fst_ (map (fun i => if dist then i else O) (seq 0 k)))).
        apply (firsts_least n VS fst_ Hfirst); auto.
        { rewrite map_length, seq_length. lia. }
        eapply VT_bound. split; eauto.
  - intros; discriminate.
  - intros; discriminate.
Qed.

Lemma next_spec_holds : forall s, finite s = true -> wf s = true -> next_spec s.
Proof. intros. apply spec_both; auto. Qed.
Lemma first_spec_holds : forall s, finite s = true -> wf s = true -> first_spec s.
Proof. intros. apply spec_both; auto. Qed.

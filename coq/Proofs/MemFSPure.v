(* MemFSPure.v — histories over a prefix-free family of paths: every save succeeds, reading is last_saved. *)
From PG Require Import Common.Tactics Model.Json Model.MemFS Proofs.JsonProofs Proofs.JsonStrProofs
  Proofs.MemFSPaths Proofs.MemFSTree Proofs.MemFSProofs.
From Coq Require Import NArith.

(* --- directories ---------------------------------------------------------------------------------------- *)
Lemma is_dir_at_dir_cons : forall es x r,
  is_dir_at (NDir es) (x :: r) = match alookup x es with Some ch => is_dir_at ch r | None => false end.
Proof. intros. unfold is_dir_at. simpl. destruct (alookup x es); reflexivity. Qed.

Lemma is_dir_upd_dir_frame : forall g pcs root es cs',
  locate root pcs = LFound (NDir es) -> (forall rest, cs' <> pcs ++ rest) ->
  is_dir_at (upd_dir g root pcs) cs' = is_dir_at root cs'.
Proof.
  induction pcs as [|c pcs IH]; intros root es cs' H Hne.
  - exfalso. apply (Hne cs'). reflexivity.
  - simpl in H. destruct root as [|es0]; [discriminate|].
    destruct (alookup c es0) as [ch|] eqn:E; [|discriminate].
    simpl. rewrite E. destruct cs' as [|c' r']; [reflexivity|].
    rewrite !is_dir_at_dir_cons.
    destruct (str_eq_dec c' c) as [Ec|Ec].
    + subst c'. rewrite alookup_aset_same, E. eapply IH; [exact H|].
      intros rest X. apply (Hne rest). simpl. congruence.
    + rewrite alookup_aset_other by assumption. reflexivity.
Qed.

(* replacing / adding / removing a *file* entry of a directory changes no directory *)
Lemma is_dir_upd_dir_entry : forall g pcs root es,
  locate root pcs = LFound (NDir es) ->
  (forall x r, is_dir_at (NDir (g es)) (x :: r) = is_dir_at (NDir es) (x :: r)) ->
  forall cs, is_dir_at (upd_dir g root pcs) cs = is_dir_at root cs.
Proof.
  intros g pcs root es Hl Hg cs. destruct (prefix_cases pcs cs) as [[rest A]|A].
  - subst cs. unfold is_dir_at at 1 2. rewrite (locate_upd_dir_below _ _ _ _ _ Hl). rewrite (locate_app _ _ _ _ Hl).
    destruct rest as [|x r]; [reflexivity|]. apply Hg.
  - eapply is_dir_upd_dir_frame; eassumption.
Qed.
Lemma is_dir_fresh : forall root pcs es name c,
  locate root pcs = LFound (NDir es) ->
  (alookup name es = None \/ exists old, alookup name es = Some (NFile old)) ->
  forall cs, is_dir_at (upd_dir (aset name (NFile c)) root pcs) cs = is_dir_at root cs.
Proof.
  intros root pcs es name c Hl Hn. apply (is_dir_upd_dir_entry _ _ _ _ Hl).
  intros x r. rewrite !is_dir_at_dir_cons. destruct (str_eq_dec x name) as [E|E].
  - subst x. rewrite alookup_aset_same. destruct Hn as [Hn|[old Hn]]; rewrite Hn; destruct r; reflexivity.
  - rewrite alookup_aset_other by assumption. reflexivity.
Qed.
Lemma is_dir_remove : forall root pcs es name old,
  names_nodup es = true -> locate root pcs = LFound (NDir es) -> alookup name es = Some (NFile old) ->
  forall cs, is_dir_at (upd_dir (aremove name) root pcs) cs = is_dir_at root cs.
Proof.
  intros root pcs es name old Hnd Hl Hn. apply (is_dir_upd_dir_entry _ _ _ _ Hl).
  intros x r. rewrite !is_dir_at_dir_cons. destruct (str_eq_dec x name) as [E|E].
  - subst x. rewrite alookup_aremove_same by assumption. rewrite Hn. destruct r; reflexivity.
  - rewrite alookup_aremove_other by assumption. reflexivity.
Qed.

Lemma upd_dir_is_dir : forall g pcs es, exists es', upd_dir g (NDir es) pcs = NDir es'.
Proof. intros g [|c pcs] es; simpl; [eexists; reflexivity|]. destruct (alookup c es); eexists; reflexivity. Qed.

(* --- mkdirs ------------------------------------------------------------------------------------------------ *)
Lemma locate_mkchain : forall cs, exists es, locate (mkchain cs) cs = LFound (NDir es).
Proof. induction cs as [|c cs [es IH]]; simpl; [eexists; reflexivity|]. rewrite str_eqb_refl. exists es. exact IH. Qed.
Lemma is_dir_mkchain : forall l r, is_dir_at (mkchain l) r = true -> exists suf, l = r ++ suf.
Proof.
  induction l as [|c l IH]; intros r H.
  - destruct r; [exists []; reflexivity | discriminate].
  - destruct r as [|x r]; [eexists; reflexivity|].
    simpl in H. rewrite is_dir_at_dir_cons in H. simpl in H. destruct (str_eqb x c) eqn:E; [|discriminate].
    apply str_eqb_eq in E. subst x. destruct (IH _ H) as [suf Es]. exists suf. simpl. congruence.
Qed.

Lemma mkdirs_at_succeeds : forall cs es,
  (forall pre suf, cs = pre ++ suf -> file_at (NDir es) pre = None) -> exists root', mkdirs_at (NDir es) cs = FOk root'.
Proof.
  induction cs as [|c cs IH]; intros es H; [eexists; reflexivity|].
  simpl. destruct (alookup c es) as [[x|es']|] eqn:E.
  - exfalso. specialize (H [c] cs eq_refl). rewrite file_at_dir_cons, E in H. discriminate.
  - destruct (IH es') as [ch' Hc].
    + intros pre suf Ecs. specialize (H (c :: pre) suf). rewrite file_at_dir_cons, E in H. apply H. simpl. congruence.
    + rewrite Hc. eexists. reflexivity.
  - eexists. reflexivity.
Qed.
Lemma mkdirs_at_target : forall cs es root', mkdirs_at (NDir es) cs = FOk root' ->
  (exists es', root' = NDir es') /\ exists es2, locate root' cs = LFound (NDir es2).
Proof.
  induction cs as [|c cs IH]; intros es root' H.
  - simpl in H. inv H. split; eexists; reflexivity.
  - simpl in H. destruct (alookup c es) as [[x|es']|] eqn:E; [discriminate| |].
    + destruct (mkdirs_at (NDir es') cs) as [ch'|] eqn:Em; [|discriminate]. inv H.
      destruct (IH _ _ Em) as [_ [es2 L]]. split; [eexists; reflexivity|]. exists es2. simpl. rewrite alookup_aset_same. exact L.
    + inv H. split; [eexists; reflexivity|]. destruct (locate_mkchain cs) as [es2 L]. exists es2.
      simpl. rewrite alookup_app_new, E, str_eqb_refl. exact L.
Qed.
Lemma mkdirs_at_dirs : forall cs0 es root', mkdirs_at (NDir es) cs0 = FOk root' ->
  forall cs, is_dir_at root' cs = true -> is_dir_at (NDir es) cs = true \/ exists suf, cs0 = cs ++ suf.
Proof.
  induction cs0 as [|c cs0 IH]; intros es root' H cs Hd.
  - simpl in H. inv H. left. exact Hd.
  - simpl in H. destruct (alookup c es) as [[x|es']|] eqn:E; [discriminate| |].
    + destruct (mkdirs_at (NDir es') cs0) as [ch'|] eqn:Em; [|discriminate]. inv H.
      destruct cs as [|x r]; [left; reflexivity|].
      rewrite is_dir_at_dir_cons in Hd. rewrite is_dir_at_dir_cons.
      destruct (str_eq_dec x c) as [Ex|Ex].
      * subst x. rewrite alookup_aset_same in Hd. rewrite E. destruct (IH _ _ Em _ Hd) as [A|[suf A]]; [left; exact A | right; exists suf; simpl; congruence].
      * rewrite alookup_aset_other in Hd by assumption. left. exact Hd.
    + inv H. destruct cs as [|x r]; [left; reflexivity|].
      rewrite is_dir_at_dir_cons in Hd. rewrite is_dir_at_dir_cons. rewrite alookup_app_new in Hd.
      destruct (alookup x es) as [y|] eqn:Ex; [left; exact Hd|].
      destruct (str_eqb x c) eqn:Exc; [|discriminate]. apply str_eqb_eq in Exc. subst x.
      destruct (is_dir_mkchain _ _ Hd) as [suf A]. right. exists suf. simpl. congruence.
Qed.

Definition is_readonly (o : op) : bool :=
  match o with ORead _ | OExists _ | OListdir _ | OIsdir _ | OSeqRead _ => true | _ => false end.
Lemma readonly_step : forall root o, is_readonly o = true -> exists out, step root o = (root, out).
Proof.
  intros root o H. unfold step. destruct (negb (routed (op_path o))); [eexists; reflexivity|].
  destruct o; try discriminate; unfold obs.
  - destruct (read_file root p); eexists; reflexivity.
  - destruct (exists_ root p); eexists; reflexivity.
  - destruct (listdir root p); eexists; reflexivity.
  - destruct (isdir root p); eexists; reflexivity.
  - destruct (seq_read root p); eexists; reflexivity.
Qed.

(* --- the invariant of histories over a family ------------------------------------------------------------------ *)
Section Family.
  Variable F : list str.
  Hypothesis HF : family_ok F.

  Definition inv (root : node) : Prop :=
    wf_node root = true /\ (exists es, root = NDir es) /\
    (forall cs c, file_at root cs = Some c -> exists p, In p F /\ cs = components p) /\
    (forall cs, is_dir_at root cs = true -> cs = [] \/ exists p suf, In p F /\ suf <> [] /\ components p = cs ++ suf).

  Lemma family_path : forall p, In p F ->
    routed p = true /\ exists h name, rsplit p = Some (h, name) /\ name <> [] /\ components p = components h ++ [name].
  Proof.
    intros p Hp. destruct HF as [H1 _]. destruct (H1 p Hp) as [Hr [Hs Hn]]. split; [exact Hr|].
    destruct (rsplit p) as [[h name]|] eqn:E; [|contradiction]. exists h, name. split; [reflexivity|].
    assert (Hne : name <> []). { intro X. subst name. unfold slashed in Hs. rewrite E in Hs. discriminate. }
    split; [exact Hne|]. rewrite (components_rsplit p h name Hr E). rewrite name_part_cons by assumption. reflexivity.
  Qed.

  Lemma no_file_on_the_way : forall root p pre suf, inv root -> In p F -> components p = pre ++ suf -> suf <> [] ->
    file_at root pre = None.
  Proof.
    intros root p pre suf [_ [_ [Hf _]]] Hp E Hs. destruct (file_at root pre) as [c|] eqn:Ef; [|reflexivity].
    destruct (Hf _ _ Ef) as [p' [Hp' Ep']]. subst pre. destruct HF as [_ H2].
    exfalso. apply Hs. eapply (H2 p' p suf); eassumption.
  Qed.
  Lemma family_path_not_dir : forall root p, inv root -> In p F -> is_dir_at root (components p) = false.
  Proof.
    intros root p [_ [_ [_ Hd]]] Hp. destruct (is_dir_at root (components p)) eqn:E; [|reflexivity].
    destruct (family_path p Hp) as [_ [h [name [_ [_ Ec]]]]].
    destruct (Hd _ E) as [X|[p' [suf [Hp' [Hs Ep']]]]].
    - rewrite Ec in X. destruct (components h); discriminate.
    - destruct HF as [_ H2]. exfalso. apply Hs. eapply (H2 p p' suf); eassumption.
  Qed.

  Lemma inv_empty : inv empty_fs.
  Proof.
    split; [reflexivity|]. split; [eexists; reflexivity|]. split.
    - intros cs c H. destruct cs; discriminate.
    - intros cs H. destruct cs; [left; reflexivity | discriminate].
  Qed.

  (* mkdirs of the parent directory always succeeds and leads to a directory *)
  Lemma parent_made : forall root p h name, inv root -> In p F -> rsplit p = Some (h, name) -> name <> [] ->
    components p = components h ++ [name] ->
    exists root1, mk_parent root p = FOk root1 /\ inv root1 /\ (forall cs, file_at root1 cs = file_at root cs) /\
                  exists es2, locate root1 (components h) = LFound (NDir es2).
  Proof.
    intros root p h name Hinv Hp Es Hne Ec.
    destruct (family_path p Hp) as [Hr _].
    destruct (dirname_components p h name Hr Es) as [Hd Hcases].
    pose proof Hinv as [W [[es Eroot] [Hf Hdirs]]].
    unfold mk_parent. destruct (dirname p) as [|d0 d] eqn:Ed; [contradiction|].
    destruct Hcases as [[Hrd Hcd]|[Hrd Hcd]]; rewrite Hrd.
    - unfold mkdirs. rewrite Hcd. subst root.
      destruct (mkdirs_at_succeeds (components h) es) as [root1 Hm].
      { intros pre suf E. apply (no_file_on_the_way (NDir es) p pre (suf ++ [name]) Hinv Hp).
        - rewrite Ec, E, app_assoc. reflexivity.
        - destruct suf; discriminate. }
      exists root1. split; [exact Hm|].
      destruct (mkdirs_at_spec _ _ _ W Hm) as [W1 F1].
      destruct (mkdirs_at_target _ _ _ Hm) as [[es1 E1] [es2 L2]].
      split; [|split; [exact F1 | exists es2; exact L2]].
      split; [exact W1|]. split; [exists es1; exact E1|]. split.
      + intros cs c H. rewrite F1 in H. apply (Hf _ _ H).
      + intros cs H. destruct (mkdirs_at_dirs _ _ _ Hm _ H) as [A|[suf A]]; [apply Hdirs; exact A|].
        destruct cs as [|x r]; [left; reflexivity|]. right. exists p, (suf ++ [name]).
        split; [exact Hp|]. split; [destruct suf; discriminate|]. rewrite Ec, A, app_assoc. reflexivity.
    - exists root. split; [reflexivity|]. split; [exact Hinv|]. split; [reflexivity|].
      rewrite Hcd. subst root. exists es. reflexivity.
  Qed.

  Lemma save_step : forall root p c, inv root -> In p F ->
    exists root', step root (OSave p c) = (root', RUnit) /\ inv root' /\
                  forall cs, file_at root' cs = aupd (file_at root) (components p) (Some c) cs.
  Proof.
    intros root p c Hinv Hp.
    destruct (family_path p Hp) as [Hr [h [name [Es [Hne Ec]]]]].
    destruct (parent_made root p h name Hinv Hp Es Hne Ec) as [root1 [Hm [Hinv1 [F1 [es2 L2]]]]].
    pose proof (family_path_not_dir root1 p Hinv1 Hp) as Hnd.
    assert (Hentry : alookup name es2 = None \/ exists old, alookup name es2 = Some (NFile old)).
    { unfold is_dir_at in Hnd. rewrite Ec, locate_snoc, L2 in Hnd.
      destruct (alookup name es2) as [[old|es3]|]; [right; eexists; reflexivity | discriminate | left; reflexivity]. }
    exists (upd_dir (aset name (NFile c)) root1 (components h)).
    split.
    - unfold step. simpl. rewrite Hr. simpl. unfold upd2, save_text. rewrite Hm.
      unfold write_file. rewrite Ec, locate_snoc, L2.
      unfold parent_and_name. rewrite Es, L2.
      destruct Hentry as [Hn|[old Hn]]; rewrite Hn; reflexivity.
    - destruct Hinv1 as [W1 [[es1 E1] [Hf1 Hd1]]]. split.
      + split; [apply wf_fresh; exact W1|]. split; [subst root1; apply upd_dir_is_dir|]. split.
        * intros cs c0 H. rewrite (fresh_spec _ _ _ _ c L2 Hentry) in H.
          destruct (strs_eq_dec cs (components h ++ [name])) as [E|E].
          -- exists p. split; [exact Hp | congruence].
          -- rewrite aupd_other in H by assumption. apply (Hf1 _ _ H).
        * intros cs H. rewrite (is_dir_fresh _ _ _ _ c L2 Hentry) in H. apply Hd1. exact H.
      + intro cs. rewrite (fresh_spec _ _ _ _ c L2 Hentry). rewrite Ec. unfold aupd. rewrite F1. reflexivity.
  Qed.

  Lemma rm_fail_absent : forall root p e h name, rm root p = FErr e -> rsplit p = Some (h, name) ->
    file_at root (components h ++ [name]) = None.
  Proof.
    intros root p e h name H Es. unfold rm, parent_and_name in H. rewrite Es in H.
    unfold file_at. rewrite locate_snoc.
    destruct (locate root (components h)) as [[x|es]| |]; try reflexivity.
    destruct (alookup name es) as [[old|es']|]; try reflexivity. discriminate.
  Qed.

  Lemma rm_step : forall root p root' out, inv root -> In p F -> step root (ORm p) = (root', out) ->
    inv root' /\ forall cs, file_at root' cs = aupd (file_at root) (components p) None cs.
  Proof.
    intros root p root' out Hinv Hp H.
    destruct (family_path p Hp) as [Hr [h [name [Es [Hne Ec]]]]].
    unfold step in H. simpl in H. rewrite Hr in H. simpl in H. unfold upd in H.
    destruct (rm root p) as [r|e] eqn:E; inv H.
    - pose proof E as E0. unfold rm, parent_and_name in E. rewrite Es in E.
      destruct (locate root (components h)) as [[x|es]| |] eqn:L; try discriminate.
      destruct (alookup name es) as [[old|es']|] eqn:Ea; try discriminate. inv E.
      destruct Hinv as [W [[es0 E0'] [Hf Hd]]].
      assert (Hnd : names_nodup es = true).
      { pose proof (wf_locate _ _ _ W L) as X. simpl in X. apply andb_true_iff in X. tauto. }
      split.
      + split; [apply wf_remove; exact W|]. split; [subst root; apply upd_dir_is_dir|]. split.
        * intros cs c0 H. rewrite (remove_spec _ _ _ _ _ W L Ea) in H.
          destruct (strs_eq_dec cs (components h ++ [name])) as [X|X]; [subst cs; rewrite aupd_same in H; discriminate|].
          rewrite aupd_other in H by assumption. apply (Hf _ _ H).
        * intros cs H. rewrite (is_dir_remove _ _ _ _ _ Hnd L Ea) in H. apply Hd. exact H.
      + intro cs. rewrite (remove_spec _ _ _ _ _ W L Ea). rewrite Ec. reflexivity.
    - split; [exact Hinv|]. intro cs. pose proof (rm_fail_absent _ _ _ _ _ E Es) as Hnone. rewrite <- Ec in Hnone.
      unfold aupd. destruct (strs_eqb cs (components p)) eqn:X; [|reflexivity].
      apply strs_eqb_eq in X. subst cs. exact Hnone.
  Qed.

  Lemma pure_fold_ext : forall h a b, (forall cs, a cs = b cs) -> forall cs, fold_left pure_step h a cs = fold_left pure_step h b cs.
  Proof.
    induction h as [|o h IH]; intros a b E cs; [apply E|]. simpl. apply IH. intro cs'.
    destruct o; simpl; try apply E; unfold aupd; destruct (strs_eqb cs' _); try reflexivity; apply E.
  Qed.

  Definition is_save (o : op) : bool := match o with OSave _ _ => true | _ => false end.

  Theorem family_history : forall h root, inv root -> Forall (family_op F) h ->
    inv (run_fs root h) /\
    (forall cs, file_at (run_fs root h) cs = fold_left pure_step h (file_at root) cs) /\
    (forall o out, In (o, out) (trace_of root h) -> is_save o = true -> out = RUnit).
  Proof.
    induction h as [|o h IH]; intros root Hinv Hops.
    - split; [exact Hinv|]. split; [reflexivity|]. intros o out [].
    - inv Hops. rename H1 into Ho. rename H2 into Hh.
      assert (Hstep : exists r1 out1, step root o = (r1, out1) /\ inv r1 /\
                        (forall cs, file_at r1 cs = pure_step (file_at root) o cs) /\ (is_save o = true -> out1 = RUnit)).
      { destruct o as [p c|p|p|p|p|p|p|p m c|p m rs|p|p|p|p]; simpl in Ho; try contradiction;
          try (match goal with |- exists r1 out1, step root ?o = _ /\ _ =>
                 destruct (readonly_step root o eq_refl) as [out1 Es1] end;
               exists root, out1; split; [exact Es1|]; split; [exact Hinv|]; split; [reflexivity | discriminate]).
        - destruct (save_step root p c Hinv Ho) as [r1 [Hs [Hi Hf]]].
          exists r1, RUnit. split; [exact Hs|]. split; [exact Hi|]. split; [exact Hf | reflexivity].
        - destruct (step root (ORm p)) as [r1 out1] eqn:Es. destruct (rm_step _ _ _ _ Hinv Ho Es) as [Hi Hf].
          exists r1, out1. split; [reflexivity|]. split; [exact Hi|]. split; [exact Hf | discriminate]. }
      destruct Hstep as [r1 [out1 [Es [Hi1 [Hf1 Hs1]]]]].
      destruct (IH r1 Hi1 Hh) as [Hi2 [Hf2 Hs2]].
      unfold run_fs, trace_of in *. simpl. rewrite Es.
      destruct (run_trace r1 h) as [r2 outs] eqn:Er. simpl in *.
      split; [exact Hi2|]. split.
      + intro cs. rewrite Hf2. apply pure_fold_ext. exact Hf1.
      + intros o' out' [X|X] Hsv; [inv X; apply Hs1; exact Hsv | eapply Hs2; eassumption].
  Qed.

  (* from the empty file system: every save succeeds and what is read is the last value saved *)
  Theorem read_your_writes_pure : forall h, Forall (family_op F) h ->
    (forall o out, In (o, out) (trace_of empty_fs h) -> is_save o = true -> out = RUnit) /\
    forall p, match last_saved h (components p) with
              | Some c => read_file (run_fs empty_fs h) p = FOk c
              | None => exists e, read_file (run_fs empty_fs h) p = FErr e
              end.
  Proof.
    intros h Hops. destruct (family_history h empty_fs inv_empty Hops) as [_ [Hf Hs]].
    split; [exact Hs|]. intro p.
    assert (E : file_at (run_fs empty_fs h) (components p) = last_saved h (components p)).
    { rewrite Hf. unfold last_saved. apply pure_fold_ext. intro cs. destruct cs; reflexivity. }
    destruct (last_saved h (components p)) as [c|].
    - apply read_file_file_at. exact E.
    - apply read_file_err. exact E.
  Qed.
End Family.

(* the look-alike paths form a family *)
Definition ex_family : list str := [p_mjson; p_em; p_memx].
Example ex_family_ok : family_ok ex_family.
Proof.
  split.
  - intros p [E|[E|[E|[]]]]; subst p; vm_compute; repeat split; discriminate.
  - intros p p' suf [E|[E|[E|[]]]] [E'|[E'|[E'|[]]]] H; subst p p'; vm_compute in H;
      repeat match goal with
             | H : _ :: _ = _ :: _ |- _ => inv H
             | H : [] = _ ++ _ |- _ => symmetry in H; apply app_eq_nil in H; destruct H; subst
             | H : _ :: _ = [] |- _ => discriminate
             | H : [] = _ :: _ |- _ => discriminate
             end; try reflexivity; try discriminate.
Qed.
Example ex_family_history :
  Forall (family_op ex_family) [OSave p_mjson [49%N]; OSave p_em [50%N]; ORead p_mjson; OSave p_mjson [51%N]; ORm p_em; OListdir p_memx] /\
  last_saved [OSave p_mjson [49%N]; OSave p_em [50%N]; ORead p_mjson; OSave p_mjson [51%N]; ORm p_em; OListdir p_memx] (components p_mjson) = Some [51%N].
Proof. split; [repeat constructor; simpl; tauto | reflexivity]. Qed.

(* SchedSound2.v — second layer of invariants on top of Proofs/SchedSound.v (same discipline, same annotations):
   same group / same pending trial, every trial belongs to the group it was delivered to, the best trial is a feasible trial of
   maximal reward, one study per name, and the list of reports to the algorithm.  Same method: preserved by one act of an
   arbitrary thread. *)
From PG Require Import Common.Tactics Model.Sched Model.SchedDisc Proofs.SchedBase Proofs.SchedMutex Proofs.SchedSound.

Definition pdec : forall x y : nat * nat, {x = y} + {x <> y}.
Proof. decide equality; apply Nat.eq_dec. Defined.

Lemma alookup_aset_eq : forall l k v, alookup (aset l k v) k = Some v.
Proof. induction l as [|[k' v'] l]; simpl; intros. rewrite Nat.eqb_refl. auto. destruct (Nat.eqb k' k) eqn:E; simpl. rewrite Nat.eqb_refl. auto. rewrite E. auto. Qed.

Lemma alookup_aset_neq : forall l k k2 v, k <> k2 -> alookup (aset l k v) k2 = alookup l k2.
Proof.
  induction l as [|[k' v'] l]; simpl; intros.
  - destruct (Nat.eqb k k2) eqn:E; auto. apply Nat.eqb_eq in E. contradiction.
  - destruct (Nat.eqb k' k) eqn:E; simpl.
    + apply Nat.eqb_eq in E. subst. destruct (Nat.eqb k k2) eqn:E2; auto. apply Nat.eqb_eq in E2. contradiction.
    + destruct (Nat.eqb k' k2); auto.
Qed.

Section Sound2.
Variable ps : progs.
Variable c : cfg.
Hypothesis HD : disciplined ps = true.

Definition lat (g : gstate) (gk : nat) : option nat := alookup (s_latest (St g)) gk.

Record sat2 (g : gstate) (t : nat) (th : tstate) (a : astate) : Prop := {
  s2_gotlat : f_gotlat a = true -> holds LStudy (a_locks a) = true /\ r_trial th = lat g (r_group th);
  s2_latdone : f_latdone a = true -> holds LStudy (a_locks a) = true /\
               match lat g (r_group th) with Some j => exists x, nth_error (T g) j = Some x /\ t_done x = true | None => True end;
  s2_mine : f_mine a = true -> match r_trial th with Some i => exists x, nth_error (T g) i = Some x /\ t_group x = r_group th | None => True end;
  s2_bestfresh : f_bestfresh a = true -> holds LStudy (a_locks a) = true /\ r_best th = s_best (St g);
  s2_better : f_better a = true -> holds LStudy (a_locks a) = true /\
              exists i x, r_cur th = Some i /\ g_own (gh th) = Some i /\ nth_error (T g) i = Some x /\ t_owner x = Some t /\
                match s_best (St g) with
                | None => True
                | Some b => exists rc xb rb, t_final x = Some rc /\ nth_error (T g) b = Some xb /\ t_final xb = Some rb /\ (rb < rc)%Z
                end;
  s2_dlatlock : d_lat a = true -> holds LStudy (a_locks a) = true
}.

Record GI2 (g : gstate) (ts : list tstate) : Prop := {
  g2_regnone : forall t th, nth_error ts t = Some th -> g_reg (gh th) = true -> registry g = None;
  g2_latest : forall gk i, lat g gk = Some i -> exists x, nth_error (T g) i = Some x /\ t_group x = gk;
  g2_same : forall i x, nth_error (T g) i = Some x -> t_done x = false ->
            lat g (t_group x) = Some i \/ exists t th, nth_error ts t = Some th /\ g_lat (gh th) = Some i;
  g2_latlock : forall t th i, nth_error ts t = Some th -> g_lat (gh th) = Some i ->
               holds_k th (KStudy 0) /\ exists x, nth_error (T g) i = Some x /\ t_group x = r_group th;
  g2_best1 : forall b, s_best (St g) = Some b ->
             exists xb rb, nth_error (T g) b = Some xb /\ t_done xb = true /\ t_inf xb = false /\ t_final xb = Some rb /\
                           (forall t th, nth_error ts t = Some th -> g_own (gh th) = Some b -> g_best (gh th) = false);
  g2_best2 : forall i x r, nth_error (T g) i = Some x -> t_done x = true -> t_inf x = false -> t_final x = Some r ->
             (exists t th, nth_error ts t = Some th /\ g_own (gh th) = Some i /\ g_best (gh th) = true) \/
             (exists b xb rb, s_best (St g) = Some b /\ nth_error (T g) b = Some xb /\ t_final xb = Some rb /\ (r <= rb)%Z);
  g2_fedlist : forall i x, nth_error (T g) i = Some x -> count_occ pdec (a_fed (alg g)) (0, t_id x) = t_fed x;
  g2_fedbound : Forall (fun p => fst p = 0 /\ 1 <= snd p <= length (T g)) (a_fed (alg g))
}.

Definition thread_ok2 (g : gstate) (t : nat) (th : tstate) : Prop := exists a, cur_a ps th = Some a /\ sat2 g t th a.

Record Inv2 (g : gstate) (ts : list tstate) : Prop := {
  i2_gi : GI2 g ts;
  i2_th : forall t th, nth_error ts t = Some th -> thread_ok2 g t th
}.


(* ---- weakening, frames ------------------------------------------------------------------------------------------- *)
Ltac bool_hyps2 :=
  repeat match goal with
  | H : _ && _ = true |- _ => apply andb_true_iff in H; destruct H
  | H : negb _ = true |- _ => apply negb_true_iff in H
  | H : implb _ _ = true |- _ => rewrite implb_true_iff in H
  | H : Bool.eqb _ _ = true |- _ => apply eqb_prop in H
  end.

Lemma sat2_leq : forall g t th x y, leq x y = true -> sat2 g t th x -> sat2 g t th y.
Proof.
  intros g t th x y Hl Hs. unfold leq, debts_eqb in Hl. bool_hyps2.
  assert (Hlk : a_locks x = a_locks y) by (apply list_lockref_eqb_eq; assumption).
  assert (Hdl : d_lat x = d_lat y) by assumption.
  assert (I1 : f_gotlat y = true -> f_gotlat x = true) by assumption.
  assert (I2 : f_latdone y = true -> f_latdone x = true) by assumption.
  assert (I3 : f_mine y = true -> f_mine x = true) by assumption.
  assert (I4 : f_bestfresh y = true -> f_bestfresh x = true) by assumption.
  assert (I5 : f_better y = true -> f_better x = true) by assumption.
  destruct Hs. constructor; intros; rewrite <- ?Hlk.
  - apply s2_gotlat0; auto.
  - apply s2_latdone0; auto.
  - apply s2_mine0; auto.
  - apply s2_bestfresh0; auto.
  - apply s2_better0; auto.
  - apply s2_dlatlock0. congruence.
Qed.

Record same_study2 (g g' : gstate) : Prop := {
  s2_tr : T g' = T g; s2_lat : s_latest (St g') = s_latest (St g); s2_best : s_best (St g') = s_best (St g) }.

Lemma same_study2_refl : forall g, same_study2 g g. Proof. constructor; reflexivity. Qed.

Lemma sat2_frame : forall g g' t th th' a, same_study2 g g' -> same_regs th th' -> sat2 g t th a -> sat2 g' t th' a.
Proof.
  intros g g' t th th' a [E1 E2 E3] [F1 F2 F3 F4 F5 F6 F7 F8 F9] [].
  constructor; unfold lat in *; rewrite ?F3, ?F6, ?F9, ?F7, ?F4, ?E1, ?E2, ?E3; auto.
Qed.

Lemma sat2_a0 : forall g t th, sat2 g t th a0.
Proof. intros. constructor; simpl; intros; discriminate. Qed.

Lemma sat2_a0e : forall g t th b, sat2 g t th (a0e b).
Proof. intros. constructor; simpl; intros; discriminate. Qed.

Record same_gi2 (g g' : gstate) : Prop := {
  g2s_tr : T g' = T g; g2s_lat : s_latest (St g') = s_latest (St g); g2s_best : s_best (St g') = s_best (St g);
  g2s_reg : registry g' = registry g; g2s_fed : a_fed (alg g') = a_fed (alg g) }.

Lemma same_gi2_refl : forall g, same_gi2 g g. Proof. constructor; reflexivity. Qed.

Lemma nth_set_cases2 : forall ts t th th'' t0 th0, nth_error ts t = Some th -> nth_error (set_th ts t th'') t0 = Some th0 ->
  (t0 = t /\ th0 = th'') \/ (t0 <> t /\ nth_error ts t0 = Some th0).
Proof.
  intros. destruct (Nat.eq_dec t t0).
  - subst. erewrite nth_error_set_th_eq in H0; eauto. inv H0. auto.
  - rewrite nth_error_set_th_neq in H0; auto.
Qed.

(* the stepping thread keeps its ghost state and group, and does not drop a lock *)
Lemma GI2_frame : forall g g' ts t th th', same_gi2 g g' -> nth_error ts t = Some th -> gh th' = gh th -> r_group th' = r_group th ->
  (g_lat (gh th) <> None -> holds_k th' (KStudy 0)) -> GI2 g ts -> GI2 g' (set_th ts t th').
Proof.
  intros g g' ts t th th' [] Ht Hgh Hgr Hh [g2_regnone0 g2_latest0 g2_same0 g2_latlock0 G5 G6 G7 G8].
  constructor; unfold lat in *; rewrite ?g2s_tr0, ?g2s_lat0, ?g2s_best0, ?g2s_reg0, ?g2s_fed0; auto.
  - intros t0 th0 Hn Hr. destruct (nth_set_cases2 _ _ _ _ _ _ Ht Hn) as [[? ?]|[? ?]]; subst; eapply g2_regnone0; eauto. congruence.
  - intros i x Hn Hd. destruct (g2_same0 _ _ Hn Hd) as [A | [t0 [th0 [A B]]]]; auto. right.
    destruct (Nat.eq_dec t0 t).
    + subst. rewrite Ht in A. inv A. exists t, th'. split. eapply nth_error_set_th_eq; eauto. congruence.
    + exists t0, th0. split; auto. rewrite nth_error_set_th_neq; auto.
  - intros t0 th0 i Hn Hl. destruct (nth_set_cases2 _ _ _ _ _ _ Ht Hn) as [[? ?]|[? ?]]; subst.
    + rewrite Hgh in Hl. destruct (g2_latlock0 _ _ _ Ht Hl) as [A B]. split. apply Hh. congruence. rewrite Hgr. auto.
    + eapply g2_latlock0; eauto.
  - intros b Hb. destruct (G5 _ Hb) as [xb [rb [A [B [C [D E]]]]]]. exists xb, rb. repeat split; auto.
    intros t0 th0 Hn Ho. destruct (nth_set_cases2 _ _ _ _ _ _ Ht Hn) as [[? ?]|[? ?]]; subst.
    + rewrite Hgh in *. eapply E; eauto.
    + eapply E; eauto.
  - intros i x r Hn Hd Hi Hf. destruct (G6 _ _ _ Hn Hd Hi Hf) as [[t0 [th0 [A [B C]]]] | H]; auto. left.
    destruct (Nat.eq_dec t0 t).
    + subst. rewrite Ht in A. inv A. exists t, th'. split. eapply nth_error_set_th_eq; eauto. rewrite Hgh. auto.
    + exists t0, th0. split; auto. rewrite nth_error_set_th_neq; auto.
Qed.


(* ---- Acquire / Release ---------------------------------------------------------------------------------------------- *)
Lemma holds_cons : forall l l' ls, holds l ls = true -> holds l (l' :: ls) = true.
Proof. intros. unfold holds in *. simpl. rewrite H. apply orb_true_r. Qed.

Lemma sat2_acquire : forall g t th a l, sat2 g t th a -> forall th' g', same_study2 g g' -> same_regs th th' ->
  sat2 g' t th' (with_locks (l :: a_locks a) a).
Proof.
  intros g t th a l Hs th' g' Hss Hsr. apply (sat2_frame g g' t th th'); auto. destruct Hs.
  constructor; simpl; intros Hf; bool_hyps2.
  - destruct (s2_gotlat0 H). split; auto.
  - destruct (s2_latdone0 H). split; auto.
  - apply s2_mine0; auto.
  - destruct (s2_bestfresh0 H). split; auto.
  - destruct (s2_better0 H). split; auto.
  - specialize (s2_dlatlock0 Hf). unfold holds in *. rewrite s2_dlatlock0. apply orb_true_r.
Qed.

Lemma sat2_release : forall g t th a l rest, sat2 g t th a -> a_locks a = l :: rest ->
  (l = LStudy -> d_lat a = false) -> forall th' g', same_study2 g g' -> same_regs th th' ->
  sat2 g' t th' (with_locks (tl (a_locks a)) a).
Proof.
  intros g t th a l rest Hs Hlk Hd th' g' Hss Hsr. apply (sat2_frame g g' t th th'); auto. destruct Hs. rewrite Hlk in *. simpl tl.
  constructor; simpl; intros Hf; bool_hyps2.
  - destruct (s2_gotlat0 H). split; auto.
  - destruct (s2_latdone0 H). split; auto.
  - apply s2_mine0; auto.
  - destruct (s2_bestfresh0 H). split; auto.
  - destruct (s2_better0 H). split; auto.
  - specialize (s2_dlatlock0 Hf). unfold holds in *. simpl in s2_dlatlock0. apply orb_true_iff in s2_dlatlock0. destruct s2_dlatlock0; auto.
    destruct l; try discriminate. rewrite Hd in Hf; auto. discriminate.
Qed.


(* ---- Branch ---------------------------------------------------------------------------------------------------------- *)
Definition others_stable2 (g g' : gstate) (ts : list tstate) (t : nat) : Prop :=
  forall t' th2 a2, t' <> t -> nth_error ts t' = Some th2 -> sat g t' th2 a2 -> sat2 g t' th2 a2 -> sat2 g' t' th2 a2.

Lemma others2_same : forall g g' ts t, same_study2 g g' -> others_stable2 g g' ts t.
Proof. red; intros. eapply sat2_frame; eauto. apply same_regs_refl. Qed.

Definition branch_goal2 (cn : cond) (a : astate) (g : gstate) (ts : list tstate) (t : nat) (th : tstate) : Prop :=
  let b := evalc c cn g th in
  sat2 (note_full cn b g th) t (note_branch cn b th) (post_br cn b a) /\
  (forall th'', same_regs (note_branch cn b th) th'' -> GI2 (note_full cn b g th) (set_th ts t th'')) /\
  others_stable2 g (note_full cn b g th) ts t.

Lemma note_full_same2 : forall cn b g th, r_study th = 0 -> same_study2 g (note_full cn b g th) /\ same_gi2 g (note_full cn b g th).
Proof. intros. destruct cn, b; simpl; rewrite ?H; split; constructor; reflexivity. Qed.

Lemma GI2_frame_regs : forall g g' ts t th th'', same_gi2 g g' -> nth_error ts t = Some th -> same_regs th th'' -> GI2 g ts -> GI2 g' (set_th ts t th'').
Proof.
  intros. eapply GI2_frame; eauto.
  - apply (sr_gh _ _ H1).
  - apply (sr_group _ _ H1).
  - intros Hl. destruct (g_lat (gh th)) as [i|] eqn:E; try congruence.
    destruct (g2_latlock _ _ H2 _ _ _ H0 E) as [A _]. unfold holds_k in *. rewrite (sr_held _ _ H1). auto.
Qed.

Lemma branch_sound2 : forall ini cn rd off a g ts t th,
  Inv ps c g ts -> Inv2 g ts -> nth_error ts t = Some th -> sat g t th a -> sat2 g t th a -> req ini (Branch rd cn off) a = true ->
  branch_goal2 cn a g ts t th.
Proof.
  intros ini cn rd off a g ts t th HI HI2 Ht Hs Hs2 Hreq. pose proof (s_study _ _ _ _ Hs) as Hst0.
  destruct HI2 as [HG2 HT2].
  destruct (note_full_same2 cn (evalc c cn g th) g th Hst0) as [Hss Hsg].
  assert (Hplain : note_branch cn (evalc c cn g th) th = th ->
          sat2 g t th (post_br cn (evalc c cn g th) a) -> branch_goal2 cn a g ts t th).
  { intros Hnb Hp. unfold branch_goal2. rewrite Hnb. split; [|split].
    - eapply sat2_frame; eauto. apply same_regs_refl.
    - intros. eapply GI2_frame_regs; eauto.
    - apply others2_same; auto. }
  destruct cn; try (apply Hplain; [reflexivity | destruct (evalc c _ g th); destruct Hs2; constructor; simpl; auto]; fail).
  - (* CTrialPending *)
    apply Hplain; try reflexivity. destruct (evalc c CTrialPending g th) eqn:Ev; destruct Hs2; constructor; simpl; auto.
    intros Hf. bool_hyps2. destruct (s2_gotlat0 H) as [_ Hg]. split; auto.
    destruct (lat g (r_group th)) as [j|] eqn:El; auto.
    destruct (g2_latest _ _ HG2 _ _ El) as [x [A B]]. exists x. split; auto.
    unfold evalc in Ev. rewrite Hst0, Hg in Ev. unfold study_of, otrial in Ev. fold (T g) in Ev. rewrite A in Ev. unfold pending_t in Ev.
    destruct (t_done x); auto; discriminate.
  - (* CBestBetter *)
    unfold branch_goal2. destruct (evalc c CBestBetter g th) eqn:Ev; simpl note_full; simpl note_branch; simpl post_br.
    + split; [|split].
      * destruct Hs2. constructor; simpl; auto.
        intros Hf. bool_hyps2.
        match goal with Hbf : f_bestfresh a = true |- _ => destruct (s2_bestfresh0 Hbf) as [_ Hb] end. split; auto.
        match goal with Hown : f_own a = true |- _ => destruct (s_own _ _ _ _ Hs Hown) as [i [x [A [B [C [D E]]]]]] end.
        exists i, x. repeat split; auto.
        unfold evalc in Ev. rewrite Hst0, Hb, A in Ev. unfold study_of, otrial in Ev. fold (T g) in Ev. fold (St g) in Ev. rewrite C in Ev.
        destruct (s_best (St g)) as [b|] eqn:Eb; auto.
        destruct (g2_best1 _ _ HG2 _ Eb) as [xb [rb [A1 [B1 [C1 [D1 E1]]]]]]. rewrite A1, D1 in Ev.
        destruct (t_final x) as [rc|] eqn:Ef; try discriminate.
        exists rc, xb, rb. repeat split; auto; apply Z.ltb_lt; auto.
      * intros. eapply GI2_frame_regs; eauto.
      * apply others2_same. apply same_study2_refl.
    + (* not better: the debt is settled (ghost g_best := false) *)
      split; [|split].
      * destruct Hs2. constructor; simpl; auto.
      * intros th'' Hsr. destruct HG2 as [R1 R2 R3 R4 R5 R6 R7 R8].
        assert (Hgh : gh th'' = gh_bestdone (gh th)) by (rewrite (sr_gh _ _ Hsr); reflexivity).
        assert (Hgr : r_group th'' = r_group th) by (rewrite (sr_group _ _ Hsr); reflexivity).
        assert (Hhd : held th'' = held th) by (rewrite (sr_held _ _ Hsr); reflexivity).
        constructor; auto.
        -- intros t0 th0 Hn Hr. destruct (nth_set_cases2 _ _ _ _ _ _ Ht Hn) as [[? ?]|[? ?]]; subst; eapply R1; eauto. rewrite Hgh in Hr. auto.
        -- intros i x Hn Hd. destruct (R3 _ _ Hn Hd) as [A | [t0 [th0 [A B]]]]; auto. right.
           destruct (Nat.eq_dec t0 t).
           ++ subst. rewrite Ht in A. inv A. exists t, th''. split. eapply nth_error_set_th_eq; eauto. rewrite Hgh. auto.
           ++ exists t0, th0. split; auto. rewrite nth_error_set_th_neq; auto.
        -- intros t0 th0 i Hn Hl. destruct (nth_set_cases2 _ _ _ _ _ _ Ht Hn) as [[? ?]|[? ?]]; subst.
           ++ rewrite Hgh in Hl. simpl in Hl. destruct (R4 _ _ _ Ht Hl) as [A B]. split. unfold holds_k in *. rewrite Hhd. auto. rewrite Hgr. auto.
           ++ eapply R4; eauto.
        -- intros b Hb. destruct (R5 _ Hb) as [xb [rb [A [B [C1 [D E]]]]]]. exists xb, rb. repeat split; auto.
           intros t0 th0 Hn Ho. destruct (nth_set_cases2 _ _ _ _ _ _ Ht Hn) as [[? ?]|[? ?]]; subst.
           ++ rewrite Hgh. reflexivity.
           ++ eapply E; eauto.
        -- intros i x r Hn Hd Hi Hf. destruct (R6 _ _ _ Hn Hd Hi Hf) as [[t0 [th0 [A [B C1]]]] | H]; auto.
           destruct (Nat.eq_dec t0 t).
           ++ (* the debt that has just been settled: the comparison said "not better" *)
              subst. rewrite Ht in A. inv A. right.
              unfold req in Hreq. bool_hyps2. simpl in *.
              rewrite <- (s_dbest _ _ _ _ Hs) in *.
              match goal with Hrb : implb (g_best (gh th0)) _ = true |- _ => rewrite C1 in Hrb; simpl in Hrb end. bool_hyps2.
              match goal with Hbf : f_bestfresh a = true |- _ => destruct (s2_bestfresh _ _ _ _ Hs2 Hbf) as [_ Hb] end.
              match goal with Hown : f_own a = true |- _ => destruct (s_own _ _ _ _ Hs Hown) as [i2 [x2 [A2 [B2 [C2 [D2 E2]]]]]] end.
              rewrite B in B2. inv B2. rewrite Hn in C2. inv C2.
              unfold evalc in Ev. rewrite Hst0, Hb, A2 in Ev. unfold study_of, otrial in Ev. fold (T g) in Ev. fold (St g) in Ev. rewrite Hn in Ev.
              destruct (s_best (St g)) as [b|] eqn:Eb; try discriminate.
              destruct (R5 _ eq_refl) as [xb [rb [A1 [B1 [C3 [D1 E1]]]]]]. rewrite A1, D1, Hf in Ev.
              exists b, xb, rb. repeat split; auto. apply Z.ltb_ge in Ev. auto.
           ++ left. exists t0, th0. split. rewrite nth_error_set_th_neq; auto. auto.
      * apply others2_same. apply same_study2_refl.
Qed.


(* ---- statements --------------------------------------------------------------------------------------------------------- *)
Definition stmt_goal2 (g : gstate) (ts : list tstate) (t : nat) (g' : gstate) (th' : tstate) (a' : astate) : Prop :=
  sat2 g' t th' a' /\ (forall th'', same_regs th' th'' -> GI2 g' (set_th ts t th'')) /\ others_stable2 g g' ts t.

(* the ghost components the second layer looks at *)
Record same_gh2 (th th' : tstate) : Prop := {
  h2_reg : g_reg (gh th') = g_reg (gh th); h2_lat : g_lat (gh th') = g_lat (gh th); h2_own : g_own (gh th') = g_own (gh th);
  h2_best : g_best (gh th') = g_best (gh th); h2_group : r_group th' = r_group th; h2_held : held th' = held th }.

Lemma GI2_frame_core : forall g g' ts t th th',
  T g' = T g -> s_latest (St g') = s_latest (St g) -> s_best (St g') = s_best (St g) -> a_fed (alg g') = a_fed (alg g) ->
  nth_error ts t = Some th ->
  g_lat (gh th') = g_lat (gh th) -> g_own (gh th') = g_own (gh th) -> g_best (gh th') = g_best (gh th) -> r_group th' = r_group th -> held th' = held th ->
  (forall t0 th0, nth_error (set_th ts t th') t0 = Some th0 -> g_reg (gh th0) = true -> registry g' = None) ->
  GI2 g ts -> GI2 g' (set_th ts t th').
Proof.
  intros g g' ts t th th' g2s_tr0 g2s_lat0 g2s_best0 g2s_fed0 Ht H2 H3 H4 H5 H6 Hreg [R1 R2 R3 R4 R5 R6 R7 R8].
  constructor; unfold lat in *; rewrite ?g2s_tr0, ?g2s_lat0, ?g2s_best0, ?g2s_fed0; auto.
  - intros i x Hn Hd. destruct (R3 _ _ Hn Hd) as [A | [t0 [th0 [A B]]]]; auto. right.
    destruct (Nat.eq_dec t0 t).
    + subst. rewrite Ht in A. inv A. exists t, th'. split. eapply nth_error_set_th_eq; eauto. congruence.
    + exists t0, th0. split; auto. rewrite nth_error_set_th_neq; auto.
  - intros t0 th0 i Hn Hl. destruct (nth_set_cases2 _ _ _ _ _ _ Ht Hn) as [[? ?]|[? ?]]; subst.
    + rewrite H2 in Hl. destruct (R4 _ _ _ Ht Hl) as [A B]. split. unfold holds_k in *. rewrite H6. auto. rewrite H5. auto.
    + eapply R4; eauto.
  - intros b Hb. destruct (R5 _ Hb) as [xb [rb [A [B [C1 [D E]]]]]]. exists xb, rb. repeat split; auto.
    intros t0 th0 Hn Ho. destruct (nth_set_cases2 _ _ _ _ _ _ Ht Hn) as [[? ?]|[? ?]]; subst.
    + rewrite H4. eapply E; eauto. congruence.
    + eapply E; eauto.
  - intros i x r Hn Hd Hi Hf. destruct (R6 _ _ _ Hn Hd Hi Hf) as [[t0 [th0 [A [B C1]]]] | H]; auto. left.
    destruct (Nat.eq_dec t0 t).
    + subst. rewrite Ht in A. inv A. exists t, th'. split. eapply nth_error_set_th_eq; eauto. split; congruence.
    + exists t0, th0. split; auto. rewrite nth_error_set_th_neq; auto.
Qed.

Lemma GI2_frame_gh : forall g g' ts t th th', same_gi2 g g' -> nth_error ts t = Some th -> same_gh2 th th' -> GI2 g ts -> GI2 g' (set_th ts t th').
Proof.
  intros g g' ts t th th' [] Ht [H1 H2 H3 H4 H5 H6] HG. eapply GI2_frame_core; eauto.
  intros t0 th0 Hn Hr. rewrite g2s_reg0. destruct (nth_set_cases2 _ _ _ _ _ _ Ht Hn) as [[? ?]|[? ?]]; subst; eapply (g2_regnone _ _ HG); eauto; congruence.
Qed.

Lemma same_gh2_regs : forall th th' th'', same_gh2 th th' -> same_regs th' th'' -> same_gh2 th th''.
Proof. intros th th' th'' [] Hsr. constructor; rewrite ?(sr_gh _ _ Hsr), ?(sr_group _ _ Hsr), ?(sr_held _ _ Hsr); auto. Qed.

(* effects that only move counters / registers the second layer does not look at *)
Lemma stmt_boring2 : forall g ts t th a g' th',
  GI2 g ts -> nth_error ts t = Some th -> sat2 g t th a -> same_study2 g g' -> same_gi2 g g' ->
  same_gh2 th th' -> r_trial th' = r_trial th -> r_best th' = r_best th -> r_cur th' = r_cur th ->
  stmt_goal2 g ts t g' th' a.
Proof.
  intros g ts t th a g' th' HG Ht Hs [E1 E2 E3] Hsg Hgh F1 F2 F3. split; [|split].
  - destruct Hgh. destruct Hs. constructor; unfold lat in *; rewrite ?F1, ?F2, ?F3, ?h2_group0, ?h2_own0, ?E1, ?E2, ?E3; auto.
  - intros. eapply GI2_frame_gh; eauto. eapply same_gh2_regs; eauto.
  - apply others2_same. constructor; auto.
Qed.


Record same_a2 (a a' : astate) : Prop := {
  a2_locks : a_locks a' = a_locks a; a2_gotlat : f_gotlat a' = f_gotlat a; a2_latdone : f_latdone a' = f_latdone a; a2_mine : f_mine a' = f_mine a;
  a2_bestfresh : f_bestfresh a' = f_bestfresh a; a2_better : f_better a' = f_better a; a2_dlat : d_lat a' = d_lat a }.

Lemma sat2_same_a2 : forall g t th a a', same_a2 a a' -> sat2 g t th a -> sat2 g t th a'.
Proof. intros g t th a a' [] []. constructor; rewrite ?a2_locks0, ?a2_gotlat0, ?a2_latdone0, ?a2_mine0, ?a2_bestfresh0, ?a2_better0, ?a2_dlat0; auto. Qed.

Lemma stmt_boring2' : forall g ts t th a a' g' th',
  GI2 g ts -> nth_error ts t = Some th -> sat2 g t th a -> same_a2 a a' -> same_study2 g g' -> same_gi2 g g' ->
  same_gh2 th th' -> r_trial th' = r_trial th -> r_best th' = r_best th -> r_cur th' = r_cur th ->
  stmt_goal2 g ts t g' th' a'.
Proof.
  intros. destruct (stmt_boring2 g ts t th a g' th') as [A [B C]]; auto.
  split; [|split]; auto. eapply sat2_same_a2; eauto.
Qed.

(* ---- mutation of one trial ---------------------------------------------------------------------------------------------- *)
Lemma T_upd_trial2 : forall g i f, T (upd_study 0 (upd_trial i f) g) = upd_nth i f (T g).
Proof. reflexivity. Qed.

Lemma nth_upd2 : forall g i f j (y : trial), nth_error (T g) j = Some y ->
  nth_error (upd_nth i f (T g)) j = Some (if Nat.eqb i j then f y else y).
Proof. intros. rewrite nth_error_upd_nth. rewrite H. destruct (Nat.eqb i j); reflexivity. Qed.

Lemma sat2_trial : forall g t' th2 a2 i f x, nth_error (T g) i = Some x -> sat2 g t' th2 a2 ->
  t_group (f x) = t_group x -> (t_done x = true -> t_done (f x) = true) ->
  (f_better a2 = true -> (r_cur th2 = Some i \/ s_best (St g) = Some i) -> t_owner (f x) = t_owner x /\ t_final (f x) = t_final x) ->
  sat2 (upd_study 0 (upd_trial i f) g) t' th2 a2.
Proof.
  intros g t' th2 a2 i f x Hx Hs Hgrp Hdone Hbet. destruct Hs.
  assert (Hlat : forall gk, lat (upd_study 0 (upd_trial i f) g) gk = lat g gk) by reflexivity.
  assert (Hbest : s_best (St (upd_study 0 (upd_trial i f) g)) = s_best (St g)) by reflexivity.
  constructor; rewrite ?Hlat, ?Hbest, ?T_upd_trial2; auto.
  - intros Hf. destruct (s2_latdone0 Hf) as [Hh Hl]. split; auto.
    destruct (lat g (r_group th2)) as [j|]; auto. destruct Hl as [y [A B]].
    eexists. split. apply nth_upd2; eauto. destruct (Nat.eqb i j) eqn:E; auto. apply Nat.eqb_eq in E. subst. rewrite Hx in A. inv A. auto.
  - intros Hf. specialize (s2_mine0 Hf). destruct (r_trial th2) as [j|]; auto. destruct s2_mine0 as [y [A B]].
    eexists. split. apply nth_upd2; eauto. destruct (Nat.eqb i j) eqn:E; auto. apply Nat.eqb_eq in E. subst. rewrite Hx in A. inv A. congruence.
  - intros Hf. destruct (s2_better0 Hf) as [Hh [j [y [A [B [C1 [D E]]]]]]]. split; auto.
    exists j. eexists. split; auto. split; auto. split. apply nth_upd2; eauto.
    assert (Hj : Nat.eqb i j = true -> t_owner (f x) = t_owner x /\ t_final (f x) = t_final x /\ y = x).
    { intros E1. apply Nat.eqb_eq in E1. subst. rewrite Hx in C1. inv C1. destruct (Hbet Hf (or_introl A)). auto. }
    split. destruct (Nat.eqb i j) eqn:E1; auto. destruct (Hj eq_refl) as [K1 [K2 K3]]. subst. congruence.
    destruct (s_best (St g)) as [b|] eqn:Eb; auto. destruct E as [rc [xb [rb [F1 [F2 [F3 F4]]]]]].
    exists rc. eexists. exists rb. split.
    + destruct (Nat.eqb i j) eqn:E1; auto. destruct (Hj eq_refl) as [K1 [K2 K3]]. subst. congruence.
    + split. apply nth_upd2; eauto. split; auto.
      destruct (Nat.eqb i b) eqn:E2; auto. apply Nat.eqb_eq in E2. subst. rewrite Hx in F2. inv F2. destruct (Hbet Hf (or_intror eq_refl)). congruence.
Qed.


Lemma tmut_id2 : forall k x, t_id (apply_tmut k x) = t_id x. Proof. destruct k; reflexivity. Qed.
Lemma tmut_group : forall k x, t_group (apply_tmut k x) = t_group x. Proof. destruct k; reflexivity. Qed.
Lemma tmut_done_mono : forall k x, t_done x = true -> t_done (apply_tmut k x) = true. Proof. destruct k; simpl; auto. Qed.
Lemma tmut_done_back : forall k x, t_done (apply_tmut k x) = false -> t_done x = false. Proof. destruct k; simpl; auto; discriminate. Qed.

(* the second-layer study invariant under a mutation of trial i that keeps fed-count (and id, group), with the stepping
   thread's ghost unchanged; what happens to status / infeasible / final is left to the caller (hypotheses Hb1, Hb2) *)
Lemma GI2_trial_gen : forall g g1 ts t th th'' i k x,
  GI2 g ts -> nth_error ts t = Some th -> same_gh2 th th'' -> nth_error (T g) i = Some x ->
  T g1 = upd_nth i (apply_tmut k) (T g) -> s_latest (St g1) = s_latest (St g) -> s_best (St g1) = s_best (St g) -> registry g1 = registry g ->
  (forall j y, nth_error (T g1) j = Some y -> count_occ pdec (a_fed (alg g1)) (0, t_id y) = t_fed y) ->
  Forall (fun p => fst p = 0 /\ 1 <= snd p <= length (T g)) (a_fed (alg g1)) ->
  (s_best (St g) = Some i -> t_done (apply_tmut k x) = t_done x /\ t_inf (apply_tmut k x) = t_inf x /\ t_final (apply_tmut k x) = t_final x) ->
  (forall r, t_done (apply_tmut k x) = true -> t_inf (apply_tmut k x) = false -> t_final (apply_tmut k x) = Some r ->
     (t_done x = true /\ t_inf x = false /\ t_final x = Some r) \/
     (exists t0 th0, nth_error ts t0 = Some th0 /\ g_own (gh th0) = Some i /\ g_best (gh th0) = true)) ->
  GI2 g1 (set_th ts t th'').
Proof.
  intros g g1 ts t th th'' i k x HG Ht Hgh Hx HT1 Hlat0 Hbest Hreg0 Hfl Hfb Hb1 Hb2.
  assert (Hfr : GI2 g (set_th ts t th'')) by (eapply GI2_frame_gh; eauto; apply same_gi2_refl).
  destruct Hfr as [R1 R2 R3 R4 R5 R6 R7 R8].
  assert (Hlat : forall gk, lat g1 gk = lat g gk) by (intros; unfold lat; rewrite Hlat0; reflexivity).
  assert (Hw : forall t0 th0, nth_error ts t0 = Some th0 -> exists th1, nth_error (set_th ts t th'') t0 = Some th1 /\
                 g_own (gh th1) = g_own (gh th0) /\ g_best (gh th1) = g_best (gh th0)).
  { intros t0 th0 Hn. destruct (Nat.eq_dec t0 t).
    - subst. rewrite Ht in Hn. inv Hn. exists th''. split. eapply nth_error_set_th_eq; eauto. destruct Hgh. auto.
    - exists th0. split; auto. rewrite nth_error_set_th_neq; auto. }
  constructor; rewrite ?Hlat, ?Hbest, ?HT1, ?length_upd_nth, ?Hreg0; auto.
  - intros gk j Hl. rewrite Hlat in Hl. destruct (R2 _ _ Hl) as [y [A B]]. eexists. split. apply nth_upd2; eauto.
    destruct (Nat.eqb i j); auto. rewrite tmut_group. auto.
  - intros j y Hn Hd. rewrite Hlat. rewrite nth_error_upd_nth in Hn. destruct (Nat.eqb i j) eqn:E.
    + apply Nat.eqb_eq in E. subst j. rewrite Hx in Hn. simpl in Hn. inv Hn. rewrite tmut_group. apply R3; auto. eapply tmut_done_back; eauto.
    + apply R3; auto.
  - intros t0 th0 j Hn Hl. destruct (R4 _ _ _ Hn Hl) as [A [y [B C1]]]. split; auto. eexists. split. apply nth_upd2; eauto.
    destruct (Nat.eqb i j); auto. rewrite tmut_group. auto.
  - intros b Hb. destruct (R5 _ Hb) as [xb [rb [A [B [C1 [D E]]]]]].
    destruct (Nat.eqb i b) eqn:E1.
    + apply Nat.eqb_eq in E1. subst b. rewrite Hx in A. inv A. destruct (Hb1 Hb) as [K1 [K2 K3]].
      exists (apply_tmut k xb), rb. split. erewrite nth_upd2; eauto. rewrite Nat.eqb_refl. auto. repeat split; try congruence. auto.
    + exists xb, rb. split. erewrite nth_upd2; eauto. rewrite E1. auto. repeat split; auto.
  - intros j y r Hn Hd Hi Hf. rewrite nth_error_upd_nth in Hn.
    assert (Hres : (exists t0 th0, nth_error (set_th ts t th'') t0 = Some th0 /\ g_own (gh th0) = Some j /\ g_best (gh th0) = true) \/
                   (exists b xb rb, s_best (St g) = Some b /\ nth_error (T g) b = Some xb /\ t_final xb = Some rb /\ (r <= rb)%Z)).
    { destruct (Nat.eqb i j) eqn:E.
      - apply Nat.eqb_eq in E. subst j. rewrite Hx in Hn. simpl in Hn. inv Hn.
        destruct (Hb2 r Hd Hi Hf) as [[K1 [K2 K3]] | [t0 [th0 [K1 [K2 K3]]]]].
        + eapply R6; eauto.
        + left. destruct (Hw _ _ K1) as [th1 [W1 [W2 W3]]]. exists t0, th1. split; auto. split; congruence.
      - eapply R6; eauto. }
    destruct Hres as [Hl | [b [xb [rb [A [B [C1 D]]]]]]]; auto. right.
    destruct (Nat.eqb i b) eqn:E1.
    + apply Nat.eqb_eq in E1. subst b. rewrite Hx in B. inv B. destruct (Hb1 A) as [K1 [K2 K3]].
      exists i, (apply_tmut k xb), rb. split; auto. split. erewrite nth_upd2; eauto. rewrite Nat.eqb_refl. auto. split; congruence.
    + exists b, xb, rb. split; auto. split. erewrite nth_upd2; eauto. rewrite E1. auto. auto.
  - intros j y Hn. eapply Hfl. rewrite HT1. eauto.
Qed.

Lemma GI2_trial : forall g ts t th th'' i k x,
  GI2 g ts -> nth_error ts t = Some th -> same_gh2 th th'' -> nth_error (T g) i = Some x ->
  t_fed (apply_tmut k x) = t_fed x ->
  (s_best (St g) = Some i -> t_done (apply_tmut k x) = t_done x /\ t_inf (apply_tmut k x) = t_inf x /\ t_final (apply_tmut k x) = t_final x) ->
  (forall r, t_done (apply_tmut k x) = true -> t_inf (apply_tmut k x) = false -> t_final (apply_tmut k x) = Some r ->
     (t_done x = true /\ t_inf x = false /\ t_final x = Some r) \/
     (exists t0 th0, nth_error ts t0 = Some th0 /\ g_own (gh th0) = Some i /\ g_best (gh th0) = true)) ->
  GI2 (upd_study 0 (upd_trial i (apply_tmut k)) g) (set_th ts t th'').
Proof.
  intros g ts t th th'' i k x HG Ht Hgh Hx Hfed Hb1 Hb2.
  eapply GI2_trial_gen; eauto; try reflexivity.
  - intros j y Hn. rewrite T_upd_trial2, nth_error_upd_nth in Hn. destruct (Nat.eqb i j) eqn:E.
    + apply Nat.eqb_eq in E. subst j. rewrite Hx in Hn. simpl in Hn. inv Hn. rewrite tmut_id2, Hfed. eapply (g2_fedlist _ _ HG); eauto.
    + eapply (g2_fedlist _ _ HG); eauto.
  - apply (g2_fedbound _ _ HG).
Qed.


Section OneStmt2.
Variables (g : gstate) (ts : list tstate) (t : nat) (th : tstate) (a : astate).
Hypothesis HI : Inv ps c g ts.
Hypothesis HG2 : GI2 g ts.
Hypothesis Ht : nth_error ts t = Some th.
Hypothesis Hs : sat g t th a.
Hypothesis Hs2 : sat2 g t th a.

Lemma other2_study_contra : forall t' th2 a2, t' <> t -> nth_error ts t' = Some th2 -> sat g t' th2 a2 ->
  holds LStudy (a_locks a) = true -> holds LStudy (a_locks a2) = true -> False.
Proof.
  intros. apply H. eapply LockInv_mutex with (k := KStudy 0); eauto. apply (inv_lock _ _ _ _ HI).
  eapply sat_holds_study; eauto. eapply sat_holds_study; eauto.
Qed.

Lemma other2_reg_contra : forall t' th2 a2, t' <> t -> nth_error ts t' = Some th2 -> sat g t' th2 a2 ->
  holds LReg (a_locks a) = true -> holds LReg (a_locks a2) = true -> False.
Proof.
  intros. apply H. eapply LockInv_mutex with (k := KReg); eauto. apply (inv_lock _ _ _ _ HI).
  eapply sat_holds_reg; eauto. eapply sat_holds_reg; eauto.
Qed.

Ltac start2 Hre g' th' Hsem Hst0 :=
  intros Hre g' th' Hsem; pose proof (s_study _ _ _ _ Hs) as Hst0; simpl in Hre;
  unfold sem, muts, regs, study_of in Hsem; rewrite Hst0 in Hsem.

(* others: a thread that holds none of the study-lock facts is not disturbed by a change of latest / best *)
Lemma others2_lockfree : forall g', T g' = T g ->
  holds LStudy (a_locks a) = true -> others_stable2 g g' ts t.
Proof.
  intros g' HT HL. red. intros t' th2 a2 Hne Hn Hs1 Hs2'.
  assert (Hc : holds LStudy (a_locks a2) = true -> False) by (intros; eapply other2_study_contra; eauto).
  destruct Hs2'. constructor; try (intros Hf; exfalso; apply Hc; first [apply (proj1 (s2_gotlat0 Hf)) | apply (proj1 (s2_latdone0 Hf)) | apply (proj1 (s2_bestfresh0 Hf)) | apply (proj1 (s2_better0 Hf)) | apply (s2_dlatlock0 Hf)]; fail).
  rewrite HT. auto.
Qed.

Lemma stmt2_EGetLatest : req_eff EGetLatest a = true ->
  forall g' th', sem c t EGetLatest g th = (g', th') -> stmt_goal2 g ts t g' th' (post_eff EGetLatest a).
Proof.
  start2 Hre g' th' Hsem Hst0. injection Hsem as Eg Eth; subst g' th'. simpl. apply negb_true_iff in Hre.
  split; [|split].
  - destruct Hs2. constructor; simpl; auto; try (rewrite Hre; discriminate).
    intros _. fold (St g). fold (lat g (r_group th)). destruct (lat g (r_group th)) as [j|] eqn:E; auto. eapply g2_latest; eauto.
  - intros th'' Hsr. eapply GI2_frame_gh; eauto. apply same_gi2_refl. constructor; rewrite ?(sr_gh _ _ Hsr), ?(sr_group _ _ Hsr), ?(sr_held _ _ Hsr); reflexivity.
  - apply others2_same. apply same_study2_refl.
Qed.

Lemma stmt2_ESetCur : forall g' th', sem c t ESetCur g th = (g', th') -> stmt_goal2 g ts t g' th' (post_eff ESetCur a).
Proof.
  intros g' th' Hsem. unfold sem, muts, regs in Hsem. injection Hsem as Eg Eth; subst g' th'. simpl.
  split; [|split].
  - destruct Hs2. constructor; simpl; auto; try discriminate.
  - intros th'' Hsr. eapply GI2_frame_gh; eauto. apply same_gi2_refl. constructor; rewrite ?(sr_gh _ _ Hsr), ?(sr_group _ _ Hsr), ?(sr_held _ _ Hsr); reflexivity.
  - apply others2_same. apply same_study2_refl.
Qed.

Lemma stmt2_EReadBest : forall g' th', sem c t EReadBest g th = (g', th') -> stmt_goal2 g ts t g' th' (post_eff EReadBest a).
Proof.
  intros g' th' Hsem. pose proof (s_study _ _ _ _ Hs) as Hst0. unfold sem, muts, regs, study_of in Hsem. rewrite Hst0 in Hsem.
  injection Hsem as Eg Eth; subst g' th'. simpl.
  split; [|split].
  - destruct Hs2. constructor; simpl; auto; try discriminate.
  - intros th'' Hsr. eapply GI2_frame_gh; eauto. apply same_gi2_refl. constructor; rewrite ?(sr_gh _ _ Hsr), ?(sr_group _ _ Hsr), ?(sr_held _ _ Hsr); reflexivity.
  - apply others2_same. apply same_study2_refl.
Qed.

Lemma stmt2_ENewStudy : req_eff ENewStudy a = true ->
  forall g' th', sem c t ENewStudy g th = (g', th') -> stmt_goal2 g ts t g' th' (post_eff ENewStudy a).
Proof.
  start2 Hre g' th' Hsem Hst0. bool_hyps2.
  assert (Hmiss : f_regmiss a = true) by assumption.
  injection Hsem as Eg Eth; subst g' th'. simpl.
  destruct (s_regmiss _ _ _ _ Hs Hmiss) as [_ Hnone].
  split; [|split].
  - destruct Hs2. constructor; simpl; auto.
  - intros th'' Hsr. eapply (GI2_frame_core g); eauto; try reflexivity; rewrite ?(sr_gh _ _ Hsr), ?(sr_group _ _ Hsr), ?(sr_held _ _ Hsr); try reflexivity.
  - apply others2_same. constructor; reflexivity.
Qed.

Lemma stmt2_ERegister : req_eff ERegister a = true ->
  forall g' th', sem c t ERegister g th = (g', th') -> stmt_goal2 g ts t g' th' (post_eff ERegister a).
Proof.
  start2 Hre g' th' Hsem Hst0. bool_hyps2.
  assert (HR : holds LReg (a_locks a) = true) by assumption.
  injection Hsem as Eg Eth; subst g' th'. simpl.
  split; [|split].
  - destruct Hs2. constructor; simpl; auto.
  - intros th'' Hsr. eapply (GI2_frame_core g); eauto; try reflexivity; rewrite ?(sr_gh _ _ Hsr), ?(sr_group _ _ Hsr), ?(sr_held _ _ Hsr); try reflexivity.
    intros t0 th0 Hn Hr. exfalso. destruct (nth_set_cases2 _ _ _ _ _ _ Ht Hn) as [[? ?]|[? ?]]; subst.
    + rewrite (sr_gh _ _ Hsr) in Hr. simpl in Hr. discriminate.
    + apply H2. eapply LockInv_mutex with (k := KReg); eauto. apply (inv_lock _ _ _ _ HI).
      eapply (gi_reglock _ _ _ (inv_gi _ _ _ _ HI)); eauto. eapply sat_holds_reg; eauto.
  - apply others2_same. constructor; reflexivity.
Qed.

Lemma stmt2_ESetLatest : req_eff ESetLatest a = true ->
  forall g' th', sem c t ESetLatest g th = (g', th') -> stmt_goal2 g ts t g' th' (post_eff ESetLatest a).
Proof.
  start2 Hre g' th' Hsem Hst0. bool_hyps2.
  assert (HLk : holds LStudy (a_locks a) = true) by assumption.
  assert (Hdl : d_lat a = true) by assumption. assert (Hld : f_latdone a = true) by assumption.
  pose proof (s_dlat _ _ _ _ Hs) as Hd. rewrite Hdl in Hd. destruct Hd as [i [Hgl Htr]].
  rewrite Htr in Hsem. injection Hsem as Eg Eth; subst g' th'. simpl.
  set (g1 := upd_study 0 (fun st => st_latest (aset (s_latest st) (r_group th) i) st) g).
  assert (HT1 : T g1 = T g) by reflexivity.
  assert (Hl1 : forall gk, lat g1 gk = if Nat.eqb (r_group th) gk then Some i else lat g gk).
  { intros gk. unfold lat, g1, St. simpl. destruct (Nat.eqb (r_group th) gk) eqn:E.
    - apply Nat.eqb_eq in E. subst. apply alookup_aset_eq.
    - apply Nat.eqb_neq in E. apply alookup_aset_neq; auto. }
  destruct HG2 as [R1 R2 R3 R4 R5 R6 R7 R8].
  destruct (R4 _ _ _ Ht Hgl) as [_ [xi [Hxi Hgi]]].
  destruct (s2_latdone _ _ _ _ Hs2 Hld) as [_ Hdone].
  split; [|split].
  - destruct Hs2. constructor; simpl; try discriminate; auto.
  - intros th'' Hsr.
    assert (Hgh : gh th'' = gh_setlat (gh th)) by (rewrite (sr_gh _ _ Hsr); reflexivity).
    assert (Hnth : forall t0 th0, nth_error (set_th ts t th'') t0 = Some th0 -> (t0 = t /\ th0 = th'') \/ (t0 <> t /\ nth_error ts t0 = Some th0))
      by (intros; eapply nth_set_cases2; eauto).
    constructor; rewrite ?HT1; auto.
    + intros t0 th0 Hn Hr. destruct (Hnth _ _ Hn) as [[? ?]|[? ?]]; subst; eapply R1; eauto. rewrite Hgh in Hr. auto.
    + intros gk j Hl. rewrite Hl1 in Hl. destruct (Nat.eqb (r_group th) gk) eqn:E.
      * inv Hl. apply Nat.eqb_eq in E. subst. eauto.
      * eauto.
    + intros j x Hn Hdn. rewrite Hl1. destruct (Nat.eqb (r_group th) (t_group x)) eqn:E.
      * apply Nat.eqb_eq in E. destruct (Nat.eq_dec j i); [subst; auto|]. exfalso.
        destruct (R3 _ _ Hn Hdn) as [A | [t0 [th0 [A B]]]].
        -- rewrite <- E in A. rewrite A in Hdone. destruct Hdone as [y [B1 B2]]. rewrite Hn in B1. inv B1. congruence.
        -- destruct (R4 _ _ _ A B) as [Hk _].
           assert (t0 = t). { eapply LockInv_mutex with (k := KStudy 0); eauto. apply (inv_lock _ _ _ _ HI). eapply sat_holds_study; eauto. }
           subst. rewrite Ht in A. inv A. congruence.
      * destruct (R3 _ _ Hn Hdn) as [A | [t0 [th0 [A B]]]]; auto. right.
        destruct (Nat.eq_dec t0 t).
        -- subst. rewrite Ht in A. inv A. exfalso. rewrite Hgl in B. inv B. rewrite Hxi in Hn. inv Hn. rewrite Hgi in E. rewrite Nat.eqb_refl in E. discriminate.
        -- exists t0, th0. split; auto. rewrite nth_error_set_th_neq; auto.
    + intros t0 th0 j Hn Hl. destruct (Hnth _ _ Hn) as [[? ?]|[? ?]]; subst.
      * rewrite Hgh in Hl. simpl in Hl. discriminate.
      * eapply R4; eauto.
    + intros b Hb. destruct (R5 _ Hb) as [xb [rb [A [B [C1 [D E]]]]]]. exists xb, rb. repeat split; auto.
      intros t0 th0 Hn Ho. destruct (Hnth _ _ Hn) as [[? ?]|[? ?]]; subst.
      * rewrite Hgh in *. simpl in *. eapply E; eauto.
      * eapply E; eauto.
    + intros j x r Hn Hdn Hi Hf. destruct (R6 _ _ _ Hn Hdn Hi Hf) as [[t0 [th0 [A [B C1]]]] | H3]; auto. left.
      destruct (Nat.eq_dec t0 t).
      * subst. rewrite Ht in A. inv A. exists t, th''. split. eapply nth_error_set_th_eq; eauto. rewrite Hgh. auto.
      * exists t0, th0. split; auto. rewrite nth_error_set_th_neq; auto.
  - apply others2_lockfree; auto.
Qed.


Lemma stmt2_ESetBest : req_eff ESetBest a = true ->
  forall g' th', sem c t ESetBest g th = (g', th') -> stmt_goal2 g ts t g' th' (post_eff ESetBest a).
Proof.
  start2 Hre g' th' Hsem Hst0. bool_hyps2.
  assert (HLk : holds LStudy (a_locks a) = true) by assumption.
  assert (Hbt : f_better a = true) by assumption. assert (Hfin : f_final a = true) by assumption.
  injection Hsem as Eg Eth; subst g' th'. simpl.
  destruct (s2_better _ _ _ _ Hs2 Hbt) as [_ [i [x [Hcur [Hown [Hx [Hw Hbb]]]]]]].
  match goal with H : inf_is _ _ = true |- _ => apply inf_is_true in H; destruct (s_kinf _ _ _ _ Hs _ H) as [i2 [x2 [A2 [B2 [C2 [D2 [E2 F2]]]]]]] end.
  rewrite Hcur in A2. inv A2. rewrite Hx in C2. inv C2.
  destruct (s_final _ _ _ _ Hs Hfin) as [i3 [x3 [A3 [B3 [C3 [D3 [E3 F3]]]]]]]. rewrite Hcur in A3. inv A3. rewrite Hx in C3. inv C3.
  destruct (t_final x3) as [rc|] eqn:Efin; try congruence.
  rewrite Hcur.
  set (g1 := upd_study 0 (st_best (Some i3)) g).
  assert (HT1 : T g1 = T g) by reflexivity.
  assert (Hb1 : s_best (St g1) = Some i3) by reflexivity.
  assert (Hl1 : forall gk, lat g1 gk = lat g gk) by reflexivity.
  destruct HG2 as [R1 R2 R3 R4 R5 R6 R7 R8].
  split; [|split].
  - destruct Hs2. constructor; simpl; try discriminate; auto.
  - intros th'' Hsr.
    assert (Hgh : gh th'' = gh_bestdone (gh th)) by (rewrite (sr_gh _ _ Hsr); reflexivity).
    assert (Hnth : forall t0 th0, nth_error (set_th ts t th'') t0 = Some th0 -> (t0 = t /\ th0 = th'') \/ (t0 <> t /\ nth_error ts t0 = Some th0))
      by (intros; eapply nth_set_cases2; eauto).
    constructor; rewrite ?HT1, ?Hb1; auto.
    + intros t0 th0 Hn Hr. destruct (Hnth _ _ Hn) as [[? ?]|[? ?]]; subst; eapply R1; eauto. rewrite Hgh in Hr. auto.
    + intros j y Hn Hdn. destruct (R3 _ _ Hn Hdn) as [A | [t0 [th0 [A B]]]]; auto. right.
      destruct (Nat.eq_dec t0 t).
      * subst. rewrite Ht in A. inv A. exists t, th''. split. eapply nth_error_set_th_eq; eauto. rewrite Hgh. auto.
      * exists t0, th0. split; auto. rewrite nth_error_set_th_neq; auto.
    + intros t0 th0 j Hn Hl. destruct (Hnth _ _ Hn) as [[? ?]|[? ?]]; subst.
      * rewrite Hgh in Hl. simpl in Hl. destruct (R4 _ _ _ Ht Hl) as [A B]. split. eapply same_regs_holds; eauto. rewrite (sr_group _ _ Hsr). auto.
      * eapply R4; eauto.
    + intros b Hb. inv Hb. exists x3, rc. repeat split; auto.
      intros t0 th0 Hn Ho. destruct (Hnth _ _ Hn) as [[? ?]|[? ?]]; subst.
      * rewrite Hgh. reflexivity.
      * exfalso. match goal with Hn0 : nth_error ts t0 = Some th0 |- _ => destruct (gi_own _ _ _ (inv_gi _ _ _ _ HI) _ _ _ Hn0 Ho) as [y [Y1 [Y2 Y3]]] end.
        rewrite Hx in Y1. inv Y1. match goal with Hne : t0 <> t |- _ => apply Hne end. congruence.
    + intros j y r Hn Hdn Hi Hf.
      destruct (R6 _ _ _ Hn Hdn Hi Hf) as [[t0 [th0 [A [B C1]]]] | [b [xb [rb [A [B [C1 D]]]]]]].
      * destruct (Nat.eq_dec t0 t).
        -- subst. rewrite Ht in A. inv A. rewrite Hown in B. inv B. rewrite Hx in Hn. inv Hn. right.
           exists j, y, r. repeat split; auto. try rewrite Efin in Hf. inv Hf. lia.
        -- left. exists t0, th0. split; auto. rewrite nth_error_set_th_neq; auto.
      * right. rewrite A in Hbb. destruct Hbb as [rc' [xb' [rb' [G1 [G2 [G3 G4]]]]]]. rewrite B in G2. inv G2.
        exists i3, x3, rc. repeat split; auto. try rewrite Efin in G1. inv G1. rewrite C1 in G3. inv G3. lia.
  - apply others2_lockfree; auto.
Qed.

Lemma stmt2_EAddMeas : forall g' th', sem c t EAddMeas g th = (g', th') -> stmt_goal2 g ts t g' th' (post_eff EAddMeas a).
Proof.
  intros g' th' Hsem. pose proof (s_study _ _ _ _ Hs) as Hst0. unfold sem, muts, regs in Hsem. rewrite Hst0 in Hsem.
  injection Hsem as Eg Eth; subst g' th'. simpl.
  destruct (r_cur th) as [i|] eqn:Ecur; simpl.
  - destruct (nth_error (T g) i) as [x|] eqn:Ex.
    + split; [|split].
      * eapply sat2_trial; eauto.
      * intros th'' Hsr. eapply GI2_trial; eauto.
        constructor; rewrite ?(sr_gh _ _ Hsr), ?(sr_group _ _ Hsr), ?(sr_held _ _ Hsr); reflexivity.
      * red; intros. eapply sat2_trial; eauto.
    + assert (ET : T (upd_study 0 (upd_trial i (apply_tmut (TMeas (r_arg th)))) g) = T g).
      { rewrite T_upd_trial2. apply nth_error_upd_nth_none. auto. }
      eapply stmt_boring2; eauto; constructor; auto; reflexivity.
  - eapply stmt_boring2; eauto; constructor; reflexivity.
Qed.


(* the owner of a trial that still owes the comparison with the best trial (or has skipped it) is not the best trial *)
Lemma owner_not_best : forall i x, r_cur th = Some i -> g_own (gh th) = Some i -> nth_error (T g) i = Some x ->
  (d_best a = true \/ t_inf x = true) -> s_best (St g) = Some i -> False.
Proof.
  intros i x Hc Ho Hx Hd Hb. destruct (g2_best1 _ _ HG2 _ Hb) as [xb [rb [A [B [C1 [D E]]]]]]. rewrite Hx in A. inv A.
  destruct Hd as [Hd | Hd]; [| congruence].
  specialize (E _ _ Ht Ho). rewrite (s_dbest _ _ _ _ Hs) in E. congruence.
Qed.

Lemma stmt2_final_common : forall o i x, r_cur th = Some i -> g_own (gh th) = Some i -> nth_error (T g) i = Some x ->
  t_done x = true -> t_owner x = Some t -> (d_best a = true \/ t_inf x = true) -> f_better a = false ->
  stmt_goal2 g ts t (upd_study 0 (upd_trial i (apply_tmut (TFinal o))) g) th
    (set_misc (f_regmiss a) (f_mine a) false (set_cur_facts (f_hasmeas a) (f_own a) (f_inf a) true a)).
Proof.
  intros o i x Hcur Hown Hx Hd Hw Hdb Hnb. split; [|split].
  - eapply sat2_same_a2 with (a := a). constructor; reflexivity.
    eapply sat2_trial; eauto. intros Hf. congruence.
  - intros th'' Hsr. eapply GI2_trial; eauto.
    + constructor; rewrite ?(sr_gh _ _ Hsr), ?(sr_group _ _ Hsr), ?(sr_held _ _ Hsr); reflexivity.
    + intros Hb. exfalso. eapply owner_not_best; eauto.
    + intros r H1 H2 H3. right. simpl in H2. destruct Hdb as [Hdb | Hdb]; [| congruence].
      exists t, th. split; auto. split; auto. rewrite (s_dbest _ _ _ _ Hs). auto.
  - red. intros t' th2 a2 Hne Hn Hs1 Hs2'. eapply sat2_trial; eauto.
    intros Hf [Hc | Hb]; exfalso.
    + destruct (s2_better _ _ _ _ Hs2' Hf) as [_ [j [y [A [B [C1 [D E]]]]]]]. rewrite Hc in A. inv A. rewrite Hx in C1. inv C1. congruence.
    + eapply owner_not_best; eauto.
Qed.

Lemma stmt2_ESetFinalLast : req_eff ESetFinalLast a = true ->
  forall g' th', sem c t ESetFinalLast g th = (g', th') -> stmt_goal2 g ts t g' th' (post_eff ESetFinalLast a).
Proof.
  start2 Hre g' th' Hsem Hst0. bool_hyps2.
  match goal with Hown : f_own a = true |- _ => destruct (s_own _ _ _ _ Hs Hown) as [i [x [A [B [C1 [D E]]]]]] end.
  rewrite A in Hsem. unfold otrial in Hsem. fold (T g) in Hsem. rewrite C1 in Hsem.
  injection Hsem as Eg Eth; subst g' th'. simpl.
  assert (Hdb : d_best a = true \/ t_inf x = true).
  { match goal with Hor : _ || _ = true |- _ => apply orb_true_iff in Hor; destruct Hor as [Hor | Hor];
      [left; exact Hor | right; apply inf_is_true in Hor; destruct (s_kinf _ _ _ _ Hs _ Hor) as [i2 [x2 [A2 [B2 [C2 [D2 [E2 F2]]]]]]];
       rewrite A in A2; inv A2; rewrite C1 in C2; inv C2; auto] end. }
  eapply stmt2_final_common; eauto.
Qed.

Lemma stmt2_ESetFinalZero : req_eff ESetFinalZero a = true ->
  forall g' th', sem c t ESetFinalZero g th = (g', th') -> stmt_goal2 g ts t g' th' (post_eff ESetFinalZero a).
Proof.
  start2 Hre g' th' Hsem Hst0. bool_hyps2.
  match goal with Hown : f_own a = true |- _ => destruct (s_own _ _ _ _ Hs Hown) as [i [x [A [B [C1 [D E]]]]]] end.
  rewrite A in Hsem. injection Hsem as Eg Eth; subst g' th'. simpl.
  assert (Hdb : d_best a = true \/ t_inf x = true).
  { match goal with Hor : _ || _ = true |- _ => apply orb_true_iff in Hor; destruct Hor as [Hor | Hor];
      [left; exact Hor | right; apply inf_is_true in Hor; destruct (s_kinf _ _ _ _ Hs _ Hor) as [i2 [x2 [A2 [B2 [C2 [D2 [E2 F2]]]]]]];
       rewrite A in A2; inv A2; rewrite C1 in C2; inv C2; auto] end. }
  eapply stmt2_final_common; eauto.
Qed.


Lemma id_of_index : forall j y, nth_error (T g) j = Some y -> t_id y = S j.
Proof.
  intros j y Hn. pose proof (gi_ids _ _ _ (inv_gi _ _ _ _ HI)) as Hids.
  assert (E : nth_error (map t_id (T g)) j = Some (t_id y)) by (erewrite map_nth_error; eauto).
  rewrite Hids in E. assert (j < length (T g)) by (apply nth_error_Some; congruence).
  rewrite nth_error_nth' with (d := 0) in E by (rewrite seq_length; auto). inv E. rewrite seq_nth; auto.
Qed.

Lemma count_occ_snoc : forall (l : list (nat * nat)) e v, count_occ pdec (l ++ [e]) v = count_occ pdec l v + (if pdec e v then 1 else 0).
Proof. intros. rewrite count_occ_app. simpl. destruct (pdec e v); lia. Qed.

Lemma stmt2_EIncNF : req_eff EIncNF a = true ->
  forall g' th', sem c t EIncNF g th = (g', th') -> stmt_goal2 g ts t g' th' (post_eff EIncNF a).
Proof.
  start2 Hre g' th' Hsem Hst0. bool_hyps2.
  match goal with H : inf_is _ _ = true |- _ => apply inf_is_true in H; destruct (s_kinf _ _ _ _ Hs _ H) as [i [x [A [B [C1 [D [E F]]]]]]] end.
  rewrite A in Hsem. unfold otrial in Hsem. fold (T g) in Hsem. rewrite C1 in Hsem.
  injection Hsem as Eg Eth; subst g' th'. simpl.
  set (g1 := upd_study 0 (upd_trial i (apply_tmut TFed)) g).
  set (al := al_fedv (a_fedv (alg g) ++ [(0, t_id x, match r_reward th with Some z => z | None => 0%Z end)])
              (al_base (a_spec (alg g)) (a_np (alg g)) (S (a_nf (alg g))) (a_fed (alg g) ++ [(0, t_id x)]) (alg g))).
  assert (Hss : same_study2 g1 (set_alg g1 al)) by (constructor; reflexivity).
  split; [|split].
  - assert (Hs1 : sat2 g1 t th a) by (eapply sat2_trial; eauto).
    destruct (sat2_frame _ _ t th th a Hss (same_regs_refl th) Hs1). constructor; simpl; auto.
  - intros th'' Hsr. eapply (GI2_trial_gen g (set_alg g1 al)); eauto; try reflexivity.
    + constructor; rewrite ?(sr_gh _ _ Hsr), ?(sr_group _ _ Hsr), ?(sr_held _ _ Hsr); reflexivity.
    + intros j y Hn. change (T (set_alg g1 al)) with (upd_nth i (apply_tmut TFed) (T g)) in Hn.
      change (a_fed (alg (set_alg g1 al))) with (a_fed (alg g) ++ [(0, t_id x)]). rewrite count_occ_snoc.
      rewrite nth_error_upd_nth in Hn. destruct (Nat.eqb i j) eqn:E1.
      * apply Nat.eqb_eq in E1. subst j. rewrite C1 in Hn. simpl in Hn. inv Hn. change (t_id (tr_fed x)) with (t_id x). change (t_fed (tr_fed x)) with (S (t_fed x)).
        rewrite (g2_fedlist _ _ HG2 _ _ C1). destruct (pdec (0, t_id x) (0, t_id x)); try congruence. lia.
      * rewrite (g2_fedlist _ _ HG2 _ _ Hn). destruct (pdec (0, t_id x) (0, t_id y)) as [Ee|]; try lia.
        inv Ee. rewrite (id_of_index _ _ C1), (id_of_index _ _ Hn) in *. apply Nat.eqb_neq in E1. lia.
    + change (a_fed (alg (set_alg g1 al))) with (a_fed (alg g) ++ [(0, t_id x)]). apply Forall_app. split. apply (g2_fedbound _ _ HG2).
      constructor; auto. simpl. split; auto. rewrite (id_of_index _ _ C1). assert (i < length (T g)) by (apply nth_error_Some; congruence). lia.
    + intros. simpl. auto.
    + intros. left. simpl in *. auto.
  - red; intros. eapply sat2_frame; [exact Hss | apply same_regs_refl |]. eapply sat2_trial; eauto.
Qed.

Lemma stmt2_ESetInf : req_eff ESetInf a = true ->
  forall g' th', sem c t ESetInf g th = (g', th') -> stmt_goal2 g ts t g' th' (post_eff ESetInf a).
Proof.
  start2 Hre g' th' Hsem Hst0. bool_hyps2.
  assert (Hdb : d_best a = true) by assumption.
  match goal with H : inf_is _ _ = true |- _ => apply inf_is_true in H; destruct (s_kinf _ _ _ _ Hs _ H) as [i [x [A [B [C1 [D [E F]]]]]]] end.
  rewrite A in Hsem. unfold otrial in Hsem. fold (T g) in Hsem. rewrite C1, F in Hsem.
  injection Hsem as Eg Eth; subst g' th'. simpl.
  set (g1 := upd_study 0 (upd_trial i (apply_tmut TInf)) g).
  assert (Hnb : s_best (St g) = Some i -> False) by (intros; eapply owner_not_best; eauto).
  split; [|split].
  - assert (X : sat2 g1 t th a) by (eapply sat2_trial; eauto).
    destruct X. constructor; simpl; auto.
  - intros th'' Hsr.
    assert (Hgh : gh th'' = gh_inf (gh th)) by (rewrite (sr_gh _ _ Hsr); reflexivity).
    (* first change the trial with the ghost unchanged, then settle the ghost *)
    assert (G1 : GI2 g1 (set_th ts t th)).
    { eapply GI2_trial; eauto; try (constructor; reflexivity); try (intros Hb; exfalso; auto; fail);
      try (intros r H1 H2 H3; simpl in H2; discriminate). }
    assert (Hme : nth_error (set_th ts t th) t = Some th) by (eapply nth_error_set_th_eq; eauto).
    assert (Hset : set_th (set_th ts t th) t th'' = set_th ts t th'').
    { unfold set_th. clear. revert t. induction ts; destruct t; simpl; auto. f_equal. auto. }
    rewrite <- Hset. destruct G1 as [R1 R2 R3 R4 R5 R6 R7 R8].
    assert (Hnth : forall t0 th0, nth_error (set_th (set_th ts t th) t th'') t0 = Some th0 ->
               (t0 = t /\ th0 = th'') \/ (t0 <> t /\ nth_error (set_th ts t th) t0 = Some th0)) by (intros; eapply nth_set_cases2; eauto).
    constructor; auto.
    + intros t0 th0 Hn Hr. destruct (Hnth _ _ Hn) as [[? ?]|[? ?]]; subst; eapply R1; eauto. rewrite Hgh in Hr. auto.
    + intros j y Hn Hdn. destruct (R3 _ _ Hn Hdn) as [A1 | [t0 [th0 [A1 B1]]]]; auto. right. destruct (Nat.eq_dec t0 t).
      * subst. rewrite Hme in A1. inv A1. exists t, th''. split. eapply nth_error_set_th_eq; eauto. rewrite Hgh. auto.
      * exists t0, th0. split; auto. rewrite nth_error_set_th_neq; auto.
    + intros t0 th0 j Hn Hl. destruct (Hnth _ _ Hn) as [[? ?]|[? ?]]; subst.
      * rewrite Hgh in Hl. simpl in Hl. destruct (R4 _ _ _ Hme Hl) as [A1 B1]. split. eapply same_regs_holds; eauto. rewrite (sr_group _ _ Hsr). auto.
      * eapply R4; eauto.
    + intros b Hb. destruct (R5 _ Hb) as [xb [rb [A1 [B1 [C2 [D1 E1]]]]]]. exists xb, rb. repeat split; auto.
      intros t0 th0 Hn Ho. destruct (Hnth _ _ Hn) as [[? ?]|[? ?]]; subst.
      * rewrite Hgh. reflexivity.
      * eapply E1; eauto.
    + intros j y r Hn Hdn Hi Hf. destruct (R6 _ _ _ Hn Hdn Hi Hf) as [[t0 [th0 [A1 [B1 C2]]]] | Hrest]; auto. left. destruct (Nat.eq_dec t0 t).
      * subst. rewrite Hme in A1. inv A1. exfalso.
        (* the trial owned by the stepping thread is infeasible now *)
        rewrite B in B1. injection B1 as Eij. subst j. change (T g1) with (upd_nth i (apply_tmut TInf) (T g)) in Hn.
        erewrite nth_upd2 in Hn; eauto. rewrite Nat.eqb_refl in Hn. inv Hn. simpl in Hi. discriminate.
      * exists t0, th0. split; auto. rewrite nth_error_set_th_neq; auto.
  - red. intros t' th2 a2 Hne Hn Hs1 Hs2'. eapply sat2_trial; eauto.
Qed.


Lemma set_th_twice : forall (l : list tstate) n x y, set_th (set_th l n x) n y = set_th l n y.
Proof. unfold set_th. induction l; destruct n; simpl; intros; auto. f_equal. auto. Qed.

Lemma stmt2_ESetCompleted : req_eff ESetCompleted a = true ->
  forall g' th', sem c t ESetCompleted g th = (g', th') -> stmt_goal2 g ts t g' th' (post_eff ESetCompleted a).
Proof.
  start2 Hre g' th' Hsem Hst0. unfold cur_debts in Hre. bool_hyps2.
  match goal with H : (_ || _) = false |- _ => repeat (apply orb_false_iff in H; destruct H) end.
  assert (HLk : holds LStudy (a_locks a) = true) by assumption.
  assert (Hdb : d_best a = false) by assumption.
  match goal with Hcp : f_curpend a = true |- _ => destruct (s_curpend _ _ _ _ Hs Hcp) as [_ [i [x [Hcur [Hx Hpend]]]]] end.
  rewrite Hcur in Hsem. unfold otrial in Hsem. fold (T g) in Hsem. rewrite Hx, Hpend in Hsem.
  injection Hsem as Eg Eth; subst g' th'. simpl.
  destruct (gi_pend _ _ _ (inv_gi _ _ _ _ HI) _ _ Hx Hpend) as [Hown0 [Hfed0 Hinf0]].
  set (g1 := upd_study 0 (upd_trial i (apply_tmut (TFlip t))) g).
  assert (Hnb : s_best (St g) = Some i -> False).
  { intros Hb. destruct (g2_best1 _ _ HG2 _ Hb) as [xb [rb [A [B _]]]]. rewrite Hx in A. inv A. congruence. }
  assert (Hnbet : f_better a = false).
  { destruct (f_better a) eqn:E; auto. exfalso. destruct (s2_better _ _ _ _ Hs2 E) as [_ [j [y [A [B [C1 [D _]]]]]]].
    rewrite Hcur in A. inv A. rewrite Hx in C1. inv C1. congruence. }
  split; [|split].
  - assert (X : sat2 g1 t th a). { eapply sat2_trial; eauto. intros Hf. congruence. }
    destruct X. constructor; simpl; auto. intros Hf. congruence.
  - intros th'' Hsr.
    assert (Hgh : gh th'' = gh_flip i (gh th)) by (rewrite (sr_gh _ _ Hsr); reflexivity).
    set (thA := ghu (gh_flip i) th).
    (* phase A: the ghost takes ownership; phase B: the status changes *)
    assert (GA : GI2 g (set_th ts t thA)).
    { destruct HG2 as [R1 R2 R3 R4 R5 R6 R7 R8].
      assert (Hnth : forall t0 th0, nth_error (set_th ts t thA) t0 = Some th0 -> (t0 = t /\ th0 = thA) \/ (t0 <> t /\ nth_error ts t0 = Some th0))
        by (intros; eapply nth_set_cases2; eauto).
      constructor; auto.
      - intros t0 th0 Hn Hr. destruct (Hnth _ _ Hn) as [[? ?]|[? ?]]; subst; eapply R1; eauto.
      - intros j y Hn Hdn. destruct (R3 _ _ Hn Hdn) as [A1 | [t0 [th0 [A1 B1]]]]; auto. right. destruct (Nat.eq_dec t0 t).
        + subst. rewrite Ht in A1. inv A1. exists t, thA. split. eapply nth_error_set_th_eq; eauto. auto.
        + exists t0, th0. split; auto. rewrite nth_error_set_th_neq; auto.
      - intros t0 th0 j Hn Hl. destruct (Hnth _ _ Hn) as [[? ?]|[? ?]]; subst; eauto. eapply (R4 t th); eauto.
      - intros b Hb. destruct (R5 _ Hb) as [xb [rb [A1 [B1 [C2 [D1 E1]]]]]]. exists xb, rb. repeat split; auto.
        intros t0 th0 Hn Ho. destruct (Hnth _ _ Hn) as [[? ?]|[? ?]]; subst; eauto.
        simpl in Ho. inv Ho. exfalso. auto.
      - intros j y r Hn Hdn Hi Hf. destruct (R6 _ _ _ Hn Hdn Hi Hf) as [[t0 [th0 [A1 [B1 C2]]]] | Hrest]; auto. left. destruct (Nat.eq_dec t0 t).
        + subst. rewrite Ht in A1. inv A1. exfalso. rewrite (s_dbest _ _ _ _ Hs) in C2. congruence.
        + exists t0, th0. split; auto. rewrite nth_error_set_th_neq; auto. }
    assert (HmeA : nth_error (set_th ts t thA) t = Some thA) by (eapply nth_error_set_th_eq; eauto).
    rewrite <- (set_th_twice ts t thA th'').
    eapply GI2_trial; eauto.
    + constructor; rewrite ?Hgh, ?(sr_group _ _ Hsr), ?(sr_held _ _ Hsr); reflexivity.
    + intros Hb. exfalso. auto.
    + intros r H1' H2' H3'. right. exists t, thA. split; auto.
  - red. intros t' th2 a2 Hne Hn Hs1 Hs2'. eapply sat2_trial; eauto.
    intros Hf. exfalso. destruct (s2_better _ _ _ _ Hs2' Hf) as [Hh _]. eapply other2_study_contra; eauto.
Qed.


Lemma app_some : forall A (l l' : list A) i y, nth_error l i = Some y -> nth_error (l ++ l') i = Some y.
Proof. intros. rewrite nth_error_app1; auto. apply nth_error_Some. congruence. Qed.

Lemma sat2_append_keep : forall t' th2 a2 x, sat2 g t' th2 a2 ->
  sat2 (upd_study 0 (fun st => set_trials st (s_trials st ++ [x])) g) t' th2 a2.
Proof.
  intros t' th2 a2 x [].
  set (g1 := upd_study 0 (fun st => set_trials st (s_trials st ++ [x])) g).
  assert (HT1 : T g1 = T g ++ [x]) by reflexivity.
  assert (Hl1 : forall gk, lat g1 gk = lat g gk) by reflexivity.
  assert (Hb1 : s_best (St g1) = s_best (St g)) by reflexivity.
  constructor; rewrite ?Hl1, ?Hb1, ?HT1; auto.
  - intros Hf. destruct (s2_latdone0 Hf) as [Hh Hl]. split; auto. destruct (lat g (r_group th2)); auto.
    destruct Hl as [y [A B]]. exists y. split; auto. apply app_some; auto.
  - intros Hf. specialize (s2_mine0 Hf). destruct (r_trial th2); auto. destruct s2_mine0 as [y [A B]]. exists y. split; auto. apply app_some; auto.
  - intros Hf. destruct (s2_better0 Hf) as [Hh [j [y [A [B [C1 [D E]]]]]]]. split; auto. exists j, y. repeat split; auto. apply app_some; auto.
    destruct (s_best (St g)); auto. destruct E as [rc [xb [rb [F1 [F2 [F3 F4]]]]]]. exists rc, xb, rb. repeat split; auto. apply app_some; auto.
Qed.

Lemma stmt2_EAppend : req_eff EAppend a = true ->
  forall g' th', sem c t EAppend g th = (g', th') -> stmt_goal2 g ts t g' th' (post_eff EAppend a).
Proof.
  start2 Hre g' th' Hsem Hst0. bool_hyps2.
  assert (HLk : holds LStudy (a_locks a) = true) by assumption.
  assert (Hidf : f_idfresh a = true) by assumption. assert (Hdlat : d_lat a = false) by assumption.
  injection Hsem as Eg Eth; subst g' th'. simpl. fold (T g).
  set (x := {| t_id := r_id th; t_group := r_group th; t_dna := r_dna th; t_done := false; t_inf := false; t_meas := []; t_final := None; t_fed := 0; t_owner := None |}).
  set (g1 := upd_study 0 (fun st => set_trials st (s_trials st ++ [x])) g).
  destruct (s_idfresh _ _ _ _ Hs Hidf) as [_ Hid].
  assert (HT1 : T g1 = T g ++ [x]) by reflexivity.
  assert (Hlen : nth_error (T g ++ [x]) (length (T g)) = Some x).
  { rewrite nth_error_app2 by lia. rewrite Nat.sub_diag. reflexivity. }
  pose proof (s_dlat _ _ _ _ Hs) as Hgl. rewrite Hdlat in Hgl.
  split; [|split].
  - pose proof (sat2_append_keep t th a x Hs2) as X. fold g1 in X. destruct X. constructor; simpl; auto; try discriminate.
    intros _. rewrite HT1. exists x. split; auto.
  - intros th'' Hsr. destruct HG2 as [R1 R2 R3 R4 R5 R6 R7 R8].
    assert (Hgh : gh th'' = gh_append (length (T g)) (gh th)) by (rewrite (sr_gh _ _ Hsr); reflexivity).
    assert (Hnth : forall t0 th0, nth_error (set_th ts t th'') t0 = Some th0 -> (t0 = t /\ th0 = th'') \/ (t0 <> t /\ nth_error ts t0 = Some th0))
      by (intros; eapply nth_set_cases2; eauto).
    assert (Hl1 : forall gk, lat g1 gk = lat g gk) by reflexivity.
    assert (Hb1 : s_best (St g1) = s_best (St g)) by reflexivity.
    constructor; rewrite ?HT1, ?Hb1; auto.
    + intros t0 th0 Hn Hr. destruct (Hnth _ _ Hn) as [[? ?]|[? ?]]; subst; eapply R1; eauto. rewrite Hgh in Hr. auto.
    + intros gk j Hl. rewrite Hl1 in Hl. destruct (R2 _ _ Hl) as [y [A B]]. exists y. split; auto. apply app_some; auto.
    + intros j y Hn Hdn. rewrite Hl1. destruct (lt_dec j (length (T g))).
      * rewrite nth_error_app1 in Hn; auto. destruct (R3 _ _ Hn Hdn) as [A | [t0 [th0 [A B]]]]; auto. right.
        destruct (Nat.eq_dec t0 t).
        -- subst. rewrite Ht in A. inv A. congruence.
        -- exists t0, th0. split; auto. rewrite nth_error_set_th_neq; auto.
      * right. exists t, th''. split. eapply nth_error_set_th_eq; eauto. rewrite Hgh. simpl.
        assert (Hjl : j < length (T g ++ [x])) by (apply nth_error_Some; congruence). rewrite app_length in Hjl. simpl in Hjl.
        assert (j = length (T g)) by lia. congruence.
    + intros t0 th0 j Hn Hl. destruct (Hnth _ _ Hn) as [[? ?]|[? ?]]; subst.
      * rewrite Hgh in Hl. simpl in Hl. inv Hl. split. eapply same_regs_holds; eauto. unfold holds_k. simpl. eapply sat_holds_study; eauto.
        exists x. split; auto. rewrite (sr_group _ _ Hsr). reflexivity.
      * match goal with Hn0 : nth_error ts t0 = Some th0 |- _ => destruct (R4 _ _ _ Hn0 Hl) as [A [y [B C1]]] end. split; auto. exists y. split; auto. apply app_some; auto.
    + intros b Hb. destruct (R5 _ Hb) as [xb [rb [A [B [C1 [D E]]]]]]. exists xb, rb. repeat split; auto. apply app_some; auto.
      intros t0 th0 Hn Ho. destruct (Hnth _ _ Hn) as [[? ?]|[? ?]]; subst.
      * rewrite Hgh in *. simpl in *. eapply E; eauto.
      * eapply E; eauto.
    + intros j y r Hn Hdn Hi Hf. destruct (lt_dec j (length (T g))).
      * rewrite nth_error_app1 in Hn; auto. destruct (R6 _ _ _ Hn Hdn Hi Hf) as [[t0 [th0 [A [B C1]]]] | [b [xb [rb [A [B [C1 D]]]]]]].
        -- left. destruct (Nat.eq_dec t0 t).
           ++ subst. rewrite Ht in A. inv A. exists t, th''. split. eapply nth_error_set_th_eq; eauto. rewrite Hgh. auto.
           ++ exists t0, th0. split; auto. rewrite nth_error_set_th_neq; auto.
        -- right. exists b, xb, rb. repeat split; auto. apply app_some; auto.
      * exfalso. rewrite nth_error_app2 in Hn by lia. destruct (j - length (T g)) as [|k]; simpl in Hn. inv Hn. discriminate. destruct k; discriminate.
    + intros j y Hn. destruct (lt_dec j (length (T g))).
      * rewrite nth_error_app1 in Hn; auto. eapply R7; eauto.
      * rewrite nth_error_app2 in Hn by lia. destruct (j - length (T g)) as [|k]; simpl in Hn; [|destruct k; discriminate]. inv Hn. simpl.
        rewrite Hid. apply count_occ_not_In. intros Hin. rewrite Forall_forall in R8. destruct (R8 _ Hin) as [_ Hb]. simpl in Hb. lia.
    + rewrite app_length. simpl. eapply Forall_impl; [| exact R8]. intros p [A B]. split; auto. lia.
  - red. intros t' th2 a2 Hne Hn Hs1 Hs2'. apply sat2_append_keep; auto.
Qed.

End OneStmt2.


Lemma stmt_sound2 : forall ini e rd wr a g ts t th,
  Inv ps c g ts -> Inv2 g ts -> nth_error ts t = Some th -> sat g t th a -> sat2 g t th a -> req ini (Stmt rd wr e) a = true ->
  forall g' th', sem c t e g th = (g', th') -> stmt_goal2 g ts t g' th' (post_eff e a).
Proof.
  intros ini e rd wr a g ts t th HI HI2 Ht Hs Hs2 Hreq g' th' Hsem.
  pose proof (s_study _ _ _ _ Hs) as Hst0. destruct HI2 as [HG2 HT2].
  destruct (req_stmt _ _ _ _ _ Hreq) as [Hok [Hwg [Hre Hfp]]].
  destruct e;
  try (unfold sem, muts, regs, study_of in Hsem; rewrite Hst0 in Hsem; simpl in Hsem;
       repeat destr_match; injection Hsem as Eg Eth; subst g' th'; simpl post_eff;
       first [ eapply stmt_boring2; eauto; constructor; reflexivity
             | eapply stmt_boring2'; eauto; constructor; reflexivity ]).
  - eapply stmt2_ENewStudy; eauto.
  - eapply stmt2_ERegister; eauto.
  - eapply stmt2_EGetLatest; eauto.
  - eapply stmt2_EAppend; eauto.
  - eapply stmt2_ESetLatest; eauto.
  - eapply stmt2_ESetCur; eauto.
  - eapply stmt2_EAddMeas; eauto.
  - eapply stmt2_ESetCompleted; eauto.
  - eapply stmt2_ESetFinalLast; eauto.
  - eapply stmt2_ESetFinalZero; eauto.
  - eapply stmt2_ESetInf; eauto.
  - eapply stmt2_EReadBest; eauto.
  - eapply stmt2_ESetBest; eauto.
  - eapply stmt2_EIncNF; eauto.
Qed.


(* ---- one step of one thread preserves the second layer ---------------------------------------------------------------- *)
Lemma sat2_frame' : forall g g' t th th' a, same_study2 g g' ->
  r_group th' = r_group th -> r_trial th' = r_trial th -> r_best th' = r_best th -> r_cur th' = r_cur th -> gh th' = gh th ->
  sat2 g t th a -> sat2 g' t th' a.
Proof.
  intros g g' t th th' a [E1 E2 E3] F1 F2 F3 F4 F5 [].
  constructor; unfold lat in *; rewrite ?F1, ?F2, ?F3, ?F4, ?F5, ?E1, ?E2, ?E3; auto.
Qed.

Lemma thread_ok2_at : forall g' t th' p j a' a'', pc th' = Some (p, j) -> an_get (ann ps p) j (r_ret th') = Some a'' -> leq a' a'' = true ->
  sat2 g' t th' a' -> thread_ok2 g' t th'.
Proof. intros. exists a''. split. unfold cur_a. rewrite H. auto. eapply sat2_leq; eauto. Qed.

Lemma thread_ok2_entry : forall g t th', (pc th' = None \/ exists p, pc th' = Some (p, 0)) -> thread_ok2 g t th'.
Proof.
  intros g t th' Hpc. unfold thread_ok2, cur_a. destruct Hpc as [Hpc | [p Hpc]]; rewrite Hpc.
  - exists a0. split; auto. apply sat2_a0.
  - destruct (entry_ann ps HD p (r_ret th')) as [x [A B]]. exists x. split; auto. eapply sat2_leq; eauto. apply sat2_a0e.
Qed.

Lemma Inv2_assemble : forall g ts t th g' th', nth_error ts t = Some th ->
  Inv ps c g ts -> Inv2 g ts ->
  GI2 g' (set_th ts t th') -> thread_ok2 g' t th' -> others_stable2 g g' ts t ->
  Inv2 g' (set_th ts t th').
Proof.
  intros g ts t th g' th' Ht HI [HG2 HT2] HG Hok Hoth. constructor; auto.
  intros t0 th0 Hn. destruct (Nat.eq_dec t t0).
  - subst. erewrite nth_error_set_th_eq in Hn; eauto. inv Hn. auto.
  - rewrite nth_error_set_th_neq in Hn; auto.
    destruct (HT2 _ _ Hn) as [a2 [A B]]. destruct (inv_th _ _ _ _ HI _ _ Hn) as [a1 [A1 B1]]. rewrite A in A1. inv A1.
    exists a1. split; auto.
Qed.

Lemma GI2_same_threads : forall g ts t th th', GI2 g ts -> nth_error ts t = Some th -> same_regs th th' -> GI2 g (set_th ts t th').
Proof. intros. eapply GI2_frame_regs; eauto. apply same_gi2_refl. Qed.

Theorem Inv2_step : forall g ts t g' ts', Inv ps c g ts -> Inv2 g ts -> step1 ps c g ts t = Some (g', ts') -> Inv2 g' ts'.
Proof.
  intros g ts t g' ts' HI HI2 Hstep.
  destruct (step1_inv _ _ _ _ _ _ _ Hstep) as [th [p [i [Ht [Hpc Hcase]]]]].
  destruct (inv_th _ _ _ _ HI _ _ Ht) as [a [Hcur Hs]]. unfold cur_a in Hcur. rewrite Hpc in Hcur.
  destruct (i2_th _ _ HI2 _ _ Ht) as [a2 [Hcur2 Hs2]]. unfold cur_a in Hcur2. rewrite Hpc, Hcur in Hcur2. inv Hcur2.
  pose proof (i2_gi _ _ HI2) as HG2.
  destruct Hcase as [[Hf [Hg Hts]] | [gate [x [th' [Hf [Hact Hts]]]]]].
  - subst g' ts'. eapply Inv2_assemble; eauto.
    + eapply GI2_same_threads; eauto. apply same_regs_to_script.
    + apply thread_ok2_entry. apply to_script_pc.
    + apply others2_same. apply same_study2_refl.
  - subst ts'. rewrite (fetch_nth ps) in Hf. destruct (check_succ ps HD _ _ _ _ _ _ Hcur Hf) as [Hreq Hsucc].
    destruct x; simpl in Hact.
    + (* Acquire *)
      destruct (locks g (phys l g th)) eqn:El; try discriminate. inv Hact.
      destruct (Hsucc (S i) (r_ret th) (with_locks (l :: a_locks a2) a2)) as [a'' [A B]]; [simpl; auto|].
      eapply Inv2_assemble; eauto.
      * eapply GI2_frame; eauto. constructor; reflexivity.
        intros Hl. destruct (g_lat (gh th)) as [j|] eqn:Ej; try congruence. destruct (g2_latlock _ _ HG2 _ _ _ Ht Ej) as [Hk _].
        unfold holds_k in *. simpl. auto.
      * eapply thread_ok2_at with (a' := with_locks (l :: a_locks a2) a2); simpl; eauto.
        eapply (sat2_frame' g _ t th); [constructor; reflexivity | | | | | | eapply (sat2_acquire g t th a2 l Hs2 th g (same_study2_refl g) (same_regs_refl th))]; reflexivity.
      * apply others2_same. constructor; reflexivity.
    + (* Release *)
      unfold req in Hreq. bool_hyps2.
      destruct (a_locks a2) as [|l' rest] eqn:Elk; try discriminate. bool_hyps2.
      match goal with H : lockref_eqb l l' = true |- _ => apply lockref_eqb_eq in H; subst l' end.
      destruct (held th) as [|[l0 k] h] eqn:Eh.
      { pose proof (s_locks _ _ _ _ Hs) as Hm. rewrite Eh, Elk in Hm. discriminate. }
      inv Hact.
      assert (El0 : l0 = l). { pose proof (s_locks _ _ _ _ Hs) as Hm. rewrite Eh, Elk in Hm. simpl in Hm. congruence. }
      subst l0.
      destruct (Hsucc (S i) (r_ret th) (with_locks (tl (a_locks a2)) a2)) as [a'' [A B]]; [simpl; auto|].
      assert (Hdl : l = LStudy -> d_lat a2 = false).
      { intros; subst. match goal with H : negb (d_lat a2) = true |- _ => apply negb_true_iff in H; auto end. }
      eapply Inv2_assemble; eauto.
      * eapply GI2_frame; eauto. constructor; reflexivity.
        intros Hl. destruct (g_lat (gh th)) as [j|] eqn:Ej; try congruence. destruct (g2_latlock _ _ HG2 _ _ _ Ht Ej) as [Hk _].
        unfold holds_k in *. rewrite Eh in Hk. simpl in Hk. simpl. destruct Hk as [Hk | Hk]; auto. exfalso. subst k.
        pose proof (s_phys _ _ _ _ Hs l (KStudy 0)) as Hp. rewrite Eh in Hp. specialize (Hp (or_introl eq_refl)).
        destruct l; try discriminate; try (destruct Hp; discriminate).
        pose proof (s_dlat _ _ _ _ Hs) as Hd. rewrite (Hdl eq_refl) in Hd. congruence.
      * eapply thread_ok2_at with (a' := with_locks (tl (a_locks a2)) a2); simpl; eauto.
        eapply (sat2_frame' g _ t th); [constructor; reflexivity | | | | | | eapply (sat2_release g t th a2 l rest Hs2 Elk Hdl th g (same_study2_refl g) (same_regs_refl th))]; reflexivity.
      * apply others2_same. constructor; reflexivity.
    + (* Stmt *)
      destruct (sem c t e g th) as [g1 th1] eqn:Esem.
      destruct (stmt_sound2 _ e rd wr a2 g ts t th HI HI2 Ht Hs Hs2 Hreq g1 th1 Esem) as [S1 [S2 S3]].
      assert (Hret : exists b' a', In (S i, b', a') (succs i (r_ret th) a2 (Stmt rd wr e)) /\ r_ret th1 = b' /\ sat2 g1 t th1 a').
      { pose proof (regs_ret c t e g th) as Hr.
        assert (Eth : th1 = regs c t e g th) by (unfold sem in Esem; inv Esem; reflexivity).
        rewrite <- Eth in Hr.
        destruct e; simpl succs; simpl post_eff in S1;
          try (exists (r_ret th); eexists; split; [left; reflexivity | split; [exact Hr | exact S1]]).
        - exists b; eexists; split; [left; reflexivity | split; [|exact S1]]. rewrite Eth. reflexivity.
        - destruct (r_ret th1) eqn:Er.
          + exists true; eexists; split; [left; reflexivity | split; [reflexivity | exact S1]].
          + exists false; eexists; split; [right; left; reflexivity | split; [reflexivity | exact S1]]. }
      destruct Hret as [b' [a' [Hin [Hb Hsa]]]].
      destruct (Hsucc _ _ _ Hin) as [a'' [A B]].
      unfold sem in Esem. injection Esem as Eg1 Eth1. subst g1 th1. injection Hact as Eg' Eth'. subst g' th'.
      eapply Inv2_assemble; eauto.
      * apply S2. apply same_regs_pc.
      * eapply thread_ok2_at with (a' := a'); simpl; eauto. rewrite Hb. eauto.
        eapply sat2_frame; [apply same_study2_refl | apply same_regs_pc | exact Hsa].
    + (* Branch *)
      inv Hact.
      destruct (branch_sound2 _ c0 rd off a2 g ts t th HI HI2 Ht Hs Hs2 Hreq) as [B2 [B3 B4]].
      destruct (branch_sound ps c HD _ c0 rd off a2 g ts t th (inv_lock _ _ _ _ HI) (inv_gi _ _ _ _ HI) Ht Hs Hreq) as [B1 _].
      set (b := evalc c c0 g th) in *.
      assert (Hin : In ((if b then S i else S i + off), r_ret th, post_br c0 b a2) (succs i (r_ret th) a2 (Branch rd c0 off))).
      { simpl. destruct (static_cond (r_ret th) a2 c0) as [[|]|] eqn:Est; destruct b; simpl in *; auto; exfalso; apply B1; reflexivity. }
      destruct (Hsucc _ _ _ Hin) as [a'' [A B]].
      assert (Hret : r_ret (note_branch c0 b th) = r_ret th) by (destruct c0, b; reflexivity).
      eapply Inv2_assemble; eauto.
      * apply B3. apply same_regs_pc.
      * eapply thread_ok2_at with (a' := post_br c0 b a2); simpl; eauto. rewrite Hret. eauto.
        eapply sat2_frame; [apply same_study2_refl | apply same_regs_pc | exact B2].
    + (* Jump *)
      inv Hact. destruct (Hsucc (S i + off) (r_ret th) a2) as [a'' [A B]]; [simpl; auto|].
      eapply Inv2_assemble; eauto.
      * eapply GI2_same_threads; eauto. apply same_regs_pc.
      * eapply thread_ok2_at with (a' := a2); simpl; eauto. eapply sat2_frame; [apply same_study2_refl | apply same_regs_pc | exact Hs2].
      * apply others2_same. apply same_study2_refl.
    + (* Throw *)
      assert (Hfin : g' = g -> th' = th_pc None th -> Inv2 g' (set_th ts t th')).
      { intros; subst. eapply Inv2_assemble; eauto.
        - eapply GI2_same_threads; eauto. apply same_regs_pc.
        - apply thread_ok2_entry. left. reflexivity.
        - apply others2_same. apply same_study2_refl. }
      assert (Hscr : g' = g -> th' = to_script None true th -> Inv2 g' (set_th ts t th')).
      { intros; subst. eapply Inv2_assemble; eauto.
        - eapply GI2_same_threads; eauto. apply same_regs_to_script.
        - apply thread_ok2_entry. apply to_script_pc.
        - apply others2_same. apply same_study2_refl. }
      destruct k; try destruct (Nat.eqb p P_init); injection Hact as Eg Eth; auto.
    + (* Done *)
      inv Hact. eapply Inv2_assemble; eauto.
      * eapply GI2_same_threads; eauto. apply same_regs_to_script.
      * apply thread_ok2_entry. apply to_script_pc.
      * apply others2_same. apply same_study2_refl.
Qed.

End Sound2.

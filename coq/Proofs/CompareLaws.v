(* CompareLaws.v — the algebraic laws of pg.eq / pg.ne / pg.lt / pg.gt and of sorting by pg.lt, for every
   rank table satisfying [ranks_ok] and all values of the domain [cmp_ok]. *)
From PG Require Import Common.Tactics Common.Tr Gen.TypeOrder Model.Compare
  Proofs.CompareOrder Proofs.CompareDict Proofs.CompareLink.
From Coq Require Import Sorting.Sorted Sorting.Permutation.

Section WithTable.
Variable t : ranks.
Hypothesis ROK : ranks_ok t = true.
Variable f : fam.
Notation ok := (fun v => cmp_ok t f v = true).

Lemma eq_refl_law a : ok a -> eq a a = true.
Proof. intros Ha. rewrite (eq_spec t ROK f) by auto. rewrite nc_refl. reflexivity. Qed.

Lemma eq_sym_law a b : ok a -> ok b -> eq a b = eq b a.
Proof.
  intros Ha Hb. rewrite !(eq_spec t ROK f) by auto. rewrite (nc_antisym t b a).
  destruct (nc t b a); reflexivity.
Qed.

Lemma eq_trans_law a b c : ok a -> ok b -> ok c -> eq a b = true -> eq b c = true -> eq a c = true.
Proof.
  intros Ha Hb Hc. rewrite !(eq_spec t ROK f) by auto. rewrite !is_eq_true.
  intros H1 H2. exact (trans_ok_eq _ _ _ (nc_trans t a b c) H1 H2).
Qed.

Lemma ne_law a b : ne a b = negb (eq a b).
Proof. reflexivity. Qed.

Lemma lt_total_law a b : ok a -> ok b -> exists r, lt t a b = Ok r.
Proof. intros Ha Hb. rewrite (lt_spec t ROK f) by auto. eauto. Qed.

(* exactly one of lt a b, eq a b, lt b a *)
Definition exactly_one (x y z : bool) : Prop :=
  (x = true /\ y = false /\ z = false) \/ (x = false /\ y = true /\ z = false) \/ (x = false /\ y = false /\ z = true).

Lemma trichotomy_law a b : ok a -> ok b ->
  exists x z, lt t a b = Ok x /\ lt t b a = Ok z /\ exactly_one x (eq a b) z.
Proof.
  intros Ha Hb. rewrite !(lt_spec t ROK f), (eq_spec t ROK f) by auto.
  do 2 eexists. split; [reflexivity|split; [reflexivity|]].
  rewrite (nc_antisym t a b). unfold exactly_one. destruct (nc t a b); simpl; tauto.
Qed.

Lemma lt_trans_law a b c : ok a -> ok b -> ok c ->
  lt t a b = Ok true -> lt t b c = Ok true -> lt t a c = Ok true.
Proof.
  intros Ha Hb Hc. rewrite !(lt_spec t ROK f) by auto. intros H1 H2.
  assert (A : nc t a b = Lt) by (destruct (nc t a b); simpl in H1; congruence).
  assert (B : nc t b c = Lt) by (destruct (nc t b c); simpl in H2; congruence).
  rewrite (trans_ok_lt _ _ _ (nc_trans t a b c) A B). reflexivity.
Qed.

Lemma lt_irrefl_law a : ok a -> lt t a a = Ok false.
Proof. intros Ha. rewrite (lt_spec t ROK f) by auto. rewrite nc_refl. reflexivity. Qed.

Lemma gt_law a b : gt t a b = lt t b a.
Proof. reflexivity. Qed.

(* the order is consistent with equality: equal values are interchangeable on either side of lt *)
Lemma lt_eq_compat_l a b c : ok a -> ok b -> ok c -> eq a b = true -> lt t a c = lt t b c.
Proof.
  intros Ha Hb Hc. rewrite !(lt_spec t ROK f), (eq_spec t ROK f) by auto. rewrite is_eq_true. intros H.
  rewrite (trans_ok_eq_l _ _ _ (nc_trans t a b c) H). reflexivity.
Qed.
Lemma lt_eq_compat_r a b c : ok a -> ok b -> ok c -> eq a b = true -> lt t c a = lt t c b.
Proof.
  intros Ha Hb Hc. rewrite !(lt_spec t ROK f), (eq_spec t ROK f) by auto. rewrite is_eq_true. intros H.
  assert (H' : nc t b a = Eq) by (rewrite (nc_antisym t a b), H; reflexivity).
  rewrite <- (trans_ok_eq_r _ _ _ (nc_trans t c b a) H'). reflexivity.
Qed.

(* Object.__eq__ / __ne__ (classes with use_symbolic_comparison) are pg.eq / pg.ne *)
Lemma depth_dict s s' u e : depth (PDict s e) = depth (PObj s' u e).
Proof. reflexivity. Qed.
Lemma sym_eq_eq a b : (exists n u e, a = PObj n u e) -> sym_eq a b = eq a b.
Proof. intros (n & u & e & ->). unfold sym_eq, eq. destruct b; reflexivity. Qed.

(* the identity shortcut changes nothing on the domain: an object is equal to itself anyway *)
Lemma eq_top_law same a b : (same = true -> a = b) -> ok a -> eq_top same a b = eq a b.
Proof.
  intros S Ha. unfold eq_top. destruct same; auto. rewrite <- (S Logic.eq_refl), eq_refl_law; auto.
Qed.

Lemma op_eq_law same a b : (exists n u e, a = PObj n u e) -> (same = true -> a = b) -> ok a ->
  op_eq true same a b = eq a b /\ op_ne true same a b = ne a b /\ op_hash t true a = Some (hpre t a).
Proof.
  intros O S Ha. unfold op_ne, ne, op_eq, op_hash. rewrite sym_eq_eq by auto.
  fold (eq_top same a b). rewrite eq_top_law by auto. auto.
Qed.
(* a class that does not opt in: == is identity *)
Lemma op_eq_optout same a b : op_eq false same a b = same /\ op_ne false same a b = negb same.
Proof. split; reflexivity. Qed.

(* ---- sorting ---------------------------------------------------------------------------------- *)
Lemma cmp3_spec a b : ok a -> ok b -> cmp3 t a b = Ok (nc t a b).
Proof.
  intros Ha Hb. unfold cmp3. rewrite !(lt_spec t ROK f) by auto. rewrite (nc_antisym t a b).
  destruct (nc t a b); reflexivity.
Qed.

Section Sort.
  Variable A : Type.
  Implicit Types l : list (A * pv).
  Definition le' (x y : A * pv) : Prop := nc t (snd x) (snd y) <> Gt.
  Definition all_ok_vals l : Prop := Forall (fun x => ok (snd x)) l.

  Lemma le'_trans x y z : le' x y -> le' y z -> le' x z.
  Proof.
    unfold le'. intros H1 H2. pose proof (nc_trans t (snd x) (snd y) (snd z)) as T.
    destruct (nc t (snd x) (snd y)), (nc t (snd y) (snd z)); simpl in T; try congruence.
  Qed.

  Lemma sort_ins_ok x l : ok (snd x) -> all_ok_vals l -> StronglySorted le' l ->
    exists l', sort_ins t x l = Ok l' /\ Permutation (x :: l) l' /\ StronglySorted le' l'.
  Proof.
    intros Hx. induction l as [|y r IH]; intros Hl Hs; simpl.
    - eexists; split; [reflexivity|]. split; auto. constructor; constructor.
    - inv Hl. inv Hs. rewrite cmp3_spec by auto.
      destruct (nc t (snd y) (snd x)) eqn:C.
      + eexists; split; [reflexivity|]. split; auto.
        assert (Lxy : le' x y) by (unfold le'; rewrite (nc_antisym t (snd y) (snd x)), C; discriminate).
        constructor. constructor; auto. constructor; auto.
        rewrite Forall_forall in *. intros z I. eapply le'_trans; eauto.
      + destruct (IH H2 H3) as (l' & E & P & S). rewrite E. eexists; split; [reflexivity|]. split.
        * rewrite perm_swap. constructor. exact P.
        * constructor; auto. rewrite Forall_forall in *. intros z I.
          apply (Permutation_in _ (Permutation_sym P)) in I. destruct I as [<-|I]; auto.
          unfold le'. rewrite C. discriminate.
      + eexists; split; [reflexivity|]. split; auto.
        assert (Lxy : le' x y) by (unfold le'; rewrite (nc_antisym t (snd y) (snd x)), C; discriminate).
        constructor. constructor; auto. constructor; auto.
        rewrite Forall_forall in *. intros z I. eapply le'_trans; eauto.
  Qed.

  Lemma sort_by_ok l : all_ok_vals l ->
    exists l', sort_by t l = Ok l' /\ Permutation l l' /\ StronglySorted le' l'.
  Proof.
    induction l as [|x r IH]; intros Hl; simpl.
    - eexists; split; [reflexivity|]. split; auto. constructor.
    - inv Hl. destruct (IH H2) as (r' & E & P & S). rewrite E.
      assert (Hr' : all_ok_vals r').
      { unfold all_ok_vals in *. rewrite Forall_forall in *. intros z I. apply H2. eapply Permutation_in; [apply Permutation_sym; exact P|auto]. }
      destruct (sort_ins_ok x r' H1 Hr' S) as (l' & E' & P' & S'). exists l'. split; auto. split; auto.
      eapply Permutation_trans; [|exact P']. constructor. exact P.
  Qed.

  (* sorted in terms of pg.lt itself: no element is less than an earlier one *)
  Definition not_after (x y : A * pv) : Prop := lt t (snd y) (snd x) = Ok false.

  Lemma sort_law l : all_ok_vals l ->
    exists l', sort_by t l = Ok l' /\ Permutation l l' /\ StronglySorted not_after l'.
  Proof.
    intros Hl. destruct (sort_by_ok l Hl) as (l' & E & P & S). exists l'. split; auto. split; auto.
    assert (Hl' : all_ok_vals l').
    { unfold all_ok_vals in *. rewrite Forall_forall in *. intros z I. apply Hl. eapply Permutation_in; [apply Permutation_sym; exact P|auto]. }
    clear E P Hl. induction S; constructor.
    - apply IHS. inv Hl'; auto.
    - inv Hl'. rewrite Forall_forall in *. intros z I. unfold not_after.
      rewrite (lt_spec t ROK f) by auto. specialize (H z I). unfold le' in H.
      rewrite (nc_antisym t (snd a) (snd z)). destruct (nc t (snd a) (snd z)); simpl; congruence.
  Qed.
End Sort.

(* ---- the stable sort is unique: what the insertion sort of the model returns is what ANY stable sort returns ------- *)
Section Stable.
  Notation P := (nat * pv)%type.
  (* strictly before: less, or equivalent and earlier in the input *)
  Definition slt (x y : P) : Prop :=
    nc t (snd x) (snd y) = Lt \/ (nc t (snd x) (snd y) = Eq /\ fst x < fst y).

  Lemma slt_trans x y z : slt x y -> slt y z -> slt x z.
  Proof.
    unfold slt. pose proof (nc_trans t (snd x) (snd y) (snd z)) as T.
    intros [A|[A A']] [B|[B B']]; rewrite A, B in T; simpl in T; rewrite T; auto. right; split; auto; lia.
  Qed.
  Lemma slt_irrefl x : ~ slt x x.
  Proof. unfold slt. rewrite nc_refl. intros [A|[_ A]]; [discriminate|lia]. Qed.

  Lemma sorted_perm_unique (l1 : list P) : forall l2,
    StronglySorted slt l1 -> StronglySorted slt l2 -> Permutation l1 l2 -> l1 = l2.
  Proof.
    induction l1 as [|a l1 IH]; intros l2 S1 S2 Pm.
    - apply Permutation_nil in Pm. auto.
    - destruct l2 as [|b l2]; [apply Permutation_sym, Permutation_nil in Pm; discriminate|].
      inv S1. inv S2. rewrite Forall_forall in *.
      assert (a = b).
      { assert (Ia : In a (b :: l2)) by (eapply Permutation_in; [exact Pm|left; auto]).
        assert (Ib : In b (a :: l1)) by (eapply Permutation_in; [apply Permutation_sym; exact Pm|left; auto]).
        destruct Ia as [|Ia]; auto. destruct Ib as [|Ib]; auto.
        exfalso. apply (slt_irrefl a). eapply slt_trans; [apply H2; exact Ib | apply H4; exact Ia]. }
      subst b. f_equal. apply IH; auto. eapply Permutation_cons_inv; eauto.
  Qed.

  Definition idx_after (x : P) (l : list P) : Prop := Forall (fun y => fst x < fst y) l.

  Lemma sort_ins_stable x l : ok (snd x) -> all_ok_vals nat l -> StronglySorted slt l -> idx_after x l ->
    exists l', sort_ins t x l = Ok l' /\ Permutation (x :: l) l' /\ StronglySorted slt l'.
  Proof.
    intros Hx. induction l as [|y r IH]; intros Hl Hs Hi; simpl.
    - eexists; split; [reflexivity|]. split; auto. constructor; constructor.
    - inv Hl. inv Hs. inv Hi. rewrite cmp3_spec by auto.
      assert (XY : nc t (snd y) (snd x) <> Lt -> slt x y).
      { intros N. unfold slt. rewrite (nc_antisym t (snd y) (snd x)). destruct (nc t (snd y) (snd x)); simpl; auto. congruence. }
      destruct (nc t (snd y) (snd x)) eqn:C.
      + eexists; split; [reflexivity|]. split; auto.
        constructor. constructor; auto. constructor; [apply XY; discriminate|].
        rewrite Forall_forall in *. intros z I. eapply slt_trans; [apply XY; discriminate|auto].
      + destruct (IH H2 H3 H6) as (l' & E & Pm & S). rewrite E. eexists; split; [reflexivity|]. split.
        * rewrite perm_swap. constructor. exact Pm.
        * constructor; auto. rewrite Forall_forall in *. intros z I.
          apply (Permutation_in _ (Permutation_sym Pm)) in I. destruct I as [<-|I]; auto.
          left. exact C.
      + eexists; split; [reflexivity|]. split; auto.
        constructor. constructor; auto. constructor; [apply XY; discriminate|].
        rewrite Forall_forall in *. intros z I. eapply slt_trans; [apply XY; discriminate|auto].
  Qed.

  Lemma sort_by_stable l : all_ok_vals nat l -> StronglySorted (fun x y : P => fst x < fst y) l ->
    exists l', sort_by t l = Ok l' /\ Permutation l l' /\ StronglySorted slt l'.
  Proof.
    induction l as [|x r IH]; intros Hl Hi; simpl.
    - eexists; split; [reflexivity|]. split; auto. constructor.
    - inv Hl. inv Hi. destruct (IH H2 H3) as (r' & E & Pm & S). rewrite E.
      assert (Hr' : all_ok_vals nat r').
      { unfold all_ok_vals in *. rewrite Forall_forall in *. intros z I. apply H2. eapply Permutation_in; [apply Permutation_sym; exact Pm|auto]. }
      assert (Hi' : idx_after x r').
      { unfold idx_after. rewrite Forall_forall in *. intros z I. apply H4. eapply Permutation_in; [apply Permutation_sym; exact Pm|auto]. }
      destruct (sort_ins_stable x r' H1 Hr' S Hi') as (l' & E' & P' & S'). exists l'. split; auto. split; auto.
      eapply Permutation_trans; [|exact P']. constructor. exact Pm.
  Qed.

  (* any permutation of the input that is sorted and keeps equivalent items in input order IS the model's result *)
  Lemma stable_sort_unique l l2 : all_ok_vals nat l -> StronglySorted (fun x y : P => fst x < fst y) l ->
    Permutation l l2 -> StronglySorted slt l2 -> sort_by t l = Ok l2.
  Proof.
    intros Hl Hi Pm S2. destruct (sort_by_stable l Hl Hi) as (l' & E & P' & S').
    rewrite E. f_equal. apply sorted_perm_unique; auto.
    eapply Permutation_trans; [apply Permutation_sym; exact P'|exact Pm].
  Qed.

  (* [slt] in terms of pg.lt / pg.eq *)
  Lemma slt_spec x y : ok (snd x) -> ok (snd y) ->
    (slt x y <-> (lt t (snd x) (snd y) = Ok true \/ (eq (snd x) (snd y) = true /\ fst x < fst y))).
  Proof.
    intros Hx Hy. unfold slt. rewrite (lt_spec t ROK f), (eq_spec t ROK f) by auto. rewrite is_eq_true.
    destruct (nc t (snd x) (snd y)); simpl; split; intros [A|A]; auto; try discriminate; try (destruct A; discriminate).
  Qed.
  Lemma combine_seq_sorted (vals : list pv) : forall k,
    StronglySorted (fun x y : P => fst x < fst y) (combine (seq k (length vals)) vals).
  Proof.
    induction vals as [|v r IH]; intros k; simpl; constructor; auto.
    apply Forall_forall. intros [i w] I. apply in_combine_l in I. apply in_seq in I. simpl. lia.
  Qed.
  Lemma combine_ok (vals : list pv) k : Forall (fun v => ok v) vals -> all_ok_vals nat (combine (seq k (length vals)) vals).
  Proof.
    intros H. unfold all_ok_vals. apply Forall_forall. intros [i w] I. apply in_combine_r in I.
    rewrite Forall_forall in H. simpl. auto.
  Qed.

  Definition before (x y : P) : Prop :=
    lt t (snd x) (snd y) = Ok true \/ (eq (snd x) (snd y) = true /\ fst x < fst y).

  Lemma stable_sort_law (vals : list pv) l2 : Forall (fun v => ok v) vals ->
    Permutation (combine (seq 0 (length vals)) vals) l2 -> StronglySorted before l2 ->
    sort_by t (combine (seq 0 (length vals)) vals) = Ok l2.
  Proof.
    intros Hv Pm S. apply stable_sort_unique; [apply combine_ok; exact Hv | apply combine_seq_sorted | exact Pm |].
    assert (H2 : all_ok_vals nat l2).
    { pose proof (combine_ok vals 0 Hv) as H. unfold all_ok_vals in *. rewrite Forall_forall in *.
      intros z I. apply H. eapply Permutation_in; [apply Permutation_sym; exact Pm|auto]. }
    clear Pm. induction S; constructor.
    - apply IHS. inv H2; auto.
    - inv H2. rewrite Forall_forall in *. intros z I. apply slt_spec; auto. exact (H z I).
  Qed.
End Stable.
End WithTable.

(* CompareLaws.v — the algebraic laws of pg.eq / pg.ne / pg.lt / pg.gt and of sorting by pg.lt, for every
   rank table satisfying [ranks_ok] and all values of the domain [cmp_ok]. *)
From PG Require Import Common.Tactics Common.Tr Gen.TypeOrder Model.Compare
  Proofs.CompareOrder Proofs.CompareDict Proofs.CompareLink.
From Coq Require Import Sorting.Sorted Sorting.Permutation.

Section WithTable.
Variable t : ranks.
Hypothesis ROK : ranks_ok t = true.
Variable f : fam.
Notation ok := (fun v => cmp_ok t f v = true).

Lemma eq_refl_law a : ok a -> eq a a = true.
Proof. intros Ha. rewrite (eq_spec t ROK f) by auto. rewrite nc_refl. reflexivity. Qed.

Lemma eq_sym_law a b : ok a -> ok b -> eq a b = eq b a.
Proof.
  intros Ha Hb. rewrite !(eq_spec t ROK f) by auto. rewrite (nc_antisym t b a).
  destruct (nc t b a); reflexivity.
Qed.

Lemma eq_trans_law a b c : ok a -> ok b -> ok c -> eq a b = true -> eq b c = true -> eq a c = true.
Proof.
  intros Ha Hb Hc. rewrite !(eq_spec t ROK f) by auto. rewrite !is_eq_true.
  intros H1 H2. exact (trans_ok_eq _ _ _ (nc_trans t a b c) H1 H2).
Qed.

Lemma ne_law a b : ne a b = negb (eq a b).
Proof. reflexivity. Qed.

Lemma lt_total_law a b : ok a -> ok b -> exists r, lt t a b = Ok r.
Proof. intros Ha Hb. rewrite (lt_spec t ROK f) by auto. eauto. Qed.

(* exactly one of lt a b, eq a b, lt b a *)
Definition exactly_one (x y z : bool) : Prop :=
  (x = true /\ y = false /\ z = false) \/ (x = false /\ y = true /\ z = false) \/ (x = false /\ y = false /\ z = true).

Lemma trichotomy_law a b : ok a -> ok b ->
  exists x z, lt t a b = Ok x /\ lt t b a = Ok z /\ exactly_one x (eq a b) z.
Proof.
  intros Ha Hb. rewrite !(lt_spec t ROK f), (eq_spec t ROK f) by auto.
  do 2 eexists. split; [reflexivity|split; [reflexivity|]].
  rewrite (nc_antisym t a b). unfold exactly_one. destruct (nc t a b); simpl; tauto.
Qed.

Lemma lt_trans_law a b c : ok a -> ok b -> ok c ->
  lt t a b = Ok true -> lt t b c = Ok true -> lt t a c = Ok true.
Proof.
  intros Ha Hb Hc. rewrite !(lt_spec t ROK f) by auto. intros H1 H2.
  assert (A : nc t a b = Lt) by (destruct (nc t a b); simpl in H1; congruence).
  assert (B : nc t b c = Lt) by (destruct (nc t b c); simpl in H2; congruence).
  rewrite (trans_ok_lt _ _ _ (nc_trans t a b c) A B). reflexivity.
Qed.

Lemma lt_irrefl_law a : ok a -> lt t a a = Ok false.
Proof. intros Ha. rewrite (lt_spec t ROK f) by auto. rewrite nc_refl. reflexivity. Qed.

Lemma gt_law a b : gt t a b = lt t b a.
Proof. reflexivity. Qed.

(* the order is consistent with equality: equal values are interchangeable on either side of lt *)
Lemma lt_eq_compat_l a b c : ok a -> ok b -> ok c -> eq a b = true -> lt t a c = lt t b c.
Proof.
  intros Ha Hb Hc. rewrite !(lt_spec t ROK f), (eq_spec t ROK f) by auto. rewrite is_eq_true. intros H.
  rewrite (trans_ok_eq_l _ _ _ (nc_trans t a b c) H). reflexivity.
Qed.
Lemma lt_eq_compat_r a b c : ok a -> ok b -> ok c -> eq a b = true -> lt t c a = lt t c b.
Proof.
  intros Ha Hb Hc. rewrite !(lt_spec t ROK f), (eq_spec t ROK f) by auto. rewrite is_eq_true. intros H.
  assert (H' : nc t b a = Eq) by (rewrite (nc_antisym t a b), H; reflexivity).
  rewrite <- (trans_ok_eq_r _ _ _ (nc_trans t c b a) H'). reflexivity.
Qed.

(* Object.__eq__ / __ne__ (classes with use_symbolic_comparison) are pg.eq / pg.ne *)
Lemma depth_dict s s' u e : depth (PDict s e) = depth (PObj s' u e).
Proof. reflexivity. Qed.
Lemma sym_eq_eq a b : (exists n u e, a = PObj n u e) -> sym_eq a b = eq a b.
Proof. intros (n & u & e & ->). unfold sym_eq, eq. destruct b; reflexivity. Qed.

(* the identity shortcut changes nothing on the domain: an object is equal to itself anyway *)
Lemma eq_top_law same a b : (same = true -> a = b) -> ok a -> eq_top same a b = eq a b.
Proof.
  intros S Ha. unfold eq_top. destruct same; auto. rewrite <- (S Logic.eq_refl), eq_refl_law; auto.
Qed.

Lemma op_eq_law same a b : (exists n u e, a = PObj n u e) -> (same = true -> a = b) -> ok a ->
  op_eq true same a b = eq a b /\ op_ne true same a b = ne a b /\ op_hash t true a = Some (hpre t a).
Proof.
  intros O S Ha. unfold op_ne, ne, op_eq, op_hash. rewrite sym_eq_eq by auto.
  fold (eq_top same a b). rewrite eq_top_law by auto. auto.
Qed.
(* a class that does not opt in: == is identity *)
Lemma op_eq_optout same a b : op_eq false same a b = same /\ op_ne false same a b = negb same.
Proof. split; reflexivity. Qed.

(* ---- sorting ---------------------------------------------------------------------------------- *)
Lemma cmp3_spec a b : ok a -> ok b -> cmp3 t a b = Ok (nc t a b).
Proof.
  intros Ha Hb. unfold cmp3. rewrite !(lt_spec t ROK f) by auto. rewrite (nc_antisym t a b).
  destruct (nc t a b); reflexivity.
Qed.

Section Sort.
  Variable A : Type.
  Implicit Types l : list (A * pv).
  Definition le' (x y : A * pv) : Prop := nc t (snd x) (snd y) <> Gt.
  Definition all_ok_vals l : Prop := Forall (fun x => ok (snd x)) l.

  Lemma le'_trans x y z : le' x y -> le' y z -> le' x z.
  Proof.
    unfold le'. intros H1 H2. pose proof (nc_trans t (snd x) (snd y) (snd z)) as T.
    destruct (nc t (snd x) (snd y)), (nc t (snd y) (snd z)); simpl in T; try congruence.
  Qed.

  Lemma sort_ins_ok x l : ok (snd x) -> all_ok_vals l -> StronglySorted le' l ->
    exists l', sort_ins t x l = Ok l' /\ Permutation (x :: l) l' /\ StronglySorted le' l'.
  Proof.
    intros Hx. induction l as [|y r IH]; intros Hl Hs; simpl.
    - eexists; split; [reflexivity|]. split; auto. constructor; constructor.
    - inv Hl. inv Hs. rewrite cmp3_spec by auto.
      destruct (nc t (snd y) (snd x)) eqn:C.
      + eexists; split; [reflexivity|]. split; auto.
        assert (Lxy : le' x y) by (unfold le'; rewrite (nc_antisym t (snd y) (snd x)), C; discriminate).
        constructor. constructor; auto. constructor; auto.
        rewrite Forall_forall in *. intros z I. eapply le'_trans; eauto.
      + destruct (IH H2 H3) as (l' & E & P & S). rewrite E. eexists; split; [reflexivity|]. split.
        * rewrite perm_swap. constructor. exact P.
        * constructor; auto. rewrite Forall_forall in *. intros z I.
          apply (Permutation_in _ (Permutation_sym P)) in I. destruct I as [<-|I]; auto.
          unfold le'. rewrite C. discriminate.
      + eexists; split; [reflexivity|]. split; auto.
        assert (Lxy : le' x y) by (unfold le'; rewrite (nc_antisym t (snd y) (snd x)), C; discriminate).
        constructor. constructor; auto. constructor; auto.
        rewrite Forall_forall in *. intros z I. eapply le'_trans; eauto.
  Qed.

  Lemma sort_by_ok l : all_ok_vals l ->
    exists l', sort_by t l = Ok l' /\ Permutation l l' /\ StronglySorted le' l'.
  Proof.
    induction l as [|x r IH]; intros Hl; simpl.
    - eexists; split; [reflexivity|]. split; auto. constructor.
    - inv Hl. destruct (IH H2) as (r' & E & P & S). rewrite E.
      assert (Hr' : all_ok_vals r').
      { unfold all_ok_vals in *. rewrite Forall_forall in *. intros z I. apply H2. eapply Permutation_in; [apply Permutation_sym; exact P|auto]. }
      destruct (sort_ins_ok x r' H1 Hr' S) as (l' & E' & P' & S'). exists l'. split; auto. split; auto.
      eapply Permutation_trans; [|exact P']. constructor. exact P.
  Qed.

  (* sorted in terms of pg.lt itself: no element is less than an earlier one *)
  Definition not_after (x y : A * pv) : Prop := lt t (snd y) (snd x) = Ok false.

  Lemma sort_law l : all_ok_vals l ->
    exists l', sort_by t l = Ok l' /\ Permutation l l' /\ StronglySorted not_after l'.
  Proof.
    intros Hl. destruct (sort_by_ok l Hl) as (l' & E & P & S). exists l'. split; auto. split; auto.
    assert (Hl' : all_ok_vals l').
    { unfold all_ok_vals in *. rewrite Forall_forall in *. intros z I. apply Hl. eapply Permutation_in; [apply Permutation_sym; exact P|auto]. }
    clear E P Hl. induction S; constructor.
    - apply IHS. inv Hl'; auto.
    - inv Hl'. rewrite Forall_forall in *. intros z I. unfold not_after.
      rewrite (lt_spec t ROK f) by auto. specialize (H z I). unfold le' in H.
      rewrite (nc_antisym t (snd a) (snd z)). destruct (nc t (snd a) (snd z)); simpl; congruence.
  Qed.
End Sort.
End WithTable.

(* SymCoreC02Dict.v -- every dict operation of the catalogue on a pg.Dict (at any position of the forest) refines the Python
   reference (PyDict) on the erasure of its items. *)
From Coq Require Import ZArith NArith List Bool Lia.
Import ListNotations.
From PG Require Import Common.Tactics Model.SymCoreDefs Model.SymCoreOps Model.SymCoreSpec Model.SymCoreC02
     Proofs.SymCoreBase Proofs.SymCoreWF Proofs.SymCoreWFOps Proofs.SymCoreClone Proofs.SymCoreC02Read Proofs.SymCoreC02Frame
     Proofs.SymCoreC02Prim Proofs.SymCoreC02List.
From PG Require Model.PyList Model.PyDict.
Local Open Scope Z_scope.

Lemma clean_eitems : forall a b, eitems a = eitems b -> clean a -> clean b.
Proof. intros. apply (clean_evals a b); auto. rewrite <- !pvals_eitems. congruence. Qed.

Section DictOps.
Variables (q : quirks) (sc : scope) (ps : pos) (tid : N) (pa : option N) (fl : flags).
Hypothesis NQ : no_quirks q.

Lemma dwrote_refl : forall st its, at_is st ps tid KDict pa fl its -> clean its -> anc_clean st ps -> wfs st ->
  dwrote st ps tid pa fl st (eitems its).
Proof. intros. exists its. repeat split; auto. apply keeps_other_refl. Qed.
Lemma dwrote_fix_chain : forall st st' d' (b : bool), dwrote st ps tid pa fl st' d' ->
  dwrote st ps tid pa fl (if b then fix_chain st' ps else st') d'.
Proof.
  intros. destruct b; auto. destruct H as (its' & R & C & E & K & A & W).
  rewrite fix_chain_id; auto. { exists its'; auto 10. }
  intros pre suf i pa0 pt fl0 its0 ES G. destruct suf.
  - rewrite app_nil_r in ES. subst pre. unfold at_is in R. rewrite <- surjective_pairing in G. rewrite R in G. discriminate.
  - eapply A; eauto. discriminate.
Qed.
Lemma dwrote_notified : forall st st' d' p, dwrote st ps tid pa fl st' d' -> dwrote st ps tid pa fl (notified sc st' ps p) d'.
Proof. intros. unfold notified. destruct p; auto. apply dwrote_fix_chain; auto. Qed.
Lemma dat_children : forall st its, wfs st -> at_is st ps tid KDict pa fl its ->
  Forall (child_wf tid (snd ps)) its /\ NoDup (map fst its).
Proof. intros. destruct (container_facts _ _ _ _ _ _ _ _ H H0) as (_ & K & F). auto. Qed.

(* new items for the dict, some items detached *)
Lemma ditems_replaced : forall st its its' gone,
  at_is st ps tid KDict pa fl its -> anc_clean st ps -> wfs st -> clean its' ->
  NoDup (map fst its') -> Forall (child_wf tid (snd ps)) its' -> Forall (fun kv => exists ep pt, wf_node ep pt (snd kv)) gone ->
  dwrote st ps tid pa fl (detach_all (update_at st ps (set_items its')) gone) (eitems its').
Proof.
  intros st its its' gone R A W C ND F G.
  assert (W1 : wfs (update_at st ps (set_items its'))).
  { eapply wfs_replace_items; [exact W | exact W | exact R | auto | exact ND | exact F]. }
  destruct (written_here' st ps tid pa fl its KDict R A st its' eq_refl) as (R1 & K1 & A1).
  exists its'. repeat split; auto.
  - unfold at_is. eapply keeps_roots_get_at. apply keeps_roots_detach_all. exact R1.
  - eapply keeps_other_trans; eauto. apply keeps_roots_other. apply keeps_roots_detach_all.
  - eapply anc_clean_keeps; [apply keeps_roots_detach_all| |exact A1]. eapply get_at_root_some; eauto.
  - apply detach_all_wfs; auto.
Qed.
Lemma dclear_core_at : forall st its, at_is st ps tid KDict pa fl its -> anc_clean st ps -> wfs st ->
  dwrote st ps tid pa fl (clear_core sc st ps its) [].
Proof.
  intros st its R A W. unfold clear_core. destruct (dat_children _ _ W R) as (CF & KP).
  assert (WR : dwrote st ps tid pa fl (detach_all (update_at st ps (set_items [])) its) (eitems [])).
  { eapply ditems_replaced; eauto; try constructor. apply (children_wf_any tid (snd ps)); auto. }
  destruct its; auto. apply dwrote_fix_chain; auto.
Qed.

(* d.update(kvs) / d |= kvs: one key after the other through the dict primitive *)
Lemma update_loop_at : forall kvs st its upd st' u e,
  at_is st ps tid KDict pa fl its -> clean its -> anc_clean st ps -> wfs st ->
  treats_as_sealed sc fl = false -> Forall (fun kv => plain_rv (snd kv)) kvs ->
  rebind_loop q sc st ps (map (fun kv : key * rvalue => ([fst kv], snd kv)) kvs) upd = (st', u, e) ->
  e = None /\ dwrote st ps tid pa fl st' (PyDict.dupdate key_eqb (eitems its) (map (fun kv => (fst kv, prv (snd kv))) kvs)).
Proof.
  induction kvs as [|[k rv] kvs IH]; intros st its upd st' u e R C A W SL F E; simpl in E.
  - inv E. split; auto. apply dwrote_refl; auto.
  - inv F. simpl in H1.
    unfold at_is in R. rewrite R in E. cbv iota beta in E. rewrite app_nil_r in E. rewrite <- surjective_pairing in E.
    rewrite R in E. cbv iota beta in E. rewrite SL in E. unfold prim in E. rewrite R in E. cbv iota beta in E.
    destruct (dprim q sc st ps k rv) as [st1 p] eqn:D.
    destruct (dprim_set q sc st ps tid pa fl its R C A W k rv st1 p H1 D) as (PP & its1 & R1 & C1 & E1 & K1 & A1 & W1).
    assert (exists upd', rebind_loop q sc st1 ps (map (fun kv : key * rvalue => ([fst kv], snd kv)) kvs) upd' = (st', u, e)).
    { destruct PP; subst p; eauto. }
    destruct H as [upd' E'].
    destruct (IH st1 its1 upd' st' u e R1 C1 A1 W1 SL H2 E') as (EE & its2 & R2 & C2 & E2 & K2 & A2 & W2).
    split; auto. exists its2. repeat split; auto.
    + rewrite E2. simpl. unfold PyDict.dupdate. simpl. rewrite E1. reflexivity.
    + eapply keeps_other_trans; eauto.
Qed.
End DictOps.

Definition dop_of (ro : op rvalue) : option (PyDict.dop key pv) :=
  match ro with
  | DSet _ k v => Some (PyDict.PDSet k (prv v))
  | DDel _ k => Some (PyDict.PDDel k)
  | DPop k d => Some (PyDict.PDPop k (option_map (fun l => PLeaf (erase_leaf l)) d))
  | DPopItem => Some PyDict.PDPopItem
  | DClear => Some PyDict.PDClear
  | DSetDefault k v => Some (PyDict.PDSetDefault k (prv v))
  | DUpdate kvs => Some (PyDict.PDUpdate (map (fun kv => (fst kv, prv (snd kv))) kvs))
  | DIOr kvs => Some (PyDict.PDIOr (map (fun kv => (fst kv, prv (snd kv))) kvs))
  | DCopy => Some PyDict.PDCopy
  | _ => None
  end.
Definition plain_dop (ro : op rvalue) : Prop :=
  match ro with
  | DSet _ _ v | DSetDefault _ v => plain_rv v
  | DUpdate kvs | DIOr kvs => Forall (fun kv => plain_rv (snd kv)) kvs
  | _ => True
  end.
(* the value of the call: nothing; a stored / removed item by identity (its erasure is Python's value) or the argument
   object itself (setdefault); a (key, item) pair; a new root dict *)
Definition dret_agrees (st' : state) (out : outcome) (ret : PyDict.dret key pv) : Prop :=
  match ret with
  | PyDict.DrNone => out = Ok RNone
  | PyDict.DrVal v => (exists old, out = Ok (ret_item st' old) /\ erase old = v) \/
                      (exists ps rv, out = Ok (ret_of_rv st' ps rv) /\ prv rv = v)
  | PyDict.DrKV k v => exists old, out = Ok (RKV k (ret_item st' old)) /\ erase old = v
  | PyDict.DrDict d => exists ri tid' fl' its', out = Ok (RPos (ri, [])) /\ at_is st' (ri, []) tid' KDict None fl' its' /\ clean its' /\ eitems its' = d
  | _ => False
  end.

Section DictRefine.
Variables (q : quirks) (sc : scope) (ps : pos) (tid : N) (pa : option N) (fl : flags).
Hypothesis NQ : no_quirks q.

Lemma rev_last : forall A (l : list A) x t, rev l = x :: t -> l = removelast l ++ [x].
Proof.
  intros. assert (l = rev (x :: t)) by (rewrite <- H, rev_involutive; auto). subst l. simpl.
  rewrite removelast_last. reflexivity.
Qed.

Theorem exec_dict_refines : forall st its ro o st' out,
  wfs st -> at_is st ps tid KDict pa fl its -> clean its -> anc_clean st ps -> permits sc fl -> plain_dop ro -> dop_of ro = Some o ->
  exec q sc st ps tid KDict (snd ps) fl its ro = (st', out) ->
  match py_dstep (eitems its) o with
  | inr e => st' = st /\ out = Err (err_of e)
  | inl (d', ret) => dwrote st ps tid pa fl st' d' /\ dret_agrees st' out ret
  end.
Proof.
  intros st its ro o st' out W R C A [SL AW] PL LO E.
  destruct (dat_children ps tid pa fl st its W R) as [CF KP].
  unfold py_dstep, PyDict.dstep.
  destruct ro; simpl in LO; inv LO; unfold exec in E; rewrite ?SL, ?AW in E; cbn [negb andb] in E; simpl in PL.
  - (* d[k] = v *)
    destruct (dprim q sc st ps k v) as [st1 p] eqn:D.
    destruct (dprim_set q sc st ps tid pa fl its R C A W k v st1 p PL D) as [PP WR].
    destruct PP; subst p; inv E; (split; [|reflexivity]); first [assumption | apply dwrote_fix_chain; auto | apply dwrote_notified; auto].
  - (* del d[k] *)
    unfold PyDict.dhas. rewrite dget_eitems. unfold has_key in E.
    destruct (assoc k its) as [old|] eqn:AS; simpl in *.
    + destruct (dprim q sc st ps k (RLeaf LMissing)) as [st1 p] eqn:D.
      destruct (dprim_del q sc st ps tid pa fl its R C A W k st1 p ltac:(unfold has_key; rewrite AS; auto) D) as [PP WR].
      subst p. inv E. split; [|reflexivity]. apply dwrote_fix_chain; auto.
    + inv E; auto.
  - (* pop *)
    rewrite dget_eitems. destruct (assoc k its) as [old|] eqn:AS; simpl.
    + destruct (dprim q sc st ps k (RLeaf LMissing)) as [st1 p] eqn:D.
      destruct (dprim_del q sc st ps tid pa fl its R C A W k st1 p ltac:(unfold has_key; rewrite AS; auto) D) as [PP WR].
      subst p. inv E. split; [apply dwrote_fix_chain; auto|]. left. exists old; auto.
    + destruct d as [l|]; simpl; inv E; auto. split; [apply dwrote_refl; auto|]. left. exists (Leaf l); auto.
  - (* popitem *)
    rewrite <- eitems_rev. destruct (rev its) as [|[k old] t] eqn:RV; simpl.
    + inv E; auto.
    + injection E as E1 E2. subst st' out. split.
      * apply dwrote_fix_chain. rewrite <- eitems_removelast.
        pose proof (rev_last _ _ _ _ RV) as EL.
        change (add_detached (update_at st ps (set_items (removelast its))) old)
          with (detach_all (update_at st ps (set_items (removelast its))) [(k, old)]).
        eapply ditems_replaced; eauto.
        -- unfold clean in *. rewrite EL in C. apply Forall_app in C. tauto.
        -- rewrite map_fst_removelast. apply removelast_nodup; auto.
        -- apply removelast_forall; auto.
        -- constructor; auto. simpl. rewrite EL in CF. apply Forall_app in CF. destruct CF as [_ CF]. inv CF. red in H1. simpl in H1. eauto.
      * exists old; auto.
  - (* clear *)
    inv E. split; [apply dclear_core_at; auto|reflexivity].
  - (* setdefault *)
    rewrite dget_eitems. destruct (assoc k its) as [old|] eqn:AS; simpl.
    + rewrite (clean_assoc _ _ _ C AS) in E. inv E. split; [apply dwrote_refl; auto|]. left. exists old; auto.
    + destruct (dprim q sc st ps k v) as [st1 p] eqn:D.
      destruct (dprim_set q sc st ps tid pa fl its R C A W k v st1 p PL D) as [PP WR].
      destruct PP; subst p; inv E; (split; [first [assumption | apply dwrote_fix_chain; auto | apply dwrote_notified; auto]|]); right; eauto.
  - (* update *)
    unfold rebind_core in E.
    destruct (rebind_loop q sc st ps (map (fun kv : key * rvalue => ([fst kv], snd kv)) kvs) []) as [[st1 u] e] eqn:L.
    destruct (update_loop_at q sc ps tid pa fl kvs st its [] st1 u e R C A W SL PL L) as [EE WR]. subst e. inv E. split; auto. reflexivity.
  - (* |= *)
    unfold rebind_core in E.
    destruct (rebind_loop q sc st ps (map (fun kv : key * rvalue => ([fst kv], snd kv)) kvs) []) as [[st1 u] e] eqn:L.
    destruct (update_loop_at q sc ps tid pa fl kvs st its [] st1 u e R C A W SL PL L) as [EE WR]. subst e. inv E. split; auto. reflexivity.
  - (* copy *)
    destruct (clone_at (q_copy_drops_missing q) false None [] (Node tid KDict None [] fl its) (next_id st, [])) as [c cs] eqn:CL.
    inv E.
    pose proof (clone_root_wfs q false st tid KDict pa (snd ps) fl its ps c cs W R CL) as W1.
    assert (ER : erase c = erase (Node tid KDict pa (snd ps) fl its)).
    { rewrite (clone_at_ignores_header _ _ _ _ _ _ _ _ _ _ tid pa (snd ps)) in CL.
      replace c with (fst (clone_at (q_copy_drops_missing q) false None [] (Node tid KDict pa (snd ps) fl its) (next_id st, []))) by (rewrite CL; auto).
      destruct (wfs_get_at _ _ _ W R) as (ep & WN).
      eapply clone_erase; eauto. left; exact NQ. }
    rewrite clone_at_node in CL. cbv zeta in CL.
    match type of CL with (let '(_, _) := ?X in _) = _ => destruct X as [its' cs'] eqn:CI end.
    inv CL. rewrite !erase_node in ER. injection ER as EI.
    pose proof (get_at_lt _ _ _ R) as LT.
    split.
    + exists its. repeat split; auto.
      * unfold at_is. eapply keeps_roots_get_at; [|exact R]. red; intros. apply get_root_add_root. auto.
      * red; intros. apply get_root_add_root. auto.
      * eapply anc_clean_keeps; [| |exact A]. red; intros; apply get_root_add_root; auto. eapply get_at_root_some; eauto.
    + exists (length (roots st)), (next_id st), fl, its'. repeat split; auto.
      * unfold at_is. rewrite get_at_root. exact (get_root_add_root_new (with_next st (fst cs)) _).
      * eapply clean_eitems; [symmetry; eauto|auto].
Qed.
End DictRefine.

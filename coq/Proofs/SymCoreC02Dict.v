(* SymCoreC02Dict.v -- every dict operation of the catalogue on a root pg.Dict refines the Python reference (PyDict)
   on the erasure of its items. *)
From Coq Require Import ZArith NArith List Bool Lia.
Import ListNotations.
From PG Require Import Common.Tactics Model.SymCoreDefs Model.SymCoreOps Model.SymCoreSpec Model.SymCoreC02
     Proofs.SymCoreBase Proofs.SymCoreWF Proofs.SymCoreWFOps Proofs.SymCoreClone Proofs.SymCoreC02Read Proofs.SymCoreC02Frame
     Proofs.SymCoreC02Prim Proofs.SymCoreC02List.
From PG Require Model.PyList Model.PyDict.
Local Open Scope Z_scope.

Lemma clean_eitems : forall a b, eitems a = eitems b -> clean a -> clean b.
Proof. intros. apply (clean_evals a b); auto. rewrite <- !pvals_eitems. congruence. Qed.

Section DictOps.
Variables (q : quirks) (sc : scope) (r : nat) (tid : N) (fl : flags).
Hypothesis NQ : no_quirks q.

Lemma dwrote_intro : forall st st' its', root_is st' r tid KDict fl its' -> clean its' -> keeps_other r st st' ->
  dwrote st r tid fl st' (eitems its').
Proof. intros; exists its'; auto. Qed.
Lemma dwrote_refl : forall st its, root_is st r tid KDict fl its -> clean its -> dwrote st r tid fl st (eitems its).
Proof. intros. apply dwrote_intro; auto. apply keeps_other_refl. Qed.
Lemma dwrote_purge : forall st st' d', dwrote st r tid fl st' d' -> dwrote st r tid fl (update_at st' (r, []) purge_list) d'.
Proof.
  intros st st' d' (its' & R & C & E & K).
  exists its'. repeat split; auto.
  - unfold root_is. rewrite (get_root_update_at_same _ _ _ _ R). reflexivity.
  - eapply keeps_other_trans; eauto. apply keeps_other_update_at.
Qed.
Lemma dwrote_fix_chain : forall st st' d' (b : bool), dwrote st r tid fl st' d' ->
  dwrote st r tid fl (if b then fix_chain st' (r, []) else st') d'.
Proof. intros. destruct b; auto. rewrite fix_chain_root. apply dwrote_purge; auto. Qed.
Lemma dwrote_notified : forall st st' d' p, dwrote st r tid fl st' d' -> dwrote st r tid fl (notified sc st' (r, []) p) d'.
Proof. intros. unfold notified. destruct p; auto. apply dwrote_fix_chain; auto. Qed.

Lemma dclear_core_root : forall st its, root_is st r tid KDict fl its -> dwrote st r tid fl (clear_core sc st (r, []) its) [].
Proof.
  intros st its R. unfold clear_core.
  assert (W : dwrote st r tid fl (detach_all (update_at st (r, []) (set_items [])) its) (eitems [])).
  { exists []. repeat split; auto.
    - apply keeps_roots_detach_all. unfold root_is. rewrite (get_root_update_at_same _ _ _ _ R). reflexivity.
    - constructor.
    - red; intros. apply keeps_roots_detach_all. rewrite get_root_update_at_other; auto. }
  destruct its; auto. apply dwrote_fix_chain; auto.
Qed.

(* d.update(kvs) / d |= kvs: one key after the other through the dict primitive *)
Lemma update_loop_root : forall kvs st its upd st' u e,
  root_is st r tid KDict fl its -> clean its -> treats_as_sealed sc fl = false -> Forall (fun kv => plain_rv (snd kv)) kvs ->
  rebind_loop q sc st (r, []) (map (fun kv : key * rvalue => ([fst kv], snd kv)) kvs) upd = (st', u, e) ->
  e = None /\ dwrote st r tid fl st' (PyDict.dupdate key_eqb (eitems its) (map (fun kv => (fst kv, prv (snd kv))) kvs)).
Proof.
  induction kvs as [|[k rv] kvs IH]; intros st its upd st' u e R C SL F E; simpl in E.
  - inv E. split; auto. apply dwrote_refl; auto.
  - inv F. simpl in H1.
    unfold root_is in R. rewrite !get_at_root, R in E. cbv iota beta in E. rewrite SL in E. unfold prim in E. rewrite get_at_root, R in E. cbv iota beta in E.
    destruct (dprim q sc st (r, []) k rv) as [st1 p] eqn:D.
    destruct (dprim_set q sc st r tid fl its R C k rv st1 p H1 D) as (PP & its1 & R1 & C1 & E1 & K1).
    assert (exists upd', rebind_loop q sc st1 (r, []) (map (fun kv : key * rvalue => ([fst kv], snd kv)) kvs) upd' = (st', u, e)).
    { destruct PP; subst p; eauto. }
    destruct H as [upd' E'].
    destruct (IH st1 its1 upd' st' u e R1 C1 SL H2 E') as (EE & its2 & R2 & C2 & E2 & K2).
    split; auto. exists its2. repeat split; auto.
    + rewrite E2. simpl. unfold PyDict.dupdate. simpl. rewrite E1. reflexivity.
    + eapply keeps_other_trans; eauto.
Qed.
End DictOps.

Definition dop_of (ro : op rvalue) : option (PyDict.dop key pv) :=
  match ro with
  | DSet _ k v => Some (PyDict.PDSet k (prv v))
  | DDel _ k => Some (PyDict.PDDel k)
  | DPop k d => Some (PyDict.PDPop k (option_map (fun l => PLeaf (erase_leaf l)) d))
  | DPopItem => Some PyDict.PDPopItem
  | DClear => Some PyDict.PDClear
  | DSetDefault k v => Some (PyDict.PDSetDefault k (prv v))
  | DUpdate kvs => Some (PyDict.PDUpdate (map (fun kv => (fst kv, prv (snd kv))) kvs))
  | DIOr kvs => Some (PyDict.PDIOr (map (fun kv => (fst kv, prv (snd kv))) kvs))
  | DCopy => Some PyDict.PDCopy
  | _ => None
  end.
Definition plain_dop (ro : op rvalue) : Prop :=
  match ro with
  | DSet _ _ v | DSetDefault _ v => plain_rv v
  | DUpdate kvs | DIOr kvs => Forall (fun kv => plain_rv (snd kv)) kvs
  | _ => True
  end.
(* the value of the call: nothing; a stored / removed item by identity (its erasure is Python's value) or the argument
   object itself (setdefault); a (key, item) pair; a new root dict *)
Definition dret_agrees (st' : state) (out : outcome) (ret : PyDict.dret key pv) : Prop :=
  match ret with
  | PyDict.DrNone => out = Ok RNone
  | PyDict.DrVal v => (exists old, out = Ok (ret_item st' old) /\ erase old = v) \/
                      (exists ps rv, out = Ok (ret_of_rv st' ps rv) /\ prv rv = v)
  | PyDict.DrKV k v => exists old, out = Ok (RKV k (ret_item st' old)) /\ erase old = v
  | PyDict.DrDict d => exists ri tid' fl' its', out = Ok (RPos (ri, [])) /\ root_is st' ri tid' KDict fl' its' /\ clean its' /\ eitems its' = d
  | _ => False
  end.

Section DictRefine.
Variables (q : quirks) (sc : scope) (r : nat) (tid : N) (fl : flags).
Hypothesis NQ : no_quirks q.

Lemma rev_last : forall A (l : list A) x t, rev l = x :: t -> l = removelast l ++ [x].
Proof.
  intros. assert (l = rev (x :: t)) by (rewrite <- H, rev_involutive; auto). subst l. simpl.
  rewrite removelast_last. reflexivity.
Qed.

Theorem exec_dict_refines : forall st its ro o st' out,
  wfs st -> root_is st r tid KDict fl its -> clean its -> permits sc fl -> plain_dop ro -> dop_of ro = Some o ->
  exec q sc st (r, []) tid KDict [] fl its ro = (st', out) ->
  match py_dstep (eitems its) o with
  | inr e => st' = st /\ out = Err (err_of e)
  | inl (d', ret) => dwrote st r tid fl st' d' /\ dret_agrees st' out ret
  end.
Proof.
  intros st its ro o st' out W R C [SL AW] PL LO E.
  unfold py_dstep, PyDict.dstep.
  destruct ro; simpl in LO; inv LO; unfold exec in E; rewrite ?SL, ?AW in E; cbn [negb andb] in E; simpl in PL.
  - (* d[k] = v *)
    destruct (dprim q sc st (r, []) k v) as [st1 p] eqn:D.
    destruct (dprim_set q sc st r tid fl its R C k v st1 p PL D) as [PP WR].
    destruct PP; subst p; inv E; (split; [|reflexivity]); first [assumption | apply dwrote_fix_chain; auto | apply dwrote_notified; auto].
  - (* del d[k] *)
    unfold PyDict.dhas. rewrite dget_eitems. unfold has_key in E.
    destruct (assoc k its) as [old|] eqn:A; simpl in *.
    + destruct (dprim q sc st (r, []) k (RLeaf LMissing)) as [st1 p] eqn:D.
      destruct (dprim_del q sc st r tid fl its R C k st1 p ltac:(unfold has_key; rewrite A; auto) D) as [PP WR].
      subst p. inv E. split; [|reflexivity]. apply dwrote_fix_chain; auto.
    + inv E; auto.
  - (* pop *)
    rewrite dget_eitems. destruct (assoc k its) as [old|] eqn:A; simpl.
    + destruct (dprim q sc st (r, []) k (RLeaf LMissing)) as [st1 p] eqn:D.
      destruct (dprim_del q sc st r tid fl its R C k st1 p ltac:(unfold has_key; rewrite A; auto) D) as [PP WR].
      subst p. inv E. split; [apply dwrote_fix_chain; auto|]. left. exists old; auto.
    + destruct d as [l|]; simpl; inv E; auto. split; [apply dwrote_refl; auto|]. left. exists (Leaf l); auto.
  - (* popitem *)
    rewrite <- eitems_rev. destruct (rev its) as [|[k old] t] eqn:RV; simpl.
    + inv E; auto.
    + inv E. split.
      * apply dwrote_fix_chain. rewrite <- eitems_removelast. apply dwrote_intro.
        -- apply keeps_roots_add_detached. unfold root_is. rewrite (get_root_update_at_same _ _ _ _ R). reflexivity.
        -- pose proof (rev_last _ _ _ _ RV) as EL. unfold clean in *. rewrite EL in C. apply Forall_app in C. tauto.
        -- red; intros. apply keeps_roots_add_detached. rewrite get_root_update_at_other; auto.
      * exists old; auto.
  - (* clear *)
    inv E. split; [apply dclear_core_root; auto|reflexivity].
  - (* setdefault *)
    rewrite dget_eitems. destruct (assoc k its) as [old|] eqn:A; simpl.
    + rewrite (clean_assoc _ _ _ C A) in E. inv E. split; [apply dwrote_refl; auto|]. left. exists old; auto.
    + destruct (dprim q sc st (r, []) k v) as [st1 p] eqn:D.
      destruct (dprim_set q sc st r tid fl its R C k v st1 p PL D) as [PP WR].
      destruct PP; subst p; inv E; (split; [first [assumption | apply dwrote_fix_chain; auto | apply dwrote_notified; auto]|]); right; eauto.
  - (* update *)
    unfold rebind_core in E.
    destruct (rebind_loop q sc st (r, []) (map (fun kv : key * rvalue => ([fst kv], snd kv)) kvs) []) as [[st1 u] e] eqn:L.
    destruct (update_loop_root q sc r tid fl kvs st its [] st1 u e R C SL PL L) as [EE WR]. subst e. inv E. split; auto. reflexivity.
  - (* |= *)
    unfold rebind_core in E.
    destruct (rebind_loop q sc st (r, []) (map (fun kv : key * rvalue => ([fst kv], snd kv)) kvs) []) as [[st1 u] e] eqn:L.
    destruct (update_loop_root q sc r tid fl kvs st its [] st1 u e R C SL PL L) as [EE WR]. subst e. inv E. split; auto. reflexivity.
  - (* copy *)
    destruct (clone_at (q_copy_drops_missing q) false None [] (Node tid KDict None [] fl its) (next_id st, [])) as [c cs] eqn:CL.
    inv E.
    assert (ER : erase c = erase (Node tid KDict None [] fl its)).
    { replace c with (fst (clone_at (q_copy_drops_missing q) false None [] (Node tid KDict None [] fl its) (next_id st, []))) by (rewrite CL; auto).
      red in R. rewrite <- get_at_root in R. destruct (wfs_get_at _ _ _ W R) as (ep & WN).
      eapply clone_erase; eauto. left; exact NQ. }
    rewrite clone_at_node in CL. cbv zeta in CL.
    match type of CL with (let '(_, _) := ?X in _) = _ => destruct X as [its' cs'] eqn:CI end.
    inv CL. rewrite !erase_node in ER. injection ER as EI.
    split.
    + apply dwrote_intro; auto.
      * apply get_root_add_root. exact R.
      * red; intros. apply get_root_add_root. auto.
    + exists (length (roots st)), (next_id st), fl, its'. repeat split; auto.
      * exact (get_root_add_root_new (with_next st (fst cs)) _).
      * eapply clean_eitems; [symmetry; eauto|auto].
Qed.
End DictRefine.

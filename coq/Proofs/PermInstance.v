(* Per-run instance obligations of C19 on the table regenerated from the current source. *)
From PG Require Import Common.Tactics Common.Tr Gen.PermTable Model.Perm Proofs.PermProofs.
From Coq Require Import NArith.
Local Open Scope N_scope.

(* instance obligation on the regenerated table *)
Lemma generated_table_covers : covers tbl = true.
Proof. vm_compute. reflexivity. Qed.

(* non-vacuity: a For loop nested in a function body inside a class, LOOP withheld *)
Example nonvacuous :
  let t := Node k_ClassDef [Node k_FunctionDef [Node k_For [Node k_Name []]]] in
  let g := perm_of_bits 123 (* all but LOOP (bit 2) of 127 *) in
  subnode (Node k_For [Node k_Name []]) t /\ In (k_For, f_LOOP) required_pairs /\ g f_LOOP = false
  /\ validate tbl g t = false /\ validate tbl (perm_of_bits 255) t = true.
Proof.
  cbv zeta. repeat split.
  - eapply sub_kid; [left; reflexivity|]. eapply sub_kid; [left; reflexivity|]. constructor.
  - vm_compute. tauto.
Qed.

(* Per-run instance obligations of C19 on the table regenerated from the current source. *)
From PG Require Import Common.Tactics Common.Tr Gen.PermTable Model.Perm Proofs.PermProofs.
From Coq Require Import NArith.
Local Open Scope N_scope.

(* instance obligation on the regenerated table *)
Lemma generated_table_covers : covers tbl = true.
Proof. vm_compute. reflexivity. Qed.

(* instance obligations on the regenerated effective-permission rule of evaluate() *)
Lemma generated_eval_perm_never_widens : forall a s e,
  eval_perm a (Some s) = Some e -> subset_bits e s = true.
Proof.
  intros a s e. unfold eval_perm, subset_bits. destruct a as [a|]; intros [= <-].
  - rewrite <- N.land_assoc, N.land_diag. apply N.eqb_refl.
  - rewrite N.land_diag. apply N.eqb_refl.
Qed.

Lemma generated_eval_perm_scope_never_dropped : forall a s, eval_perm a (Some s) <> None.
Proof. intros a s. unfold eval_perm. destruct a; discriminate. Qed.

Lemma generated_eval_perm_respects_argument : forall a s e,
  eval_perm (Some a) s = Some e -> subset_bits e a = true.
Proof.
  intros a s e. unfold eval_perm, subset_bits. destruct s as [s|]; intros [= <-].
  - rewrite (N.land_comm a s), <- N.land_assoc, N.land_diag. apply N.eqb_refl.
  - rewrite N.land_diag. apply N.eqb_refl.
Qed.

Lemma generated_eval_perm_empty_set_is_enforced : forall s, eval_perm (Some 0) s = Some 0.
Proof. intros [s|]; unfold eval_perm; [rewrite N.land_0_l|]; reflexivity. Qed.

(* evaluate(code, permission=arg) under enclosing scopes: whatever is enforced is within the
   outermost enclosing scope AND within the argument; the empty set is enforced, not ignored.
   (Stated on [eval_perm] as regenerated from the current execution.py.) *)
Lemma evaluate_never_widens_scope : forall arg p ps e,
  eval_perm arg (scope_nest None (p :: ps)) = Some e -> subset_bits e p = true.
Proof. intros arg p ps e. rewrite scope_outermost_wins. apply generated_eval_perm_never_widens. Qed.

Lemma evaluate_respects_argument : forall a s e, eval_perm (Some a) s = Some e -> subset_bits e a = true.
Proof. exact generated_eval_perm_respects_argument. Qed.

Lemma evaluate_enforced_when_any_permission_given : forall a s,
  eval_perm (Some a) s <> None /\ eval_perm None (Some a) <> None /\ eval_perm (Some 0) s = Some 0.
Proof.
  intros a s. split; [|split].
  - unfold eval_perm. destruct s; discriminate.
  - apply generated_eval_perm_scope_never_dropped.
  - apply generated_eval_perm_empty_set_is_enforced.
Qed.

(* End to end: a named construct at any depth whose flag is missing from the argument or from the
   outermost enclosing scope makes evaluate() refuse the program. *)
Lemma evaluate_refuses : forall arg scopes t n f,
  subnode n t -> In (kind n, f) required_pairs ->
  (exists a, arg = Some a /\ N.testbit a f = false) \/ (exists p ps, scopes = p :: ps /\ N.testbit p f = false) ->
  evaluate_accepts tbl arg scopes t = false.
Proof.
  intros arg scopes t n f Hs Hr Hw. unfold evaluate_accepts.
  destruct (eval_perm arg (scope_nest None scopes)) as [e|] eqn:He.
  - apply validate_false_iff. exists n. split; [exact Hs|]. exists f. split.
    + eapply covers_spec; eauto using generated_table_covers.
    + unfold perm_of_bits. destruct (N.testbit e f) eqn:Ht; [|reflexivity]. exfalso.
      destruct Hw as [[a [-> Ha]] | [p [ps [-> Hp]]]].
      * apply generated_eval_perm_respects_argument in He.
        rewrite (testbit_subset _ _ _ He Ht) in Ha. discriminate.
      * rewrite scope_outermost_wins in He. apply generated_eval_perm_never_widens in He.
        rewrite (testbit_subset _ _ _ He Ht) in Hp. discriminate.
  - exfalso. destruct Hw as [[a [-> Ha]] | [p [ps [-> Hp]]]].
    + revert He. unfold eval_perm. destruct (scope_nest None scopes); discriminate.
    + rewrite scope_outermost_wins in He. eapply generated_eval_perm_scope_never_dropped; eauto.
Qed.

(* non-vacuity: a For loop nested in a function body inside a class, LOOP withheld *)
Example nonvacuous :
  let t := Node k_ClassDef [Node k_FunctionDef [Node k_For [Node k_Name []]]] in
  let g := perm_of_bits 123 (* all but LOOP (bit 2) of 127 *) in
  subnode (Node k_For [Node k_Name []]) t /\ In (k_For, f_LOOP) required_pairs /\ g f_LOOP = false
  /\ validate tbl g t = false /\ validate tbl (perm_of_bits 255) t = true.
Proof.
  cbv zeta. repeat split.
  - eapply sub_kid; [left; reflexivity|]. eapply sub_kid; [left; reflexivity|]. constructor.
  - vm_compute. tauto.
Qed.

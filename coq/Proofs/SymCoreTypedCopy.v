(* SymCoreTypedCopy.v — copies (clone_at) of conforming trees conform; spec-free literals build conforming trees. *)
From Coq Require Import ZArith NArith List Bool.
Import ListNotations.
From PG Require Import Common.Tactics Model.SymCoreDefs Model.SymCoreOps Model.SymCoreTyped.
From PG Require Import Proofs.SymCoreBase Proofs.SymCoreWF Proofs.SymCoreClone Proofs.SymCoreTypedBase Proofs.SymCoreTypedConf.
From PG Require Model.Typing.
Local Open Scope Z_scope.

Section Copy.
Variable ev : env.
Variable P : bool.
Notation cnode := (cnode ev P).
Notation node_ok := (node_ok ev P).

Lemma clone_leaf_pv : forall deep l cs, leaf_pv (fst (clone_leaf deep l cs)) = leaf_pv l.
Proof.
  intros. destruct l; simpl; auto. destruct deep; simpl; auto. destruct (memo_get (snd cs) oid); simpl; auto.
Qed.
Lemma clone_leaf_missing : forall deep l cs, is_missing (Leaf (fst (clone_leaf deep l cs))) = is_missing (Leaf l).
Proof.
  intros. destruct l; simpl; auto. destruct deep; simpl; auto. destruct (memo_get (snd cs) oid); simpl; auto.
Qed.

(* what a copy keeps of a node: its face and whether it is the MISSING_VALUE placeholder *)
Definition keeps (rec : option N -> list key -> node -> cstate -> node * cstate) (c : node) : Prop :=
  forall pa q cs, cnode (fst (rec pa q c cs)) /\ same_face c (fst (rec pa q c cs)) /\
                  is_missing (fst (rec pa q c cs)) = is_missing c.

Lemma clone_items_list : forall rec dm me p l i cs,
  Forall (fun kv => keeps rec (snd kv)) l ->
  lfaces l (fst (clone_items rec KList dm me p l i cs)) /\
  Forall (fun kc => cnode (snd kc)) (fst (clone_items rec KList dm me p l i cs)).
Proof.
  induction l as [|[kk c] r IH]; simpl; intros i cs F; [split; constructor|].
  inv F. destruct (dm && is_missing c) eqn:D.
  - apply andb_true_iff in D. destruct D as (_ & M). destruct (IH i cs H2) as (A & B). split; auto. apply lf_drop; auto.
  - destruct (H1 (Some me) (p ++ [KI i]) cs) as (C1 & C2 & C3). simpl in *.
    destruct (rec (Some me) (p ++ [KI i]) c cs) as [c' cs1] eqn:R. simpl in *.
    destruct (IH (i + 1) cs1 H2) as (A & B).
    destruct (clone_items rec KList dm me p r (i + 1) cs1) as [r' cs2]. simpl in *. split.
    + apply lf_keep; auto.
    + constructor; auto.
Qed.
Lemma clone_items_other : forall rec k dm me p l i cs, k <> KList ->
  Forall (fun kv => keeps rec (snd kv)) l ->
  faces l (fst (clone_items rec k dm me p l i cs)) /\
  count_present (fst (clone_items rec k dm me p l i cs)) = count_present l /\
  Forall (fun kc => cnode (snd kc)) (fst (clone_items rec k dm me p l i cs)).
Proof.
  induction l as [|[kk c] r IH]; simpl; intros i cs K F; [split; [constructor|split; auto]|].
  inv F.
  replace (dm && match k with KList => is_missing c | _ => false end) with false
    by (destruct k; try congruence; rewrite andb_false_r; auto).
  replace (match k with KList => KI i | _ => kk end) with kk by (destruct k; congruence).
  destruct (H1 (Some me) (p ++ [kk]) cs) as (C1 & C2 & C3). simpl in *.
  destruct (rec (Some me) (p ++ [kk]) c cs) as [c' cs1] eqn:R. simpl in *.
  destruct (IH (i + 1) cs1 K H2) as (A & B & C).
  destruct (clone_items rec k dm me p r (i + 1) cs1) as [r' cs2]. simpl in *. split; [|split].
  - constructor; auto.
  - unfold count_present, zlen in *. simpl. rewrite C3.
    destruct (negb (is_missing c)); simpl; auto. f_equal. apply Nat2Z.inj in B. rewrite B. reflexivity.
  - constructor; auto.
Qed.

Lemma clone_at_keeps : forall dm deep n, cnode n -> keeps (clone_at dm deep) n.
Proof.
  intros dm deep n. induction n using node_ind'; intros C pa' q cs.
  - Transparent clone_at. simpl. destruct (clone_leaf deep l cs) as [l' cs'] eqn:E. simpl. Opaque clone_at.
    split; [exact I|]. replace l' with (fst (clone_leaf deep l cs)) by (rewrite E; auto). split.
    + simpl. symmetry. apply clone_leaf_pv.
    + apply clone_leaf_missing.
  - rewrite clone_at_node. cbv zeta.
    apply cnode_node in C. destruct C as (NO & F).
    assert (KS : Forall (fun kv => keeps (clone_at dm deep) (snd kv)) its).
    { rewrite Forall_forall in *. intros kv I. apply H; auto. }
    destruct k.
    + destruct (clone_items_other (clone_at dm deep) KDict dm (fst cs) q its 0 (N.succ (fst cs), snd cs)) as (A & B & D); [congruence|auto|].
      destruct (clone_items (clone_at dm deep) KDict dm (fst cs) q its 0 (N.succ (fst cs), snd cs)) as [its' cs']. simpl in *.
      split; [|split; auto]. split; [eapply node_ok_faces; eauto; symmetry; auto|apply cnode_items; auto].
    + destruct (clone_items_list (clone_at dm deep) dm (fst cs) q its 0 (N.succ (fst cs), snd cs)) as (A & D); auto.
      destruct (clone_items (clone_at dm deep) KList dm (fst cs) q its 0 (N.succ (fst cs), snd cs)) as [its' cs']. simpl in *.
      split; [|split; auto]. split; [eapply node_ok_lfaces; eauto|apply cnode_items; auto].
    + destruct (clone_items_other (clone_at dm deep) (KObj cls) dm (fst cs) q its 0 (N.succ (fst cs), snd cs)) as (A & B & D); [congruence|auto|].
      destruct (clone_items (clone_at dm deep) (KObj cls) dm (fst cs) q its 0 (N.succ (fst cs), snd cs)) as [its' cs']. simpl in *.
      split; [|split; auto]. split; [eapply node_ok_faces; eauto; symmetry; auto|apply cnode_items; auto].
Qed.
Lemma cnode_clone_at : forall dm deep pa p n cs, cnode n -> cnode (fst (clone_at dm deep pa p n cs)).
Proof. intros. apply clone_at_keeps; auto. Qed.
Lemma face_clone_at : forall dm deep pa p n cs, cnode n -> same_face n (fst (clone_at dm deep pa p n cs)).
Proof. intros. apply clone_at_keeps; auto. Qed.

(* --- literals without value specs ------------------------------------------------------------------------------ *)
Fixpoint lit_spec_free (l : lit) : bool :=
  match l with
  | LitLeaf _ => true
  | LitNode k fl plain its =>
      (plain || N.eqb (f_spec fl) 0) &&
      (fix go (l : list (key * lit)) : bool := match l with [] => true | (_, c) :: r => lit_spec_free c && go r end) its
  end.

Lemma spec_at_zero : spec_at ev 0 = None.
Proof. reflexivity. Qed.

Lemma cnode_ctor_seal : forall n, cnode n -> cnode (ctor_seal n).
Proof.
  intros n C. unfold ctor_seal. destruct n as [l|i k pa pt fl its]; auto.
  destruct (f_sealed fl); auto. apply cnode_seal_rec; auto.
Qed.

Lemma build_items_conf : forall rec k ctx me p l i nx,
  Forall (fun kv => forall c pa q n, cnode (fst (rec c pa q (snd kv) n))) l ->
  Forall (fun kc => cnode (snd kc)) (fst (build_items rec k ctx me p l i nx)).
Proof.
  induction l as [|[kk c] r IH]; simpl; intros i nx F; auto.
  inv F. pose proof (H1 ctx (Some me) (p ++ [match k with KList => KI i | _ => kk end]) nx) as C. simpl in C.
  destruct (rec ctx (Some me) (p ++ [match k with KList => KI i | _ => kk end]) c nx) as [c' n1]. simpl in *.
  specialize (IH (i + 1) n1 H2). destruct (build_items rec k ctx me p r (i + 1) n1). simpl in *. constructor; auto.
Qed.

Lemma lit_spec_free_items : forall (its : list (key * lit)),
  (fix go (l : list (key * lit)) : bool := match l with [] => true | (_, c) :: r => lit_spec_free c && go r end) its = true ->
  Forall (fun kv => lit_spec_free (snd kv) = true) its.
Proof.
  induction its as [|[k c] r IH]; simpl; intros; auto. apply andb_true_iff in H. destruct H. constructor; auto.
Qed.

Lemma cnode_build_free : forall l ctx pa p nx, lit_spec_free l = true -> cnode (fst (build ctx pa p l nx)).
Proof.
  induction l using lit_ind'; intros ctx pa p nx F.
  - Transparent build. simpl. Opaque build. exact I.
  - rewrite build_node. simpl in F. apply andb_true_iff in F. destruct F as (F1 & F2).
    apply lit_spec_free_items in F2.
    set (fl' := if plain then mkFlags false true ctx 0 else fl).
    assert (Z0 : f_spec fl' = 0%N).
    { unfold fl'. destruct plain; simpl in *; auto. apply N.eqb_eq; auto. }
    assert (B : Forall (fun kc => cnode (snd kc)) (fst (build_items build k (f_partial fl') nx p its 0 (N.succ nx)))).
    { apply build_items_conf. rewrite Forall_forall in *. intros kv I c pa' q n. apply H; auto. }
    cbv zeta. fold fl'. destruct (build_items build k (f_partial fl') nx p its 0 (N.succ nx)) as [its' nx']. cbn [fst] in *.
    apply cnode_ctor_seal. apply cnode_node. split; auto.
    apply node_ok_untyped. rewrite Z0. reflexivity.
Qed.
End Copy.

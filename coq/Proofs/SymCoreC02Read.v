(* SymCoreC02Read.v -- C02_readback: the read API of pg.List / pg.Dict computed by the model on a stored tree equals the
   same read of the Python reference (PyList / PyDict at element type pv) on the erasure of the tree. *)
From Coq Require Import ZArith NArith List Bool Lia.
Import ListNotations.
From PG Require Import Common.Tactics Model.SymCoreDefs Model.SymCoreOps Model.SymCoreSpec Model.SymCoreC02 Proofs.SymCoreBase.
From PG Require Model.PyList Model.PyDict.
Local Open Scope Z_scope.

Definition eitems (its : list (key * node)) : list (key * pv) := map (fun kv => (fst kv, erase (snd kv))) its.
Definition evals (its : list (key * node)) : list pv := map (fun kv => erase (snd kv)) its.
Lemma erase_node : forall i k pa pt fl its, erase (Node i k pa pt fl its) = PNode k (eitems its).
Proof. reflexivity. Qed.
Lemma pvals_eitems : forall its, map snd (eitems its) = evals its.
Proof. intros; unfold eitems, evals; rewrite map_map; reflexivity. Qed.
Lemma evals_length : forall its, length (evals its) = length its.
Proof. intros; apply map_length. Qed.
Lemma eitems_length : forall its, length (eitems its) = length its.
Proof. intros; apply map_length. Qed.
Lemma len_evals : forall its, PyList.len (evals its) = zlen its.
Proof. intros; unfold PyList.len, zlen; rewrite evals_length; reflexivity. Qed.

(* --- Python == ------------------------------------------------------------------------------------------------- *)
Lemma leaf_pyeq_erase_l : forall x y, leaf_pyeq (erase_leaf x) y = leaf_pyeq x y.
Proof. destruct x, y; reflexivity. Qed.
Lemma leaf_pyeq_erase_r : forall x y, leaf_pyeq x (erase_leaf y) = leaf_pyeq x y.
Proof. destruct x, y; reflexivity. Qed.

Section EqWith.
  Context {A B : Type}.
  Variable f : A -> B -> bool.
  Definition seq_eq_with : list (key * A) -> list (key * B) -> bool :=
    fix go (xs : list (key * A)) (ys : list (key * B)) : bool :=
      match xs, ys with
      | [], [] => true
      | (_, x) :: xs', (_, y) :: ys' => f x y && go xs' ys'
      | _, _ => false
      end.
  Definition map_all_with (ys : list (key * B)) : list (key * A) -> bool :=
    fix all (xs : list (key * A)) : bool :=
      match xs with
      | [] => true
      | (k, x) :: xs' =>
          (fix find (l : list (key * B)) : bool :=
             match l with
             | [] => false
             | (k', y) :: r => if key_eqb k k' then f x y else find r
             end) ys && all xs'
      end.
End EqWith.

Lemma seq_eq_with_map : forall A A' B (f : A -> B -> bool) (g : A' -> B -> bool) (h : A -> A') xs,
  Forall (fun kv => forall y, f (snd kv) y = g (h (snd kv)) y) xs ->
  forall ys, seq_eq_with f xs ys = seq_eq_with g (map (fun kv => (fst kv, h (snd kv))) xs) ys.
Proof.
  induction 1; intros; simpl.
  - reflexivity.
  - destruct x as [k x]; simpl in *. destruct ys as [|[k' y] ys]; auto. rewrite H, IHForall. reflexivity.
Qed.
Lemma map_all_with_map : forall A A' B (f : A -> B -> bool) (g : A' -> B -> bool) (h : A -> A') ys xs,
  Forall (fun kv => forall y, f (snd kv) y = g (h (snd kv)) y) xs ->
  map_all_with f ys xs = map_all_with g ys (map (fun kv => (fst kv, h (snd kv))) xs).
Proof.
  induction 1; simpl.
  - reflexivity.
  - destruct x as [k x]; simpl in *. rewrite IHForall. f_equal.
    clear - H. induction ys as [|[k' y] ys IH]; auto. destruct (key_eqb k k'); auto.
Qed.

Lemma node_pyeq_node : forall i k pa pt fl xs p,
  node_pyeq (Node i k pa pt fl xs) p =
  match k, p with
  | KList, PNode KList ys => seq_eq_with node_pyeq xs ys
  | KDict, PNode KDict ys => Nat.eqb (length xs) (length ys) && map_all_with node_pyeq ys xs
  | KObj c, PNode (KObj d) ys => N.eqb c d && seq_eq_with node_pyeq xs ys
  | _, _ => false
  end.
Proof. intros; destruct k, p as [|k' ys]; try reflexivity; destruct k'; reflexivity. Qed.
Lemma pv_pyeq_node : forall k xs p,
  pv_pyeq (PNode k xs) p =
  match k, p with
  | KList, PNode KList ys => seq_eq_with pv_pyeq xs ys
  | KDict, PNode KDict ys => Nat.eqb (length xs) (length ys) && map_all_with pv_pyeq ys xs
  | KObj c, PNode (KObj d) ys => N.eqb c d && seq_eq_with pv_pyeq xs ys
  | _, _ => false
  end.
Proof. intros; destruct k, p as [|k' ys]; try reflexivity; destruct k'; reflexivity. Qed.

(* x == plain computed on the tree is Python == on its erasure *)
Theorem node_pyeq_erase : forall n p, node_pyeq n p = pv_pyeq (erase n) p.
Proof.
  induction n using node_ind'; intros.
  - destruct p; reflexivity.
  - rewrite erase_node, node_pyeq_node, pv_pyeq_node.
    destruct k, p as [|k' ys]; auto; destruct k'; auto.
    + rewrite eitems_length. f_equal. apply map_all_with_map. auto.
    + apply seq_eq_with_map. auto.
    + f_equal. apply seq_eq_with_map. auto.
Qed.

(* list == list of the reference semantics is pv_pyeq on list nodes *)
Lemma seq_eq_with_list_eq : forall xs ys, seq_eq_with pv_pyeq xs ys = PyList.list_eq pv_pyeq (map snd xs) (map snd ys).
Proof.
  induction xs as [|[k x] xs IH]; destruct ys as [|[k' y] ys]; simpl; auto. rewrite IH; reflexivity.
Qed.
Lemma map_all_with_dict_eq : forall ys xs,
  map_all_with pv_pyeq ys xs =
  forallb (fun kv => match PyDict.dget key_eqb (fst kv) ys with Some v' => pv_pyeq (snd kv) v' | None => false end) xs.
Proof.
  induction xs as [|[k x] xs IH]; simpl; auto. rewrite IH. f_equal.
  clear. induction ys as [|[k' y] ys IHy]; simpl; auto. destruct (key_eqb k k'); auto.
Qed.
Lemma pv_pyeq_list : forall xs ys, pv_pyeq (PNode KList xs) (PNode KList ys) = PyList.list_eq pv_pyeq (map snd xs) (map snd ys).
Proof. intros; rewrite pv_pyeq_node; apply seq_eq_with_list_eq. Qed.
Lemma pv_pyeq_dict : forall xs ys, pv_pyeq (PNode KDict xs) (PNode KDict ys) = PyDict.dict_eq key_eqb pv_pyeq xs ys.
Proof. intros; rewrite pv_pyeq_node; unfold PyDict.dict_eq; rewrite map_all_with_dict_eq; reflexivity. Qed.

(* --- indexing and slicing ------------------------------------------------------------------------------------------ *)
Lemma nth_error_evals : forall its p, nth_error (evals its) p = option_map (fun kv => erase (snd kv)) (nth_error its p).
Proof. intros; unfold evals; apply nth_error_map. Qed.
Lemma pick_map : forall A B (f : A -> B) l idxs, PyList.pick (map f l) idxs = map f (PyList.pick l idxs).
Proof.
  intros; unfold PyList.pick. induction idxs as [|i r IH]; simpl; auto.
  rewrite map_app, IH. f_equal. rewrite nth_error_map. destruct (nth_error l (Z.to_nat i)); reflexivity.
Qed.

Lemma contains_evals : forall x l, existsb (fun kv : key * node => node_pyeq (snd kv) x) l = PyList.contains pv_pyeq x (evals l).
Proof.
  unfold PyList.contains, evals. induction l as [|[k y] l IH]; simpl; auto. rewrite node_pyeq_erase, IH; reflexivity.
Qed.
Lemma count_evals : forall x l, zlen (filter (fun kv : key * node => node_pyeq (snd kv) x) l) = PyList.count pv_pyeq x (evals l).
Proof.
  unfold PyList.count, PyList.len, zlen, evals. intros; f_equal.
  induction l as [|[k y] l IH]; simpl; auto.
  rewrite node_pyeq_erase. destruct (pv_pyeq (erase y) x); simpl; rewrite IH; reflexivity.
Qed.
Lemma number_from_vals : forall A (o : list A) z, map snd (number_from z o) = o.
Proof. induction o; intros; simpl; f_equal; auto. Qed.

Section Reads.
  Variables (i0 : N) (pa : option N) (pt : list key) (fl : flags) (its : list (key * node)).
  Let nl := Node i0 KList pa pt fl its.
  Let nd := Node i0 KDict pa pt fl its.

  Lemma read_len : r_len nl = PyList.len (evals its).
  Proof. unfold r_len; simpl; rewrite len_evals; reflexivity. Qed.

  Lemma read_getitem : forall i,
    py_lstep (evals its) (PyList.PLGet i) =
    match r_getitem nl i with Some c => inl (evals its, PyList.LrVal (erase c)) | None => inr PyList.PyIndexError end.
  Proof.
    intros. unfold py_lstep, PyList.lstep, r_getitem. rewrite read_len. change (nitems nl) with its.
    destruct (PyList.norm_index (PyList.len (evals its)) i) as [p|]; auto.
    rewrite nth_error_evals. destruct (nth_error its p); reflexivity.
  Qed.

  Lemma read_getslice : forall a b c,
    py_lstep (evals its) (PyList.PLGetSlice a b c) =
    match r_getslice nl a b c with Some cs => inl (evals its, PyList.LrList (map erase cs)) | None => inr PyList.PyValueError end.
  Proof.
    intros. unfold py_lstep, PyList.lstep, r_getslice, PyList.get_slice.
    rewrite read_len. change (nitems nl) with its.
    destruct (PyList.slice_indices a b c (PyList.len (evals its))) as [[[s e] st]|]; auto.
    unfold evals. rewrite <- (map_map snd erase), pick_map. reflexivity.
  Qed.

  Lemma r_find_spec : forall x l k, r_find x l k = PyList.find_pos pv_pyeq x (evals l) k.
  Proof.
    induction l as [|[kk y] l IH]; intros; simpl; auto.
    rewrite node_pyeq_erase. destruct (pv_pyeq (erase y) x); auto.
  Qed.
  Lemma read_contains : forall x, py_lstep (evals its) (PyList.PLContains x) = inl (evals its, PyList.LrBool (r_contains nl x)).
  Proof. intros; unfold py_lstep, r_contains; simpl. rewrite contains_evals. reflexivity. Qed.
  Lemma read_index : forall x,
    py_lstep (evals its) (PyList.PLIndex x) =
    match r_find x its 0 with Some p => inl (evals its, PyList.LrInt (Z.of_nat p)) | None => inr PyList.PyValueError end.
  Proof. intros; unfold py_lstep; simpl. rewrite r_find_spec. reflexivity. Qed.
  Lemma read_count : forall x, py_lstep (evals its) (PyList.PLCount x) = inl (evals its, PyList.LrInt (r_count nl x)).
  Proof. intros; unfold py_lstep, r_count; simpl. rewrite count_evals. reflexivity. Qed.
  Lemma read_list_eq : forall o, py_lstep (evals its) (PyList.PLEq o) = inl (evals its, PyList.LrBool (node_pyeq nl (plist o))).
  Proof.
    intros; unfold py_lstep, PyList.lstep. do 3 f_equal.
    unfold nl. rewrite node_pyeq_erase, erase_node. unfold plist. rewrite pv_pyeq_list, pvals_eitems.
    rewrite number_from_vals. reflexivity.
  Qed.

  (* dict *)
  Lemma dget_eitems : forall k l, PyDict.dget key_eqb k (eitems l) = option_map erase (assoc k l).
  Proof. induction l as [|[k' v] l IH]; simpl; auto. destruct (key_eqb k k'); auto. Qed.
  Lemma read_dict_len : py_dstep (eitems its) (PyDict.PDLen) = inl (eitems its, PyDict.DrInt (r_len nd)).
  Proof. unfold py_dstep, PyDict.dstep, r_len, PyList.len, zlen. rewrite eitems_length. reflexivity. Qed.
  Lemma read_dict_keys : py_dstep (eitems its) (PyDict.PDKeys) = inl (eitems its, PyDict.DrKeys (r_keys nd)).
  Proof. unfold py_dstep, r_keys, eitems; simpl. rewrite map_map. reflexivity. Qed.
  Lemma read_dict_get : forall k,
    py_dstep (eitems its) (PyDict.PDGet k) =
    match r_dget nd k with Some c => inl (eitems its, PyDict.DrVal (erase c)) | None => inr PyList.PyKeyError end.
  Proof. intros; unfold py_dstep, r_dget; simpl. rewrite dget_eitems. destruct (assoc k its); reflexivity. Qed.
  Lemma read_dict_contains : forall k,
    py_dstep (eitems its) (PyDict.PDContains k) = inl (eitems its, PyDict.DrBool (has_key k its)).
  Proof. intros; unfold py_dstep, PyDict.dstep, PyDict.dhas, has_key. rewrite dget_eitems. destruct (assoc k its); reflexivity. Qed.
  Lemma read_dict_items : py_dstep (eitems its) (PyDict.PDItems) = inl (eitems its, PyDict.DrDict (pitems (erase nd))).
  Proof. reflexivity. Qed.
  Lemma read_dict_eq : forall o,
    py_dstep (eitems its) (PyDict.PDEq o) = inl (eitems its, PyDict.DrBool (node_pyeq nd (PNode KDict o))).
  Proof. intros; unfold py_dstep, PyDict.dstep. unfold nd. rewrite node_pyeq_erase, erase_node, pv_pyeq_dict. reflexivity. Qed.
End Reads.

(* iteration / items: what list(x) and x.items() enumerate is the erasure itself *)
Lemma read_items : forall i k pa pt fl its, pitems (erase (Node i k pa pt fl its)) = eitems its /\ pvals (erase (Node i k pa pt fl its)) = evals its.
Proof. intros; split; [reflexivity | apply pvals_eitems]. Qed.

(* to_json *)
Theorem to_json_erase : forall n, to_json n = pv_json (erase n).
Proof.
  induction n using node_ind'; simpl.
  - destruct l; reflexivity.
  - f_equal. rewrite map_map. apply map_ext_in. intros kv I. simpl. f_equal.
    rewrite Forall_forall in H. apply H; auto.
Qed.

(* SchedSound5.v — fifth layer: the VALUE handed to the algorithm.  Every report carries the reward that is the final measurement of
   the reported trial — when it is made and for ever after: the final measurement of a trial is written only by the thread that
   completed it, and only while its report is still outstanding or the trial is infeasible (and then it is never reported). *)
From PG Require Import Common.Tactics Model.Sched Model.SchedDisc Proofs.SchedBase Proofs.SchedMutex Proofs.SchedSound Proofs.SchedSound2.

Ltac bool_hyps5 :=
  repeat match goal with
  | H : _ && _ = true |- _ => apply andb_true_iff in H; destruct H
  | H : negb _ = true |- _ => apply negb_true_iff in H
  | H : implb _ _ = true |- _ => rewrite implb_true_iff in H
  end.

(* what every primitive mutation except "set the final measurement" preserves of the trial list *)
Definition T_ext5 (l l' : list trial) : Prop :=
  forall k y, nth_error l k = Some y ->
    exists y', nth_error l' k = Some y' /\ t_id y' = t_id y /\ t_final y' = t_final y /\ t_fed y <= t_fed y' /\
               (t_done y = true -> t_done y' = true /\ t_owner y' = t_owner y).

Lemma T_ext5_refl : forall l, T_ext5 l l.
Proof. red; intros. exists y. repeat split; auto. Qed.

Lemma T_ext5_trans : forall a b d, T_ext5 a b -> T_ext5 b d -> T_ext5 a d.
Proof.
  unfold T_ext5; intros a b d H1 H2 k y Hn. destruct (H1 _ _ Hn) as [y1 [A [B [C1 [D E]]]]]. destruct (H2 _ _ A) as [y2 [A2 [B2 [C2 [D2 E2]]]]].
  exists y2. split; [auto|]. split; [congruence|]. split; [congruence|]. split; [lia|].
  intros Hd. destruct (E Hd) as [X Y]. destruct (E2 X) as [X2 Y2]. split; congruence.
Qed.

Lemma ext5_append : forall l x, T_ext5 l (l ++ [x]).
Proof. red; intros. exists y. repeat split; auto. rewrite nth_error_app1; auto. apply nth_error_Some. congruence. Qed.

Lemma ext5_trial : forall l i k, (match k with TFinal _ => False | TFlip _ => forall x, nth_error l i = Some x -> t_done x = false | _ => True end) ->
  T_ext5 l (upd_nth i (apply_tmut k) l).
Proof.
  unfold T_ext5; intros l i k Hk j y Hn. rewrite nth_error_upd_nth, Hn. destruct (Nat.eqb i j) eqn:E; simpl.
  - apply Nat.eqb_eq in E. subst j. exists (apply_tmut k y). split; [reflexivity|].
    destruct k; simpl in *; try contradiction; (split; [reflexivity|]; split; [reflexivity|]; split; [lia|]); intros Hd;
      try (rewrite (Hk _ Hn) in Hd; discriminate); split; auto.
  - exists y. repeat split; auto.
Qed.

Section Sound5.
Variable ps : progs.
Variable c : cfg.
Hypothesis HD : disciplined ps = true.

Record sat5 (g : gstate) (t : nat) (th : tstate) (a : astate) : Prop := {
  s5_reward : f_reward a = true ->
              exists i x r, r_cur th = Some i /\ nth_error (T g) i = Some x /\ t_done x = true /\ t_owner x = Some t /\
                            r_reward th = Some r /\ t_final x = Some r
}.

Record GI5 (g : gstate) : Prop := {
  g5_fst : map fst (a_fedv (alg g)) = a_fed (alg g);
  g5_val : forall s k r, In (s, k, r) (a_fedv (alg g)) ->
           exists x, nth_error (T g) (k - 1) = Some x /\ t_id x = k /\ t_final x = Some r /\ 1 <= t_fed x
}.

Definition thread_ok5 (g : gstate) (t : nat) (th : tstate) : Prop := exists a, cur_a ps th = Some a /\ sat5 g t th a.
Record Inv5 (g : gstate) (ts : list tstate) : Prop := { i5_gi : GI5 g; i5_th : forall t th, nth_error ts t = Some th -> thread_ok5 g t th }.

(* ---- frames ------------------------------------------------------------------------------------------------------------ *)
Lemma sat5_frame : forall g g' t th th' a a', T_ext5 (T g) (T g') -> r_cur th' = r_cur th -> r_reward th' = r_reward th ->
  (f_reward a' = true -> f_reward a = true) -> sat5 g t th a -> sat5 g' t th' a'.
Proof.
  intros g g' t th th' a a' Hext E1 E2 Hi [R]. constructor. intros Hf. destruct (R (Hi Hf)) as [i [x [r [A [B [C1 [D [E F]]]]]]]].
  destruct (Hext _ _ B) as [x' [X1 [X2 [X3 [X4 X5]]]]]. destruct (X5 C1) as [Y1 Y2].
  exists i, x', r. repeat split; try congruence.
Qed.

Lemma sat5_none : forall g t th a, f_reward a = false -> sat5 g t th a.
Proof. intros. constructor. intros. congruence. Qed.

Lemma sat5_leq : forall g t th x y, leq x y = true -> sat5 g t th x -> sat5 g t th y.
Proof.
  intros g t th x y Hl Hs. unfold leq in Hl. bool_hyps5.
  eapply sat5_frame; eauto. apply T_ext5_refl.
Qed.

Lemma GI5_frame : forall g g', a_fedv (alg g') = a_fedv (alg g) -> a_fed (alg g') = a_fed (alg g) -> T_ext5 (T g) (T g') -> GI5 g -> GI5 g'.
Proof.
  intros g g' E1 E2 Hext [R1 R2]. constructor; rewrite ?E1, ?E2; auto.
  intros s k r Hin. destruct (R2 _ _ _ Hin) as [x [A [B [C1 D]]]]. destruct (Hext _ _ A) as [x' [X1 [X2 [X3 [X4 _]]]]].
  exists x'. repeat split; try congruence; lia.
Qed.

(* ---- classification of the effects ------------------------------------------------------------------------------------ *)
Definition val_special (e : effect) : bool :=
  match e with ESetFinalLast | ESetFinalZero | EIncNF | EComputeReward | ESetCur | ESetCompleted => true | _ => false end.

Lemma eff_generic5 : forall me e g th, r_study th = 0 -> val_special e = false ->
  T_ext5 (T g) (T (fold_left (apply_mut 0) (muts c me e g th) g)) /\
  a_fedv (alg (fold_left (apply_mut 0) (muts c me e g th) g)) = a_fedv (alg g) /\
  a_fed (alg (fold_left (apply_mut 0) (muts c me e g th) g)) = a_fed (alg g) /\
  r_cur (regs c me e g th) = r_cur th /\ r_reward (regs c me e g th) = r_reward th.
Proof.
  intros me e g th Hst He. unfold muts, regs, study_of. rewrite Hst.
  destruct e; try discriminate; simpl; repeat destr_match; simpl; repeat split; try reflexivity; try assumption; try apply T_ext5_refl;
    try (match goal with |- T_ext5 (T ?g0) (T (upd_study 0 (upd_trial ?i (apply_tmut ?k)) ?g0)) =>
           change (T (upd_study 0 (upd_trial i (apply_tmut k)) g0)) with (upd_nth i (apply_tmut k) (T g0)); apply ext5_trial; exact I end);
    try (match goal with |- T_ext5 (T ?g0) (T (upd_study 0 (fun st => set_trials st (s_trials st ++ [?x])) ?g0)) =>
           change (T (upd_study 0 (fun st => set_trials st (s_trials st ++ [x])) g0)) with (T g0 ++ [x]); apply ext5_append end).
Qed.

Lemma post_reward5 : forall e a, match e with EComputeReward => True | _ => f_reward (post_eff e a) = true -> f_reward a = true end.
Proof. intros e a. destruct e; simpl; auto; intros; discriminate. Qed.

Lemma eff_completed5 : forall me g th, r_study th = 0 ->
  T_ext5 (T g) (T (fold_left (apply_mut 0) (muts c me ESetCompleted g th) g)) /\
  a_fedv (alg (fold_left (apply_mut 0) (muts c me ESetCompleted g th) g)) = a_fedv (alg g) /\
  a_fed (alg (fold_left (apply_mut 0) (muts c me ESetCompleted g th) g)) = a_fed (alg g) /\
  r_cur (regs c me ESetCompleted g th) = r_cur th /\ r_reward (regs c me ESetCompleted g th) = r_reward th.
Proof.
  intros me g th Hst. unfold muts, regs, study_of. rewrite Hst. simpl.
  destruct (r_cur th) as [i|] eqn:Ec; simpl; [| repeat split; try reflexivity; try congruence; try apply T_ext5_refl].
  destruct (nth_error (s_trials (studies g 0)) i) as [x|] eqn:Ex; simpl; [| repeat split; try reflexivity; try congruence; try apply T_ext5_refl].
  destruct (t_done x) eqn:Ed; simpl; repeat split; try reflexivity; try congruence; try apply T_ext5_refl; auto.
  change (T (upd_study 0 (upd_trial i (apply_tmut (TFlip me))) g)) with (upd_nth i (apply_tmut (TFlip me)) (T g)).
  apply ext5_trial. intros x0 Hn. unfold T in Hn. rewrite Ex in Hn. inv Hn. auto.
Qed.

Lemma post_br_reward5 : forall cn v a, f_reward (post_br cn v a) = f_reward a.
Proof. intros. destruct cn, v; reflexivity. Qed.

Lemma ids_nth : forall g ts i x, GI c g ts -> nth_error (T g) i = Some x -> t_id x = S i.
Proof.
  intros g ts i x HG Hn. pose proof (gi_ids _ _ _ HG) as Hids.
  assert (Hlt : i < length (T g)) by (apply nth_error_Some; congruence).
  assert (E : nth_error (map t_id (T g)) i = Some (t_id x)) by (erewrite map_nth_error; eauto).
  rewrite Hids in E. rewrite nth_error_nth' with (d := 0) in E by (rewrite seq_length; auto). inv E. rewrite seq_nth; auto.
Qed.

(* ---- statements --------------------------------------------------------------------------------------------------------- *)
Definition others_stable5 (g g' : gstate) (ts : list tstate) (t : nat) : Prop :=
  forall t' th2 a2, t' <> t -> nth_error ts t' = Some th2 -> sat5 g t' th2 a2 -> sat5 g' t' th2 a2.

Definition stmt_goal5 (g : gstate) (ts : list tstate) (t : nat) (g' : gstate) (th' : tstate) (a' : astate) : Prop :=
  sat5 g' t th' a' /\ GI5 g' /\ others_stable5 g g' ts t.

Lemma others5_ext : forall g g' ts t, T_ext5 (T g) (T g') -> others_stable5 g g' ts t.
Proof. red; intros. eapply sat5_frame; eauto. Qed.

Section OneStmt5.
Variables (g : gstate) (ts : list tstate) (t : nat) (th : tstate) (a : astate).
Hypothesis HI : Inv ps c g ts.
Hypothesis HG5 : GI5 g.
Hypothesis Ht : nth_error ts t = Some th.
Hypothesis Hs : sat g t th a.
Hypothesis Hs5 : sat5 g t th a.

Lemma stmt5_generic : forall e, (val_special e = false \/ e = ESetCompleted) ->
  forall g' th', sem c t e g th = (g', th') -> stmt_goal5 g ts t g' th' (post_eff e a).
Proof.
  intros e He g' th' Hsem. pose proof (s_study _ _ _ _ Hs) as Hst0. unfold sem in Hsem. rewrite Hst0 in Hsem. injection Hsem as Eg Eth; subst g' th'.
  assert (Hgen : T_ext5 (T g) (T (fold_left (apply_mut 0) (muts c t e g th) g)) /\
                 a_fedv (alg (fold_left (apply_mut 0) (muts c t e g th) g)) = a_fedv (alg g) /\
                 a_fed (alg (fold_left (apply_mut 0) (muts c t e g th) g)) = a_fed (alg g) /\
                 r_cur (regs c t e g th) = r_cur th /\ r_reward (regs c t e g th) = r_reward th).
  { destruct He as [He | He]; [apply eff_generic5; auto | subst e; apply eff_completed5; auto]. }
  destruct Hgen as [G1 [G2 [G3 [G4 G5]]]].
  assert (Hpost : f_reward (post_eff e a) = true -> f_reward a = true).
  { pose proof (post_reward5 e a) as Hp. destruct He as [He | He]; [destruct e; try discriminate; auto | subst e; auto]. }
  split; [|split].
  - eapply sat5_frame; eauto.
  - eapply GI5_frame; eauto.
  - apply others5_ext; auto.
Qed.

Lemma stmt5_ESetCur : forall g' th', sem c t ESetCur g th = (g', th') -> stmt_goal5 g ts t g' th' (post_eff ESetCur a).
Proof.
  intros g' th' Hsem. unfold sem, muts, regs in Hsem. injection Hsem as Eg Eth; subst g' th'. simpl.
  split; [|split].
  - apply sat5_none. reflexivity.
  - auto.
  - apply others5_ext. apply T_ext5_refl.
Qed.

Lemma stmt5_EComputeReward : forall g' th', sem c t EComputeReward g th = (g', th') -> stmt_goal5 g ts t g' th' (post_eff EComputeReward a).
Proof.
  intros g' th' Hsem. pose proof (s_study _ _ _ _ Hs) as Hst0. unfold sem, muts, regs, study_of in Hsem. rewrite Hst0 in Hsem.
  injection Hsem as Eg Eth; subst g' th'. simpl.
  split; [|split].
  - constructor. intros Hf. change (f_own a && inf_is (f_inf a) false && f_final a = true) in Hf. bool_hyps5.
    match goal with H : inf_is _ _ = true |- _ => apply inf_is_true in H; destruct (s_kinf _ _ _ _ Hs _ H) as [i [x [A [B [C1 [D [E F]]]]]]] end.
    match goal with H : f_final a = true |- _ => destruct (s_final _ _ _ _ Hs H) as [i2 [x2 [A2 [_ [C2 [_ [_ F2]]]]]]] end.
    rewrite A in A2. inv A2. rewrite C1 in C2. inv C2.
    destruct (t_final x2) as [r|] eqn:Ef; [| congruence].
    exists i2, x2, r. repeat split; auto. simpl. rewrite A. unfold otrial. fold (T g). rewrite C1, D, F. simpl. auto.
  - auto.
  - apply others5_ext. apply T_ext5_refl.
Qed.

Lemma stmt5_EIncNF : req_eff EIncNF a = true ->
  forall g' th', sem c t EIncNF g th = (g', th') -> stmt_goal5 g ts t g' th' (post_eff EIncNF a).
Proof.
  intros Hre g' th' Hsem. pose proof (s_study _ _ _ _ Hs) as Hst0. simpl in Hre. bool_hyps5.
  match goal with H : inf_is _ _ = true |- _ => apply inf_is_true in H; destruct (s_kinf _ _ _ _ Hs _ H) as [i [x [A [B [C1 [D [E F]]]]]]] end.
  match goal with H : f_reward a = true |- _ => destruct (s5_reward _ _ _ _ Hs5 H) as [i2 [x2 [r [A2 [C2 [_ [_ [R1 R2]]]]]]]] end.
  rewrite A in A2. inv A2. rewrite C1 in C2. inv C2.
  unfold sem, muts, regs, study_of in Hsem. rewrite Hst0, A in Hsem. unfold otrial in Hsem. fold (T g) in Hsem. rewrite C1, R1 in Hsem.
  injection Hsem as Eg Eth; subst g' th'. simpl.
  set (g1 := upd_study 0 (upd_trial i2 (apply_tmut TFed)) g).
  assert (HT : T_ext5 (T g) (T g1)).
  { change (T g1) with (upd_nth i2 (apply_tmut TFed) (T g)). apply ext5_trial. exact I. }
  split; [|split].
  - eapply (sat5_frame g _ t th _ a); [exact HT | reflexivity | reflexivity | simpl; auto | exact Hs5].
  - destruct HG5 as [Q1 Q2]. constructor; simpl.
    + rewrite map_app, Q1. reflexivity.
    + intros s k r0 Hin. apply in_app_or in Hin. destruct Hin as [Hin | Hin].
      * destruct (Q2 _ _ _ Hin) as [y [Y1 [Y2 [Y3 Y4]]]]. destruct (HT _ _ Y1) as [y' [Z1 [Z2 [Z3 [Z4 _]]]]].
        exists y'. repeat split; try congruence; try lia. exact Z1.
      * destruct Hin as [Hin | []]. inv Hin.
        pose proof (ids_nth _ _ _ _ (inv_gi _ _ _ _ HI) C1) as Hid. rewrite Hid. replace (S i2 - 1) with i2 by lia.
        exists (apply_tmut TFed x2). split.
        { change (T (set_alg g1 _)) with (upd_nth i2 (apply_tmut TFed) (T g)). apply nth_error_upd_nth_eq. auto. }
        simpl. repeat split; auto. lia.
  - apply others5_ext. exact HT.
Qed.

Lemma stmt5_final : forall o, f_own a = true -> d_fb a || inf_is (f_inf a) true = true ->
  match r_cur th with Some i => stmt_goal5 g ts t (upd_study 0 (upd_trial i (apply_tmut (TFinal o))) g) th
                                   (set_misc (f_regmiss a) (f_mine a) false (set_cur_facts (f_hasmeas a) (f_own a) (f_inf a) true a))
                 | None => True end.
Proof.
  intros o Hown Hdisj. destruct (s_own _ _ _ _ Hs Hown) as [i [x [A [B [C1 [D E]]]]]]. rewrite A.
  assert (Hfed0 : t_fed x = 0).
  { pose proof (gi_fed _ _ _ (inv_gi _ _ _ _ HI) _ _ C1) as Hf. apply orb_true_iff in Hdisj. destruct Hdisj as [Hd | Hd].
    - assert (Hpos : fbdebt ts i <> 0).
      { intros Hz. unfold fbdebt in Hz. pose proof (cntb_zero_all ps _ _ _ _ Hz Ht) as Hc. simpl in Hc.
        rewrite (s_dfb _ _ _ _ Hs), Hd, B in Hc. simpl in Hc. rewrite Nat.eqb_refl in Hc. discriminate. }
      destruct (t_done x && negb (t_inf x)); lia.
    - apply inf_is_true in Hd. destruct (s_kinf _ _ _ _ Hs _ Hd) as [i2 [x2 [A2 [_ [C2 [_ [_ F2]]]]]]].
      rewrite A in A2. inv A2. rewrite C1 in C2. inv C2. rewrite F2, D in Hf. simpl in Hf. lia. }
  split; [|split].
  - apply sat5_none. reflexivity.
  - destruct HG5 as [Q1 Q2]. constructor; simpl; auto.
    intros s k r Hin. destruct (Q2 _ _ _ Hin) as [y [Y1 [Y2 [Y3 Y4]]]].
    change (T (upd_study 0 (upd_trial i (apply_tmut (TFinal o))) g)) with (upd_nth i (apply_tmut (TFinal o)) (T g)).
    destruct (Nat.eq_dec i (k - 1)) as [Ei | Ei].
    + subst i. rewrite C1 in Y1. inv Y1. lia.
    + exists y. rewrite nth_error_upd_nth_neq; auto.
  - red. intros t' th2 a2 Hne Hn [R]. constructor. intros Hf. destruct (R Hf) as [i' [x' [r [A' [B' [C' [D' [E' F']]]]]]]].
    change (T (upd_study 0 (upd_trial i (apply_tmut (TFinal o))) g)) with (upd_nth i (apply_tmut (TFinal o)) (T g)).
    destruct (Nat.eq_dec i i') as [Ei | Ei].
    + subst i'. rewrite C1 in B'. inv B'. congruence.
    + exists i', x', r. rewrite nth_error_upd_nth_neq; auto. repeat split; auto.
Qed.

Lemma stmt_sound5 : forall ini e rd wr, req ini (Stmt rd wr e) a = true ->
  forall g' th', sem c t e g th = (g', th') -> stmt_goal5 g ts t g' th' (post_eff e a).
Proof.
  intros ini e rd wr Hreq g' th' Hsem. destruct (req_stmt _ _ _ _ _ Hreq) as [_ [_ [Hre _]]].
  destruct (val_special e) eqn:Ev; [| eapply stmt5_generic; eauto].
  pose proof (s_study _ _ _ _ Hs) as Hst0.
  destruct e; try discriminate.
  - (* ESetCur *) apply stmt5_ESetCur; auto.
  - (* ESetCompleted *) eapply stmt5_generic; eauto.
  - (* ESetFinalLast *)
    simpl in Hre. bool_hyps5.
    match goal with H : f_own a = true, H2 : d_fb a || _ = true |- _ => pose proof (stmt5_final (match otrial (studies g 0) (r_cur th) with Some x => last_opt (t_meas x) | None => None end) H H2) as Hf;
      destruct (s_own _ _ _ _ Hs H) as [i [x [A [B [C1 [D E]]]]]] end.
    rewrite A in Hf. unfold sem, muts, regs, study_of in Hsem. rewrite Hst0, A in Hsem. unfold otrial in *. fold (T g) in *. rewrite C1 in *.
    injection Hsem as Eg Eth; subst g' th'. simpl. exact Hf.
  - (* ESetFinalZero *)
    simpl in Hre. bool_hyps5.
    match goal with H : f_own a = true, H2 : d_fb a || _ = true |- _ => pose proof (stmt5_final (Some 0%Z) H H2) as Hf;
      destruct (s_own _ _ _ _ Hs H) as [i [x [A [B [C1 [D E]]]]]] end.
    rewrite A in Hf. unfold sem, muts, regs, study_of in Hsem. rewrite Hst0, A in Hsem.
    injection Hsem as Eg Eth; subst g' th'. simpl. exact Hf.
  - (* EComputeReward *) apply stmt5_EComputeReward; auto.
  - (* EIncNF *) apply stmt5_EIncNF; auto.
Qed.

End OneStmt5.

(* ---- one step of an arbitrary thread --------------------------------------------------------------------------------------- *)
Lemma Inv5_assemble : forall g ts t th g' th', nth_error ts t = Some th ->
  Inv5 g ts -> GI5 g' -> thread_ok5 g' t th' -> others_stable5 g g' ts t -> Inv5 g' (set_th ts t th').
Proof.
  intros g ts t th g' th' Ht [HG5 HT5] HG Hok Hoth. constructor; auto.
  intros t0 th0 Hn. destruct (Nat.eq_dec t t0).
  - subst. erewrite nth_error_set_th_eq in Hn; eauto. inv Hn. auto.
  - rewrite nth_error_set_th_neq in Hn; auto. destruct (HT5 _ _ Hn) as [a2 [A B]]. exists a2. split; auto.
Qed.

Lemma thread_ok5_at : forall g' t th' p j a' a'', pc th' = Some (p, j) -> an_get (ann ps p) j (r_ret th') = Some a'' -> leq a' a'' = true ->
  sat5 g' t th' a' -> thread_ok5 g' t th'.
Proof. intros. exists a''. split. unfold cur_a. rewrite H. auto. eapply sat5_leq; eauto. Qed.

Lemma thread_ok5_entry : forall g t th', (pc th' = None \/ exists p, pc th' = Some (p, 0)) -> thread_ok5 g t th'.
Proof.
  intros g t th' [Hpc | [p Hpc]]; unfold thread_ok5, cur_a; rewrite Hpc.
  - exists a0. split; auto. apply sat5_none. reflexivity.
  - destruct (entry_ann ps HD p (r_ret th')) as [x [A B]]. exists x. split; auto.
    eapply sat5_leq; eauto. apply sat5_none. destruct (is_init p); reflexivity.
Qed.

Lemma to_script_pc5 : forall au ra th, pc (to_script au ra th) = None \/ exists p, pc (to_script au ra th) = Some (p, 0).
Proof. intros. unfold to_script. destruct (next_call _ _ _) as [[u r]|]; simpl; eauto. Qed.

Theorem Inv5_step : forall g ts t g' ts', Inv ps c g ts -> Inv5 g ts -> step1 ps c g ts t = Some (g', ts') -> Inv5 g' ts'.
Proof.
  intros g ts t g' ts' HI HI5 Hstep.
  destruct (step1_inv _ _ _ _ _ _ _ Hstep) as [th [p [i [Ht [Hpc Hcase]]]]].
  destruct (inv_th _ _ _ _ HI _ _ Ht) as [a [Hcur Hs]]. unfold cur_a in Hcur. rewrite Hpc in Hcur.
  destruct (i5_th _ _ HI5 _ _ Ht) as [a2 [Hcur2 Hs5]]. unfold cur_a in Hcur2. rewrite Hpc, Hcur in Hcur2. inv Hcur2.
  pose proof (i5_gi _ _ HI5) as HG5. pose proof (s_study _ _ _ _ Hs) as Hst0.
  assert (Hsame : others_stable5 g g ts t) by (apply others5_ext; apply T_ext5_refl).
  destruct Hcase as [[Hf [Hg Hts]] | [gate [x [th' [Hf [Hact Hts]]]]]].
  - subst g' ts'. eapply Inv5_assemble; eauto. apply thread_ok5_entry. apply to_script_pc5.
  - subst ts'. rewrite (fetch_nth ps) in Hf. destruct (check_succ ps HD _ _ _ _ _ _ Hcur Hf) as [Hreq Hsucc].
    destruct x; simpl in Hact.
    + (* Acquire *)
      destruct (locks g (phys l g th)) eqn:El; try discriminate. injection Hact as Eg Eth; subst g' th'.
      destruct (Hsucc (S i) (r_ret th) (with_locks (l :: a_locks a2) a2)) as [a'' [A B]]; [simpl; auto|].
      eapply (Inv5_assemble g ts t th); [exact Ht | exact HI5 | | | ].
      * eapply (GI5_frame g); [reflexivity | reflexivity | apply T_ext5_refl | exact HG5].
      * eapply thread_ok5_at with (a' := with_locks (l :: a_locks a2) a2); [simpl; reflexivity | simpl; exact A | exact B |].
        eapply (sat5_frame g _ t th _ a2); [apply T_ext5_refl | reflexivity | reflexivity | simpl; auto | exact Hs5].
      * apply others5_ext. apply T_ext5_refl.
    + (* Release *)
      destruct (held th) as [|[l0 k] h] eqn:Eh; injection Hact as Eg Eth; subst g' th';
      (destruct (Hsucc (S i) (r_ret th) (with_locks (tl (a_locks a2)) a2)) as [a'' [A B]]; [simpl; auto|]);
      (eapply (Inv5_assemble g ts t th); [exact Ht | exact HI5 | | | ];
       [ eapply (GI5_frame g); [reflexivity | reflexivity | apply T_ext5_refl | exact HG5]
       | eapply thread_ok5_at with (a' := with_locks (tl (a_locks a2)) a2); [simpl; reflexivity | simpl; exact A | exact B |];
         eapply (sat5_frame g _ t th _ a2); [apply T_ext5_refl | reflexivity | reflexivity | simpl; auto | exact Hs5]
       | apply others5_ext; apply T_ext5_refl ]).
    + (* Stmt *)
      destruct (sem c t e g th) as [g1 th1] eqn:Esem.
      destruct (stmt_sound5 g ts t th a2 HI HG5 Ht Hs Hs5 _ e rd wr Hreq g1 th1 Esem) as [S1 [S2 S3]].
      assert (Hret : exists b' a', In (S i, b', a') (succs i (r_ret th) a2 (Stmt rd wr e)) /\ r_ret th1 = b' /\ sat5 g1 t th1 a').
      { pose proof (regs_ret c t e g th) as Hr.
        assert (Eth : th1 = regs c t e g th) by (unfold sem in Esem; inv Esem; reflexivity).
        rewrite <- Eth in Hr.
        destruct e; simpl succs; simpl post_eff in S1;
          try (exists (r_ret th); eexists; split; [left; reflexivity | split; [exact Hr | exact S1]]).
        - exists b; eexists; split; [left; reflexivity | split; [|exact S1]]. rewrite Eth. reflexivity.
        - destruct (r_ret th1) eqn:Er.
          + exists true; eexists; split; [left; reflexivity | split; [reflexivity | exact S1]].
          + exists false; eexists; split; [right; left; reflexivity | split; [reflexivity | exact S1]]. }
      destruct Hret as [b' [a' [Hin [Hb Hsa]]]].
      destruct (Hsucc _ _ _ Hin) as [a'' [A B]].
      unfold sem in Esem. injection Esem as Eg1 Eth1. subst g1 th1. injection Hact as Eg' Eth'. subst g' th'.
      eapply (Inv5_assemble g ts t th); [exact Ht | exact HI5 | exact S2 | | exact S3].
      eapply thread_ok5_at with (a' := a'); [simpl; reflexivity | simpl; rewrite Hb; exact A | exact B |].
      eapply (sat5_frame _ _ t (regs c t e g th) _ a'); [apply T_ext5_refl | reflexivity | reflexivity | auto | exact Hsa].
    + (* Branch *)
      injection Hact as Eg' Eth'. subst g' th'.
      destruct (branch_sound ps c HD _ c0 rd off a2 g ts t th (inv_lock _ _ _ _ HI) (inv_gi _ _ _ _ HI) Ht Hs Hreq) as [B1 _].
      set (b := evalc c c0 g th) in *.
      assert (Hin : In ((if b then S i else S i + off), r_ret th, post_br c0 b a2) (succs i (r_ret th) a2 (Branch rd c0 off))).
      { simpl. destruct (static_cond (r_ret th) a2 c0) as [[|]|] eqn:Est; destruct b; simpl in *; auto; exfalso; apply B1; reflexivity. }
      destruct (Hsucc _ _ _ Hin) as [a'' [A B]].
      assert (Hnb : r_ret (note_branch c0 b th) = r_ret th /\ r_cur (note_branch c0 b th) = r_cur th /\ r_reward (note_branch c0 b th) = r_reward th)
        by (destruct c0, b; repeat split; reflexivity).
      destruct Hnb as [N1 [N2 N3]].
      assert (Hnf : alg (note_full c0 b g th) = alg g /\ T (note_full c0 b g th) = T g).
      { destruct c0, b; simpl; rewrite ?Hst0; split; reflexivity. }
      destruct Hnf as [F1 F2].
      assert (HTe : T_ext5 (T g) (T (note_full c0 b g th))) by (rewrite F2; apply T_ext5_refl).
      eapply (Inv5_assemble g ts t th); [exact Ht | exact HI5 | | | ].
      * eapply (GI5_frame g); [rewrite F1; reflexivity | rewrite F1; reflexivity | exact HTe | exact HG5].
      * eapply thread_ok5_at with (a' := post_br c0 b a2); [simpl; reflexivity | simpl; rewrite N1; exact A | exact B |].
        eapply (sat5_frame g _ t th _ a2); [exact HTe | simpl; exact N2 | simpl; exact N3 | rewrite post_br_reward5; auto | exact Hs5].
      * apply others5_ext. exact HTe.
    + (* Jump *)
      injection Hact as Eg' Eth'. subst g' th'. destruct (Hsucc (S i + off) (r_ret th) a2) as [a'' [A B]]; [simpl; auto|].
      eapply (Inv5_assemble g ts t th); [exact Ht | exact HI5 | exact HG5 | | exact Hsame].
      eapply thread_ok5_at with (a' := a2); [simpl; reflexivity | simpl; exact A | exact B |].
      eapply (sat5_frame g _ t th _ a2); [apply T_ext5_refl | reflexivity | reflexivity | auto | exact Hs5].
    + (* Throw *)
      assert (Hfin : g' = g -> th' = th_pc None th -> Inv5 g' (set_th ts t th')).
      { intros; subst. eapply (Inv5_assemble g ts t th); [exact Ht | exact HI5 | exact HG5 | | exact Hsame]. apply thread_ok5_entry. left. reflexivity. }
      assert (Hscr : g' = g -> th' = to_script None true th -> Inv5 g' (set_th ts t th')).
      { intros; subst. eapply (Inv5_assemble g ts t th); [exact Ht | exact HI5 | exact HG5 | | exact Hsame]. apply thread_ok5_entry. apply to_script_pc5. }
      destruct k; try destruct (Nat.eqb p P_init); injection Hact as Eg Eth; auto.
    + (* Done *)
      injection Hact as Eg Eth; subst g' th'.
      eapply (Inv5_assemble g ts t th); [exact Ht | exact HI5 | exact HG5 | | exact Hsame]. apply thread_ok5_entry. apply to_script_pc5.
Qed.

End Sound5.

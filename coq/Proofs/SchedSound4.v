(* SchedSound4.v — fourth layer: the algorithm's own counters.  The DNASpec is stored (setup starts) at most once; between that
   statement and the two counter resets the thread holds the constructor's lock and nothing has been proposed or reported yet;
   afterwards  num_feedbacks = number of reports  and  num_proposals = number of trials + proposals whose trial is being appended. *)
From PG Require Import Common.Tactics Model.Sched Model.SchedDisc Proofs.SchedBase Proofs.SchedMutex Proofs.SchedSound Proofs.SchedSound2.

Ltac bool_hyps4 :=
  repeat match goal with
  | H : _ && _ = true |- _ => apply andb_true_iff in H; destruct H
  | H : negb _ = true |- _ => apply negb_true_iff in H
  | H : implb _ _ = true |- _ => rewrite implb_true_iff in H
  | H : Bool.eqb _ _ = true |- _ => apply eqb_prop in H
  end.

(* the part of the algorithm state this layer is about *)
Record core_same (a a' : algo) : Prop := {
  cs_spec : a_spec a' = a_spec a; cs_np : a_np a' = a_np a; cs_nf : a_nf a' = a_nf a; cs_fed : a_fed a' = a_fed a;
  cs_nset : a_nset a' = a_nset a; cs_win : a_win a' = a_win a }.

Lemma core_same_refl : forall a, core_same a a. Proof. constructor; reflexivity. Qed.

Lemma apply_mut_len : forall g m, match m with MAppend _ => True | _ => length (T (apply_mut 0 g m)) = length (T g) end.
Proof.
  intros. destruct m; auto; try reflexivity.
  change (T (apply_mut 0 g (MTrial i k))) with (upd_nth i (apply_tmut k) (T g)). apply length_upd_nth.
Qed.

Section Sound4.
Variable ps : progs.
Variable c : cfg.
Hypothesis HD : disciplined ps = true.

Record sat4 (g : gstate) (t : nat) (th : tstate) (a : astate) : Prop := {
  s4_spec : f_spec a = true -> a_spec (alg g) = true /\ a_win (alg g) = false;
  s4_specnone : f_specnone a = true -> holds LReg (a_locks a) = true /\ a_spec (alg g) = false;
  s4_rnp : g_rnp (gh2 th) = d_rnp a;
  s4_rnf : g_rnf (gh2 th) = d_rnf a;
  s4_np : g_np (gh2 th) = b2z (d_np a);
  s4_winlock : d_rnp a || d_rnf a = true -> holds LReg (a_locks a) = true
}.

Definition np_sum (ts : list tstate) : Z := sumz (fun th => g_np (gh2 th)) ts.
Definition in_window (th : tstate) : bool := g_rnp (gh2 th) || g_rnf (gh2 th).

Record GI4 (g : gstate) (ts : list tstate) : Prop := {
  g4_nset : a_nset (alg g) = if a_spec (alg g) then 1 else 0;
  g4_win1 : forall t th, nth_error ts t = Some th -> in_window th = true -> a_win (alg g) = true /\ a_spec (alg g) = true /\ holds_k th KReg;
  g4_win2 : a_win (alg g) = true -> exists t th, nth_error ts t = Some th /\ in_window th = true /\
              (g_rnf (gh2 th) = false -> a_nf (alg g) = 0) /\ (g_rnp (gh2 th) = false -> a_np (alg g) = 0);
  g4_empty : a_spec (alg g) = false \/ a_win (alg g) = true -> length (T g) = 0 /\ a_fed (alg g) = [] /\ np_sum ts = 0%Z;
  g4_zero : a_spec (alg g) = false -> a_np (alg g) = 0 /\ a_nf (alg g) = 0 /\ a_win (alg g) = false;
  g4_cnt : a_spec (alg g) = true -> a_win (alg g) = false ->
           a_nf (alg g) = length (a_fed (alg g)) /\ Z.of_nat (a_np (alg g)) = (Z.of_nat (length (T g)) + np_sum ts)%Z
}.

Definition thread_ok4 (g : gstate) (t : nat) (th : tstate) : Prop := exists a, cur_a ps th = Some a /\ sat4 g t th a.

Record Inv4 (g : gstate) (ts : list tstate) : Prop := { i4_gi : GI4 g ts; i4_th : forall t th, nth_error ts t = Some th -> thread_ok4 g t th }.

(* ---- frames ------------------------------------------------------------------------------------------------------------ *)
Lemma sat4_leq : forall g t th x y, leq x y = true -> sat4 g t th x -> sat4 g t th y.
Proof.
  intros g t th x y Hl Hs. unfold leq, debts_eqb in Hl. bool_hyps4.
  assert (Hlk : a_locks x = a_locks y) by (apply list_lockref_eqb_eq; assumption).
  assert (E1 : d_rnp x = d_rnp y) by assumption. assert (E2 : d_rnf x = d_rnf y) by assumption. assert (E3 : d_np x = d_np y) by assumption.
  assert (I1 : f_spec y = true -> f_spec x = true) by assumption. assert (I2 : f_specnone y = true -> f_specnone x = true) by assumption.
  destruct Hs. constructor; rewrite <- ?Hlk, <- ?E1, <- ?E2, <- ?E3; auto.
Qed.

Record same_a4 (a a' : astate) : Prop := {
  a4_locks : a_locks a' = a_locks a; a4_spec : f_spec a' = f_spec a; a4_specnone : f_specnone a' = f_specnone a;
  a4_rnp : d_rnp a' = d_rnp a; a4_rnf : d_rnf a' = d_rnf a; a4_np : d_np a' = d_np a }.

Lemma sat4_frame : forall g g' t th th' a a', same_a4 a a' -> a_spec (alg g') = a_spec (alg g) -> a_win (alg g') = a_win (alg g) ->
  gh2 th' = gh2 th -> sat4 g t th a -> sat4 g' t th' a'.
Proof.
  intros g g' t th th' a a' [] E1 E2 E3 []. constructor; rewrite ?a4_locks0, ?a4_spec0, ?a4_specnone0, ?a4_rnp0, ?a4_rnf0, ?a4_np0, ?E1, ?E2, ?E3; auto.
Qed.

Lemma same_a4_refl : forall a, same_a4 a a. Proof. constructor; reflexivity. Qed.

Lemma np_sum_same : forall ts t th th', nth_error ts t = Some th -> g_np (gh2 th') = g_np (gh2 th) -> np_sum (set_th ts t th') = np_sum ts.
Proof. intros. unfold np_sum. eapply sumz_same; eauto. Qed.

(* a step that leaves the algorithm's core, the number of trials and the stepping thread's algorithm ghost alone *)
Lemma GI4_generic : forall g g' ts t th th', core_same (alg g) (alg g') -> length (T g') = length (T g) ->
  nth_error ts t = Some th -> gh2 th' = gh2 th -> (in_window th = true -> holds_k th' KReg) ->
  GI4 g ts -> GI4 g' (set_th ts t th').
Proof.
  intros g g' ts t th th' [] HT Ht Hgh Hh [R1 R2 R3 R4 R5 R6].
  assert (Hold : forall t0 th0, nth_error (set_th ts t th') t0 = Some th0 ->
            exists th1, nth_error ts t0 = Some th1 /\ gh2 th0 = gh2 th1 /\ (in_window th1 = true -> holds_k th1 KReg -> holds_k th0 KReg)).
  { intros t0 th0 Hn. destruct (nth_set_cases2 _ _ _ _ _ _ Ht Hn) as [[? ?]|[? ?]]; subst; eauto 6. }
  assert (Hsum : np_sum (set_th ts t th') = np_sum ts) by (eapply np_sum_same; eauto; congruence).
  constructor; rewrite ?cs_spec0, ?cs_np0, ?cs_nf0, ?cs_fed0, ?cs_nset0, ?cs_win0, ?HT, ?Hsum; auto.
  - intros t0 th0 Hn Hw. destruct (Hold _ _ Hn) as [th1 [A [B C1]]]. unfold in_window in *. rewrite B in Hw.
    destruct (R2 _ _ A Hw) as [X [Y Z]]. repeat split; auto.
  - intros Hw. destruct (R3 Hw) as [t0 [th0 [A [B [C1 D]]]]]. destruct (Nat.eq_dec t0 t).
    + subst. rewrite Ht in A. inv A. exists t, th'. split. eapply nth_error_set_th_eq; eauto. unfold in_window in *. rewrite Hgh. auto.
    + exists t0, th0. split; auto. rewrite nth_error_set_th_neq; auto.
Qed.

(* ---- classification of the effects ------------------------------------------------------------------------------------ *)
Definition alg_special (e : effect) : bool :=
  match e with ESetSpec | EResetNP | EResetNF | EIncNP | EIncNF | EAppend => true | _ => false end.

Lemma T_fold_trial : forall g i k, T (fold_left (apply_mut 0) [MTrial i k] g) = upd_nth i (apply_tmut k) (T g).
Proof. reflexivity. Qed.

Lemma eff_generic : forall me e g th, r_study th = 0 -> alg_special e = false ->
  core_same (alg g) (alg (fold_left (apply_mut 0) (muts c me e g th) g)) /\
  length (T (fold_left (apply_mut 0) (muts c me e g th) g)) = length (T g) /\
  gh2 (regs c me e g th) = gh2 th /\ held (regs c me e g th) = held th.
Proof.
  intros me e g th Hst He. unfold muts, regs, study_of. rewrite Hst.
  destruct e; try discriminate; simpl;
    repeat destr_match; simpl; repeat split; try reflexivity; try (rewrite T_fold_trial; apply length_upd_nth);
    try (match goal with |- length (T (upd_study 0 (upd_trial ?i ?f) ?g0)) = _ => change (T (upd_study 0 (upd_trial i f) g0)) with (upd_nth i f (T g0)); apply length_upd_nth end).
Qed.

Lemma post_a4 : forall e a, alg_special e = false -> same_a4 a (post_eff e a).
Proof. intros e a He. destruct e; try discriminate; constructor; reflexivity. Qed.

Lemma post_br_a4 : forall cn v a, match cn with CSpecNone => True | _ => same_a4 a (post_br cn v a) end.
Proof. intros. destruct cn, v; auto; constructor; reflexivity. Qed.


(* ---- statements --------------------------------------------------------------------------------------------------------- *)
Definition others_stable4 (g g' : gstate) (ts : list tstate) (t : nat) : Prop :=
  forall t' th2 a2, t' <> t -> nth_error ts t' = Some th2 -> sat g t' th2 a2 -> sat4 g t' th2 a2 -> sat4 g' t' th2 a2.

Definition stmt_goal4 (g : gstate) (ts : list tstate) (t : nat) (g' : gstate) (th' : tstate) (a' : astate) : Prop :=
  sat4 g' t th' a' /\ (forall th'', gh2 th'' = gh2 th' -> held th'' = held th' -> GI4 g' (set_th ts t th'')) /\ others_stable4 g g' ts t.

Lemma others4_same : forall g g' ts t, a_spec (alg g') = a_spec (alg g) -> a_win (alg g') = a_win (alg g) -> others_stable4 g g' ts t.
Proof. red; intros. eapply sat4_frame; eauto. apply same_a4_refl. Qed.

Section OneStmt4.
Variables (g : gstate) (ts : list tstate) (t : nat) (th : tstate) (a : astate).
Hypothesis HI : Inv ps c g ts.
Hypothesis HG4 : GI4 g ts.
Hypothesis Ht : nth_error ts t = Some th.
Hypothesis Hs : sat g t th a.
Hypothesis Hs4 : sat4 g t th a.

Lemma other4_reg_contra : forall t' th2 a2, t' <> t -> nth_error ts t' = Some th2 -> sat g t' th2 a2 ->
  holds LReg (a_locks a) = true -> holds LReg (a_locks a2) = true -> False.
Proof.
  intros. apply H. eapply LockInv_mutex with (k := KReg); eauto. apply (inv_lock _ _ _ _ HI).
  eapply sat_holds_reg; eauto. eapply sat_holds_reg; eauto.
Qed.

Lemma window_unique : forall t0 th0, nth_error ts t0 = Some th0 -> in_window th0 = true -> holds LReg (a_locks a) = true -> t0 = t.
Proof.
  intros t0 th0 Hn Hw HR. destruct (g4_win1 _ _ HG4 _ _ Hn Hw) as [_ [_ Hk]].
  eapply LockInv_mutex with (k := KReg); eauto. apply (inv_lock _ _ _ _ HI). eapply sat_holds_reg; eauto.
Qed.

Ltac start4 Hre g' th' Hsem Hst0 :=
  intros Hre g' th' Hsem; pose proof (s_study _ _ _ _ Hs) as Hst0; simpl in Hre;
  unfold sem, muts, regs, study_of in Hsem; rewrite Hst0 in Hsem; injection Hsem as Eg Eth; subst g' th'.

(* others are not disturbed when the stepping thread is inside the setup window or opens it: their facts contradict the state *)
Lemma others4_window : forall g', holds LReg (a_locks a) = true ->
  (a_spec (alg g) = false \/ a_win (alg g) = true) -> a_spec (alg g') = true -> others_stable4 g g' ts t.
Proof.
  intros g' HR Hst Hsp. red. intros t' th2 a2 Hne Hn Hs1 [X1 X2 X3 X4 X5 X6]. constructor; auto.
  - intros Hf. exfalso. destruct (X1 Hf). destruct Hst; congruence.
  - intros Hf. exfalso. destruct (X2 Hf). eapply other4_reg_contra; eauto.
Qed.

Lemma stmt4_ESetSpec : req_eff ESetSpec a = true ->
  forall g' th', sem c t ESetSpec g th = (g', th') -> stmt_goal4 g ts t g' th' (post_eff ESetSpec a).
Proof.
  start4 Hre g' th' Hsem Hst0. bool_hyps4.
  assert (HR : holds LReg (a_locks a) = true) by assumption.
  match goal with Hn : f_specnone a = true |- _ => destruct (s4_specnone _ _ _ _ Hs4 Hn) as [_ Hsp] end.
  destruct HG4 as [R1 R2 R3 R4 R5 R6]. destruct (R5 Hsp) as [Z1 [Z2 Z3]]. destruct (R4 (or_introl Hsp)) as [E1 [E2 E3]].
  rewrite Hsp in R1. simpl.
  split; [|split].
  - destruct Hs4. constructor; simpl; auto; try discriminate.
  - intros th'' Hg2 Hhd.
    assert (Hnw : forall t0 th0, nth_error ts t0 = Some th0 -> in_window th0 = false).
    { intros t0 th0 Hn. destruct (in_window th0) eqn:E; auto. destruct (R2 _ _ Hn E) as [_ [A _]]. congruence. }
    constructor; simpl; auto; try (rewrite R1; reflexivity); try discriminate.
    + intros t0 th0 Hn Hw. destruct (nth_set_cases2 _ _ _ _ _ _ Ht Hn) as [[? ?]|[? ?]]; subst.
      * repeat split; auto. unfold holds_k. rewrite Hhd. simpl. eapply sat_holds_reg; eauto.
      * match goal with Hn0 : nth_error ts t0 = Some th0 |- _ => rewrite (Hnw _ _ Hn0) in Hw end. discriminate.
    + intros _. exists t, th''. split. eapply nth_error_set_th_eq; eauto. unfold in_window. rewrite Hg2. simpl. repeat split; auto; discriminate.
    + intros _. repeat split; auto. unfold np_sum in *. erewrite sumz_same; eauto. rewrite Hg2. reflexivity.
  - apply others4_window; auto.
Qed.

Lemma stmt4_reset : forall (which : bool) (* true: EResetNP, false: EResetNF *),
  req_eff (if which then EResetNP else EResetNF) a = true ->
  forall g' th', sem c t (if which then EResetNP else EResetNF) g th = (g', th') ->
  stmt_goal4 g ts t g' th' (post_eff (if which then EResetNP else EResetNF) a).
Proof.
  intros which Hre g' th' Hsem. pose proof (s_study _ _ _ _ Hs) as Hst0.
  assert (HR : holds LReg (a_locks a) = true) by (destruct which; simpl in Hre; bool_hyps4; assumption).
  assert (Hmine : in_window th = true).
  { unfold in_window. rewrite (s4_rnp _ _ _ _ Hs4), (s4_rnf _ _ _ _ Hs4). destruct which; simpl in Hre; bool_hyps4.
    - match goal with H : d_rnp a = true |- _ => rewrite H end. reflexivity.
    - match goal with H : d_rnf a = true |- _ => rewrite H end. apply orb_true_r. }
  destruct HG4 as [R1 R2 R3 R4 R5 R6]. destruct (R2 _ _ Ht Hmine) as [Hwin [Hsp Hk]].
  destruct (R4 (or_intror Hwin)) as [E1 [E2 E3]].
  destruct (R3 Hwin) as [t0 [th0 [W1 [W2 [W3 W4]]]]].
  assert (t0 = t) by (eapply window_unique; eauto). subst t0. rewrite Ht in W1. injection W1 as Eth0. subst th0.
  assert (Hoth : forall t1 th1, t1 <> t -> nth_error ts t1 = Some th1 -> in_window th1 = false).
  { intros t1 th1 Hne Hn. destruct (in_window th1) eqn:E; auto. exfalso. apply Hne. eapply window_unique; eauto. }
  unfold sem, muts, regs, study_of in Hsem. rewrite Hst0 in Hsem.
  pose proof (s4_rnp _ _ _ _ Hs4) as Hrnp. pose proof (s4_rnf _ _ _ _ Hs4) as Hrnf.
  destruct which; simpl in Hre; bool_hyps4; injection Hsem as Eg Eth; subst g' th'; simpl; rewrite Hwin; simpl.
  - (* _num_proposals = 0 *)
    match goal with H : d_rnp a = true |- _ => rename H into Hd end.
    split; [|split].
    + destruct Hs4. constructor; simpl; auto;
        try (intros Hf; exfalso; destruct (s4_specnone0 Hf); congruence);
        try (intros Hf; bool_hyps4; split; auto; rewrite Hrnf; match goal with H : d_rnf a = false |- _ => rewrite H end; reflexivity).
    + intros th'' Hg2 Hhd. constructor; simpl; auto.
      * intros t1 th1 Hn Hw. destruct (nth_set_cases2 _ _ _ _ _ _ Ht Hn) as [[? ?]|[? ?]]; subst.
        -- unfold in_window in Hw. rewrite Hg2 in Hw. simpl in Hw. rewrite Hw. repeat split; auto. unfold holds_k. rewrite Hhd. simpl. auto.
        -- match goal with Hn1 : nth_error ts t1 = Some th1, Hne : t1 <> t |- _ => rewrite (Hoth _ _ Hne Hn1) in Hw end. discriminate.
      * intros Hw. exists t, th''. split. eapply nth_error_set_th_eq; eauto. unfold in_window. rewrite Hg2. simpl. repeat split; auto.
      * intros _. repeat split; auto. unfold np_sum in *. erewrite sumz_same; eauto. rewrite Hg2. reflexivity.
      * intros Hx. congruence.
      * intros _ Hw. assert (Hf : g_rnf (gh2 th) = false) by (destruct (g_rnf (gh2 th)); auto; discriminate).
        split. rewrite (W3 Hf), E2. reflexivity. unfold T in *. simpl. rewrite E1. rewrite (np_sum_same ts t th th'' Ht) by (rewrite Hg2; reflexivity). rewrite E3. reflexivity.
    + apply others4_window; auto.
  - (* _num_feedbacks = 0 *)
    match goal with H : d_rnf a = true |- _ => rename H into Hd end.
    split; [|split].
    + destruct Hs4. constructor; simpl; auto;
        try (intros Hf; exfalso; destruct (s4_specnone0 Hf); congruence);
        try (intros Hf; bool_hyps4; split; auto; rewrite Hrnp; match goal with H : d_rnp a = false |- _ => rewrite H end; reflexivity);
        try (intros Hf; rewrite orb_false_r in Hf; apply s4_winlock0; rewrite Hf; reflexivity).
    + intros th'' Hg2 Hhd. constructor; simpl; auto.
      * intros t1 th1 Hn Hw. destruct (nth_set_cases2 _ _ _ _ _ _ Ht Hn) as [[? ?]|[? ?]]; subst.
        -- unfold in_window in Hw. rewrite Hg2 in Hw. simpl in Hw. rewrite orb_false_r in Hw. rewrite Hw. repeat split; auto. unfold holds_k. rewrite Hhd. simpl. auto.
        -- match goal with Hn1 : nth_error ts t1 = Some th1, Hne : t1 <> t |- _ => rewrite (Hoth _ _ Hne Hn1) in Hw end. discriminate.
      * intros Hw. exists t, th''. split. eapply nth_error_set_th_eq; eauto. unfold in_window. rewrite Hg2. simpl. rewrite orb_false_r. repeat split; auto.
      * intros _. repeat split; auto. unfold np_sum in *. erewrite sumz_same; eauto. rewrite Hg2. reflexivity.
      * intros Hx. congruence.
      * intros _ Hw. assert (Hf : g_rnp (gh2 th) = false) by (destruct (g_rnp (gh2 th)); auto; discriminate).
        split. rewrite E2. reflexivity. rewrite (W4 Hf). unfold T in *. simpl. rewrite E1. rewrite (np_sum_same ts t th th'' Ht) by (rewrite Hg2; reflexivity). rewrite E3. reflexivity.
    + apply others4_window; auto.
Qed.


Lemma np_sum_set : forall th'', np_sum (set_th ts t th'') = (np_sum ts - g_np (gh2 th) + g_np (gh2 th''))%Z.
Proof. intros. unfold np_sum. erewrite sumz_set_th; eauto. Qed.

(* the stepping thread is past the setup (f_spec): nobody is in the window, the counters are related *)
Lemma GI4_counting : forall g' th'' dnp dnf dT dfed,
  f_spec a = true ->
  a_spec (alg g') = a_spec (alg g) -> a_win (alg g') = a_win (alg g) -> a_nset (alg g') = a_nset (alg g) ->
  a_nf (alg g') = a_nf (alg g) + dnf -> length (a_fed (alg g')) = length (a_fed (alg g)) + dnf ->
  a_np (alg g') = a_np (alg g) + dnp -> length (T g') = length (T g) + dT ->
  (dfed = true -> True) ->
  g_rnp (gh2 th'') = g_rnp (gh2 th) -> g_rnf (gh2 th'') = g_rnf (gh2 th) ->
  (g_np (gh2 th'') = g_np (gh2 th) + Z.of_nat dnp - Z.of_nat dT)%Z -> held th'' = held th ->
  GI4 g' (set_th ts t th'').
Proof.
  intros g' th'' dnp dnf dT dfed Hfs E1 E2 E3 E4 E5 E6 E7 _ G1 G2 G3 Hhd.
  destruct (s4_spec _ _ _ _ Hs4 Hfs) as [Hsp Hnw]. destruct HG4 as [R1 R2 R3 R4 R5 R6].
  destruct (R6 Hsp Hnw) as [C1 C2].
  constructor; rewrite ?E1, ?E2, ?E3; auto.
  - intros t0 th0 Hn Hw. exfalso.
    assert (Hw0 : exists th1, nth_error ts t0 = Some th1 /\ in_window th1 = true).
    { destruct (nth_set_cases2 _ _ _ _ _ _ Ht Hn) as [[? ?]|[? ?]]; subst.
      - exists th. split; auto. unfold in_window in *. rewrite G1, G2 in Hw. auto.
      - eauto. }
    destruct Hw0 as [th1 [A B]]. destruct (R2 _ _ A B) as [X _]. congruence.
  - intros Hx. congruence.
  - intros [Hx | Hx]; congruence.
  - intros Hx. congruence.
  - intros _ _. split. rewrite E4, C1. lia. rewrite E6, E7, np_sum_set, G3. lia.
Qed.

Lemma stmt4_EIncNP : req_eff EIncNP a = true ->
  forall g' th', sem c t EIncNP g th = (g', th') -> stmt_goal4 g ts t g' th' (post_eff EIncNP a).
Proof.
  start4 Hre g' th' Hsem Hst0. bool_hyps4. simpl.
  assert (Hfs : f_spec a = true) by assumption. assert (Hdn : d_np a = false) by assumption.
  split; [|split].
  - destruct Hs4. constructor; simpl; auto. rewrite s4_np0, Hdn. reflexivity.
  - intros th'' Hg2 Hhd. eapply (GI4_counting _ th'' 1 0 0 false); auto; simpl; rewrite ?Hg2; simpl; try lia; try reflexivity.
  - apply others4_same; reflexivity.
Qed.

Lemma stmt4_EIncNF : req_eff EIncNF a = true ->
  forall g' th', sem c t EIncNF g th = (g', th') -> stmt_goal4 g ts t g' th' (post_eff EIncNF a).
Proof.
  intros Hre g' th' Hsem. pose proof (s_study _ _ _ _ Hs) as Hst0. simpl in Hre. bool_hyps4.
  assert (Hfs : f_spec a = true) by assumption.
  match goal with H : inf_is _ _ = true |- _ => apply inf_is_true in H; destruct (s_kinf _ _ _ _ Hs _ H) as [i [x [A [B [C1 [D [E F]]]]]]] end.
  unfold sem, muts, regs, study_of in Hsem. rewrite Hst0, A in Hsem. unfold otrial in Hsem. fold (T g) in Hsem. rewrite C1 in Hsem.
  injection Hsem as Eg Eth; subst g' th'. simpl.
  split; [|split].
  - eapply sat4_frame; [| | | | exact Hs4]; try reflexivity. constructor; reflexivity.
  - intros th'' Hg2 Hhd. eapply (GI4_counting _ th'' 0 1 0 true); auto; simpl; rewrite ?Hg2; simpl; try lia; try reflexivity.
    + rewrite app_length. simpl. lia.
    + change (length (upd_nth i (apply_tmut TFed) (T g)) = length (T g) + 0). rewrite length_upd_nth. lia.
  - apply others4_same; reflexivity.
Qed.

Lemma stmt4_EAppend : req_eff EAppend a = true ->
  forall g' th', sem c t EAppend g th = (g', th') -> stmt_goal4 g ts t g' th' (post_eff EAppend a).
Proof.
  start4 Hre g' th' Hsem Hst0. bool_hyps4. simpl.
  assert (Hfs : f_spec a = true) by assumption. assert (Hdn : d_np a = true) by assumption.
  split; [|split].
  - destruct Hs4. constructor; simpl; auto. rewrite s4_np0, Hdn. reflexivity.
  - intros th'' Hg2 Hhd. eapply (GI4_counting _ th'' 0 0 1 false); auto; simpl; rewrite ?Hg2; simpl; try lia; try reflexivity.
    unfold T. simpl. rewrite app_length. reflexivity.
  - apply others4_same; reflexivity.
Qed.

End OneStmt4.


Lemma stmt_sound4 : forall ini e rd wr a g ts t th,
  Inv ps c g ts -> Inv4 g ts -> nth_error ts t = Some th -> sat g t th a -> sat4 g t th a -> req ini (Stmt rd wr e) a = true ->
  forall g' th', sem c t e g th = (g', th') -> stmt_goal4 g ts t g' th' (post_eff e a).
Proof.
  intros ini e rd wr a g ts t th HI [HG4 HT4] Ht Hs Hs4 Hreq g' th' Hsem.
  pose proof (s_study _ _ _ _ Hs) as Hst0. destruct (req_stmt _ _ _ _ _ Hreq) as [Hok [Hwg [Hre Hfp]]].
  destruct (alg_special e) eqn:Esp.
  - destruct e; try discriminate.
    + eapply stmt4_EAppend; eauto.
    + eapply stmt4_ESetSpec; eauto.
    + eapply (stmt4_reset g ts t th a HI HG4 Ht Hs Hs4 true); eauto.
    + eapply (stmt4_reset g ts t th a HI HG4 Ht Hs Hs4 false); eauto.
    + eapply stmt4_EIncNP; eauto.
    + eapply stmt4_EIncNF; eauto.
  - destruct (eff_generic t e g th Hst0 Esp) as [Hc [Hl [Hg2 Hh]]].
    unfold sem in Hsem. rewrite Hst0 in Hsem. injection Hsem as Eg Eth. subst g' th'.
    destruct Hc. split; [|split].
    + eapply (sat4_frame g _ t th); [apply post_a4; auto | auto | auto | exact Hg2 | exact Hs4].
    + intros th'' E1 E2. eapply (GI4_generic g); eauto. constructor; auto. congruence.
      intros Hw. destruct (g4_win1 _ _ HG4 _ _ Ht Hw) as [_ [_ Hk]]. unfold holds_k in *. rewrite E2, Hh. auto.
    + apply others4_same; auto.
Qed.


(* ---- the other acts ------------------------------------------------------------------------------------------------------- *)
Lemma sat4_a0 : forall g t th a, sat4 g t th a -> no_debt a = true -> sat4 g t th a0.
Proof.
  intros g t th a [] Hd. unfold no_debt in Hd. bool_hyps4.
  assert (E1 : d_rnp a = false) by assumption. assert (E2 : d_rnf a = false) by assumption. assert (E3 : d_np a = false) by assumption.
  rewrite E1, E2, E3 in *. constructor; simpl; auto; discriminate.
Qed.

Lemma sat4_a0e : forall g t th a, sat4 g t th a -> no_debt a = true -> f_spec a = true -> sat4 g t th (a0e false).
Proof.
  intros g t th a Hs Hd Hf. pose proof (s4_spec _ _ _ _ Hs Hf) as Hsp. destruct (sat4_a0 _ _ _ _ Hs Hd). constructor; simpl; auto; discriminate.
Qed.

Lemma entry_not_init : forall u, is_init (entry_of u) = false.
Proof. destruct u; reflexivity. Qed.

Lemma to_script_pc4 : forall au ra th, pc (to_script au ra th) = None \/ exists p, pc (to_script au ra th) = Some (p, 0) /\ is_init p = false.
Proof. intros. unfold to_script. destruct (next_call _ _ _) as [[u r]|]; simpl; eauto using entry_not_init. Qed.

Lemma thread_ok4_script : forall g t th th' a, sat4 g t th a -> no_debt a = true -> f_spec a = true -> gh2 th' = gh2 th ->
  (pc th' = None \/ exists p, pc th' = Some (p, 0) /\ is_init p = false) -> thread_ok4 g t th'.
Proof.
  intros g t th th' a Hs Hd Hf Hg Hpc. unfold thread_ok4, cur_a. destruct Hpc as [Hpc | [p [Hpc Hi]]]; rewrite Hpc.
  - exists a0. split; auto. eapply (sat4_frame g _ t th); [apply same_a4_refl | reflexivity | reflexivity | exact Hg | eapply sat4_a0; eauto].
  - destruct (entry_ann ps HD p (r_ret th')) as [x [A B]]. rewrite Hi in B. exists x. split; auto. eapply sat4_leq; eauto.
    eapply (sat4_frame g _ t th); [apply same_a4_refl | reflexivity | reflexivity | exact Hg | eapply sat4_a0e; eauto].
Qed.

Lemma thread_ok4_finished : forall g t th th' a, sat4 g t th a -> no_debt a = true -> gh2 th' = gh2 th -> pc th' = None -> thread_ok4 g t th'.
Proof.
  intros g t th th' a Hs Hd Hg Hpc. unfold thread_ok4, cur_a. rewrite Hpc. exists a0. split; auto.
  eapply (sat4_frame g _ t th); [apply same_a4_refl | reflexivity | reflexivity | exact Hg | eapply sat4_a0; eauto].
Qed.

Lemma thread_ok4_at : forall g' t th' p j a' a'', pc th' = Some (p, j) -> an_get (ann ps p) j (r_ret th') = Some a'' -> leq a' a'' = true ->
  sat4 g' t th' a' -> thread_ok4 g' t th'.
Proof. intros. exists a''. split. unfold cur_a. rewrite H. auto. eapply sat4_leq; eauto. Qed.

Lemma Inv4_assemble : forall g ts t th g' th', nth_error ts t = Some th ->
  Inv ps c g ts -> Inv4 g ts -> GI4 g' (set_th ts t th') -> thread_ok4 g' t th' -> others_stable4 g g' ts t -> Inv4 g' (set_th ts t th').
Proof.
  intros g ts t th g' th' Ht HI [HG4 HT4] HG Hok Hoth. constructor; auto.
  intros t0 th0 Hn. destruct (Nat.eq_dec t t0).
  - subst. erewrite nth_error_set_th_eq in Hn; eauto. inv Hn. auto.
  - rewrite nth_error_set_th_neq in Hn; auto.
    destruct (HT4 _ _ Hn) as [a2 [A B]]. destruct (inv_th _ _ _ _ HI _ _ Hn) as [a1 [A1 B1]]. rewrite A in A1. inv A1.
    exists a1. split; auto.
Qed.

Lemma GI4_same : forall g ts t th th', GI4 g ts -> nth_error ts t = Some th -> gh2 th' = gh2 th -> held th' = held th -> GI4 g (set_th ts t th').
Proof. intros. eapply (GI4_generic g); eauto. apply core_same_refl. intros Hw. destruct (g4_win1 _ _ H _ _ H0 Hw) as [_ [_ Hk]]. unfold holds_k in *. congruence. Qed.

Lemma to_script_gh2 : forall au ra th, gh2 (to_script au ra th) = gh2 th /\ held (to_script au ra th) = held th.
Proof. intros. unfold to_script. destruct (next_call _ _ _) as [[u r]|]; split; reflexivity. Qed.

Theorem Inv4_step : forall g ts t g' ts', Inv ps c g ts -> Inv4 g ts -> step1 ps c g ts t = Some (g', ts') -> Inv4 g' ts'.
Proof.
  intros g ts t g' ts' HI HI4 Hstep.
  destruct (step1_inv _ _ _ _ _ _ _ Hstep) as [th [p [i [Ht [Hpc Hcase]]]]].
  destruct (inv_th _ _ _ _ HI _ _ Ht) as [a [Hcur Hs]]. unfold cur_a in Hcur. rewrite Hpc in Hcur.
  destruct (i4_th _ _ HI4 _ _ Ht) as [a2 [Hcur2 Hs4]]. unfold cur_a in Hcur2. rewrite Hpc, Hcur in Hcur2. inv Hcur2.
  pose proof (i4_gi _ _ HI4) as HG4. pose proof (s_study _ _ _ _ Hs) as Hst0.
  destruct Hcase as [[Hf [Hg Hts]] | [gate [x [th' [Hf [Hact Hts]]]]]].
  - subst g' ts'. rewrite (fetch_nth ps) in Hf. destruct (check_end ps HD _ _ _ _ Hcur Hf) as [Hok [Hlk [Hnd Hfs]]].
    destruct (to_script_gh2 (auto_reward c g p th) false th) as [E1 E2].
    eapply Inv4_assemble; eauto.
    + eapply GI4_same; eauto.
    + eapply thread_ok4_script; eauto. apply to_script_pc4.
    + apply others4_same; reflexivity.
  - subst ts'. rewrite (fetch_nth ps) in Hf. destruct (check_succ ps HD _ _ _ _ _ _ Hcur Hf) as [Hreq Hsucc].
    destruct x; simpl in Hact.
    + (* Acquire *)
      destruct (locks g (phys l g th)) eqn:El; try discriminate. injection Hact as Eg Eth; subst g' th'.
      destruct (Hsucc (S i) (r_ret th) (with_locks (l :: a_locks a2) a2)) as [a'' [A B]]; [simpl; auto|].
      eapply Inv4_assemble; eauto.
      * eapply (GI4_generic g); eauto. apply core_same_refl.
        intros Hw. destruct (g4_win1 _ _ HG4 _ _ Ht Hw) as [_ [_ Hk]]. unfold holds_k in *. simpl. auto.
      * eapply thread_ok4_at with (a' := with_locks (l :: a_locks a2) a2); simpl; eauto.
        destruct Hs4. constructor; simpl; auto.
        -- intros Hx. bool_hyps4. match goal with X : f_specnone a2 = true |- _ => destruct (s4_specnone0 X) end. split; auto.
        -- intros Hx. specialize (s4_winlock0 Hx). unfold holds in *. simpl. rewrite s4_winlock0. apply orb_true_r.
      * apply others4_same; reflexivity.
    + (* Release *)
      unfold req in Hreq. bool_hyps4.
      destruct (a_locks a2) as [|l' rest] eqn:Elk; try discriminate. bool_hyps4.
      match goal with H : lockref_eqb l l' = true |- _ => apply lockref_eqb_eq in H; subst l' end.
      destruct (held th) as [|[l0 k] h] eqn:Eh.
      { pose proof (s_locks _ _ _ _ Hs) as Hm. rewrite Eh, Elk in Hm. discriminate. }
      injection Hact as Eg Eth; subst g' th'.
      assert (El0 : l0 = l). { pose proof (s_locks _ _ _ _ Hs) as Hm. rewrite Eh, Elk in Hm. simpl in Hm. congruence. }
      subst l0.
      destruct (Hsucc (S i) (r_ret th) (with_locks (tl (a_locks a2)) a2)) as [a'' [A B]]; [simpl; auto|].
      assert (Hnw : l = LReg -> d_rnp a2 || d_rnf a2 = false).
      { intros; subst. bool_hyps4. match goal with X : d_rnp a2 = false, Y : d_rnf a2 = false |- _ => rewrite X, Y end. reflexivity. }
      eapply Inv4_assemble; eauto.
      * eapply (GI4_generic g); eauto. apply core_same_refl.
        intros Hw. destruct (g4_win1 _ _ HG4 _ _ Ht Hw) as [_ [_ Hk]]. unfold holds_k in *. rewrite Eh in Hk. simpl in Hk. simpl.
        destruct Hk as [Hk | Hk]; auto. exfalso. subst k.
        pose proof (s_phys _ _ _ _ Hs l KReg) as Hp. rewrite Eh in Hp. specialize (Hp (or_introl eq_refl)).
        destruct l; try discriminate; try (destruct Hp; discriminate).
        unfold in_window in Hw. rewrite (s4_rnp _ _ _ _ Hs4), (s4_rnf _ _ _ _ Hs4), (Hnw eq_refl) in Hw. discriminate.
      * eapply thread_ok4_at with (a' := with_locks (tl (a_locks a2)) a2); simpl; eauto.
        destruct Hs4. rewrite Elk in *. constructor; simpl; auto.
        -- intros Hx. bool_hyps4. match goal with X : f_specnone a2 = true |- _ => destruct (s4_specnone0 X) end. split; auto.
        -- intros Hx. specialize (s4_winlock0 Hx). unfold holds in *. simpl in s4_winlock0. apply orb_true_iff in s4_winlock0. destruct s4_winlock0; auto.
           destruct l; try discriminate. rewrite (Hnw eq_refl) in Hx. discriminate.
      * apply others4_same; reflexivity.
    + (* Stmt *)
      destruct (sem c t e g th) as [g1 th1] eqn:Esem.
      destruct (stmt_sound4 _ e rd wr a2 g ts t th HI HI4 Ht Hs Hs4 Hreq g1 th1 Esem) as [S1 [S2 S3]].
      assert (Hret : exists b' a', In (S i, b', a') (succs i (r_ret th) a2 (Stmt rd wr e)) /\ r_ret th1 = b' /\ sat4 g1 t th1 a').
      { pose proof (regs_ret c t e g th) as Hr.
        assert (Eth : th1 = regs c t e g th) by (unfold sem in Esem; inv Esem; reflexivity).
        rewrite <- Eth in Hr.
        destruct e; simpl succs; simpl post_eff in S1;
          try (exists (r_ret th); eexists; split; [left; reflexivity | split; [exact Hr | exact S1]]).
        - exists b; eexists; split; [left; reflexivity | split; [|exact S1]]. rewrite Eth. reflexivity.
        - destruct (r_ret th1) eqn:Er.
          + exists true; eexists; split; [left; reflexivity | split; [reflexivity | exact S1]].
          + exists false; eexists; split; [right; left; reflexivity | split; [reflexivity | exact S1]]. }
      destruct Hret as [b' [a' [Hin [Hb Hsa]]]].
      destruct (Hsucc _ _ _ Hin) as [a'' [A B]].
      unfold sem in Esem. injection Esem as Eg1 Eth1. subst g1 th1. injection Hact as Eg' Eth'. subst g' th'.
      eapply (Inv4_assemble g ts t th); [exact Ht | exact HI | exact HI4 | apply S2; reflexivity | | exact S3].
      eapply thread_ok4_at with (a' := a'); [simpl; reflexivity | simpl; rewrite Hb; exact A | exact B |].
      eapply (sat4_frame _ _ t (regs c t e g th)); [apply same_a4_refl | reflexivity | reflexivity | reflexivity | exact Hsa].
    + (* Branch *)
      injection Hact as Eg' Eth'. subst g' th'.
      destruct (branch_sound ps c HD _ c0 rd off a2 g ts t th (inv_lock _ _ _ _ HI) (inv_gi _ _ _ _ HI) Ht Hs Hreq) as [B1 _].
      set (b := evalc c c0 g th) in *.
      assert (Hin : In ((if b then S i else S i + off), r_ret th, post_br c0 b a2) (succs i (r_ret th) a2 (Branch rd c0 off))).
      { simpl. destruct (static_cond (r_ret th) a2 c0) as [[|]|] eqn:Est; destruct b; simpl in *; auto; exfalso; apply B1; reflexivity. }
      destruct (Hsucc _ _ _ Hin) as [a'' [A B]].
      assert (Hnb : r_ret (note_branch c0 b th) = r_ret th /\ gh2 (note_branch c0 b th) = gh2 th /\ held (note_branch c0 b th) = held th) by (destruct c0, b; repeat split; reflexivity).
      destruct Hnb as [N1 [N2 N3]].
      assert (Hnf : core_same (alg g) (alg (note_full c0 b g th)) /\ length (T (note_full c0 b g th)) = length (T g)).
      { destruct c0, b; simpl; rewrite ?Hst0; split; try apply core_same_refl; reflexivity. }
      destruct Hnf as [F1 F2].
      eapply Inv4_assemble; eauto.
      * eapply (GI4_generic g); eauto.
        intros Hw. destruct (g4_win1 _ _ HG4 _ _ Ht Hw) as [_ [_ Hk]]. unfold holds_k in *. simpl. rewrite N3. auto.
      * eapply thread_ok4_at with (a' := post_br c0 b a2); simpl; eauto. rewrite N1. eauto.
        destruct F1.
        assert (Hplain : same_a4 a2 (post_br c0 b a2) -> sat4 (note_full c0 b g th) t (th_pc (Some (p, if b then S i else S i + off)) (note_branch c0 b th)) (post_br c0 b a2)).
        { intros Hsa. eapply (sat4_frame g _ t th); [exact Hsa | auto | auto | simpl; exact N2 | exact Hs4]. }
        pose proof (post_br_a4 c0 b a2) as Hpa.
        destruct c0; try (apply Hplain; exact Hpa).
        (* CSpecNone *)
        clear Hplain Hpa. simpl note_full in *. simpl note_branch in *.
        assert (Hev : b = negb (a_spec (alg g))) by reflexivity.
        destruct Hs4. destruct b; simpl post_br; constructor; simpl; auto; try discriminate.
        -- intros Hx. split; auto. destruct (a_spec (alg g)); auto; discriminate.
        -- intros Hx. apply orb_true_iff in Hx. destruct Hx as [Hx | Hx]; auto. bool_hyps4.
           split. destruct (a_spec (alg g)); auto; discriminate.
           destruct (a_win (alg g)) eqn:Ew; auto. exfalso.
           destruct (g4_win2 _ _ HG4 Ew) as [t0 [th0 [W1 [W2 _]]]].
           assert (t0 = t). { destruct (g4_win1 _ _ HG4 _ _ W1 W2) as [_ [_ Hk]]. eapply LockInv_mutex with (k := KReg); eauto. apply (inv_lock _ _ _ _ HI). eapply sat_holds_reg; eauto. }
           subst. rewrite Ht in W1. injection W1 as E0. subst th0. unfold in_window in W2. rewrite s4_rnp0, s4_rnf0 in W2.
           match goal with X : d_rnp a2 = false, Y : d_rnf a2 = false |- _ => rewrite X, Y in W2 end. discriminate.
      * destruct F1. apply others4_same; auto.
    + (* Jump *)
      injection Hact as Eg' Eth'. subst g' th'. destruct (Hsucc (S i + off) (r_ret th) a2) as [a'' [A B]]; [simpl; auto|].
      eapply Inv4_assemble; eauto.
      * eapply GI4_same; eauto.
      * eapply thread_ok4_at with (a' := a2); simpl; eauto. eapply (sat4_frame g _ t th); [apply same_a4_refl | reflexivity | reflexivity | reflexivity | exact Hs4].
      * apply others4_same; reflexivity.
    + (* Throw *)
      unfold req in Hreq. bool_hyps4. destruct (a_locks a2) eqn:Elk; try discriminate. bool_hyps4.
      assert (Hnd : no_debt a2 = true) by assumption.
      assert (Hfin : g' = g -> th' = th_pc None th -> Inv4 g' (set_th ts t th')).
      { intros; subst. eapply Inv4_assemble; eauto.
        - eapply GI4_same; eauto.
        - eapply thread_ok4_finished; eauto.
        - apply others4_same; reflexivity. }
      assert (Hscr : f_spec a2 = true -> g' = g -> th' = to_script None true th -> Inv4 g' (set_th ts t th')).
      { intros Hfs ? ?; subst. destruct (to_script_gh2 None true th) as [E1 E2]. eapply Inv4_assemble; eauto.
        - eapply GI4_same; eauto.
        - eapply thread_ok4_script; eauto. apply to_script_pc4.
        - apply others4_same; reflexivity. }
      assert (Hii : Nat.eqb p P_init = is_init p) by reflexivity.
      destruct k; try destruct (Nat.eqb p P_init) eqn:Ep; injection Hact as Eg Eth; auto;
        apply Hscr; auto; rewrite <- Hii in *; match goal with X : false || f_spec a2 = true |- _ => simpl in X; exact X end.
    + (* Done *)
      unfold req in Hreq. bool_hyps4. destruct (a_locks a2) eqn:Elk; try discriminate. bool_hyps4.
      injection Hact as Eg Eth; subst g' th'. destruct (to_script_gh2 (auto_reward c g p th) false th) as [E1 E2].
      eapply Inv4_assemble; eauto.
      * eapply GI4_same; eauto.
      * eapply thread_ok4_script; eauto. apply to_script_pc4.
      * apply others4_same; reflexivity.
Qed.

End Sound4.

(* BindingUnbind.v — binding and un-binding steps after construction (bind on any route, with or without
   notification; del f.k; rebind(k=MISSING_VALUE)): the functor still binds the effective arguments and
   reports the supplied names and values. *)
From PG Require Import Common.Tactics Model.Binding Proofs.BindingMaps Proofs.BindingProofs Proofs.BindingReport Proofs.BindingNotify.
From Coq Require Import NArith.
Local Open Scope N_scope.

Definition step_name (u : lstep) : name := match u with LSet k _ _ => k | LUnbind k _ _ => k end.
(* the names of binding steps are acceptable; un-binding steps name a parameter, *args, or any key when
   the function has **kwargs (del of a key that is not there is a KeyError, like del of a missing attribute) *)
Definition step_ok (s : sig) (u : lstep) : Prop :=
  accepts_key s (step_name u) = true /\ match u with LUnbind k true _ => is_field s k = true | _ => True end.
Definition steps_ok (s : sig) (steps : list lstep) : Prop := Forall (step_ok s) steps.

Lemma default_of_va : forall s k, wf_sig s -> is_va s k = true -> default_of s k = None.
Proof.
  intros s k W V. unfold default_of. rewrite find_not_in; [reflexivity|].
  intros I. apply is_param_in in I. rewrite (va_not_param s k W V) in I. discriminate.
Qed.
Lemma default_of_nonparam' : forall s k, is_param s k = false -> default_of s k = None.
Proof.
  intros s k P. unfold default_of. rewrite find_not_in; [reflexivity|].
  intros I. apply is_param_in in I. congruence.
Qed.

Lemma unsupply_ok : forall s e k, eff_ok s e -> eff_ok s (unsupply s e k).
Proof.
  intros s e k OK. unfold unsupply. destruct (is_va s k) eqn:V; constructor; simpl; try apply OK.
  - intros HV. reflexivity.
  - apply ksorted_kdel; apply OK.
  - intros k' V'. rewrite kmem_kdel, (eo_nova s e OK k' V'). apply andb_false_r.
Qed.

Lemma unbind_one_rel : forall s st e k hd n, wf_sig s -> eff_ok s e -> rel s st e -> accepts_key s k = true ->
  (hd = true -> is_field s k = true) ->
  exists st', unbind_one s st k hd n = Ok st' /\ rel s st' (unsupply s e k).
Proof.
  intros s st e k hd n W OK R A HD. unfold unbind_one, unsupply.
  destruct (is_va s k) eqn:V.
  - destruct (is_va_name s k V) as [HV EQ]. eexists; split; [reflexivity|]. constructor; simpl.
    + intros k' V'. rewrite smem_sdel. rewrite (proj2 (N.eqb_neq k' k)); [apply (r_spec s st e R k' V')|intros ->; congruence].
    + intros _. rewrite smem_sdel, EQ, N.eqb_refl. reflexivity.
    + apply (r_attrs s st e R).
    + apply (r_unbound s st e R).
    + reflexivity.
    + apply (r_sorted s st e R).
    + apply (r_nova s st e R).
  - assert (forall a', ksorted a' ->
              kget k a' = default_of s k ->
              (forall k', k' <> k -> kget k' a' = kget k' (attrs st)) ->
              forall d' n', rel s {| attrs := a'; vattr := vattr st; spec := sdel k (spec st); dflt := d'; nond := n'; f_ov := f_ov st; f_ie := f_ie st |}
                                {| enamed := kdel k (enamed e); evar := evar e |}) as GEN.
    { intros a' S G O d' n'. constructor; simpl.
      - intros k' V'. rewrite smem_sdel, kmem_kdel, (r_spec s st e R k' V'). reflexivity.
      - intros HV. rewrite smem_sdel, (is_va_false_neq s k HV V). simpl. apply (r_va s st e R HV).
      - intros k' M. rewrite kmem_kdel in M. apply andb_true_iff in M. destruct M as [E M]. apply negb_true_iff in E.
        rewrite kget_kdel, E. rewrite O by (apply N.eqb_neq; exact E). apply (r_attrs s st e R k' M).
      - intros k' M. destruct (N.eqb k' k) eqn:E.
        + apply N.eqb_eq in E; subst k'. exact G.
        + rewrite kmem_kdel, E in M. simpl in M. rewrite O by (apply N.eqb_neq; exact E). apply (r_unbound s st e R k' M).
      - apply (r_vattr s st e R).
      - exact S.
      - intros k' V'. unfold kmem. destruct (N.eqb k' k) eqn:E; [apply N.eqb_eq in E; subst; congruence|].
        rewrite O by (apply N.eqb_neq; exact E). apply (r_nova s st e R k' V'). }
    destruct (is_param s k) eqn:P.
    + eexists; split; [reflexivity|]. destruct (default_of s k) as [dv|] eqn:D.
      * apply GEN; [apply ksorted_kset; apply (r_sorted s st e R)|rewrite kget_kset_same; reflexivity|intros; apply kget_kset_other; assumption].
      * apply GEN; [apply ksorted_kdel; apply (r_sorted s st e R)|rewrite kget_kdel, N.eqb_refl; reflexivity|].
        intros k' NE. rewrite kget_kdel. rewrite (proj2 (N.eqb_neq k' k) NE). reflexivity.
    + unfold accepts_key, is_field in A. rewrite P, V in A. simpl in A. rewrite A. simpl.
      destruct (kmem k (attrs st)) eqn:M.
      * eexists; split; [reflexivity|]. apply GEN; [apply ksorted_kdel; apply (r_sorted s st e R)| |].
        -- rewrite kget_kdel, N.eqb_refl, (default_of_nonparam' s k P). reflexivity.
        -- intros k' NE. rewrite kget_kdel. rewrite (proj2 (N.eqb_neq k' k) NE). reflexivity.
      * (* the key is not there: nothing is stored for it and it is not supplied *)
        assert (kmem k (enamed e) = false) as ME.
        { destruct (kmem k (enamed e)) eqn:Q; [|reflexivity].
          pose proof (r_attrs s st e R k Q) as RA. unfold kmem in M, Q. destruct (kget k (enamed e)); [|discriminate].
          rewrite RA in M. discriminate. }
        assert (rel s st {| enamed := kdel k (enamed e); evar := evar e |}) as SAME.
        { constructor; simpl.
          - intros k' V'. rewrite kmem_kdel, (r_spec s st e R k' V'). destruct (N.eqb k' k) eqn:E; [|reflexivity].
            apply N.eqb_eq in E; subst k'. rewrite ME. reflexivity.
          - apply (r_va s st e R).
          - intros k' Mk. rewrite kmem_kdel in Mk. apply andb_true_iff in Mk. destruct Mk as [E Mk]. apply negb_true_iff in E.
            rewrite kget_kdel, E. apply (r_attrs s st e R k' Mk).
          - intros k' Mk. destruct (N.eqb k' k) eqn:E.
            + apply N.eqb_eq in E; subst k'. apply (r_unbound s st e R k ME).
            + rewrite kmem_kdel, E in Mk. simpl in Mk. apply (r_unbound s st e R k' Mk).
          - apply (r_vattr s st e R).
          - apply (r_sorted s st e R).
          - apply (r_nova s st e R). }
        destruct hd.
        -- (* del names a field here, and k is neither a parameter nor *args *)
           specialize (HD eq_refl). unfold is_field in HD. rewrite P, V in HD. discriminate.
        -- exists st. split; [reflexivity|exact SAME].
Qed.

Lemma late_one_u_rel : forall q s st e u, wf_sig s -> eff_ok s e -> rel s st e -> step_ok s u -> q_noop_rebind q = false ->
  match late_one_u q s st u, supply_step s e u with
  | Ok st', Ok e' => rel s st' e' /\ eff_ok s e'
  | Err a, Err b => a = b
  | _, _ => False
  end.
Proof.
  intros q s st e u W OK R [A B] Q. destruct u as [k v n|k hd n]; simpl in *.
  - assert (match (if n then late_one q s st k v else late_one_silent s st k v), supply s e {| cpos := []; ckw := [(k, v)] |} true false with
            | Ok st', Ok e' => rel s st' e' | Err a, Err b => a = b | _, _ => False end) as L.
    { destruct n; [apply late_one_rel; assumption|apply late_one_silent_rel; assumption]. }
    destruct (if n then late_one q s st k v else late_one_silent s st k v) as [st1|a];
      destruct (supply s e {| cpos := []; ckw := [(k, v)] |} true false) as [e1|b] eqn:S1; try contradiction; [|exact L].
    split; [exact L|eapply supply_ok; eauto].
  - assert (hd = true -> is_field s k = true) as HD by (intros ->; exact B).
    destruct (unbind_one_rel s st e k hd n W OK R A HD) as [st' [U R']]. rewrite U.
    split; [exact R'|apply unsupply_ok; assumption].
Qed.

Lemma late_all_u_rel : forall q s steps st e, wf_sig s -> eff_ok s e -> rel s st e -> steps_ok s steps -> q_noop_rebind q = false ->
  match late_all_u q s st steps, supply_steps s e steps with
  | Ok st', Ok e' => rel s st' e' /\ eff_ok s e'
  | Err a, Err b => a = b
  | _, _ => False
  end.
Proof.
  intros q s; induction steps as [|u r IH]; intros st e W OK R F Q; simpl.
  - split; assumption.
  - inversion F; subst. pose proof (late_one_u_rel q s st e u W OK R H1 Q) as L.
    destruct (late_one_u q s st u) as [st1|a]; destruct (supply_step s e u) as [e1|b]; try contradiction; [|exact L].
    destruct L as [R1 OK1]. apply IH; assumption.
Qed.

Lemma unbind_one_flags : forall s st k hd n st', unbind_one s st k hd n = Ok st' -> f_ov st' = f_ov st /\ f_ie st' = f_ie st.
Proof.
  intros s st k hd n st' H. unfold unbind_one in H.
  destruct (is_va s k); [inversion H; subst; split; reflexivity|].
  destruct (is_param s k); [inversion H; subst; split; reflexivity|].
  destruct (has_kw s && kmem k (attrs st)); [inversion H; subst; split; reflexivity|].
  destruct hd; [discriminate|inversion H; subst; split; reflexivity].
Qed.
Lemma late_all_u_flags : forall q s steps st st', late_all_u q s st steps = Ok st' -> f_ov st' = f_ov st /\ f_ie st' = f_ie st.
Proof.
  intros q s; induction steps as [|u r IH]; intros st st' H; simpl in H.
  - inversion H; subst; split; reflexivity.
  - destruct (late_one_u q s st u) as [st1|] eqn:L; [|discriminate].
    assert (f_ov st1 = f_ov st /\ f_ie st1 = f_ie st) as [A B].
    { destruct u as [k v n|k hd n]; simpl in L; [apply (late_one_n_flags q s st (k, v, n) st1 L)|eapply unbind_one_flags; eauto]. }
    destruct (IH _ _ H) as [C D]. split; congruence.
Qed.

Definition functor_bind_u (q : quirks) (s : sig) (ctor : call) (ov ie : bool) (steps : list lstep)
    (c : call) (ovo ieo : option bool) : result bound :=
  match functor_ctor s ctor ov ie with
  | Err x => Err x
  | Ok st => match late_all_u q s st steps with
             | Err x => Err x
             | Ok st' => functor_call s st' c ovo ieo
             end
  end.

Theorem functor_binds_effective_arguments_with_unbinding : forall q s ctor ov ie steps c ovo ieo,
  wf_sig s -> q_noop_rebind q = false -> steps_ok s steps -> call_ok s c ->
  functor_bind_u q s ctor ov ie steps c ovo ieo =
  spec_outcome_u s ctor steps c (match ovo with Some b => b | None => ov end) (match ieo with Some b => b | None => ie end).
Proof.
  intros q s ctor ov ie steps c ovo ieo W Q SO [ND NV].
  unfold functor_bind_u, spec_outcome_u, effective_u.
  rewrite functor_ctor_supply by assumption.
  destruct (supply s eff0 ctor false false) as [e1|x] eqn:S1; [|reflexivity].
  assert (eff_ok s e1) as OK1 by (eapply supply_ok; [assumption|apply eff0_ok|exact S1]).
  pose proof (late_all_u_rel q s steps _ e1 W OK1 (ctor_finish_rel s e1 ov ie W OK1) SO Q) as L.
  destruct (late_all_u q s (ctor_finish s (enamed e1) (evar e1) ov ie) steps) as [st2|a] eqn:L2;
    destruct (supply_steps s e1 steps) as [e2|b] eqn:S2; try contradiction; [|congruence].
  destruct L as [R2 OK2].
  destruct (late_all_u_flags _ _ _ _ _ L2) as [FO FI].
  destruct (ctor_finish_flags s (enamed e1) (evar e1) ov ie) as [CO CI].
  unfold functor_call. rewrite (functor_call_args_supply s st2 e2 c ovo ieo W OK2 R2 ND NV).
  rewrite FO, FI, CO, CI.
  destruct (supply s e2 c _ _) as [e3|y]; [|reflexivity].
  unfold effective_call.
  destruct (list_args (pos s) (enamed e3)) as [[la|] K] eqn:LA; [reflexivity|].
  symmetry. eapply missing_positional_fails; eauto.
Qed.

Theorem functor_reports_effective_arguments_with_unbinding : forall q s ctor ov ie steps st0 st,
  wf_sig s -> q_noop_rebind q = false -> steps_ok s steps ->
  functor_ctor s ctor ov ie = Ok st0 -> late_all_u q s st0 steps = Ok st ->
  exists e1 e, supply s eff0 ctor false false = Ok e1 /\ supply_steps s e1 steps = Ok e /\
    (forall k, is_va s k = false -> smem k (spec st) = kmem k (enamed e)) /\
    (has_va s = true -> smem (va_name s) (spec st) = match evar e with Some _ => true | None => false end) /\
    (forall k, kget k (attrs st) = match kget k (enamed e) with Some v => Some v | None => default_of s k end) /\
    vattr st = match evar e with Some l => l | None => [] end.
Proof.
  intros q s ctor ov ie steps st0 st W Q SO C L.
  rewrite functor_ctor_supply in C by assumption.
  destruct (supply s eff0 ctor false false) as [e1|x] eqn:S1; [|discriminate].
  inversion C; subst st0; clear C.
  assert (eff_ok s e1) as OK1 by (eapply supply_ok; [assumption|apply eff0_ok|exact S1]).
  pose proof (late_all_u_rel q s steps _ e1 W OK1 (ctor_finish_rel s e1 ov ie W OK1) SO Q) as R.
  rewrite L in R. destruct (supply_steps s e1 steps) as [e2|] eqn:S2; [|contradiction].
  destruct R as [R OK]. exists e1, e2. split; [reflexivity|]. split; [exact S2|]. split; [apply R|]. split; [apply R|]. split; [|apply R].
  intros k. destruct (kget k (enamed e2)) as [v|] eqn:G.
  - rewrite <- G. apply (r_attrs s st e2 R). unfold kmem; rewrite G; reflexivity.
  - apply (r_unbound s st e2 R). unfold kmem; rewrite G; reflexivity.
Qed.

(* un-binding really un-binds: afterwards the name is not specified and the attribute shows the default *)
Theorem unbound_argument_is_unspecified : forall s st e k hd n st',
  wf_sig s -> eff_ok s e -> rel s st e -> accepts_key s k = true -> (hd = true -> is_field s k = true) ->
  unbind_one s st k hd n = Ok st' ->
  smem k (spec st') = false /\ (is_va s k = false -> kget k (attrs st') = default_of s k) /\ (is_va s k = true -> vattr st' = []).
Proof.
  intros s st e k hd n st' W OK R A HD U.
  destruct (unbind_one_rel s st e k hd n W OK R A HD) as [st2 [U2 R2]]. rewrite U in U2. inversion U2; subst st2.
  unfold unsupply in R2. destruct (is_va s k) eqn:V.
  - destruct (is_va_name s k V) as [HV EQ]. split; [|split; [discriminate|]].
    + rewrite <- EQ. rewrite (r_va s st' _ R2 HV). reflexivity.
    + intros _. rewrite (r_vattr s st' _ R2). reflexivity.
  - split; [|split; [|discriminate]].
    + rewrite (r_spec s st' _ R2 k V). simpl. rewrite kmem_kdel, N.eqb_refl. reflexivity.
    + intros _. apply (r_unbound s st' _ R2). simpl. rewrite kmem_kdel, N.eqb_refl. reflexivity.
Qed.

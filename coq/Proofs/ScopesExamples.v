(* Non-vacuity: concrete inputs satisfying the hypotheses of the theorems of Properties/C17.v. *)
From PG Require Import Common.Tactics Model.ScopesBase Gen.ScopeDefs Model.Scopes
  Proofs.ScopesStore Proofs.ScopesInstance Proofs.ScopesRestore Proofs.ScopesCongruence Proofs.ScopesEffective Proofs.ScopesMachine Proofs.ScopesSpec.

(* C17_restore_value_scopes_exact: a program of flag scopes nested three deep with an exceptional exit *)
Definition ex_exact : sprog :=
  Scope (CFlag i_as_sealed) v_true
    (Seq (Catch (Scope (CFlag i_as_sealed) v_none (Scope (CFlag i_allow_partial) v_false (Seq (Obs (GFlag i_as_sealed)) Raise))))
         (Scope CDynEval (VA (AInt 3)) (Obs GDynEval))).
Example ex_exact_ok : exact_prog ex_exact = true /\ observations (exec ex_exact init_state) = [v_none; VA (AInt 3)].
Proof. vm_compute. split; reflexivity. Qed.

(* C17_effective / C17_permission_never_widens: a well-typed state, a valid manager, an entered scope, a body that
   nests other scopes and catches an exception *)
Definition ex_body : sprog :=
  Seq (Catch (Scope CStrFmt (VD [(0%Z, ABool true)]) Raise)) (Scope (CFlag i_notify_on_change) v_false (Obs GPerm)).
Example ex_effective_hyps :
  wt init_state /\ valid_cm CPerm = true /\
  exists s1 sv, cm_enter CPerm (VA (AInt 3)) init_state = Some (s1, sv) /\ escapes (exec ex_body s1) = false /\
                observe GPerm init_state = v_none /\ is_none (VA (AInt 3)) = false.
Proof.
  split; [apply wt_init|]. split; [reflexivity|].
  destruct (cm_enter CPerm (VA (AInt 3)) init_state) as [[s1 sv]|] eqn:E; [|vm_compute in E; discriminate].
  exists s1, sv. split; [reflexivity|]. vm_compute in E. inversion E; subst. vm_compute. auto.
Qed.

(* C17_isolation: three threads; thread 1 uses thread-local managers while the others use process-wide ones *)
Definition ex_threads : list sprog :=
  [ Scope CDynEvalGlobal (VA (AInt 1)) (Scope CLoadTypes (VD [(0%Z, AInt 2)]) (Obs GDynEval));
    Scope CContextual (VD [(0%Z, AOv 1 true false)]) (Seq (Scope (CFlag i_as_sealed) v_true (Obs (GFlag i_as_sealed))) (Obs GContextual));
    Scope CDynEval (VA (AInt 2)) (Obs GDynEval) ].
Example ex_isolation_hyps :
  nth_error ex_threads 1 = Some (Scope CContextual (VD [(0%Z, AOv 1 true false)])
                                   (Seq (Scope (CFlag i_as_sealed) v_true (Obs (GFlag i_as_sealed))) (Obs GContextual)))
  /\ tl_only (Scope CContextual (VD [(0%Z, AOv 1 true false)])
                (Seq (Scope (CFlag i_as_sealed) v_true (Obs (GFlag i_as_sealed))) (Obs GContextual))) = true
  /\ (* and the other threads are really affected by each other: thread 2's enter fails under this schedule *)
     (match nth_error (ths (run_threads ex_threads [0; 2; 1; 1; 0; 2])) 2 with Some (t, _) => ctl t | None => Ret false end) = Ret true.
Proof. vm_compute. auto. Qed.

(* C17_isolation_without_process_wide *)
Example ex_no_global : forall q, In q [Scope CDynEval (VA (AInt 2)) (Obs GDynEval); Scope CPerm (VA (AInt 1)) (Obs GPerm)] -> no_global q = true.
Proof. intros q [<-|[<-|[]]]; reflexivity. Qed.

(* C17_contextual_cascade / C17_propagation *)
Example ex_nodup : nodup_keys [(0%Z, AOv 1 true false); (2%Z, AOv 5 false true)] = true.
Proof. reflexivity. Qed.
Example ex_cascade :
  contextual_merge [(0%Z, AOv 1 true false); (1%Z, AOv 2 false false)] [(0%Z, AOv 7 false false); (1%Z, AOv 8 false false); (2%Z, AOv 9 false false)]
  = [(0%Z, AOv 1 true false); (1%Z, AOv 8 false false); (2%Z, AOv 9 false false)].
Proof. reflexivity. Qed.

(* C17_detour_outer_wins *)
Example ex_detour : dict_has 0 [(0%Z, AInt 1)] = true
  /\ dict_update [(0%Z, AInt 1)] (filter_map (detour_resolve [(0%Z, AInt 1)]) [(0%Z, AInt 2); (3%Z, AInt 0)]) = [(0%Z, AInt 1); (3%Z, AInt 1)].
Proof. vm_compute. auto. Qed.

(* C17_machine_is_exec: the fuel the model uses is enough *)
Example ex_fuel : fuel_for example_prog <= total_fuel [example_prog].
Proof. vm_compute. repeat constructor. Qed.

(* obs_eq is not equality: a popped stack leaves an empty list, which is equivalent to (but not the same as) no key *)
Example ex_obs_eq_strict :
  let s := final (exec (Scope CStrFmt (VD [(0%Z, ABool true)]) Skip) init_state) in
  s <> init_state /\ obs_eq s init_state.
Proof. split; [vm_compute; discriminate | apply restore]. Qed.

(* C17_no_interference: entering as_sealed inside three other scopes leaves the other 16 getters alone *)
Example ex_no_interference :
  let s := final (exec Skip init_state) in
  exists s1 sv, cm_enter (CFlag i_as_sealed) v_true s = Some (s1, sv) /\ GFlag i_allow_partial <> getter_of (CFlag i_as_sealed)
                /\ observe (GFlag i_allow_partial) s1 = observe (GFlag i_allow_partial) s
                /\ observe (GFlag i_as_sealed) s1 <> observe (GFlag i_as_sealed) s.
Proof.
  cbv zeta. destruct (cm_enter (CFlag i_as_sealed) v_true (final (exec Skip init_state))) as [[s1 sv]|] eqn:E; [|vm_compute in E; discriminate].
  exists s1, sv. split; [reflexivity|]. split; [vm_compute; discriminate|]. vm_compute in E. inversion E; subst. vm_compute. split; [reflexivity | discriminate].
Qed.

(* C17_view_options_deep_merge: two nested view_options passing the same dict-valued key; the outer value is back afterwards *)
Example ex_deep_merge :
  let outer := VD [(0%Z, AD [(0%Z, ABool true); (2%Z, AD [(3%Z, AInt 1)])])] in
  let inner := VD [(0%Z, AD [(0%Z, ABool false); (2%Z, AD [(1%Z, AInt 7)]); (1%Z, ANone)])] in
  observations (exec (Scope CViewOpts outer (Seq (Scope CViewOpts inner (Obs GViewOpts)) (Obs GViewOpts))) init_state)
  = [VD [(0%Z, AD [(0%Z, ABool false); (2%Z, AD [(3%Z, AInt 1); (1%Z, AInt 7)]); (1%Z, ANone)])]; outer]
  /\ nodup_keys [(0%Z, AD [(0%Z, ABool false)])] = true.
Proof. vm_compute. split; reflexivity. Qed.

(* C17_refines_lexical_spec: the example program is valid, the initial state is well typed and refines the documented
   defaults; the specification gives the observations without any store *)
Example ex_refinement :
  valid_prog example_prog = true /\ refines init_state (abs init_state)
  /\ abs init_state (CG (GFlag i_notify_on_change)) = v_true /\ abs init_state (CG GPerm) = v_none
  /\ aexec example_prog (abs init_state) = ([VD [(0%Z, AOv 1 true false); (1%Z, AOv 3 false false)]; v_true], false).
Proof. split; [reflexivity|]. split; [apply refines_abs|]. vm_compute. auto. Qed.

(* DynamicEvaluationContext.collect()/apply() as composed by the harness: guard, dynamic_evaluate, stack of contexts.
   A per-thread context entered inside a process-wide one is refused (ValueError) and nothing is changed. *)
Definition collect (per_thread : bool) (id : Z) (body : sprog) : sprog :=
  Scope CDynGuard (VA (ABool per_thread))
    (Scope (if per_thread then CDynEval else CDynEvalGlobal) (VA (AInt (100 + id)))
       (Scope (if per_thread then CDynStackL else CDynStackG) (VD [(0%Z, AInt id)]) body)).
Example ex_mixing_refused :
  let p := collect false 2 (Seq (Catch (collect true 0 (Obs GDynEval))) (Seq (Obs GDynEval) (Obs GDynStackG))) in
  observations (exec p init_state) = [VA (AInt 102); VS [[(0%Z, AInt 2)]]] /\ escapes (exec p init_state) = false
  /\ valid_prog p = true /\ aexec p (abs init_state) = ([VA (AInt 102); VS [[(0%Z, AInt 2)]]], false).
Proof. vm_compute. auto. Qed.

(* BindingReport.v — what the functor reports (specified_args, sym_init_args) describes the effective
   arguments; clone and the JSON round trip keep them. *)
From PG Require Import Common.Tactics Model.Binding Proofs.BindingMaps Proofs.BindingProofs.
From Coq Require Import NArith.
Local Open Scope N_scope.

(* the arguments supplied before the call: construction, then the later bindings *)
Definition bound_arguments (s : sig) (ctor : call) (lates : list (name * val)) : result eff :=
  match supply s eff0 ctor false false with
  | Ok e1 => supply_lates s e1 lates
  | Err x => Err x
  end.

Lemma functor_state_rel : forall q s ctor ov ie lates st0 st,
  wf_sig s -> q_noop_rebind q = false -> late_names_ok s lates ->
  functor_ctor s ctor ov ie = Ok st0 -> late_all q s st0 lates = Ok st ->
  exists e, bound_arguments s ctor lates = Ok e /\ eff_ok s e /\ rel s st e.
Proof.
  intros q s ctor ov ie lates st0 st W Q LN C L. unfold bound_arguments.
  rewrite functor_ctor_supply in C by assumption.
  destruct (supply s eff0 ctor false false) as [e1|x] eqn:S1; [|discriminate].
  inversion C; subst st0; clear C.
  assert (eff_ok s e1) as OK1 by (eapply supply_ok; [assumption|apply eff0_ok|exact S1]).
  pose proof (late_all_rel q s lates _ e1 W OK1 (ctor_finish_rel s e1 ov ie W OK1) LN Q) as R.
  rewrite L in R. destruct (supply_lates s e1 lates) as [e2|]; [|contradiction].
  exists e2. destruct R; auto.
Qed.

Theorem functor_reports_effective_arguments : forall q s ctor ov ie lates st0 st,
  wf_sig s -> q_noop_rebind q = false -> late_names_ok s lates ->
  functor_ctor s ctor ov ie = Ok st0 -> late_all q s st0 lates = Ok st ->
  exists e, bound_arguments s ctor lates = Ok e /\
    (* specified_args = the names that were supplied *)
    (forall k, is_va s k = false -> smem k (spec st) = kmem k (enamed e)) /\
    (has_va s = true -> smem (va_name s) (spec st) = match evar e with Some _ => true | None => false end) /\
    (* sym_init_args = the supplied value, else the default, else missing *)
    (forall k, kget k (attrs st) = match kget k (enamed e) with Some v => Some v | None => default_of s k end) /\
    vattr st = match evar e with Some l => l | None => [] end /\
    (* the flags are those given at construction *)
    f_ov st = ov /\ f_ie st = ie.
Proof.
  intros q s ctor ov ie lates st0 st W Q LN C L.
  destruct (functor_state_rel q s ctor ov ie lates st0 st W Q LN C L) as [e [B [OK R]]].
  exists e. split; [assumption|]. split; [apply R|]. split; [apply R|]. split.
  - intros k. destruct (kget k (enamed e)) as [v|] eqn:G.
    + rewrite <- G. apply (r_attrs s st e R). unfold kmem; rewrite G; reflexivity.
    + apply (r_unbound s st e R). unfold kmem; rewrite G; reflexivity.
  - split; [apply R|].
    destruct (late_all_flags _ _ _ _ _ L) as [A B']. rewrite A, B'.
    rewrite functor_ctor_supply in C by assumption. destruct (supply s eff0 ctor false false); [|discriminate].
    inversion C. apply ctor_finish_flags.
Qed.

(* ---- clone and JSON round trip ----------------------------------------------------------------------------- *)
Lemma json_state_rel : forall s st e, wf_sig s -> eff_ok s e -> rel s st e -> rel s (json_state s st) e.
Proof.
  intros s st e W OK R. unfold json_state.
  rewrite (bound_kwargs_are_effective s st e OK R), (bound_varargs_are_effective s st e OK R).
  apply ctor_finish_rel; assumption.
Qed.

Lemma functor_call_determined_by_rel : forall s st1 st2 e c ov ie,
  wf_sig s -> eff_ok s e -> rel s st1 e -> rel s st2 e -> call_ok s c ->
  functor_call s st1 c (Some ov) (Some ie) = functor_call s st2 c (Some ov) (Some ie).
Proof.
  intros s st1 st2 e c ov ie W OK R1 R2 [ND NV]. unfold functor_call.
  rewrite (functor_call_args_supply s st1 e c (Some ov) (Some ie) W OK R1 ND NV).
  rewrite (functor_call_args_supply s st2 e c (Some ov) (Some ie) W OK R2 ND NV). reflexivity.
Qed.

Theorem clone_and_json_keep_effective_arguments : forall q s ctor ov ie lates st0 st c o i,
  wf_sig s -> q_noop_rebind q = false -> late_names_ok s lates -> call_ok s c ->
  functor_ctor s ctor ov ie = Ok st0 -> late_all q s st0 lates = Ok st ->
  functor_call s (clone_state st) c (Some o) (Some i) = functor_call s st c (Some o) (Some i) /\
  functor_call s (json_state s st) c (Some o) (Some i) = functor_call s st c (Some o) (Some i) /\
  (forall k, kget k (attrs (json_state s st)) = kget k (attrs st)) /\
  vattr (json_state s st) = vattr st /\
  (forall k, is_va s k = false -> smem k (spec (json_state s st)) = smem k (spec st)) /\
  (has_va s = true -> smem (va_name s) (spec (json_state s st)) = smem (va_name s) (spec st)).
Proof.
  intros q s ctor ov ie lates st0 st c o i W Q LN CO C L.
  destruct (functor_state_rel q s ctor ov ie lates st0 st W Q LN C L) as [e [B [OK R]]].
  pose proof (json_state_rel s st e W OK R) as RJ.
  split; [reflexivity|]. split; [eapply functor_call_determined_by_rel; eauto|].
  split.
  - intros k. destruct (kmem k (enamed e)) eqn:M.
    + rewrite (r_attrs _ _ _ RJ k M), (r_attrs _ _ _ R k M). reflexivity.
    + rewrite (r_unbound _ _ _ RJ k M), (r_unbound _ _ _ R k M). reflexivity.
  - split; [rewrite (r_vattr _ _ _ RJ), (r_vattr _ _ _ R); reflexivity|]. split.
    + intros k V. rewrite (r_spec _ _ _ RJ k V), (r_spec _ _ _ R k V). reflexivity.
    + intros HV. rewrite (r_va _ _ _ RJ HV), (r_va _ _ _ R HV). reflexivity.
Qed.

(* non-trivial instances of the hypotheses used above: def f(a, b=11, *args, k, m=21, **kw) *)
Example example_state : exists st0 st,
  functor_ctor example_sig {| cpos := [VInt 7]; ckw := [(4, VInt 1)] |} false false = Ok st0 /\
  late_all {| q_noop_rebind := false |} example_sig st0 [(2, VInt 3); (20, VInt 1); (10, VList [1%Z; 2%Z])] = Ok st.
Proof. eexists; eexists; split; vm_compute; reflexivity. Qed.

Example example_avoids_noop : forall st,
  functor_ctor example_sig {| cpos := [VInt 7]; ckw := [(4, VInt 1)] |} false false = Ok st ->
  lates_avoid_noop example_sig st [(2, VInt 3); (20, VInt 1)].
Proof.
  intros st H. vm_compute in H. inversion H; subst; clear H. simpl. split.
  - intros _ old G. vm_compute in G. inversion G; subst. reflexivity.
  - intros st' L. vm_compute in L. inversion L; subst; clear L. split.
    + intros _ old G. vm_compute in G. discriminate.
    + intros; exact I.
Qed.

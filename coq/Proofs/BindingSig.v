(* BindingSig.v — the __init__ signature generated from the schema is the original signature
   (Signature.to_schema, Signature.from_schema, Signature.make_function). *)
From PG Require Import Common.Tactics Model.Binding Proofs.BindingMaps Proofs.BindingProofs.
From Coq Require Import NArith.
Local Open Scope N_scope.

(* the language requires that a positional parameter without default never follows one with default *)
Fixpoint no_gap (ps : list (name * option val)) (seen : bool) : bool :=
  match ps with
  | [] => true
  | (_, Some _) :: r => no_gap r true
  | (_, None) :: r => negb seen && no_gap r seen
  end.

Lemma force_defaults_id : forall ps seen, no_gap ps seen = true -> force_defaults ps seen = ps.
Proof.
  induction ps as [|[n [d|]] r IH]; intros seen H; simpl in *; [reflexivity| |].
  - rewrite IH by assumption; reflexivity.
  - apply andb_true_iff in H. destruct H as [S H]. destruct seen; [discriminate|].
    rewrite IH by assumption; reflexivity.
Qed.

Definition cfield (p : name * option val) : fkey * option val := (KConst (fst p), snd p).
Definition key_is (n : name) (f : fkey * option val) : bool :=
  match fst f with KConst m => N.eqb m n | KStr => false end.

Lemma find_cfields_app : forall ps rest n,
  In n (names ps) -> NoDup (names ps) ->
  find (key_is n) (map cfield ps ++ rest) = Some (KConst n, match find (fun p => N.eqb (fst p) n) ps with Some (_, d) => d | None => None end).
Proof.
  induction ps as [|[m d] r IH]; intros rest n I ND; simpl in *; [contradiction|].
  inversion ND; subst. unfold key_is at 1; simpl.
  destruct (N.eqb m n) eqn:E.
  - apply N.eqb_eq in E; subst. reflexivity.
  - destruct I as [I|I]; [subst; rewrite N.eqb_refl in E; discriminate|]. apply IH; assumption.
Qed.

Lemma find_self : forall (ps : list (name * option val)) n d, NoDup (names ps) -> In (n, d) ps ->
  find (fun p => N.eqb (fst p) n) ps = Some (n, d).
Proof.
  induction ps as [|[m e] r IH]; intros n d ND I; simpl in *; [contradiction|].
  inversion ND; subst. destruct I as [I|I].
  - inversion I; subst. rewrite N.eqb_refl. reflexivity.
  - destruct (N.eqb m n) eqn:E; [|apply IH; assumption].
    apply N.eqb_eq in E; subst. exfalso. apply H1. change n with (fst (n, d)). apply in_map; assumption.
Qed.

Lemma pos_rebuilt : forall (ps : list (name * option val)) (g : name -> option val),
  (forall n d, In (n, d) ps -> g n = d) -> map (fun n => (n, g n)) (map fst ps) = ps.
Proof.
  induction ps as [|[n d] r IH]; intros g H; simpl; [reflexivity|].
  rewrite (H n d (or_introl eq_refl)). f_equal. apply IH. intros; apply H; right; assumption.
Qed.

Lemma flat_map_none : forall (fs : list (fkey * option val)) (existing : list name),
  (forall f, In f fs -> match fst f with KConst n => existsb (N.eqb n) existing = true | KStr => True end) ->
  flat_map (fun f => match fst f with
                     | KConst n => if existsb (N.eqb n) existing then [] else [(n, snd f)]
                     | KStr => [] end) fs = [].
Proof.
  induction fs as [|[k d] r IH]; intros existing H; simpl; [reflexivity|].
  pose proof (H (k, d) (or_introl eq_refl)) as Hk. simpl in Hk.
  destruct k as [n|]; [rewrite Hk|]; simpl; apply IH; intros; apply H; right; assumption.
Qed.

Lemma flat_map_all : forall (ps : list (name * option val)) (existing : list name),
  (forall n, In n (names ps) -> existsb (N.eqb n) existing = false) ->
  flat_map (fun f => match fst f with
                     | KConst n => if existsb (N.eqb n) existing then [] else [(n, snd f)]
                     | KStr => [] end) (map cfield ps) = ps.
Proof.
  induction ps as [|[n d] r IH]; intros existing H; simpl; [reflexivity|].
  rewrite (H n (or_introl eq_refl)). simpl. f_equal. apply IH. intros; apply H; right; assumption.
Qed.

Lemma existsb_eqb_in : forall (l : list name) n, existsb (N.eqb n) l = true <-> In n l.
Proof.
  induction l as [|m r IH]; intros n; simpl; [split; [discriminate|tauto]|].
  rewrite orb_true_iff, IH, N.eqb_eq. split; intros [H|H]; auto.
Qed.

(* the schema keeps names, order, kinds and defaults; it has no notion of positional-only, so the
   generated __init__ takes those parameters as ordinary positional ones *)
Definition drop_posonly (s : sig) : sig :=
  {| pos := pos s; posonly := 0; varargs := varargs s; kwonly := kwonly s; varkw := varkw s |}.

Theorem generated_init_signature_is_original : forall s,
  wf_sig s -> no_gap (pos s) false = true -> generated_init_sig s = drop_posonly s.
Proof.
  intros s W G. unfold generated_init_sig.
  assert (from_schema (to_schema s) = drop_posonly s) as E.
  { destruct s as [ps po va ks vk]. unfold from_schema, to_schema, drop_posonly; simpl.
    pose proof (wf_nodup _ W) as ND. rewrite names_params in ND. simpl in ND.
    assert (forall a, va = Some a -> ~ In a (names ps ++ names ks)) as NV.
    { intros a Ha. pose proof (wf_va _ W a Ha) as Q. rewrite names_params in Q. exact Q. }
    f_equal.
    - (* positional parameters with their defaults *)
      unfold field_default. simpl. apply pos_rebuilt. intros n d I.
      fold cfield. fold (key_is n).
      rewrite find_cfields_app; [|change n with (fst (n, d)); apply in_map; assumption|eapply nodup_app_l; eauto].
      rewrite (find_self ps n d); [reflexivity|eapply nodup_app_l; eauto|assumption].
    - (* keyword-only parameters: the fields that are not positional and not *args *)
      rewrite !flat_map_app. fold cfield.
      rewrite flat_map_none.
      2:{ intros f I. apply in_map_iff in I. destruct I as [[n d] [Ef I]]. subst f. simpl.
          apply existsb_eqb_in. apply in_or_app. left. change n with (fst (n, d)). apply in_map. assumption. }
      simpl. rewrite (flat_map_none (match va with Some a => [(KConst a, Some (VList []))] | None => [] end)).
      2:{ intros f I. destruct va as [a|]; [|contradiction]. destruct I as [I|[]]. subst f. simpl.
          apply existsb_eqb_in. apply in_or_app. right. left. reflexivity. }
      simpl. rewrite flat_map_all.
      2:{ intros n I. destruct (existsb (N.eqb n) _) eqn:X; [|reflexivity]. exfalso.
          apply existsb_eqb_in in X. apply in_app_or in X. destruct X as [X|X].
          - clear - ND I X. induction ps as [|[m e] r IH]; simpl in *; [contradiction|].
            inversion ND; subst. destruct X as [X|X]; [subst; apply H1; apply in_or_app; right; assumption|auto].
          - destruct va as [a|]; [|contradiction]. destruct X as [X|[]]. subst a.
            apply (NV n eq_refl). apply in_or_app. right. assumption. }
      rewrite flat_map_none; [apply app_nil_r|].
      intros f I. destruct vk; [destruct I as [I|[]]; subst; exact I|contradiction].
    - (* **kwargs *)
      rewrite !existsb_app. fold cfield.
      assert (forall (l : list (name * option val)), existsb (fun f : fkey * option val => match fst f with KStr => true | KConst _ => false end) (map cfield l) = false) as NK.
      { induction l as [|[n d] r IH]; simpl; [reflexivity|exact IH]. }
      rewrite !NK. destruct va, vk; reflexivity. }
  rewrite E. destruct s as [ps po va ks vk]; unfold drop_posonly; simpl in *. rewrite force_defaults_id by assumption. reflexivity.
Qed.

Example example_sig_no_gap : no_gap (pos example_sig) false = true.
Proof. reflexivity. Qed.

(* SymCoreEventsDeliver.v -- what Symbolic._notify_field_updates (deliver) does with a list of field updates:
   grouping per target, one event per observing target, payloads. *)
From PG Require Import Common.Tactics Model.SymCoreDefs Model.SymCoreOps Model.SymCoreEvents Proofs.SymCoreBase.
From Coq Require Import NArith Permutation.

Definition tid (t : target) : N := nid0 (fst t).
Definition tids (ts : list target) : list N := map tid ts.
Definition entry (n : node) (u : update) : option (list key * update) :=
  if subscribes n then Some (rel_path n u, u) else None.
(* every (node on the chain of the written container, update) pair, in the order the code visits them *)
Definition pairs (st : state) (ups : list update) : list (node * update) :=
  flat_map (fun u => map (fun n => (n, u)) (chain_of st (u_tid u))) ups.
Definition affected (st : state) (ups : list update) : list node := map fst (pairs st ups).
Definition gstep (ts : list target) (nu : node * update) : list target := add_target (fst nu) (entry (fst nu) (snd nu)) ts.

Lemma fold_left_flat_map : forall A B C (f : C -> B -> C) (g : A -> list B) l c,
  fold_left f (flat_map g l) c = fold_left (fun c a => fold_left f (g a) c) l c.
Proof. induction l; simpl; intros; auto. rewrite fold_left_app. auto. Qed.
Lemma fold_left_map : forall A B C (f : C -> B -> C) (g : A -> B) l c,
  fold_left f (map g l) c = fold_left (fun c a => f c (g a)) l c.
Proof. induction l; simpl; intros; auto. Qed.

Lemma group_pairs : forall st ups, group st ups = fold_left gstep (pairs st ups) [].
Proof.
  intros. unfold group, pairs. rewrite fold_left_flat_map. generalize (@nil target).
  induction ups; simpl; intros; auto. rewrite IHups. f_equal.
  unfold group_one. rewrite fold_left_map. reflexivity.
Qed.

(* --- add_target -------------------------------------------------------------------------------------------- *)
Lemma add_target_ids : forall n e ts,
  tids (add_target n e ts) = if existsb (N.eqb (nid0 n)) (tids ts) then tids ts else tids ts ++ [nid0 n].
Proof.
  induction ts as [|[m pl] r IH]; auto.
  change (tids ((m, pl) :: r)) with (nid0 m :: tids r).
  simpl. destruct (N.eqb (nid0 m) (nid0 n)) eqn:E.
  - apply N.eqb_eq in E. rewrite E, N.eqb_refl. simpl. unfold tids. simpl. unfold tid at 1. simpl. rewrite E. auto.
  - rewrite N.eqb_sym, E. simpl. change (tids ((m, pl) :: add_target n e r)) with (nid0 m :: tids (add_target n e r)).
    rewrite IH. destruct (existsb (N.eqb (nid0 n)) (tids r)); auto.
Qed.
Lemma existsb_eqb_in : forall i l, existsb (N.eqb i) l = true <-> In i l.
Proof.
  intros. rewrite existsb_exists. split.
  - intros [x [H E]]. apply N.eqb_eq in E. subst; auto.
  - intros. exists i. split; auto. apply N.eqb_refl.
Qed.
Lemma add_target_nodup : forall n e ts, NoDup (tids ts) -> NoDup (tids (add_target n e ts)).
Proof.
  intros. rewrite add_target_ids. destruct (existsb (N.eqb (nid0 n)) (tids ts)) eqn:E; auto.
  apply nodup_app; auto.
  - constructor; auto. constructor.
  - intros x Hx [Hy|[]]. subst. apply existsb_eqb_in in Hx. congruence.
Qed.
Lemma add_target_in : forall n e ts i, In i (tids (add_target n e ts)) <-> In i (tids ts) \/ i = nid0 n.
Proof.
  intros. rewrite add_target_ids. destruct (existsb (N.eqb (nid0 n)) (tids ts)) eqn:E.
  - apply existsb_eqb_in in E. split; auto. intros [H|H]; subst; auto.
  - rewrite in_app_iff. simpl. intuition.
Qed.

Lemma group_nodup_gen : forall l ts, NoDup (tids ts) -> NoDup (tids (fold_left gstep l ts)).
Proof. induction l; simpl; intros; auto. apply IHl. apply add_target_nodup; auto. Qed.
Lemma group_in_gen : forall l ts i,
  In i (tids (fold_left gstep l ts)) <-> In i (tids ts) \/ exists n, In n (map fst l) /\ nid0 n = i.
Proof.
  induction l as [|[n u] r IH]; simpl; intros.
  - split; auto. intros [H|[n [[] _]]]; auto.
  - rewrite IH. unfold gstep. simpl. rewrite add_target_in. split.
    + intros [[H|H]|[m [H1 H2]]]; auto.
      * right. exists n. auto.
      * right. exists m. auto.
    + intros [H|[m [[H1|H1] H2]]]; auto.
      * subst. auto.
      * right. exists m. auto.
Qed.
Theorem group_nodup : forall st ups, NoDup (tids (group st ups)).
Proof. intros. rewrite group_pairs. apply group_nodup_gen. constructor. Qed.
Theorem group_in : forall st ups i, In i (tids (group st ups)) <-> exists n, In n (affected st ups) /\ nid0 n = i.
Proof.
  intros. rewrite group_pairs, group_in_gen. unfold affected. simpl. split; auto. intros [[]|H]; auto.
Qed.

(* --- the target of an id and its payload ---------------------------------------------------------------------- *)
Definition app_entry (e : option (list key * update)) (pl : list (list key * update)) : list (list key * update) :=
  match e with Some (rp, u) => upsert rp u pl | None => pl end.
Fixpoint find_t (i : N) (ts : list target) : option target :=
  match ts with [] => None | t :: r => if N.eqb (tid t) i then Some t else find_t i r end.
Definition fstep (i : N) (o : option target) (nu : node * update) : option target :=
  if N.eqb (nid0 (fst nu)) i then
    Some (match o with
          | Some (m, pl) => (m, app_entry (entry (fst nu) (snd nu)) pl)
          | None => (fst nu, app_entry (entry (fst nu) (snd nu)) [])
          end)
  else o.
Lemma find_add : forall n e ts i,
  find_t i (add_target n e ts) =
  if N.eqb (nid0 n) i then
    Some (match find_t i ts with Some (m, pl) => (m, app_entry e pl) | None => (n, app_entry e []) end)
  else find_t i ts.
Proof.
  induction ts as [|[m pl] r IH]; intros.
  - simpl. unfold tid. simpl. destruct (N.eqb (nid0 n) i); auto; try (destruct e as [[rp u]|]; auto).
  - simpl. destruct (N.eqb (nid0 m) (nid0 n)) eqn:E.
    + apply N.eqb_eq in E. simpl. unfold tid. simpl. rewrite E. destruct (N.eqb (nid0 n) i); auto; try (destruct e as [[rp u]|]; auto).
    + simpl. unfold tid. simpl. destruct (N.eqb (nid0 m) i) eqn:F.
      * apply N.eqb_eq in F. subst i. rewrite N.eqb_sym, E. auto.
      * apply IH.
Qed.
Lemma find_fold : forall l ts i, find_t i (fold_left gstep l ts) = fold_left (fstep i) l (find_t i ts).
Proof.
  induction l as [|[n u] r IH]; simpl; intros; auto.
  rewrite IH. f_equal. unfold gstep. simpl. rewrite find_add. unfold fstep. simpl.
  destruct (N.eqb (nid0 n) i); auto; try (destruct (find_t i ts) as [[m pl]|]; auto).
Qed.
Lemma find_in : forall ts t, NoDup (tids ts) -> In t ts -> find_t (tid t) ts = Some t.
Proof.
  induction ts as [|a r IH]; simpl; intros; try contradiction.
  inv H. destruct H0.
  - subst. rewrite N.eqb_refl. auto.
  - destruct (N.eqb (tid a) (tid t)) eqn:E.
    + apply N.eqb_eq in E. exfalso. apply H3. rewrite E. apply in_map. auto.
    + auto.
Qed.
Theorem group_target : forall st ups t, In t (group st ups) ->
  fold_left (fstep (tid t)) (pairs st ups) None = Some t.
Proof.
  intros. rewrite <- (find_in (group st ups) t); auto using group_nodup.
  rewrite group_pairs, find_fold. auto.
Qed.

(* --- ordering: a permutation ---------------------------------------------------------------------------------------- *)
Lemma insert_desc_perm : forall A (x : list key * A) l, Permutation (insert_desc x l) (x :: l).
Proof.
  induction l; simpl; auto. destruct (path_ltb (fst x) (fst a)); auto.
  eapply perm_trans. apply perm_skip. apply IHl. apply perm_swap.
Qed.
Lemma sort_desc_perm : forall A (l : list (list key * A)), Permutation (sort_desc l) l.
Proof.
  unfold sort_desc. induction l; simpl; auto. eapply perm_trans. apply insert_desc_perm. auto.
Qed.
Lemma order_perm : forall ts, Permutation (order ts) ts.
Proof.
  intros. unfold order. eapply perm_trans. apply Permutation_map. apply sort_desc_perm.
  rewrite map_map. simpl. rewrite map_id. auto.
Qed.

(* --- events ------------------------------------------------------------------------------------------------------------- *)
Definition observes (n : node) : bool := match obs_of n with ObsNone => false | _ => true end.
Lemma events_ids : forall ts, map ev_id (flat_map event_of ts) = tids (filter (fun t => observes (fst t)) ts).
Proof.
  induction ts as [|[m pl] r IH]; simpl; auto. unfold event_of at 1, observes at 1. simpl.
  destruct (obs_of m); simpl; rewrite IH; auto.
Qed.
Lemma nodup_filter : forall A B (f : A -> B) (p : A -> bool) l, NoDup (map f l) -> NoDup (map f (filter p l)).
Proof.
  induction l; simpl; intros; auto. inv H. destruct (p a); simpl; auto. constructor; auto.
  intros C. apply H2. apply in_map_iff in C. destruct C as [x [E I]]. apply filter_In in I. rewrite <- E. apply in_map. tauto.
Qed.

(* One call of _notify_field_updates: no receiver twice; the receivers are exactly the observing nodes among the written
   containers and everything above them. *)
Theorem deliver_once : forall st ups, NoDup (map ev_id (deliver st ups None)).
Proof.
  intros. unfold deliver, notified_targets.
  assert (C : forall ts, cut_after None ts = ts) by (induction ts; simpl; congruence). rewrite C.
  rewrite events_ids. apply nodup_filter.
  eapply Permutation_NoDup. apply Permutation_sym. apply Permutation_map. apply order_perm. apply group_nodup.
Qed.

(* --- who receives, and what ---------------------------------------------------------------------------------------------- *)
Definition inj_ids (l : list node) : Prop := forall n m, In n l -> In m l -> nid0 n = nid0 m -> n = m.
Definition pstep (i : N) (pl : list (list key * update)) (nu : node * update) : list (list key * update) :=
  if N.eqb (nid0 (fst nu)) i then app_entry (entry (fst nu) (snd nu)) pl else pl.
Definition opl (o : option target) : list (list key * update) := match o with Some (_, pl) => pl | None => [] end.

Lemma fstep_some : forall i l o t, fold_left (fstep i) l o = Some t ->
  snd t = fold_left (pstep i) l (opl o) /\
  match o with
  | Some (m, _) => fst t = m
  | None => In (fst t) (map fst l) /\ nid0 (fst t) = i
  end.
Proof.
  induction l as [|[n u] r IH]; simpl; intros.
  - subst. destruct t. simpl. auto.
  - apply IH in H. destruct H as [P Q]. unfold fstep in P, Q. unfold pstep at 2. simpl in *.
    destruct (N.eqb (nid0 n) i) eqn:E.
    + destruct o as [[m pl]|]; simpl in *; split; auto. split; auto. apply N.eqb_eq in E. rewrite Q. auto.
    + destruct o as [[m pl]|]; simpl in *; split; auto. destruct Q; split; auto.
Qed.
Lemma group_target_node : forall st ups t, In t (group st ups) ->
  In (fst t) (affected st ups) /\ snd t = fold_left (pstep (tid t)) (pairs st ups) [].
Proof.
  intros. apply group_target in H. apply fstep_some in H. simpl in H. destruct H as [P [Q _]]. split; auto.
Qed.

Lemma in_filter_tids : forall (p : target -> bool) ts i, In i (tids (filter p ts)) <-> exists t, In t ts /\ tid t = i /\ p t = true.
Proof.
  intros. unfold tids. rewrite in_map_iff. split.
  - intros [t [E I]]. apply filter_In in I. exists t. tauto.
  - intros [t [I [E P]]]. exists t. split; auto. apply filter_In. auto.
Qed.
Lemma cut_none : forall ts, cut_after None ts = ts.
Proof. induction ts; simpl; congruence. Qed.

Theorem deliver_who : forall st ups i, inj_ids (affected st ups) ->
  (In i (map ev_id (deliver st ups None)) <-> exists n, In n (affected st ups) /\ nid0 n = i /\ observes n = true).
Proof.
  intros st ups i INJ. unfold deliver, notified_targets. rewrite cut_none, events_ids, in_filter_tids. split.
  - intros [t [I [E P]]]. apply (Permutation_in _ (order_perm _)) in I. apply group_target_node in I. destruct I as [I _].
    exists (fst t). auto.
  - intros [n [I [E P]]].
    assert (G : In i (tids (group st ups))) by (apply group_in; eauto).
    unfold tids in G. apply in_map_iff in G. destruct G as [t [E' I']].
    exists t. split. { apply (Permutation_in _ (Permutation_sym (order_perm _))). auto. }
    split; auto. destruct (group_target_node _ _ _ I') as [A _].
    assert (fst t = n) by (apply INJ; auto; unfold tid in E'; congruence). subst. auto.
Qed.

(* the payload the receiver [m] must get: every update whose container is [m] or lies below [m], keyed by the path
   relative to [m], in the order of the updates (a location written twice keeps its first place and its last update) *)
Definition below (st : state) (m : node) (u : update) : bool :=
  existsb (fun n => N.eqb (nid0 n) (nid0 m)) (chain_of st (u_tid u)).
Definition payload_spec (st : state) (ups : list update) (m : node) : list (list key * update) :=
  fold_left (fun pl u => if below st m u && subscribes m then upsert (rel_path m u) u pl else pl) ups [].

Lemma upsert_idem : forall rp u pl, upsert rp u (upsert rp u pl) = upsert rp u pl.
Proof.
  induction pl as [|[p v] r IH]; simpl.
  - rewrite path_eqb_refl. auto.
  - destruct (path_eqb p rp) eqn:E; simpl; rewrite E; auto. rewrite IH. auto.
Qed.
Lemma pstep_chain : forall m u ch pl, (forall n, In n ch -> nid0 n = nid0 m -> n = m) ->
  fold_left (pstep (nid0 m)) (map (fun n => (n, u)) ch) pl =
  if existsb (fun n => N.eqb (nid0 n) (nid0 m)) ch && subscribes m then upsert (rel_path m u) u pl else pl.
Proof.
  induction ch as [|n r IH]; simpl; intros; auto.
  rewrite IH by auto. unfold pstep. simpl. destruct (N.eqb (nid0 n) (nid0 m)) eqn:E; simpl; auto.
  apply N.eqb_eq in E. assert (n = m) by auto. subst n. unfold entry, app_entry.
  destruct (subscribes m); simpl.
  - destruct (existsb _ r); simpl; auto. apply upsert_idem.
  - rewrite andb_false_r. auto.
Qed.
Lemma payload_pairs : forall st m ups pl, (forall n, In n (affected st ups) -> nid0 n = nid0 m -> n = m) ->
  fold_left (pstep (nid0 m)) (pairs st ups) pl =
  fold_left (fun pl u => if below st m u && subscribes m then upsert (rel_path m u) u pl else pl) ups pl.
Proof.
  induction ups as [|u r IH]; simpl; intros; auto.
  unfold pairs in *. simpl. rewrite fold_left_app. unfold affected, pairs in H. simpl in H. rewrite map_app in H.
  rewrite pstep_chain.
  - apply IH. intros. apply H; auto. apply in_or_app. auto.
  - intros. apply H; auto. apply in_or_app. left. rewrite map_map. simpl. rewrite map_id. auto.
Qed.

Theorem deliver_payload : forall st ups e, inj_ids (affected st ups) -> In e (deliver st ups None) ->
  exists m, In m (affected st ups) /\ observes m = true /\
            ev_id e = nid0 m /\ ev_path e = npth m /\ ev_payload e = payload_spec st ups m.
Proof.
  intros st ups e INJ H. unfold deliver, notified_targets in H. rewrite cut_none in H.
  apply in_flat_map in H. destruct H as [t [I E]].
  apply (Permutation_in _ (order_perm _)) in I. destruct (group_target_node _ _ _ I) as [A P].
  exists (fst t). split; auto.
  assert (Q : snd t = payload_spec st ups (fst t)).
  { rewrite P. unfold tid, payload_spec. apply payload_pairs. intros. apply INJ; auto. }
  unfold event_of in E. unfold observes. unfold payload_spec in *. unfold subscribes in *.
  destruct (obs_of (fst t)) eqn:O; simpl in E; try contradiction; destruct E as [E|[]]; subst e; simpl; repeat split; auto.
  (* an object that only overrides _on_bound is called without payload: it does not subscribe *)
  clear. induction ups; simpl; auto. rewrite andb_false_r. auto.
Qed.

(* GenoIter.v — consequences: first = head of all_valid, next = successor in all_valid, iteration and
   sweeping produce exactly all_valid. *)
From Coq Require Import Sorted.
From PG Require Import Common.Tactics Model.Geno Proofs.GenoBasics Proofs.GenoValid Proofs.GenoOrder Proofs.GenoNext.

Lemma sdna_eqb_eq : forall a b, sdna_eqb a b = true <-> a = b.
Proof.
  unfold sdna_eqb. intros a b. split.
  - destruct (scmp a b) eqn:E; try discriminate. intros _. apply scmp_eq; auto.
  - intros ->. rewrite scmp_refl. auto.
Qed.

Lemma slt_total : forall a b, scmp a b <> Lt -> scmp b a <> Lt -> a = b.
Proof.
  intros a b H1 H2. apply scmp_eq. rewrite scmp_antisym in H2.
  destruct (scmp a b); simpl in *; congruence.
Qed.

(* successor in a strictly increasing list = least greater element of the list *)
Lemma succ_in_sorted : forall l d, StronglySorted slt l -> In d l ->
  match succ_in sdna_eqb l d with
  | Some d' => In d' l /\ slt d d' /\ forall x, In x l -> slt d x -> ~ slt x d'
  | None => forall x, In x l -> ~ slt d x
  end.
Proof.
  induction l as [|x r IH]; intros d Hs Hin. inv Hin.
  inversion Hs as [|? ? Hsr Hfx]; subst. rewrite Forall_forall in Hfx. simpl.
  destruct (sdna_eqb x d) eqn:E.
  - apply sdna_eqb_eq in E. subst x. destruct r as [|y r'].
    + intros z [<-|[]]. apply slt_irrefl.
    + split; [simpl; auto|]. split; [apply Hfx; simpl; auto|].
      intros z [<-|[<-|Hz]] Hlt.
      * exfalso. eapply slt_irrefl; eauto.
      * apply slt_irrefl.
      * inversion Hsr as [|? ? _ Hfy]; subst. rewrite Forall_forall in Hfy. apply slt_asym. apply Hfy; auto.
  - destruct Hin as [->|Hin]. { rewrite (proj2 (sdna_eqb_eq d d) eq_refl) in E. discriminate. }
    specialize (IH d Hsr Hin). destruct (succ_in sdna_eqb r d) as [d'|].
    + destruct IH as (H1 & H2 & H3). split; [simpl; auto|]. split; auto.
      intros z [<-|Hz] Hlt; auto. exfalso. eapply slt_asym; eauto.
    + intros z [<-|Hz]; auto. apply slt_asym. auto.
Qed.

Section Exact.
  Variable s : dspec.
  Hypothesis Hfin : finite s = true.
  Hypothesis Hwf : wf s = true.

  Lemma next_sound : forall d d', valid s d = true -> next s d = Some d' -> valid s d' = true /\ slt d d'.
  Proof.
    intros d d' Hv Hn. pose proof (next_spec_holds s Hfin Hwf d Hv) as H. rewrite Hn in H. tauto.
  Qed.

  Theorem next_exact : forall d, valid s d = true -> next s d = succ_in sdna_eqb (all_valid s) d.
  Proof.
    intros d Hv. pose proof (next_spec_holds s Hfin Hwf d Hv) as Hn.
    pose proof (succ_in_sorted (all_valid s) d (all_valid_sorted s) (proj1 (valid_iff s d Hfin) Hv)) as Hs.
    destruct (next s d) as [a|], (succ_in sdna_eqb (all_valid s) d) as [b|]; auto.
    - destruct Hn as (Ha & Hda & Hla). destruct Hs as (Hb & Hdb & Hlb). f_equal.
      apply slt_total.
      + intros Hab. apply (Hlb a); auto. apply valid_iff; auto.
      + apply Hla; auto. apply valid_iff; auto.
    - destruct Hn as (Ha & Hda & _). exfalso. apply (Hs a); auto. apply valid_iff; auto.
    - destruct Hs as (Hb & Hdb & _). exfalso. apply (Hn b); auto. apply valid_iff; auto.
  Qed.

  Lemma first_valid : valid s (first s) = true.
  Proof. apply first_spec_holds; auto. Qed.

  Theorem first_head : hd_error (all_valid s) = Some (first s).
  Proof.
    destruct (first_spec_holds s Hfin Hwf) as [Hv Hm].
    apply valid_iff in Hv; auto. pose proof (all_valid_sorted s) as Hs.
    destruct (all_valid s) as [|x r] eqn:E; [inv Hv|]. simpl. f_equal.
    destruct Hv as [->|Hin]; auto. exfalso. inv Hs. rewrite Forall_forall in H2.
    apply (Hm x). apply valid_iff; auto. rewrite E; simpl; auto. apply H2; auto.
  Qed.

  (* iteration from an element of the list yields the rest of the list *)
  Lemma succ_in_app : forall pre d post, ~ In d pre ->
    succ_in sdna_eqb (pre ++ d :: post) d = hd_error post.
  Proof.
    induction pre; intros d post Hn; simpl.
    - rewrite (proj2 (sdna_eqb_eq d d) eq_refl). destruct post; auto.
    - destruct (sdna_eqb a d) eqn:E. apply sdna_eqb_eq in E. subst. exfalso. apply Hn; simpl; auto.
      apply IHpre. intros H; apply Hn; simpl; auto.
  Qed.

  Lemma sorted_NoDup : forall l, StronglySorted slt l -> NoDup l.
  Proof.
    induction l; intros H; constructor; inv H; auto.
    intros Hin. rewrite Forall_forall in H3. apply (slt_irrefl a). auto.
  Qed.

  Lemma iter_from_exact : forall post pre d, all_valid s = pre ++ d :: post ->
    iter_from s (S (length post)) d = d :: post.
  Proof.
    induction post as [|y post IH]; intros pre d E.
    - simpl. f_equal.
      assert (Hv : valid s d = true) by (apply valid_iff; auto; rewrite E; apply in_or_app; simpl; auto).
      rewrite next_exact by auto. rewrite E, succ_in_app. reflexivity.
      pose proof (sorted_NoDup _ (all_valid_sorted s)) as Hn. rewrite E in Hn.
      apply NoDup_remove_2 in Hn. intros H; apply Hn; apply in_or_app; auto.
    - change (iter_from s (S (length (y :: post))) d) with
        (d :: match next s d with Some d' => iter_from s (S (length post)) d' | None => [] end).
      f_equal.
      assert (Hv : valid s d = true) by (apply valid_iff; auto; rewrite E; apply in_or_app; simpl; auto).
      rewrite next_exact by auto. rewrite E, succ_in_app. simpl.
      + apply (IH (pre ++ [d])). rewrite <- app_assoc. auto.
      + pose proof (sorted_NoDup _ (all_valid_sorted s)) as Hn. rewrite E in Hn.
        apply NoDup_remove_2 in Hn. intros H; apply Hn; apply in_or_app; auto.
  Qed.

  Theorem iter_exact : iter s (length (all_valid s)) = all_valid s.
  Proof.
    pose proof first_head as Hh. unfold iter.
    destruct (all_valid s) as [|x r] eqn:E; [discriminate|]. simpl in Hh. inv Hh.
    simpl length. apply (iter_from_exact r []). auto.
  Qed.

  (* more fuel does not add anything: the last element has no successor *)
  Lemma iter_from_fuel : forall post pre d f, all_valid s = pre ++ d :: post -> length post < f ->
    iter_from s f d = d :: post.
  Proof.
    induction post as [|y post IH]; intros pre d f E Hf.
    - destruct f; [lia|]. simpl. f_equal.
      assert (Hv : valid s d = true) by (apply valid_iff; auto; rewrite E; apply in_or_app; simpl; auto).
      rewrite next_exact by auto. rewrite E, succ_in_app. reflexivity.
      pose proof (sorted_NoDup _ (all_valid_sorted s)) as Hn. rewrite E in Hn.
      apply NoDup_remove_2 in Hn. intros H; apply Hn; apply in_or_app; auto.
    - destruct f; [simpl in Hf; lia|].
      change (iter_from s (S f) d) with (d :: match next s d with Some d' => iter_from s f d' | None => [] end).
      f_equal.
      assert (Hv : valid s d = true) by (apply valid_iff; auto; rewrite E; apply in_or_app; simpl; auto).
      rewrite next_exact by auto. rewrite E, succ_in_app. simpl.
      + apply (IH (pre ++ [d])). rewrite <- app_assoc. auto. simpl in Hf. lia.
      + pose proof (sorted_NoDup _ (all_valid_sorted s)) as Hn. rewrite E in Hn.
        apply NoDup_remove_2 in Hn. intros H; apply Hn; apply in_or_app; auto.
  Qed.
  Theorem iter_exact_fuel : forall f, length (all_valid s) <= f -> iter s f = all_valid s.
  Proof.
    intros f Hf. pose proof first_head as Hh. unfold iter.
    destruct (all_valid s) as [|x r] eqn:E; [discriminate|]. simpl in Hh. inv Hh.
    apply (iter_from_fuel r []); auto.
  Qed.
End Exact.

(* Sweeping proposes what iter_dna yields (no hypothesis: both are the same loop) *)
Lemma sweeping_some : forall s f d,
  sweeping s f (Some d) = match next s d with Some d' => iter_from s f d' | None => [] end.
Proof.
  induction f; intros d; simpl.
  - destruct (next s d); auto.
  - destruct (next s d) as [d'|]; auto. f_equal. apply IHf.
Qed.
Theorem sweeping_same : forall s f, sweeping s f None = iter s f.
Proof.
  intros s [|f]; simpl; auto. unfold iter. simpl. f_equal. apply sweeping_some.
Qed.

(* GenoCmp.v — DNA.__cmp__ on the DNAs of two valid decisions of one specification is the order of decisions. *)
From Coq Require Import Sorted.
From PG Require Import Common.Tactics Model.Geno Proofs.GenoBasics Proofs.GenoValid Proofs.GenoOrder Proofs.GenoNext
  Proofs.GenoConcrete.

Definition cmp_kids : list dna -> list dna -> option comparison :=
  fix go (ca cb : list dna) : option comparison :=
    match ca, cb with
    | x :: ca', y :: cb' => match dna_cmp x y with Some Eq => go ca' cb' | r => r end
    | _, _ => Some Eq
    end.
Lemma dna_cmp_unfold : forall va ca vb cb,
  dna_cmp (D va ca) (D vb cb) =
  match val_cmp va vb with
  | Eq => if negb (length ca =? length cb) then None else cmp_kids ca cb
  | c => Some c
  end.
Proof. reflexivity. Qed.

Lemma cmp_kids_list_cmp : forall A (f : A -> A -> comparison) (g : A -> dna) xs ys,
  Forall2 (fun x y => dna_cmp (g x) (g y) = Some (f x y)) xs ys ->
  cmp_kids (map g xs) (map g ys) = Some (list_cmp f xs ys).
Proof.
  induction 1; simpl. reflexivity. rewrite H. destruct (f x y); auto.
Qed.
(* two decisions valid for the same elements, compared position by position *)
Lemma Forall2_common : forall A X (V : A -> X -> Prop) (R : X -> X -> Prop) es xs ys,
  Forall (fun e => forall x y, V e x -> V e y -> R x y) es ->
  Forall2 V es xs -> Forall2 V es ys -> Forall2 R xs ys.
Proof.
  induction es; intros xs ys H Hx Hy; inv Hx; inv Hy; constructor; inv H; auto.
Qed.

Lemma val_cmp_vint : forall a b, val_cmp (vint a) (vint b) = Nat.compare a b.
Proof.
  intros. unfold val_cmp. rewrite dval_eqb_vint. destruct (a =? b) eqn:E.
  - apply Nat.eqb_eq in E. subst. rewrite Nat.compare_refl. reflexivity.
  - unfold vint. simpl. apply Nat.eqb_neq in E.
    destruct (Nat.compare a b) eqn:Ec.
    + apply Nat.compare_eq in Ec. lia.
    + apply Nat.compare_lt_iff in Ec. apply Z.compare_lt_iff. lia.
    + apply Nat.compare_gt_iff in Ec. apply Z.compare_gt_iff. lia.
Qed.

(* is the DNA of a decision of this Space a value-less node?  (determined by the specification alone) *)
Definition valueless (s : dspec) : bool := match s with Space [e] => is_multi e | _ => true end.
Lemma normalize_class : forall s d, wf s = true -> valid s d = true ->
  is_none (Geno.dvalue (normalize d)) = valueless s.
Proof.
  intros [es] [ds] Hwf Hv. simpl in Hwf, Hv. apply forallb2_Forall2 in Hv.
  rewrite (shape_s es ds Hwf Hv). pose proof (Forall2_len _ _ _ _ _ Hv) as Hl.
  destruct es as [|e [|e2 es]]; destruct ds as [|x [|y r]]; simpl in Hl; try lia; try reflexivity.
  inversion Hv as [|? ? ? ? He _]; subst. simpl in Hwf. rewrite andb_true_r in Hwf.
  pose proof (shape_p e x Hwf He) as Hs. unfold valueless.
  destruct e as [k cands dist srt nm lits|lo hi nm|nm]; unfold is_multi.
  - destruct (k =? 1).
    + destruct Hs as (c & sub & -> & ->). rewrite node_eq. reflexivity.
    + destruct Hs as (cs & -> & _ & ->). reflexivity.
  - destruct Hs as (f & -> & ->). reflexivity.
  - destruct Hs as (s & -> & ->). reflexivity.
Qed.

Lemma cmp_kids_single : forall x y, cmp_kids [x] [y] = match dna_cmp x y with Some Eq => Some Eq | r => r end.
Proof. reflexivity. Qed.

(* comparing two wrapped nodes of the same class = comparing the nodes *)
Lemma cmp_unwrap : forall Na Nb, ntop Na -> ntop Nb ->
  is_none (Geno.dvalue Na) = is_none (Geno.dvalue Nb) ->
  forall r, dna_cmp Na Nb = Some r ->
  (length (unwrap Na) =? length (unwrap Nb)) = true /\ cmp_kids (unwrap Na) (unwrap Nb) = Some r.
Proof.
  intros [va ca] [vb cb] Ha Hb Hc r Hr. simpl in Hc.
  destruct va, vb; simpl in Hc; try discriminate; simpl unwrap.
  1: { (* both value-less *)
    rewrite dna_cmp_unfold in Hr. simpl val_cmp in Hr. cbv iota in Hr.
    destruct (length ca =? length cb); simpl in Hr; [auto|discriminate]. }
  all: split; [reflexivity|]; rewrite cmp_kids_single, Hr; destruct r; reflexivity.
Qed.

Lemma order_agrees_both :
  (forall s, wf s = true -> forall a b, valid s a = true -> valid s b = true ->
             dna_cmp (normalize a) (normalize b) = Some (scmp a b)) /\
  (forall p, wf_p p = true -> forall x y, valid_p p x = true -> valid_p p y = true ->
             dna_cmp (norm_p x) (norm_p y) = Some (pcmp x y)).
Proof.
  apply dspec_dpoint_ind.
  - intros es IH Hwf [xs] [ys] Hx Hy. simpl in Hwf, Hx, Hy. apply forallb2_Forall2 in Hx, Hy.
    rewrite (shape_s es xs Hwf Hx), (shape_s es ys Hwf Hy).
    pose proof (Forall2_len _ _ _ _ _ Hx) as Hlx. pose proof (Forall2_len _ _ _ _ _ Hy) as Hly.
    rewrite scmp_unfold.
    assert (HF : Forall2 (fun x y => dna_cmp (norm_p x) (norm_p y) = Some (pcmp x y)) xs ys).
    { eapply Forall2_common with (V := fun e x => valid_p e x = true) (es := es); [|exact Hx|exact Hy].
      rewrite forallb_forall in Hwf. rewrite Forall_forall in IH. apply Forall_forall. intros e He x y Hvx Hvy. apply (IH e He); auto. }
    destruct es as [|e [|e2 es]]; destruct xs as [|x1 [|x2 xr]]; destruct ys as [|y1 [|y2 yr]]; simpl in Hlx, Hly; try lia.
    + reflexivity.
    + inversion HF as [|? ? ? ? H1 _]; subst. rewrite H1. simpl. destruct (pcmp x1 y1); reflexivity.
    + rewrite dna_cmp_unfold. simpl val_cmp. cbv iota. rewrite !map_length.
      assert (El : (length (x1 :: x2 :: xr) =? length (y1 :: y2 :: yr)) = true) by (apply Nat.eqb_eq; simpl; lia).
      rewrite El. simpl negb. cbv iota.
      apply cmp_kids_list_cmp. exact HF.
  - intros k cands dist srt nm lits IH Hwf x y Hx Hy.
    pose proof (shape_p _ x Hwf Hx) as Hsx. pose proof (shape_p _ y Hwf Hy) as Hsy. cbv beta iota in Hsx, Hsy.
    pose proof Hwf as Hwf0. apply wf_p_choices in Hwf as (Hk & Hn & Hdk & Hwc).
    (* comparing two choice nodes *)
    assert (Hnode : forall c sa c' sb,
              with_nth (fun s => valid s sa) false cands c = true -> with_nth (fun s => valid s sb) false cands c' = true ->
              dna_cmp (mk (VInt (Z.of_nat c)) [normalize sa]) (mk (VInt (Z.of_nat c')) [normalize sb]) = Some (ccmp (c, sa) (c', sb))).
    { intros c sa c' sb Ha Hb. rewrite !node_eq, dna_cmp_unfold, val_cmp_vint. unfold ccmp. cbn [fst snd].
      destruct (Nat.compare c c') eqn:Ec; auto. apply Nat.compare_eq in Ec. subst c'.
      rewrite with_nth_nth_error in Ha, Hb. destruct (nth_error cands c) as [sc|] eqn:E; [|discriminate].
      rewrite forallb_forall in Hwc. pose proof (Hwc sc (nth_error_In _ _ E)) as Hwsc.
      eapply nth_error_Forall in IH; eauto. pose proof (IH Hwsc sa sb Ha Hb) as Hcmp.
      pose proof (normalize_class sc sa Hwsc Ha) as Ca. pose proof (normalize_class sc sb Hwsc Hb) as Cb.
      assert (Hc : is_none (Geno.dvalue (normalize sa)) = is_none (Geno.dvalue (normalize sb))) by congruence.
      pose proof (cmp_unwrap (normalize sa) (normalize sb) (normalize_ntop sc sa Hwsc Ha) (normalize_ntop sc sb Hwsc Hb) Hc _ Hcmp) as [El Ek].
      rewrite El. simpl negb. cbv iota. exact Ek. }
    destruct (k =? 1) eqn:Ek.
    + destruct Hsx as (c & sa & -> & ->). destruct Hsy as (c' & sb & -> & ->).
      apply valid_p_choices in Hx as [_ [_ Hfx]]. apply valid_p_choices in Hy as [_ [_ Hfy]].
      apply Forall_cons_iff in Hfx as [Hfx _]. apply Forall_cons_iff in Hfy as [Hfy _]. simpl in Hfx, Hfy.
      rewrite (Hnode c sa c' sb Hfx Hfy). rewrite pcmp_unfold. simpl. destruct (ccmp (c, sa) (c', sb)); reflexivity.
    + destruct Hsx as (cs & -> & Hlx & ->). destruct Hsy as (ds & -> & Hly & ->).
      apply valid_p_choices in Hx as [_ [_ Hfx]]. apply valid_p_choices in Hy as [_ [_ Hfy]].
      rewrite dna_cmp_unfold. simpl val_cmp. cbv iota. rewrite !map_length.
      assert (El : (length cs =? length ds) = true) by (apply Nat.eqb_eq; lia).
      rewrite El. simpl negb. cbv iota. rewrite pcmp_unfold.
      apply (cmp_kids_list_cmp _ ccmp (fun cs0 => mk (VInt (Z.of_nat (fst cs0))) [normalize (snd cs0)])).
      assert (Hl : length cs = length ds) by lia. clear - Hnode Hfx Hfy Hl.
      revert ds Hfy Hl. induction cs as [|[c sa] cs IHc]; intros [|[c' sb] ds] Hfy Hl; simpl in Hl; try lia; constructor.
      * cbn [fst snd]. apply Forall_cons_iff in Hfx as [Hfx _]. apply Forall_cons_iff in Hfy as [Hfy _]. apply Hnode; auto.
      * apply Forall_cons_iff in Hfx as [_ Hfx]. apply Forall_cons_iff in Hfy as [_ Hfy]. apply IHc; auto.
  - intros lo hi nm Hwf x y Hx Hy. destruct x; try discriminate. destruct y; try discriminate.
    simpl norm_p. rewrite dna_cmp_unfold. unfold val_cmp. simpl dval_eqb. simpl pcmp.
    destruct (Z.eqb f f0) eqn:E.
    * apply Z.eqb_eq in E. subst. rewrite Z.compare_refl. reflexivity.
    * simpl. destruct (Z.compare f f0) eqn:Ec; auto.
  - intros nm Hwf x y Hx Hy. destruct x; try discriminate. destruct y; try discriminate.
    simpl norm_p. rewrite dna_cmp_unfold. unfold val_cmp. simpl dval_eqb. simpl pcmp. unfold str_eqb.
    destruct (str_cmp s s0) eqn:E; reflexivity.
Qed.

Theorem order_agrees : forall s a b, wf s = true -> valid s a = true -> valid s b = true ->
  dna_cmp (normalize a) (normalize b) = Some (scmp a b).
Proof. intros s a b Hwf Ha Hb. exact (proj1 order_agrees_both s Hwf a b Ha Hb). Qed.

(* iteration is strictly increasing under DNA.__lt__ *)
Theorem all_valid_sorted_concrete : forall s, finite s = true -> wf s = true ->
  StronglySorted dna_lt (map normalize (all_valid s)).
Proof.
  intros s Hfin Hwf. apply StronglySorted_map.
  assert (G : forall l, (forall d, In d l -> valid s d = true) -> StronglySorted slt l ->
              StronglySorted (fun a b => dna_lt (normalize a) (normalize b)) l).
  { induction l; intros Hv Hs; constructor; inv Hs.
    - apply IHl; auto. intros; apply Hv; simpl; auto.
    - rewrite Forall_forall in *. intros x Hx. unfold dna_lt.
      rewrite (order_agrees s a x); auto; try (apply Hv; simpl; auto). f_equal. apply H2; auto. }
  apply G. intros d Hd. apply valid_iff; auto. apply all_valid_sorted.
Qed.

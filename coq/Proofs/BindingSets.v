(* BindingSets.v — default_args / non_default_args describe the effective arguments. *)
From PG Require Import Common.Tactics Model.Binding Proofs.BindingMaps Proofs.BindingProofs Proofs.BindingReport.
From Coq Require Import NArith.
Local Open Scope N_scope.

(* the argument k is at its default: it has one, and was not supplied or was supplied with that value *)
Definition at_default (s : sig) (m : kmap val) (k : name) : bool :=
  match default_of s k with
  | Some dv => match kget k m with Some v => val_eqb v dv | None => true end
  | None => false
  end.
Definition evl (e : eff) : list val := match evar e with Some l => l | None => [] end.
Definition evs (e : eff) : bool := match evar e with Some _ => true | None => false end.

Record rel_sets (s : sig) (st : fstate) (e : eff) : Prop := {
  rs_dflt : forall k, is_va s k = false -> smem k (dflt st) = at_default s (enamed e) k;
  rs_nond : forall k, is_va s k = false -> smem k (nond st) = kmem k (enamed e) && negb (at_default s (enamed e) k);
  rs_dflt_va : has_va s = true -> smem (va_name s) (dflt st) = is_nil (evl e);
  rs_nond_va : has_va s = true -> smem (va_name s) (nond st) = evs e && negb (is_nil (evl e)) }.

Lemma zlist_eqb_refl : forall l, zlist_eqb l l = true.
Proof. induction l; simpl; [reflexivity|rewrite Z.eqb_refl; assumption]. Qed.
Lemma zlist_eqb_sym : forall a b, zlist_eqb a b = zlist_eqb b a.
Proof. induction a; destruct b; simpl; try reflexivity. rewrite Z.eqb_sym, IHa; reflexivity. Qed.
Lemma val_eqb_refl : forall v, val_eqb v v = true.
Proof. intros [z|l]; simpl; [apply Z.eqb_refl|apply zlist_eqb_refl]. Qed.
Lemma val_eqb_sym : forall a b, val_eqb a b = val_eqb b a.
Proof. intros [x|x] [y|y]; simpl; try reflexivity; [apply Z.eqb_sym|apply zlist_eqb_sym]. Qed.

Definition dflag (ps : list (name * option val)) (bk : kmap val) (k : name) (unbound : bool) : bool :=
  match find (fun p => N.eqb (fst p) k) ps with
  | Some (_, Some dv) => match kget k bk with Some v => val_eqb v dv | None => unbound end
  | _ => false
  end.

Lemma classify_spec : forall ps bk d n d' n', NoDup (names ps) -> classify ps bk d n = (d', n') ->
  (forall k, smem k d' = smem k d || dflag ps bk k true) /\
  (forall k, smem k n' = smem k n && negb (dflag ps bk k false)).
Proof.
  induction ps as [|[k0 [dv|]] r IH]; intros bk d n d' n' ND H; simpl in H.
  - inversion H; subst. split; intros k; unfold dflag; simpl; [rewrite orb_false_r|rewrite andb_true_r]; reflexivity.
  - inversion ND; subst.
    assert (forall u, dflag r bk k0 u = false) as FR.
    { intros u. unfold dflag. rewrite find_not_in by assumption. reflexivity. }
    assert (forall k u, N.eqb k0 k = false -> dflag ((k0, Some dv) :: r) bk k u = dflag r bk k u) as FO.
    { intros k u E. unfold dflag; simpl. rewrite E. reflexivity. }
    assert (forall u, dflag ((k0, Some dv) :: r) bk k0 u = match kget k0 bk with Some v => val_eqb v dv | None => u end) as FS.
    { intros u. unfold dflag; simpl. rewrite N.eqb_refl. reflexivity. }
    destruct (kget k0 bk) as [v|] eqn:G.
    + destruct (val_eqb v dv) eqn:E.
      * destruct (IH _ _ _ _ _ H3 H) as [A B]. split; intros k.
        -- rewrite A, smem_sadd. destruct (N.eqb k k0) eqn:Q.
           ++ apply N.eqb_eq in Q; subst k. rewrite FS; simpl; try rewrite G; simpl; try rewrite E. simpl. rewrite orb_true_r. reflexivity.
           ++ rewrite FO by (rewrite N.eqb_sym; assumption). reflexivity.
        -- rewrite B, smem_sdel. destruct (N.eqb k k0) eqn:Q.
           ++ apply N.eqb_eq in Q; subst k. rewrite FS; simpl; try rewrite G; simpl; try rewrite E. simpl. rewrite andb_false_r. reflexivity.
           ++ rewrite FO by (rewrite N.eqb_sym; assumption). reflexivity.
      * destruct (IH _ _ _ _ _ H3 H) as [A B]. split; intros k.
        -- rewrite A. destruct (N.eqb k k0) eqn:Q.
           ++ apply N.eqb_eq in Q; subst k. rewrite FS; simpl; try rewrite G; simpl; try rewrite E; rewrite FR. reflexivity.
           ++ rewrite FO by (rewrite N.eqb_sym; assumption). reflexivity.
        -- rewrite B. destruct (N.eqb k k0) eqn:Q.
           ++ apply N.eqb_eq in Q; subst k. rewrite FS; simpl; try rewrite G; simpl; try rewrite E; rewrite FR. reflexivity.
           ++ rewrite FO by (rewrite N.eqb_sym; assumption). reflexivity.
    + destruct (IH _ _ _ _ _ H3 H) as [A B]. split; intros k.
      * rewrite A, smem_sadd. destruct (N.eqb k k0) eqn:Q.
        -- apply N.eqb_eq in Q; subst k. rewrite FS; simpl; try rewrite G; simpl. simpl. rewrite orb_true_r. reflexivity.
        -- rewrite FO by (rewrite N.eqb_sym; assumption). reflexivity.
      * rewrite B. destruct (N.eqb k k0) eqn:Q.
        -- apply N.eqb_eq in Q; subst k. rewrite FS; simpl; try rewrite G; simpl; rewrite FR. reflexivity.
        -- rewrite FO by (rewrite N.eqb_sym; assumption). reflexivity.
  - inversion ND; subst. destruct (IH _ _ _ _ _ H3 H) as [A B].
    assert (forall k u, dflag ((k0, None) :: r) bk k u = dflag r bk k u) as FO.
    { intros k u. unfold dflag; simpl. destruct (N.eqb k0 k) eqn:E; [|reflexivity].
      apply N.eqb_eq in E; subst. rewrite find_not_in by assumption. reflexivity. }
    split; intros k; [rewrite A|rewrite B]; rewrite FO; reflexivity.
Qed.

Lemma dflag_at_default : forall s bk k, dflag (params s) bk k true = at_default s bk k.
Proof.
  intros. unfold dflag, at_default, default_of.
  destruct (find (fun p => N.eqb (fst p) k) (params s)) as [[n [dv|]]|]; reflexivity.
Qed.
Lemma dflag_bound : forall s bk k, kmem k bk = true -> dflag (params s) bk k false = at_default s bk k.
Proof.
  intros s bk k M. unfold dflag, at_default, default_of, kmem in *.
  destruct (find (fun p => N.eqb (fst p) k) (params s)) as [[n [dv|]]|]; try reflexivity.
  destruct (kget k bk); [reflexivity|discriminate].
Qed.
Lemma at_default_va : forall s bk k, wf_sig s -> is_va s k = true -> at_default s bk k = false.
Proof.
  intros s bk k W V. unfold at_default, default_of. rewrite find_not_in; [reflexivity|].
  intros I. apply is_param_in in I. rewrite (va_not_param s k W V) in I. discriminate.
Qed.

Lemma neq_va : forall s k, has_va s = true -> is_va s k = false -> N.eqb k (va_name s) = false.
Proof. intros s k HV V. rewrite N.eqb_sym. apply is_va_false_neq; assumption. Qed.

Lemma ctor_finish_sets : forall s e ov ie, wf_sig s -> eff_ok s e ->
  rel_sets s (ctor_finish s (enamed e) (evar e) ov ie) e.
Proof.
  intros s e ov ie W OK. unfold ctor_finish.
  destruct (classify (params s) (enamed e) [] _) as [d nd] eqn:C.
  destruct (classify_spec _ _ _ _ _ _ (wf_nodup s W) C) as [A B].
  assert (forall k, is_va s k = false ->
            smem k (match evar e with Some _ => sadd (va_name s) (keyset (enamed e)) | None => keyset (enamed e) end) = kmem k (enamed e)) as SP.
  { intros k V. destruct (evar e) eqn:EV.
    - destruct (has_va s) eqn:HV; [|rewrite (eo_noevar s e OK HV) in EV; discriminate].
      rewrite smem_sadd, (neq_va s k HV V). unfold smem. apply kmem_keyset.
    - unfold smem. apply kmem_keyset. }
  assert (has_va s = true -> kmem (va_name s) (enamed e) = false) as NVA.
  { intros HV. apply (eo_nova s e OK). apply is_va_va_name; assumption. }
  constructor; simpl.
  - intros k V. transitivity (smem k d).
    + destruct (has_va s && _) eqn:VD; [|reflexivity].
      apply andb_true_iff in VD. destruct VD as [HV _]. rewrite smem_sadd, (neq_va s k HV V). reflexivity.
    + rewrite A. simpl. apply dflag_at_default.
  - intros k V. transitivity (smem k nd).
    + destruct (has_va s && _) eqn:VD; [|reflexivity].
      apply andb_true_iff in VD. destruct VD as [HV _]. rewrite smem_sdel, (neq_va s k HV V). reflexivity.
    + rewrite B, (SP k V). destruct (kmem k (enamed e)) eqn:M; [|reflexivity].
      rewrite (dflag_bound s _ k M). reflexivity.
  - intros HV. rewrite HV. simpl. unfold evl. destruct (evar e) as [l|] eqn:EV.
    + destruct (is_nil l) eqn:N; [rewrite smem_sadd, N.eqb_refl; reflexivity|].
      rewrite A. simpl. rewrite dflag_at_default. apply at_default_va; [assumption|apply is_va_va_name; assumption].
    + simpl. rewrite smem_sadd, N.eqb_refl. reflexivity.
  - intros HV. rewrite HV. simpl. unfold evl, evs. destruct (evar e) as [l|] eqn:EV.
    + destruct (is_nil l) eqn:N; [rewrite smem_sdel, N.eqb_refl; reflexivity|].
      rewrite B, smem_sadd, N.eqb_refl. simpl.
      unfold dflag. rewrite find_not_in; [reflexivity|].
      intros I. apply is_param_in in I. rewrite (va_not_param s _ W (is_va_va_name s HV)) in I. discriminate.
    + simpl. rewrite smem_sdel, N.eqb_refl. reflexivity.
Qed.

Lemma sets_after_named_change : forall s st e k v d' n' a' sp', wf_sig s -> rel_sets s st e -> is_va s k = false ->
  let b := match default_of s k with Some dv => val_eqb dv v | None => false end in
  d' = (if b then sadd k (dflt st) else sdel k (dflt st)) ->
  n' = (if b then sdel k (nond st) else sadd k (nond st)) ->
  rel_sets s {| attrs := a'; vattr := vattr st; spec := sp'; dflt := d'; nond := n'; f_ov := f_ov st; f_ie := f_ie st |}
           {| enamed := kset k v (enamed e); evar := evar e |}.
Proof.
  intros s st e k v d' n' a' sp' W RS V b -> ->.
  assert (at_default s (kset k v (enamed e)) k = b) as AK.
  { unfold at_default, b. destruct (default_of s k) as [dv|]; [|reflexivity]. rewrite kget_kset_same. apply val_eqb_sym. }
  assert (forall k', N.eqb k' k = false -> at_default s (kset k v (enamed e)) k' = at_default s (enamed e) k') as AO.
  { intros k' E. unfold at_default. rewrite kget_kset, E. reflexivity. }
  constructor; simpl.
  - intros k' V'. destruct (N.eqb k' k) eqn:E.
    + apply N.eqb_eq in E; subst k'. rewrite AK. destruct b; [rewrite smem_sadd|rewrite smem_sdel]; rewrite N.eqb_refl; reflexivity.
    + rewrite (AO k' E). destruct b; [rewrite smem_sadd|rewrite smem_sdel]; rewrite E; simpl; apply (rs_dflt s st e RS k' V').
  - intros k' V'. rewrite kmem_kset. destruct (N.eqb k' k) eqn:E.
    + apply N.eqb_eq in E; subst k'. rewrite AK. simpl. destruct b; [rewrite smem_sdel|rewrite smem_sadd]; rewrite N.eqb_refl; reflexivity.
    + rewrite (AO k' E). simpl. destruct b; [rewrite smem_sdel|rewrite smem_sadd]; rewrite E; simpl; apply (rs_nond s st e RS k' V').
  - intros HV. pose proof (rs_dflt_va s st e RS HV) as Q0. unfold evl in *; simpl. rewrite <- Q0.
    destruct b; [rewrite smem_sadd|rewrite smem_sdel]; rewrite (is_va_false_neq s k HV V); reflexivity.
  - intros HV. pose proof (rs_nond_va s st e RS HV) as Q0. unfold evl, evs in *; simpl. rewrite <- Q0.
    destruct b; [rewrite smem_sdel|rewrite smem_sadd]; rewrite (is_va_false_neq s k HV V); reflexivity.
Qed.

Lemma late_one_sets : forall q s st e k v, wf_sig s -> rel s st e -> rel_sets s st e ->
  accepts_key s k = true -> q_noop_rebind q = false ->
  match late_one q s st k v, supply s e {| cpos := []; ckw := [(k, v)] |} true false with
  | Ok st', Ok e' => rel_sets s st' e'
  | _, _ => True
  end.
Proof.
  intros q s st e k v W R RS A Q. rewrite supply_single. unfold late_one. rewrite Q.
  destruct (is_va s k) eqn:V.
  - destruct (vals_of_val v) as [l|]; [|exact I].
    destruct (is_va_name s k V) as [HV EQ]. subst k.
    unfold on_change, set_vattr; simpl. constructor; simpl.
    + intros k' V'. rewrite <- (rs_dflt s st e RS k' V').
      destruct (is_nil l); [rewrite smem_sadd|rewrite smem_sdel]; rewrite (neq_va s k' HV V'); reflexivity.
    + intros k' V'. rewrite <- (rs_nond s st e RS k' V').
      destruct (is_nil l); [rewrite smem_sdel|rewrite smem_sadd]; rewrite (neq_va s k' HV V'); reflexivity.
    + intros _. unfold evl; simpl. destruct (is_nil l); [rewrite smem_sadd|rewrite smem_sdel]; rewrite N.eqb_refl; reflexivity.
    + intros _. unfold evl, evs; simpl. destruct (is_nil l); [rewrite smem_sdel|rewrite smem_sadd]; rewrite N.eqb_refl; reflexivity.
  - rewrite A. unfold accepts_key, is_field in A. rewrite V, orb_false_r in A. rewrite A.
    assert (rel_sets s (on_change (set_attr st k v) k match default_of s k with Some dv => val_eqb dv v | None => false end)
                     {| enamed := kset k v (enamed e); evar := evar e |}) as Changed.
    { unfold on_change, set_attr; simpl. eapply sets_after_named_change; eauto. }
    destruct (kget k (attrs st)) as [old|] eqn:G; [|exact Changed].
    destruct (same_scalar old v) eqn:SS; [|exact Changed].
    apply same_scalar_eq in SS; subst old.
    (* no field update: the sets stay, and they are still right because the value did not change *)
    unfold mark_specified.
    assert (at_default s (kset k v (enamed e)) k = at_default s (enamed e) k /\
            (kmem k (enamed e) = false -> at_default s (enamed e) k = true)) as [AK AU].
    { unfold at_default. rewrite kget_kset_same. destruct (kmem k (enamed e)) eqn:M.
      - pose proof (r_attrs s st e R k M) as RA. rewrite G in RA. rewrite <- RA.
        split; [reflexivity|discriminate].
      - pose proof (r_unbound s st e R k M) as RU. rewrite G in RU. rewrite <- RU.
        unfold kmem in M. destruct (kget k (enamed e)); [discriminate|].
        rewrite val_eqb_refl. split; reflexivity. }
    assert (forall k', N.eqb k' k = false -> at_default s (kset k v (enamed e)) k' = at_default s (enamed e) k') as AO.
    { intros k' E. unfold at_default. rewrite kget_kset, E. reflexivity. }
    constructor; simpl.
    + intros k' V'. rewrite (rs_dflt s st e RS k' V'). destruct (N.eqb k' k) eqn:E.
      * apply N.eqb_eq in E; subst k'. symmetry; exact AK.
      * symmetry; apply AO; assumption.
    + intros k' V'. rewrite (rs_nond s st e RS k' V'), kmem_kset. destruct (N.eqb k' k) eqn:E.
      * apply N.eqb_eq in E; subst k'. rewrite AK. simpl. destruct (kmem k (enamed e)) eqn:M; [reflexivity|].
        rewrite (AU eq_refl). reflexivity.
      * rewrite (AO k' E). reflexivity.
    + apply (rs_dflt_va s st e RS).
    + apply (rs_nond_va s st e RS).
Qed.

Lemma late_all_sets : forall q s lates st e, wf_sig s -> eff_ok s e -> rel s st e -> rel_sets s st e ->
  late_names_ok s lates -> q_noop_rebind q = false ->
  match late_all q s st lates, supply_lates s e lates with
  | Ok st', Ok e' => rel_sets s st' e'
  | _, _ => True
  end.
Proof.
  intros q s; induction lates as [|[k v] r IH]; intros st e W OK R RS F Q; simpl; [assumption|].
  inversion F; subst.
  pose proof (late_one_rel q s st e k v W R H1 Q) as L.
  pose proof (late_one_sets q s st e k v W R RS H1 Q) as LS.
  destruct (late_one q s st k v) as [st1|a]; destruct (supply s e {| cpos := []; ckw := [(k, v)] |} true false) as [e1|b] eqn:S1;
    try contradiction; [|exact I].
  apply IH; try assumption. eapply supply_ok; eauto.
Qed.

Theorem functor_reports_default_sets : forall q s ctor ov ie lates st0 st,
  wf_sig s -> q_noop_rebind q = false -> late_names_ok s lates ->
  functor_ctor s ctor ov ie = Ok st0 -> late_all q s st0 lates = Ok st ->
  exists e, bound_arguments s ctor lates = Ok e /\
    (forall k, is_va s k = false -> smem k (dflt st) = at_default s (enamed e) k) /\
    (forall k, is_va s k = false -> smem k (nond st) = kmem k (enamed e) && negb (at_default s (enamed e) k)) /\
    (has_va s = true -> smem (va_name s) (dflt st) = is_nil (evl e)) /\
    (has_va s = true -> smem (va_name s) (nond st) = evs e && negb (is_nil (evl e))).
Proof.
  intros q s ctor ov ie lates st0 st W Q LN C L. unfold bound_arguments.
  rewrite functor_ctor_supply in C by assumption.
  destruct (supply s eff0 ctor false false) as [e1|x] eqn:S1; [|discriminate].
  inversion C; subst st0; clear C.
  assert (eff_ok s e1) as OK1 by (eapply supply_ok; [assumption|apply eff0_ok|exact S1]).
  pose proof (late_all_rel q s lates _ e1 W OK1 (ctor_finish_rel s e1 ov ie W OK1) LN Q) as R.
  pose proof (late_all_sets q s lates _ e1 W OK1 (ctor_finish_rel s e1 ov ie W OK1) (ctor_finish_sets s e1 ov ie W OK1) LN Q) as RS.
  rewrite L in R, RS. destruct (supply_lates s e1 lates) as [e2|]; [|contradiction].
  exists e2. split; [reflexivity|]. split; [apply RS|]. split; [apply RS|]. split; apply RS.
Qed.

(* HyperEncode.v — encode: its errors are the ones try_encode swallows; what it accepts is decodable (soundness);
   and it inverts decode on templates whose candidates are distinguishable. *)
From PG Require Import Common.Tactics Model.Geno Proofs.GenoBasics Model.Hyper Model.HyperSpec Proofs.HyperBasics Proofs.HyperDecode.

Lemma cat2_cons : forall X Y O (f : X -> Y -> result (list O)) x r1 y r2,
  cat2 f (x :: r1) (y :: r2) = match f x y with
                               | Ok o => match cat2 f r1 r2 with Ok os => Ok (o ++ os) | Err e => Err e end
                               | Err e => Err e end.
Proof. reflexivity. Qed.

Section Enc.
  Variable cdec : nat -> str -> result tmpl.
  Variable cenc : nat -> tmpl -> result str.
  Variable w : tmpl -> bool.
  Variable q : hquirks.
  Notation enc := (enc cenc w q).
  Notation sdec := (sdec cdec w).

  Definition lst (ts vs : list tmpl) : result (list pdna) :=
    if length ts =? length vs then cat2 enc ts vs else Err E_VALUE.

  Lemma enc_leaf : forall l v, enc (TLeaf l) v =
    match v with TLeaf l' => if leaf_eqb l l' then Ok [] else Err E_VALUE | _ => Err E_VALUE end.
  Proof. reflexivity. Qed.
  Lemma enc_tdict : forall kvs v, enc (TDict kvs) v =
    match v with
    | TDict vs => match enc_fields enc vs kvs with
                  | Ok ds => if length kvs =? length vs then Ok ds else Err E_VALUE
                  | Err e => Err e end
    | _ => Err E_VALUE end.
  Proof. reflexivity. Qed.
  Lemma enc_tobj : forall c kvs v, enc (TObj c kvs) v =
    match v with
    | TObj c' vs => if (c =? c') && keys_eqb kvs vs then cat2 (fun kv xv => enc (snd kv) (snd xv)) kvs vs else Err E_VALUE
    | _ => Err E_VALUE end.
  Proof. reflexivity. Qed.
  Lemma enc_tlist : forall ts v, enc (TList ts) v =
    match v with TList vs => lst ts vs | TDict vs => list_vs_dict q vs | _ => Err E_VALUE end.
  Proof. reflexivity. Qed.
  Lemma enc_oneof : forall cands a v, enc (TOneOf cands a) v =
    if w (TOneOf cands a) then match first_match (fun c => enc c v) 0 cands with
                               | Ok cs => Ok [PChoices [cs]] | Err e => Err e end
    else match v with
         | TOneOf vs a' => if attrs_eqb a a' then lst cands vs else Err E_VALUE
         | _ => Err E_VALUE end.
  Proof. reflexivity. Qed.
  Lemma enc_manyof : forall k cands dist srt a v, enc (TManyOf k cands dist srt a) v =
    if w (TManyOf k cands dist srt a) then
      match v with
      | TList vs =>
          if length vs =? k then
            match map_res (fun x => first_match (fun c => enc c x) 0 cands) vs with
            | Ok cs => if constraint_ok dist srt (map fst cs) then Ok [PChoices cs] else Err E_VALUE
            | Err e => Err e end
          else Err E_VALUE
      | _ => Err E_VALUE end
    else match v with
         | TManyOf k' vs dist' srt' a' =>
             if attrs_eqb a a' && (k =? k') then
               match lst cands vs with
               | Ok o => if Bool.eqb dist dist' && Bool.eqb srt srt' then Ok o else Err E_VALUE
               | Err e => Err e end
             else Err E_VALUE
         | _ => Err E_VALUE end.
  Proof. reflexivity. Qed.

  (* ================= errors ================================================================================= *)
  Hypothesis Hcenc_err : forall ck v e, cenc ck v = Err e -> catchable e = true.

  (* either the finding is repaired, or the template has no list node (the only place it can be reached) *)
  Definition okq (t : tmpl) : Prop := q_list_dict q = false \/ nolist t = true.
  Definition errs_ok (t : tmpl) : Prop := forall v e, enc t v = Err e -> catchable e = true.

  Lemma okq_forall : forall (l : list tmpl), (q_list_dict q = false \/ forallb nolist l = true) -> Forall okq l.
  Proof.
    intros l [H|H]; apply Forall_forall; intros x Hx; [left; auto | right]. rewrite forallb_forall in H; auto.
  Qed.
  Lemma okq_forall_kvs : forall (l : list (str * tmpl)),
    (q_list_dict q = false \/ forallb (fun kv => nolist (snd kv)) l = true) -> Forall (fun kv => okq (snd kv)) l.
  Proof.
    intros l [H|H]; apply Forall_forall; intros x Hx; [left; auto | right]. rewrite forallb_forall in H; auto.
  Qed.
  Lemma Forall_mp : forall A (P Q : A -> Prop) l, Forall (fun x => P x -> Q x) l -> Forall P l -> Forall Q l.
  Proof. induction 1; intros HP; inv HP; constructor; auto. Qed.

  Lemma cat2_err : forall X Y (f : X -> Y -> result (list pdna)) l1,
    Forall (fun x => forall y e, f x y = Err e -> catchable e = true) l1 ->
    forall l2 e, cat2 f l1 l2 = Err e -> catchable e = true.
  Proof.
    induction 1 as [|x l1 Hx _ IH]; intros [|y l2] e H0; try (simpl in H0; inv H0; reflexivity).
    rewrite cat2_cons in H0. destruct (f x y) eqn:E.
    - destruct (cat2 f l1 l2) eqn:E2; inv H0. eauto.
    - inv H0. eauto.
  Qed.

  Lemma first_match_err : forall cands, Forall errs_ok cands -> forall v n e,
    first_match (fun c => enc c v) n cands = Err e -> catchable e = true.
  Proof.
    induction 1 as [|c cands Hc _ IH]; intros v n e H0; simpl in H0.
    - inv H0; reflexivity.
    - destruct (enc c v) eqn:E; try discriminate.
      rewrite (Hc _ _ E) in H0. eauto.
  Qed.

  Lemma map_res_err : forall A B (f : A -> result B) l e,
    (forall x e, f x = Err e -> catchable e = true) -> map_res f l = Err e -> catchable e = true.
  Proof.
    induction l; intros e Hf H0; [simpl in H0; discriminate|].
    rewrite map_res_cons in H0. destruct (f a) eqn:E.
    - destruct (map_res f l) eqn:E2; inv H0. eauto.
    - inv H0. eauto.
  Qed.

  Lemma enc_fields_err : forall vs kvs, Forall (fun kv => errs_ok (snd kv)) kvs -> forall e,
    enc_fields enc vs kvs = Err e -> catchable e = true.
  Proof.
    intros vs. induction 1 as [|[k t'] kvs Hc _ IH]; intros e H0; simpl in H0; try discriminate.
    destruct (lookup k vs) as [x|]; [|inv H0; reflexivity].
    destruct (enc t' x) eqn:E.
    - destruct (enc_fields enc vs kvs) eqn:E2; inv H0. eauto.
    - inv H0. eapply Hc; eauto.
  Qed.

  Lemma lst_err : forall ts, Forall errs_ok ts -> forall vs e, lst ts vs = Err e -> catchable e = true.
  Proof.
    unfold lst; intros ts HF vs e H0. destruct (length ts =? length vs); [|inv H0; reflexivity].
    eapply cat2_err; eauto.
  Qed.

  Lemma enc_errs : forall t, okq t -> errs_ok t.
  Proof.
    induction t using tmpl_ind'; intros Hok v e H0.
    - rewrite enc_leaf in H0. destruct v; try (inv H0; reflexivity). destruct (leaf_eqb l l0); inv H0; reflexivity.
    - assert (H' : Forall (fun kv => errs_ok (snd kv)) kvs) by (eapply Forall_mp; [exact H | apply okq_forall_kvs; exact Hok]).
      rewrite enc_tdict in H0. destruct v; try (inv H0; reflexivity).
      destruct (enc_fields enc kvs0 kvs) eqn:E; [destruct (length kvs =? length kvs0); inv H0; reflexivity|].
      inv H0. eapply enc_fields_err; eauto.
    - assert (H' : Forall (fun kv => errs_ok (snd kv)) kvs) by (eapply Forall_mp; [exact H | apply okq_forall_kvs; exact Hok]).
      rewrite enc_tobj in H0. destruct v; try (inv H0; reflexivity).
      destruct (_ && _); [|inv H0; reflexivity].
      eapply cat2_err; [|exact H0]. eapply Forall_impl; [|exact H']. intros kv Hkv y e0 He0. eapply Hkv; eauto.
    - destruct Hok as [Hq|Hn]; [|discriminate Hn].
      assert (H' : Forall errs_ok ts) by (eapply Forall_mp; [exact H | apply okq_forall; left; exact Hq]).
      rewrite enc_tlist in H0. destruct v; try (inv H0; reflexivity).
      + unfold list_vs_dict in H0. rewrite Hq in H0. inv H0; reflexivity.
      + eapply lst_err; eauto.
    - assert (H' : Forall errs_ok cands) by (eapply Forall_mp; [exact H | apply okq_forall; exact Hok]).
      rewrite enc_oneof in H0. destruct (w (TOneOf cands a)).
      + destruct (first_match _ 0 cands) eqn:E; inv H0. eapply first_match_err; eauto.
      + destruct v; try (inv H0; reflexivity). destruct (attrs_eqb a a0); [|inv H0; reflexivity]. eapply lst_err; eauto.
    - assert (H' : Forall errs_ok cands) by (eapply Forall_mp; [exact H | apply okq_forall; exact Hok]).
      rewrite enc_manyof in H0. destruct (w (TManyOf k cands d s a)).
      + destruct v; try (inv H0; reflexivity). destruct (length ts =? k); [|inv H0; reflexivity].
        destruct (map_res _ ts) eqn:E.
        * destruct (constraint_ok d s (map fst a0)); inv H0; reflexivity.
        * inv H0. eapply map_res_err; [|exact E]. intros x e0 He0. eapply (first_match_err cands H' x 0 e0). exact He0.
      + destruct v; try (inv H0; reflexivity). destruct (_ && _); [|inv H0; reflexivity].
        destruct (lst cands cands0) eqn:E.
        * destruct (_ && _); inv H0; reflexivity.
        * inv H0. eapply lst_err; eauto.
    - simpl in H0. destruct (w (TFloat lo hi a)).
      + destruct v; try (inv H0; reflexivity). destruct l; try (inv H0; reflexivity). destruct (_ && _); inv H0; reflexivity.
      + destruct v; try (inv H0; reflexivity). destruct (_ && _); inv H0; reflexivity.
    - simpl in H0. destruct (w (TCustom ck a)).
      + destruct (cenc ck v) eqn:E; inv H0. eauto.
      + destruct v; try (inv H0; reflexivity). destruct (_ && _); inv H0; reflexivity.
  Qed.

  (* ================= soundness: what encode accepts is (==) a decodable value ================================ *)
  Hypothesis Hcenc_sound : forall ck v s, cenc ck v = Ok s -> exists v', cdec ck s = Ok v' /\ veq v' v = true.

  Definition sound (t : tmpl) : Prop := wf_t t -> forall v ds, enc t v = Ok ds ->
    exists ds', (forall p, forallb2 valid_p (pts w p t) ds' = true) /\
                forall rest, exists v', sdec t (ds' ++ rest) = Ok (v', rest) /\ veq v' v = true.

  Lemma with_key_lookup : forall X B (g : X -> B) d l k,
    with_key g d l k = match lookup k l with Some x => g x | None => d end.
  Proof. induction l as [|[k' x] l IH]; intros; simpl; auto. destruct (str_eqb k k'); auto. Qed.
  Lemma lookup_In : forall X k (l : list (str * X)) x, lookup k l = Some x -> In (k, x) l.
  Proof.
    induction l as [|[k' y] l IH]; simpl; intros; try discriminate.
    destruct (str_eqb k k') eqn:E; auto. inv H. apply str_eqb_eq in E; subst; auto.
  Qed.
  Lemma lookup_NoDup : forall X k (l : list (str * X)) x, NoDup (map fst l) -> In (k, x) l -> lookup k l = Some x.
  Proof.
    induction l as [|[k' y] l IH]; simpl; intros x ND Hin; [contradiction|]. inv ND.
    destruct Hin as [E|Hin].
    - inv E. rewrite str_eqb_refl; auto.
    - destruct (str_eqb k k') eqn:E; auto. apply str_eqb_eq in E; subst.
      exfalso; apply H1. change k' with (fst (k', x)). apply in_map; auto.
  Qed.
  Lemma all_P_Forall : forall A (P : A -> Prop) l, all_P P l <-> Forall P l.
  Proof. induction l; simpl; split; intros; auto. - destruct H; constructor; tauto. - inv H; tauto. Qed.

  Lemma sound_cat2 : forall ts, Forall sound ts -> Forall wf_t ts -> forall vs ds, cat2 enc ts vs = Ok ds ->
    exists ds', (forall (pf : nat -> list ikey) n, forallb2 valid_p (flat_mapi (fun i x => pts w (pf i) x) n ts) ds' = true) /\
                forall rest, exists vs', trav_list sdec ts (ds' ++ rest) = Ok (vs', rest) /\ forallb2 veq vs' vs = true.
  Proof.
    induction 1 as [|t ts Ht _ IH]; intros Hwf [|v vs] ds H0; try (simpl in H0; discriminate).
    - exists []; split; auto. intros; exists []; auto.
    - apply Forall_cons_iff in Hwf as [Hw1 Hw2]. rewrite cat2_cons in H0. destruct (enc t v) as [o|] eqn:E; try discriminate.
      destruct (cat2 enc ts vs) as [os|] eqn:E2; try discriminate.
      destruct (Ht Hw1 _ _ E) as (d1 & Hv1 & Hd1). destruct (IH Hw2 _ _ E2) as (d2 & Hv2 & Hd2).
      exists (d1 ++ d2); split.
      + intros; rewrite flat_mapi_cons. apply forallb2_app; auto.
      + intros rest. rewrite <- app_assoc, trav_list_cons.
        destruct (Hd1 (d2 ++ rest)) as (v' & -> & Hq1). destruct (Hd2 rest) as (vs' & -> & Hq2).
        exists (v' :: vs'); split; auto. simpl. rewrite Hq1, Hq2; auto.
  Qed.

  Lemma sound_cat2_kvs : forall kvs, Forall (fun kv => sound (snd kv)) kvs -> Forall (fun kv => wf_t (snd kv)) kvs ->
    forall vs ds, keys_eqb kvs vs = true -> cat2 (fun kv xv => enc (snd kv) (snd xv)) kvs vs = Ok ds ->
    exists ds', (forall (pf : str -> list ikey), forallb2 valid_p (flat_map (fun kv => pts w (pf (fst kv)) (snd kv)) kvs) ds' = true) /\
                forall rest, exists kvs', trav_kvs sdec kvs (ds' ++ rest) = Ok (kvs', rest) /\
                                          forallb2 (fun x y => str_eqb (fst x) (fst y) && veq (snd x) (snd y)) kvs' vs = true.
  Proof.
    induction 1 as [|[k t] kvs Ht _ IH]; intros Hwf [|[k' v] vs] ds Hk H0; try (simpl in Hk; discriminate).
    - exists []; split; auto. intros; exists []; auto.
    - apply Forall_cons_iff in Hwf as [Hw1 Hw2]. simpl in Hk. apply andb_true_iff in Hk as [Hk1 Hk2].
      rewrite cat2_cons in H0. simpl in H0, Ht, Hw1. destruct (enc t v) as [o|] eqn:E; try discriminate.
      destruct (cat2 _ kvs vs) as [os|] eqn:E2; try discriminate.
      destruct (Ht Hw1 _ _ E) as (d1 & Hv1 & Hd1). destruct (IH Hw2 _ _ Hk2 E2) as (d2 & Hv2 & Hd2).
      exists (d1 ++ d2); split.
      + intros; simpl. apply forallb2_app; auto.
      + intros rest. rewrite <- app_assoc, trav_kvs_cons.
        destruct (Hd1 (d2 ++ rest)) as (v' & -> & Hq1). destruct (Hd2 rest) as (vs' & -> & Hq2).
        exists ((k, v') :: vs'); split; auto. simpl. rewrite Hk1, Hq1, Hq2; auto.
  Qed.

  Lemma sound_fields : forall vs l, Forall (fun kv => sound (snd kv)) l -> Forall (fun kv => wf_t (snd kv)) l ->
    forall ds, enc_fields enc vs l = Ok ds ->
    exists ds', (forall (pf : str -> list ikey), forallb2 valid_p (flat_map (fun kv => pts w (pf (fst kv)) (snd kv)) l) ds' = true) /\
      forall rest, exists l', trav_kvs sdec l (ds' ++ rest) = Ok (l', rest) /\ length l' = length l /\
        forallb (fun kv => with_key (fun y => veq (snd kv) y) false vs (fst kv)) l' = true.
  Proof.
    intros vs. induction l as [|[k t] l IH]; intros Hs Hwf ds H0.
    - exists []; split; auto. intros; exists []; auto.
    - apply Forall_cons_iff in Hs as [Hs1 Hs2]. apply Forall_cons_iff in Hwf as [Hw1 Hw2]. simpl in Hs1, Hw1.
      simpl in H0. destruct (lookup k vs) as [x|] eqn:Lk; try discriminate.
      destruct (enc t x) as [o|] eqn:Ho; try discriminate.
      destruct (enc_fields enc vs l) as [os|] eqn:E2; try discriminate.
      destruct (Hs1 Hw1 _ _ Ho) as (d1 & Hv1 & Hd1).
      destruct (IH Hs2 Hw2 _ eq_refl) as (d2 & Hv2 & Hd2).
      exists (d1 ++ d2); split.
      + intros; simpl; apply forallb2_app; auto.
      + intros rest. rewrite <- app_assoc, trav_kvs_cons.
        destruct (Hd1 (d2 ++ rest)) as (v' & -> & Hq1). destruct (Hd2 rest) as (l' & -> & Hlen & Hq2).
        exists ((k, v') :: l'); repeat split; simpl; auto.
        rewrite with_key_lookup, Lk, Hq1, Hq2; auto.
  Qed.

  Lemma first_match_ok : forall (f : tmpl -> result (list pdna)) cands n i sub,
    first_match f n cands = Ok (i, sub) ->
    exists j c ds, i = n + j /\ sub = SSpace ds /\ nth_error cands j = Some c /\ f c = Ok ds.
  Proof.
    induction cands as [|c cands IH]; simpl; intros; try discriminate.
    destruct (f c) as [ds|e] eqn:E.
    - inv H. exists 0, c, ds; repeat split; auto.
    - destruct (catchable e); try discriminate.
      destruct (IH _ _ _ H) as (j & c' & ds & -> & -> & Hn & Hf).
      exists (S j), c', ds; repeat split; auto. lia.
  Qed.

  Lemma sound_choice : forall cands, Forall sound cands -> Forall wf_t cands -> forall x cs,
    first_match (fun c => enc c x) 0 cands = Ok cs ->
    exists sub', with_nth (fun s => valid s sub') false (map (fun c => Space (pts w [] c)) cands) (fst cs) = true /\
                 exists v', choice_of cdec w cands (fst cs, sub') = Ok v' /\ veq v' x = true.
  Proof.
    intros cands Hs Hwf x [i sub] H0.
    destruct (first_match_ok _ _ _ _ _ H0) as (j & c & ds & -> & -> & Hn & Hf). simpl.
    destruct (nth_error_Forall _ _ _ _ _ Hs Hn (nth_error_Forall _ _ _ _ _ Hwf Hn) _ _ Hf) as (d' & Hv & Hd).
    exists (SSpace d'); split.
    - rewrite with_nth_map, with_nth_nth_error, Hn. simpl. apply Hv.
    - unfold choice_of; simpl. rewrite with_nth_nth_error, Hn.
      destruct (Hd []) as (v' & Hd' & Hq'). rewrite app_nil_r in Hd'. rewrite Hd'. simpl. eauto.
  Qed.

  Lemma sound_many : forall cands, Forall sound cands -> Forall wf_t cands -> forall vs cs,
    map_res (fun x => first_match (fun c => enc c x) 0 cands) vs = Ok cs ->
    exists cs', map fst cs' = map fst cs /\ length cs' = length vs /\
      forallb (fun cs0 => with_nth (fun s => valid s (snd cs0)) false (map (fun c => Space (pts w [] c)) cands) (fst cs0)) cs' = true /\
      exists vs', map_res (choice_of cdec w cands) cs' = Ok vs' /\ forallb2 veq vs' vs = true.
  Proof.
    intros cands Hs Hwf. induction vs as [|x vs IH]; intros cs H0.
    - simpl in H0. inv H0. exists []; repeat split; auto. exists []; auto.
    - rewrite map_res_cons in H0. destruct (first_match _ 0 cands) as [c|] eqn:E; try discriminate.
      destruct (map_res _ vs) as [cs1|] eqn:E2; try discriminate. inv H0.
      destruct (sound_choice cands Hs Hwf x c E) as (sub' & Hv & v' & Hc & Hq').
      destruct (IH _ eq_refl) as (cs' & Hf & Hl & Hv2 & vs' & Hm & Hq2).
      exists ((fst c, sub') :: cs').
      split; [simpl; rewrite Hf; auto|]. split; [simpl; rewrite Hl; auto|].
      split; [simpl; simpl in Hv; rewrite Hv, Hv2; auto|].
      exists (v' :: vs'). rewrite map_res_cons, Hc, Hm. split; auto. simpl. rewrite Hq', Hq2; auto.
  Qed.

  Lemma constraint_one : forall i, constraint_ok true false [i] = true.
  Proof. intros; reflexivity. Qed.

  Lemma enc_sound : forall t, sound t.
  Proof.
    induction t using tmpl_ind'; intros Hwf v ds H0.
    - (* leaf *) rewrite enc_leaf in H0. destruct v; try discriminate. destruct (leaf_eqb l l0) eqn:E; inv H0.
      exists []; split; auto. intros rest; exists (TLeaf l); auto.
    - (* dict *) rewrite enc_tdict in H0. destruct v; try discriminate.
      destruct (enc_fields enc kvs0 kvs) as [ds0|] eqn:E0; try discriminate.
      destruct (length kvs =? length kvs0) eqn:Clen; inv H0.
      destruct Hwf as [ND Hw]. apply all_P_Forall in Hw.
      destruct (sound_fields kvs0 kvs H Hw _ E0) as (ds' & Hv & Hd).
      exists ds'; split; [intros p; simpl; apply (Hv (fun k => p ++ [KName k]))|]. intros rest. destruct (Hd rest) as (l' & Hl & Hlen & Hq').
      exists (TDict l'). rewrite sdec_dict, Hl. split; auto. simpl. rewrite Hlen, Clen, Hq'; auto.
    - (* object *) rewrite enc_tobj in H0. destruct v; try discriminate.
      destruct (_ && _) eqn:C; try discriminate. apply andb_true_iff in C as [Cc Ck].
      destruct Hwf as [ND Hw]. apply all_P_Forall in Hw.
      destruct (sound_cat2_kvs kvs H Hw _ _ Ck H0) as (ds' & Hv & Hd).
      exists ds'; split; [intros p; simpl; apply (Hv (fun k => p ++ [KName k]))|]. intros rest. destruct (Hd rest) as (l' & Hl & Hq').
      exists (TObj c l'). rewrite sdec_obj, Hl. split; auto. simpl. rewrite Cc, Hq'; auto.
    - (* list *) rewrite enc_tlist in H0. apply all_P_Forall in Hwf. destruct v; try discriminate.
      + unfold list_vs_dict in H0. destruct (q_list_dict q); [destruct kvs|]; discriminate.
      + unfold lst in H0. destruct (length ts =? length ts0); try discriminate.
        destruct (sound_cat2 ts H Hwf _ _ H0) as (ds' & Hv & Hd).
        exists ds'; split; [intros p; simpl; apply (Hv (fun i => p ++ [KIdx i]) 0)|]. intros rest. destruct (Hd rest) as (l' & Hl & Hq').
        exists (TList l'). rewrite sdec_list, Hl. auto.
    - (* oneof *) rewrite enc_oneof in H0. simpl in Hwf. apply all_P_Forall in Hwf. destruct (w (TOneOf cands a)) eqn:W.
      + destruct (first_match _ 0 cands) as [cs|] eqn:E; inv H0.
        destruct (sound_choice cands H Hwf v cs E) as (sub' & Hv & v' & Hc & Hq').
        exists [PChoices [(fst cs, sub')]]; split.
        * intros p. simpl. rewrite W. simpl. simpl in Hv. rewrite Hv. reflexivity.
        * intros rest. exists v'. rewrite sdec_oneof, W. simpl. rewrite Hc. auto.
      + destruct v; try discriminate. destruct (attrs_eqb a a0) eqn:Ea; try discriminate.
        unfold lst in H0. destruct (length cands =? length cands0); try discriminate.
        destruct (sound_cat2 cands H Hwf _ _ H0) as (ds' & Hv & Hd).
        exists ds'; split; [intros p; simpl; rewrite W; apply (Hv (fun i => p ++ [KName s_candidates; KIdx i]) 0)|]. intros rest. destruct (Hd rest) as (l' & Hl & Hq').
        exists (TOneOf l' a). rewrite sdec_oneof, W, Hl. split; auto. simpl. rewrite Ea, Hq'; auto.
    - (* manyof *) rewrite enc_manyof in H0. simpl in Hwf. apply all_P_Forall in Hwf. destruct (w (TManyOf k cands d s a)) eqn:W.
      + destruct v; try discriminate. destruct (length ts =? k) eqn:Elen; try discriminate.
        destruct (map_res _ ts) as [cs|] eqn:E; try discriminate.
        destruct (constraint_ok d s (map fst cs)) eqn:Ec; inv H0.
        destruct (sound_many cands H Hwf ts cs E) as (cs' & Hf & Hl & Hv & vs' & Hm & Hq').
        exists [PChoices cs']; split.
        * intros p. simpl. rewrite W. simpl. rewrite Hl, Elen, Hf, Ec, Hv. reflexivity.
        * intros rest. exists (TList vs'). rewrite sdec_manyof, W. simpl. rewrite Hl, Elen, Hf, Ec. simpl. rewrite Hm. auto.
      + destruct v; try discriminate. destruct (_ && _) eqn:C; try discriminate.
        apply andb_true_iff in C as [Ea Ek].
        destruct (lst cands cands0) as [o|] eqn:E; try discriminate.
        destruct (_ && _) eqn:C2; inv H0. apply andb_true_iff in C2 as [Ed Es].
        unfold lst in E. destruct (length cands =? length cands0); try discriminate.
        destruct (sound_cat2 cands H Hwf _ _ E) as (ds' & Hv & Hd).
        exists ds'; split; [intros p; simpl; rewrite W; apply (Hv (fun i => p ++ [KName s_candidates; KIdx i]) 0)|]. intros rest. destruct (Hd rest) as (l' & Hl & Hq').
        exists (TManyOf k l' d s a). rewrite sdec_manyof, W, Hl. split; auto. simpl. rewrite Ea, Ek, Ed, Es, Hq'; auto.
    - (* float *) simpl in H0. destruct (w (TFloat lo hi a)) eqn:W.
      + destruct v; try discriminate. destruct l; try discriminate. destruct (_ && _) eqn:C; inv H0.
        exists [PFloat f]; split.
        * intros p. simpl. rewrite W. simpl. rewrite C. reflexivity.
        * intros rest. exists (TLeaf (LfFlt f)). simpl. rewrite W, C. split; auto. simpl. apply Z.eqb_refl.
      + destruct v; try discriminate. destruct (_ && _) eqn:C; inv H0.
        exists []; split; [intros; simpl; rewrite W; auto|]. intros rest. exists (TFloat lo hi a). simpl. rewrite W. split; auto.
        apply andb_true_iff in C as [C Chi]. apply andb_true_iff in C as [Ca Clo]. rewrite Clo, Chi, Ca; auto.
    - (* custom *) simpl in H0. destruct (w (TCustom ck a)) eqn:W.
      + destruct (cenc ck v) as [s|] eqn:E; inv H0. destruct (Hcenc_sound _ _ _ E) as (v' & Hd & Hq').
        exists [PCustom s]; split.
        * intros p. simpl. rewrite W. reflexivity.
        * intros rest. exists v'. simpl. rewrite W, Hd. auto.
      + destruct v; try discriminate. destruct (_ && _) eqn:C; inv H0.
        exists []; split; [intros; simpl; rewrite W; auto|]. intros rest. exists (TCustom ck a). simpl. rewrite W. split; auto.
  Qed.

  (* ================= encode inverts decode on distinguishable templates ====================================== *)
  Hypothesis Hcenc_dec : forall ck s v, cdec ck s = Ok v -> cenc ck v = Ok s.

  Definition inv_ok (t : tmpl) : Prop := wf_t t -> okq t -> distinguishable cdec w t -> forall p ds1 rest v r,
    forallb2 valid_p (pts w p t) ds1 = true -> sdec t (ds1 ++ rest) = Ok (v, r) -> r = rest /\ enc t v = Ok ds1.

  Lemma leaf_eqb_refl : forall l, leaf_eqb l l = true.
  Proof. destruct l; simpl; auto using Z.eqb_refl, str_eqb_refl. Qed.
  Lemma attrs_eqb_refl : forall a, attrs_eqb a a = true.
  Proof.
    destruct a as [n h]; unfold attrs_eqb; simpl. destruct n, h; simpl; rewrite ?str_eqb_refl, ?Z.eqb_refl; auto.
  Qed.

  Lemma inv_list : forall ts, Forall inv_ok ts -> Forall wf_t ts -> Forall okq ts -> Forall (distinguishable cdec w) ts ->
    forall (pf : nat -> list ikey) n ds1 rest vs r,
    forallb2 valid_p (flat_mapi (fun i x => pts w (pf i) x) n ts) ds1 = true ->
    trav_list sdec ts (ds1 ++ rest) = Ok (vs, r) -> r = rest /\ cat2 enc ts vs = Ok ds1 /\ length ts = length vs.
  Proof.
    induction 1 as [|t ts Ht _ IH]; intros Hwf Hok Hdi pf n ds1 rest vs r Hv Hd.
    - destruct ds1; [|discriminate Hv]. simpl in Hd. inv Hd. auto.
    - apply Forall_cons_iff in Hwf as [Hw1 Hw2]. apply Forall_cons_iff in Hok as [Ho1 Ho2]. apply Forall_cons_iff in Hdi as [Hd1 Hd2].
      rewrite flat_mapi_cons in Hv. apply forallb2_app_l in Hv as (d1 & d2 & -> & H1 & H2).
      rewrite <- app_assoc, trav_list_cons in Hd.
      destruct (sdec t (d1 ++ d2 ++ rest)) as [[v1 r1]|] eqn:E1; try discriminate.
      destruct (Ht Hw1 Ho1 Hd1 _ _ _ _ _ H1 E1) as [-> He1].
      destruct (trav_list sdec ts (d2 ++ rest)) as [[vs2 r2]|] eqn:E2; try discriminate. inv Hd.
      destruct (IH Hw2 Ho2 Hd2 _ _ _ _ _ _ H2 E2) as (-> & He2 & Hl).
      rewrite cat2_cons, He1, He2. simpl; auto.
  Qed.

  Lemma inv_kvs : forall kvs, Forall (fun kv => inv_ok (snd kv)) kvs -> Forall (fun kv => wf_t (snd kv)) kvs ->
    Forall (fun kv => okq (snd kv)) kvs -> Forall (fun kv => distinguishable cdec w (snd kv)) kvs ->
    forall (pf : str -> list ikey) ds1 rest kvs' r,
    forallb2 valid_p (flat_map (fun kv => pts w (pf (fst kv)) (snd kv)) kvs) ds1 = true ->
    trav_kvs sdec kvs (ds1 ++ rest) = Ok (kvs', r) ->
    r = rest /\ cat2 (fun kv xv => enc (snd kv) (snd xv)) kvs kvs' = Ok ds1 /\ map fst kvs' = map fst kvs.
  Proof.
    induction 1 as [|[k t] kvs Ht _ IH]; intros Hwf Hok Hdi pf ds1 rest kvs' r Hv Hd.
    - destruct ds1; [|discriminate Hv]. simpl in Hd. inv Hd. auto.
    - apply Forall_cons_iff in Hwf as [Hw1 Hw2]. apply Forall_cons_iff in Hok as [Ho1 Ho2]. apply Forall_cons_iff in Hdi as [Hd1 Hd2]. simpl in Ht, Hw1, Ho1, Hd1.
      simpl in Hv. apply forallb2_app_l in Hv as (d1 & d2 & -> & H1 & H2).
      rewrite <- app_assoc, trav_kvs_cons in Hd.
      destruct (sdec t (d1 ++ d2 ++ rest)) as [[v1 r1]|] eqn:E1; try discriminate.
      destruct (Ht Hw1 Ho1 Hd1 _ _ _ _ _ H1 E1) as [-> He1].
      destruct (trav_kvs sdec kvs (d2 ++ rest)) as [[vs2 r2]|] eqn:E2; try discriminate. inv Hd.
      destruct (IH Hw2 Ho2 Hd2 _ _ _ _ _ H2 E2) as (-> & He2 & Hl).
      rewrite cat2_cons. simpl. rewrite He1, He2, Hl. auto.
  Qed.

  Lemma keys_eqb_same : forall (a b : list (str * tmpl)), map fst b = map fst a -> keys_eqb a b = true.
  Proof.
    induction a as [|[k x] a IH]; destruct b as [|[k' y] b]; simpl; intros; try discriminate; auto.
    inv H. rewrite str_eqb_refl; simpl; auto.
  Qed.
  Lemma has_key_in : forall (l : list (str * tmpl)) k, In k (map fst l) -> has_key k l = true.
  Proof.
    unfold has_key. induction l as [|[k' x] l IH]; simpl; intros; [contradiction|].
    destruct (str_eqb k k') eqn:E; auto. destruct H; [subst; rewrite str_eqb_refl in E; discriminate | auto].
  Qed.

  Lemma trav_kvs_keys0 : forall (l : list (str * tmpl)) ds l' r, trav_kvs sdec l ds = Ok (l', r) -> map fst l' = map fst l.
  Proof.
    induction l as [|[k x] l IH]; intros ds l' r H.
    - simpl in H. inv H. auto.
    - rewrite trav_kvs_cons in H. destruct (sdec x ds) as [[v s1]|]; try discriminate.
      destruct (trav_kvs sdec l s1) as [[vs s2]|] eqn:E; inv H. simpl. f_equal. eauto.
  Qed.

  (* the dict version: the encoder walks the template's keys and looks the value's entry up (in the whole decoded dict) *)
  Lemma inv_dict : forall fullv, NoDup (map fst fullv) -> forall l,
    Forall (fun kv => inv_ok (snd kv)) l -> Forall (fun kv => wf_t (snd kv)) l -> Forall (fun kv => okq (snd kv)) l ->
    Forall (fun kv => distinguishable cdec w (snd kv)) l ->
    forall (pf : str -> list ikey) ds1 rest l' r,
    forallb2 valid_p (flat_map (fun kv => pts w (pf (fst kv)) (snd kv)) l) ds1 = true ->
    trav_kvs sdec l (ds1 ++ rest) = Ok (l', r) -> incl l' fullv ->
    r = rest /\ enc_fields enc fullv l = Ok ds1.
  Proof.
    intros fullv ND. induction l as [|[k t] l IH]; intros Hi Hwf Hok Hdi pf ds1 rest l' r Hv Hd Hincl.
    - destruct ds1; [|discriminate Hv]. simpl in Hd. inv Hd. auto.
    - apply Forall_cons_iff in Hi as [Hi1 Hi2]. apply Forall_cons_iff in Hwf as [Hw1 Hw2]. apply Forall_cons_iff in Hok as [Ho1 Ho2].
      apply Forall_cons_iff in Hdi as [Hd1 Hd2]. simpl in Hi1, Hw1, Ho1, Hd1.
      simpl in Hv. apply forallb2_app_l in Hv as (d1 & d2 & -> & H1 & H2).
      rewrite <- app_assoc, trav_kvs_cons in Hd.
      destruct (sdec t (d1 ++ d2 ++ rest)) as [[v1 r1]|] eqn:E1; try discriminate.
      destruct (Hi1 Hw1 Ho1 Hd1 _ _ _ _ _ H1 E1) as [-> He1].
      destruct (trav_kvs sdec l (d2 ++ rest)) as [[vs2 r2]|] eqn:E2; try discriminate. inv Hd.
      assert (Hincl' : incl vs2 fullv) by (intros kv Hkv; apply Hincl; right; auto).
      destruct (IH Hi2 Hw2 Ho2 Hd2 _ _ _ _ _ H2 E2 Hincl') as (-> & He2).
      split; auto. simpl.
      rewrite (lookup_NoDup _ k fullv v1 ND) by (apply Hincl; left; auto).
      rewrite He1, He2. auto.
  Qed.

  Lemma first_match_at : forall v cands n c cc sub,
    nth_error cands c = Some cc -> enc cc v = Ok sub ->
    (forall i ci, i < c -> nth_error cands i = Some ci -> exists e, enc ci v = Err e /\ catchable e = true) ->
    first_match (fun c' => enc c' v) n cands = Ok (n + c, SSpace sub).
  Proof.
    induction cands as [|c0 cands IH]; intros n c cc sub Hn He Hlt.
    - destruct c; discriminate.
    - destruct c as [|c]; simpl in Hn.
      + inv Hn. simpl. rewrite He. f_equal. f_equal. lia.
      + simpl. destruct (Hlt 0 c0) as (e & Ee & Ec); [lia | reflexivity |]. rewrite Ee, Ec.
        rewrite (IH (S n) c cc sub Hn He).
        * f_equal. f_equal. lia.
        * intros i ci Hi Hni. apply (Hlt (S i) ci); [lia | exact Hni].
  Qed.

  Lemma inv_choice : forall cands, Forall inv_ok cands -> Forall wf_t cands -> Forall okq cands -> Forall (distinguishable cdec w) cands ->
    cand_distinct cdec w cands -> forall cs v,
    with_nth (fun s => valid s (snd cs)) false (map (fun c => Space (pts w [] c)) cands) (fst cs) = true ->
    choice_of cdec w cands cs = Ok v ->
    first_match (fun c' => enc c' v) 0 cands = Ok cs.
  Proof.
    intros cands Hi Hwf Hok Hdi Hcd [c [sds]] v Hv Hc. simpl in Hv. unfold choice_of in Hc; simpl in Hc.
    rewrite with_nth_map, with_nth_nth_error in Hv. rewrite with_nth_nth_error in Hc.
    destruct (nth_error cands c) as [cc|] eqn:En; try discriminate. simpl in Hv.
    destruct (sdec cc sds) as [[v0 r0]|] eqn:Ed; try discriminate.
    assert (Ed' : sdec cc (sds ++ []) = Ok (v0, r0)) by (rewrite app_nil_r; auto).
    destruct (nth_error_Forall _ _ _ _ _ Hi En (nth_error_Forall _ _ _ _ _ Hwf En) (nth_error_Forall _ _ _ _ _ Hok En) (nth_error_Forall _ _ _ _ _ Hdi En) _ _ _ _ _ Hv Ed') as [-> He].
    simpl in Hc. inv Hc.
    change (Ok (c, SSpace sds)) with (@Ok (nat * sdna) (0 + c, SSpace sds)).
    eapply first_match_at; eauto.
    intros i ci Hlt Hni. destruct (enc ci v) as [ds|e] eqn:Ee.
    - exfalso.
      destruct (enc_sound ci (nth_error_Forall _ _ _ _ _ Hwf Hni) _ _ Ee) as (ds' & Hv' & Hd').
      destruct (Hd' []) as (v' & Hdd & Hq'). rewrite app_nil_r in Hdd.
      assert (F : veq v' v = false).
      { apply (Hcd i c ci cc (SSpace ds') (SSpace sds) v' v); auto; try lia.
        - simpl. apply Hv'.
        - unfold sdecode. rewrite Hdd. reflexivity.
        - unfold sdecode. rewrite Ed. reflexivity. }
      congruence.
    - exists e; split; auto. eapply (enc_errs ci (nth_error_Forall _ _ _ _ _ Hok Hni)); eauto.
  Qed.

  Lemma inv_choices : forall cands, Forall inv_ok cands -> Forall wf_t cands -> Forall okq cands -> Forall (distinguishable cdec w) cands ->
    cand_distinct cdec w cands -> forall cs vs,
    forallb (fun cs0 => with_nth (fun s => valid s (snd cs0)) false (map (fun c => Space (pts w [] c)) cands) (fst cs0)) cs = true ->
    map_res (choice_of cdec w cands) cs = Ok vs ->
    map_res (fun x => first_match (fun c' => enc c' x) 0 cands) vs = Ok cs /\ length vs = length cs.
  Proof.
    intros cands Hi Hwf Hok Hdi Hcd. induction cs as [|c cs IH]; intros vs Hv Hm.
    - simpl in Hm. inv Hm. auto.
    - simpl in Hv. apply andb_true_iff in Hv as [Hv1 Hv2]. rewrite map_res_cons in Hm.
      destruct (choice_of cdec w cands c) as [v|] eqn:Ec; try discriminate.
      destruct (map_res (choice_of cdec w cands) cs) as [vs'|] eqn:Em; try discriminate. inv Hm.
      destruct (IH _ Hv2 eq_refl) as [Hm' Hl].
      rewrite map_res_cons, (inv_choice cands Hi Hwf Hok Hdi Hcd c v Hv1 Ec), Hm'. simpl; auto.
  Qed.

  Lemma enc_dec : forall t, inv_ok t.
  Proof.
    induction t using tmpl_ind'; intros Hwf Hok Hdi p ds1 rest v r Hv Hd.
    - (* leaf *) destruct ds1; [|discriminate Hv]. simpl in Hd. inv Hd. split; auto.
      rewrite enc_leaf, leaf_eqb_refl. auto.
    - (* dict *) destruct Hwf as [ND Hw]. apply all_P_Forall in Hw. simpl in Hdi. apply all_P_Forall in Hdi.
      apply okq_forall_kvs in Hok. simpl in Hv. rewrite sdec_dict in Hd.
      destruct (trav_kvs sdec kvs (ds1 ++ rest)) as [[kvs' r']|] eqn:E; inv Hd.
      pose proof (trav_kvs_keys0 _ _ _ _ E) as Hk.
      assert (ND' : NoDup (map fst kvs')) by (rewrite Hk; exact ND).
      destruct (inv_dict kvs' ND' kvs H Hw Hok Hdi (fun k => p ++ [KName k]) _ _ _ _ Hv E (incl_refl _)) as (-> & He).
      split; auto. rewrite enc_tdict, He.
      replace (length kvs =? length kvs') with true; auto.
      symmetry. apply Nat.eqb_eq. rewrite <- (map_length fst kvs), <- (map_length fst kvs'), Hk. auto.
    - (* object *) destruct Hwf as [ND Hw]. apply all_P_Forall in Hw. simpl in Hdi. apply all_P_Forall in Hdi.
      apply okq_forall_kvs in Hok. simpl in Hv. rewrite sdec_obj in Hd.
      destruct (trav_kvs sdec kvs (ds1 ++ rest)) as [[kvs' r']|] eqn:E; inv Hd.
      destruct (inv_kvs kvs H Hw Hok Hdi (fun k => p ++ [KName k]) _ _ _ _ Hv E) as (-> & He & Hk).
      split; auto. rewrite enc_tobj, Nat.eqb_refl, (keys_eqb_same _ _ Hk). auto.
    - (* list *) simpl in Hwf. apply all_P_Forall in Hwf. simpl in Hdi. apply all_P_Forall in Hdi.
      assert (Hok' : Forall okq ts) by (destruct Hok as [Hq|Hn]; [apply okq_forall; left; exact Hq | discriminate Hn]).
      simpl in Hv. rewrite sdec_list in Hd.
      destruct (trav_list sdec ts (ds1 ++ rest)) as [[ts' r']|] eqn:E; inv Hd.
      destruct (inv_list ts H Hwf Hok' Hdi (fun i => p ++ [KIdx i]) 0 _ _ _ _ Hv E) as (-> & He & Hl).
      split; auto. rewrite enc_tlist. unfold lst. rewrite Hl, Nat.eqb_refl. auto.
    - (* oneof *) simpl in Hwf. apply all_P_Forall in Hwf. destruct Hdi as [Hcd Hdi]. apply all_P_Forall in Hdi.
      apply okq_forall in Hok. simpl in Hv. rewrite sdec_oneof in Hd. rewrite enc_oneof. destruct (w (TOneOf cands a)) eqn:W.
      + destruct ds1 as [|x ds1]; simpl in Hv; try discriminate.
        apply andb_true_iff in Hv as [Hx Hn]. destruct ds1; [|discriminate Hn].
        destruct x as [cs| |]; simpl in Hx; try discriminate.
        apply andb_true_iff in Hx as [Hx Hall]. apply andb_true_iff in Hx as [Hlen _].
        destruct cs as [|c [|c' cs]]; simpl in Hlen; try discriminate.
        simpl in Hall. rewrite andb_true_r in Hall. simpl in Hd.
        destruct (choice_of cdec w cands c) as [v0|] eqn:Ec; inv Hd. split; auto.
        rewrite (inv_choice cands H Hwf Hok Hdi (Hcd eq_refl) c v Hall Ec). auto.
      + destruct (trav_list sdec cands (ds1 ++ rest)) as [[cands' r']|] eqn:E; inv Hd.
        destruct (inv_list cands H Hwf Hok Hdi (fun i => p ++ [KName s_candidates; KIdx i]) 0 _ _ _ _ Hv E) as (-> & He & Hl).
        split; auto. rewrite attrs_eqb_refl. unfold lst. rewrite Hl, Nat.eqb_refl. auto.
    - (* manyof *) simpl in Hwf. apply all_P_Forall in Hwf. destruct Hdi as [Hcd Hdi]. apply all_P_Forall in Hdi.
      apply okq_forall in Hok. simpl in Hv. rewrite sdec_manyof in Hd. rewrite enc_manyof. destruct (w (TManyOf k cands d s a)) eqn:W.
      + destruct ds1 as [|x ds1]; simpl in Hv; try discriminate.
        apply andb_true_iff in Hv as [Hx Hn]. destruct ds1; [|discriminate Hn].
        destruct x as [cs| |]; simpl in Hx; try discriminate.
        apply andb_true_iff in Hx as [Hx Hall]. apply andb_true_iff in Hx as [Hlen Hc].
        simpl in Hd. rewrite Hlen, Hc in Hd. simpl in Hd.
        destruct (map_res (choice_of cdec w cands) cs) as [vs|] eqn:Em; inv Hd. split; auto.
        destruct (inv_choices cands H Hwf Hok Hdi (Hcd eq_refl) cs vs Hall Em) as [Hm Hl].
        rewrite Hl, Hlen, Hm, Hc. auto.
      + destruct (trav_list sdec cands (ds1 ++ rest)) as [[cands' r']|] eqn:E; inv Hd.
        destruct (inv_list cands H Hwf Hok Hdi (fun i => p ++ [KName s_candidates; KIdx i]) 0 _ _ _ _ Hv E) as (-> & He & Hl).
        split; auto. rewrite attrs_eqb_refl, Nat.eqb_refl. simpl. unfold lst. rewrite Hl, Nat.eqb_refl, He.
        rewrite !Bool.eqb_reflx. auto.
    - (* float *) simpl in Hv, Hd. simpl. destruct (w (TFloat lo hi a)) eqn:W.
      + destruct ds1 as [|x ds1]; simpl in Hv; try discriminate.
        apply andb_true_iff in Hv as [Hx Hn]. destruct ds1; [|discriminate Hn].
        destruct x as [cs|f|]; simpl in Hx; try discriminate. simpl in Hd. rewrite Hx in Hd. inv Hd.
        rewrite Hx. auto.
      + destruct ds1; [|discriminate Hv]. simpl in Hd. inv Hd. rewrite attrs_eqb_refl, !Z.eqb_refl. auto.
    - (* custom *) simpl in Hv, Hd. simpl. destruct (w (TCustom ck a)) eqn:W.
      + destruct ds1 as [|x ds1]; simpl in Hv; try discriminate.
        apply andb_true_iff in Hv as [Hx Hn]. destruct ds1; [|discriminate Hn].
        destruct x as [cs|f|s]; simpl in Hx; try discriminate. simpl in Hd.
        destruct (cdec ck s) as [v0|] eqn:Ec; inv Hd. rewrite (Hcenc_dec _ _ _ Ec). auto.
      + destruct ds1; [|discriminate Hv]. simpl in Hd. inv Hd. rewrite attrs_eqb_refl, Nat.eqb_refl. auto.
  Qed.

  Lemma encode_decode_okq : forall t d v, wf_t t -> okq t -> distinguishable cdec w t ->
    valid (dna_spec w t) d = true -> sdecode cdec w t d = Ok v -> sencode cenc w q t v = Ok d.
  Proof.
    intros t [ds] v Hwf Hok Hdi Hv Hd. simpl in Hv. unfold sdecode in Hd. unfold sencode.
    destruct (sdec t ds) as [[v0 r]|] eqn:E; try discriminate.
    assert (E' : sdec t (ds ++ []) = Ok (v0, r)) by (rewrite app_nil_r; auto).
    destruct (enc_dec t Hwf Hok Hdi [] ds [] v0 r Hv E') as [-> He].
    simpl in Hd. inv Hd. rewrite He. auto.
  Qed.
End Enc.

(* what encode accepts is decodable — whether or not the open finding is repaired *)
Lemma encode_sound : forall cdec cenc w q,
  (forall ck v e, cenc ck v = Err e -> catchable e = true) ->
  (forall ck v s, cenc ck v = Ok s -> exists v', cdec ck s = Ok v' /\ veq v' v = true) ->
  forall t v ds, wf_t t -> enc cenc w q t v = Ok ds ->
  exists ds', (forall p, forallb2 valid_p (pts w p t) ds' = true) /\
              forall rest, exists v', sdec cdec w t (ds' ++ rest) = Ok (v', rest) /\ veq v' v = true.
Proof. intros cdec cenc w q He Hs t v ds Hwf. exact (enc_sound cdec cenc w q He Hs t Hwf v ds). Qed.

Lemma encode_decode : forall cdec cenc w q, no_hquirks q ->
  (forall ck v e, cenc ck v = Err e -> catchable e = true) ->
  (forall ck v s, cenc ck v = Ok s -> exists v', cdec ck s = Ok v' /\ veq v' v = true) ->
  (forall ck s v, cdec ck s = Ok v -> cenc ck v = Ok s) ->
  forall t d v, wf_t t -> distinguishable cdec w t ->
  valid (dna_spec w t) d = true -> sdecode cdec w t d = Ok v -> sencode cenc w q t v = Ok d.
Proof.
  intros cdec cenc w q Hq He Hs Hd t d v Hwf Hdi. apply (encode_decode_okq cdec cenc w q He Hs Hd); auto. left; exact Hq.
Qed.

(* with the finding unrepaired: still true on templates without a list node *)
Lemma encode_decode_partial : forall cdec cenc w q,
  (forall ck v e, cenc ck v = Err e -> catchable e = true) ->
  (forall ck v s, cenc ck v = Ok s -> exists v', cdec ck s = Ok v' /\ veq v' v = true) ->
  (forall ck s v, cdec ck s = Ok v -> cenc ck v = Ok s) ->
  forall t d v, avoids q t -> wf_t t -> distinguishable cdec w t ->
  valid (dna_spec w t) d = true -> sdecode cdec w t d = Ok v -> sencode cenc w q t v = Ok d.
Proof.
  intros cdec cenc w q He Hs Hd t d v Ha Hwf Hdi. apply (encode_decode_okq cdec cenc w q He Hs Hd); auto.
  unfold okq, avoids in *. destruct (q_list_dict q); [right; auto | left; auto].
Qed.

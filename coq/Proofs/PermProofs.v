(* Proofs about Model/Perm.v (property C19). *)
From PG Require Import Common.Tactics Common.Tr Gen.PermTable Model.Perm.
From Coq Require Import NArith.
Local Open Scope N_scope.

(* induction principle for the rose tree *)
Section AstInd.
  Variable P : ast -> Prop.
  Hypothesis H : forall k ks, Forall P ks -> P (Node k ks).
  Fixpoint ast_ind' (t : ast) : P t :=
    match t with
    | Node k ks =>
        H k ks ((fix go (l : list ast) : Forall P l :=
                   match l with
                   | [] => Forall_nil P
                   | x :: r => Forall_cons x (ast_ind' x) (go r)
                   end) ks)
    end.
End AstInd.

Lemma forallb_false_ex {A} (f : A -> bool) (l : list A) :
  forallb f l = false <-> exists x, In x l /\ f x = false.
Proof.
  induction l as [|a l IH]; simpl.
  - split; [discriminate | intros [x [[] _]]].
  - rewrite andb_false_iff, IH. split.
    + intros [Ha | [x [Hx Hf]]]; [exists a; auto | exists x; auto].
    + intros [x [[-> | Hx] Hf]]; [left; exact Hf | right; exists x; auto].
Qed.

Lemma validate_false_iff (tb : N -> list N) (g : perm) (t : ast) :
  validate tb g t = false <->
  exists n, subnode n t /\ exists f, In f (tb (kind n)) /\ g f = false.
Proof.
  induction t as [k ks IH] using ast_ind'.
  cbn [validate]. rewrite andb_false_iff. split.
  - intros [Hn | Hk].
    + apply forallb_false_ex in Hn. destruct Hn as [f [Hf Hg]].
      exists (Node k ks). split; [constructor | exists f; auto].
    + apply forallb_false_ex in Hk. destruct Hk as [c [Hc Hv]].
      rewrite Forall_forall in IH. apply (IH c Hc) in Hv.
      destruct Hv as [n [Hs Hf]]. exists n. split; [econstructor; eauto | exact Hf].
  - intros [n [Hs [f [Hf Hg]]]].
    inversion Hs as [Heq | k' ks' c Hc Hsub Heq]; subst.
    + left. apply forallb_false_ex. exists f. auto.
    + right. apply forallb_false_ex. exists c. split; [exact Hc|].
      rewrite Forall_forall in IH. apply (IH c Hc). exists n. split; [exact Hsub | exists f; auto].
Qed.

Lemma validate_true_iff (tb : N -> list N) (g : perm) (t : ast) :
  validate tb g t = true <->
  forall n, subnode n t -> forall f, In f (tb (kind n)) -> g f = true.
Proof.
  split.
  - intros Hv n Hs f Hf. destruct (g f) eqn:Hg; [reflexivity|].
    assert (validate tb g t = false) as Hc
      by (apply validate_false_iff; exists n; split; [exact Hs | exists f; auto]).
    congruence.
  - intros Hall. destruct (validate tb g t) eqn:Hv; [reflexivity|].
    apply validate_false_iff in Hv. destruct Hv as [n [Hs [f [Hf Hg]]]].
    rewrite (Hall n Hs f Hf) in Hg. discriminate.
Qed.

Lemma covers_spec (tb : N -> list N) :
  covers tb = true -> forall k f, In (k, f) required_pairs -> In f (tb k).
Proof.
  unfold covers. rewrite forallb_forall. intros H k f Hin.
  specialize (H (k, f) Hin). cbn [fst snd] in H.
  apply existsb_exists in H. destruct H as [x [Hx He]].
  apply N.eqb_eq in He. subst. exact Hx.
Qed.

(* a required construct, at any depth, whose flag is withheld: rejected before anything runs *)
Lemma no_forbidden_runs (outcome : Type) (exec : ast -> outcome) (tb : N -> list N) (g : perm) (t n : ast) (f : N) :
  covers tb = true -> subnode n t -> In (kind n, f) required_pairs -> g f = false ->
  evaluate outcome exec tb (Some g) t = CodeError outcome.
Proof.
  intros Hc Hs Hr Hg. unfold evaluate.
  assert (validate tb g t = false) as ->; [|reflexivity].
  apply validate_false_iff. exists n. split; [exact Hs|]. exists f. split; [|exact Hg].
  eapply covers_spec; eauto.
Qed.

Lemma granted_runs_whole_program (outcome : Type) (exec : ast -> outcome) (tb : N -> list N) (g : perm) (t : ast) :
  validate tb g t = true -> evaluate outcome exec tb (Some g) t = Ran outcome (exec t).
Proof. intros H. unfold evaluate. rewrite H. reflexivity. Qed.

(* more permissions never reject more *)
Lemma validate_monotone (tb : N -> list N) (g g' : perm) (t : ast) :
  (forall f, g f = true -> g' f = true) -> validate tb g t = true -> validate tb g' t = true.
Proof.
  intros Hsub Hv. rewrite validate_true_iff in *. intros n Hs f Hf. apply Hsub. eauto.
Qed.

(* nested scopes: the outermost wins, so inner scopes can never widen it *)
Lemma scope_nest_some o ps : scope_nest (Some o) ps = Some o.
Proof. induction ps as [|p r IH]; simpl; auto. Qed.

Lemma scope_outermost_wins p ps : scope_nest None (p :: ps) = Some p.
Proof. simpl. apply scope_nest_some. Qed.

Lemma scope_never_widens o ps e : scope_nest (Some o) ps = Some e -> subset_bits e o = true.
Proof.
  rewrite scope_nest_some. intros [= <-]. unfold subset_bits.
  rewrite N.land_diag. apply N.eqb_refl.
Qed.


Lemma testbit_subset a b f : subset_bits a b = true -> N.testbit a f = true -> N.testbit b f = true.
Proof.
  unfold subset_bits. intros H Ht. apply N.eqb_eq in H. rewrite <- H in Ht.
  rewrite N.land_spec in Ht. apply andb_true_iff in Ht. tauto.
Qed.

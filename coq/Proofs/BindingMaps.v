(* BindingMaps.v — facts about the sorted finite maps of Model/Binding.v. *)
From PG Require Import Common.Tactics Model.Binding.
From Coq Require Import NArith.
Local Open Scope N_scope.

Section Maps.
Context {A : Type}.
Implicit Types m : kmap A.

Lemma kget_kset : forall m k v k', kget k' (kset k v m) = if N.eqb k' k then Some v else kget k' m.
Proof.
  induction m as [|[k1 v1] r IH]; intros k v k'; simpl.
  - reflexivity.
  - destruct (N.ltb k k1) eqn:Hlt; simpl.
    + reflexivity.
    + destruct (N.eqb k k1) eqn:Heq; simpl.
      * apply N.eqb_eq in Heq; subst k1. destruct (N.eqb k' k); reflexivity.
      * rewrite IH. destruct (N.eqb k' k1) eqn:E1; [|reflexivity].
        apply N.eqb_eq in E1; subst k1.
        destruct (N.eqb k' k) eqn:E2; [|reflexivity].
        apply N.eqb_eq in E2; subst k'. rewrite N.eqb_refl in Heq; discriminate.
Qed.

Lemma kget_kset_same : forall m k v, kget k (kset k v m) = Some v.
Proof. intros; rewrite kget_kset, N.eqb_refl; reflexivity. Qed.

Lemma kget_kset_other : forall m k v k', k' <> k -> kget k' (kset k v m) = kget k' m.
Proof. intros m k v k' H; rewrite kget_kset. apply N.eqb_neq in H; rewrite H; reflexivity. Qed.

Lemma kget_kdel : forall m k k', kget k' (kdel k m) = if N.eqb k' k then None else kget k' m.
Proof.
  induction m as [|[k1 v1] r IH]; intros k k'; simpl.
  - destruct (N.eqb k' k); reflexivity.
  - destruct (N.eqb k k1) eqn:Heq; simpl.
    + apply N.eqb_eq in Heq; subst k1. rewrite IH. destruct (N.eqb k' k); reflexivity.
    + rewrite IH. destruct (N.eqb k' k1) eqn:E1; [|reflexivity].
      apply N.eqb_eq in E1; subst k1.
      destruct (N.eqb k' k) eqn:E2; [|reflexivity].
      apply N.eqb_eq in E2; subst k'. rewrite N.eqb_refl in Heq; discriminate.
Qed.

Lemma kget_kfilter : forall (f : N -> bool) m k, kget k (kfilter f m) = if f k then kget k m else None.
Proof.
  intros f; induction m as [|[k1 v1] r IH]; intros k; simpl.
  - destruct (f k); reflexivity.
  - destruct (f k1) eqn:F1; simpl.
    + destruct (N.eqb k k1) eqn:E; [apply N.eqb_eq in E; subst; rewrite F1; reflexivity | apply IH].
    + rewrite IH. destruct (N.eqb k k1) eqn:E; [apply N.eqb_eq in E; subst; rewrite F1; reflexivity | reflexivity].
Qed.

Lemma kmem_kset : forall m k v k', kmem k' (kset k v m) = N.eqb k' k || kmem k' m.
Proof. intros; unfold kmem; rewrite kget_kset; destruct (N.eqb k' k); reflexivity. Qed.

Lemma kmem_kdel : forall m k k', kmem k' (kdel k m) = negb (N.eqb k' k) && kmem k' m.
Proof. intros; unfold kmem; rewrite kget_kdel; destruct (N.eqb k' k); reflexivity. Qed.

Lemma kmem_kfilter : forall (f : N -> bool) m k, kmem k (kfilter f m) = f k && kmem k m.
Proof. intros; unfold kmem; rewrite kget_kfilter; destruct (f k); reflexivity. Qed.

(* sortedness *)
Inductive ksorted : kmap A -> Prop :=
| ks_nil : ksorted []
| ks_cons : forall k v m, Forall (fun kv => k < fst kv) m -> ksorted m -> ksorted ((k, v) :: m).

Lemma above_kget_none : forall m k, Forall (fun kv => k < fst kv) m -> forall k', k' <= k -> kget k' m = None.
Proof.
  induction m as [|[k1 v1] r IH]; intros k H k' Hle; simpl; [reflexivity|].
  inversion H; subst; simpl in *.
  destruct (N.eqb k' k1) eqn:E; [apply N.eqb_eq in E; lia|]. eapply IH; eauto.
Qed.

Lemma above_weaken : forall m k k', k' <= k -> Forall (fun kv : N * A => k < fst kv) m -> Forall (fun kv => k' < fst kv) m.
Proof. intros m k k' Hle H. eapply Forall_impl; [|exact H]. simpl; intros; lia. Qed.

Lemma above_kset : forall m k0 k v, k0 < k -> Forall (fun kv => k0 < fst kv) m -> Forall (fun kv => k0 < fst kv) (kset k v m).
Proof.
  induction m as [|[k1 v1] r IH]; intros k0 k v Hk H; simpl.
  - constructor; [simpl; assumption|constructor].
  - inversion H; subst; simpl in *.
    destruct (N.ltb k k1); [constructor; [simpl; assumption|assumption]|].
    destruct (N.eqb k k1); [constructor; [simpl; assumption|assumption]|].
    constructor; [simpl; assumption|]. apply IH; assumption.
Qed.

Lemma ksorted_kset : forall m k v, ksorted m -> ksorted (kset k v m).
Proof.
  induction m as [|[k1 v1] r IH]; intros k v H; simpl.
  - constructor; [constructor|constructor].
  - inversion H; subst.
    destruct (N.ltb k k1) eqn:Hlt.
    + apply N.ltb_lt in Hlt. constructor; [|assumption].
      constructor; [simpl; assumption|]. eapply above_weaken; [|eassumption]. lia.
    + destruct (N.eqb k k1) eqn:Heq.
      * apply N.eqb_eq in Heq; subst. constructor; assumption.
      * apply N.ltb_ge in Hlt. apply N.eqb_neq in Heq.
        constructor; [|apply IH; assumption]. apply above_kset; [lia|assumption].
Qed.

Lemma above_kdel : forall m k0 k, Forall (fun kv => k0 < fst kv) m -> Forall (fun kv => k0 < fst kv) (kdel k m).
Proof.
  induction m as [|[k1 v1] r IH]; intros k0 k H; simpl; [constructor|].
  inversion H; subst. destruct (N.eqb k k1); [apply IH; assumption|]. constructor; [assumption|apply IH; assumption].
Qed.

Lemma ksorted_kdel : forall m k, ksorted m -> ksorted (kdel k m).
Proof.
  induction m as [|[k1 v1] r IH]; intros k H; simpl; [constructor|].
  inversion H; subst. destruct (N.eqb k k1); [apply IH; assumption|].
  constructor; [apply above_kdel; assumption|apply IH; assumption].
Qed.

Lemma above_kfilter : forall (f : N -> bool) m k0, Forall (fun kv => k0 < fst kv) m -> Forall (fun kv => k0 < fst kv) (kfilter f m).
Proof.
  intros f; induction m as [|[k1 v1] r IH]; intros k0 H; simpl; [constructor|].
  inversion H; subst. destruct (f k1); [constructor; [assumption|apply IH; assumption]|apply IH; assumption].
Qed.

Lemma ksorted_kfilter : forall (f : N -> bool) m, ksorted m -> ksorted (kfilter f m).
Proof.
  intros f; induction m as [|[k1 v1] r IH]; intros H; simpl; [constructor|].
  inversion H; subst. destruct (f k1); [|apply IH; assumption].
  constructor; [apply above_kfilter; assumption|apply IH; assumption].
Qed.

Lemma kmap_ext : forall m1 m2, ksorted m1 -> ksorted m2 -> (forall k, kget k m1 = kget k m2) -> m1 = m2.
Proof.
  induction m1 as [|[k1 v1] r1 IH]; intros m2 S1 S2 E.
  - destruct m2 as [|[k2 v2] r2]; [reflexivity|].
    specialize (E k2); simpl in E; rewrite N.eqb_refl in E; discriminate.
  - destruct m2 as [|[k2 v2] r2].
    + specialize (E k1); simpl in E; rewrite N.eqb_refl in E; discriminate.
    + inversion S1; subst; inversion S2; subst.
      assert (k1 = k2).
      { destruct (N.lt_trichotomy k1 k2) as [L|[L|L]]; [|assumption|].
        - pose proof (E k1) as E1; simpl in E1; rewrite N.eqb_refl in E1.
          destruct (N.eqb k1 k2) eqn:Q; [apply N.eqb_eq in Q; assumption|].
          rewrite (above_kget_none r2 k2) in E1; [discriminate|assumption|lia].
        - pose proof (E k2) as E1; simpl in E1; rewrite N.eqb_refl in E1.
          destruct (N.eqb k2 k1) eqn:Q; [apply N.eqb_eq in Q; symmetry; assumption|].
          rewrite (above_kget_none r1 k1) in E1; [discriminate|assumption|lia]. }
      subst k2.
      pose proof (E k1) as E1; simpl in E1; rewrite N.eqb_refl in E1; inversion E1; subst v2.
      f_equal. apply IH; [assumption|assumption|].
      intros k. destruct (N.eqb k k1) eqn:Q.
      * apply N.eqb_eq in Q; subst.
        rewrite (above_kget_none r1 k1), (above_kget_none r2 k1); auto; lia.
      * specialize (E k); simpl in E; rewrite Q in E; exact E.
Qed.
End Maps.

Lemma kmem_keyset : forall {A} (m : kmap A) k, kmem k (keyset m) = kmem k m.
Proof.
  intros A; induction m as [|[k1 v1] r IH]; intros k; unfold kmem in *; simpl; [reflexivity|].
  destruct (N.eqb k k1); [reflexivity|apply IH].
Qed.

Lemma above_keyset : forall {A} (m : kmap A) k0, Forall (fun kv => k0 < fst kv) m -> Forall (fun kv => k0 < fst kv) (keyset m).
Proof.
  intros A; induction m as [|[k1 v1] r IH]; intros k0 H; simpl; [constructor|].
  inversion H; subst. constructor; [assumption|apply IH; assumption].
Qed.

Lemma ksorted_keyset : forall {A} (m : kmap A), ksorted m -> ksorted (keyset m).
Proof.
  intros A; induction m as [|[k1 v1] r IH]; intros H; simpl; [constructor|].
  inversion H; subst. constructor; [apply above_keyset; assumption|apply IH; assumption].
Qed.

(* BindingDirect.v — what the language rule does with the effective call, stated directly:
   every named parameter receives the supplied value, else its default, else the call is a TypeError;
   *args receives the variadic values and **kwargs the remaining names.  Positional and keyword
   spellings of the same arguments bind alike. *)
From PG Require Import Common.Tactics Model.Binding Proofs.BindingMaps Proofs.BindingProofs.
From Coq Require Import NArith.
Local Open Scope N_scope.

Definition extras (s : sig) (m : kmap val) : kmap val := kfilter (fun k => negb (is_param s k)) m.
Definition direct_bind (s : sig) (m : kmap val) (va : list val) : result bound :=
  match fill (params s) m with
  | Err x => Err x
  | Ok named => Ok {| bnamed := named; bvar := va; bkw := extras s m |}
  end.
Record args_fit (s : sig) (m : kmap val) (va : list val) : Prop := {
  af_sorted : ksorted m;
  af_keys : forall k, kmem k m = true -> is_param s k = true \/ has_kw s = true;
  af_va : va = [] \/ has_va s = true }.

Lemma fill_ext : forall ps a b,
  (forall n d, In (n, d) ps -> match kget n a with Some v => Some v | None => d end = match kget n b with Some v => Some v | None => d end) ->
  fill ps a = fill ps b.
Proof.
  induction ps as [|[n d] r IH]; intros a b H; simpl; [reflexivity|].
  rewrite (H n d (or_introl eq_refl)). rewrite (IH a b); [reflexivity|]. intros; apply H; right; assumption.
Qed.

Lemma kget_not_in : forall {A} (m : kmap A) n, ~ In n (map fst m) -> kget n m = None.
Proof.
  intros A; induction m as [|[k v] r IH]; intros n H; simpl in *; [reflexivity|].
  destruct (N.eqb n k) eqn:E; [apply N.eqb_eq in E; subst; tauto|]. apply IH; tauto.
Qed.

Lemma in_skipn_in : forall {A} n (l : list A) x, In x (skipn n l) -> In x l.
Proof.
  induction n as [|n IH]; intros l x H; simpl in H; [assumption|].
  destruct l; [contradiction|]. right. apply IH. assumption.
Qed.
Lemma existsb_names_false : forall (ps : list (name * option val)) k, ~ In k (names ps) ->
  existsb (fun p => N.eqb (fst p) k) ps = false.
Proof.
  intros ps k H. destruct (existsb (fun p => N.eqb (fst p) k) ps) eqn:E; [|reflexivity].
  apply existsb_names in E. contradiction.
Qed.
Lemma is_kwparam_param : forall s k, is_kwparam s k = true -> is_param s k = true.
Proof.
  intros s k H. unfold is_kwparam, is_param, params in *. rewrite existsb_app in *.
  apply orb_true_iff in H. apply orb_true_iff. destruct H as [H|H]; [left|right; assumption].
  apply existsb_names in H. apply existsb_names.
  unfold names in *. apply in_map_iff in H. destruct H as [p [E I]]. apply in_map_iff. exists p. split; [assumption|].
  eapply in_skipn_in; eauto.
Qed.
Lemma is_kwparam_nonpos : forall s k, ~ In k (names (pos s)) -> is_kwparam s k = is_param s k.
Proof.
  intros s k H. unfold is_kwparam, is_param, params. rewrite !existsb_app.
  assert (existsb (fun p : name * option val => N.eqb (fst p) k) (pos s) = false) as E1 by (apply existsb_names_false; assumption).
  assert (existsb (fun p : name * option val => N.eqb (fst p) k) (skipn (posonly s) (pos s)) = false) as E2.
  { apply existsb_names_false. intros I. apply H. unfold names in *. apply in_map_iff in I. destruct I as [p [E I]].
    apply in_map_iff. exists p. split; [assumption|eapply in_skipn_in; eauto]. }
  unfold name in *. rewrite E1, E2. reflexivity.
Qed.

(* keywords that cannot clash: each lands on its parameter or in **kwargs *)
Lemma bind_kw_ok : forall s kws asg extra,
  NoDup (map fst kws) -> ksorted extra ->
  (forall k, In k (map fst kws) -> if is_kwparam s k then kmem k asg = false else has_kw s = true /\ kmem k extra = false) ->
  exists asg' extra', bind_kw s kws asg extra = Ok (asg', extra') /\ ksorted extra' /\
    (forall n, kget n asg' = if is_kwparam s n then match kget n kws with Some v => Some v | None => kget n asg end else kget n asg) /\
    (forall n, kget n extra' = if is_kwparam s n then kget n extra else match kget n kws with Some v => Some v | None => kget n extra end).
Proof.
  intros s; induction kws as [|[k v] r IH]; intros asg extra ND S H; simpl.
  - exists asg, extra. split; [reflexivity|]. split; [assumption|]. split; intros n; destruct (is_kwparam s n); reflexivity.
  - inversion ND; subst. simpl in H. pose proof (H k (or_introl eq_refl)) as Hk.
    assert (forall k', In k' (map fst r) -> N.eqb k' k = false) as NE.
    { intros k' I. apply N.eqb_neq. intros ->. contradiction. }
    destruct (is_kwparam s k) eqn:P.
    + rewrite Hk.
      destruct (IH (kset k v asg) extra H3 S) as [asg' [extra' [B [S' [A E]]]]].
      { intros k' I. pose proof (H k' (or_intror I)) as Hk'. destruct (is_kwparam s k'); [|assumption].
        rewrite kmem_kset, (NE k' I), Hk'. reflexivity. }
      exists asg', extra'. split; [assumption|]. split; [assumption|]. split.
      * intros n. rewrite A. destruct (is_kwparam s n) eqn:Pn.
        -- destruct (N.eqb n k) eqn:En.
           ++ apply N.eqb_eq in En; subst n. rewrite (kget_not_in r k H2). rewrite kget_kset_same. reflexivity.
           ++ destruct (kget n r); [reflexivity|]. rewrite kget_kset, En. reflexivity.
        -- rewrite kget_kset. destruct (N.eqb n k) eqn:En; [apply N.eqb_eq in En; subst; congruence|reflexivity].
      * intros n. rewrite E. destruct (is_kwparam s n) eqn:Pn; [reflexivity|].
        destruct (N.eqb n k) eqn:En; [apply N.eqb_eq in En; subst; congruence|reflexivity].
    + destruct Hk as [HK Hk]. rewrite HK, Hk.
      destruct (IH asg (kset k v extra) H3 (ksorted_kset _ _ _ S)) as [asg' [extra' [B [S' [A E]]]]].
      { intros k' I. pose proof (H k' (or_intror I)) as Hk'. destruct (is_kwparam s k'); [assumption|].
        destruct Hk' as [? Hk']. split; [assumption|]. rewrite kmem_kset, (NE k' I), Hk'. reflexivity. }
      exists asg', extra'. split; [assumption|]. split; [assumption|]. split.
      * intros n. rewrite A. destruct (is_kwparam s n) eqn:Pn; [|reflexivity].
        destruct (N.eqb n k) eqn:En; [apply N.eqb_eq in En; subst; congruence|reflexivity].
      * intros n. rewrite E. destruct (is_kwparam s n) eqn:Pn.
        { rewrite kget_kset. destruct (N.eqb n k) eqn:En; [apply N.eqb_eq in En; subst; congruence|reflexivity]. }
        destruct (N.eqb n k) eqn:En.
        -- apply N.eqb_eq in En; subst n. rewrite (kget_not_in r k H2). rewrite kget_kset_same. reflexivity.
        -- destruct (kget n r); [reflexivity|]. rewrite kget_kset, En. reflexivity.
Qed.

Lemma sorted_keys_nodup : forall {A} (m : kmap A), ksorted m -> NoDup (map fst m).
Proof.
  intros A; induction m as [|[k v] r IH]; intros S; simpl; [constructor|].
  inversion S; subst. constructor; [|apply IH; assumption].
  intros I. apply in_map_iff in I. destruct I as [[k' v'] [E I]]. simpl in E; subst k'.
  rewrite Forall_forall in H1. specialize (H1 _ I). simpl in H1. lia.
Qed.
Lemma kmem_in_keys : forall {A} (m : kmap A) k, In k (map fst m) -> kmem k m = true.
Proof.
  intros A m k I. unfold kmem. destruct (kget k m) eqn:G; [reflexivity|].
  exfalso. eapply kget_none_not_in; eauto.
Qed.

Lemma extras_get : forall s m n, kget n (extras s m) = if is_param s n then None else kget n m.
Proof. intros. unfold extras. rewrite kget_kfilter. destruct (is_param s n); reflexivity. Qed.

(* everything by keyword (possible when no parameter is positional-only) *)
Lemma is_kwparam_no_posonly : forall s k, posonly s = 0%nat -> is_kwparam s k = is_param s k.
Proof. intros s k H. unfold is_kwparam, is_param, params. rewrite H. reflexivity. Qed.

Lemma keyword_form : forall s m, wf_sig s -> posonly s = 0%nat -> args_fit s m [] ->
  py_bind s {| cpos := []; ckw := m |} = direct_bind s m [].
Proof.
  intros s m W PO F. unfold py_bind, direct_bind; simpl. rewrite zip_pos_nil. simpl.
  destruct (bind_kw_ok s m [] [] (sorted_keys_nodup m (af_sorted _ _ _ F)) (ks_nil)) as [asg' [extra' [B [S' [A E]]]]].
  { intros k I. rewrite (is_kwparam_no_posonly s k PO). destruct (is_param s k) eqn:P; [reflexivity|]. split; [|reflexivity].
    destruct (af_keys _ _ _ F k (kmem_in_keys m k I)) as [Q|Q]; [congruence|assumption]. }
  rewrite B.
  rewrite (fill_ext (params s) asg' m).
  - destruct (fill (params s) m); [|reflexivity]. f_equal. f_equal.
    apply kmap_ext; [assumption|apply ksorted_kfilter; apply F|].
    intros n. rewrite E, extras_get, (is_kwparam_no_posonly s n PO). destruct (is_param s n); [reflexivity|]. destruct (kget n m); reflexivity.
  - intros n d I. rewrite A, (is_kwparam_no_posonly s n PO).
    assert (is_param s n = true) as ->. { apply is_param_in. change n with (fst (n, d)). apply in_map; assumption. }
    destruct (kget n m); reflexivity.
Qed.

(* ---- positional parameters written positionally ------------------------------------------------------------ *)
Lemma list_args_length : forall ps m la K, list_args ps m = (Some la, K) -> length la = length ps.
Proof.
  induction ps as [|[n d] r IH]; intros m la K H; simpl in H.
  - inversion H; reflexivity.
  - destruct (list_args r (kdel n m)) as [rest K1] eqn:L.
    destruct (match kget n m with Some v => Some v | None => d end); [|discriminate].
    destruct rest as [l|]; [|discriminate]. inversion H; subst. simpl. f_equal. eapply IH; eauto.
Qed.
Lemma list_args_rest : forall ps m o K, list_args ps m = (o, K) ->
  forall n, kget n K = if existsb (N.eqb n) (names ps) then None else kget n m.
Proof.
  induction ps as [|[n0 d] r IH]; intros m o K H n; simpl in H.
  - inversion H; reflexivity.
  - destruct (list_args r (kdel n0 m)) as [rest K1] eqn:L. inversion H; subst K1.
    rewrite (IH _ _ _ L n). simpl. rewrite kget_kdel.
    destruct (N.eqb n n0); simpl; [destruct (existsb (N.eqb n) (names r)); reflexivity|reflexivity].
Qed.
Lemma list_args_sorted : forall ps m o K, list_args ps m = (o, K) -> ksorted m -> ksorted K.
Proof.
  induction ps as [|[n0 d] r IH]; intros m o K H S; simpl in H.
  - inversion H; subst; assumption.
  - destruct (list_args r (kdel n0 m)) as [rest K1] eqn:L. inversion H; subst K1.
    eapply IH; [exact L|]. apply ksorted_kdel; assumption.
Qed.
Lemma list_args_values : forall ps m la K, NoDup (names ps) -> list_args ps m = (Some la, K) ->
  Forall2 (fun p v => match kget (fst p) m with Some x => Some x | None => snd p end = Some v) ps la.
Proof.
  induction ps as [|[n d] r IH]; intros m la K ND H; simpl in H.
  - inversion H; constructor.
  - inversion ND; subst.
    destruct (list_args r (kdel n m)) as [rest K1] eqn:L.
    destruct (match kget n m with Some v => Some v | None => d end) as [v|] eqn:V; [|discriminate].
    destruct rest as [l|]; [|discriminate]. inversion H; subst.
    constructor; [exact V|].
    pose proof (IH _ _ _ H3 L) as F. clear - F H2.
    induction F as [|[n' d'] v' r l R F IH']; [constructor|].
    constructor.
    + simpl in *. rewrite kget_kdel in R. destruct (N.eqb n' n) eqn:E; [|exact R].
      apply N.eqb_eq in E; subst. exfalso; apply H2; left; reflexivity.
    + apply IH'. intros I; apply H2; right; exact I.
Qed.
Lemma bind_positional_other : forall ps la acc n, ~ In n (names ps) -> kget n (bind_positional ps la acc) = kget n acc.
Proof.
  induction ps as [|[n0 d] r IH]; intros la acc n H; simpl; [reflexivity|].
  destruct la as [|v l]; [reflexivity|]. rewrite IH by (intros I; apply H; right; exact I).
  apply kget_kset_other. intros ->. apply H; left; reflexivity.
Qed.
Lemma bind_positional_values : forall ps la (R : name * option val -> val -> Prop), NoDup (names ps) -> Forall2 R ps la ->
  forall acc n d, In (n, d) ps -> exists v, R (n, d) v /\ kget n (bind_positional ps la acc) = Some v.
Proof.
  intros ps la R ND F. induction F as [|[n0 d0] v0 r l R0 F IH]; intros acc n d I; [contradiction|].
  inversion ND; subst. simpl. destruct I as [I|I].
  - inversion I; subst. exists v0. split; [assumption|].
    rewrite bind_positional_other by assumption. apply kget_kset_same.
  - apply IH; assumption.
Qed.
Lemma zip_pos_all : forall ps la va acc, length la = length ps -> zip_pos ps (la ++ va) acc = (bind_positional ps la acc, va).
Proof.
  induction ps as [|[n d] r IH]; intros la va acc H; destruct la as [|v l]; simpl in *; try discriminate.
  - destruct va; reflexivity.
  - apply IH. congruence.
Qed.
Lemma nodup_app_disjoint : forall {A} (l1 l2 : list A) x, NoDup (l1 ++ l2) -> In x l1 -> In x l2 -> False.
Proof.
  induction l1 as [|a r IH]; intros l2 x ND I1 I2; [contradiction|].
  simpl in ND. inversion ND; subst. destruct I1 as [I1|I1].
  - subst. apply H1. apply in_or_app; right; assumption.
  - eapply IH; eauto.
Qed.

Lemma positional_form : forall s m va la K, wf_sig s -> args_fit s m va ->
  list_args (pos s) m = (Some la, K) ->
  py_bind s {| cpos := la ++ va; ckw := K |} = direct_bind s m va.
Proof.
  intros s m va la K W F L. unfold py_bind, direct_bind; simpl.
  pose proof (nodup_pos s W) as NDP.
  rewrite zip_pos_all by (eapply list_args_length; eauto).
  assert (negb (is_nil va) && negb (has_va s) = false) as ->.
  { destruct (af_va _ _ _ F) as [->| ->]; [reflexivity|apply andb_false_r]. }
  pose proof (list_args_rest _ _ _ _ L) as KR.
  pose proof (list_args_sorted _ _ _ _ L (af_sorted _ _ _ F)) as KS.
  pose proof (list_args_values _ _ _ _ NDP L) as LV.
  assert (forall n, In n (names (pos s)) <-> existsb (N.eqb n) (names (pos s)) = true) as EX.
  { intros n. split; intros H.
    - apply existsb_exists. exists n. split; [assumption|apply N.eqb_refl].
    - apply existsb_exists in H. destruct H as [x [I E]]. apply N.eqb_eq in E; subst; assumption. }
  destruct (bind_kw_ok s K (bind_positional (pos s) la []) [] (sorted_keys_nodup K KS) ks_nil) as [asg' [extra' [B [S' [A E]]]]].
  { intros k I. pose proof (kmem_in_keys K k I) as MK. unfold kmem in MK. rewrite KR in MK.
    destruct (existsb (N.eqb k) (names (pos s))) eqn:X; [discriminate|].
    assert (~ In k (names (pos s))) as NI by (intros Q; apply EX in Q; congruence).
    rewrite (is_kwparam_nonpos s k NI).
    destruct (is_param s k) eqn:P.
    - unfold kmem. rewrite bind_positional_other by assumption. reflexivity.
    - split; [|reflexivity]. destruct (af_keys _ _ _ F k) as [Q|Q]; [|congruence|assumption].
      unfold kmem. destruct (kget k m); [reflexivity|discriminate]. }
  rewrite B.
  rewrite (fill_ext (params s) asg' m).
  - destruct (fill (params s) m); [|reflexivity]. f_equal. f_equal.
    apply kmap_ext; [assumption|apply ksorted_kfilter; apply F|].
    intros n. rewrite E, extras_get, KR.
    destruct (existsb (N.eqb n) (names (pos s))) eqn:X.
    + apply EX in X. rewrite (pos_is_param s n X). destruct (is_kwparam s n); reflexivity.
    + assert (~ In n (names (pos s))) as NI by (intros Q; apply EX in Q; congruence).
      rewrite (is_kwparam_nonpos s n NI). destruct (is_param s n); [reflexivity|]. destruct (kget n m); reflexivity.
  - intros n d I. rewrite A.
    unfold params in I. apply in_app_or in I. destruct I as [I|I].
    + (* a positional parameter (positional-only or not): its value came by position *)
      assert (In n (names (pos s))) as IN by (change n with (fst (n, d)); apply in_map; assumption).
      rewrite KR. rewrite (proj1 (EX n) IN).
      destruct (bind_positional_values _ _ _ NDP LV [] n d I) as [v [Rv Gv]]. simpl in Rv.
      rewrite Gv. rewrite Rv. destruct (is_kwparam s n); reflexivity.
    + (* a keyword-only parameter *)
      assert (~ In n (names (pos s))) as NI.
      { intros Q. pose proof (wf_nodup s W) as ND. rewrite names_params in ND.
        eapply nodup_app_disjoint; [exact ND|exact Q|]. change n with (fst (n, d)); apply in_map; assumption. }
      rewrite (is_kwparam_nonpos s n NI).
      assert (is_param s n = true) as ->.
      { apply is_param_in. rewrite names_params. apply in_or_app. right. change n with (fst (n, d)). apply in_map; assumption. }
      rewrite KR. destruct (existsb (N.eqb n) (names (pos s))) eqn:X; [apply EX in X; contradiction|].
      rewrite bind_positional_other by assumption. simpl.
      destruct (kget n m); reflexivity.
Qed.

(* ---- the effective call, read directly --------------------------------------------------------------------------- *)
Definition keys_fit (s : sig) (m : kmap val) : Prop := forall k, kmem k m = true -> is_param s k = true \/ has_kw s = true.

Lemma supply_kw_fit : forall s kws ovr drop given e e', keys_fit s (enamed e) ->
  supply_kw s kws ovr drop given e = Ok e' -> keys_fit s (enamed e').
Proof.
  intros s; induction kws as [|[k v] r IH]; intros ovr drop given e e' F H; simpl in H.
  - inversion H; subst; assumption.
  - destruct (smem k given); [discriminate|]. destruct (is_va s k).
    + destruct (evar e), ovr; try discriminate; (destruct (vals_of_val v); [eapply IH; [|exact H]; exact F|discriminate]).
    + destruct (kmem k (enamed e) && negb ovr); [discriminate|].
      destruct (is_param s k || has_kw s) eqn:P.
      * eapply IH; [|exact H]. simpl. intros k' M. rewrite kmem_kset in M.
        destruct (N.eqb k' k) eqn:E; [apply N.eqb_eq in E; subst; apply orb_true_iff; assumption|apply F; assumption].
      * destruct drop; [eapply IH; eauto|discriminate].
Qed.
Lemma supply_fit : forall s e c ovr drop e', keys_fit s (enamed e) -> supply s e c ovr drop = Ok e' -> keys_fit s (enamed e').
Proof.
  intros s e c ovr drop e' F H. unfold supply in H.
  destruct (supply_pos (pos s) (cpos c) ovr (enamed e)) as [m|] eqn:P; [|discriminate].
  destruct (supply_pos_keys _ _ _ _ _ P) as [_ K].
  match type of H with match ?ev with _ => _ end = _ => destruct ev as [v|]; [|discriminate] end.
  eapply supply_kw_fit; [|exact H]. simpl. intros k M.
  destruct (K k M) as [Q|Q]; [apply F; assumption|left; apply pos_is_param; assumption].
Qed.
Lemma supply_lates_fit : forall s lates e e', keys_fit s (enamed e) -> supply_lates s e lates = Ok e' -> keys_fit s (enamed e').
Proof.
  intros s; induction lates as [|kv r IH]; intros e e' F H; simpl in H.
  - inversion H; subst; assumption.
  - destruct (supply s e {| cpos := []; ckw := [kv] |} true false) as [e1|] eqn:S1; [|discriminate].
    eapply IH; [|exact H]. eapply supply_fit; eauto.
Qed.

Lemma eff_args_fit : forall s e, eff_ok s e -> keys_fit s (enamed e) ->
  args_fit s (enamed e) (match evar e with Some l => l | None => [] end).
Proof.
  intros s e OK F. constructor; [apply OK|exact F|].
  destruct (has_va s) eqn:HV; [right; reflexivity|left]. rewrite (eo_noevar s e OK HV). reflexivity.
Qed.

Theorem effective_call_meaning : forall s e, wf_sig s -> eff_ok s e -> keys_fit s (enamed e) ->
  py_bind s (effective_call s e) = direct_bind s (enamed e) (match evar e with Some l => l | None => [] end).
Proof.
  intros s e W OK F. unfold effective_call.
  destruct (list_args (pos s) (enamed e)) as [[la|] K] eqn:L.
  - apply positional_form; [assumption|apply eff_args_fit; assumption|assumption].
  - rewrite (missing_positional_fails s (enamed e) K W L).
    destruct (list_args_none _ _ _ (nodup_pos s W) L) as [n [I G]].
    unfold direct_bind. rewrite (fill_missing (params s) (enamed e) n); [reflexivity| |assumption].
    unfold params; apply in_or_app; left; assumption.
Qed.

(* the whole specification, read directly *)
Theorem spec_outcome_meaning : forall s ctor lates c override ie, wf_sig s ->
  spec_outcome s ctor lates c override ie =
  match effective s ctor lates c override ie with
  | Err x => Err x
  | Ok e => direct_bind s (enamed e) (match evar e with Some l => l | None => [] end)
  end.
Proof.
  intros s ctor lates c override ie W. unfold spec_outcome.
  destruct (effective s ctor lates c override ie) as [e|x] eqn:E; [|reflexivity].
  unfold effective in E.
  destruct (supply s eff0 ctor false false) as [e1|] eqn:S1; [|discriminate].
  destruct (supply_lates s e1 lates) as [e2|] eqn:S2; [|discriminate].
  assert (keys_fit s (enamed eff0)) as F0 by (intros k M; discriminate).
  pose proof (supply_fit _ _ _ _ _ _ F0 S1) as F1. pose proof (supply_lates_fit _ _ _ _ F1 S2) as F2.
  pose proof (supply_fit _ _ _ _ _ _ F2 E) as F3.
  assert (eff_ok s e1) as OK1 by (eapply supply_ok; [assumption|apply eff0_ok|exact S1]).
  assert (eff_ok s e2) as OK2 by (eapply supply_lates_ok; eauto).
  assert (eff_ok s e) as OK3 by (eapply supply_ok; eauto).
  apply effective_call_meaning; assumption.
Qed.

(* ---- positional-only parameters ----------------------------------------------------------------------------- *)
Lemma bind_kw_rejects : forall s kws asg extra k,
  In k (map fst kws) -> is_kwparam s k = false -> has_kw s = false -> bind_kw s kws asg extra = Err ETypeError.
Proof.
  intros s; induction kws as [|[k0 v] r IH]; intros asg extra k I NP NK; simpl in *; [contradiction|].
  destruct I as [I|I].
  - subst k0. rewrite NP, NK. reflexivity.
  - destruct (is_kwparam s k0).
    + destruct (kmem k0 asg); [reflexivity|]. eapply IH; eauto.
    + rewrite NK. reflexivity.
Qed.

(* the language: a keyword that names a positional-only parameter is a TypeError (without **kwargs) *)
Theorem positional_only_keyword_rejected : forall s c k,
  is_param s k = true -> is_kwparam s k = false -> has_kw s = false -> In k (map fst (ckw c)) ->
  py_bind s c = Err ETypeError.
Proof.
  intros s c k P NP NK I. unfold py_bind. destruct (zip_pos (pos s) (cpos c) []) as [asg over].
  destruct (negb (is_nil over) && negb (has_va s)); [reflexivity|].
  rewrite (bind_kw_rejects s (ckw c) asg [] k I NP NK). reflexivity.
Qed.

(* def f(a, /): the functor lets a be bound by name (every argument is a named symbolic field) and then
   passes it by position - the direct call written with that keyword is a TypeError *)
Definition posonly_sig : sig := {| pos := [(1, None)]; posonly := 1; varargs := None; kwonly := []; varkw := None |}.
Theorem positional_only_bound_by_name : exists q s c b,
  wf_sig s /\ functor_bind q s c false false [] {| cpos := []; ckw := [] |} None None = Ok b /\
  spec_outcome s c [] {| cpos := []; ckw := [] |} false false = Ok b /\
  py_bind s c = Err ETypeError.
Proof.
  exists {| q_noop_rebind := false |}, posonly_sig, {| cpos := []; ckw := [(1, VInt 5)] |},
         {| bnamed := [(1, VInt 5)]; bvar := []; bkw := [] |}.
  split; [|split; [|split]]; try (vm_compute; reflexivity).
  constructor; [|intros a H; discriminate]. simpl. constructor; [intros H; exact H|constructor].
Qed.

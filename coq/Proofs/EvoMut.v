(* EvoMut.v — the mutators map valid decisions to valid decisions (C14). *)
From PG Require Import Common.Tactics Model.Geno Model.Evo Proofs.GenoBasics Proofs.GenoValid Proofs.GenoRandom Proofs.EvoBase.
From Coq Require Import Permutation Sorting.Sorted.

(* ---- lists ------------------------------------------------------------------------------------------ *)
Lemma map_set_nth : forall A B (f : A -> B) l j x, map f (set_nth l j x) = set_nth (map f l) j (f x).
Proof. induction l; destruct j; simpl; intros; auto. f_equal; auto. Qed.
Lemma NoDup_set_nth_fresh : forall (l : list nat) j v, NoDup l -> ~ In v l -> NoDup (set_nth l j v).
Proof.
  induction l as [|x l IH]; destruct j; simpl; intros v Hn Hv; auto.
  - inv Hn. constructor; intuition.
  - inv Hn. constructor. intros Hin. apply set_nth_In in Hin. destruct Hin as [->|Hin]; intuition.
    apply IH; auto.
Qed.
Lemma Forall_set_nth' : forall A (P : A -> Prop) l i x, Forall P l -> P x -> Forall P (set_nth l i x).
Proof. induction l; destruct i; simpl; intros; auto; inv H; constructor; auto. Qed.
Lemma ins_by_sorted : forall (l : list (nat * sdna)) x,
  StronglySorted le (map fst l) -> StronglySorted le (map fst (ins_by (fun a b => fst a <=? fst b) x l)).
Proof.
  induction l as [|y l IH]; simpl; intros x Hs. repeat constructor.
  destruct (fst x <=? fst y) eqn:E.
  - simpl. constructor; auto. apply Nat.leb_le in E. inv Hs. constructor; auto.
    rewrite Forall_forall in *. intros z Hz. specialize (H2 z Hz). lia.
  - simpl. inv Hs. constructor; auto. apply Nat.leb_gt in E.
    apply Forall_forall. intros z Hz.
    assert (Hp : Permutation (map fst (ins_by (fun a b => fst a <=? fst b) x l)) (fst x :: map fst l)).
    { change (fst x :: map fst l) with (map fst (x :: l)). apply Permutation_map, ins_by_perm. }
    apply (Permutation_in _ Hp) in Hz. destruct Hz as [<-|Hz]. lia. rewrite Forall_forall in H2; auto.
Qed.
Lemma sort_by_fst_sorted : forall (l : list (nat * sdna)), StronglySorted le (map fst (sort_by (fun a b => fst a <=? fst b) l)).
Proof. induction l; simpl. constructor. apply ins_by_sorted; auto. Qed.

Lemma valid_p_choices_iff : forall k cands dist srt nm lits cs,
  valid_p (Choices k cands dist srt nm lits) (PChoices cs) = true <->
  length cs = k /\ constraint_ok dist srt (map fst cs) = true /\
  Forall (fun c => with_nth (fun s => valid s (snd c)) false cands (fst c) = true) cs.
Proof.
  intros. simpl. rewrite !andb_true_iff, Nat.eqb_eq, forallb_forall, Forall_forall. tauto.
Qed.

Lemma wf_p_choices : forall k cands dist srt nm lits,
  wf_p (Choices k cands dist srt nm lits) = true ->
  1 <= k /\ 1 <= length cands /\ (dist = true -> k <= length cands) /\ forallb wf cands = true.
Proof.
  intros k cands dist srt nm lits H.
  change (((1 <=? k) && (1 <=? length cands) && (negb dist || (k <=? length cands)) &&
           ((length lits =? 0) || (length lits =? length cands)) && forallb wf cands) = true) in H.
  rewrite !andb_true_iff in H. destruct H as ((((Hk & Hn) & Hd) & _) & Hwc).
  apply Nat.leb_le in Hk, Hn. repeat split; auto. intros ->. simpl in Hd. apply Nat.leb_le; auto.
Qed.

Section Mut.
  Variable R : Type.
  Variable G : rng R.
  Hypothesis GOK : rng_ok G.
  Variable wh : nwhere.

  Lemma rand_valid : forall s r, wf s = true -> valid s (fst (rand_dna R G s r)) = true.
  Proof.
    intros. unfold rand_dna. apply random_both; auto.
    - apply (sample_ok G GOK). - intros n r0 Hn. apply (pick_ok G GOK); lia. - apply (uniform_ok G GOK).
  Qed.
  Lemma rand_p_valid : forall p r, wf_p p = true -> valid_p p (fst (rand_p R G p r)) = true.
  Proof.
    intros. unfold rand_p. apply random_both; auto.
    - apply (sample_ok G GOK). - intros n r0 Hn. apply (pick_ok G GOK); lia. - apply (uniform_ok G GOK).
  Qed.

  Lemma mut_list_inv : forall A X (P : A -> X -> Prop) (f : A -> X -> nat -> mres R X) es ds m l r,
    Forall2 P es ds ->
    (forall e x m x' r, In e es -> P e x -> f e x m = Done x' r -> P e x') ->
    mut_list R f es ds m = Done l r -> Forall2 P es l.
  Proof.
    intros A X P f es ds m l r H. revert m l r. induction H as [|e x es ds Hex H IH]; simpl; intros m l r Hf Hm. discriminate.
    destruct (f e x m) eqn:E.
    - destruct (mut_list R f es ds m0) eqn:E2; simpl in Hm; inv Hm. constructor; auto.
      eapply IH; [|eauto]. intros. eapply Hf; eauto; right; auto.
    - inv Hm. constructor; auto. eapply Hf; eauto; left; auto.
    - discriminate.
  Qed.

  (* re-drawing one sub-choice keeps the multi-choice valid *)
  Lemma redraw_valid : forall k cands dist srt nm lits cs j r,
    wf_p (Choices k cands dist srt nm lits) = true ->
    valid_p (Choices k cands dist srt nm lits) (PChoices cs) = true ->
    valid_p (Choices k cands dist srt nm lits) (PChoices (fst (fst (redraw_sub R G (length cands) cands dist srt cs j r)))) = true.
  Proof.
    intros k cands dist srt nm lits cs j r Hwf Hv.
    apply valid_p_choices_iff in Hv. destruct Hv as (Hl & Hc & Hs).
    apply wf_p_choices in Hwf. destruct Hwf as (Hk & Hn & Hd & Hwc).
    (* a fresh valid entry put at position j, then (if sorted) the stable sort *)
    assert (KEY : forall v sub, v < length cands -> (dist = true -> ~ In v (map fst cs)) ->
                  with_nth (fun s => valid s sub) false cands v = true ->
                  valid_p (Choices k cands dist srt nm lits)
                    (PChoices (if srt then sort_by (fun a b => fst a <=? fst b) (set_nth cs j (v, sub)) else set_nth cs j (v, sub))) = true).
    { intros v sub Hv Hfresh Hsub. apply valid_p_choices_iff.
      set (cs1 := set_nth cs j (v, sub)).
      assert (H1 : length cs1 = k) by (unfold cs1; rewrite set_nth_length; auto).
      assert (H2 : dist = true -> NoDup (map fst cs1)).
      { intros E. unfold cs1. rewrite map_set_nth. apply NoDup_set_nth_fresh; auto.
        apply constraint_ok_spec in Hc. apply Hc; auto. }
      assert (H3 : Forall (fun c => with_nth (fun s => valid s (snd c)) false cands (fst c) = true) cs1).
      { unfold cs1. apply Forall_set_nth'; auto. }
      destruct srt.
      - pose proof (sort_by_perm _ (fun a b : nat * sdna => fst a <=? fst b) cs1) as Hp.
        split; [rewrite sort_by_length; auto|]. split.
        + apply constraint_ok_spec. split. intros E. eapply Permutation_NoDup; [apply Permutation_sym, Permutation_map; exact Hp|auto].
          intros _. apply sort_by_fst_sorted.
        + eapply Permutation_Forall; [apply Permutation_sym; exact Hp|auto].
      - split; auto. split; auto. apply constraint_ok_spec. split; auto. intros; discriminate. }
    assert (SUB : forall v r0, v < length cands ->
                  with_nth (fun s => valid s (fst (with_nth (fun s => rand_dna R G s) (fun r' => (SSpace [], r')) cands v r0))) false cands v = true).
    { intros v r0 Hv. rewrite !with_nth_nth_error. destruct (nth_error cands v) as [sc|] eqn:E.
      - apply rand_valid. rewrite forallb_forall in Hwc. apply Hwc. eapply nth_error_In; eauto.
      - apply nth_error_None in E. lia. }
    unfold redraw_sub. destruct dist.
    - destruct (filter _ (seq 0 (length cands))) as [|a0 av] eqn:Eav.
      + apply valid_p_choices_iff. auto.
      + rewrite <- Eav.
        pose proof (pick_ok G GOK (length (filter (fun v => negb (memb v (map fst cs))) (seq 0 (length cands)))) r) as Hp.
        destruct (pick G _ r) as [i r1]. simpl in Hp.
        assert (Hin : In (nth i (filter (fun v => negb (memb v (map fst cs))) (seq 0 (length cands))) 0)
                         (filter (fun v => negb (memb v (map fst cs))) (seq 0 (length cands)))).
        { apply nth_In. apply Hp. rewrite Eav. simpl. lia. }
        apply filter_In in Hin as [Hin1 Hin2]. apply in_seq in Hin1. apply negb_true_iff in Hin2.
        set (v := nth i _ 0) in *.
        specialize (SUB v r1 ltac:(lia)).
        destruct (with_nth (fun s => rand_dna R G s) (fun r' => (SSpace [], r')) cands v r1) as [sub r2]. simpl in *.
        apply KEY; auto. lia. intros _ Hc'. apply memb_In in Hc'. congruence.
    - pose proof (pick_ok G GOK (length cands) r ltac:(lia)) as Hp.
      destruct (pick G (length cands) r) as [v r1]. simpl in Hp.
      specialize (SUB v r1 Hp).
      destruct (with_nth (fun s => rand_dna R G s) (fun r' => (SSpace [], r')) cands v r1) as [sub r2]. simpl in *.
      apply KEY; auto. intros; discriminate.
  Qed.

  Lemma set_nth_same : forall A (l : list A) j x, nth_error l j = Some x -> set_nth l j x = l.
  Proof. induction l; destruct j; simpl; intros; try discriminate. inv H; auto. f_equal; auto. Qed.

  Lemma here_inv : forall X on m (act : unit -> mres R X) rest x r,
    here R on m act rest = Done x r -> act tt = Done x r \/ exists m', rest m' = Done x r.
  Proof. unfold here. intros. destruct on; [destruct m|]; eauto. Qed.

  Lemma subs_walk_inv : forall (P : list (nat * sdna) -> Prop) onnode act into js m x r,
    (forall j x r, In j js -> act j = Done x r -> P x) ->
    (forall j m x r, In j js -> into j m = Done x r -> P x) ->
    subs_walk R onnode act into js m = Done x r -> P x.
  Proof.
    intros P onnode act into js. induction js as [|j js IH]; simpl; intros m x r Ha Hi H. discriminate.
    apply here_inv in H. destruct H as [H|[m' H]].
    - eapply Ha; eauto.
    - unfold mor in H. destruct (into j m') eqn:E.
      + eapply IH; eauto.
      + inv H. eapply Hi; eauto.
      + discriminate.
  Qed.

  (* descending into the sub-space of sub-choice j keeps the choice valid when the walk below keeps the sub-space valid *)
  Lemma sub_into_valid : forall rec k cands dist srt nm lits cs j m cs' r,
    (forall c sc sub m sub' r, nth_error cands c = Some sc -> valid sc sub = true -> rec sc sub m = Done sub' r -> valid sc sub' = true) ->
    valid_p (Choices k cands dist srt nm lits) (PChoices cs) = true ->
    sub_into R rec cands cs j m = Done cs' r ->
    valid_p (Choices k cands dist srt nm lits) (PChoices cs') = true.
  Proof.
    intros rec k cands dist srt nm lits cs j m cs' r Hrec Hv H.
    apply valid_p_choices_iff in Hv. destruct Hv as (Hl & Hc & Hs).
    unfold sub_into in H. destruct (nth_error cs j) as [[c sub]|] eqn:Ej; [|discriminate].
    rewrite with_nth_nth_error in H. destruct (nth_error cands c) as [sc|] eqn:Ec; [|discriminate].
    destruct (rec sc sub m) as [|sub' r1|] eqn:Er; simpl in H; inv H.
    apply valid_p_choices_iff. split; [rewrite set_nth_length; auto|]. split.
    - rewrite map_set_nth. simpl. rewrite set_nth_same; auto. rewrite nth_error_map, Ej. reflexivity.
    - apply Forall_set_nth'; auto. simpl. rewrite with_nth_nth_error, Ec.
      eapply Hrec; eauto. eapply nth_error_Forall in Hs; eauto. simpl in Hs. rewrite with_nth_nth_error, Ec in Hs. auto.
  Qed.

  Lemma mut_space_eq : forall es top ds m r,
    mut_space R G wh (Space es) top (SSpace ds) m r =
    mmap R SSpace (mut_list R (fun e x m' => mut_point R G wh e ((length es =? 1) && negb top) x m' r) es ds m).
  Proof. reflexivity. Qed.

  Lemma mut_both :
    (forall s, wf s = true -> forall top d m r d' r', valid s d = true ->
       mut_space R G wh s top d m r = Done d' r' -> valid s d' = true) /\
    (forall p, wf_p p = true -> forall fold x m r x' r', valid_p p x = true ->
       mut_point R G wh p fold x m r = Done x' r' -> valid_p p x' = true).
  Proof.
    apply dspec_dpoint_ind.
    - intros es IH Hwf top [ds] m r d' r' Hv H. rewrite mut_space_eq in H.
      destruct (mut_list _ _ es ds m) as [|l r1|] eqn:E; simpl in H; inv H.
      simpl in Hv |- *. apply forallb2_Forall2 in Hv. apply forallb2_Forall2.
      eapply mut_list_inv in E; eauto.
      intros e x m0 x' r0 Hin Hx Hm. rewrite Forall_forall in IH. eapply (IH e Hin); [|exact Hx|exact Hm].
      simpl in Hwf. rewrite forallb_forall in Hwf. auto.
    - intros k cands dist srt nm lits IH Hwf fold x m r x' r' Hv H.
      destruct x as [cs| |]; try discriminate.
      assert (Hrec : forall c sc sub m sub' r0, nth_error cands c = Some sc -> valid sc sub = true ->
                mut_space R G wh sc false sub m r = Done sub' r0 -> valid sc sub' = true).
      { intros c sc sub m0 sub' r0 Ec Hs Hm. eapply nth_error_Forall in IH; eauto. eapply IH; eauto.
        apply wf_p_choices in Hwf. destruct Hwf as (_ & _ & _ & Hwc). rewrite forallb_forall in Hwc. apply Hwc. eapply nth_error_In; eauto. }
      assert (Hwhole : forall x0 r0, (let (x1, r1) := rand_p R G (Choices k cands dist srt nm lits) r in
                                      if pcust x1 then Fail ENotImpl else Done x1 r1) = Done x0 r0 ->
                valid_p (Choices k cands dist srt nm lits) x0 = true).
      { intros x0 r0 Hw. pose proof (rand_p_valid (Choices k cands dist srt nm lits) r Hwf) as Hr.
        destruct (rand_p R G (Choices k cands dist srt nm lits) r) as [x1 r1]. destruct (pcust x1); inv Hw. auto. }
      change (mut_point R G wh (Choices k cands dist srt nm lits) fold (PChoices cs) m r) with
        (let n := length cands in
         let whole := fun (_ : unit) => let (x1, r1) := rand_p R G (Choices k cands dist srt nm lits) r in
                                        if pcust x1 then @Fail R pdna ENotImpl else Done x1 r1 in
         let into := sub_into R (fun s sub m' => mut_space R G wh s false sub m' r) cands cs in
         if k =? 1 then here R (w_choice wh) m whole (fun m' => mmap R PChoices (into O m'))
         else here R (w_choice wh && negb fold) m whole (fun m0 =>
                mmap R PChoices (subs_walk R (w_choice wh)
                   (fun j => match redraw_sub R G n cands dist srt cs j r with
                             | (cs', r1, false) => Done cs' r1 | (_, _, true) => Fail ENotImpl end) into (seq 0 k) m0))) in H.
      cbv zeta in H. destruct (k =? 1).
      + apply here_inv in H. destruct H as [H|[m' H]]. eapply Hwhole; eauto.
        destruct (sub_into _ _ cands cs 0 m') as [|cs' r1|] eqn:E; simpl in H; inv H.
        eapply sub_into_valid; [exact Hrec|exact Hv|exact E].
      + apply here_inv in H. destruct H as [H|[m' H]]. eapply Hwhole; eauto.
        destruct (subs_walk _ _ _ _ _ m') as [|cs' r1|] eqn:E; simpl in H; inv H.
        eapply (subs_walk_inv (fun cs' => valid_p (Choices k cands dist srt nm lits) (PChoices cs') = true)) in E; eauto.
        * intros j x0 r0 _ Hr. pose proof (redraw_valid k cands dist srt nm lits cs j r Hwf Hv) as Hrv.
          destruct (redraw_sub R G (length cands) cands dist srt cs j r) as [[cs1 r1] [|]]; inv Hr. auto.
        * intros j m0 x0 r0 _ Hi. eapply sub_into_valid; [exact Hrec|exact Hv|exact Hi].
    - intros lo hi nm Hwf fold x m r x' r' Hv H. destruct x; try discriminate.
      simpl in H. apply here_inv in H. destruct H as [H|[m' H]]; [|discriminate].
      pose proof (uniform_ok G GOK lo hi r) as Hu. destruct (uniform G lo hi r) as [f0 r1]. inv H.
      simpl in Hwf |- *. apply Z.leb_le in Hwf. specialize (Hu Hwf). simpl in Hu. apply andb_true_iff; split; apply Z.leb_le; lia.
    - intros nm Hwf fold x m r x' r' Hv H. destruct x; try discriminate.
      simpl in H. apply here_inv in H. destruct H as [H|[m' H]]; discriminate.
  Qed.

  Theorem mutate_uniform_valid : forall s d r d' r', wf s = true -> valid s d = true ->
    mutate_uniform R G wh s d r = Ok (d', r') -> valid s d' = true.
  Proof.
    unfold mutate_uniform. intros s d r d' r' Hwf Hv H.
    destruct (cnt_space wh s true d =? 0); [discriminate|].
    destruct (pick G _ r) as [m r1]. destruct (mut_space R G wh s true d m r1) as [|d1 r2|] eqn:E; inv H.
    eapply mut_both; eauto.
  Qed.
End Mut.

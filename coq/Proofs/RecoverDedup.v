(* RecoverDedup.v — Deduping.recover rebuilds the cache and recovers the wrapped generator (property C15). *)
From PG Require Import Common.Tactics Model.Recover Proofs.RecoverBase.

(* how the DNA fed back to a Deduping may differ from the one it proposed: its value and the de-duplication
   metadata are kept (a client, or pg.sample, never touches them) *)
Definition keyfed : dna -> dna -> Prop :=
  fun dx d => dkey d = dkey dx /\ dskip d = dskip dx /\ dval d = dval dx.

Definition hs_key (e e' : hentry) : Prop :=
  hs_weak e e' /\ dkey (fst e) = dkey (fst e') /\ dskip (fst e) = dskip (fst e') /\ dval (fst e) = dval (fst e').
Definition HRk : hrel := Forall2 hs_key.

Lemma HRk_refl : forall h, HRk h h.
Proof. induction h; constructor; auto. repeat split; auto. Qed.
Lemma HRk_HRw : forall h h', HRk h h' -> HRw h h'.
Proof. induction 1; constructor; auto. apply H. Qed.

Lemma hs_weak_trans : forall a b c, hs_weak a b -> hs_weak b c -> hs_weak a c.
Proof.
  unfold hs_weak. intros a b c [A1 A2] [B1 B2]. split; [congruence|].
  intros r H. destruct (A2 r H) as [E | (N & q & E)].
  - destruct (B2 r ltac:(congruence)) as [E' | (N' & q' & E')].
    + left. congruence.
    + right. split; [assumption|]. exists q'. congruence.
  - destruct (B2 r ltac:(congruence)) as [E' | (N' & q' & E')].
    + right. rewrite E'. split; [assumption|]. exists q. assumption.
    + rewrite E' in N. simpl in N. discriminate.
Qed.
Lemma HRw_trans : forall a b, HRw a b -> forall c, HRw b c -> HRw a c.
Proof.
  induction 1; intros c Hc; inv Hc; constructor; eauto using hs_weak_trans.
  apply IHForall2. assumption.
Qed.

Definition vals (l : list hentry) : list Z := map (fun e => dval (fst e)) l.
Lemma last_val_vals : forall l, last_val l = hd_error (rev (vals l)).
Proof. intros. unfold last_val, vals. rewrite <- map_rev. destruct (rev l); simpl; reflexivity. Qed.
Lemma vals_HRlen : forall l l', vals l = vals l' -> HRlen l l'.
Proof.
  intros l l' H. split.
  - unfold vals in H. apply (f_equal (@length Z)) in H. rewrite !map_length in H. assumption.
  - rewrite !last_val_vals, H. reflexivity.
Qed.
Lemma HRlen_trans : forall a b c, HRlen a b -> HRlen b c -> HRlen a c.
Proof. unfold HRlen. intros a b c [A1 A2] [B1 B2]. split; congruence. Qed.

Lemma unrewarded_app : forall a b, unrewarded (a ++ b) <-> unrewarded a /\ unrewarded b.
Proof. intros. unfold unrewarded. apply Forall_app. Qed.
Lemma unrewarded_repeat : forall d n, unrewarded (repeat (d, None) n).
Proof. intros. unfold unrewarded. apply Forall_forall. intros x Hx. apply repeat_spec in Hx. subst. reflexivity. Qed.

Lemma HRw_unrewarded_r : forall a b, HRw a b -> unrewarded b -> unrewarded a.
Proof.
  induction 1; intros Hb; [constructor|]. inv Hb. constructor; [|apply IHForall2; assumption].
  destruct H as [H _]. congruence.
Qed.

(* two all-in-flight segments of the same length are interchangeable *)
Lemma HRw_unrewarded : forall a b, unrewarded a -> unrewarded b -> length a = length b -> HRw a b.
Proof.
  induction a; destruct b; intros Ha Hb Hl; simpl in *; try discriminate; constructor.
  - inv Ha. inv Hb. split; [congruence|]. intros. congruence.
  - inv Ha. inv Hb. apply IHa; auto.
Qed.

Lemma Forall2_single_r : forall {A B} (R : A -> B -> Prop) l y, Forall2 R l [y] -> exists x, l = [x] /\ R x y.
Proof. intros A B R l y H. inv H. inv H4. eauto. Qed.

Section DedupProofs.
  Variable g : gen.
  Variable m : Z.
  Variable hm auto maxdup maxatt : nat.

  Notation D := (Deduping g m hm auto maxdup maxatt).
  Notation dst := (dd_st g).
  Notation expand := dd_expand.
  Notation rcache := (dd_replay_cache g).

  Definition cache_of (h : list hentry) : cache_t := fold_left rcache h [].

  (* --- Deduping.recover ------------------------------------------------------------------------ *)
  Lemma dd_fold_spec : forall h s,
    let r := fold_left (dd_replay g) h s in
    dd_np g r = dd_np g s + length h /\ dd_nf g r = dd_nf g s + nrew h /\
    dd_cache g r = fold_left rcache h (dd_cache g s) /\ dd_in g r = dd_in g s.
  Proof.
    induction h; intros s r; subst r; simpl.
    - repeat split; lia.
    - destruct (IHh (dd_replay g s a)) as (A & B & C & E).
      rewrite A, B, C, E. simpl. repeat split; lia.
  Qed.

  Lemma dd_recover_spec : forall h,
    let r := recover D (init D) h in
    dd_np g r = length h /\ dd_nf g r = nrew h /\ dd_cache g r = cache_of h /\
    dd_in g r = recover g (init g) (expand h).
  Proof.
    intros. subst r. simpl. unfold dd_recover.
    destruct (dd_fold_spec h (mkDd g 0 0 (recover g (init g) (expand h)) [])) as (A & B & C & E).
    simpl in *. rewrite A, B, C, E. repeat split.
  Qed.

  (* --- expansion of the history for the wrapped generator ------------------------------------- *)
  Lemma expand_app : forall a b, expand (a ++ b) = expand a ++ expand b.
  Proof. intros. unfold dd_expand. apply flat_map_app. Qed.
  Lemma expand_one : forall e, expand [e] = repeat (fst e, None) (dskip (fst e)) ++ [e].
  Proof. intros. unfold dd_expand. simpl. rewrite app_nil_r. reflexivity. Qed.
  Lemma expand_cons : forall e h, expand (e :: h) = (repeat (fst e, None) (dskip (fst e)) ++ [e]) ++ expand h.
  Proof. intros. reflexivity. Qed.

  Lemma expand_unrewarded : forall h, unrewarded h -> unrewarded (expand h).
  Proof.
    induction 1; [constructor|]. rewrite expand_cons. apply unrewarded_app. split; [|assumption].
    apply unrewarded_app. split; [apply unrewarded_repeat|]. constructor; [assumption|constructor].
  Qed.

  Lemma expand_HRw : forall h h', HRk h h' -> HRw (expand h) (expand h').
  Proof.
    induction 1; [constructor|]. rewrite !expand_cons.
    destruct H as (W & K & S & Vv).
    apply Forall2_app; [|assumption]. apply Forall2_app.
    - rewrite S. apply HRw_unrewarded; auto using unrewarded_repeat. rewrite !repeat_length. reflexivity.
    - constructor; [assumption|constructor].
  Qed.

  Lemma vals_app : forall a b, vals (a ++ b) = vals a ++ vals b.
  Proof. intros. unfold vals. apply map_app. Qed.
  Lemma vals_repeat : forall d n, vals (repeat (d, None) n) = repeat (dval d) n.
  Proof. induction n; simpl; congruence. Qed.

  Lemma expand_vals : forall h h',
    Forall2 (fun e e' => dskip (fst e) = dskip (fst e') /\ dval (fst e) = dval (fst e')) h h' ->
    vals (expand h) = vals (expand h').
  Proof.
    induction 1; [reflexivity|]. rewrite !expand_cons, !vals_app, !vals_repeat, IHForall2.
    destruct H as [S Vv]. rewrite S, Vv. simpl. rewrite Vv. reflexivity.
  Qed.

  (* --- the cache is a function of keys (and, with feedback, of the rewards) -------------------- *)
  Lemma rcache_cong : forall h h',
    Forall2 (fun e e' => dkey (fst e) = dkey (fst e') /\ snd e = snd e') h h' ->
    forall c, fold_left rcache h c = fold_left rcache h' c.
  Proof.
    induction 1; intros; simpl; [reflexivity|].
    destruct H as [K S]. rewrite IHForall2. f_equal.
    unfold dd_replay_cache, cache_add_dna. rewrite K, S. reflexivity.
  Qed.

  Lemma rcache_cong_nofb : needs_fb g = false -> forall h h',
    Forall2 (fun e e' => dkey (fst e) = dkey (fst e')) h h' ->
    forall c, fold_left rcache h c = fold_left rcache h' c.
  Proof.
    intros Hn. induction 1; intros; simpl; [reflexivity|].
    rewrite IHForall2. f_equal. unfold dd_replay_cache, cache_add_dna. rewrite Hn, H. reflexivity.
  Qed.

  Lemma rcache_unrewarded_fb : needs_fb g = true -> forall h, unrewarded h -> forall c, fold_left rcache h c = c.
  Proof.
    intros Hn. induction 1; intros; simpl; [reflexivity|].
    rewrite IHForall. unfold dd_replay_cache. rewrite Hn, H. reflexivity.
  Qed.

  Lemma HRk_cache : forall h h', HRk h h' -> cache_of h = cache_of h'.
  Proof.
    intros. unfold cache_of. apply rcache_cong.
    induction H; constructor; auto. destruct H as ((S & _) & K & _). auto.
  Qed.

  (* --- the attempts loop ----------------------------------------------------------------------- *)
  Definition pending_of (ds : list dna) : list hentry := map (fun x => (x, None)) ds.

  Lemma dd_loop_ok : forall P fuel c i att d i',
    dd_loop g m hm auto maxdup fuel c i att = (Ok d, i') ->
    forall hi, Reach g P i hi ->
    exists ds d0, Reach g P i' (hi ++ pending_of ds ++ [(d0, None)]) /\
                  length ds + att = dskip d /\ dval d = dval d0 /\ dkey d <> None.
  Proof.
    induction fuel; intros c i att d i' H hi HR; simpl in H; [discriminate|].
    destruct (propose g i) as [o i1] eqn:Ep. destruct o as [d1| |]; try discriminate.
    assert (Reach g P i1 (hi ++ [(d1, None)])) as HR1 by (econstructor; eauto).
    destruct (length (cache_get c (hash_of m hm d1)) <? maxdup).
    - inv H. exists [], d1. simpl. repeat split; auto. discriminate.
    - destruct (auto_on g auto).
      + destruct (auto_apply auto (cache_get c (hash_of m hm d1))); inv H.
        exists [], d1. simpl. repeat split; auto. discriminate.
      + destruct (IHfuel _ _ _ _ _ H _ HR1) as (ds & d0 & A & B & C & E).
        exists (d1 :: ds), d0. simpl. rewrite <- app_assoc in A. simpl in A. repeat split; auto. lia.
  Qed.

  Lemma pending_unrewarded : forall ds, unrewarded (pending_of ds).
  Proof. induction ds; constructor; auto. Qed.
  Lemma pending_length : forall ds, length (pending_of ds) = length ds.
  Proof. intros. unfold pending_of. apply map_length. Qed.

  (* --- counters and cache of a reachable state -------------------------------------------------- *)
  Lemma dd_reach_counts : forall s h, Reach D keyfed s h ->
    dd_np g s = length h /\ dd_nf g s = nrew h /\ dd_cache g s = cache_of h.
  Proof.
    induction 1.
    - simpl. auto.
    - destruct IHReach as (A & B & C). simpl in H0. unfold dd_propose in H0.
      destruct (dd_loop g m hm auto maxdup maxatt (dd_cache g s) (dd_in g s) 0) as [o i'] eqn:El.
      destruct o; inv H0. simpl. rewrite app_length, nrew_app. simpl.
      repeat split; try lia.
      unfold cache_of. rewrite fold_left_app. simpl. fold (cache_of h). rewrite <- C.
      unfold dd_replay_cache. simpl. destruct (needs_fb g); reflexivity.
    - destruct IHReach as (A & B & C). destruct H1 as (K & S & Vv).
      simpl in H2. unfold dd_feedback in H2.
      rewrite app_length, nrew_app in *. simpl in *. rewrite (nrew_unrewarded _ H0) in *.
      destruct (needs_fb g) eqn:Hn.
      + destruct (feedback g (dd_in g s) d r) as [d1 i1] eqn:Ef. inv H2. simpl.
        repeat split; try lia.
        unfold cache_of in *. rewrite fold_left_app in *. simpl in *.
        rewrite (rcache_unrewarded_fb Hn _ H0) in *.
        rewrite C. unfold dd_replay_cache at 1 3. rewrite Hn. simpl. reflexivity.
      + inv H2. simpl. repeat split; try lia.
        rewrite C. unfold cache_of. apply (rcache_cong_nofb Hn).
        apply Forall2_app; [clear; induction h1; constructor; auto|].
        constructor; [simpl; congruence|]. clear. induction h2; constructor; auto.
  Qed.

  (* --- the wrapped generator of a reachable state (feedback-driven case) ----------------------- *)
  Lemma dd_reach_inner_fb : needs_fb g = true -> meta_pres g -> forall s h, Reach D keyfed s h ->
    exists hi, Reach g anyfed (dd_in g s) hi /\ HRw hi (expand h).
  Proof.
    intros Hn Hm. induction 1.
    - exists []. split; constructor.
    - destruct IHReach as (hi & HRi & Hw). simpl in H0. unfold dd_propose in H0.
      destruct (dd_loop g m hm auto maxdup maxatt (dd_cache g s) (dd_in g s) 0) as [o i'] eqn:El.
      destruct o; inv H0. simpl.
      destruct (dd_loop_ok anyfed _ _ _ _ _ _ El _ HRi) as (ds & d0 & A & B & C & E).
      exists (hi ++ pending_of ds ++ [(d0, None)]). split; [assumption|].
      rewrite expand_app, expand_one. simpl.
      apply Forall2_app; [assumption|]. apply Forall2_app.
      * apply HRw_unrewarded; auto using pending_unrewarded, unrewarded_repeat.
        rewrite pending_length, repeat_length. lia.
      * constructor; [|constructor]. split; simpl; congruence.
    - destruct IHReach as (hi & HRi & Hw). destruct H1 as (K & S & Vv).
      simpl in H2. unfold dd_feedback in H2. rewrite Hn in H2.
      destruct (feedback g (dd_in g s) d r) as [d1 i1] eqn:Ef. inv H2. simpl.
      rewrite expand_app, expand_cons in Hw. simpl in Hw.
      apply Forall2_app_inv_r in Hw. destruct Hw as (a & rest & Ha & Hrest & ->).
      apply Forall2_app_inv_r in Hrest. destruct Hrest as (b' & c & Hb' & Hc & ->).
      apply Forall2_app_inv_r in Hb'. destruct Hb' as (b & one & Hb & Hone & ->).
      apply Forall2_single_r in Hone. destruct Hone as ([dy ry] & -> & [Hy _]). simpl in Hy. subst ry.
      assert (unrewarded c) as Uc by (eapply HRw_unrewarded_r; [exact Hc | apply expand_unrewarded; assumption]).
      assert (Reach g anyfed i1 ((a ++ b) ++ (d', Some r) :: c)) as HR'.
      { assert (Reach g anyfed (dd_in g s) ((a ++ b) ++ (dy, None) :: c)) as HRi2
          by (clear - HRi; rewrite <- !app_assoc in *; simpl in *; exact HRi).
        eapply R_fb with (dx := dy) (d := d); [exact HRi2 | exact Uc | exact I | exact Ef]. }
      exists ((a ++ b) ++ (d', Some r) :: c). split; [assumption|].
      rewrite expand_app, expand_cons. simpl.
      destruct (Hm (dd_in g s) d r) as (K' & S' & _). rewrite Ef in K', S'. simpl in K', S'.
      rewrite <- app_assoc. apply Forall2_app; [assumption|].
      replace (b ++ (d', Some r) :: c) with ((b ++ [(d', Some r)]) ++ c) by (rewrite <- app_assoc; reflexivity).
      apply Forall2_app; [|assumption]. apply Forall2_app.
      * apply HRw_unrewarded; auto using unrewarded_repeat.
        -- eapply HRw_unrewarded_r; [exact Hb | apply unrewarded_repeat].
        -- rewrite (HRw_length _ _ Hb), !repeat_length. congruence.
      * constructor; [|constructor]. split; auto.
  Qed.

  (* --- the wrapped generator when it takes no feedback: it only ever sees proposals ------------ *)
  Lemma dd_reach_inner_nofb : needs_fb g = false -> forall s h, Reach D keyfed s h ->
    exists hi, Reach g samefed (dd_in g s) hi /\ HRlen hi (expand h).
  Proof.
    intros Hn. induction 1.
    - exists []. split; [constructor | split; reflexivity].
    - destruct IHReach as (hi & HRi & Hl & Hv). simpl in H0. unfold dd_propose in H0.
      destruct (dd_loop g m hm auto maxdup maxatt (dd_cache g s) (dd_in g s) 0) as [o i'] eqn:El.
      destruct o; inv H0. simpl.
      destruct (dd_loop_ok samefed _ _ _ _ _ _ El _ HRi) as (ds & d0 & A & B & C & E).
      exists (hi ++ pending_of ds ++ [(d0, None)]). split; [assumption|].
      rewrite expand_app, expand_one. simpl. split.
      * rewrite !app_length, pending_length, repeat_length. simpl. lia.
      * rewrite !app_assoc, !last_val_snoc. simpl. congruence.
    - destruct IHReach as (hi & HRi & Hl). destruct H1 as (K & S & Vv).
      simpl in H2. unfold dd_feedback in H2. rewrite Hn in H2. inv H2. simpl.
      exists hi. split; [assumption|]. eapply HRlen_trans; [exact Hl|].
      apply vals_HRlen, expand_vals.
      apply Forall2_app; [clear; induction h1; constructor; auto|].
      constructor; [simpl; split; congruence|]. clear. induction h2; constructor; auto.
  Qed.

  (* --- observable recovery ---------------------------------------------------------------------- *)
  Lemma dd_obs_eq : forall x : dst, obs D x =
    Obs (dd_np g x) (dd_nf g x) [] (dd_cache g x) [] (if needs_fb g then [obs g (dd_in g x)] else []).
  Proof. reflexivity. Qed.

  Theorem dedup_obs_rec : obs_rec g anyfed HRw -> meta_pres g -> obs_rec D keyfed HRk.
  Proof.
    intros Hg Hm s h HR h' Hh.
    destruct (dd_recover_spec h') as (A & B & C & E).
    destruct (dd_reach_counts _ _ HR) as (A' & B' & C').
    pose proof (HRk_HRw _ _ Hh) as Hw.
    set (rr := recover D (init D) h') in *.
    rewrite !dd_obs_eq. rewrite A, B, C, A', B', C', (HRw_length _ _ Hw), (HRw_nrew _ _ Hw), (HRk_cache _ _ Hh).
    destruct (needs_fb g) eqn:Hn; [|reflexivity].
    destruct (dd_reach_inner_fb Hn Hm _ _ HR) as (hi & HRi & Hwi).
    simpl. rewrite E. do 2 f_equal.
    apply (Hg _ _ HRi). eapply HRw_trans; [exact Hwi | apply expand_HRw; assumption].
  Qed.

  Lemma dedup_meta_pres : meta_pres g -> meta_pres D.
  Proof.
    intros Hm s d r. simpl. unfold dd_feedback. destruct (needs_fb g); [|simpl; auto].
    specialize (Hm (dd_in g s) d r). destruct (feedback g (dd_in g s) d r). simpl in *. assumption.
  Qed.

  (* --- behavioural recovery (the wrapped generator takes no feedback) --------------------------- *)
  Variable Bg : st g -> st g -> Prop.

  Definition dd_beq (s1 s2 : dst) : Prop := dd_cache g s1 = dd_cache g s2 /\ Bg (dd_in g s1) (dd_in g s2).

  Lemma dd_loop_bisim : bisim g Bg -> forall fuel c i1 i2 att, Bg i1 i2 ->
    fst (dd_loop g m hm auto maxdup fuel c i1 att) = fst (dd_loop g m hm auto maxdup fuel c i2 att) /\
    Bg (snd (dd_loop g m hm auto maxdup fuel c i1 att)) (snd (dd_loop g m hm auto maxdup fuel c i2 att)).
  Proof.
    intros HB. induction fuel; intros; simpl; [auto|].
    destruct (HB _ _ H) as [Ho Hs].
    destruct (propose g i1) as [o1 t1], (propose g i2) as [o2 t2]. simpl in *. subst o2.
    destruct o1; auto.
    destruct (length (cache_get c (hash_of m hm d)) <? maxdup); auto.
    destruct (auto_on g auto); auto.
    destruct (auto_apply auto (cache_get c (hash_of m hm d))); auto.
  Qed.

  Lemma dedup_bisim : bisim g Bg -> bisim D dd_beq.
  Proof.
    intros HB s1 s2 [Hc Hi]. simpl. unfold dd_propose. rewrite Hc.
    destruct (dd_loop_bisim HB maxatt (dd_cache g s2) _ _ 0 Hi) as [Ho Hs].
    destruct (dd_loop g m hm auto maxdup maxatt (dd_cache g s2) (dd_in g s1) 0) as [o1 t1].
    destruct (dd_loop g m hm auto maxdup maxatt (dd_cache g s2) (dd_in g s2) 0) as [o2 t2].
    simpl in *. subst o2. destruct o1; simpl; unfold dd_beq; simpl; auto.
  Qed.

  Theorem dedup_cont_rec : needs_fb g = false -> cont_rec g samefed HRlen Bg -> cont_rec D keyfed HRk dd_beq.
  Proof.
    intros Hn Hg s h HR h' Hh.
    destruct (dd_recover_spec h') as (_ & _ & C & E).
    destruct (dd_reach_counts _ _ HR) as (_ & _ & C').
    destruct (dd_reach_inner_nofb Hn _ _ HR) as (hi & HRi & Hl).
    split.
    - rewrite C, C'. symmetry. apply HRk_cache. assumption.
    - rewrite E. apply (Hg _ _ HRi). eapply HRlen_trans; [exact Hl|].
      apply vals_HRlen, expand_vals.
      clear - Hh. induction Hh; constructor; auto. destruct H as (_ & _ & S & Vv). auto.
  Qed.
End DedupProofs.

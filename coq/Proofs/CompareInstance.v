(* Per-run instance obligation of C06: the type-order table regenerated from the current base.py
   gives bool/int/float one rank and pairwise different ranks to the other kinds. *)
From PG Require Import Gen.TypeOrder Gen.CompareDispatch Model.Compare Proofs.CompareDispatch.
Lemma generated_table_ok : ranks_ok tbl = true.
Proof. vm_compute. reflexivity. Qed.

(* second per-run obligation: the branch order of base.eq / base.lt regenerated from the current source dispatches every
   kind (pair) to the branch the model's eq_f / lt_f take *)
Lemma generated_dispatch_ok : dispatch_ok eq_branches lt_branches = true.
Proof. vm_compute. reflexivity. Qed.

(* the hypotheses of the C06 theorems are satisfiable by non-trivial inputs *)
From Coq Require Import NArith ZArith List.
Import ListNotations.
Definition example_value : pv :=
  PDict true [ (KStr [97%N], PList true [PInt 1; PFlt 1 1; PNone]);
               (KInt 1, PObj [65%N] 0 [(KStr [120%N], PTuple [PBool true; PFlt 3 1]); (KStr [121%N], PMissing)]) ].
Example cmp_ok_example : cmp_ok tbl FNum example_value = true.
Proof. vm_compute. reflexivity. Qed.
Example hashable_example : hashable example_value = true.
Proof. vm_compute. reflexivity. Qed.
(* the repaired behaviours, computed by the model *)
Example lt_none_none : lt tbl PNone PNone = Ok false.
Proof. vm_compute. reflexivity. Qed.
Example lt_mixed_keys : lt tbl (PDict false [(KStr [97%N], PInt 1)]) (PDict true [(KInt 1, PInt 1)]) = Ok false.
Proof. vm_compute. reflexivity. Qed.

(* two different classes with the same __qualname__ (repaired finding): ordered by class uid, not equal *)
Definition twin_a : pv := PObj [65%N] 0 [(KStr [120%N], PInt 5)].
Definition twin_b : pv := PObj [65%N] 1 [(KStr [120%N], PInt 1)].
Example same_qualname_ordered :
  cmp_ok tbl FNum twin_a = true /\ cmp_ok tbl FNum twin_b = true /\
  eq twin_a twin_b = false /\ lt tbl twin_a twin_b = Ok true /\ lt tbl twin_b twin_a = Ok false.
Proof. vm_compute. repeat split; reflexivity. Qed.

(* dict keys: int, the same int written as bool / float (given to the model as the int), non-integral floats (KFlt h e = (2h+1)/2^e) and
   strings, ordered numbers first: {1.5: 1, 'a': 1, 1: 2} < {1: 2, 2.5: 0} (first keys 1 = 1, values equal; then 1.5 < 2.5) *)
Example lt_float_keys :
  cmp_ok tbl FNum (PDict false [(KFlt 1 1, PInt 1); (KStr [97%N], PInt 1); (KInt 1, PInt 2)]) = true /\
  lt tbl (PDict false [(KFlt 1 1, PInt 1); (KStr [97%N], PInt 1); (KInt 1, PInt 2)])
         (PDict false [(KInt 1, PInt 2); (KFlt 2 1, PInt 0)]) = Ok true.
Proof. vm_compute. split; reflexivity. Qed.

(* Per-run instance obligation of C06: the type-order table regenerated from the current base.py
   gives bool/int/float one rank and pairwise different ranks to the other kinds. *)
From PG Require Import Gen.TypeOrder Model.Compare.
Lemma generated_table_ok : ranks_ok tbl = true.
Proof. vm_compute. reflexivity. Qed.

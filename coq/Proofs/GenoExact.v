(* GenoExact.v — validate / use_spec accept nothing but the normal forms of valid decisions. *)
From PG Require Import Common.Tactics Model.Geno Proofs.GenoBasics Proofs.GenoValid Proofs.GenoNext Proofs.GenoConcrete.

(* constructor normal form, at every depth: what DNA.__init__ produces from (value, children) *)
Inductive nf : dna -> Prop :=
| NF : forall v cs, Forall nf cs -> (forall gs, cs <> [D VNone gs]) -> (v = VNone -> length cs <> 1) -> nf (D v cs).

(* no custom decision point: the children of a custom decision are user-defined and not constrained *)
Fixpoint nocustom (s : dspec) : bool := match s with Space es => forallb nocustom_p es end
with nocustom_p (p : dpoint) : bool :=
  match p with Choices _ cands _ _ _ _ => forallb nocustom cands | FloatP _ _ _ => true | CustomP _ => false end.

Lemma nf_kids : forall v cs, nf (D v cs) -> Forall nf cs.
Proof. intros v cs H. inv H. auto. Qed.
Lemma nf_mk_none_kids : forall v cs, nf (D v cs) -> nf (mk VNone cs) /\ unwrap (mk VNone cs) = cs.
Proof.
  intros v cs H. inversion H as [? ? Hk Hs Hn]; subst.
  destruct cs as [|c [|c2 r]].
  - split; [|reflexivity]. constructor; auto; try discriminate.
  - destruct c as [w gs]. destruct w.
    + exfalso. eapply Hs; eauto.
    + split. inv Hk. auto. reflexivity.
    + split. inv Hk. auto. reflexivity.
    + split. inv Hk. auto. reflexivity.
  - rewrite mk_none_many by (simpl; lia). split; [|reflexivity].
    constructor; auto; try discriminate.
Qed.

Lemma index_of_some : forall v n c, index_of v n = Some c -> v = vint c /\ c < n.
Proof.
  intros v n c H. unfold index_of in H. destruct v; try discriminate.
  destruct ((0 <=? z)%Z && (z <? Z.of_nat n)%Z) eqn:E; [|discriminate]. inv H.
  apply andb_true_iff in E as [E1 E2]. apply Z.leb_le in E1. apply Z.ltb_lt in E2.
  split. unfold vint. rewrite Z2Nat.id; auto. lia.
Qed.

Lemma dvals_distinct_vint_inv : forall l, dvals_distinct (map vint l) = true -> NoDup l.
Proof.
  induction l; intros H; constructor; simpl in H; apply andb_true_iff in H as [H1 H2]; auto.
  intros Hin. apply negb_true_iff in H1. assert (E : existsb (dval_eqb (vint a)) (map vint l) = true).
  { apply existsb_exists. exists (vint a). split. apply in_map; auto. rewrite dval_eqb_vint. apply Nat.eqb_refl. }
  congruence.
Qed.
Lemma nums_sorted_scaled_inv : forall l, nums_sorted (map (fun c => (Z.of_nat c * 64)%Z) l) = true -> Sorted.StronglySorted le l.
Proof.
  induction l as [|a l IH]; intros H. constructor. destruct l as [|b l]. repeat constructor.
  change (nums_sorted (map (fun c => (Z.of_nat c * 64)%Z) (a :: b :: l))) with
    (((Z.of_nat a * 64 <=? Z.of_nat b * 64)%Z) && nums_sorted (map (fun c => (Z.of_nat c * 64)%Z) (b :: l))) in H.
  apply andb_true_iff in H as [H1 H2]. apply Z.leb_le in H1. specialize (IH H2).
  constructor; auto. inv IH. constructor. lia. eapply Forall_impl; [|exact H4]. intros; simpl in *; lia.
Qed.
Lemma dvals_sorted_vint_inv : forall l, dvals_sorted (map vint l) = Some true -> Sorted.StronglySorted le l.
Proof.
  intros l H. destruct l as [|a [|b l]]. constructor. repeat constructor.
  unfold dvals_sorted in H. change (map vint (a :: b :: l)) with (vint a :: vint b :: map vint l) in H.
  cbv iota beta in H. change (vint a :: vint b :: map vint l) with (map vint (a :: b :: l)) in H.
  rewrite opt_all_numv_vint in H. inv H. apply nums_sorted_scaled_inv; auto.
Qed.

Lemma validate_all_exact : forall l cs,
  Forall (fun p => wf_p p = true -> nocustom_p p = true -> forall d, nf d -> validate_p p d = true ->
                   exists x, valid_p p x = true /\ norm_p x = d) l ->
  forallb wf_p l = true -> forallb nocustom_p l = true -> Forall nf cs ->
  Forall2 (fun e c => validate_p e c = true) l cs ->
  exists xs, Forall2 (fun e x => valid_p e x = true) l xs /\ map norm_p xs = cs.
Proof.
  induction l as [|a l IHl]; intros cs IH Hwf Hnc Hnf H3; inversion H3 as [|? y ? l' Hy Hl']; subst.
  - exists []. split; constructor.
  - apply Forall_cons_iff in IH as [IHa IH]. apply Forall_cons_iff in Hnf as [Hny Hnf].
    simpl in Hwf, Hnc. apply andb_true_iff in Hwf as [Hw1 Hw2]. apply andb_true_iff in Hnc as [Hn1 Hn2].
    destruct (IHa Hw1 Hn1 y Hny Hy) as [x [Hx Ex]].
    destruct (IHl l' IH Hw2 Hn2 Hnf Hl') as [xs [Hxs Exs]].
    exists (x :: xs). split. constructor; auto. simpl. rewrite Ex, Exs. reflexivity.
Qed.

Lemma validate_exact_both :
  (forall s, wf s = true -> nocustom s = true -> forall d, nf d -> validate s d = true ->
             exists sd, valid s sd = true /\ normalize sd = d) /\
  (forall p, wf_p p = true -> nocustom_p p = true -> forall d, nf d -> validate_p p d = true ->
             exists x, valid_p p x = true /\ norm_p x = d).
Proof.
  apply dspec_dpoint_ind.
  - intros es IH Hwf Hnc d Hnf Hv. simpl in Hwf, Hnc.
    destruct es as [|e [|e2 es]].
    + destruct d as [v cs]. simpl in Hv. apply andb_true_iff in Hv as [H1 H2].
      destruct v; try discriminate. destruct cs; try discriminate. exists (SSpace []). split; reflexivity.
    + inv IH. simpl in Hwf, Hnc. rewrite andb_true_r in *. simpl in Hv.
      destruct (H1 Hwf Hnc d Hnf Hv) as [x [Hx Ex]]. exists (SSpace [x]). split.
      * simpl. rewrite Hx. reflexivity.
      * rewrite (shape_s [e] [x]); [exact Ex | simpl; rewrite Hwf; reflexivity | constructor; [exact Hx|constructor]].
    + destruct d as [v cs].
      change (validate (Space (e :: e2 :: es)) (D v cs)) with
        ((length cs =? length (e :: e2 :: es)) && is_none v && forallb2 (fun e c => validate_p e c) (e :: e2 :: es) cs) in Hv.
      apply andb_true_iff in Hv as [Hv H3]. apply andb_true_iff in Hv as [H1 H2].
      destruct v; try discriminate. apply Nat.eqb_eq in H1. apply forallb2_Forall2 in H3.
      assert (G : exists xs, Forall2 (fun e x => valid_p e x = true) (e :: e2 :: es) xs /\ map norm_p xs = cs).
      { apply validate_all_exact; auto. eapply nf_kids; eauto. }
      destruct G as [xs [Hxs Exs]]. exists (SSpace xs). split.
      * change (valid (Space (e :: e2 :: es)) (SSpace xs)) with (forallb2 (fun e x => valid_p e x) (e :: e2 :: es) xs).
        apply forallb2_Forall2; auto.
      * rewrite (shape_s (e :: e2 :: es) xs); auto.
        pose proof (Forall2_len _ _ _ _ _ Hxs) as Hl. destruct xs as [|x1 [|x2 xr]]; simpl in Hl; try lia.
        rewrite Exs. reflexivity.
  - intros k cands dist srt nm lits IH Hwf Hnc d Hnf Hv.
    pose proof Hwf as Hwf0. apply wf_p_choices in Hwf as (Hk & Hn & Hdk & Hwc). simpl in Hnc.
    (* one choice node: index c and children parsed against candidate c *)
    assert (Hnode : forall kid, nf kid ->
              match index_of (Geno.dvalue kid) (length cands) with
              | None => false
              | Some c => with_nth (fun chosen => validate chosen (mk VNone (dkids kid))) false cands c
              end = true ->
              exists c sub, c < length cands /\ with_nth (fun s => valid s sub) false cands c = true /\
                            mk (VInt (Z.of_nat c)) [normalize sub] = kid).
    { intros [v kids] Hnk Hvk. simpl in Hvk.
      destruct (index_of v (length cands)) as [c|] eqn:Ei; [|discriminate].
      apply index_of_some in Ei as [-> Hc]. rewrite with_nth_nth_error in Hvk.
      destruct (nth_error cands c) as [sc|] eqn:E; [|discriminate].
      destruct (nf_mk_none_kids _ _ Hnk) as [Hnm Hun].
      rewrite forallb_forall in Hwc, Hnc. eapply nth_error_Forall in IH; eauto.
      destruct (IH (Hwc sc (nth_error_In _ _ E)) (Hnc sc (nth_error_In _ _ E)) _ Hnm Hvk) as [sub [Hsub Esub]].
      exists c, sub. split; auto. split. rewrite with_nth_nth_error, E. auto.
      rewrite node_eq, Esub, Hun. reflexivity. }
    rewrite validate_p_choices_unfold in Hv. cbv zeta in Hv.
    destruct (k =? 1) eqn:Ek.
    + apply Nat.eqb_eq in Ek. subst k.
      assert (Hv' : match index_of (Geno.dvalue d) (length cands) with
                    | None => false
                    | Some c => with_nth (fun chosen => validate chosen (mk VNone (dkids d))) false cands c end = true).
      { destruct (index_of (Geno.dvalue d) (length cands)) as [c|]; [|discriminate].
        rewrite with_nth_nth_error in *. destruct (nth_error cands c); [|discriminate].
        cbv zeta in Hv. apply andb_true_iff in Hv as [_ Hv]. exact Hv. }
      destruct (Hnode d Hnf Hv') as (c & sub & Hc & Hsub & Ed).
      exists (PChoices [(c, sub)]). split.
      * apply valid_p_choices. split; auto. split. split. destruct dist, srt; reflexivity. repeat constructor; auto.
        repeat constructor; auto.
      * change (norm_p (PChoices [(c, sub)])) with (mk VNone [mk (VInt (Z.of_nat c)) [normalize sub]]).
        rewrite mk_none_single by apply mk_int_ntop. exact Ed.
    + apply Nat.eqb_neq in Ek. destruct d as [v kids]. cbn [Geno.dvalue dkids] in Hv.
      apply andb_true_iff in Hv as [Hv H4]. apply andb_true_iff in Hv as [Hv H3]. apply andb_true_iff in Hv as [H1 H2].
      destruct v; try discriminate. apply Nat.eqb_eq in H1. apply andb_true_iff in H3 as [Hd Hs].
      assert (G : exists cs, map (fun cs0 => mk (VInt (Z.of_nat (fst cs0))) [normalize (snd cs0)]) cs = kids /\
                  Forall (fun y => y < length cands) (map fst cs) /\
                  Forall (fun x : nat * sdna => with_nth (fun s => valid s (snd x)) false cands (fst x) = true) cs).
      { apply nf_kids in Hnf. rewrite forallb_forall in H4. clear H1 Hd Hs. induction kids as [|kid kids IHk].
        - exists []. repeat split; constructor.
        - inv Hnf. destruct IHk as (cs & E1 & E2 & E3); auto. { intros; apply H4; simpl; auto. }
          destruct (Hnode kid H1 (H4 kid (or_introl eq_refl))) as (c & sub & Hc & Hsub & Ed).
          exists ((c, sub) :: cs). cbn [map fst snd]. rewrite Ed, E1. repeat split; constructor; auto. }
      destruct G as (cs & E1 & E2 & E3).
      assert (Evals : map Geno.dvalue kids = map vint (map fst cs)).
      { rewrite <- E1. rewrite !map_map. apply map_ext. intros [c sub]. cbn [fst snd]. rewrite node_eq. reflexivity. }
      rewrite Evals in Hd, Hs.
      assert (Hlen : length cs = k) by (rewrite <- H1, <- E1, map_length; auto).
      exists (PChoices cs). split.
      * apply valid_p_choices. split; auto. split; auto. split; auto.
        apply constraint_ok_spec. split.
        -- intros ->. simpl in Hd. apply dvals_distinct_vint_inv; auto.
        -- intros ->. simpl in Hs. destruct (dvals_sorted (map vint (map fst cs))) as [[]|] eqn:E; try discriminate.
           apply dvals_sorted_vint_inv; auto.
      * change (norm_p (PChoices cs)) with (mk VNone (map (fun cs0 => mk (VInt (Z.of_nat (fst cs0))) [normalize (snd cs0)]) cs)).
        rewrite E1. apply mk_none_many. lia.
  - intros lo hi nm Hwf Hnc d Hnf Hv. destruct d as [v cs]. simpl in Hv. destruct v; try discriminate.
    apply andb_true_iff in Hv as [Hv H3]. destruct cs; [|discriminate].
    exists (PFloat f). split; auto.
  - intros nm Hwf Hnc. discriminate.
Qed.

Theorem validate_exact : forall s d, wf s = true -> nocustom s = true -> nf d -> validate s d = true ->
  exists sd, valid s sd = true /\ normalize sd = d.
Proof. intros. eapply (proj1 validate_exact_both); eauto. Qed.

(* ---- use_spec ------------------------------------------------------------------------------------------------ *)
Lemma bind_all_inv : forall A (f : nat -> A -> dna -> option bdna) es ds i bs,
  bind_all f i es ds = Some bs -> Forall2 (fun e d => exists j b, f j e d = Some b) es ds.
Proof.
  induction es as [|e es IH]; intros [|d ds] i bs H; simpl in H; try discriminate. constructor.
  destruct (f i e d) as [b|] eqn:E; [|discriminate].
  destruct (bind_all f (S i) es ds) as [bs'|] eqn:E2; [|discriminate]. constructor; eauto.
Qed.

Lemma bind_exact_both : forall q, no_quirks q ->
  (forall s, wf s = true -> nocustom s = true -> forall a kids bs, Forall nf kids -> (forall gs, kids <> [D VNone gs]) ->
             bind_kids q s a kids = Some bs -> exists sd, valid s sd = true /\ unwrap (normalize sd) = kids) /\
  (forall p, wf_p p = true -> nocustom_p p = true -> forall a d b, nf d -> bind_p q p a d = Some b ->
             exists x, valid_p p x = true /\ norm_p x = d).
Proof.
  intros q Hq. apply dspec_dpoint_ind.
  - intros es IH Hwf Hnc a kids bs Hnk Hns H. simpl in Hwf, Hnc. rewrite bind_kids_unfold in H.
    destruct es as [|e [|e2 es]].
    + destruct kids; simpl in H; [|discriminate]. exists (SSpace []). split; reflexivity.
    + apply Forall_cons_iff in IH as [IHe _]. simpl in Hwf, Hnc. rewrite andb_true_r in *.
      assert (Hsh : forall x, valid_p e x = true -> normalize (SSpace [x]) = norm_p x).
      { intros x Hx. rewrite (shape_s [e] [x]); [reflexivity | simpl; rewrite Hwf; reflexivity | constructor; [exact Hx|constructor]]. }
      destruct (is_multi e) eqn:Em.
      * destruct (bind_p q e (a ++ [0]) (D VNone kids)) as [b|] eqn:Eb; [|discriminate].
        assert (Hlen : length kids <> 1).
        { (* a multi-choice has k >= 2 sub-choices *)
          destruct e as [k cands dist srt nm lits| |]; try discriminate. unfold is_multi in Em.
          apply wf_p_choices in Hwf as (Hk & _). rewrite bind_p_choices_unfold in Eb.
          apply negb_true_iff in Em. rewrite Em in Eb. simpl in Eb.
          destruct (bind_all _ 0 (seq 0 k) kids) as [ks|] eqn:Ea; [|discriminate].
          apply bind_all_inv in Ea. apply Forall2_len in Ea. rewrite seq_length in Ea. apply Nat.eqb_neq in Em. lia. }
        assert (Hnd : nf (D VNone kids)) by (constructor; auto).
        destruct (IHe Hwf Hnc _ _ _ Hnd Eb) as [x [Hx Ex]]. exists (SSpace [x]). split.
        -- simpl. rewrite Hx. reflexivity.
        -- rewrite (Hsh x Hx), Ex. reflexivity.
      * destruct kids as [|kid [|]]; try discriminate.
        destruct (bind_p q e (a ++ [0]) kid) as [b|] eqn:Eb; [|discriminate].
        apply Forall_cons_iff in Hnk as [Hnkid _]. destruct (IHe Hwf Hnc _ _ _ Hnkid Eb) as [x [Hx Ex]]. exists (SSpace [x]). split.
        -- simpl. rewrite Hx. reflexivity.
        -- rewrite (Hsh x Hx). destruct (unwrap_multi e x Hwf Hx) as [[Em' _]|[_ En]]; [congruence|].
           rewrite En, Ex. reflexivity.
    + pose proof (bind_all_inv _ _ _ _ _ _ H) as HF.
      assert (G : exists xs, Forall2 (fun e x => valid_p e x = true) (e :: e2 :: es) xs /\ map norm_p xs = kids).
      { clear H Hns. revert IH Hwf Hnc Hnk HF. generalize (e :: e2 :: es). intros l. revert kids.
        induction l as [|p l IHl]; intros kids IH Hwf Hnc Hnk HF; inversion HF as [|? y ? l' Hy Hl']; subst.
        - exists []. split; constructor.
        - apply Forall_cons_iff in IH as [IHa IH]. apply Forall_cons_iff in Hnk as [Hny Hnk].
          simpl in Hwf, Hnc. apply andb_true_iff in Hwf as [Hw1 Hw2]. apply andb_true_iff in Hnc as [Hn1 Hn2].
          destruct Hy as (j & b & Hb). destruct (IHa Hw1 Hn1 _ _ _ Hny Hb) as [x [Hx Ex]].
          destruct (IHl l' IH Hw2 Hn2 Hnk Hl') as [xs [Hxs Exs]].
          exists (x :: xs). split. constructor; auto. simpl. rewrite Ex, Exs. reflexivity. }
      destruct G as [xs [Hxs Exs]]. exists (SSpace xs). split.
      * change (valid (Space (e :: e2 :: es)) (SSpace xs)) with (forallb2 (fun e x => valid_p e x) (e :: e2 :: es) xs).
        apply forallb2_Forall2; auto.
      * rewrite (shape_s (e :: e2 :: es) xs); auto.
        pose proof (Forall2_len _ _ _ _ _ Hxs) as Hl. destruct xs as [|x1 [|x2 xr]]; simpl in Hl; try lia.
        rewrite Exs. reflexivity.
  - intros k cands dist srt nm lits IH Hwf Hnc a d b Hnf Hb.
    pose proof Hwf as Hwf0. apply wf_p_choices in Hwf as (Hk & Hn & Hdk & Hwc). simpl in Hnc.
    assert (Hnode : forall a' kid b', nf kid -> single_bind q cands a' kid = Some b' ->
              exists c sub, c < length cands /\ with_nth (fun s => valid s sub) false cands c = true /\
                            mk (VInt (Z.of_nat c)) [normalize sub] = kid).
    { intros a' [v kids] b' Hnk Hs. unfold single_bind in Hs. cbn [Geno.dvalue dkids] in Hs.
      destruct (index_of v (length cands)) as [c|] eqn:Ei; [|discriminate].
      apply index_of_some in Ei as [-> Hc]. rewrite with_nth_nth_error in Hs.
      destruct (nth_error cands c) as [sc|] eqn:E; [|discriminate].
      destruct (bind_kids q sc (a' ++ [c]) kids) as [ks|] eqn:Ek; [|discriminate].
      inversion Hnk as [? ? Hkk Hks _]; subst.
      rewrite forallb_forall in Hwc, Hnc. eapply nth_error_Forall in IH; eauto.
      destruct (IH (Hwc sc (nth_error_In _ _ E)) (Hnc sc (nth_error_In _ _ E)) _ _ _ Hkk Hks Ek) as [sub [Hsub Esub]].
      exists c, sub. split; auto. split. rewrite with_nth_nth_error, E. auto.
      rewrite node_eq, Esub. reflexivity. }
    rewrite bind_p_choices_unfold in Hb.
    destruct (k =? 1) eqn:Ek.
    + apply Nat.eqb_eq in Ek. subst k.
      destruct (Hnode a d b Hnf Hb) as (c & sub & Hc & Hsub & Ed).
      exists (PChoices [(c, sub)]). split.
      * apply valid_p_choices. split; auto. split. split. destruct dist, srt; reflexivity. repeat constructor; auto.
        repeat constructor; auto.
      * change (norm_p (PChoices [(c, sub)])) with (mk VNone [mk (VInt (Z.of_nat c)) [normalize sub]]).
        rewrite mk_none_single by apply mk_int_ntop. exact Ed.
    + apply Nat.eqb_neq in Ek. destruct d as [v kids]. cbn [Geno.dvalue dkids] in Hb.
      destruct v; try discriminate. simpl in Hb.
      destruct (bind_all _ 0 (seq 0 k) kids) as [ks|] eqn:Ea; [|discriminate].
      destruct ((negb srt || match dvals_sorted (map Geno.dvalue kids) with Some b0 => b0 | None => false end) &&
                (negb dist || dvals_distinct (map Geno.dvalue kids))) eqn:Ec; [|discriminate].
      apply andb_true_iff in Ec as [Hs Hd].
      pose proof (bind_all_inv _ _ _ _ _ _ Ea) as HF. pose proof (Forall2_len _ _ _ _ _ HF) as Hl. rewrite seq_length in Hl.
      assert (G : exists cs, map (fun cs0 => mk (VInt (Z.of_nat (fst cs0))) [normalize (snd cs0)]) cs = kids /\
                  Forall (fun y => y < length cands) (map fst cs) /\
                  Forall (fun x : nat * sdna => with_nth (fun s => valid s (snd x)) false cands (fst x) = true) cs).
      { apply nf_kids in Hnf. clear Ea Hl Hs Hd. revert HF Hnf. generalize (seq 0 k). intros l. revert kids.
        induction l as [|i l IHl]; intros kids HF Hnf; inversion HF as [|? y ? l' Hy Hl']; subst.
        - exists []. repeat split; constructor.
        - apply Forall_cons_iff in Hnf as [Hny Hnf]. destruct Hy as (j & b' & Hb').
          destruct (Hnode _ _ _ Hny Hb') as (c & sub & Hc & Hsub & Ed).
          destruct (IHl l' Hl' Hnf) as (cs & E1 & E2 & E3).
          exists ((c, sub) :: cs). cbn [map fst snd]. rewrite Ed, E1. repeat split; constructor; auto. }
      destruct G as (cs & E1 & E2 & E3).
      assert (Evals : map Geno.dvalue kids = map vint (map fst cs)).
      { rewrite <- E1. rewrite !map_map. apply map_ext. intros [c sub]. cbn [fst snd]. rewrite node_eq. reflexivity. }
      rewrite Evals in Hd, Hs.
      assert (Hlen : length cs = k) by (rewrite Hl, <- E1, map_length; auto).
      exists (PChoices cs). split.
      * apply valid_p_choices. split; auto. split; auto. split; auto.
        apply constraint_ok_spec. split.
        -- intros ->. simpl in Hd. apply dvals_distinct_vint_inv; auto.
        -- intros ->. simpl in Hs. destruct (dvals_sorted (map vint (map fst cs))) as [[]|] eqn:E; try discriminate.
           apply dvals_sorted_vint_inv; auto.
      * change (norm_p (PChoices cs)) with (mk VNone (map (fun cs0 => mk (VInt (Z.of_nat (fst cs0))) [normalize (snd cs0)]) cs)).
        rewrite E1. apply mk_none_many. lia.
  - intros lo hi nm Hwf Hnc a d b Hnf Hb. destruct d as [v cs]. simpl in Hb. destruct v; try discriminate.
    unfold no_quirks in Hq. rewrite Hq in Hb. simpl in Hb.
    destruct ((lo <=? f)%Z && (f <=? hi)%Z && (length cs =? 0)) eqn:E; [|discriminate].
    apply andb_true_iff in E as [E1 E2]. destruct cs; [|discriminate].
    exists (PFloat f). split; auto.
  - intros nm Hwf Hnc. discriminate.
Qed.

Theorem bind_exact : forall q s d b, no_quirks q -> wf s = true -> nocustom s = true -> nf d ->
  bind q s d = Some b -> exists sd, valid s sd = true /\ normalize sd = d.
Proof.
  intros q [es] d b Hq Hwf Hnc Hnf Hb. unfold bind in Hb.
  destruct (bind_exact_both q Hq) as [_ HQ].
  destruct es as [|e [|e2 es]].
  - destruct d as [v cs]. simpl in Hb. destruct v; try discriminate. destruct cs; try discriminate.
    exists (SSpace []). split; reflexivity.
  - simpl in Hwf, Hnc. rewrite andb_true_r in *.
    destruct (HQ e Hwf Hnc _ _ _ Hnf Hb) as [x [Hx Ex]]. exists (SSpace [x]). split.
    + simpl. rewrite Hx. reflexivity.
    + rewrite (shape_s [e] [x]); [exact Ex | simpl; rewrite Hwf; reflexivity | constructor; [exact Hx|constructor]].
  - destruct d as [v cs]. cbn [Geno.dvalue dkids] in Hb. destruct v; try discriminate. simpl is_none in Hb. cbv iota in Hb.
    destruct (bind_all (fun i e0 c => bind_p q e0 [i] c) 0 (e :: e2 :: es) cs) as [bs|] eqn:Ea; [|discriminate].
    pose proof (bind_all_inv _ _ _ _ _ _ Ea) as HF.
    assert (G : exists xs, Forall2 (fun e x => valid_p e x = true) (e :: e2 :: es) xs /\ map norm_p xs = cs).
    { apply nf_kids in Hnf. change (forallb wf_p (e :: e2 :: es) = true) in Hwf. change (forallb nocustom_p (e :: e2 :: es) = true) in Hnc.
      clear Ea Hb. revert Hwf Hnc Hnf HF. generalize (e :: e2 :: es). intros l. revert cs.
      induction l as [|p l IHl]; intros cs Hwf Hnc Hnk HF; inversion HF as [|? y ? l' Hy Hl']; subst.
      - exists []. split; constructor.
      - apply Forall_cons_iff in Hnk as [Hny Hnk].
        simpl in Hwf, Hnc. apply andb_true_iff in Hwf as [Hw1 Hw2]. apply andb_true_iff in Hnc as [Hn1 Hn2].
        destruct Hy as (j & b' & Hb'). destruct (HQ p Hw1 Hn1 _ _ _ Hny Hb') as [x [Hx Ex]].
        destruct (IHl l' Hw2 Hn2 Hnk Hl') as [xs [Hxs Exs]].
        exists (x :: xs). split. constructor; auto. simpl. rewrite Ex, Exs. reflexivity. }
    destruct G as [xs [Hxs Exs]]. exists (SSpace xs). split.
    + change (valid (Space (e :: e2 :: es)) (SSpace xs)) with (forallb2 (fun e x => valid_p e x) (e :: e2 :: es) xs).
      apply forallb2_Forall2; auto.
    + rewrite (shape_s (e :: e2 :: es) xs); auto.
      pose proof (Forall2_len _ _ _ _ _ Hxs) as Hl. destruct xs as [|x1 [|x2 xr]]; simpl in Hl; try lia.
      rewrite Exs. reflexivity.
Qed.

(* with the open finding's flag on, use_spec does accept a non-member: a Float node with a child *)
Definition q_float : quirks := {| q_float_bind_kids := true |}.
Lemma bind_quirk_refuted :
  let s := Space [FloatP 0%Z 64%Z ([KName [97%N]], None)] in
  let d := D (VFlt 32%Z) [D (VInt 0%Z) []] in
  (exists b, bind q_float s d = Some b) /\ ~ (exists sd, valid s sd = true /\ normalize sd = d) /\ bind q_none s d = None.
Proof.
  cbv zeta. split; [|split].
  - vm_compute. eauto.
  - intros [sd [Hv En]].
    assert (Hw : wf (Space [FloatP 0%Z 64%Z ([KName [97%N]], None)]) = true) by reflexivity.
    pose proof (validate_complete _ sd Hw Hv) as H. rewrite En in H. vm_compute in H. discriminate.
  - vm_compute. reflexivity.
Qed.
Example nf_example : nf (D VNone [D (VInt 0%Z) [D (VInt 1%Z) []]; D (VInt 2%Z) []]) /\
                     nocustom (Space [Choices 2 [Space []; Space []; Space []] true false ([KName [97%N]], None) []]) = true.
Proof. split; [|reflexivity]. repeat (constructor; try discriminate). Qed.

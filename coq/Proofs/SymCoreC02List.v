(* SymCoreC02List.v -- every list operation of the catalogue on a pg.List (at any position of the forest) refines the Python
   reference (PyList) on the erasure of its items: same contents after, same value of the call, same error class. *)
From Coq Require Import ZArith NArith List Bool Lia.
Import ListNotations.
From PG Require Import Common.Tactics Model.SymCoreDefs Model.SymCoreOps Model.SymCoreSpec Model.SymCoreC02
     Proofs.SymCoreBase Proofs.SymCoreWF Proofs.SymCoreWFOps Proofs.SymCoreClone Proofs.SymCoreC02Read Proofs.SymCoreC02Frame
     Proofs.SymCoreC02Prim.
From PG Require Model.PyList Model.PyDict.
Local Open Scope Z_scope.

(* the permission side of an operation is C08's: here the target lets the write through *)
Definition permits (sc : scope) (fl : flags) : Prop :=
  treats_as_sealed sc fl = false /\ writable_via_accessors sc fl = true.
Lemma permits_default : forall sc fl, treats_as_sealed sc fl = false -> treats_as_sealed sc default_flags = false.
Proof. unfold treats_as_sealed; intros. destruct (sealed_scope sc); auto. Qed.

Definition err_of (e : PyList.pyerr) : err :=
  match e with PyList.PyIndexError => EIndex | PyList.PyKeyError => EKey | PyList.PyTypeError => EType | PyList.PyValueError => EValue end.

Section ListOps.
Variables (q : quirks) (sc : scope) (ps : pos) (tid : N) (pa : option N) (fl : flags).

Lemma wrote_refl : forall st its, at_is st ps tid KList pa fl its -> clean its -> anc_clean st ps -> wfs st ->
  wrote st ps tid pa fl st (evals its).
Proof. intros. exists its. repeat split; auto. apply keeps_other_refl. Qed.
Lemma wrote_step : forall st st1 st2 l1 l2,
  wrote st ps tid pa fl st1 l1 ->
  (forall its1, at_is st1 ps tid KList pa fl its1 -> clean its1 -> anc_clean st1 ps -> wfs st1 -> evals its1 = l1 -> wrote st1 ps tid pa fl st2 l2) ->
  wrote st ps tid pa fl st2 l2.
Proof.
  intros st st1 st2 l1 l2 (its1 & R1 & C1 & E1 & K1 & A1 & W1) H.
  destruct (H its1 R1 C1 A1 W1 E1) as (its2 & R2 & C2 & E2 & K2 & A2 & W2).
  exists its2. repeat split; auto. eapply keeps_other_trans; eauto.
Qed.
(* change notification of a clean, well-formed chain of lists changes nothing *)
Lemma wrote_fix_chain : forall st st' l' (b : bool), wrote st ps tid pa fl st' l' ->
  wrote st ps tid pa fl (if b then fix_chain st' ps else st') l'.
Proof.
  intros. destruct b; auto. destruct H as (its' & R & C & E & K & A & W).
  rewrite fix_chain_id; auto. { exists its'; auto 10. }
  intros pre suf i pa0 pt fl0 its0 ES G. destruct suf.
  - rewrite app_nil_r in ES. subst pre. unfold at_is in R. rewrite <- surjective_pairing in G. rewrite R in G. inv G. auto.
  - eapply A; eauto. discriminate.
Qed.
Lemma wrote_notified : forall st st' l' p, wrote st ps tid pa fl st' l' -> wrote st ps tid pa fl (notified sc st' ps p) l'.
Proof. intros. unfold notified. destruct p; auto. apply wrote_fix_chain; auto. Qed.

Lemma at_cur : forall st its, at_is st ps tid KList pa fl its ->
  cur_items st ps = its /\ cur_path st ps = snd ps /\ cur_len st ps = zlen its.
Proof. intros. apply (cur_items_facts st ps tid KList pa (snd ps) fl its). exact H. Qed.
Lemma at_children : forall st its, wfs st -> at_is st ps tid KList pa fl its ->
  Forall (child_wf tid (snd ps)) its /\ positions 0 (map fst its).
Proof. intros. destruct (container_facts _ _ _ _ _ _ _ _ H H0) as (_ & K & F). auto. Qed.

(* --- extend ------------------------------------------------------------------------------------------------------------ *)
Lemma extend_loop_at : forall rvs st its upd st' u e,
  at_is st ps tid KList pa fl its -> clean its -> anc_clean st ps -> wfs st -> Forall storable_rv rvs ->
  extend_loop q sc st ps rvs upd = (st', u, e) ->
  e = None /\ wrote st ps tid pa fl st' (evals its ++ map prv rvs).
Proof.
  induction rvs as [|rv rvs IH]; intros st its upd st' u e R C A W F E; simpl in E.
  - inv E. split; auto. rewrite app_nil_r. apply wrote_refl; auto.
  - inv F. destruct (at_cur _ _ R) as (_ & _ & CL). rewrite CL in E. clear CL.
    destruct (lprim q sc st ps (KI (zlen its)) rv) as [st1 p] eqn:L.
    destruct (lprim_append q sc st ps tid pa fl its R C A W (zlen its) rv st1 p H1 (Z.le_refl _) L) as (EP & WR).
    subst p. pose proof WR as (its1 & R1 & C1 & E1 & K1 & A1 & W1).
    destruct (IH st1 its1 true st' u e R1 C1 A1 W1 H2 E) as (EE & WW). split; auto.
    eapply wrote_step; [exact WR|]. intros its1' R1' _ _ _ E1'.
    unfold at_is in R1, R1'. rewrite R1 in R1'. inv R1'.
    rewrite E1 in WW. simpl. rewrite <- app_assoc in WW. exact WW.
Qed.
Lemma extend_core_at : forall rvs st its st' out,
  at_is st ps tid KList pa fl its -> clean its -> anc_clean st ps -> wfs st -> Forall storable_rv rvs ->
  extend_core q sc st ps rvs = (st', out) ->
  out = Ok RNone /\ wrote st ps tid pa fl st' (evals its ++ map prv rvs).
Proof.
  intros rvs st its st' out R C A W F E. unfold extend_core in E.
  destruct (extend_loop q sc st ps rvs false) as [[st1 u] e] eqn:L.
  destruct (extend_loop_at _ _ _ _ _ _ _ R C A W F L) as (EE & WR). subst e. inv E. split; auto.
  apply wrote_fix_chain; auto.
Qed.

(* new items for the target (re-indexed), some items detached *)
Lemma items_replaced : forall st its its' gone,
  at_is st ps tid KList pa fl its -> anc_clean st ps -> wfs st -> clean its' ->
  Forall (child_wf_any tid (snd ps)) its' -> Forall (fun kv => exists ep pt, wf_node ep pt (snd kv)) gone ->
  wrote st ps tid pa fl (detach_all (update_at st ps (set_items (renum (snd ps) its'))) gone) (evals its').
Proof.
  intros st its its' gone R A W C F G.
  assert (W1 : wfs (update_at st ps (set_items (renum (snd ps) its')))) by (eapply wfs_list_items; eauto).
  destruct (written_here' st ps tid pa fl its KList R A st (renum (snd ps) its') eq_refl) as (R1 & K1 & A1).
  rewrite <- (evals_renum (snd ps)). exists (renum (snd ps) its'). repeat split.
  - unfold at_is. eapply keeps_roots_get_at. apply keeps_roots_detach_all. exact R1.
  - apply clean_renum; auto.
  - eapply keeps_other_trans; eauto. apply keeps_roots_other. apply keeps_roots_detach_all.
  - eapply anc_clean_keeps; [apply keeps_roots_detach_all| |exact A1]. eapply get_at_root_some; eauto.
  - apply detach_all_wfs; auto.
Qed.

(* --- deletion of one position ------------------------------------------------------------------------------------------- *)
Lemma ldel_core_at : forall st its idx st' ret,
  at_is st ps tid KList pa fl its -> clean its -> anc_clean st ps -> wfs st -> (idx < length its)%nat ->
  ldel_core sc st ps idx = (st', ret) ->
  wrote st ps tid pa fl st' (PyList.delete_nth idx (evals its)) /\
  exists k0 old, nth_error its idx = Some (k0, old) /\ ret = ret_item st' old.
Proof.
  intros st its idx st' ret R C A W LT E. unfold ldel_core in E.
  destruct (at_cur _ _ R) as (CI & CP & _). rewrite CI, CP in E. clear CI CP.
  destruct (at_children _ _ W R) as (CF & KP).
  destruct (nth_error its idx) as [[k0 old]|] eqn:N.
  2:{ apply nth_error_None in N. lia. }
  injection E as E1 E2. subst st' ret. split; eauto.
  apply wrote_fix_chain. rewrite <- evals_remove_nth.
  change (add_detached (update_at st ps (set_items (renum (snd ps) (remove_nth idx its)))) old)
    with (detach_all (update_at st ps (set_items (renum (snd ps) (remove_nth idx its)))) [(k0, old)]).
  eapply items_replaced; eauto.
  - apply Forall_remove_nth; auto.
  - apply child_wf_any_of. apply Forall_remove_nth; auto.
  - constructor; auto. simpl. eapply Forall_nth_error in N; eauto. red in N. simpl in N. eauto.
Qed.

(* --- clear / reverse / sort ----------------------------------------------------------------------------------------------- *)
Lemma clear_core_at : forall st its, at_is st ps tid KList pa fl its -> anc_clean st ps -> wfs st ->
  wrote st ps tid pa fl (clear_core sc st ps its) [].
Proof.
  intros st its R A W. unfold clear_core.
  destruct (at_children _ _ W R) as (CF & KP).
  assert (WR : wrote st ps tid pa fl (detach_all (update_at st ps (set_items [])) its) (evals [])).
  { change (set_items []) with (set_items (renum (snd ps) [])). eapply items_replaced; eauto; try constructor.
    apply (children_wf_any tid (snd ps)); auto. }
  destruct its; auto. apply wrote_fix_chain; auto.
Qed.
Lemma reorder_core_at : forall st its its', at_is st ps tid KList pa fl its -> anc_clean st ps -> wfs st -> clean its' ->
  Forall (child_wf_any tid (snd ps)) its' ->
  wrote st ps tid pa fl (reorder_core sc st ps (snd ps) its its') (evals its').
Proof.
  intros st its its' R A W C F. unfold reorder_core. apply wrote_fix_chain.
  change (update_at st ps (set_items (renum (snd ps) its'))) with (detach_all (update_at st ps (set_items (renum (snd ps) its'))) []).
  eapply items_replaced; eauto.
Qed.
End ListOps.

(* --- facts about the reference semantics used below ------------------------------------------------------------------------- *)
Lemma pop_position : forall n i, - n <= i < n -> Z.to_nat ((i + n) mod n) = Z.to_nat (if i <? 0 then i + n else i).
Proof.
  intros. f_equal. destruct (i <? 0) eqn:E.
  - apply Z.mod_small. lia.
  - replace (i + n) with (i + 1 * n) by lia. rewrite Z.mod_add by lia. apply Z.mod_small. lia.
Qed.
Lemma find_index_remove : forall l its,
  find_index (fun kv : key * node => match snd kv with Leaf x => leaf_pyeq x l | _ => false end) its =
  PyList.find_pos pv_pyeq (PLeaf (erase_leaf l)) (evals its) 0.
Proof.
  intros. unfold find_index. generalize 0%nat.
  induction its as [|[k c] its IH]; intros; simpl; auto.
  rewrite IH. destruct c; simpl.
  - rewrite leaf_pyeq_erase_l, leaf_pyeq_erase_r. reflexivity.
  - destruct k0; reflexivity.
Qed.
Lemma find_pos_lt : forall A (eqb : A -> A -> bool) x l i p, PyList.find_pos eqb x l i = Some p -> (i <= p < i + length l)%nat.
Proof.
  induction l; simpl; intros; try discriminate. destruct (eqb a x). inv H; lia. apply IHl in H. lia.
Qed.
Lemma repeat_list_app : forall A n (l : list A), repeat_list n l = PyList.repeat_app n l.
Proof. induction n; simpl; intros; auto; try (rewrite IHn; auto). Qed.

Lemma zip_keys_map : forall A B (f : A -> B) l ks,
  PyList.zip_keys ks (map f l) = map (fun x => (fst x, f (snd x))) (zip_keys ks l).
Proof. induction l; simpl; intros; auto. destruct ks; simpl; rewrite IHl; auto. Qed.
Lemma ins_sorted_map : forall A B (f : A -> B) le (x : Z * A) l,
  map (fun x => (fst x, f (snd x))) (insert_sorted le x l) = PyList.ins_sorted le (fst x, f (snd x)) (map (fun x => (fst x, f (snd x))) l).
Proof. induction l; simpl; auto. destruct (le (fst x) (fst a)); simpl; auto. rewrite IHl; auto. Qed.
Lemma sort_map : forall A B (f : A -> B) rv ks (l : list A),
  map f (map snd (stable_sort rv (zip_keys ks l))) = PyList.sort_by rv ks (map f l).
Proof.
  intros. unfold PyList.sort_by, stable_sort. rewrite zip_keys_map.
  set (le := if rv then Z.geb else Z.leb).
  assert (E : forall L : list (Z * A), map (fun x => (fst x, f (snd x))) (fold_right (insert_sorted le) [] L) =
              fold_right (PyList.ins_sorted le) [] (map (fun x => (fst x, f (snd x))) L)).
  { induction L; simpl; auto. rewrite ins_sorted_map, IHL. reflexivity. }
  rewrite <- E. rewrite !map_map. reflexivity.
Qed.

(* a flat list holds leaves only *)
Definition flat (its : list (key * node)) : Prop := Forall (fun kv => is_node (snd kv) = false) its.
Lemma flat_items : forall its, flat its -> clean its ->
  Forall storable_rv (map (fun kv => rv_of_item (snd kv)) its) /\ map prv (map (fun kv => rv_of_item (snd kv)) its) = evals its.
Proof.
  induction its as [|[k c] its IH]; simpl; intros F C; auto. inv F. inv C. destruct (IH H2 H4) as [A B].
  destruct c; simpl in *; try discriminate. split.
  - constructor; auto. simpl. destruct l; simpl in *; congruence.
  - rewrite B. reflexivity.
Qed.
Lemma Forall_repeat_app : forall A (P : A -> Prop) n l, Forall P l -> Forall P (PyList.repeat_app n l).
Proof. induction n; simpl; intros; auto. apply Forall_app; auto. Qed.
Lemma map_repeat_app : forall A B (f : A -> B) n l, map f (PyList.repeat_app n l) = PyList.repeat_app n (map f l).
Proof. induction n; simpl; intros; auto. rewrite map_app, IHn; auto. Qed.

(* MISSING_VALUE is visible in the erasure *)
Lemma is_missing_erase : forall n, is_missing n = match erase n with PLeaf LMissing => true | _ => false end.
Proof. destruct n; simpl; auto. destruct l; reflexivity. Qed.
Lemma clean_evals : forall a b, evals a = evals b -> clean a -> clean b.
Proof.
  unfold clean. induction a as [|[k x] a IH]; destruct b as [|[k' y] b]; simpl; intros E C; try discriminate; auto.
  inv E. inv C. constructor; eauto. simpl in *. rewrite is_missing_erase in *. rewrite <- H0. auto.
Qed.

(* List(items): the new list holds copies of the items *)
Lemma new_list_from_root : forall q st cid pt its c st1,
  no_quirks q -> Forall (child_wf cid pt) its -> positions 0 (map fst its) -> clean its ->
  new_list_from q st its = (c, st1) ->
  roots st1 = roots st /\ exists tid' its', c = Node tid' KList None [] default_flags its' /\ evals its' = evals its /\ clean its'.
Proof.
  intros q st cid pt its c st1 NQ F P C E. unfold new_list_from in E.
  destruct (clone_at (q_copy_drops_missing q) false None [] (Node 0%N KList None [] default_flags its) (next_id st, [])) as [c0 cs] eqn:CL.
  inv E. split; auto.
  assert (ER : erase c = erase (Node cid KList None pt default_flags its)).
  { rewrite (clone_at_ignores_header _ _ _ _ _ _ _ _ _ _ cid None pt) in CL.
    replace c with (fst (clone_at (q_copy_drops_missing q) false None [] (Node cid KList None pt default_flags its) (next_id st, []))) by (rewrite CL; auto).
    eapply clone_erase.
    - apply wf_node_unfold. repeat split; auto.
    - left. exact NQ. }
  rewrite clone_at_node in CL. cbv zeta in CL. cbn [fst snd] in CL.
  match type of CL with (let '(_, _) := ?X in _) = _ => destruct X as [its' cs'] eqn:CI end.
  try rewrite CI in CL. inv CL. exists (next_id st), its'. split; auto.
  rewrite !erase_node in ER. inv ER.
  assert (EV : evals its' = evals its) by (rewrite <- !pvals_eitems; congruence).
  split; auto. eapply clean_evals; [symmetry; eauto|auto].
Qed.

(* --- the refinement, operation by operation ------------------------------------------------------------------------------------ *)
Definition lop_of (ro : op rvalue) : option (PyList.lop pv) :=
  match ro with
  | LSet i v => Some (PyList.PLSet i (prv v))
  | LDel i => Some (PyList.PLDel i)
  | LAppend v => Some (PyList.PLAppend (prv v))
  | LInsert i v => Some (PyList.PLInsert i (prv v))
  | LExtend vs => Some (PyList.PLExtend (map prv vs))
  | LPop oi => Some (PyList.PLPop oi)
  | LRemove l => Some (PyList.PLRemove (PLeaf (erase_leaf l)))
  | LClear => Some PyList.PLClear
  | LReverse => Some PyList.PLReverse
  | LSort ks rv => Some (PyList.PLSort ks rv)
  | LIAdd vs => Some (PyList.PLIAdd (map prv vs))
  | LIMul m => Some (PyList.PLIMul m)
  | LAdd vs => Some (PyList.PLAdd (map prv vs))
  | LMul m => Some (PyList.PLMul m)
  | LCopy => Some PyList.PLCopy
  | _ => None
  end.
(* the arguments are plain Python values; l * n and l *= n are covered for lists of leaves *)
Definition plain_lop (its : list (key * node)) (ro : op rvalue) : Prop :=
  match ro with
  | LSet _ v | LAppend v | LInsert _ v => plain_rv v
  | LExtend vs | LIAdd vs | LAdd vs => Forall plain_rv vs
  | LIMul _ | LMul _ => flat its
  | _ => True
  end.
(* the value of the call: nothing, the removed item (by identity: the handle of a node whose erasure is Python's value),
   or a new root list whose items erase to Python's new list *)
Definition ret_agrees (st' : state) (out : outcome) (ret : PyList.lret pv) : Prop :=
  match ret with
  | PyList.LrNone => out = Ok RNone
  | PyList.LrVal v => exists old, out = Ok (ret_item st' old) /\ erase old = v
  | PyList.LrList l => exists ri tid' fl' its', out = Ok (RPos (ri, [])) /\ at_is st' (ri, []) tid' KList None fl' its' /\ clean its' /\ evals its' = l
  | _ => False
  end.
Lemma plain_all_storable : forall vs, Forall plain_rv vs -> Forall storable_rv vs.
Proof. induction 1; constructor; auto using plain_storable. Qed.

Section ListRefine.
Variables (q : quirks) (sc : scope) (ps : pos) (tid : N) (pa : option N) (fl : flags).
Hypothesis NQ : no_quirks q.

Lemma after_prim : forall st st1 p l' out st',
  (p = PNone \/ p = PUpd) -> wrote st ps tid pa fl st1 l' ->
  match p with PErr e => (st1, Err e) | _ => (notified sc st1 ps p, Ok RNone) end = (st', out) ->
  wrote st ps tid pa fl st' l' /\ out = Ok RNone.
Proof. intros. destruct H; subst p; inv H1; split; auto; first [apply wrote_fix_chain; auto | apply wrote_notified; auto]. Qed.

(* a new root list next to the forest: the target is untouched, the new list is a root of its own *)
Lemma beside : forall st st1 c st2 its its0 tid' l2,
  at_is st ps tid KList pa fl its -> clean its -> anc_clean st ps ->
  roots st1 = roots st ->
  wrote (add_root st1 c) (length (roots st1), []) tid' None default_flags st2 l2 ->
  c = Node tid' KList None [] default_flags its0 ->
  wrote st ps tid pa fl st2 (evals its) /\
  exists its2, at_is st2 (length (roots st1), []) tid' KList None default_flags its2 /\ clean its2 /\ evals its2 = l2.
Proof.
  intros st st1 c st2 its its0 tid' l2 R C A RS (its2 & R2 & C2 & E2 & K2 & A2 & W2) EC. simpl in K2.
  pose proof (get_at_lt _ _ _ R) as LT.
  assert (NE : fst ps <> length (roots st1)) by (rewrite RS; lia).
  assert (KO : keeps_other (fst ps) st st2 /\ forall t, get_root st (fst ps) = Some t -> get_root st2 (fst ps) = Some t).
  { split.
    - red; intros. apply K2. { pose proof (get_root_lt _ _ _ H0). rewrite RS. lia. }
      apply get_root_add_root. rewrite (same_roots_get_root _ _ _ RS). auto.
    - intros. apply K2; auto. apply get_root_add_root. rewrite (same_roots_get_root _ _ _ RS). auto. }
  destruct KO as [KO KS]. destruct (get_at_root_some _ _ _ R) as [t0 G0].
  assert (GE : forall p, get_at st2 (fst ps, p) = get_at st (fst ps, p)).
  { intros. unfold get_at. simpl. rewrite (KS _ G0), G0. auto. }
  split; [|eauto].
  exists its. repeat split; auto.
  - unfold at_is. rewrite (surjective_pairing ps). simpl. rewrite GE. rewrite <- surjective_pairing. exact R.
  - unfold anc_clean in *. intros. rewrite GE in H1. eauto.
Qed.

Theorem exec_list_refines : forall st its ro lo st' out,
  wfs st -> at_is st ps tid KList pa fl its -> clean its -> anc_clean st ps -> permits sc fl -> plain_lop its ro -> lop_of ro = Some lo ->
  exec q sc st ps tid KList (snd ps) fl its ro = (st', out) ->
  match py_lstep (evals its) lo with
  | inr e => st' = st /\ out = Err (err_of e)
  | inl (l', ret) => wrote st ps tid pa fl st' l' /\ ret_agrees st' out ret
  end.
Proof.
  intros st its ro lo st' out W R C A [SL AW] PL LO E.
  pose proof (permits_default _ _ SL) as SLD.
  destruct (at_children ps tid pa fl st its W R) as [CF KP].
  unfold py_lstep, PyList.lstep. rewrite len_evals.
  destruct ro; simpl in LO; inv LO; unfold exec in E; rewrite ?SL, ?AW, ?SLD in E; cbn [negb andb] in E; simpl in PL.
  - (* l[i] = v *)
    unfold PyList.norm_index. destruct ((i <? - zlen its) || (i >=? zlen its)) eqn:B.
    + inv E; auto.
    + destruct (lprim q sc st ps (KI i) v) as [st1 p] eqn:L.
      destruct (lprim_replace q sc st ps tid pa fl its R C A W i v st1 p PL ltac:(lia) L) as [PP WR].
      destruct (after_prim _ _ _ _ _ _ PP WR E); subst; split; [auto|reflexivity].
  - (* del l[i] *)
    unfold PyList.norm_index. destruct ((i <? - zlen its) || (i >=? zlen its)) eqn:B.
    + inv E; auto.
    + destruct (ldel_core sc st ps (Z.to_nat (if i <? 0 then i + zlen its else i))) as [st1 rt] eqn:L.
      simpl in E. inv E.
      assert (LT : (Z.to_nat (if (i <? 0)%Z then (i + zlen its)%Z else i) < length its)%nat)
        by (unfold zlen in *; destruct (i <? 0) eqn:?; lia).
      destruct (ldel_core_at sc ps tid pa fl st its _ st' rt R C A W LT L) as [WR _].
      split; auto. reflexivity.
  - (* append *)
    destruct (lprim q sc st ps (KI (zlen its)) v) as [st1 p] eqn:L.
    destruct (lprim_append q sc st ps tid pa fl its R C A W _ v st1 p (plain_storable _ PL) (Z.le_refl _) L) as [PP WR].
    destruct (after_prim _ _ _ _ _ _ (or_intror PP) WR E); subst; split; [auto|reflexivity].
  - (* insert *)
    destruct (lprim q sc st ps (KI i) (RIns v)) as [st1 p] eqn:L.
    destruct (lprim_insert q sc st ps tid pa fl its R C A W i v st1 p (plain_storable _ PL) L) as [PP WR].
    destruct (after_prim _ _ _ _ _ _ (or_intror PP) WR E); subst; split; [auto|reflexivity].
  - (* extend *)
    destruct (extend_core_at q sc ps tid pa fl vs st its st' out R C A W (plain_all_storable _ PL) E) as [EO WR]. subst. split; auto. reflexivity.
  - (* pop *)
    unfold PyList.norm_index.
    set (j := match i with Some i0 => i0 | None => -1 end) in *.
    destruct ((j <? - zlen its) || (j >=? zlen its)) eqn:B.
    + inv E; auto.
    + rewrite pop_position in E by lia.
      set (p := Z.to_nat (if j <? 0 then j + zlen its else j)) in *.
      assert (LT : (p < length its)%nat) by (unfold p, zlen in *; destruct (j <? 0) eqn:?; lia).
      destruct (ldel_core sc st ps p) as [st1 rt] eqn:L. inv E.
      destruct (ldel_core_at sc ps tid pa fl st its p st' rt R C A W LT L) as (WR & k0 & old & N & ER).
      rewrite nth_error_evals, N. simpl. split; auto. exists old; subst rt; auto.
  - (* remove *)
    rewrite find_index_remove in E.
    destruct (PyList.find_pos pv_pyeq (PLeaf (erase_leaf l)) (evals its) 0) as [p|] eqn:FP.
    + destruct (ldel_core sc st ps p) as [st1 rt] eqn:L. simpl in E. inv E.
      apply find_pos_lt in FP. rewrite evals_length in FP.
      destruct (ldel_core_at sc ps tid pa fl st its p st' rt R C A W ltac:(lia) L) as [WR _]. split; auto. reflexivity.
    + inv E; auto.
  - (* clear *)
    inv E. split; [apply clear_core_at; auto|reflexivity].
  - (* reverse *)
    inv E. split; [|reflexivity]. rewrite <- evals_rev. apply reorder_core_at; auto. apply clean_rev; auto.
    apply child_wf_any_of. apply Forall_rev; auto.
  - (* sort *)
    inv E. split; [|reflexivity]. unfold evals. rewrite <- sort_map. apply reorder_core_at; auto.
    + apply sorted_forall; auto.
    + apply sorted_forall. apply child_wf_any_of; auto.
  - (* += *)
    destruct (extend_core_at q sc ps tid pa fl vs st its st' out R C A W (plain_all_storable _ PL) E) as [EO WR]. subst. split; auto. reflexivity.
  - (* *= *)
    destruct (n <=? 0) eqn:B.
    + inv E. replace (Z.to_nat n) with O by lia. simpl. split; [apply clear_core_at; auto|reflexivity].
    + destruct (flat_items its PL C) as [FS FM].
      rewrite repeat_list_app in E.
      destruct (extend_core_at q sc ps tid pa fl _ st its st' out R C A W (Forall_repeat_app _ _ _ _ FS) E) as [EO WR]. subst.
      split; [|reflexivity]. rewrite map_repeat_app, FM in WR.
      replace (Z.to_nat n) with (S (Z.to_nat (n - 1))) by lia. exact WR.
  - (* + *)
    destruct (new_list_from q st its) as [c st1] eqn:NL.
    destruct (new_list_from_root q st tid (snd ps) its c st1 NQ CF KP C NL) as (RS & tid' & its0 & EC & EV & CC).
    destruct (new_list_from_wfs q st its c st1 tid (snd ps) W CF NL) as (W1 & NC & WC).
    match type of E with context [extend_core ?a ?b ?c ?d ?e] => destruct (extend_core a b c d e) as [st2 o2] eqn:X end.
    assert (R0 : at_is (add_root st1 c) (length (roots st1), []) tid' KList None default_flags its0).
    { unfold at_is. rewrite get_at_root. subst c. apply get_root_add_root_new. }
    destruct (extend_core_at q sc _ tid' None default_flags vs _ its0 st2 o2 R0 CC (anc_clean_root _ _) (wfs_add_root _ _ W1 NC WC)
                (plain_all_storable _ PL) X) as [EO WR2].
    subst o2. inv E.
    destruct (beside st st1 _ st' its its0 tid' _ R C A RS WR2 eq_refl) as (WT & its2 & R2 & C2 & E2).
    split; auto. exists (length (roots st1)), tid', default_flags, its2. repeat split; auto. rewrite E2, EV. reflexivity.
  - (* * *)
    rewrite andb_false_r in E.
    destruct (new_list_from q st []) as [c st1] eqn:NL.
    destruct (new_list_from_root q st tid (snd ps) [] c st1 NQ ltac:(constructor) I ltac:(constructor) NL) as (RS & tid' & its0 & EC & EV & CC).
    destruct (new_list_from_wfs q st [] c st1 tid (snd ps) W ltac:(constructor) NL) as (W1 & NC & WC).
    destruct its0; [|discriminate].
    destruct (flat_items its PL C) as [FS FM]. rewrite repeat_list_app in E.
    match type of E with context [extend_loop ?a ?b ?c ?d ?e ?f] => destruct (extend_loop a b c d e f) as [[st2 u2] e2] eqn:X end.
    assert (R0 : at_is (add_root st1 c) (length (roots st1), []) tid' KList None default_flags []).
    { unfold at_is. rewrite get_at_root. subst c. apply get_root_add_root_new. }
    destruct (extend_loop_at q sc _ tid' None default_flags _ _ [] false st2 u2 e2 R0 ltac:(constructor) (anc_clean_root _ _)
                (wfs_add_root _ _ W1 NC WC) (Forall_repeat_app _ _ _ _ FS) X) as [EO WR2].
    subst e2. inv E.
    destruct (beside st st1 _ st' its [] tid' _ R C A RS WR2 eq_refl) as (WT & its2 & R2 & C2 & E2).
    split; auto. exists (length (roots st1)), tid', default_flags, its2. repeat split; auto.
    rewrite E2. simpl. rewrite map_repeat_app, FM. reflexivity.
  - (* copy *)
    destruct (new_list_from q st its) as [c st1] eqn:NL.
    destruct (new_list_from_root q st tid (snd ps) its c st1 NQ CF KP C NL) as (RS & tid' & its0 & EC & EV & CC).
    destruct (new_list_from_wfs q st its c st1 tid (snd ps) W CF NL) as (W1 & NC & WC).
    inv E.
    assert (R0 : at_is (add_root st1 (Node tid' KList None [] default_flags its0)) (length (roots st1), []) tid' KList None default_flags its0).
    { unfold at_is. rewrite get_at_root. apply get_root_add_root_new. }
    pose proof (wrote_refl (length (roots st1), []) tid' None default_flags _ its0 R0 CC (anc_clean_root _ _) (wfs_add_root _ _ W1 NC WC)) as WR2.
    destruct (beside st st1 _ _ its its0 tid' _ R C A RS WR2 eq_refl) as (WT & its2 & R2 & C2 & E2).
    split; auto. exists (length (roots st1)), tid', default_flags, its2. repeat split; auto. congruence.
Qed.
End ListRefine.

(* TypingCompat.v — an equational presentation of [compat] and its soundness:
   a spec that declares itself compatible with another accepts every value of the other. *)
From PG Require Import Common.Tactics Model.Typing Proofs.TypingBasics Proofs.TypingApply.
Local Open Scope Z_scope.

Fixpoint forall2b {A B} (f : A -> B -> bool) (xs : list A) (ys : list B) : bool :=
  match xs, ys with
  | x :: xs', y :: ys' => f x y && forall2b f xs' ys'
  | _, _ => true
  end.

Definition schema_compat (f : spec -> spec -> bool) (fs ofs : list (fkey * spec)) : bool :=
  forallb (fun kf => match field_of (fst kf) fs with Some _ => true | None => false end) ofs &&
  forallb (fun kf => match field_of (fst kf) ofs with Some sb => f (snd kf) sb | None => false end) fs.

Definition size_max_ok (mx omx : option Z) : bool :=
  match mx with
  | Some h => match omx with Some oh => negb (oh >? h) | None => false end
  | None => true
  end.

(* one unfolding step of [compat] *)
Definition compat1 (q : quirks) (a b : spec) : bool :=
  let ma := mods_of a in
  let mb := mods_of b in
  frozen_ok q ma mb &&
  match a with
  | SAny _ => true
  | SUnion cs _ =>
      none_ok ma mb &&
      match b with
      | SUnion ocs _ => forallb (compat q a) ocs
      | _ => existsb (fun c => compat q c b) cs
      end
  | SEnum vals _ =>
      (frozen mb && py_in (dflt mb) vals &&
       (q_enum_shortcut q || match apply false a (dflt mb) with Ok _ => true | Err _ => false end)) ||
      match b with
      | SEnum ovals _ => none_ok ma mb && forallb (fun v => py_in v vals) ovals && enum_types_ok q vals b
      | _ => false
      end
  | SBool _ => match b with SBool _ => none_ok ma mb | _ => false end
  | SStr _ => match b with SStr _ => none_ok ma mb | _ => false end
  | SInt lo hi _ =>
      match b with SInt olo ohi _ => none_ok ma mb && range_compat lo hi olo ohi | _ => false end
  | SFloat lo hi _ =>
      match b with SFloat olo ohi _ => none_ok ma mb && range_compat lo hi olo ohi | _ => false end
  | SList ea mn mx _ =>
      match b with
      | SList eb omn omx _ =>
          none_ok ma mb && (q_list_min q || negb (mn >? omn)) && size_max_ok mx omx && compat q ea eb
      | _ => false
      end
  | STuple es mn mx _ =>
      match b with
      | STuple oes omn omx _ =>
          none_ok ma mb &&
          if fixed_length mn mx then
            if fixed_length omn omx then Z.eqb (len es) (len oes) && forall2b (compat q) es oes
            else false
          else
            if fixed_length omn omx then
              negb (mn >? len oes) &&
              match mx with Some h => negb (h <? len oes) | None => true end &&
              match es with e :: _ => forallb (compat q e) oes | [] => false end
            else
              negb (mn >? omn) &&
              match mx with
              | Some h => match omx with Some oh => negb (h <? oh) | None => false end
              | None => true
              end &&
              match es, oes with e :: _, oe :: _ => compat q e oe | _, _ => false end
      | _ => false
      end
  | SDict sc _ =>
      match b with
      | SDict osc _ =>
          none_ok ma mb &&
          match sc with
          | None => true
          | Some fs => match osc with None => false | Some ofs => schema_compat (compat q) fs ofs end
          end
      | _ => false
      end
  | SObj ca _ =>
      match b with SObj cb _ => none_ok ma mb && is_subclass cb ca | _ => false end
  end.

Lemma forall2b_fix : forall (f : spec -> spec -> bool) xs ys,
  (fix go (xs ys : list spec) {struct xs} : bool :=
     match xs, ys with
     | x :: xs', y :: ys' => f x y && go xs' ys'
     | _, _ => true
     end) xs ys = forall2b f xs ys.
Proof. induction xs; destruct ys; simpl; auto. rewrite IHxs. reflexivity. Qed.

Lemma schema_fix : forall (f : spec -> spec -> bool) (ofs : list (fkey * spec)) l,
  (fix go (l : list (fkey * spec)) : bool :=
     match l with
     | [] => true
     | (k, sa) :: r => match field_of k ofs with Some sb => f sa sb | None => false end && go r
     end) l =
  forallb (fun kf => match field_of (fst kf) ofs with Some sb => f (snd kf) sb | None => false end) l.
Proof. induction l as [|[k sa] r IH]; simpl; auto. rewrite IH. reflexivity. Qed.

Lemma compat_eq : forall q a b, compat q a b = compat1 q a b.
Proof.
  intros q a b. unfold compat1.
  destruct a; destruct b; cbn [compat mods_of]; try reflexivity.
  all: try (rewrite forall2b_fix; reflexivity).
  all: try (destruct schema; try reflexivity; destruct schema0; try reflexivity; unfold schema_compat; rewrite schema_fix; reflexivity).
Qed.

(* ------------------------------------------------------------------------------------------ *)
(** * Well-formedness and unfreezing *)

Lemma wf_frozen : forall s, wf s -> frozen_value_ok s.
Proof. destruct s; simpl; tauto. Qed.

Lemma wf_list : forall e mn mx m, wf (SList e mn mx m) -> wf e.
Proof. simpl; tauto. Qed.
Lemma wf_tuple : forall es mn mx m, wf (STuple es mn mx m) -> Forall wf es.
Proof. simpl. intros es mn mx m [_ H]. induction es; constructor; tauto. Qed.
Lemma wf_dict : forall fs m, wf (SDict (Some fs) m) -> Forall (fun kf => wf (snd kf)) fs.
Proof. simpl. intros fs m [_ H]. induction fs; constructor; tauto. Qed.
Lemma wf_union : forall cs m, wf (SUnion cs m) -> Forall wf cs.
Proof. simpl. intros cs m [_ H]. induction cs; constructor; tauto. Qed.

Lemma unfreeze_id : forall s, frozen (mods_of s) = false -> unfreeze s = s.
Proof. unfold unfreeze. destruct s; destruct m; simpl; intros; subst; reflexivity. Qed.
Lemma frozen_unfreeze : forall s, frozen (mods_of (unfreeze s)) = false.
Proof. destruct s; reflexivity. Qed.
Lemma noneable_unfreeze : forall s, noneable (mods_of (unfreeze s)) = noneable (mods_of s).
Proof. destruct s; reflexivity. Qed.
Lemma vtype_unfreeze : forall s, vtype (unfreeze s) = vtype s.
Proof. destruct s; reflexivity. Qed.
Lemma body_unfreeze : forall p s v, apply_body p (unfreeze s) v = apply_body p s v.
Proof. destruct s; reflexivity. Qed.

(* a value of a (possibly frozen) well-formed spec is a value of its unfrozen form *)
Lemma conforms_unfreeze : forall s v, wf s -> total v = true -> conforms s v -> conforms (unfreeze s) v.
Proof.
  intros s v W T C. destruct (frozen (mods_of s)) eqn:F.
  - unfold conforms in C. rewrite apply_eq in C. unfold pipeline in C. rewrite F in C.
    destruct (is_missing v || py_eq (dflt (mods_of s)) v); inv C.
    apply (wf_frozen _ W); auto.
  - rewrite unfreeze_id; auto.
Qed.

Lemma total_not_missing : forall v, total v = true -> v <> PMissing.
Proof. intros v H E; subst; discriminate. Qed.

(* what it means to be a value of an unfrozen spec *)
Lemma conforms_inv : forall s v, frozen (mods_of s) = false -> v <> PMissing -> conforms s v ->
  (v = PNone /\ noneable (mods_of s) = true) \/
  (type_of v <> None /\ exists v1, coerce (vtype s) v = Ok v1 /\ apply_body false s v1 = Ok v).
Proof.
  intros s v F NM C. unfold conforms in C. rewrite apply_eq in C.
  destruct (type_of v) eqn:T.
  - right. split; [congruence|]. rewrite pipeline_typed in C by congruence.
    destruct (coerce (vtype s) v) eqn:E; simpl in C; [|discriminate]. eauto.
  - left. destruct v; simpl in T; try discriminate; [|congruence].
    unfold pipeline in C. rewrite F in C. destruct (noneable (mods_of s)); [auto|discriminate].
Qed.

Lemma accepts_typed : forall a v v1 v', frozen (mods_of a) = false -> type_of v <> None ->
  coerce (vtype a) v = Ok v1 -> apply_body false a v1 = Ok v' -> accepts a v.
Proof.
  intros. exists v'. rewrite apply_eq, pipeline_typed by auto. rewrite H1. simpl. auto.
Qed.

Lemma accepts_none : forall a, frozen (mods_of a) = false -> noneable (mods_of a) = true -> accepts a PNone.
Proof. intros. exists PNone. rewrite apply_eq. unfold pipeline. rewrite H, H0. reflexivity. Qed.

(* a frozen receiver (repaired rule): the sender is frozen to an equal value *)
Lemma sound_frozen_receiver : forall a b v,
  frozen (mods_of a) = true -> frozen (mods_of b) = true ->
  py_eq (dflt (mods_of a)) (dflt (mods_of b)) = true -> conforms b v -> accepts a v.
Proof.
  intros a b v Fa Fb E C. unfold conforms in C. rewrite apply_eq in C. unfold pipeline in C. rewrite Fb in C.
  destruct (is_missing v || py_eq (dflt (mods_of b)) v); inv C.
  exists (dflt (mods_of a)). rewrite apply_eq. unfold pipeline. rewrite Fa, E, orb_true_r. reflexivity.
Qed.

Lemma isinstance_coerce : forall ts v, isinstance v ts = true -> coerce (Some ts) v = Ok v.
Proof. intros. simpl. rewrite H. reflexivity. Qed.

(* a fixed point of the type check is an instance (a conversion changes the value) *)
Lemma coerce_fixed_instance : forall ts v, coerce (Some ts) v = Ok v -> isinstance v ts = true.
Proof.
  intros ts v. simpl. destruct (isinstance v ts); auto.
  unfold convert. destruct (existsb is_float ts); try discriminate.
  destruct v; simpl; try discriminate; intros H; inv H.
Qed.

(* TypingCompat.v — an equational presentation of [compat] and its soundness:
   a spec that declares itself compatible with another accepts every value of the other. *)
From PG Require Import Common.Tactics Model.Typing Proofs.TypingBasics Proofs.TypingApply.
Local Open Scope Z_scope.
Local Arguments Z.mul : simpl never.

Fixpoint forall2b {A B} (f : A -> B -> bool) (xs : list A) (ys : list B) : bool :=
  match xs, ys with
  | x :: xs', y :: ys' => f x y && forall2b f xs' ys'
  | _, _ => true
  end.

Definition schema_compat (f : spec -> spec -> bool) (fs ofs : list (fkey * spec)) : bool :=
  forallb (fun kf => match field_of (fst kf) fs with Some _ => true | None => false end) ofs &&
  forallb (fun kf => match field_of (fst kf) ofs with Some sb => f (snd kf) sb | None => false end) fs.

Definition size_max_ok (mx omx : option Z) : bool :=
  match mx with
  | Some h => match omx with Some oh => negb (oh >? h) | None => false end
  | None => true
  end.

(* one unfolding step of [compat] *)
Definition compat1 (q : quirks) (a b : spec) : bool :=
  let ma := mods_of a in
  let mb := mods_of b in
  frozen_ok q ma mb &&
  match a with
  | SAny _ => true
  | SUnion cs _ =>
      none_ok ma mb &&
      match b with
      | SUnion ocs _ => forallb (compat q a) ocs
      | _ => existsb (fun c => compat q c b) cs
      end
  | SEnum vals _ =>
      (frozen mb && py_in (dflt mb) vals &&
       (q_enum_shortcut q || match apply false a (dflt mb) with Ok _ => true | Err _ => false end)) ||
      match b with
      | SEnum ovals _ => none_ok ma mb && forallb (fun v => py_in v vals) ovals && enum_types_ok q vals b
      | _ => false
      end
  | SBool _ => match b with SBool _ => none_ok ma mb | _ => false end
  | SStr _ => match b with SStr _ => none_ok ma mb | _ => false end
  | SInt lo hi _ =>
      match b with SInt olo ohi _ => none_ok ma mb && range_compat lo hi olo ohi | _ => false end
  | SFloat lo hi _ =>
      match b with SFloat olo ohi _ => none_ok ma mb && range_compat lo hi olo ohi | _ => false end
  | SList ea mn mx _ =>
      match b with
      | SList eb omn omx _ =>
          none_ok ma mb && (q_list_min q || negb (mn >? omn)) && size_max_ok mx omx && compat q ea eb
      | _ => false
      end
  | STuple es mn mx _ =>
      match b with
      | STuple oes omn omx _ =>
          none_ok ma mb &&
          if fixed_length mn mx then
            if fixed_length omn omx then Z.eqb (len es) (len oes) && forall2b (compat q) es oes
            else false
          else
            if fixed_length omn omx then
              negb (mn >? len oes) &&
              match mx with Some h => negb (h <? len oes) | None => true end &&
              match es with e :: _ => forallb (compat q e) oes | [] => false end
            else
              negb (mn >? omn) &&
              match mx with
              | Some h => match omx with Some oh => negb (h <? oh) | None => false end
              | None => true
              end &&
              match es, oes with e :: _, oe :: _ => compat q e oe | _, _ => false end
      | _ => false
      end
  | SDict sc _ =>
      match b with
      | SDict osc _ =>
          none_ok ma mb &&
          match sc with
          | None => true
          | Some fs => match osc with None => false | Some ofs => schema_compat (compat q) fs ofs end
          end
      | _ => false
      end
  | SObj ca _ =>
      match b with SObj cb _ => none_ok ma mb && is_subclass cb ca | _ => false end
  end.

Lemma forall2b_fix : forall (f : spec -> spec -> bool) xs ys,
  (fix go (xs ys : list spec) {struct xs} : bool :=
     match xs, ys with
     | x :: xs', y :: ys' => f x y && go xs' ys'
     | _, _ => true
     end) xs ys = forall2b f xs ys.
Proof. induction xs; destruct ys; simpl; auto. rewrite IHxs. reflexivity. Qed.

Lemma schema_fix : forall (f : spec -> spec -> bool) (ofs : list (fkey * spec)) l,
  (fix go (l : list (fkey * spec)) : bool :=
     match l with
     | [] => true
     | (k, sa) :: r => match field_of k ofs with Some sb => f sa sb | None => false end && go r
     end) l =
  forallb (fun kf => match field_of (fst kf) ofs with Some sb => f (snd kf) sb | None => false end) l.
Proof. induction l as [|[k sa] r IH]; simpl; auto. rewrite IH. reflexivity. Qed.

Lemma compat_eq : forall q a b, compat q a b = compat1 q a b.
Proof.
  intros q a b. unfold compat1.
  destruct a; destruct b; cbn [compat mods_of]; try reflexivity.
  all: try (rewrite forall2b_fix; reflexivity).
  all: try (destruct schema; try reflexivity; destruct schema0; try reflexivity; unfold schema_compat; rewrite schema_fix; reflexivity).
Qed.

(* ------------------------------------------------------------------------------------------ *)
(** * Well-formedness and unfreezing *)

Lemma wf_frozen : forall s, wf s -> frozen_value_ok s.
Proof. destruct s; simpl; tauto. Qed.

Lemma wf_list : forall e mn mx m, wf (SList e mn mx m) -> wf e.
Proof. simpl; tauto. Qed.
Lemma wf_tuple : forall es mn mx m, wf (STuple es mn mx m) -> Forall wf es.
Proof. simpl. intros es mn mx m [_ H]. induction es; constructor; tauto. Qed.
Lemma wf_dict : forall fs m, wf (SDict (Some fs) m) -> Forall (fun kf => wf (snd kf)) fs.
Proof. simpl. intros fs m [_ H]. induction fs; constructor; tauto. Qed.
Lemma wf_union : forall cs m, wf (SUnion cs m) -> Forall wf cs.
Proof. simpl. intros cs m [_ H]. induction cs; constructor; tauto. Qed.

Lemma unfreeze_id : forall s, frozen (mods_of s) = false -> unfreeze s = s.
Proof. unfold unfreeze. destruct s; destruct m; simpl; intros; subst; reflexivity. Qed.
Lemma frozen_unfreeze : forall s, frozen (mods_of (unfreeze s)) = false.
Proof. destruct s; reflexivity. Qed.
Lemma noneable_unfreeze : forall s, noneable (mods_of (unfreeze s)) = noneable (mods_of s).
Proof. destruct s; reflexivity. Qed.
Lemma vtype_unfreeze : forall s, vtype (unfreeze s) = vtype s.
Proof. destruct s; reflexivity. Qed.
Lemma body_unfreeze : forall p s v, apply_body p (unfreeze s) v = apply_body p s v.
Proof. destruct s; reflexivity. Qed.

(* a value of a (possibly frozen) well-formed spec is a value of its unfrozen form *)
Lemma conforms_unfreeze : forall s v, wf s -> total v = true -> conforms s v -> conforms (unfreeze s) v.
Proof.
  intros s v W T C. destruct (frozen (mods_of s)) eqn:F.
  - unfold conforms in C. rewrite apply_eq in C. unfold pipeline in C. rewrite F in C.
    destruct (is_missing v || py_eq (dflt (mods_of s)) v); inv C.
    apply (wf_frozen _ W); auto.
  - rewrite unfreeze_id; auto.
Qed.

Lemma total_not_missing : forall v, total v = true -> v <> PMissing.
Proof. intros v H E; subst; discriminate. Qed.

(* what it means to be a value of an unfrozen spec *)
Lemma conforms_inv : forall s v, frozen (mods_of s) = false -> v <> PMissing -> conforms s v ->
  (v = PNone /\ noneable (mods_of s) = true) \/
  (type_of v <> None /\ exists v1, coerce (vtype s) v = Ok v1 /\ apply_body false s v1 = Ok v).
Proof.
  intros s v F NM C. unfold conforms in C. rewrite apply_eq in C.
  destruct (type_of v) eqn:T.
  - right. split; [congruence|]. rewrite pipeline_typed in C by congruence.
    destruct (coerce (vtype s) v) eqn:E; simpl in C; [|discriminate]. eauto.
  - left. destruct v; simpl in T; try discriminate; [|congruence].
    unfold pipeline in C. rewrite F in C. destruct (noneable (mods_of s)); [auto|discriminate].
Qed.

Lemma accepts_typed : forall a v v1 v', frozen (mods_of a) = false -> type_of v <> None ->
  coerce (vtype a) v = Ok v1 -> apply_body false a v1 = Ok v' -> accepts a v.
Proof.
  intros. exists v'. rewrite apply_eq, pipeline_typed by auto. rewrite H1. simpl. auto.
Qed.

Lemma isinstance_coerce : forall ts v, isinstance v ts = true -> coerce (Some ts) v = Ok v.
Proof. intros. simpl. rewrite H. reflexivity. Qed.

Lemma accepts_inst : forall a v v' ts, frozen (mods_of a) = false -> vtype a = Some ts ->
  isinstance v ts = true -> apply_body false a v = Ok v' -> accepts a v.
Proof.
  intros a v v' ts F VT I B. eapply accepts_typed with (v1 := v) (v' := v'); auto.
  - unfold isinstance in I. destruct (type_of v); congruence.
  - rewrite VT. apply isinstance_coerce. exact I.
Qed.

Lemma accepts_none : forall a, frozen (mods_of a) = false -> noneable (mods_of a) = true -> accepts a PNone.
Proof. intros. exists PNone. rewrite apply_eq. unfold pipeline. rewrite H, H0. reflexivity. Qed.

(* a frozen receiver (repaired rule): the sender is frozen to an equal value *)
Lemma sound_frozen_receiver : forall a b v,
  frozen (mods_of a) = true -> frozen (mods_of b) = true ->
  py_eq (dflt (mods_of a)) (dflt (mods_of b)) = true -> conforms b v -> accepts a v.
Proof.
  intros a b v Fa Fb E C. unfold conforms in C. rewrite apply_eq in C. unfold pipeline in C. rewrite Fb in C.
  destruct (is_missing v || py_eq (dflt (mods_of b)) v); inv C.
  exists (dflt (mods_of a)). rewrite apply_eq. unfold pipeline. rewrite Fa, E, orb_true_r. reflexivity.
Qed.


(* a fixed point of the type check is an instance (a conversion changes the value) *)
Lemma coerce_fixed_instance : forall ts v, coerce (Some ts) v = Ok v -> isinstance v ts = true.
Proof.
  intros ts v. simpl. destruct (isinstance v ts); auto.
  unfold convert. destruct (existsb is_float ts); try discriminate.
  destruct v; simpl; try discriminate; intros H; inv H.
Qed.

(* ------------------------------------------------------------------------------------------ *)
(** * Soundness, class by class (the receiving spec a is not frozen here) *)

Ltac bsplit :=
  repeat match goal with
  | H : _ && _ = true |- _ => apply andb_true_iff in H; destruct H
  end.

Lemma none_ok_use : forall ma mb, none_ok ma mb = true -> noneable mb = true -> noneable ma = true.
Proof. unfold none_ok. intros ma mb H N. rewrite N in H. simpl in H. rewrite orb_false_r in H. exact H. Qed.

Lemma in_range_compat : forall lo hi olo ohi x,
  range_compat lo hi olo ohi = true -> in_range olo ohi x = true -> in_range lo hi x = true.
Proof.
  unfold range_compat, in_range. intros lo hi olo ohi x H I. bsplit.
  destruct lo, olo, hi, ohi; simpl in *; try discriminate; try lia.
Qed.

Lemma in_range_compat64 : forall lo hi olo ohi x,
  range_compat lo hi olo ohi = true -> in_range (scale64 olo) (scale64 ohi) x = true ->
  in_range (scale64 lo) (scale64 hi) x = true.
Proof.
  unfold range_compat, in_range, scale64. intros lo hi olo ohi x H I. bsplit.
  destruct lo, olo, hi, ohi; simpl in *; try discriminate; try lia.
Qed.

(* leaf classes: same value type, the class-specific check of a follows from that of b *)
Lemma sound_leaf : forall a b v,
  frozen (mods_of a) = false -> v <> PMissing ->
  none_ok (mods_of a) (mods_of b) = true ->
  vtype a = vtype b ->
  (forall v1, apply_body false b v1 = Ok v -> v1 = v) ->
  (apply_body false b v = Ok v -> exists v', apply_body false a v = Ok v') ->
  conforms (unfreeze b) v -> accepts a v.
Proof.
  intros a b v Fa NM NO VT Bsame Bimp C.
  apply conforms_inv in C; auto using frozen_unfreeze.
  destruct C as [[E N]|[T [v1 [Co Bo]]]].
  - subst. apply accepts_none; auto. rewrite noneable_unfreeze in N. eapply none_ok_use; eauto.
  - rewrite vtype_unfreeze in Co. rewrite body_unfreeze in Bo.
    pose proof (Bsame _ Bo); subst v1.
    destruct (Bimp Bo) as [v' Ba].
    eapply accepts_typed; eauto. rewrite VT. exact Co.
Qed.

Lemma validate_num_ok : forall lo hi v, validate_num lo hi v = Ok v ->
  exists x, num_of v = Some x /\ in_range lo hi x = true.
Proof.
  unfold validate_num. intros. destruct (num_of v); try discriminate.
  destruct (in_range lo hi z) eqn:E; try discriminate. eauto.
Qed.

Lemma sound_obj : forall ca m cb mb v,
  frozen m = false -> v <> PMissing -> none_ok m mb = true -> is_subclass cb ca = true ->
  conforms (unfreeze (SObj cb mb)) v -> accepts (SObj ca m) v.
Proof.
  intros ca m cb mb v Fa NM NO SUB C.
  apply conforms_inv in C; auto using frozen_unfreeze.
  destruct C as [[E N]|[T [v1 [Co Bo]]]].
  - subst. apply accepts_none; auto. eapply none_ok_use; eauto.
  - simpl in Co, Bo. inv Bo. apply coerce_fixed_instance in Co.
    eapply accepts_typed with (v1 := v); eauto; [|reflexivity].
    apply isinstance_coerce. unfold isinstance in *. destruct (type_of v); try discriminate.
    simpl in *. rewrite orb_false_r in *. destruct t; simpl in *; try discriminate.
    eapply is_subclass_trans; eauto.
Qed.

Lemma sound_any : forall m v, frozen m = false -> noneable m = true -> v <> PMissing -> accepts (SAny m) v.
Proof.
  intros m v F N NM. destruct (type_of v) eqn:T.
  - eapply accepts_typed with (v1 := v); eauto; try congruence; [|reflexivity].
    apply isinstance_coerce. unfold isinstance. rewrite T. simpl. destruct t; reflexivity.
  - destruct v; simpl in T; try discriminate; [|congruence]. apply accepts_none; auto.
Qed.

Lemma coerce_nofloat : forall ts v v1, existsb is_float ts = false -> coerce (Some ts) v = Ok v1 ->
  v1 = v /\ isinstance v ts = true.
Proof.
  intros ts v v1 NF. simpl. destruct (isinstance v ts). { intros H; inv H; auto. }
  unfold convert. rewrite NF. discriminate.
Qed.

Lemma mapM_fixed : forall (f : pv -> res pv) l, mapM f l = Ok l -> Forall (fun x => f x = Ok x) l.
Proof.
  induction l; simpl; intros H; constructor;
    destruct (f a) eqn:Fa; simpl in H; try discriminate;
    destruct (mapM f l) eqn:M; simpl in H; inv H; auto.
Qed.

Lemma mapM_accepts : forall (g : pv -> res pv) l, Forall (fun x => exists x', g x = Ok x') l ->
  exists l', mapM g l = Ok l' /\ length l' = length l.
Proof.
  induction 1; simpl. { exists []; auto. }
  destruct H as [x' Hx]. destruct IHForall as [l' [Hl L]].
  exists (x' :: l'). rewrite Hx, Hl. simpl. auto.
Qed.

Lemma sound_list : forall ea mn mx m eb omn omx mb v,
  frozen m = false -> total v = true ->
  none_ok m mb = true -> negb (mn >? omn) = true -> size_max_ok mx omx = true ->
  (forall x, total x = true -> conforms eb x -> accepts ea x) ->
  conforms (unfreeze (SList eb omn omx mb)) v -> accepts (SList ea mn mx m) v.
Proof.
  intros ea mn mx m eb omn omx mb v Fa TV NO MN MX IH C.
  apply conforms_inv in C; auto using frozen_unfreeze, total_not_missing.
  destruct C as [[E N]|[T [v1 [Co Bo]]]].
  - subst. apply accepts_none; auto. eapply none_ok_use; eauto.
  - simpl in Co, Bo. apply coerce_nofloat in Co as [E I]; [|reflexivity]. subst v1.
    destruct v; try discriminate.
    destruct (mapM (apply false eb) l) as [l'|] eqn:M; simpl in Bo; [|discriminate].
    destruct (size_ok omn omx (len l')) eqn:S; inv Bo.
    apply mapM_fixed in M. simpl in TV. rewrite forallb_forall in TV. rewrite Forall_forall in M.
    destruct (mapM_accepts (apply false ea) l) as [l' [Ml L]].
    { apply Forall_forall. intros x Hx. apply IH; auto. apply M; auto. }
    eapply accepts_inst with (v' := PList l') (ts := [TyList]); auto.
    cbn [apply_body]. rewrite Ml. simpl.
    replace (size_ok mn mx (len l')) with true; [reflexivity|].
    symmetry. unfold size_ok, size_max_ok, len in *. rewrite L. bsplit.
    destruct mx, omx; simpl in *; try discriminate; lia.
Qed.

Lemma zipM_fixed_accepts : forall (f g : spec -> pv -> res pv) es oes l,
  length es = length oes -> length l = length oes ->
  zipM f oes l = Ok l -> Forall (fun x => total x = true) l ->
  (forall e oe x, In (e, oe) (combine es oes) -> total x = true -> f oe x = Ok x -> exists x', g e x = Ok x') ->
  exists l', zipM g es l = Ok l'.
Proof.
  induction es as [|e es IHes]; destruct oes as [|oe oes]; destruct l as [|x l]; simpl; intros L1 L2 Z T H;
    try discriminate; eauto.
  destruct (f oe x) eqn:Fa; simpl in Z; [|discriminate].
  destruct (zipM f oes l) eqn:M; simpl in Z; inv Z. inv T.
  destruct (H e oe x) as [x' Hx]; auto.
  destruct (IHes oes l) as [l' Hl]; auto; try lia.
  { intros e0 oe0 x0 Hin. apply H. right. exact Hin. }
  exists (x' :: l'). rewrite Hx, Hl. reflexivity.
Qed.

Lemma zipM_fixed_all : forall (f : spec -> pv -> res pv) oes l,
  length l = length oes -> zipM f oes l = Ok l -> Forall2 (fun oe x => f oe x = Ok x) oes l.
Proof.
  induction oes; destruct l; simpl; intros L Z; try discriminate; constructor;
    destruct (f a p) eqn:Fa; simpl in Z; try discriminate;
    destruct (zipM f oes l) eqn:M; simpl in Z; inv Z; auto.
Qed.

Lemma forall2_partner : forall {A B} (R : A -> B -> Prop) xs ys, Forall2 R xs ys ->
  forall y, In y ys -> exists x, In x xs /\ R x y.
Proof.
  induction 1; intros z [].
  - subst. exists x. split; auto. left; reflexivity.
  - destruct (IHForall2 _ H1) as [x' [I Rx]]. exists x'. split; auto. right; auto.
Qed.

Lemma sound_tuple : forall q es mn mx m oes omn omx mb v,
  frozen m = false -> total v = true ->
  none_ok m mb = true ->
  (if fixed_length mn mx then
     if fixed_length omn omx then Z.eqb (len es) (len oes) && forall2b (compat q) es oes else false
   else
     if fixed_length omn omx then
       negb (mn >? len oes) && match mx with Some h => negb (h <? len oes) | None => true end &&
       match es with e :: _ => forallb (compat q e) oes | [] => false end
     else
       negb (mn >? omn) &&
       match mx with Some h => match omx with Some oh => negb (h <? oh) | None => false end | None => true end &&
       match es, oes with e :: _, oe :: _ => compat q e oe | _, _ => false end) = true ->
  (forall e, In e es -> forall oe, In oe oes -> compat q e oe = true ->
     forall x, total x = true -> conforms oe x -> accepts e x) ->
  conforms (unfreeze (STuple oes omn omx mb)) v -> accepts (STuple es mn mx m) v.
Proof.
  intros q es mn mx m oes omn omx mb v Fa TV NO CP IH C.
  apply conforms_inv in C; auto using frozen_unfreeze, total_not_missing.
  destruct C as [[E N]|[T [v1 [Co Bo]]]].
  - subst. apply accepts_none; auto. eapply none_ok_use; eauto.
  - simpl in Co, Bo. apply coerce_nofloat in Co as [E I]; [|reflexivity]. subst v1.
    destruct v; try discriminate. simpl in TV. rewrite forallb_forall in TV.
    assert (AT : forall l', apply_body false (STuple es mn mx m) (PTuple l) = Ok l' -> accepts (STuple es mn mx m) (PTuple l)).
    { intros l' H. eapply accepts_inst with (v' := l') (ts := [TyTuple]); auto. }
    cbn [apply_body] in *.
    destruct (fixed_length omn omx) eqn:FO.
    + (* the sender is fixed-length *)
      destruct (len l =? len oes) eqn:LL; simpl in Bo; [|discriminate].
      destruct (zipM (apply false) oes l) as [l'|] eqn:Z; simpl in Bo; inv Bo.
      assert (L2 : length l = length oes) by (unfold len in LL; lia).
      destruct (fixed_length mn mx) eqn:FA.
      * bsplit. assert (L1 : length es = length oes) by (unfold len in *; lia).
        destruct (zipM_fixed_accepts (apply false) (apply false) es oes l) as [l' Hl]; auto.
        { apply Forall_forall. auto. }
        { intros e oe x Hin Tx Fx. apply (IH e) with (oe := oe); auto.
          - eapply in_combine_l; eauto.
          - eapply in_combine_r; eauto.
          - clear - Hin H0. revert oes Hin H0. induction es; destruct oes; simpl; intros; try tauto.
            bsplit. destruct Hin as [E|Hin]; [inv E; auto|eauto]. }
        eapply AT. replace (len l =? len es) with true by (unfold len in *; lia). simpl.
        rewrite Hl. reflexivity.
      * bsplit. destruct es as [|e es']; [discriminate|].
        pose proof (zipM_fixed_all _ _ _ L2 Z) as F2.
        destruct (mapM_accepts (apply false e) l) as [l' [Ml L]].
        { rewrite forallb_forall in H0. apply Forall_forall. intros x Hx.
          destruct (forall2_partner _ _ _ F2 _ Hx) as [oe [Ioe Fx]].
          apply (IH e (or_introl eq_refl) oe); auto. }
        eapply AT. replace (size_ok mn mx (len l)) with true. simpl. rewrite Ml. reflexivity.
        symmetry. unfold size_ok, len in *. destruct mx; simpl in *; lia.
    + (* the sender is variable-length *)
      destruct (size_ok omn omx (len l)) eqn:S; simpl in Bo; [|discriminate].
      destruct (fixed_length mn mx) eqn:FA; [discriminate|]. bsplit.
      destruct es as [|e es']; [discriminate|]. destruct oes as [|oe oes']; [discriminate|].
      destruct (mapM (apply false oe) l) as [l'|] eqn:M; simpl in Bo; inv Bo.
      apply mapM_fixed in M. rewrite Forall_forall in M.
      destruct (mapM_accepts (apply false e) l) as [l' [Ml L]].
      { apply Forall_forall. intros x Hx. apply (IH e (or_introl eq_refl) oe); auto. left; reflexivity. apply M; auto. }
      eapply AT. replace (size_ok mn mx (len l)) with true. simpl. rewrite Ml. reflexivity.
      symmetry. unfold size_ok, len in *. bsplit. destruct mx, omx; simpl in *; try discriminate; lia.
Qed.

(* ------------------------------------------------------------------------------------------ *)
(** * Enum *)

Lemma pv_is_none : forall v, v = PNone \/ v <> PNone.
Proof. destruct v; auto; right; discriminate. Qed.

Lemma issub_refl : forall t, issub t t = true.
Proof. destruct t; simpl; auto. apply is_subclass_refl. Qed.

Lemma issub_trans : forall t u w, issub t u = true -> issub u w = true -> issub t w = true.
Proof.
  destruct t, u, w; simpl; intros; try discriminate; auto.
  eapply is_subclass_trans; eauto.
Qed.

Lemma enum_vtype_go_cons : forall cur v r, v <> PNone ->
  enum_vtype_go cur (v :: r) =
  match type_of v with
  | None => None
  | Some nx => if issub cur nx then enum_vtype_go nx r
               else if issub nx cur then enum_vtype_go cur r else None
  end.
Proof. intros cur v r NN. destruct v; try reflexivity. congruence. Qed.

Lemma enum_vtype_go_sound : forall vs cur t, enum_vtype_go cur vs = Some t ->
  issub cur t = true /\
  forall u, In u vs -> u <> PNone -> exists tu, type_of u = Some tu /\ issub tu t = true.
Proof.
  induction vs as [|v vs IH]; intros cur t H.
  - simpl in H. inv H. split. apply issub_refl. intros u [].
  - destruct (pv_is_none v) as [E|NN].
    + subst v. simpl in H. destruct (IH _ _ H) as [A B]. split; auto.
      intros u [E|I] NU; [congruence|auto].
    + rewrite enum_vtype_go_cons in H by exact NN.
      destruct (type_of v) as [nx|] eqn:Tv; [|discriminate].
      destruct (issub cur nx) eqn:S1.
      * destruct (IH _ _ H) as [A B]. split. eapply issub_trans; eauto.
        intros u [E|I] NU; [subst u|auto]. exists nx. split; auto.
      * destruct (issub nx cur) eqn:S2; [|discriminate].
        destruct (IH _ _ H) as [A B]. split; auto.
        intros u [E|I] NU; [subst u|auto]. exists nx. split; auto. eapply issub_trans; eauto.
Qed.

Lemma enum_vtype_sound : forall vs ts, enum_vtype vs = Some ts ->
  exists t, ts = [t] /\ forall u, In u vs -> u <> PNone -> exists tu, type_of u = Some tu /\ issub tu t = true.
Proof.
  induction vs as [|v vs IH]; intros ts H; [simpl in H; discriminate|].
  destruct (pv_is_none v) as [E|NN].
  - subst v. simpl in H. destruct (IH _ H) as [t [E B]]. exists t. split; auto.
    intros u [X|I] NU; [congruence|auto].
  - assert (EQ : enum_vtype (v :: vs) =
                 match type_of v with
                 | None => None
                 | Some t => match enum_vtype_go t vs with Some t' => Some [t'] | None => None end
                 end) by (destruct v; try reflexivity; congruence).
    rewrite EQ in H. destruct (type_of v) as [tv|] eqn:Tv; [|discriminate].
    destruct (enum_vtype_go tv vs) as [t'|] eqn:G; inv H.
    destruct (enum_vtype_go_sound _ _ _ G) as [A B]. exists t'. split; auto.
    intros u [X|I] NU; [subst u; eauto|auto].
Qed.

(* candidates that are all instances of int (bool) give an Enum typed within int (bool) *)
Lemma typed_within_inv : forall v t, v <> PNone ->
  match v with
  | PNone => true
  | _ => match type_of v with Some tw => issub tw t | None => false end
  end = true -> exists tw, type_of v = Some tw /\ issub tw t = true.
Proof. intros v t NN H. destruct v; try congruence; simpl in *; try discriminate; eauto. Qed.

Lemma chain_int_bool : forall t0 a b, t0 = TyInt \/ t0 = TyBool -> issub a t0 = true -> issub b t0 = true ->
  issub a b = true \/ issub b a = true.
Proof. intros t0 a b [E|E]; subst; destruct a, b; simpl; intros; try discriminate; auto. Qed.

Lemma enum_vtype_go_chain : forall t0, t0 = TyInt \/ t0 = TyBool ->
  forall vs cur, issub cur t0 = true -> all_typed_within vs t0 = true ->
  exists t, enum_vtype_go cur vs = Some t /\ issub t t0 = true.
Proof.
  intros t0 T0. induction vs as [|v vs IH]; intros cur SC W.
  - simpl. eauto.
  - simpl in W. apply andb_true_iff in W as [W1 W2].
    destruct (pv_is_none v) as [E|NN].
    + subst v. simpl. auto.
    + rewrite enum_vtype_go_cons by exact NN.
      destruct (typed_within_inv _ _ NN W1) as [nx [Tv Sx]]. rewrite Tv.
      destruct (issub cur nx) eqn:S1; [apply IH; auto|].
      destruct (chain_int_bool _ _ _ T0 SC Sx) as [X|X]; [congruence|]. rewrite X. apply IH; auto.
Qed.

Lemma enum_vtype_chain : forall vs t0, t0 = TyInt \/ t0 = TyBool -> all_typed_within vs t0 = true ->
  forall w, In w vs -> w <> PNone -> exists t, enum_vtype vs = Some [t] /\ issub t t0 = true.
Proof.
  intros vs t0 T0. induction vs as [|v vs IH]; intros W w Iw WN; [contradiction|].
  simpl in W. apply andb_true_iff in W as [W1 W2].
  destruct (pv_is_none v) as [E|NN].
  - subst v. simpl. destruct Iw as [X|Iw]; [congruence|]. eauto.
  - assert (EQ : enum_vtype (v :: vs) =
                 match type_of v with
                 | None => None
                 | Some t => match enum_vtype_go t vs with Some t' => Some [t'] | None => None end
                 end) by (destruct v; try reflexivity; congruence).
    rewrite EQ. destruct (typed_within_inv _ _ NN W1) as [nx [Tv Sx]]. rewrite Tv.
    destruct (enum_vtype_go_chain t0 T0 vs nx Sx W2) as [t [G S]]. rewrite G. eauto.
Qed.

(* == relates numbers to numbers and otherwise values of one type *)
Lemma py_eq_types : forall u v, py_eq u v = true ->
  (num_of u <> None /\ num_of v <> None) \/ type_of u = type_of v.
Proof.
  intros u v H. pose proof (py_eq_shape _ _ H) as S.
  destruct u; simpl in S; subst; auto;
    try (left; split; [simpl; congruence | rewrite S; simpl; congruence]).
  - destruct S as [ys [E _]]. subst. auto.
  - destruct S as [ys [E _]]. subst. auto.
  - destruct S as [ys [E _]]. subst. auto.
Qed.

Lemma py_eq_num_congr : forall u v v' n, num_of v = Some n -> num_of v' = Some n -> py_eq u v = py_eq u v'.
Proof.
  intros u v v' n A B. destruct (num_of u) eqn:U.
  - rewrite (py_eq_num u v z n), (py_eq_num u v' z n); auto.
  - rewrite (py_eq_num_r u v n), (py_eq_num_r u v' n); auto.
Qed.

Lemma py_in_trans : forall w v vals, py_in w vals = true -> py_eq w v = true -> py_in v vals = true.
Proof.
  unfold py_in. intros w v vals H E. apply existsb_exists in H as [u [I U]].
  apply existsb_exists. exists u. split; auto. eapply py_eq_trans; eauto.
Qed.

Lemma numeric_type : forall v, num_of v <> None ->
  type_of v = Some TyBool \/ type_of v = Some TyInt \/ type_of v = Some TyFloat.
Proof. destruct v; simpl; intros; try congruence; auto. Qed.

Lemma enum_accepts : forall vals m v, frozen m = false -> type_of v <> None -> py_in v vals = true ->
  match enum_vtype vals with
  | None => True
  | Some ts => isinstance v ts = true \/ (ts = [TyFloat] /\ num_of v <> None)
  end -> accepts (SEnum vals m) v.
Proof.
  intros vals m v F T I C.
  destruct (enum_vtype vals) as [ts|] eqn:VT.
  - destruct C as [C|[E N]].
    + eapply accepts_inst with (v' := v) (ts := ts); auto. cbn [apply_body]. rewrite I. reflexivity.
    + subst ts. destruct (isinstance v [TyFloat]) eqn:II.
      * eapply accepts_inst with (v' := v) (ts := [TyFloat]); auto. cbn [apply_body]. rewrite I. reflexivity.
      * destruct (num_of v) as [n|] eqn:NV; [|congruence].
        assert (CV : conv_float v = Some (PFlt n)).
        { destruct v; simpl in NV; try discriminate; inv NV; try reflexivity. }
        eapply accepts_typed with (v1 := PFlt n) (v' := PFlt n); auto.
        -- simpl. rewrite VT. simpl. rewrite II. unfold convert. simpl. rewrite CV. reflexivity.
        -- cbn [apply_body].
           replace (py_in (PFlt n) vals) with true; [reflexivity|].
           symmetry. unfold py_in in *. apply existsb_exists in I as [u [Iu E]].
           apply existsb_exists. exists u. split; auto.
           rewrite <- E. symmetry. eapply py_eq_num_congr; eauto.
  - eapply accepts_typed with (v1 := v) (v' := v); auto.
    + simpl. rewrite VT. reflexivity.
    + cbn [apply_body]. rewrite I. reflexivity.
Qed.

Lemma sound_enum_enum : forall q vals m ovals mb v,
  q_enum_subset q = false ->
  frozen m = false -> v <> PMissing ->
  none_ok m mb = true -> forallb (fun w => py_in w vals) ovals = true ->
  enum_types_ok q vals (SEnum ovals mb) = true ->
  conforms (unfreeze (SEnum ovals mb)) v -> accepts (SEnum vals m) v.
Proof.
  intros q vals m ovals mb v Q Fa NM NO SUB TY C.
  apply conforms_inv in C; auto using frozen_unfreeze.
  destruct C as [[E N]|[T [v1 [Co Bo]]]].
  - subst. apply accepts_none; auto. eapply none_ok_use; eauto.
  - simpl in Co, Bo. destruct (py_in v1 ovals) eqn:I; inv Bo.
    (* v is listed (up to ==) by the receiver too *)
    assert (IV : py_in v vals = true).
    { unfold py_in in I. apply existsb_exists in I as [w [Iw E]].
      rewrite forallb_forall in SUB. eapply py_in_trans; eauto. }
    apply enum_accepts; auto.
    destruct (enum_vtype vals) as [ts|] eqn:VT; auto.
    destruct (enum_vtype_sound _ _ VT) as [t [E SND]]. subst ts.
    unfold py_in in IV. apply existsb_exists in IV as [u [Iu Eu]].
    assert (UN : u <> PNone).
    { intros X; subst. pose proof (py_eq_shape _ _ Eu) as S. simpl in S. subst. simpl in T. congruence. }
    destruct (SND _ Iu UN) as [tu [Tu Su]].
    destruct (py_eq_types _ _ Eu) as [[Nu Nv]|Same].
    + (* both numbers *)
      unfold enum_types_ok in TY. rewrite Q, VT in TY. simpl in TY.
      assert (W : forall t0, t0 = TyInt \/ t0 = TyBool -> all_typed_within ovals t0 = true ->
                  isinstance v [t0] = true).
      { intros t0 T0 W. unfold py_in in I. apply existsb_exists in I as [w [Iw Ew]].
        assert (WN : w <> PNone).
        { intros X; subst. pose proof (py_eq_shape _ _ Ew) as S. simpl in S. subst. simpl in T. congruence. }
        destruct (enum_vtype_chain _ _ T0 W _ Iw WN) as [tb [EV Sb]].
        rewrite EV in Co. apply coerce_fixed_instance in Co. unfold isinstance in *.
        destruct (type_of v) as [tv|]; [|discriminate]. simpl in *. rewrite orb_false_r in *.
        eapply issub_trans; eauto. }
      destruct (numeric_type _ Nu) as [X|[X|X]]; rewrite X in Tu; inv Tu;
        destruct t; simpl in Su; try discriminate; auto;
        try (left; apply W; [auto | exact TY]);
        try (left; unfold isinstance; destruct (type_of v); [destruct t; reflexivity|congruence]).
    + left. unfold isinstance. rewrite <- Same, Tu. simpl. rewrite Su. reflexivity.
Qed.

(* ------------------------------------------------------------------------------------------ *)
(** * The theorem *)

Lemma frozen_ok_true : forall q ma mb, q_frozen_recv q = false -> frozen ma = true ->
  frozen_ok q ma mb = true -> frozen mb = true /\ py_eq (dflt ma) (dflt mb) = true.
Proof.
  unfold frozen_ok. intros q ma mb Q F H. rewrite Q, F in H. simpl in H.
  apply andb_true_iff in H. exact H.
Qed.

Lemma conforms_frozen : forall b v, frozen (mods_of b) = true -> conforms b v -> v = dflt (mods_of b).
Proof.
  intros b v F C. unfold conforms in C. rewrite apply_eq in C. unfold pipeline in C. rewrite F in C.
  destruct (is_missing v || py_eq (dflt (mods_of b)) v); inv C. auto.
Qed.

Definition sound_for (q : quirks) (a : spec) : Prop :=
  forall b, wf a -> wf b -> compat q a b = true ->
  forall v, total v = true -> conforms b v -> accepts a v.

Lemma sound_dict_none : forall m osc mb v,
  frozen m = false -> v <> PMissing -> none_ok m mb = true ->
  conforms (unfreeze (SDict osc mb)) v -> accepts (SDict None m) v.
Proof.
  intros m osc mb v Fa NM NO C.
  apply conforms_inv in C; auto using frozen_unfreeze.
  destruct C as [[E N]|[T [v1 [Co Bo]]]].
  - subst. apply accepts_none; auto. eapply none_ok_use; eauto.
  - simpl in Co. apply coerce_nofloat in Co as [E I]; [|reflexivity]. subst v1.
    eapply accepts_inst with (v' := v) (ts := [TyDict]); auto.
Qed.

Theorem compat_sound_seq : forall q, no_quirks q ->
  forall a, no_union a = true -> no_schema a = true -> sound_for q a.
Proof.
  intros q (Q1 & Q2 & Q3 & Q4 & Q5).
  induction a using spec_ind'; intros NU NS b Wa Wb CP v TV C;
    rewrite compat_eq in CP; unfold compat1 in CP; cbn [mods_of] in CP;
    apply andb_true_iff in CP as [FO CP];
    (destruct (frozen m) eqn:Fa;
     [ destruct (frozen_ok_true _ _ _ Q2 Fa FO) as [Fb E];
       eapply sound_frozen_receiver; eauto
     | pose proof (conforms_unfreeze _ _ Wb TV C) as C';
       pose proof (total_not_missing _ TV) as NM ]).
  - (* Bool *)
    destruct b; try discriminate.
    eapply sound_leaf with (b := SBool m0); eauto;
      try (intros v1 B; inv B; reflexivity); try (intros _; eexists; reflexivity).
  - (* Int *)
    destruct b; try discriminate. bsplit.
    eapply sound_leaf with (b := SInt lo0 hi0 m0); eauto.
    + intros v1 B. symmetry. eapply validate_num_same; eauto.
    + intros B. cbn [apply_body] in *. destruct (validate_num_ok _ _ _ B) as [x [N I]].
      exists v. unfold validate_num. rewrite N. erewrite in_range_compat64; eauto.
  - (* Float *)
    destruct b; try discriminate. bsplit.
    eapply sound_leaf with (b := SFloat lo0 hi0 m0); eauto.
    + intros v1 B. symmetry. eapply validate_num_same; eauto.
    + intros B. cbn [apply_body] in *. destruct (validate_num_ok _ _ _ B) as [x [N I]].
      exists v. unfold validate_num. rewrite N. erewrite in_range_compat; eauto.
  - (* Str *)
    destruct b; try discriminate.
    eapply sound_leaf with (b := SStr m0); eauto;
      try (intros v1 B; inv B; reflexivity); try (intros _; eexists; reflexivity).
  - (* Enum *)
    apply orb_true_iff in CP as [SC|CP].
    + bsplit. rewrite Q3, orb_false_l in H0.
      rewrite (conforms_frozen _ _ H C).
      destruct (apply false (SEnum vs m) (dflt (mods_of b))) eqn:A; [|discriminate].
      eexists; eauto.
    + destruct b; try discriminate. bsplit. eapply sound_enum_enum; eauto.
  - (* List *)
    destruct b; try discriminate. bsplit. rewrite Q1, orb_false_l in H2.
    simpl in NU, NS.
    eapply sound_list; eauto.
    intros x Tx Cx. apply (IHa NU NS b); eauto using wf_list.
  - (* Tuple *)
    destruct b; try discriminate. apply andb_true_iff in CP as [NO CP].
    simpl in NU, NS. rewrite forallb_forall in NU, NS.
    pose proof (wf_tuple _ _ _ _ Wa) as Wes. pose proof (wf_tuple _ _ _ _ Wb) as Woes.
    rewrite Forall_forall in *.
    eapply sound_tuple; eauto.
    intros e He oe Hoe CPe x Tx Cx. apply (H e He (NU e He) (NS e He) oe); auto.
  - (* schema-less Dict *)
    destruct b; try discriminate. bsplit. eapply sound_dict_none; eauto.
  - simpl in NS. discriminate.
  - (* Object *)
    destruct b; try discriminate. bsplit. eapply sound_obj; eauto.
  - simpl in NU. discriminate.
  - (* Any *)
    destruct Wa as [_ N]. eapply sound_any; eauto.
Qed.

(* HierFlatten.v — canonicalize (flatten v) = v.
   Part 1: what flatten produces.  Part 2: what canonicalize does with it.  Part 3: rebuilding the value. *)
From PG Require Import Common.Tactics Model.KeyPath Model.Hier Proofs.KeyPathArith Proofs.KeyPathParse Proofs.HierTraverse.
Local Open Scope Z_scope.

Definition leafp (px : list key * pv) : bool := is_leaf (snd px).
Definition LV (v : pv) (path : list key) : list (list key * pv) := filter leafp (nodes v path).
Definition prepend (a : list key) (px : list key * pv) : list key * pv := (a ++ fst px, snd px).

(* ---- nodes under a longer root ---------------------------------------------------------------------------------------- *)
Lemma nodes_prefix : forall v a b, nodes v (a ++ b) = map (prepend a) (nodes v b).
Proof.
  apply (pv_ind' (fun v => forall a b, nodes v (a ++ b) = map (prepend a) (nodes v b))); try reflexivity.
  - intros l IH a b. rewrite !nodes_list_eq. cbn [map]. unfold prepend at 1. cbn [fst snd]. f_equal.
    generalize 0. induction IH as [| c r Hc _ IHr]; intros i; cbn [nodes_list map]; [reflexivity |].
    rewrite map_app, <- IHr, <- app_assoc, Hc. reflexivity.
  - intros kvs IH a b. rewrite !nodes_dict_eq. cbn [map]. unfold prepend at 1. cbn [fst snd]. f_equal.
    induction IH as [| [k c] r Hc _ IHr]; cbn [nodes_dict map]; [reflexivity |].
    cbn [snd] in Hc. rewrite map_app, <- IHr, <- app_assoc, Hc. reflexivity.
Qed.

Lemma filter_map_prepend : forall a l, filter leafp (map (prepend a) l) = map (prepend a) (filter leafp l).
Proof.
  intros a l. induction l as [| [p x] r IH]; cbn [map filter]; [reflexivity |].
  change (leafp (prepend a (p, x))) with (leafp (p, x)).
  destruct (leafp (p, x)); cbn [map]; rewrite IH; reflexivity.
Qed.

Lemma LV_prefix : forall v a b, LV v (a ++ b) = map (prepend a) (LV v b).
Proof. intros. unfold LV. rewrite nodes_prefix. apply filter_map_prepend. Qed.

Lemma LV_leaf : forall v path, is_leaf v = true -> LV v path = [(path, v)].
Proof.
  intros v path H. unfold LV. destruct v as [| | | [| x l] | [| x l]]; try discriminate; cbn; reflexivity.
Qed.

Fixpoint LVd (path : list key) (kvs : list (key * pv)) : list (list key * pv) :=
  match kvs with [] => [] | (k, c) :: r => LV c (path ++ [k]) ++ LVd path r end.
Fixpoint LVl (path : list key) (l : list pv) (i : Z) : list (list key * pv) :=
  match l with [] => [] | c :: r => LV c (path ++ [KInt i]) ++ LVl path r (i + 1) end.

Lemma LV_dict : forall kvs path, kvs <> [] -> LV (PDict kvs) path = LVd path kvs.
Proof.
  intros kvs path H. unfold LV. rewrite nodes_dict_eq. cbn [filter]. unfold leafp at 1. cbn [snd].
  destruct kvs as [| kv r]; [congruence |]. cbn [is_leaf]. clear H.
  induction (kv :: r) as [| [k c] r' IH]; cbn [nodes_dict LVd]; [reflexivity |]. rewrite filter_app, IH. reflexivity.
Qed.

Lemma LV_list : forall l path, l <> [] -> LV (PList l) path = LVl path l 0.
Proof.
  intros l path H. unfold LV. rewrite nodes_list_eq. cbn [filter]. unfold leafp at 1. cbn [snd].
  destruct l as [| c0 r]; [congruence |]. cbn [is_leaf]. clear H.
  generalize 0. induction (c0 :: r) as [| c r' IH]; intros i; cbn [nodes_list LVl]; [reflexivity |].
  rewrite filter_app, IH. reflexivity.
Qed.

(* ---- part 1: utils.flatten(v, False) is the dict {str(path): leaf} over the leaves, in order ----------------------------- *)
Definition leaf_posts (lg : list ev) : list (list key * pv) :=
  flat_map (fun e => match e with EPost p x => if is_leaf x then [(p, x)] else [] | EPre _ _ => [] end) lg.

Lemma leaf_posts_app : forall a b, leaf_posts (a ++ b) = leaf_posts a ++ leaf_posts b.
Proof. intros. unfold leaf_posts. apply flat_map_app. Qed.

Definition lvisits (f : pv -> list key -> list ev * bool) (v : pv) : Prop :=
  forall path, snd (f v path) = true /\ leaf_posts (fst (f v path)) = LV v path.

Lemma go_dict_leaves : forall f path kvs, Forall (fun kv => lvisits f (snd kv)) kvs ->
  snd (go_dict f path kvs) = true /\ leaf_posts (fst (go_dict f path kvs)) = LVd path kvs.
Proof.
  intros f path kvs H. induction H as [| [k c] r Hc _ IH]; cbn [go_dict LVd]; [auto |].
  destruct (Hc (path ++ [k])) as [A B]. cbn [snd] in *. destruct (f c (path ++ [k])) as [lg ok]. cbn [fst snd] in *. subst ok.
  destruct IH as [C D]. destruct (go_dict f path r) as [lg2 ok2]. cbn [fst snd] in *. subst ok2.
  split; [reflexivity |]. rewrite leaf_posts_app. congruence.
Qed.

Lemma go_list_leaves : forall f path l i, Forall (lvisits f) l ->
  snd (go_list f path l i) = true /\ leaf_posts (fst (go_list f path l i)) = LVl path l i.
Proof.
  intros f path l i H. revert i. induction H as [| c r Hc _ IH]; intros i; cbn [go_list LVl]; [auto |].
  destruct (Hc (path ++ [KInt i])) as [A B]. destruct (f c (path ++ [KInt i])) as [lg ok]. cbn [fst snd] in *. subst ok.
  destruct (IH (i + 1)) as [C D]. destruct (go_list f path r (i + 1)) as [lg2 ok2]. cbn [fst snd] in *. subst ok2.
  split; [reflexivity |]. rewrite leaf_posts_app. congruence.
Qed.

Definition TT : list key -> pv -> bool := fun _ _ => true.

Theorem trav_leaves : forall v, lvisits (trav TT TT) v.
Proof.
  apply pv_ind'; intros; intro path; rewrite trav_unfold;
    match goal with |- context [negb (TT ?p ?x)] => change (TT p x) with true end; cbn [negb].
  - rewrite LV_leaf by reflexivity. cbn. auto.
  - rewrite LV_leaf by reflexivity. cbn. auto.
  - rewrite LV_leaf by reflexivity. cbn. auto.
  - cbn [kids_of]. destruct (go_list_leaves (trav TT TT) path l 0 H) as [A B].
    destruct (go_list (trav TT TT) path l 0) as [lg ok]. cbn [fst snd] in *. subst ok. split; [reflexivity |].
    change (EPre path (PList l) :: lg ++ [EPost path (PList l)]) with ([EPre path (PList l)] ++ lg ++ [EPost path (PList l)]).
    cbn [fst]. rewrite !leaf_posts_app, B. destruct l as [| c r].
    + rewrite LV_leaf by reflexivity. cbn. reflexivity.
    + rewrite LV_list by discriminate. cbn. rewrite app_nil_r. reflexivity.
  - cbn [kids_of]. destruct (go_dict_leaves (trav TT TT) path kvs H) as [A B].
    destruct (go_dict (trav TT TT) path kvs) as [lg ok]. cbn [fst snd] in *. subst ok. split; [reflexivity |].
    change (EPre path (PDict kvs) :: lg ++ [EPost path (PDict kvs)]) with ([EPre path (PDict kvs)] ++ lg ++ [EPost path (PDict kvs)]).
    cbn [fst]. rewrite !leaf_posts_app, B. destruct kvs as [| c r].
    + rewrite LV_leaf by reflexivity. cbn. reflexivity.
    + rewrite LV_dict by discriminate. cbn. rewrite app_nil_r. reflexivity.
Qed.

Definition fmt_entry (px : list key * pv) : key * pv := (KStr (format (fst px)), snd px).

Definition flat_step (dest : list (key * pv)) (px : list key * pv) : list (key * pv) :=
  match fst px with [] => dest | _ => dset (KStr (format (fst px))) (snd px) dest end.

Lemma flatten_fold : forall lg dest,
  fold_left (fun dest e =>
               match e with
               | EPost (k :: p) x => if is_leaf x then dset (KStr (fmt_go (negb false) true (k :: p))) x dest else dest
               | _ => dest
               end) lg dest =
  fold_left flat_step (leaf_posts lg) dest.
Proof.
  induction lg as [| e r IH]; intros dest; [reflexivity |].
  cbn [fold_left]. rewrite IH. destruct e as [p x | p x]; [reflexivity |].
  cbn [leaf_posts flat_map]. fold (leaf_posts r). destruct p as [| k p].
  - destruct (is_leaf x); reflexivity.
  - destruct (is_leaf x); reflexivity.
Qed.

Lemma flatten_nonleaf : forall v, is_leaf v = false ->
  flatten false v = PDict (fold_left flat_step (LV v []) []).
Proof.
  intros v H. unfold flatten. rewrite H.
  destruct (trav_leaves v []) as [_ B]. fold TT.
  destruct (trav TT TT v []) as [lg ok]. cbn [fst] in B. rewrite flatten_fold, B. reflexivity.
Qed.

Lemma dget_notin : forall k l, ~ In k (map fst l) -> dget k l = None.
Proof.
  induction l as [| [k0 v0] r IH]; cbn; intros H; [reflexivity |].
  destruct (key_eqb k k0) eqn:E; [apply key_eqb_eq in E; subst; exfalso; auto |]. auto.
Qed.

Lemma dset_fresh : forall k x l, ~ In k (map fst l) -> dset k x l = l ++ [(k, x)].
Proof.
  induction l as [| [k0 v0] r IH]; cbn; intros H; [reflexivity |].
  destruct (key_eqb k k0) eqn:E; [apply key_eqb_eq in E; subst; exfalso; auto |]. rewrite IH; auto.
Qed.

Lemma flat_fold_map : forall L dest,
  Forall (fun px => fst px <> []) L ->
  NoDup (map fst dest ++ map (fun px => KStr (format (fst px))) L) ->
  fold_left flat_step L dest = dest ++ map fmt_entry L.
Proof.
  induction L as [| [p x] r IH]; intros dest Hne Hnd; cbn [fold_left map]; [rewrite app_nil_r; reflexivity |].
  inv Hne. cbn [fst] in *. unfold flat_step at 2. cbn [fst snd]. destruct p as [| k p]; [congruence |].
  cbn [map fst] in Hnd. rewrite dset_fresh.
  - rewrite IH; auto.
    + rewrite <- app_assoc. reflexivity.
    + rewrite map_app. cbn [map fst]. rewrite <- app_assoc. exact Hnd.
  - apply NoDup_remove_2 in Hnd. intros F. apply Hnd. apply in_or_app. auto.
Qed.

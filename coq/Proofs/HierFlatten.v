(* HierFlatten.v — canonicalize (flatten v) = v.
   Part 1: what flatten produces.  Part 2: what canonicalize does with it.  Part 3: rebuilding the value. *)
From PG Require Import Common.Tactics Model.KeyPath Model.Hier Proofs.KeyPathArith Proofs.KeyPathParse Proofs.HierTraverse.
Local Open Scope Z_scope.

Definition leafp (px : list key * pv) : bool := is_leaf (snd px).
Definition LV (v : pv) (path : list key) : list (list key * pv) := filter leafp (nodes v path).
Definition prepend (a : list key) (px : list key * pv) : list key * pv := (a ++ fst px, snd px).

(* ---- nodes under a longer root ---------------------------------------------------------------------------------------- *)
Lemma nodes_prefix : forall v a b, nodes v (a ++ b) = map (prepend a) (nodes v b).
Proof.
  apply (pv_ind' (fun v => forall a b, nodes v (a ++ b) = map (prepend a) (nodes v b))); try reflexivity.
  - intros l IH a b. rewrite !nodes_list_eq. cbn [map]. unfold prepend at 1. cbn [fst snd]. f_equal.
    generalize 0. induction IH as [| c r Hc _ IHr]; intros i; cbn [nodes_list map]; [reflexivity |].
    rewrite map_app, <- IHr, <- app_assoc, Hc. reflexivity.
  - intros kvs IH a b. rewrite !nodes_dict_eq. cbn [map]. unfold prepend at 1. cbn [fst snd]. f_equal.
    induction IH as [| [k c] r Hc _ IHr]; cbn [nodes_dict map]; [reflexivity |].
    cbn [snd] in Hc. rewrite map_app, <- IHr, <- app_assoc, Hc. reflexivity.
Qed.

Lemma filter_map_prepend : forall a l, filter leafp (map (prepend a) l) = map (prepend a) (filter leafp l).
Proof.
  intros a l. induction l as [| [p x] r IH]; cbn [map filter]; [reflexivity |].
  change (leafp (prepend a (p, x))) with (leafp (p, x)).
  destruct (leafp (p, x)); cbn [map]; rewrite IH; reflexivity.
Qed.

Lemma LV_prefix : forall v a b, LV v (a ++ b) = map (prepend a) (LV v b).
Proof. intros. unfold LV. rewrite nodes_prefix. apply filter_map_prepend. Qed.

Lemma LV_leaf : forall v path, is_leaf v = true -> LV v path = [(path, v)].
Proof.
  intros v path H. unfold LV. destruct v as [| | | [| x l] | [| x l]]; try discriminate; cbn; reflexivity.
Qed.

Fixpoint LVd (path : list key) (kvs : list (key * pv)) : list (list key * pv) :=
  match kvs with [] => [] | (k, c) :: r => LV c (path ++ [k]) ++ LVd path r end.
Fixpoint LVl (path : list key) (l : list pv) (i : Z) : list (list key * pv) :=
  match l with [] => [] | c :: r => LV c (path ++ [KInt i]) ++ LVl path r (i + 1) end.

Lemma LV_dict : forall kvs path, kvs <> [] -> LV (PDict kvs) path = LVd path kvs.
Proof.
  intros kvs path H. unfold LV. rewrite nodes_dict_eq. cbn [filter]. unfold leafp at 1. cbn [snd].
  destruct kvs as [| kv r]; [congruence |]. cbn [is_leaf]. clear H.
  induction (kv :: r) as [| [k c] r' IH]; cbn [nodes_dict LVd]; [reflexivity |]. rewrite filter_app, IH. reflexivity.
Qed.

Lemma LV_list : forall l path, l <> [] -> LV (PList l) path = LVl path l 0.
Proof.
  intros l path H. unfold LV. rewrite nodes_list_eq. cbn [filter]. unfold leafp at 1. cbn [snd].
  destruct l as [| c0 r]; [congruence |]. cbn [is_leaf]. clear H.
  generalize 0. induction (c0 :: r) as [| c r' IH]; intros i; cbn [nodes_list LVl]; [reflexivity |].
  rewrite filter_app, IH. reflexivity.
Qed.

(* ---- part 1: utils.flatten(v, False) is the dict {str(path): leaf} over the leaves, in order ----------------------------- *)
Definition leaf_posts (lg : list ev) : list (list key * pv) :=
  flat_map (fun e => match e with EPost p x => if is_leaf x then [(p, x)] else [] | EPre _ _ => [] end) lg.

Lemma leaf_posts_app : forall a b, leaf_posts (a ++ b) = leaf_posts a ++ leaf_posts b.
Proof. intros. unfold leaf_posts. apply flat_map_app. Qed.

Definition lvisits (f : pv -> list key -> list ev * bool) (v : pv) : Prop :=
  forall path, snd (f v path) = true /\ leaf_posts (fst (f v path)) = LV v path.

Lemma go_dict_leaves : forall f path kvs, Forall (fun kv => lvisits f (snd kv)) kvs ->
  snd (go_dict f path kvs) = true /\ leaf_posts (fst (go_dict f path kvs)) = LVd path kvs.
Proof.
  intros f path kvs H. induction H as [| [k c] r Hc _ IH]; cbn [go_dict LVd]; [auto |].
  destruct (Hc (path ++ [k])) as [A B]. cbn [snd] in *. destruct (f c (path ++ [k])) as [lg ok]. cbn [fst snd] in *. subst ok.
  destruct IH as [C D]. destruct (go_dict f path r) as [lg2 ok2]. cbn [fst snd] in *. subst ok2.
  split; [reflexivity |]. rewrite leaf_posts_app. congruence.
Qed.

Lemma go_list_leaves : forall f path l i, Forall (lvisits f) l ->
  snd (go_list f path l i) = true /\ leaf_posts (fst (go_list f path l i)) = LVl path l i.
Proof.
  intros f path l i H. revert i. induction H as [| c r Hc _ IH]; intros i; cbn [go_list LVl]; [auto |].
  destruct (Hc (path ++ [KInt i])) as [A B]. destruct (f c (path ++ [KInt i])) as [lg ok]. cbn [fst snd] in *. subst ok.
  destruct (IH (i + 1)) as [C D]. destruct (go_list f path r (i + 1)) as [lg2 ok2]. cbn [fst snd] in *. subst ok2.
  split; [reflexivity |]. rewrite leaf_posts_app. congruence.
Qed.

Definition TT : list key -> pv -> bool := fun _ _ => true.

Theorem trav_leaves : forall v, lvisits (trav TT TT) v.
Proof.
  apply pv_ind'; intros; intro path; rewrite trav_unfold;
    match goal with |- context [negb (TT ?p ?x)] => change (TT p x) with true end; cbn [negb].
  - rewrite LV_leaf by reflexivity. cbn. auto.
  - rewrite LV_leaf by reflexivity. cbn. auto.
  - rewrite LV_leaf by reflexivity. cbn. auto.
  - cbn [kids_of]. destruct (go_list_leaves (trav TT TT) path l 0 H) as [A B].
    destruct (go_list (trav TT TT) path l 0) as [lg ok]. cbn [fst snd] in *. subst ok. split; [reflexivity |].
    change (EPre path (PList l) :: lg ++ [EPost path (PList l)]) with ([EPre path (PList l)] ++ lg ++ [EPost path (PList l)]).
    cbn [fst]. rewrite !leaf_posts_app, B. destruct l as [| c r].
    + rewrite LV_leaf by reflexivity. cbn. reflexivity.
    + rewrite LV_list by discriminate. cbn. rewrite app_nil_r. reflexivity.
  - cbn [kids_of]. destruct (go_dict_leaves (trav TT TT) path kvs H) as [A B].
    destruct (go_dict (trav TT TT) path kvs) as [lg ok]. cbn [fst snd] in *. subst ok. split; [reflexivity |].
    change (EPre path (PDict kvs) :: lg ++ [EPost path (PDict kvs)]) with ([EPre path (PDict kvs)] ++ lg ++ [EPost path (PDict kvs)]).
    cbn [fst]. rewrite !leaf_posts_app, B. destruct kvs as [| c r].
    + rewrite LV_leaf by reflexivity. cbn. reflexivity.
    + rewrite LV_dict by discriminate. cbn. rewrite app_nil_r. reflexivity.
Qed.

Definition fmt_entry (px : list key * pv) : key * pv := (KStr (format (fst px)), snd px).

Definition flat_step (dest : list (key * pv)) (px : list key * pv) : list (key * pv) :=
  match fst px with [] => dest | _ => dset (KStr (format (fst px))) (snd px) dest end.

Lemma flatten_fold : forall lg dest,
  fold_left (fun dest e =>
               match e with
               | EPost (k :: p) x => if is_leaf x then dset (KStr (fmt_go (negb false) true (k :: p))) x dest else dest
               | _ => dest
               end) lg dest =
  fold_left flat_step (leaf_posts lg) dest.
Proof.
  induction lg as [| e r IH]; intros dest; [reflexivity |].
  cbn [fold_left]. rewrite IH. destruct e as [p x | p x]; [reflexivity |].
  cbn [leaf_posts flat_map]. fold (leaf_posts r). destruct p as [| k p].
  - destruct (is_leaf x); reflexivity.
  - destruct (is_leaf x); reflexivity.
Qed.

Lemma flatten_nonleaf : forall v, is_leaf v = false ->
  flatten false v = PDict (fold_left flat_step (LV v []) []).
Proof.
  intros v H. unfold flatten. rewrite H.
  destruct (trav_leaves v []) as [_ B]. fold TT.
  destruct (trav TT TT v []) as [lg ok]. cbn [fst] in B. rewrite flatten_fold, B. reflexivity.
Qed.

Lemma dget_notin : forall k l, ~ In k (map fst l) -> dget k l = None.
Proof.
  induction l as [| [k0 v0] r IH]; cbn; intros H; [reflexivity |].
  destruct (key_eqb k k0) eqn:E; [apply key_eqb_eq in E; subst; exfalso; auto |]. auto.
Qed.

Lemma dset_fresh : forall k x l, ~ In k (map fst l) -> dset k x l = l ++ [(k, x)].
Proof.
  induction l as [| [k0 v0] r IH]; cbn; intros H; [reflexivity |].
  destruct (key_eqb k k0) eqn:E; [apply key_eqb_eq in E; subst; exfalso; auto |]. rewrite IH; auto.
Qed.

Lemma flat_fold_map : forall L dest,
  Forall (fun px => fst px <> []) L ->
  NoDup (map fst dest ++ map (fun px => KStr (format (fst px))) L) ->
  fold_left flat_step L dest = dest ++ map fmt_entry L.
Proof.
  induction L as [| [p x] r IH]; intros dest Hne Hnd; cbn [fold_left map]; [rewrite app_nil_r; reflexivity |].
  inv Hne. cbn [fst] in *. unfold flat_step at 2. cbn [fst snd]. destruct p as [| k p]; [congruence |].
  cbn [map fst] in Hnd. rewrite dset_fresh.
  - rewrite IH; auto.
    + rewrite <- app_assoc. reflexivity.
    + rewrite map_app. cbn [map fst]. rewrite <- app_assoc. exact Hnd.
  - apply NoDup_remove_2 in Hnd. intros F. apply Hnd. apply in_or_app. auto.
Qed.

(* ---- part 2: canonicalize on such a dict inserts the leaves one by one --------------------------------------------------- *)
Fixpoint canon_go (sp : bool) (l : list (key * pv)) (cd : list (key * pv)) : herr + list (key * pv) :=
  match l with
  | [] => inr cd
  | (k, x) :: r =>
      match key_to_path k with
      | inl e => inl e
      | inr [] => inl HKeyError
      | inr [k1] =>
          match canon sp x with
          | inl e => inl e
          | inr nv =>
              match dget k1 cd with
              | None => canon_go sp r (dset k1 nv cd)
              | Some old =>
                  match merge_c old nv with
                  | inl e => inl e
                  | inr m => canon_go sp r (dset k1 m cd)
                  end
              end
          end
      | inr path =>
          match canon sp x with
          | inl e => inl e
          | inr nv =>
              match merge_c (PDict cd) (nest path nv) with
              | inl e => inl e
              | inr (PDict cd') => canon_go sp r cd'
              | inr _ => inl HTypeError
              end
          end
      end
  end.

Lemma canon_dict_eq : forall sp kvs,
  canon sp (PDict kvs) =
  match canon_go sp kvs [] with inl e => inl e | inr cd => inr (listify (negb sp) (PDict cd)) end.
Proof.
  intros sp kvs. cbn [canon].
  match goal with |- match ?a with _ => _ end = match ?b with _ => _ end => replace a with b; [reflexivity |] end.
  generalize (@nil (key * pv)). induction kvs as [| [k x] r IH]; intros cd; [reflexivity |].
  cbn [canon_go]. destruct (key_to_path k) as [e | [| k1 [| k2 rest]]]; try reflexivity.
  - destruct (canon sp x); [reflexivity |]. destruct (dget k1 cd); [| apply IH].
    destruct (merge_c p0 p); [reflexivity | apply IH].
  - destruct (canon sp x); [reflexivity |].
    destruct (merge_c (PDict cd) (nest (k1 :: k2 :: rest) p)) as [e | [| | | |]]; try reflexivity. apply IH.
Qed.

Lemma canon_leaf : forall sp x, is_leaf x = true -> canon sp x = inr x.
Proof.
  intros sp x H. destruct x as [| | | [| c l] | [| kv l]]; try discriminate; try reflexivity.
Qed.

Definition ins (cd : list (key * pv)) (p : list key) (x : pv) : herr + list (key * pv) :=
  match merge_c (PDict cd) (nest p x) with
  | inr (PDict cd') => inr cd'
  | inr _ => inl HTypeError
  | inl e => inl e
  end.

Fixpoint build (L : list (list key * pv)) (cd : list (key * pv)) : herr + list (key * pv) :=
  match L with
  | [] => inr cd
  | (p, x) :: r => match ins cd p x with inl e => inl e | inr cd' => build r cd' end
  end.

Definition leaf_entry_ok (px : list key * pv) : Prop :=
  Forall key_ok (fst px) /\ fst px <> [] /\ is_leaf (snd px) = true.

Lemma canon_go_build : forall sp L cd, Forall leaf_entry_ok L ->
  canon_go sp (map fmt_entry L) cd = build L cd.
Proof.
  induction L as [| [p x] r IH]; intros cd H; [reflexivity |].
  inv H. destruct H2 as (Hok & Hne & Hleaf). cbn [fst snd] in *.
  cbn [map canon_go build]. unfold fmt_entry at 1. cbn [fst snd key_to_path].
  rewrite (parse_format p Hok). rewrite (canon_leaf sp x Hleaf).
  destruct p as [| k1 [| k2 rest]]; [congruence | |].
  - unfold ins. cbn [nest merge_c]. destruct (dget k1 cd) eqn:E.
    + destruct (merge_c p x); [reflexivity |]. apply IH. assumption.
    + apply IH. assumption.
  - unfold ins. destruct (merge_c (PDict cd) (nest (k1 :: k2 :: rest) x)) as [e | [| | | |]]; try reflexivity.
    apply IH. assumption.
Qed.

(* ---- part 3: inserting the leaves of v in order rebuilds v with every non-empty list as an int-keyed dict ------------------ *)
Fixpoint index_from (i : Z) (l : list pv) : list (key * pv) :=
  match l with [] => [] | x :: r => (KInt i, x) :: index_from (i + 1) r end.

Fixpoint D (v : pv) : pv :=
  match v with
  | PDict kvs => PDict (map (fun kv => (fst kv, D (snd kv))) kvs)
  | PList l => match l with [] => PList [] | _ => PDict (index_from 0 (map D l)) end
  | _ => v
  end.

Lemma D_leaf : forall v, is_leaf v = true -> D v = v.
Proof. intros v H. destruct v as [| | | [| c l] | [| kv l]]; try discriminate; reflexivity. Qed.

Lemma dget_app_last : forall k x l, ~ In k (map fst l) -> dget k (l ++ [(k, x)]) = Some x.
Proof.
  induction l as [| [k0 v0] r IH]; cbn; intros H.
  - rewrite key_eqb_refl. reflexivity.
  - destruct (key_eqb k k0) eqn:E; [apply key_eqb_eq in E; subst; exfalso; auto |]. auto.
Qed.

Lemma dset_app_last : forall k x y l, ~ In k (map fst l) -> dset k y (l ++ [(k, x)]) = l ++ [(k, y)].
Proof.
  induction l as [| [k0 v0] r IH]; cbn; intros H.
  - rewrite key_eqb_refl. reflexivity.
  - destruct (key_eqb k k0) eqn:E; [apply key_eqb_eq in E; subst; exfalso; auto |]. rewrite IH; auto.
Qed.

Lemma ins_fresh : forall cd k p x, ~ In k (map fst cd) -> ins cd (k :: p) x = inr (cd ++ [(k, nest p x)]).
Proof.
  intros cd k p x H. unfold ins. cbn [nest merge_c]. rewrite (dget_notin _ _ H), (dset_fresh _ _ _ H). reflexivity.
Qed.

(* merging a dict into a dict gives a dict or an error *)
Lemma merge_dd_shape : forall a b, match merge_c (PDict a) (PDict b) with inr (PDict _) => True | inr _ => False | inl _ => True end.
Proof.
  intros a b. cbn [merge_c]. revert a. induction b as [| [k v] r IH]; intros a; [exact I |].
  destruct (dget k a); [| apply IH]. destruct (merge_c p v); [exact I | apply IH].
Qed.

Lemma merge_single : forall a k v,
  merge_c (PDict a) (PDict [(k, v)]) =
  match dget k a with
  | None => inr (PDict (dset k v a))
  | Some old => match merge_c old v with inl e => inl e | inr m => inr (PDict (dset k m a)) end
  end.
Proof. intros. cbn [merge_c]. destruct (dget k a); [| reflexivity]. destruct (merge_c p v); reflexivity. Qed.

Lemma ins_under : forall cd0 k sub p x, ~ In k (map fst cd0) -> p <> [] ->
  ins (cd0 ++ [(k, PDict sub)]) (k :: p) x =
  match ins sub p x with inr sub' => inr (cd0 ++ [(k, PDict sub')]) | inl e => inl e end.
Proof.
  intros cd0 k sub p x H Hp. destruct p as [| k' p']; [congruence |].
  unfold ins. change (nest (k :: k' :: p') x) with (PDict [(k, nest (k' :: p') x)]).
  rewrite merge_single, (dget_app_last _ _ _ H).
  pose proof (merge_dd_shape sub [(k', nest p' x)]) as S.
  change (PDict [(k', nest p' x)]) with (nest (k' :: p') x) in S.
  destruct (merge_c (PDict sub) (nest (k' :: p') x)) as [e | m']; [reflexivity |].
  destruct m'; try contradiction. rewrite (dset_app_last _ _ _ _ H). reflexivity.
Qed.

Lemma build_under : forall L cd0 k sub, ~ In k (map fst cd0) -> Forall (fun px => fst px <> []) L ->
  build (map (prepend [k]) L) (cd0 ++ [(k, PDict sub)]) =
  match build L sub with inr sub' => inr (cd0 ++ [(k, PDict sub')]) | inl e => inl e end.
Proof.
  induction L as [| [p x] r IH]; intros cd0 k sub H Hne; [reflexivity |].
  inv Hne. cbn [fst] in *. cbn [map build]. unfold prepend at 1. cbn [fst snd app].
  rewrite (ins_under cd0 k sub p x H H2). destruct (ins sub p x); [reflexivity |]. apply IH; assumption.
Qed.

Lemma build_fresh : forall L cd0 k, ~ In k (map fst cd0) -> L <> [] -> Forall (fun px => fst px <> []) L ->
  build (map (prepend [k]) L) cd0 =
  match build L [] with inr sub => inr (cd0 ++ [(k, PDict sub)]) | inl e => inl e end.
Proof.
  intros L cd0 k H Hn Hne. destruct L as [| [p x] r]; [congruence |]. inv Hne. cbn [fst] in *.
  destruct p as [| k' p']; [congruence |].
  cbn [map build]. unfold prepend at 1. cbn [fst snd app].
  rewrite (ins_fresh cd0 k (k' :: p') x H). rewrite (ins_fresh [] k' p' x) by (intros []).
  cbn [nest app]. apply build_under; assumption.
Qed.

Lemma build_app : forall L1 L2 cd,
  build (L1 ++ L2) cd = match build L1 cd with inr cd' => build L2 cd' | inl e => inl e end.
Proof.
  induction L1 as [| [p x] r IH]; intros L2 cd; [reflexivity |].
  cbn [app build]. destruct (ins cd p x); [reflexivity | apply IH].
Qed.

(* a value has at least one leaf; below a non-leaf root no leaf sits at the root path *)
Lemma LV_nonempty : forall v path, LV v path <> [].
Proof.
  apply (pv_ind' (fun v => forall path, LV v path <> [])); intros; try (rewrite LV_leaf by reflexivity; discriminate).
  - destruct l as [| c r]; [rewrite LV_leaf by reflexivity; discriminate |].
    rewrite LV_list by discriminate. cbn [LVl]. inv H. intros F. apply app_eq_nil in F as [F _]. eapply H2; eauto.
  - destruct kvs as [| [k c] r]; [rewrite LV_leaf by reflexivity; discriminate |].
    rewrite LV_dict by discriminate. cbn [LVd]. inv H. intros F. apply app_eq_nil in F as [F _]. eapply H2; eauto.
Qed.

Lemma LV_paths_nonempty : forall v, is_leaf v = false -> Forall (fun px => fst px <> []) (LV v []).
Proof.
  intros v H. apply Forall_forall. intros [p x] Hin. cbn [fst]. unfold LV in Hin. apply filter_In in Hin as [Hin Hl].
  apply nodes_iff in Hin as (s & -> & Hat). cbn [app]. intros ->. inv Hat. unfold leafp in Hl. cbn [snd] in Hl. congruence.
Qed.

Definition rebuilds (c : pv) : Prop :=
  wfv c -> is_leaf c = false -> exists kd, D c = PDict kd /\ build (LV c []) [] = inr kd.

Lemma child_build : forall c k cd0, ~ In k (map fst cd0) -> wfv c -> rebuilds c ->
  build (LV c [k]) cd0 = inr (cd0 ++ [(k, D c)]).
Proof.
  intros c k cd0 H Hw R. destruct (is_leaf c) eqn:L.
  - rewrite LV_leaf by assumption. cbn [build]. rewrite ins_fresh by assumption. cbn [nest]. rewrite D_leaf by assumption. reflexivity.
  - destruct (R Hw L) as (kd & HD & HB).
    change [k] with ([k] ++ []). rewrite LV_prefix.
    rewrite build_fresh; auto using LV_nonempty, LV_paths_nonempty. rewrite HB, HD. reflexivity.
Qed.

Lemma LVd_build : forall kvs cd0, NoDup (map fst cd0 ++ map fst kvs) ->
  Forall (fun kv => wfv (snd kv) /\ rebuilds (snd kv)) kvs ->
  build (LVd [] kvs) cd0 = inr (cd0 ++ map (fun kv => (fst kv, D (snd kv))) kvs).
Proof.
  induction kvs as [| [k c] r IH]; intros cd0 Hnd H; cbn [LVd map build]; [rewrite app_nil_r; reflexivity |].
  inv H. destruct H2 as [Hw R]. cbn [fst snd app] in *.
  assert (~ In k (map fst cd0)) as Hk.
  { apply NoDup_remove_2 in Hnd. intros F. apply Hnd. apply in_or_app. auto. }
  rewrite build_app, (child_build c k cd0 Hk Hw R). rewrite IH; auto.
  - rewrite <- app_assoc. reflexivity.
  - rewrite map_app. cbn [map fst]. rewrite <- app_assoc. exact Hnd.
Qed.

Lemma LVl_build : forall l i0 cd0, Forall (fun k => exists j, k = KInt j /\ j < i0) (map fst cd0) ->
  Forall (fun c => wfv c /\ rebuilds c) l ->
  build (LVl [] l i0) cd0 = inr (cd0 ++ index_from i0 (map D l)).
Proof.
  induction l as [| c r IH]; intros i0 cd0 Hk H; cbn [LVl map index_from build]; [rewrite app_nil_r; reflexivity |].
  inv H. destruct H2 as [Hw R]. cbn [app].
  assert (~ In (KInt i0) (map fst cd0)) as Hn.
  { intros F. rewrite Forall_forall in Hk. destruct (Hk _ F) as (j & E & Hlt). inv E. lia. }
  rewrite build_app, (child_build c (KInt i0) cd0 Hn Hw R). rewrite IH; auto.
  - rewrite <- app_assoc. reflexivity.
  - rewrite map_app. cbn [map fst]. apply Forall_app. split.
    + eapply Forall_impl; [| exact Hk]. intros a (j & E & Hlt). exists j. split; [assumption | lia].
    + constructor; [| constructor]. exists i0. split; [reflexivity | lia].
Qed.

Theorem rebuilds_all : forall v, rebuilds v.
Proof.
  apply pv_ind'.
  - intros _ H. discriminate.
  - intros z _ H. discriminate.
  - intros s _ H. discriminate.
  - intros l IH Hw Hl. destruct l as [| c r]; [discriminate |].
    inv Hw. eexists. split; [reflexivity |]. rewrite LV_list by discriminate.
    rewrite (LVl_build (c :: r) 0 []); [reflexivity | constructor |].
    rewrite Forall_forall in *. intros x Hx. split; [apply H0 | apply IH]; assumption.
  - intros kvs IH Hw Hl. destruct kvs as [| kv r]; [discriminate |].
    inv Hw. eexists. split; [reflexivity |]. rewrite LV_dict by discriminate.
    rewrite (LVd_build (kv :: r) []); [reflexivity | exact H0 |].
    rewrite Forall_forall in *. intros x Hx. split; [apply H1 | apply IH]; assumption.
Qed.

(* ---- part 4: the final listify pass turns the int-keyed dicts that stand for lists back into lists ------------------------ *)
(* the dicts canonicalize would turn into a list: non-empty, all keys ints, and the keys are exactly 0..n-1 *)
Definition listable (kvs : list (key * pv)) : bool :=
  match kvs with
  | [] => false
  | _ =>
      match int_keys kvs with
      | None => false
      | Some zs =>
          let s := sort_by_key zs in
          let mn := match s with (z, _) :: _ => z | [] => 0 end in
          let mx := match rev s with (z, _) :: _ => z | [] => 0 end in
          (mn =? 0) && (mx =? Z.of_nat (length kvs) - 1)
      end
  end.

Lemma try_listify_keep : forall kvs, listable kvs = false -> try_listify false kvs = PDict kvs.
Proof.
  intros kvs H. unfold try_listify, listable in *. destruct kvs as [| kv r]; [reflexivity |].
  destruct (int_keys (kv :: r)); [| reflexivity]. cbv zeta in H. cbn [orb]. rewrite H. reflexivity.
Qed.

Lemma listable_needs_int_keys : forall kvs, listable kvs = true -> Forall (fun kv => exists z, fst kv = KInt z) kvs.
Proof.
  intros kvs H. unfold listable in H. destruct kvs as [| kv r]; [discriminate |].
  destruct (int_keys (kv :: r)) eqn:E; [| discriminate]. clear H. revert l E.
  induction (kv :: r) as [| [k v] t IH]; intros l E; [constructor |].
  cbn [int_keys] in E. destruct k; [discriminate |]. destruct (int_keys t) eqn:Et; [| discriminate].
  constructor; [cbn; eauto | eapply IH; reflexivity].
Qed.

Fixpoint zindex (i : Z) (l : list pv) : list (Z * pv) :=
  match l with [] => [] | x :: r => (i, x) :: zindex (i + 1) r end.

Lemma int_keys_index : forall l i, int_keys (index_from i l) = Some (zindex i l).
Proof. induction l as [| x r IH]; intros i; cbn; [reflexivity |]. rewrite IH. reflexivity. Qed.

Lemma sort_zindex : forall l i, sort_by_key (zindex i l) = zindex i l.
Proof.
  induction l as [| x r IH]; intros i; [reflexivity |].
  cbn [zindex]. unfold sort_by_key in *. cbn [fold_right fst snd]. rewrite IH.
  destruct r as [| y r']; [reflexivity |]. cbn [zindex insert_sorted].
  replace (i <=? i + 1) with true by (symmetry; apply Z.leb_le; lia). reflexivity.
Qed.

Lemma map_snd_zindex : forall l i, map snd (zindex i l) = l.
Proof. induction l as [| x r IH]; intros i; cbn; [reflexivity |]. rewrite IH. reflexivity. Qed.

Lemma length_index_from : forall l i, length (index_from i l) = length l.
Proof. induction l as [| x r IH]; intros i; cbn; [reflexivity |]. rewrite IH. reflexivity. Qed.

Lemma last_zindex : forall l i, l <> [] ->
  match rev (zindex i l) with (z, _) :: _ => z | [] => 0 end = i + Z.of_nat (length l) - 1.
Proof.
  induction l as [| x r IH]; intros i H; [congruence |].
  destruct r as [| y r'].
  - cbn. lia.
  - cbn [zindex rev]. specialize (IH (i + 1) ltac:(discriminate)). cbn [zindex rev] in IH.
    destruct (rev (zindex (i + 1 + 1) r') ++ [(i + 1, y)]) as [| [z w] t] eqn:E.
    + apply app_eq_nil in E as [_ E]. discriminate.
    + cbn [app]. rewrite IH. cbn [length]. lia.
Qed.

Lemma try_listify_index : forall l, l <> [] -> try_listify false (index_from 0 l) = PList l.
Proof.
  intros l H. unfold try_listify. destruct l as [| x r]; [congruence |].
  cbn [index_from]. change ((KInt 0, x) :: index_from (0 + 1) r) with (index_from 0 (x :: r)).
  rewrite int_keys_index, sort_zindex. cbn [orb].
  rewrite (last_zindex (x :: r) 0 H), length_index_from. cbn [zindex].
  replace (0 =? 0) with true by reflexivity.
  replace (0 + Z.of_nat (length (x :: r)) - 1 =? Z.of_nat (length (x :: r)) - 1) with true by (symmetry; apply Z.eqb_eq; lia).
  cbn [andb]. change ((0, x) :: zindex (0 + 1) r) with (zindex 0 (x :: r)). rewrite map_snd_zindex. reflexivity.
Qed.

Lemma map_index_from : forall (f : pv -> pv) l i,
  map (fun kv => (fst kv, f (snd kv))) (index_from i l) = index_from i (map f l).
Proof. induction l as [| x r IH]; intros i; cbn; [reflexivity |]. rewrite IH. reflexivity. Qed.

(* the values of the theorem: distinct admissible keys, and no dict that canonicalize would take for a list *)
Inductive flat_ok : pv -> Prop :=
| fo_none : flat_ok PNone
| fo_int : forall z, flat_ok (PInt z)
| fo_str : forall s, flat_ok (PStr s)
| fo_list : forall l, Forall flat_ok l -> flat_ok (PList l)
| fo_dict : forall kvs, NoDup (map fst kvs) -> Forall (fun kv => key_ok (fst kv)) kvs -> listable kvs = false ->
    Forall (fun kv => flat_ok (snd kv)) kvs -> flat_ok (PDict kvs).

Lemma flat_ok_wfv : forall v, flat_ok v -> wfv v.
Proof.
  apply (pv_ind' (fun v => flat_ok v -> wfv v)); intros; try constructor.
  - inv H0. rewrite Forall_forall in *. auto.
  - inv H0. assumption.
  - inv H0. rewrite Forall_forall in *. auto.
Qed.

Lemma listify_D : forall v, flat_ok v -> listify false (D v) = v.
Proof.
  apply (pv_ind' (fun v => flat_ok v -> listify false (D v) = v)); try reflexivity.
  - intros l IH H. inv H. destruct l as [| c r]; [reflexivity |].
    cbn [D]. cbn [listify]. rewrite map_index_from, map_map.
    replace (map (fun x => listify false (D x)) (c :: r)) with (c :: r).
    + apply try_listify_index. discriminate.
    + symmetry. rewrite <- (map_id (c :: r)) at 2. apply map_ext_in. intros a Ha.
      rewrite Forall_forall in *. auto.
  - intros kvs IH H. inv H. cbn [D listify]. rewrite map_map. cbn [fst snd].
    replace (map (fun x => (fst x, listify false (D (snd x)))) kvs) with kvs.
    + apply try_listify_keep. assumption.
    + symmetry. rewrite <- (map_id kvs) at 2. apply map_ext_in. intros [k c] Ha. cbn [fst snd].
      rewrite Forall_forall in *. f_equal. apply (IH (k, c) Ha). apply (H4 (k, c) Ha).
Qed.

Lemma at_path_keys_ok : forall v p x, flat_ok v -> at_path v p x -> Forall key_ok p.
Proof.
  intros v p x Hf H. induction H; [constructor | |].
  - inv Hf. rewrite Forall_forall in H3, H5. constructor; [apply (H3 (k, c) H) | apply IHat_path; apply (H5 (k, c) H)].
  - inv Hf. rewrite Forall_forall in H2. constructor; [reflexivity | apply IHat_path; apply H2; eapply nth_error_In; eauto].
Qed.

Lemma NoDup_map_fst_filter : forall (f : list key * pv -> bool) l, NoDup (map fst l) -> NoDup (map fst (filter f l)).
Proof.
  induction l as [| a r IH]; cbn; intros H; [constructor |]. inv H.
  destruct (f a); cbn; auto. constructor; auto. intros F. apply H2.
  apply in_map_iff in F as (b & E & Hb). apply filter_In in Hb as [Hb _]. rewrite <- E. apply in_map. assumption.
Qed.

Lemma NoDup_map_inj_on : forall (A B : Type) (g : A -> B) (l : list A),
  (forall a b, In a l -> In b l -> g a = g b -> a = b) -> NoDup l -> NoDup (map g l).
Proof.
  induction l as [| a r IH]; cbn; intros Hinj H; [constructor |]. inv H. constructor.
  - intros F. apply in_map_iff in F as (b & E & Hb). assert (b = a) by (apply Hinj; auto). subst. contradiction.
  - apply IH; auto.
Qed.

Theorem canon_flatten : forall v, flat_ok v -> canon true (flatten false v) = inr v.
Proof.
  intros v Hf. destruct (is_leaf v) eqn:L.
  - unfold flatten. rewrite L. apply canon_leaf. assumption.
  - pose proof (flat_ok_wfv v Hf) as Hw.
    assert (forall px, In px (LV v []) -> Forall key_ok (fst px)) as Hkeys.
    { intros [p x] Hin. unfold LV in Hin. apply filter_In in Hin as [Hin _].
      apply nodes_iff in Hin as (s & -> & Hat). cbn [fst app]. eapply at_path_keys_ok; eauto. }
    assert (Forall leaf_entry_ok (LV v [])) as Hent.
    { apply Forall_forall. intros px Hin. split; [auto |]. split.
      - pose proof (LV_paths_nonempty v L) as Hne. rewrite Forall_forall in Hne. auto.
      - unfold LV in Hin. apply filter_In in Hin as [_ Hl]. exact Hl. }
    rewrite flatten_nonleaf by assumption.
    rewrite flat_fold_map.
    + cbn [app]. rewrite canon_dict_eq, (canon_go_build true _ [] Hent).
      destruct (rebuilds_all v Hw L) as (kd & HD & HB). rewrite HB. cbn [negb]. rewrite <- HD.
      rewrite listify_D by assumption. reflexivity.
    + apply LV_paths_nonempty. assumption.
    + cbn [map app]. rewrite <- (map_map fst (fun p => KStr (format p))).
      apply NoDup_map_inj_on.
      * intros a b Ha Hb E. inv E.
        apply in_map_iff in Ha as (pa & <- & Ha). apply in_map_iff in Hb as (pb & Eb & Hb). subst b.
        apply format_injective; auto.
      * apply NoDup_map_fst_filter. apply nodes_nodup. assumption.
Qed.

(* non-vacuity: a value with lists in dicts in lists, a key with a delimiter, a digit-only key, an int key, empty containers *)
Definition example_value : pv :=
  PDict [ (KStr [97%N], PList [PDict [(KStr [99%N], PList [PInt 1; PInt 2])]; PDict []; PList [PNone]]);
          (KStr [98%N; 46%N; 99%N], PStr [120%N]);
          (KInt 0, PNone);
          (KStr [48%N], PList []);
          (KInt (-3), PDict [(KInt 1, PInt 7)]) ].

Example example_flat_ok : flat_ok example_value.
Proof.
  unfold example_value.
  repeat (first [ apply fo_none | apply fo_int | apply fo_str | apply fo_list | apply fo_dict
                | apply Forall_nil | apply Forall_cons | reflexivity
                | (apply NoDup_cons; [cbn; intuition discriminate |]) | apply NoDup_nil ]).
Qed.

Example example_round_trip : canon true (flatten false example_value) = inr example_value.
Proof. vm_compute. reflexivity. Qed.

(* and the documented exception: a dict whose keys are 0..n-1 comes back as a list *)
Example listable_dict_becomes_list :
  canon true (flatten false (PDict [(KStr [97%N], PDict [(KInt 1, PInt 5); (KInt 0, PInt 6)])])) =
  inr (PDict [(KStr [97%N], PList [PInt 6; PInt 5])]).
Proof. vm_compute. reflexivity. Qed.

(* ---- the default flatten_complex_keys=True gives the same dict when no string key has a delimiter --------------------------- *)
Definition simple_key (k : key) : Prop := match k with KStr s => has_special s = false | KInt _ => True end.

Lemma fmt_go_simple : forall ks first, Forall simple_key ks -> fmt_go false first ks = fmt_go true first ks.
Proof.
  induction ks as [| k r IH]; intros first H; [reflexivity |]. inv H. cbn [fmt_go]. rewrite IH by assumption. f_equal.
  destruct k as [s | z]; [| reflexivity]. cbn [fmt_key simple_key] in *. rewrite H2. reflexivity.
Qed.

Definition flat_step_b (fck : bool) (dest : list (key * pv)) (px : list key * pv) : list (key * pv) :=
  match fst px with [] => dest | _ => dset (KStr (fmt_go (negb fck) true (fst px))) (snd px) dest end.

Lemma flatten_fold_b : forall fck lg dest,
  fold_left (fun dest e =>
               match e with
               | EPost (k :: p) x => if is_leaf x then dset (KStr (fmt_go (negb fck) true (k :: p))) x dest else dest
               | _ => dest
               end) lg dest =
  fold_left (flat_step_b fck) (leaf_posts lg) dest.
Proof.
  intros fck. induction lg as [| e r IH]; intros dest; [reflexivity |].
  cbn [fold_left]. rewrite IH. destruct e as [p x | p x]; [reflexivity |].
  cbn [leaf_posts flat_map]. fold (leaf_posts r). destruct p as [| k p]; destruct (is_leaf x); reflexivity.
Qed.

Lemma flatten_nonleaf_b : forall fck v, is_leaf v = false ->
  flatten fck v = PDict (fold_left (flat_step_b fck) (LV v []) []).
Proof.
  intros fck v H. unfold flatten. rewrite H.
  destruct (trav_leaves v []) as [_ B]. fold TT.
  destruct (trav TT TT v []) as [lg ok]. cbn [fst] in B. rewrite flatten_fold_b, B. reflexivity.
Qed.

Inductive simple_keys : pv -> Prop :=
| sk_none : simple_keys PNone | sk_int : forall z, simple_keys (PInt z) | sk_str : forall s, simple_keys (PStr s)
| sk_list : forall l, Forall simple_keys l -> simple_keys (PList l)
| sk_dict : forall kvs, Forall (fun kv => simple_key (fst kv) /\ simple_keys (snd kv)) kvs -> simple_keys (PDict kvs).

Lemma at_path_simple : forall v p x, simple_keys v -> at_path v p x -> Forall simple_key p.
Proof.
  intros v p x Hs H. induction H; [constructor | |].
  - inv Hs. rewrite Forall_forall in H2. destruct (H2 (k, c) H) as [A B]. constructor; auto.
  - inv Hs. rewrite Forall_forall in H2. constructor; [exact I | apply IHat_path; apply H2; eapply nth_error_In; eauto].
Qed.

Lemma fold_left_ext_in : forall (A B : Type) (f g : A -> B -> A) (l : list B) (a : A),
  (forall a b, In b l -> f a b = g a b) -> fold_left f l a = fold_left g l a.
Proof.
  induction l as [| b r IH]; intros a H; [reflexivity |]. cbn [fold_left]. rewrite (H a b (or_introl eq_refl)).
  apply IH. intros; apply H; right; assumption.
Qed.

Theorem flatten_default_flag : forall v, simple_keys v -> flatten true v = flatten false v.
Proof.
  intros v Hs. destruct (is_leaf v) eqn:L; [unfold flatten; rewrite L; reflexivity |].
  rewrite !flatten_nonleaf_b by assumption. f_equal. apply fold_left_ext_in.
  intros a [p x] Hin. unfold flat_step_b. cbn [fst snd]. destruct p as [| k p]; [reflexivity |].
  cbn [negb]. rewrite fmt_go_simple; [reflexivity |].
  unfold LV in Hin. apply filter_In in Hin as [Hin _]. apply nodes_iff in Hin as (s & E & Hat). cbn [app] in E. subst s.
  eapply at_path_simple; eauto.
Qed.

Corollary canon_flatten_default : forall v, flat_ok v -> simple_keys v -> canon true (flatten true v) = inr v.
Proof. intros v H1 H2. rewrite flatten_default_flag by assumption. apply canon_flatten. assumption. Qed.

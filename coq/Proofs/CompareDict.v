(* CompareDict.v — association lists with unique keys: lookup, the canonical key sort, and the fact
   that "same key set and equivalent values under the same key" is the same as "the key-sorted entry
   lists are equivalent position by position". *)
From PG Require Import Common.Tactics Common.Tr Gen.TypeOrder Model.Compare Proofs.CompareOrder.
From Coq Require Import Sorting.Sorted.

Section Assoc.
Variable t : ranks.
Variable A : Type.
Implicit Types l s : list (key * A).

Lemma lookup_In k l v : lookup k l = Some v -> In (k, v) l.
Proof.
  induction l as [|[k' v'] r IH]; simpl; try discriminate.
  destruct (key_eqb k k') eqn:E.
  - apply key_eqb_eq in E. intros H; inv H. auto.
  - auto.
Qed.
Lemma has_key_In k l : has_key k l = true <-> exists v, In (k, v) l.
Proof.
  unfold has_key. split.
  - destruct (lookup k l) eqn:E; try discriminate. intros _. eexists; eapply lookup_In; eauto.
  - intros [v H]. induction l as [|[k' v'] r IH]; simpl in *; [tauto|].
    destruct (key_eqb k k') eqn:E; auto. destruct H as [H|H]; auto.
    inv H. assert (key_eqb k k = true) by (apply key_eqb_eq; auto). congruence.
Qed.
Lemma has_key_false k l : has_key k l = false -> forall q, In q l -> fst q <> k.
Proof.
  intros H [k' v] I E. simpl in E. subst.
  assert (has_key k l = true) by (apply has_key_In; eauto). congruence.
Qed.
Lemma In_lookup k v l : nodup_keys l = true -> In (k, v) l -> lookup k l = Some v.
Proof.
  induction l as [|[k' v'] r IH]; simpl; [tauto|].
  intros H [I|I]; apply andb_prop in H; destruct H as [H1 H2].
  - inv I. assert (key_eqb k k = true) by (apply key_eqb_eq; auto). rewrite H. auto.
  - destruct (key_eqb k k') eqn:E; auto.
    apply key_eqb_eq in E. subst. apply negb_true_iff in H1.
    exfalso. eapply has_key_false in H1; eauto. apply H1; auto.
Qed.

Lemma In_ins x kv l : In x (ins_ent t kv l) <-> x = kv \/ In x l.
Proof.
  induction l as [|q r IH]; simpl.
  - intuition.
  - destruct (is_lt (key_cmp t (fst kv) (fst q))); simpl; rewrite ?IH; intuition.
Qed.
Lemma In_sort x l : In x (sort_ents t l) <-> In x l.
Proof.
  induction l as [|q r IH]; simpl; [tauto|].
  change (fold_right (ins_ent t) [] r) with (sort_ents t r). rewrite In_ins, IH. intuition.
Qed.
Lemma length_ins kv l : length (ins_ent t kv l) = S (length l).
Proof. induction l as [|q r IH]; simpl; auto. destruct (is_lt _); simpl; auto. Qed.
Lemma length_sort l : length (sort_ents t l) = length l.
Proof.
  induction l as [|q r IH]; simpl; auto.
  change (fold_right (ins_ent t) [] r) with (sort_ents t r). rewrite length_ins, IH. auto.
Qed.

Definition klt (p q : key * A) : Prop := key_cmp t (fst p) (fst q) = Lt.
Definition ksorted l : Prop := StronglySorted klt l.

Lemma klt_trans p q r : klt p q -> klt q r -> klt p r.
Proof. unfold klt. intros H1 H2. exact (trans_ok_lt _ _ _ (key_cmp_trans t (fst p) (fst q) (fst r)) H1 H2). Qed.
Lemma klt_irrefl p : ~ klt p p.
Proof. unfold klt. rewrite key_cmp_refl. discriminate. Qed.

Lemma ins_sorted kv l :
  ksorted l -> (forall q, In q l -> fst q <> fst kv) -> ksorted (ins_ent t kv l).
Proof.
  induction 1 as [|q r Hs IH Hq]; intros ND; simpl.
  - constructor; constructor.
  - destruct (key_cmp t (fst kv) (fst q)) eqn:C; simpl.
    + apply key_cmp_eq in C. exfalso. apply (ND q); [left; reflexivity | symmetry; exact C].
    + constructor.
      * constructor; auto.
      * constructor; [exact C|]. rewrite Forall_forall in *. intros x I.
        apply (klt_trans kv q x); [exact C | apply Hq; auto].
    + constructor.
      * apply IH. intros; apply ND; simpl; auto.
      * rewrite Forall_forall in *. intros x I. apply In_ins in I. destruct I as [->|I]; auto.
        unfold klt. rewrite key_cmp_antisym, C. reflexivity.
Qed.
Lemma sort_sorted l : nodup_keys l = true -> ksorted (sort_ents t l).
Proof.
  induction l as [|[k v] r IH]; simpl; intros H.
  - constructor.
  - apply andb_prop in H. destruct H as [H1 H2]. apply negb_true_iff in H1.
    change (fold_right (ins_ent t) [] r) with (sort_ents t r).
    apply ins_sorted.
    + apply IH; exact H2.
    + intros q I. apply (proj1 (In_sort q r)) in I. simpl. eapply has_key_false; eauto.
Qed.
End Assoc.

(* sorting looks at keys only *)
Lemma ins_map t {A B} (h : A -> B) (kv : key * A) l :
  ins_ent t (fst kv, h (snd kv)) (map (fun p => (fst p, h (snd p))) l)
  = map (fun p => (fst p, h (snd p))) (ins_ent t kv l).
Proof.
  induction l as [|q r IH]; simpl; auto.
  destruct (is_lt (key_cmp t (fst kv) (fst q))); simpl; auto. rewrite IH. auto.
Qed.
Lemma sort_map t {A B} (h : A -> B) (l : list (key * A)) :
  sort_ents t (map (fun p => (fst p, h (snd p))) l) = map (fun p => (fst p, h (snd p))) (sort_ents t l).
Proof.
  induction l as [|q r IH]; simpl; auto.
  change (fold_right (ins_ent t) [] r) with (sort_ents t r).
  change (fold_right (ins_ent t) [] (map (fun p => (fst p, h (snd p))) r)) with (sort_ents t (map (fun p => (fst p, h (snd p))) r)).
  rewrite IH. apply (ins_map t h q).
Qed.

(* two key-sorted lists over the same keys with related values are related position by position *)
Section Match.
Variable t : ranks.
Variables A B : Type.
Variable R : A -> B -> Prop.

Definition covers (sa : list (key * A)) (sb : list (key * B)) : Prop :=
  (forall k v, In (k, v) sa -> exists w, In (k, w) sb /\ R v w) /\
  (forall k w, In (k, w) sb -> exists v, In (k, v) sa).

Lemma sorted_match sa : forall sb,
  ksorted t A sa -> ksorted t B sb -> covers sa sb ->
  Forall2 (fun p q => fst p = fst q /\ R (snd p) (snd q)) sa sb.
Proof.
  induction sa as [|[k v] sa IH]; intros [|[k' w'] sb] Sa Sb [C1 C2].
  - constructor.
  - destruct (C2 k' w') as [x []]; simpl; auto.
  - destruct (C1 k v) as [x [[] _]]; simpl; auto.
  - inv Sa. inv Sb. rewrite Forall_forall in *.
    assert (K : k = k').
    { destruct (C1 k v) as [w [I _]]; simpl; auto. destruct I as [I|I]; [congruence|].
      destruct (C2 k' w') as [x I']; simpl; auto. destruct I' as [I'|I']; [congruence|].
      apply H4 in I. apply H2 in I'. unfold klt in *. simpl in *.
      rewrite key_cmp_antisym, I' in I. discriminate. }
    subst k'. constructor.
    + simpl. split; auto. destruct (C1 k v) as [w [I Rw]]; simpl; auto.
      destruct I as [I|I]; [congruence|]. apply H4 in I. exfalso. unfold klt in I; simpl in I; rewrite key_cmp_refl in I; discriminate I.
    + apply IH; auto. split.
      * intros j x I. destruct (C1 j x) as [w [I' Rw]]; simpl; auto. destruct I' as [I'|I']; eauto.
        inv I'. apply H2 in I. exfalso. unfold klt in I; simpl in I; rewrite key_cmp_refl in I; discriminate I.
      * intros j w I. destruct (C2 j w) as [x I']; simpl; auto. destruct I' as [I'|I']; eauto.
        inv I'. apply H4 in I. exfalso. unfold klt in I; simpl in I; rewrite key_cmp_refl in I; discriminate I.
Qed.
End Match.

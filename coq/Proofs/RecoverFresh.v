(* RecoverFresh.v — the history a backend keeps when it stores each DNA at proposal time and the reward when it
   arrives (no feedback metadata on the DNAs) always satisfies the hypothesis of recover_from_stored_proposals:
   every generator hands out DNAs without a feedback sequence number, and feedback either leaves the DNA alone
   or puts sequence number and fitness on it. *)
From PG Require Import Common.Tactics Model.Recover Proofs.RecoverBase Proofs.RecoverEvo Proofs.RecoverDedup Proofs.RecoverMain.

(* states reachable by any sequence of propose (whatever its outcome) and feedback calls *)
Inductive RS (g : gen) : st g -> Prop :=
| RS_init : RS g (init g)
| RS_prop : forall s o s', RS g s -> propose g s = (o, s') -> RS g s'
| RS_fb : forall s d r d' s', RS g s -> feedback g s d r = (d', s') -> RS g s'.

Definition fresh_prop (g : gen) : Prop :=
  forall s, RS g s -> forall d s', propose g s = (Ok d, s') -> dfsn d = None.

(* feedback returns the DNA itself, or the DNA with the feedback metadata set *)
Definition fb_form (g : gen) : Prop :=
  forall s d r, fst (feedback g s d r) = d \/ exists q, fst (feedback g s d r) = set_fed d q r.

Lemma sweeping_fresh : forall m, fresh_prop (Sweeping m).
Proof.
  intros m s _ d s' H. simpl in H. unfold sw_propose in H.
  destruct (match sw_last s with Some i => (i + 1)%Z | None => 0%Z end <? m)%Z; inv H. reflexivity.
Qed.
Lemma random_fresh : forall sd draw, fresh_prop (RandomGen sd draw).
Proof. intros sd draw s _ d s' H. simpl in H. unfold rd_propose in H. inv H. reflexivity. Qed.

Section DedupFresh.
  Variable g : gen.
  Variable m : Z.
  Variable hm auto maxdup maxatt : nat.
  Notation D := (Deduping g m hm auto maxdup maxatt).

  Lemma dd_loop_RS : forall fuel c i att o i', RS g i ->
    dd_loop g m hm auto maxdup fuel c i att = (o, i') -> RS g i'.
  Proof.
    induction fuel; intros c i att o i' Hi H; simpl in H; [inv H; assumption|].
    destruct (propose g i) as [o1 i1] eqn:Ep.
    assert (RS g i1) as H1 by (eapply RS_prop; eauto).
    destruct o1; try (inv H; assumption).
    destruct (length (cache_get c (hash_of m hm d)) <? maxdup); [inv H; assumption|].
    destruct (auto_on g auto).
    - destruct (auto_apply auto (cache_get c (hash_of m hm d))); inv H; assumption.
    - eapply IHfuel; eauto.
  Qed.

  Lemma dd_loop_fresh : fresh_prop g -> forall fuel c i att d i', RS g i ->
    dd_loop g m hm auto maxdup fuel c i att = (Ok d, i') -> dfsn d = None.
  Proof.
    intros Hf. induction fuel; intros c i att d i' Hi H; simpl in H; [discriminate|].
    destruct (propose g i) as [o1 i1] eqn:Ep.
    assert (RS g i1) as H1 by (eapply RS_prop; eauto).
    destruct o1 as [d1| |]; try discriminate.
    pose proof (Hf _ Hi _ _ Ep) as F1.
    destruct (length (cache_get c (hash_of m hm d1)) <? maxdup); [inv H; simpl; assumption|].
    destruct (auto_on g auto).
    - destruct (auto_apply auto (cache_get c (hash_of m hm d1))); inv H. simpl. assumption.
    - eapply IHfuel; eauto.
  Qed.

  Lemma dedup_RS_inner : forall s, RS D s -> RS g (dd_in g s).
  Proof.
    induction 1.
    - simpl. constructor.
    - simpl in H0. unfold dd_propose in H0.
      destruct (dd_loop g m hm auto maxdup maxatt (dd_cache g s) (dd_in g s) 0) as [o1 i1] eqn:El.
      pose proof (dd_loop_RS _ _ _ _ _ _ IHRS El) as H1.
      destruct o1; inv H0; simpl; assumption.
    - simpl in H0. unfold dd_feedback in H0. destruct (needs_fb g).
      + destruct (feedback g (dd_in g s) d r) as [d1 i1] eqn:Ef. inv H0. simpl. eapply RS_fb; eauto.
      + inv H0. simpl. assumption.
  Qed.

  Lemma dedup_fresh : fresh_prop g -> fresh_prop D.
  Proof.
    intros Hf s Hs d s' H. simpl in H. unfold dd_propose in H.
    destruct (dd_loop g m hm auto maxdup maxatt (dd_cache g s) (dd_in g s) 0) as [o1 i1] eqn:El.
    destruct o1; inv H. eapply dd_loop_fresh; eauto using dedup_RS_inner.
  Qed.

  Lemma dedup_fb_form : fb_form g -> fb_form D.
  Proof.
    intros Hf s d r. simpl. unfold dd_feedback. destruct (needs_fb g); [|left; reflexivity].
    specialize (Hf (dd_in g s) d r). destruct (feedback g (dd_in g s) d r). simpl in *. assumption.
  Qed.
End DedupFresh.

Section EvoFresh.
  Variable gi : gen.
  Variable size : option nat.
  Variable G : Type.
  Variable g0 : G.
  Variable repro : list dna -> G -> Z -> nat -> list Z * G.
  Variable updf : list dna -> G -> nat -> list dna * G.
  Variable gobs : G -> list Z.
  Notation E := (Evolution gi size G g0 repro updf gobs).

  Definition ev_fresh (s : ev_st gi G) : Prop :=
    RS gi (ev_in _ _ s) /\ Forall (fun d => dfsn d = None) (ev_pending _ _ s).

  Lemma number_children_fresh : forall vals pid gid, Forall (fun d => dfsn d = None) (number_children vals pid gid).
  Proof. induction vals; intros; simpl; constructor; auto. Qed.

  Lemma pop_front_fresh : forall s o s', ev_fresh s -> ev_pop_front gi G s = (o, s') ->
    ev_fresh s' /\ (forall d, o = Ok d -> dfsn d = None).
  Proof.
    intros s o s' [Hi Hp] H. unfold ev_pop_front in H. destruct (ev_pending _ _ s) eqn:Ep; inv H.
    - split; [split; [assumption | rewrite Ep; constructor]|]. intros; discriminate.
    - inv Hp. split; [split; simpl; assumption|]. intros d0 E. inv E. assumption.
  Qed.

  Lemma do_evolve_fresh : forall s o s', ev_fresh s -> ev_do_evolve gi G repro s = (o, s') ->
    ev_fresh s' /\ (forall d, o = Ok d -> dfsn d = None).
  Proof.
    intros s o s' [Hi Hp] H. unfold ev_do_evolve in H.
    destruct (repro (ev_pop _ _ s) (ev_g _ _ s) (ev_ngen _ _ s) (ev_np _ _ s)) as [vals g'].
    pose proof (number_children_fresh vals (Z.of_nat (ev_np _ _ s) + 1) (ev_ngen _ _ s + 1)) as Hc.
    destruct (number_children vals (Z.of_nat (ev_np _ _ s) + 1) (ev_ngen _ _ s + 1)) eqn:En.
    - inv H. split; [split; simpl; assumption|]. intros; discriminate.
    - eapply pop_front_fresh; [|exact H]. split; simpl; [assumption|]. apply Forall_app. split; assumption.
  Qed.

  Lemma evo_step_fresh : fresh_prop gi -> forall s o s', ev_fresh s -> ev_propose gi G repro s = (o, s') ->
    ev_fresh s' /\ (forall d, o = Ok d -> dfsn d = None).
  Proof.
    intros Hf s o s' [Hi Hp] H. unfold ev_propose in H.
    destruct (ev_pending _ _ s) eqn:Ep.
    - destruct (ev_initialized _ _ s).
      + eapply do_evolve_fresh; [|exact H]. split; [assumption|]. rewrite Ep. constructor.
      + destruct (propose gi (ev_in _ _ s)) as [o1 i1] eqn:Ei.
        assert (RS gi i1) as H1 by (eapply RS_prop; eauto).
        destruct o1 as [d1| |c].
        * eapply pop_front_fresh; [|exact H]. split; simpl; [assumption|].
          constructor; [|constructor]. simpl. exact (Hf _ Hi _ _ Ei).
        * eapply do_evolve_fresh; [|exact H]. split; simpl; [assumption|constructor].
        * inv H. split; [split; simpl; [assumption|constructor]|]. intros; discriminate.
    - eapply pop_front_fresh; [|exact H]. split; [assumption|]. rewrite Ep. assumption.
  Qed.

  Lemma evo_RS_fresh : fresh_prop gi -> forall s, RS E s -> ev_fresh s.
  Proof.
    intros Hf. induction 1.
    - split; simpl; constructor.
    - simpl in H0. exact (proj1 (evo_step_fresh Hf _ _ _ IHRS H0)).
    - destruct IHRS as [Hi Hp]. simpl in H0. unfold ev_feedback in H0.
      destruct (updf _ _ _) as [p g']. inv H0. split; simpl; [|assumption].
      destruct (is_initial (set_fed d (Z.of_nat (ev_nf _ _ s) + 1) r)); [|assumption].
      destruct (feedback gi (ev_in _ _ s) (set_fed d (Z.of_nat (ev_nf _ _ s) + 1) r) r) as [d1 i1] eqn:Ef.
      simpl. eapply RS_fb; eauto.
  Qed.

  Lemma evolution_fresh : fresh_prop gi -> fresh_prop E.
  Proof.
    intros Hf s Hs d s' H. simpl in H.
    exact (proj2 (evo_step_fresh Hf _ _ _ (evo_RS_fresh Hf _ Hs) H) d eq_refl).
  Qed.

  Lemma evolution_fb_form : fb_form E.
  Proof. intros s d r. right. simpl. unfold ev_feedback. destruct (updf _ _ _). simpl. eauto. Qed.
End EvoFresh.

Lemma alg_fresh : forall m a, fresh_prop (denote m a) /\ fb_form (denote m a) /\ meta_pres (denote m a).
Proof.
  induction a as [| sd t | a' IH hm au md ma | i IH sz u t]; simpl.
  - split; [apply sweeping_fresh | split; [intros s d r; left; reflexivity | apply sweeping_meta_pres]].
  - split; [apply random_fresh | split; [intros s d r; left; reflexivity | apply random_meta_pres]].
  - destruct IH as (F & B & M).
    split; [apply dedup_fresh; assumption | split; [apply dedup_fb_form; assumption | apply dedup_meta_pres; assumption]].
  - destruct IH as (F & _ & _).
    destruct u; (split; [apply evolution_fresh; assumption | split; [apply evolution_fb_form | apply evolution_meta_pres]]).
Qed.

(* ---------------------------------------------------------------------------------------------- *)
(* the run together with the proposal-time history (as the model's [sim] builds it) *)
Section Run0.
  Variable g : gen.
  Variable rw : Z -> Z.
  Hypothesis Hfresh : fresh_prop g.
  Hypothesis Hform : fb_form g.
  Hypothesis Hmeta : meta_pres g.

  Definition run0_step (acc : run_st g * list hentry) (e : Z) : run_st g * list hentry :=
    let r' := step g rw (fst acc) e in (r', hist0_step g rw (snd acc) (fst acc) e r').
  Definition run0_events (evs : list Z) : run_st g * list hentry := fold_left run0_step evs (run_init g, []).

  Lemma run0_fst : forall evs, fst (run0_events evs) = run_events g rw evs.
  Proof.
    intros. unfold run0_events, run_events.
    assert (forall acc, fst (fold_left run0_step evs acc) = fold_left (step g rw) evs (fst acc)) as H.
    { induction evs; intros; simpl; [reflexivity|]. rewrite IHevs. reflexivity. }
    rewrite H. reflexivity.
  Qed.

  Lemma run_RS : forall evs, RS g (r_st g (run_events g rw evs)).
  Proof.
    induction evs using rev_ind.
    - unfold run_events. simpl. constructor.
    - rewrite run_events_snoc. set (r := run_events g rw evs) in *. unfold step.
      destruct (negb (r_ok g r)); [assumption|].
      destruct (x =? 0)%Z.
      + destruct (propose g (r_st g r)) as [o s'] eqn:Ep.
        assert (RS g s') by (eapply RS_prop; eauto). destruct o; simpl; assumption.
      + destruct (nth_error (r_hist g r) (r_ptr g r)) as [[d ro]|]; [|assumption].
        destruct (x =? 1)%Z; [|simpl; assumption].
        destruct (feedback g (r_st g r) d (reward_for rw d)) as [d' s'] eqn:Ef. simpl. eapply RS_fb; eauto.
  Qed.

  (* live entry vs stored entry *)
  Definition rel0 (e e0 : hentry) : Prop :=
    hs_key e e0 /\ (snd e = None -> fst e0 = fst e /\ dfsn (fst e) = None).

  Lemma Forall2_set_nth : forall {A B} (R : A -> B -> Prop) l l' n x y, Forall2 R l l' -> R x y ->
    Forall2 R (set_nth n x l) (set_nth n y l').
  Proof.
    intros A B R l l' n x y H. revert n. induction H; intros n Hxy; destruct n; simpl; constructor; auto.
  Qed.

  Lemma Forall2_nth_error : forall {A B} (R : A -> B -> Prop) l l' n x, Forall2 R l l' -> nth_error l n = Some x ->
    exists y, nth_error l' n = Some y /\ R x y.
  Proof.
    intros A B R l l' n x H. revert n. induction H; intros n Hn; destruct n; simpl in *; try discriminate.
    - inv Hn. eauto.
    - eauto.
  Qed.

  Lemma run0_inv : forall evs, r_ok g (run_events g rw evs) = true ->
    Forall2 rel0 (r_hist g (run_events g rw evs)) (snd (run0_events evs)).
  Proof.
    induction evs using rev_ind; intros Hok.
    - unfold run0_events, run_events. simpl. constructor.
    - assert (forall d, (fun a b : dna => a = b) d d) as Prefl by reflexivity.
      unfold run0_events. rewrite fold_left_app. simpl. fold (run0_events evs).
      unfold run0_step. rewrite run0_fst. rewrite run_events_snoc in *.
      set (r := run_events g rw evs) in *. set (h0 := snd (run0_events evs)) in *.
      destruct (r_ok g r) eqn:Hprev; [|rewrite step_not_ok in Hok by assumption; congruence].
      specialize (IHevs eq_refl).
      destruct (run_reach g rw _ Prefl evs Hprev) as (_ & Hp & Hu). fold r in Hp, Hu.
      pose proof (run_RS evs) as HRS. fold r in HRS.
      unfold hist0_step. unfold step in *. rewrite Hprev in *. simpl negb in *. cbv iota in *.
      destruct (x =? 0)%Z eqn:E0.
      + destruct (propose g (r_st g r)) as [o s'] eqn:Ep. destruct o as [d| |]; simpl in Hok; try discriminate.
        cbn [r_hist r_ok]. rewrite nth_error_app2 by lia. rewrite Nat.sub_diag. simpl.
        apply Forall2_app; [assumption|]. constructor; [|constructor].
        split; [repeat split; auto|]. intros _. split; [reflexivity|]. simpl. eapply Hfresh; eauto.
      + destruct (nth_error (r_hist g r) (r_ptr g r)) as [[d ro]|] eqn:En.
        * destruct (Forall2_nth_error _ _ _ _ _ IHevs En) as ([d0 ro0] & En0 & ((Hw & Hk) & Hun)).
          rewrite (skipn_S_nth _ _ _ En) in Hu. inv Hu. simpl in H1. subst ro.
          destruct Hw as [Hs _]. simpl in Hs. subst ro0.
          destruct (Hun eq_refl) as [Hd Hf]. simpl in Hd, Hf. subst d0.
          rewrite En0.
          destruct (x =? 1)%Z.
          -- pose proof (Hform (r_st g r) d (reward_for rw d)) as Hfm.
             destruct (Hmeta (r_st g r) d (reward_for rw d)) as (M1 & M2 & M3).
             destruct (feedback g (r_st g r) d (reward_for rw d)) as [d' s'] eqn:Ef. simpl in *.
             apply Forall2_set_nth; [assumption|].
             split; [|simpl; intros; discriminate].
             repeat split; simpl; auto.
             intros r0 Hr. inv Hr. destruct Hfm as [-> | (q & ->)]; [left; reflexivity|].
             right. split; [assumption|]. exists q. reflexivity.
          -- simpl. assumption.
        * destruct (x =? 1)%Z; assumption.
  Qed.

  Lemma run0_HRk : forall evs, r_ok g (run_events g rw evs) = true ->
    HRk (r_hist g (run_events g rw evs)) (snd (run0_events evs)).
  Proof.
    intros evs Hok. pose proof (run0_inv evs Hok) as H. unfold HRk.
    induction H; constructor; auto. apply H.
  Qed.
End Run0.

(* recovery from the proposal-time history, for every crash point, with no hypothesis left on the history *)
Theorem recover_from_proposal_time_history : forall m a rw evs, recoverable a = true ->
  let g := denote m a in
  let r := run_events g rw evs in
  let h0 := snd (run0_events g rw evs) in
  r_ok g r = true ->
  pview (obs g (recovered g h0)) = pview (obs g (r_st g r)).
Proof.
  intros m a rw evs Hr g r h0 Hok.
  destruct (alg_fresh m a) as (F & B & M).
  apply (recover_from_stored_proposals m a rw evs h0 Hr Hok).
  apply run0_HRk; assumption.
Qed.

(* the reward of the oldest in-flight proposal reached the history, but the process died before feedback():
   recovery from that history reaches the state of the run in which the feedback was delivered *)
Section Undelivered.
  Variable g : gen.
  Variable rw : Z -> Z.
  Hypothesis Hfresh : fresh_prop g.
  Hypothesis Hform : fb_form g.
  Hypothesis Hmeta : meta_pres g.

  Lemma undelivered_HRk : forall evs d ro,
    let r := run_events g rw evs in
    r_ok g r = true ->
    nth_error (r_hist g r) (r_ptr g r) = Some (d, ro) ->
    r_ok g (step g rw r 1) = true /\
    HRk (r_hist g (step g rw r 1)) (set_nth (r_ptr g r) (d, Some (reward_for rw d)) (r_hist g r)).
  Proof.
    intros evs d ro r Hok En.
    assert (forall x, (fun a b : dna => a = b) x x) as Prefl by reflexivity.
    destruct (run_reach g rw _ Prefl evs Hok) as (_ & _ & Hu). fold r in Hu.
    pose proof (run0_inv g rw Hfresh Hform Hmeta evs Hok) as Hinv. fold r in Hinv.
    rewrite (skipn_S_nth _ _ _ En) in Hu. inv Hu. simpl in H1. subst ro.
    destruct (Forall2_nth_error _ _ _ _ _ Hinv En) as (e0 & _ & (_ & Hun)).
    destruct (Hun eq_refl) as [_ Hf]. simpl in Hf.
    unfold step. rewrite Hok. simpl negb. cbv iota. simpl (1 =? 0)%Z. cbv iota. rewrite En. simpl (1 =? 1)%Z. cbv iota.
    pose proof (Hform (r_st g r) d (reward_for rw d)) as Hfm.
    destruct (Hmeta (r_st g r) d (reward_for rw d)) as (M1 & M2 & M3).
    destruct (feedback g (r_st g r) d (reward_for rw d)) as [d' s'] eqn:Ef. simpl in *.
    split; [reflexivity|].
    apply Forall2_set_nth; [apply HRk_refl|].
    repeat split; simpl; auto.
    intros r0 Hr. inv Hr. destruct Hfm as [-> | (q & ->)]; [left; reflexivity|].
    right. split; [assumption|]. exists q. reflexivity.
  Qed.
End Undelivered.

Theorem recover_with_undelivered_reward : forall m a rw evs d ro, recoverable a = true ->
  let g := denote m a in
  let r := run_events g rw evs in
  r_ok g r = true ->
  nth_error (r_hist g r) (r_ptr g r) = Some (d, ro) ->
  pview (obs g (recovered g (set_nth (r_ptr g r) (d, Some (reward_for rw d)) (r_hist g r))))
  = pview (obs g (r_st g (step g rw r 1))).
Proof.
  intros m a rw evs d ro Hr g r Hok En.
  destruct (alg_fresh m a) as (F & B & M).
  destruct (undelivered_HRk g rw F B M evs d ro Hok En) as [Hok' Hk]. fold r in Hok', Hk.
  assert (step g rw r 1 = run_events g rw (evs ++ [1%Z])) as E by (rewrite run_events_snoc; reflexivity).
  rewrite E in *.
  exact (recover_from_stored_proposals m a rw (evs ++ [1%Z]) _ Hr Hok' Hk).
Qed.

(* MemFSPaths.v — the path-string functions of Model/MemFS.v: split, rfind, the /mem prefix. *)
From PG Require Import Common.Tactics Model.Json Model.MemFS Proofs.JsonProofs Proofs.JsonStrProofs.
From Coq Require Import NArith.
Local Open Scope N_scope.

Lemma split_slash_nonnil : forall s, split_slash s <> [].
Proof.
  induction s as [|c s IH]; simpl; [discriminate|].
  destruct (N.eqb c c_slash); [discriminate|]. destruct (split_slash s); [contradiction | discriminate].
Qed.

Lemma split_slash_no_slash : forall t, ~ In c_slash t -> split_slash t = [t].
Proof.
  induction t as [|c t IH]; simpl; intro H; [reflexivity|].
  destruct (N.eqb c c_slash) eqn:E.
  - apply N.eqb_eq in E. exfalso. apply H. left. exact E.
  - rewrite IH; [reflexivity|]. intro Hin. apply H. right. exact Hin.
Qed.

Lemma split_slash_app : forall h t, split_slash (h ++ c_slash :: t) = split_slash h ++ split_slash t.
Proof.
  induction h as [|c h IH]; intro t.
  - simpl. reflexivity.
  - simpl. destruct (N.eqb c c_slash).
    + rewrite IH. reflexivity.
    + rewrite IH. destruct (split_slash h) eqn:E; [exfalso; eapply split_slash_nonnil; eassumption|]. reflexivity.
Qed.

Lemma rsplit_spec : forall s h t, rsplit s = Some (h, t) -> s = h ++ c_slash :: t /\ ~ In c_slash t.
Proof.
  induction s as [|c s IH]; simpl; intros h t H; [discriminate|].
  destruct (rsplit s) as [[h' t']|] eqn:E.
  - inv H. destruct (IH _ _ eq_refl) as [A B]. split; [simpl; congruence | assumption].
  - destruct (N.eqb c c_slash) eqn:Ec; [|discriminate]. inv H. apply N.eqb_eq in Ec. subst c. split; [reflexivity|].
    clear IH. induction t as [|d t IH]; [intros []|].
    simpl in E. destruct (rsplit t) as [[? ?]|] eqn:E2; [discriminate|].
    destruct (N.eqb d c_slash) eqn:Ed; [discriminate|].
    intros [Hd|Hin]; [subst d; discriminate | apply IH; [reflexivity | assumption]].
Qed.

Lemma rsplit_cons_slash : forall r, exists h t, rsplit (c_slash :: r) = Some (h, t).
Proof.
  intro r. simpl. destruct (rsplit r) as [[h t]|]; eexists; eexists; reflexivity.
Qed.

(* a routed path is "/mem" followed by a rest that starts with a slash *)
Lemma routed_shape : forall p, routed p = true -> exists r, p = s_mem ++ c_slash :: r.
Proof.
  intros p H. unfold routed in H. destruct (strip_prefix s_mem_slash p) as [r|] eqn:E; [|discriminate].
  apply strip_prefix_some in E. exists r. subst p. reflexivity.
Qed.

Lemma internal_path_routed : forall r, internal_path (s_mem ++ c_slash :: r) = c_slash :: r.
Proof.
  intro r. unfold internal_path.
  replace (str_eqb (s_mem ++ c_slash :: r) s_mem) with false by reflexivity.
  change (s_mem ++ c_slash :: r) with (s_mem_slash ++ r). rewrite strip_prefix_app. reflexivity.
Qed.

(* the parent string of a routed path: "/mem" followed by nothing or by something starting with a slash *)
Lemma internal_path_parent : forall h', (h' = [] \/ exists x, h' = c_slash :: x) -> internal_path (s_mem ++ h') = h'.
Proof.
  intros h' [E|[x E]]; subst h'.
  - reflexivity.
  - apply internal_path_routed.
Qed.

Lemma prefix_of_slash_start : forall (h' t r : str), c_slash :: r = h' ++ c_slash :: t -> h' = [] \/ exists x, h' = c_slash :: x.
Proof.
  intros h' t r H. destruct h' as [|c x]; [left; reflexivity|]. right. simpl in H. inv H. eexists. reflexivity.
Qed.

Lemma rsplit_routed : forall r h t, rsplit (s_mem ++ c_slash :: r) = Some (h, t) ->
  exists h', h = s_mem ++ h' /\ rsplit (c_slash :: r) = Some (h', t).
Proof.
  intros r h t H. destruct (rsplit_cons_slash r) as [h' [t' E]].
  change (s_mem ++ c_slash :: r) with (47 :: 109 :: 101 :: 109 :: c_slash :: r) in H.
  pose proof E as E0.
  cbn [rsplit] in H. cbn [rsplit] in E. rewrite E in H. simpl in H. inv H. exists h'. split; [reflexivity | exact E0].
Qed.

Definition name_part (t : str) : list str := if nonempty t then [t] else [].

(* _parent_and_name against _locate: the components of path are those of path[:rpos] plus the name *)
Theorem components_rsplit : forall p h t, routed p = true -> rsplit p = Some (h, t) ->
  components p = components h ++ name_part t.
Proof.
  intros p h t Hr Hs. destruct (routed_shape p Hr) as [r E]. subst p.
  destruct (rsplit_routed r h t Hs) as [h' [Eh Es]]. subst h.
  destruct (rsplit_spec _ _ _ Es) as [Ecat Hno].
  unfold components. rewrite internal_path_routed.
  rewrite internal_path_parent by (eapply prefix_of_slash_start; exact Ecat).
  rewrite Ecat. rewrite split_slash_app. rewrite filter_app.
  rewrite (split_slash_no_slash t Hno). unfold name_part. simpl. destruct t; reflexivity.
Qed.

Lemma components_nonempty_parts : forall p, Forall (fun c => c <> []) (components p).
Proof.
  intro p. unfold components. apply Forall_forall. intros x Hx. apply filter_In in Hx. destruct Hx as [_ Hx].
  destruct x; [discriminate | discriminate].
Qed.

(* --- os.path.dirname against path[:rpos] ------------------------------------------------------------------ *)
Lemma rstrip_slash_snoc : forall x, rstrip_slash (x ++ [c_slash]) = rstrip_slash x.
Proof.
  induction x as [|c x IH]; [reflexivity|]. simpl. rewrite IH. reflexivity.
Qed.

Lemma rstrip_slash_decomp : forall x, exists k, x = rstrip_slash x ++ repeat c_slash k.
Proof.
  induction x as [|c x [k IH]]; [exists 0%nat; reflexivity|].
  simpl. destruct (rstrip_slash x) as [|d r'] eqn:E.
  - destruct (N.eqb c c_slash) eqn:Ec.
    + apply N.eqb_eq in Ec. subst c. exists (S k). simpl in *. congruence.
    + exists k. simpl in *. congruence.
  - exists k. simpl in *. congruence.
Qed.

Lemma split_slash_repeat : forall k, split_slash (repeat c_slash k) = repeat [] (S k).
Proof. induction k; [reflexivity|]. simpl. rewrite IHk. reflexivity. Qed.
Lemma filter_nonempty_repeat : forall k, filter nonempty (repeat ([] : str) k) = [].
Proof. induction k; [reflexivity | exact IHk]. Qed.

Lemma parts_app_slashes : forall y k, filter nonempty (split_slash (y ++ repeat c_slash k)) = filter nonempty (split_slash y).
Proof.
  intros y [|k]; [rewrite app_nil_r; reflexivity|].
  simpl. rewrite split_slash_app. rewrite filter_app. rewrite split_slash_repeat. rewrite filter_nonempty_repeat. apply app_nil_r.
Qed.
Lemma parts_rstrip : forall x, filter nonempty (split_slash (rstrip_slash x)) = filter nonempty (split_slash x).
Proof.
  intro x. destruct (rstrip_slash_decomp x) as [k E]. rewrite E at 2. symmetry. apply parts_app_slashes.
Qed.
Lemma parts_all_slashes : forall x, rstrip_slash x = [] -> filter nonempty (split_slash x) = [].
Proof.
  intros x H. destruct (rstrip_slash_decomp x) as [k E]. rewrite H in E. simpl in E. rewrite E.
  rewrite split_slash_repeat. apply filter_nonempty_repeat.
Qed.

Lemma rstrip_mem : forall h', rstrip_slash (s_mem ++ h') = s_mem ++ rstrip_slash h'.
Proof.
  intro h'. unfold s_mem. simpl. destruct (rstrip_slash h'); reflexivity.
Qed.

(* what mk_parent does for a routed path: either mkdirs on the components of path[:rpos], or nothing because
   the parent is the root of the memory file system *)
Theorem dirname_components : forall p h t, routed p = true -> rsplit p = Some (h, t) ->
  dirname p <> [] /\
  ((routed (dirname p) = true /\ components (dirname p) = components h) \/
   (routed (dirname p) = false /\ components h = [])).
Proof.
  intros p h t Hr Hs. destruct (routed_shape p Hr) as [r E]. subst p.
  destruct (rsplit_routed r h t Hs) as [h' [Eh Es]]. subst h.
  destruct (rsplit_spec _ _ _ Es) as [Ecat _].
  pose proof (prefix_of_slash_start h' t r Ecat) as Hh'.
  unfold dirname. rewrite Hs. rewrite rstrip_slash_snoc. rewrite rstrip_mem.
  assert (Hm : forall (y alt : str), match s_mem ++ y with [] => alt | n :: l => n :: l end = s_mem ++ y) by reflexivity.
  rewrite Hm. clear Hm.
  assert (Ecomp : components (s_mem ++ h') = filter nonempty (split_slash h')).
  { unfold components. rewrite internal_path_parent by assumption. reflexivity. }
  destruct (rstrip_slash h') as [|d r'] eqn:Er.
  - (* the parent is "/mem" followed by slashes only *)
    rewrite app_nil_r. split; [discriminate|]. right. split; [reflexivity|].
    rewrite Ecomp. apply parts_all_slashes. exact Er.
  - split; [discriminate|]. left.
    destruct Hh' as [X|[x X]]; [subst h'; discriminate|]. subst h'.
    assert (Ed : d = c_slash).
    { simpl in Er. destruct (rstrip_slash x); [destruct (N.eqb c_slash c_slash); inv Er; reflexivity | inv Er; reflexivity]. }
    subst d. split.
    + reflexivity.
    + rewrite Ecomp.
      unfold components. rewrite internal_path_routed. rewrite <- Er. apply parts_rstrip.
Qed.

(* MemFSPaths.v — the path-string functions of Model/MemFS.v: split, rfind, the /mem prefix. *)
From PG Require Import Common.Tactics Model.Json Model.MemFS Proofs.JsonProofs Proofs.JsonStrProofs.
From Coq Require Import NArith.
Local Open Scope N_scope.

Lemma split_slash_nonnil : forall s, split_slash s <> [].
Proof.
  induction s as [|c s IH]; simpl; [discriminate|].
  destruct (N.eqb c c_slash); [discriminate|]. destruct (split_slash s); [contradiction | discriminate].
Qed.

Lemma split_slash_no_slash : forall t, ~ In c_slash t -> split_slash t = [t].
Proof.
  induction t as [|c t IH]; simpl; intro H; [reflexivity|].
  destruct (N.eqb c c_slash) eqn:E.
  - apply N.eqb_eq in E. exfalso. apply H. left. exact E.
  - rewrite IH; [reflexivity|]. intro Hin. apply H. right. exact Hin.
Qed.

Lemma split_slash_app : forall h t, split_slash (h ++ c_slash :: t) = split_slash h ++ split_slash t.
Proof.
  induction h as [|c h IH]; intro t.
  - simpl. reflexivity.
  - simpl. destruct (N.eqb c c_slash).
    + rewrite IH. reflexivity.
    + rewrite IH. destruct (split_slash h) eqn:E; [exfalso; eapply split_slash_nonnil; eassumption|]. reflexivity.
Qed.

Lemma rsplit_spec : forall s h t, rsplit s = Some (h, t) -> s = h ++ c_slash :: t /\ ~ In c_slash t.
Proof.
  induction s as [|c s IH]; simpl; intros h t H; [discriminate|].
  destruct (rsplit s) as [[h' t']|] eqn:E.
  - inv H. destruct (IH _ _ eq_refl) as [A B]. split; [simpl; congruence | assumption].
  - destruct (N.eqb c c_slash) eqn:Ec; [|discriminate]. inv H. apply N.eqb_eq in Ec. subst c. split; [reflexivity|].
    clear IH. induction t as [|d t IH]; [intros []|].
    simpl in E. destruct (rsplit t) as [[? ?]|] eqn:E2; [discriminate|].
    destruct (N.eqb d c_slash) eqn:Ed; [discriminate|].
    intros [Hd|Hin]; [subst d; discriminate | apply IH; [reflexivity | assumption]].
Qed.

Lemma rsplit_cons_slash : forall r, exists h t, rsplit (c_slash :: r) = Some (h, t).
Proof.
  intro r. simpl. destruct (rsplit r) as [[h t]|]; eexists; eexists; reflexivity.
Qed.

(* a routed path is "/mem" followed by a rest that starts with a slash *)
Lemma routed_shape : forall p, routed p = true -> exists r, p = s_mem ++ c_slash :: r.
Proof.
  intros p H. unfold routed in H. destruct (strip_prefix s_mem_slash p) as [r|] eqn:E; [|discriminate].
  apply strip_prefix_some in E. exists r. subst p. reflexivity.
Qed.

Lemma internal_path_routed : forall r, internal_path (s_mem ++ c_slash :: r) = c_slash :: r.
Proof.
  intro r. unfold internal_path.
  replace (str_eqb (s_mem ++ c_slash :: r) s_mem) with false by reflexivity.
  change (s_mem ++ c_slash :: r) with (s_mem_slash ++ r). rewrite strip_prefix_app. reflexivity.
Qed.

(* the parent string of a routed path: "/mem" followed by nothing or by something starting with a slash *)
Lemma internal_path_parent : forall h', (h' = [] \/ exists x, h' = c_slash :: x) -> internal_path (s_mem ++ h') = h'.
Proof.
  intros h' [E|[x E]]; subst h'.
  - reflexivity.
  - apply internal_path_routed.
Qed.

Lemma prefix_of_slash_start : forall (h' t r : str), c_slash :: r = h' ++ c_slash :: t -> h' = [] \/ exists x, h' = c_slash :: x.
Proof.
  intros h' t r H. destruct h' as [|c x]; [left; reflexivity|]. right. simpl in H. inv H. eexists. reflexivity.
Qed.

Lemma rsplit_routed : forall r h t, rsplit (s_mem ++ c_slash :: r) = Some (h, t) ->
  exists h', h = s_mem ++ h' /\ rsplit (c_slash :: r) = Some (h', t).
Proof.
  intros r h t H. destruct (rsplit_cons_slash r) as [h' [t' E]].
  change (s_mem ++ c_slash :: r) with (47 :: 109 :: 101 :: 109 :: c_slash :: r) in H.
  pose proof E as E0.
  cbn [rsplit] in H. cbn [rsplit] in E. rewrite E in H. simpl in H. inv H. exists h'. split; [reflexivity | exact E0].
Qed.

Definition name_part (t : str) : list str := if nonempty t then [t] else [].

(* _parent_and_name against _locate: the components of path are those of path[:rpos] plus the name *)
Theorem components_rsplit : forall p h t, routed p = true -> rsplit p = Some (h, t) ->
  components p = components h ++ name_part t.
Proof.
  intros p h t Hr Hs. destruct (routed_shape p Hr) as [r E]. subst p.
  destruct (rsplit_routed r h t Hs) as [h' [Eh Es]]. subst h.
  destruct (rsplit_spec _ _ _ Es) as [Ecat Hno].
  unfold components. rewrite internal_path_routed.
  rewrite internal_path_parent by (eapply prefix_of_slash_start; exact Ecat).
  rewrite Ecat. rewrite split_slash_app. rewrite filter_app.
  rewrite (split_slash_no_slash t Hno). unfold name_part. simpl. destruct t; reflexivity.
Qed.

Lemma components_nonempty_parts : forall p, Forall (fun c => c <> []) (components p).
Proof.
  intro p. unfold components. apply Forall_forall. intros x Hx. apply filter_In in Hx. destruct Hx as [_ Hx].
  destruct x; [discriminate | discriminate].
Qed.

(* HierCanon.v — canonicalize / transform / merge on values that are already canonical; _merge_dict_into_list. *)
From PG Require Import Common.Tactics Model.KeyPath Model.Hier Proofs.KeyPathArith Proofs.KeyPathParse
  Proofs.HierTraverse Proofs.HierFlatten Proofs.HierMerge.
Local Open Scope Z_scope.

(* ---- utils.transform with a function that deletes nothing is the identity --------------------------------------------------- *)
Theorem xform_keep_all : forall v path, xform (fun _ _ => false) v path = Some v.
Proof.
  apply (pv_ind' (fun v => forall path, xform (fun _ _ => false) v path = Some v)); try reflexivity.
  - intros l IH path. cbn [xform]. do 2 f_equal. generalize 0.
    induction IH as [| c r Hc _ IHr]; intros i; [reflexivity |]. rewrite Hc, IHr. reflexivity.
  - intros kvs IH path. cbn [xform]. do 2 f_equal.
    induction IH as [| [k c] r Hc _ IHr]; [reflexivity |]. cbn [snd] in Hc. rewrite Hc, IHr. reflexivity.
Qed.

(* a deleted root is MISSING_VALUE; a kept leaf is returned as it is *)
Theorem xform_leaf : forall drop v path, is_leaf v = true -> (forall kvs, v <> PDict kvs) -> (forall l, v <> PList l) ->
  xform drop v path = if drop path v then None else Some v.
Proof. intros drop v path _ Hd Hl. destruct v; try reflexivity; exfalso; [eapply Hl | eapply Hd]; reflexivity. Qed.

(* ---- canonical values: keys are distinct; string keys are non-empty without delimiter; no dict stands for a list ------------- *)
Definition plain_key (k : key) : Prop :=
  match k with KStr s => s <> [] /\ has_special s = false | KInt _ => True end.

Inductive canonical : pv -> Prop :=
| cn_none : canonical PNone | cn_int : forall z, canonical (PInt z) | cn_str : forall s, canonical (PStr s)
| cn_list : forall l, Forall canonical l -> canonical (PList l)
| cn_dict : forall kvs, NoDup (map fst kvs) -> Forall (fun kv => plain_key (fst kv)) kvs -> listable kvs = false ->
    Forall (fun kv => canonical (snd kv)) kvs -> canonical (PDict kvs).

Lemma parse_plain : forall s, s <> [] -> has_special s = false -> parse s = POk [KStr s].
Proof.
  intros s Hne Hs. unfold parse. rewrite <- (app_nil_r s) at 1.
  rewrite (run_plain s [] [] 0 [] (no_special_forall s Hs)). cbn [app parse_go].
  rewrite append_pending. destruct s; [congruence | reflexivity].
Qed.

Lemma key_to_path_plain : forall k, plain_key k -> key_to_path k = inr [k].
Proof. intros [s | z] H; [| reflexivity]. destruct H as [Hne Hs]. cbn [key_to_path]. rewrite parse_plain; auto. Qed.

Lemma listify_canonical : forall v, canonical v -> listify false v = v.
Proof.
  apply (pv_ind' (fun v => canonical v -> listify false v = v)); try reflexivity.
  - intros l IH H. inv H. cbn [listify]. f_equal. rewrite <- (map_id l) at 2. apply map_ext_in. intros a Ha.
    rewrite Forall_forall in *. auto.
  - intros kvs IH H. inv H. cbn [listify].
    replace (map (fun kv => (fst kv, listify false (snd kv))) kvs) with kvs.
    + apply try_listify_keep. assumption.
    + symmetry. rewrite <- (map_id kvs) at 2. apply map_ext_in. intros [k c] Ha. cbn [fst snd]. f_equal.
      rewrite Forall_forall in *. apply (IH (k, c) Ha). apply (H4 (k, c) Ha).
Qed.

(* the loop of canonicalize over entries whose keys are plain, distinct and new *)
Lemma canon_go_plain : forall sp l cd,
  Forall (fun kv => plain_key (fst kv) /\ canon sp (snd kv) = inr (snd kv)) l ->
  NoDup (map fst cd ++ map fst l) ->
  canon_go sp l cd = inr (cd ++ l).
Proof.
  induction l as [| [k x] r IH]; intros cd H Hnd; cbn [canon_go]; [rewrite app_nil_r; reflexivity |].
  inv H. destruct H2 as [Hk Hx]. cbn [fst snd] in *. rewrite (key_to_path_plain k Hk), Hx.
  assert (~ In k (map fst cd)) as Hn.
  { cbn [map fst] in Hnd. apply NoDup_remove_2 in Hnd. intros F. apply Hnd. apply in_or_app. auto. }
  rewrite (dget_notin _ _ Hn), (dset_fresh _ _ _ Hn). rewrite IH; auto.
  - rewrite <- app_assoc. reflexivity.
  - rewrite map_app. cbn [map fst]. rewrite <- app_assoc. exact Hnd.
Qed.

(* canonicalize leaves a canonical value alone (sparse_list_as_dict=True, the default) *)
Theorem canon_canonical : forall v, canonical v -> canon true v = inr v.
Proof.
  apply (pv_ind' (fun v => canonical v -> canon true v = inr v)); try reflexivity.
  - intros l IH H. inv H. cbn [canon]. rewrite Forall_forall in IH, H1.
    induction l as [| c r IHr]; [reflexivity |].
    rewrite (IH c (or_introl eq_refl) (H1 c (or_introl eq_refl))).
    rewrite IHr; [reflexivity | |]; intros; [apply IH | apply H1]; try right; assumption.
  - intros kvs IH H. pose proof H as Hc. inv H. rewrite canon_dict_eq.
    rewrite (canon_go_plain true kvs []).
    + cbn [app negb]. f_equal. apply listify_canonical. assumption.
    + rewrite Forall_forall in *. intros kv Hkv. split; [apply H2; assumption | apply IH; auto].
    + exact H1.
Qed.

(* hence utils.merge of a single canonical value without an int-keyed dict gives it back, and None values are skipped *)
Theorem merge_all_skip_none : forall v r, merge_all (v :: PNone :: r) = merge_all (v :: r).
Proof. intros. reflexivity. Qed.

Theorem merge_all_empty : merge_all [] = inr PNone.
Proof. reflexivity. Qed.

(* ---- _merge_dict_into_list ---------------------------------------------------------------------------------------------------- *)
Fixpoint mil_go (old : Z) (l : list (Z * pv)) (acc : list pv) : herr + pv :=
  match l with
  | [] => inr (PList acc)
  | (z, v) :: r =>
      if z <? old then
        let n := Z.of_nat (length acc) in
        if 0 <=? z then mil_go old r (list_set acc (Z.to_nat z) v)
        else if 0 <=? z + n then mil_go old r (list_set acc (Z.to_nat (z + n)) v)
        else inl HIndexError
      else mil_go old r (acc ++ [v])
  end.

Lemma merge_into_list_eq : forall d s,
  merge_into_list d s =
  match int_keys s with None => inl HKeyError | Some zs => mil_go (Z.of_nat (length d)) (sort_by_key zs) d end.
Proof.
  intros d s. unfold merge_into_list. destruct (int_keys s) as [zs |]; [| reflexivity].
  generalize (sort_by_key zs). intros l. generalize d at 2 4. induction l as [| [z v] r IH]; intros acc; [reflexivity |].
  cbn [mil_go]. destruct (z <? Z.of_nat (length d)); [| apply IH].
  destruct (0 <=? z); [apply IH |]. destruct (0 <=? z + Z.of_nat (length acc)); [apply IH | reflexivity].
Qed.

Lemma int_keys_none : forall s, int_keys s = None <-> exists k x, In (KStr k, x) s.
Proof.
  induction s as [| [k x] r IH]; cbn [int_keys].
  - split; [discriminate | intros (k & x & [])].
  - destruct k as [str | z].
    + split; [intros _; exists str, x; left; reflexivity | reflexivity].
    + destruct (int_keys r) eqn:E.
      * split; [discriminate |]. intros (k & y & [F | F]); [discriminate |].
        assert (Some l = None) as N by (apply IH; eauto). discriminate.
      * split; [| reflexivity]. intros _. destruct (proj1 IH eq_refl) as (k & y & F). exists k, y. right. assumption.
Qed.

Lemma length_list_set : forall (A : Type) (l : list A) i x, length (list_set l i x) = length l.
Proof. induction l as [| y r IH]; intros [| i] x; cbn; auto. Qed.

Lemma Forall_insert_sorted : forall (P : Z * pv -> Prop) z v l, P (z, v) -> Forall P l -> Forall P (insert_sorted z v l).
Proof.
  intros P z v l Hz H. induction H as [| [z' v'] r Hx Hr IH]; cbn; [auto |].
  destruct (z <=? z'); repeat constructor; auto.
Qed.

Lemma Forall_sort : forall (P : Z * pv -> Prop) l, Forall P l -> Forall P (sort_by_key l).
Proof.
  intros P l H. unfold sort_by_key. induction H as [| [z v] r Hx _ IH]; cbn; [constructor |].
  apply Forall_insert_sorted; assumption.
Qed.

Lemma mil_go_ok : forall old l acc, old <= Z.of_nat (length acc) -> Forall (fun zv => - old <= fst zv) l ->
  exists r, mil_go old l acc = inr (PList r).
Proof.
  intros old l. induction l as [| [z v] t IH]; intros acc Hlen H; cbn [mil_go]; [eauto |].
  inv H. cbn [fst] in H2. destruct (z <? old) eqn:E1.
  - destruct (0 <=? z) eqn:E2; [apply IH; [rewrite length_list_set |]; assumption |].
    replace (0 <=? z + Z.of_nat (length acc)) with true by (symmetry; apply Z.leb_le; lia).
    apply IH; [rewrite length_list_set |]; assumption.
  - apply IH; [rewrite app_length; cbn; lia | assumption].
Qed.

(* KeyError exactly when some key is a string; no error when every index is an int not below -len(dest) *)
Theorem merge_into_list_errors : forall d s,
  (merge_into_list d s = inl HKeyError <-> exists k x, In (KStr k, x) s) /\
  (forall zs, int_keys s = Some zs -> Forall (fun zv => - Z.of_nat (length d) <= fst zv) zs ->
     exists r, merge_into_list d s = inr (PList r)).
Proof.
  intros d s. rewrite merge_into_list_eq. split.
  - rewrite <- int_keys_none. destruct (int_keys s) as [zs |] eqn:E; [| tauto].
    split; [| discriminate]. intros H. exfalso.
    assert (forall l acc, mil_go (Z.of_nat (length d)) l acc <> inl HKeyError) as N.
    { induction l as [| [z v] r IH]; intros acc; cbn [mil_go]; [discriminate |].
      destruct (z <? Z.of_nat (length d)); [| apply IH]. destruct (0 <=? z); [apply IH |].
      destruct (0 <=? z + Z.of_nat (length acc)); [apply IH | discriminate]. }
    eapply N; eauto.
  - intros zs E H. rewrite E. apply mil_go_ok; [lia | apply Forall_sort; assumption].
Qed.

(* ---- error kinds of canonicalize ------------------------------------------------------------------------------------------------ *)
Definition not_tv (r : herr + pv) : Prop := r <> inl HTypeError /\ r <> inl HValueError.

Lemma mil_go_not_tv : forall old l acc, not_tv (mil_go old l acc).
Proof.
  intros old l. induction l as [| [z v] r IH]; intros acc; cbn [mil_go]; [split; discriminate |].
  destruct (z <? old); [| apply IH]. destruct (0 <=? z); [apply IH |].
  destruct (0 <=? z + Z.of_nat (length acc)); [apply IH | split; discriminate].
Qed.

Lemma merge_c_not_tv : forall s d, not_tv (merge_c d s).
Proof.
  apply (pv_ind' (fun s => forall d, not_tv (merge_c d s))); try (intros; destruct d; split; discriminate).
  intros kvs IH d. destruct d as [| | | dl | dk]; try (split; discriminate).
  - cbn [merge_c]. rewrite merge_into_list_eq. destruct (int_keys kvs); [apply mil_go_not_tv | split; discriminate].
  - rewrite merge_c_dict. revert dk. induction IH as [| [k v] t Hv _ IHt]; intros dk; cbn [merge_go]; [split; discriminate |].
    cbn [snd] in Hv. destruct (dget k dk) as [old |]; [| apply IHt].
    destruct (Hv old) as [A B]. destruct (merge_c old v) as [e | x]; [| apply IHt].
    split; intros F; inv F; [apply A | apply B]; reflexivity.
Qed.

(* some string key, somewhere in the value, does not parse *)
Inductive bad_key : pv -> Prop :=
| bk_here : forall kvs s x e, In (KStr s, x) kvs -> parse s = PErr e -> bad_key (PDict kvs)
| bk_dict : forall kvs k x, In (k, x) kvs -> bad_key x -> bad_key (PDict kvs)
| bk_list : forall l x, In x l -> bad_key x -> bad_key (PList l).

Definition canon_errs (sp : bool) (v : pv) : Prop :=
  canon sp v <> inl HTypeError /\ (canon sp v = inl HValueError -> bad_key v).

Lemma key_to_path_error : forall k e, key_to_path k = inl e -> e = HValueError /\ exists s pe, k = KStr s /\ parse s = PErr pe.
Proof.
  intros [s | z] e H; cbn in H; [| discriminate]. destruct (parse s) eqn:P; inv H. eauto.
Qed.

Lemma canon_go_errs : forall sp l cd, Forall (fun kv => canon_errs sp (snd kv)) l ->
  canon_go sp l cd <> inl HTypeError /\
  (canon_go sp l cd = inl HValueError ->
   exists k x, In (k, x) l /\ ((exists s pe, k = KStr s /\ parse s = PErr pe) \/ bad_key x)).
Proof.
  induction l as [| [k x] r IH]; intros cd H; cbn [canon_go]; [split; [discriminate | discriminate] |].
  inv H. destruct H2 as [Hx1 Hx2]. cbn [snd] in *.
  assert (forall cd', canon_go sp r cd' <> inl HTypeError /\
            (canon_go sp r cd' = inl HValueError ->
             exists k0 x0, In (k0, x0) ((k, x) :: r) /\ ((exists s pe, k0 = KStr s /\ parse s = PErr pe) \/ bad_key x0))) as Hrest.
  { intros cd'. destruct (IH cd' H3) as [A B]. split; [exact A |]. intros F. destruct (B F) as (k0 & x0 & Hin & Hb). exists k0, x0. split; [right |]; assumption. }
  destruct (key_to_path k) as [e | path] eqn:K.
  - destruct (key_to_path_error _ _ K) as (-> & s & pe & -> & P). split; [discriminate |]. intros _.
    exists (KStr s), x. split; [left; reflexivity | left; eauto].
  - assert (forall rest : herr + list (key * pv), True) as _ by auto.
    destruct path as [| k1 [| k2 rest]].
    + split; discriminate.
    + destruct (canon sp x) as [e | nv] eqn:Cx.
      * split; [intros F; inv F; apply Hx1; reflexivity |]. intros F. inv F. exists k, x. split; [left; reflexivity | right; auto].
      * destruct (dget k1 cd) as [old |]; [| apply Hrest].
        destruct (merge_c_not_tv nv old) as [A B]. destruct (merge_c old nv) as [e | m]; [| apply Hrest].
        split; [intros F; inv F; apply A; reflexivity | intros F; inv F; exfalso; apply B; reflexivity].
    + destruct (canon sp x) as [e | nv] eqn:Cx.
      * split; [intros F; inv F; apply Hx1; reflexivity |]. intros F. inv F. exists k, x. split; [left; reflexivity | right; auto].
      * pose proof (merge_dd_shape cd [(k1, nest (k2 :: rest) nv)]) as S.
        change (PDict [(k1, nest (k2 :: rest) nv)]) with (nest (k1 :: k2 :: rest) nv) in S.
        destruct (merge_c_not_tv (nest (k1 :: k2 :: rest) nv) (PDict cd)) as [A B].
        destruct (merge_c (PDict cd) (nest (k1 :: k2 :: rest) nv)) as [e | m].
        -- split; [intros F; inv F; apply A; reflexivity | intros F; inv F; exfalso; apply B; reflexivity].
        -- destruct m; try contradiction. apply Hrest.
Qed.

Fixpoint canon_list (sp : bool) (l : list pv) : herr + pv :=
  match l with
  | [] => inr (PList [])
  | x :: r =>
      match canon sp x, canon_list sp r with
      | inl e, _ => inl e
      | _, inl e => inl e
      | inr y, inr (PList ys) => inr (PList (y :: ys))
      | inr _, inr _ => inl HTypeError
      end
  end.

Lemma canon_list_eq : forall sp l, canon sp (PList l) = canon_list sp l.
Proof. intros sp l. cbn [canon]. induction l as [| x r IH]; [reflexivity |]. cbn [canon_list]. rewrite <- IH. reflexivity. Qed.

Theorem canon_error_kinds : forall sp v, canon_errs sp v.
Proof.
  intros sp. apply pv_ind'; unfold canon_errs; try (split; [discriminate | discriminate]).
  - intros l IH. rewrite canon_list_eq.
    assert ((canon_list sp l <> inl HTypeError /\ (canon_list sp l = inl HValueError -> bad_key (PList l))) /\
            (forall g, canon_list sp l = inr g -> exists ys, g = PList ys)) as [G _]; [| exact G].
    induction IH as [| c r Hc _ IHr]; [split; [split; discriminate | intros g E; inv E; eauto] |].
    destruct Hc as [C1 C2]. destruct IHr as [[R1 R2] R3]. cbn [canon_list].
    destruct (canon sp c) as [e | y] eqn:Cc.
    + split; [| discriminate]. split; [intros F; inv F; apply C1; reflexivity |]. intros F. inv F. eapply bk_list; [left; reflexivity | auto].
    + destruct (canon_list sp r) as [e | g] eqn:EG.
      * split; [| discriminate]. split; [exact R1 |]. intros F. specialize (R2 F). inv R2. eapply bk_list; [right; eassumption | assumption].
      * destruct (R3 g eq_refl) as (ys & ->). split; [split; discriminate | intros g E; inv E; eauto].
  - intros kvs IH. rewrite canon_dict_eq. destruct (canon_go_errs sp kvs [] IH) as [A B].
    destruct (canon_go sp kvs []) as [e | cd].
    + split; [intros F; inv F; apply A; reflexivity |]. intros F. inv F.
      destruct (B eq_refl) as (k & x & Hin & [(s & pe & -> & P) | Hb]); [eapply bk_here; eauto | eapply bk_dict; eauto].
    + split; discriminate.
Qed.

(* SymCoreC02Refs.v -- arguments that are existing symbolic values (not literals): a node that has a parent is copied at write
   time, a root of another tree is adopted (its slot in the forest empties).  Either way the stored value denotes what the
   argument denoted before the call, so on the erasure the write is list's / dict's with that value.  The frame is weaker
   than for literals: other roots may be emptied, the root of the target is not touched. *)
From Coq Require Import ZArith NArith List Bool Lia.
Import ListNotations.
From PG Require Import Common.Tactics Model.SymCoreDefs Model.SymCoreOps Model.SymCoreSpec Model.SymCoreC02
     Proofs.SymCoreBase Proofs.SymCoreWF Proofs.SymCoreWFOps Proofs.SymCoreClone Proofs.SymCoreIds Proofs.SymCoreC02Read
     Proofs.SymCoreC02Frame Proofs.SymCoreC02Prim Proofs.SymCoreC02List Proofs.SymCoreC02Items Proofs.SymCoreC02Rebind.
From PG Require Model.PyList Model.PyDict.
Local Open Scope Z_scope.

(* what an argument denotes in the state the call starts in *)
Definition ref_value (st : state) (rv : rvalue) (v : pv) : Prop :=
  match rv with
  | RNodeId i => exists vps n, get_at st vps = Some n /\ nid n = Some i /\ erase n = v
  | _ => storable_rv rv /\ prv rv = v
  end.
Lemma ref_value_ok : forall st rv v, ref_value st rv v -> rv_ok rv.
Proof. destruct rv; simpl; auto; intros v [S _]. apply (storable_rv_ok (RLit l)); auto. contradiction. Qed.
Lemma ref_value_not_missing : forall st rv v, ref_value st rv v -> is_missing_rv rv = false.
Proof. destruct rv; simpl; auto. intros v [S _]. destruct l; auto; congruence. Qed.
Lemma ref_value_no_ins : forall st rv v, ref_value st rv v -> match rv with RIns v' => (true, v') | _ => (false, rv) end = (false, rv).
Proof. destruct rv; simpl; auto. intros v [S _]. contradiction. Qed.

(* the result of a write whose argument may be an existing value: as [wrote], without the claim about the other roots *)
Definition wrote_w (ps : pos) (tid : N) (pa : option N) (fl : flags) (st' : state) (l' : list pv) : Prop :=
  exists its', at_is st' ps tid KList pa fl its' /\ clean its' /\ evals its' = l' /\ anc_clean st' ps /\ WFI st'.
Definition dwrote_w (ps : pos) (tid : N) (pa : option N) (fl : flags) (st' : state) (d' : list (key * pv)) : Prop :=
  exists its', at_is st' ps tid KDict pa fl its' /\ clean its' /\ eitems its' = d' /\ anc_clean st' ps /\ WFI st'.
(* `old is value` is decided on object identity; the erasure keeps the tag of an opaque object, not its identity: where the
   replaced item and the argument are the same opaque object they have to carry the same tag *)
Definition tag_agree (old : node) (rv : rvalue) : Prop :=
  forall o t t', old = Leaf (LOpq o t) -> rv = RLeaf (LOpq o t') -> t = t'.

Lemma formalize_ref : forall q sc st cp ck cid pa pt cfl its k ins rv nw st1 v,
  no_quirks q -> WFI st -> get_at st cp = Some (Node cid ck pa pt cfl its) -> ref_value st rv v ->
  (ins = false -> not_current its k rv) ->
  formalize q sc st (fst cp) ck cid cfl (pt ++ [k]) ins rv = (nw, st1) ->
  erase nw = v /\ is_missing nw = false /\ get_root st1 (fst cp) = get_root st (fst cp).
Proof.
  intros q sc st cp ck cid pa pt cfl its k ins rv nw st1 v NQ W G RV NC F.
  assert (OK : rv_ok rv) by (eapply ref_value_ok; eauto).
  destruct (formalize_ids q sc st cp ck cid pa pt cfl its k ins rv nw st1 (proj1 W) (proj2 W) OK G NC F) as (_ & GR & _).
  destruct rv as [l|l|i|v0]; simpl in RV.
  - destruct RV as [PV EV]. destruct (formalize_storable _ _ _ _ _ _ _ _ _ _ _ _ (PV : storable_rv (RLeaf l)) F) as (A & B & _). subst v. auto.
  - destruct RV as [PV EV]. destruct (formalize_storable _ _ _ _ _ _ _ _ _ _ _ _ (PV : storable_rv (RLit l)) F) as (A & B & _). subst v. auto.
  - destruct RV as (vps & n & GV & NI & EV). destruct n as [lf|i0 vk vpa vpt vfl vits]; simpl in NI; inv NI.
    unfold formalize in F. rewrite (locate_complete' _ _ _ _ _ _ _ _ W GV) in F. rewrite GV in F.
    destruct (needs_clone (fst cp) ck cid (pt ++ [k]) ins vps (Node i vk vpa vpt vfl vits)).
    + destruct (clone_at (q_copy_drops_missing q) false (Some cid) (pt ++ [k]) (Node i vk vpa vpt vfl vits) (next_id st, [])) as [cl cs] eqn:CL.
      inv F. destruct (wfs_get_at _ _ _ (proj1 W) GV) as (ep & WN). repeat split; auto.
      * replace nw with (fst (clone_at (q_copy_drops_missing q) false (Some cid) (pt ++ [k]) (Node i vk vpa vpt vfl vits) (next_id st, []))) by (rewrite CL; auto).
        eapply clone_erase; eauto. left; exact NQ.
      * pose proof (clone_at_is_node (q_copy_drops_missing q) false (Some cid) (pt ++ [k]) (Node i vk vpa vpt vfl vits) (next_id st, [])) as IN.
        rewrite CL in IN. simpl in IN. destruct nw; simpl in *; auto; discriminate.
    + injection F as F1 F2. subst nw st1.
      pose proof (erase_set_path (Node i vk vpa vpt vfl vits) (pt ++ [k])) as ES. simpl in ES.
      split; [|split; auto].
      * rewrite erase_set_par. simpl. exact ES.
      * simpl. destruct (path_eqb vpt (pt ++ [k])); reflexivity.
  - destruct RV; contradiction.
Qed.

Section RefWritten.
Variables (st : state) (ps : pos) (tid : N) (k0 : kind) (pa : option N) (fl : flags) (its : list (key * node)).
Hypothesis AT : at_is st ps tid k0 pa fl its.
Hypothesis ANC : anc_clean st ps.
Hypothesis W : WFI st.

Lemma written_weak : forall st1 its',
  get_root st1 (fst ps) = get_root st (fst ps) ->
  (forall old, at_is (add_detached (update_at st1 ps (set_items its')) old) ps tid k0 pa fl its' /\
               anc_clean (add_detached (update_at st1 ps (set_items its')) old) ps) /\
  at_is (update_at st1 ps (set_items its')) ps tid k0 pa fl its' /\ anc_clean (update_at st1 ps (set_items its')) ps.
Proof.
  intros st1 its' GR.
  assert (G1 : get_at st1 ps = Some (Node tid k0 pa (snd ps) fl its)) by (unfold get_at; rewrite GR; exact AT).
  assert (A1 : anc_clean st1 ps) by (eapply anc_clean_same_root; eauto).
  assert (B : at_is (update_at st1 ps (set_items its')) ps tid k0 pa fl its' /\ anc_clean (update_at st1 ps (set_items its')) ps).
  { split. unfold at_is. rewrite (get_at_update_at_same _ _ _ _ G1). reflexivity. apply anc_clean_update_items; auto. }
  split; auto. intros old. destruct B as [B1 B2]. split.
  - unfold at_is. eapply keeps_roots_get_at. apply keeps_roots_add_detached. exact B1.
  - eapply anc_clean_keeps. apply keeps_roots_add_detached. eapply get_at_root_some; eauto. auto.
Qed.

(* `old is value` answered yes: the item denotes what the argument denotes (a node sits in one place only) *)
Lemma same_obj_ref : forall k old rv v,
  assoc k its = Some old -> ref_value st rv v -> tag_agree old rv -> same_obj old rv = true -> erase old = v.
Proof.
  intros k old rv v AS RV TA S.
  destruct old as [l|i ok opa opt ofl oits], rv as [l0|l0|j|v0]; simpl in S; try discriminate.
  - destruct RV as [NM EV]. simpl in NM, EV. subst v. simpl. f_equal.
    destruct l, l0; simpl in S; try discriminate; auto.
    + apply Bool.eqb_prop in S; subst; auto.
    + apply Z.eqb_eq in S; subst; auto.
    + replace s0 with s; auto. apply (list_eqb_eq _ N.eqb); auto. intros; apply N.eqb_eq; auto.
    + apply N.eqb_eq in S. subst. simpl. rewrite (TA _ _ _ eq_refl eq_refl). reflexivity.
  - apply N.eqb_eq in S. subst j. destruct RV as (vps & n0 & GV & NI & EV).
    destruct n0 as [lf|i0 vk vpa vpt vfl vits]; simpl in NI; inv NI.
    pose proof (get_at_child_of st (fst ps) (snd ps) _ k (AT : get_at st (fst ps, snd ps) = _)) as GC.
    simpl in GC. rewrite AS in GC. destruct vps as [vr vp].
    destruct (no_node_twice _ _ _ _ _ _ _ _ _ _ _ _ _ _ _ _ W GV GC) as [E1 E2]. subst.
    rewrite GV in GC. inv GC. reflexivity.
Qed.
Lemma not_same_not_current : forall k rv,
  same_obj (match assoc k its with Some o => o | None => Leaf LMissing end) rv = false -> not_current its k rv.
Proof.
  intros k rv S i E. subst rv. destruct (assoc k its) as [[l|j ? ? ? ? ?]|]; auto. simpl in S. apply N.eqb_neq in S. exact S.
Qed.
End RefWritten.

Section RefPrim.
Variables (q : quirks) (sc : scope) (st : state) (ps : pos) (tid : N) (pa : option N) (fl : flags) (its : list (key * node)).
Hypothesis NQ : no_quirks q.
Hypothesis AT : at_is st ps tid KList pa fl its.
Hypothesis CLEAN : clean its.
Hypothesis ANC : anc_clean st ps.
Hypothesis W : WFI st.
Let n := zlen its.

(* l.append(x) with any argument: a literal, a symbolic value that has a parent (copied) or a root (adopted) *)
Lemma lprim_append_ref : forall z rv v st' p,
  ref_value st rv v -> n <= z ->
  lprim q sc st ps (KI z) rv = (st', p) ->
  p = PUpd /\ wrote_w ps tid pa fl st' (evals its ++ [v]).
Proof.
  intros z rv v st' p RV RG E.
  pose proof (ref_value_ok _ _ _ RV) as OK. pose proof (ref_value_not_missing _ _ _ RV) as NM. pose proof (ref_value_no_ins _ _ _ RV) as NI.
  pose proof (lprim_WFI _ _ _ _ _ _ _ _ W OK E) as W'.
  destruct (at_children ps tid pa fl st its (proj1 W) AT) as (CF & KP).
  unfold lprim in E. pose proof AT as AT'. unfold at_is in AT'. rewrite AT' in E. fold n in E.
  replace (z >=? n) with true in E by lia. rewrite NM in E. cbn [andb fst snd] in E. rewrite NI in E.
  assert (NN : 0 <= n) by (unfold n, zlen; lia).
  replace (n <? 0) with false in E by lia. replace (n <? n) with false in E by lia. cbn [andb] in E.
  destruct (formalize q sc st (fst ps) KList tid fl (snd ps ++ [KI n]) false rv) as [nw st1] eqn:F.
  assert (NC : false = false -> not_current its (KI n) rv).
  { intros _ i EI. destruct (assoc (KI n) its) as [c|] eqn:AS; auto.
    destruct (assoc_positions _ _ _ _ KP AS) as (j & EJ & BJ). inv EJ. unfold n in BJ. lia. }
  destruct (formalize_ref q sc st ps KList tid pa (snd ps) fl its (KI n) false rv nw st1 v NQ W AT' RV NC F) as (EN & MN & GR).
  inv E. split; auto.
  destruct (written_weak st ps tid KList pa fl its AT ANC st1 (its ++ [(KI n, nw)]) GR) as (_ & A1 & AC1).
  exists (its ++ [(KI n, nw)]). repeat split; auto; try apply W'.
  - apply clean_app; auto. constructor; auto.
  - rewrite evals_app. simpl. try rewrite EN. reflexivity.
Qed.

(* l[z] = x with any argument *)
Lemma lprim_replace_ref : forall z rv v st' p,
  ref_value st rv v -> (forall k old, In (k, old) its -> tag_agree old rv) -> - n <= z < n ->
  lprim q sc st ps (KI z) rv = (st', p) ->
  (p = PNone \/ p = PUpd) /\
  wrote_w ps tid pa fl st' (PyList.replace_nth (Z.to_nat (if z <? 0 then z + n else z)) v (evals its)).
Proof.
  intros z rv v st' p RV TA RG E.
  pose proof (ref_value_ok _ _ _ RV) as OK. pose proof (ref_value_no_ins _ _ _ RV) as NI.
  pose proof (lprim_WFI _ _ _ _ _ _ _ _ W OK E) as W'.
  destruct (at_children ps tid pa fl st its (proj1 W) AT) as (CF & KP).
  unfold lprim in E. pose proof AT as AT'. unfold at_is in AT'. rewrite AT' in E. fold n in E.
  replace (z >=? n) with false in E by lia. cbn [andb fst snd] in E. rewrite NI in E.
  set (idx := if z <? 0 then (if z >=? - n then z + n else z) else z) in *.
  assert (I : idx = (if z <? 0 then z + n else z)) by (unfold idx; destruct (z <? 0) eqn:?; auto; replace (z >=? - n) with true by lia; auto).
  assert (B : 0 <= idx < n) by (rewrite I; destruct (z <? 0) eqn:?; lia).
  replace (idx <? n) with true in E by lia. replace (idx <? 0) with false in E by lia. cbn [andb negb] in E.
  destruct (nth_error its (Z.to_nat idx)) as [[kk old]|] eqn:N.
  2:{ apply nth_error_None in N. unfold n, zlen in B. lia. }
  rewrite <- I.
  pose proof (positions_assoc _ _ _ _ _ KP N) as AS. rewrite Z.add_0_l, Z2Nat.id in AS by lia.
  destruct (same_obj old rv) eqn:S.
  - injection E as E1 E2; subst st' p. split; auto. exists its. repeat split; auto; try apply W.
    symmetry. apply replace_nth_same. rewrite nth_error_evals, N. simpl. f_equal.
    eapply (same_obj_ref st ps tid KList pa fl its AT W); eauto. eapply TA. eapply nth_error_In; eauto.
  - destruct (formalize q sc st (fst ps) KList tid fl (snd ps ++ [KI idx]) false rv) as [nw st1] eqn:F.
    assert (NC : false = false -> not_current its (KI idx) rv).
    { intros _. apply not_same_not_current. rewrite AS. exact S. }
    destruct (formalize_ref q sc st ps KList tid pa (snd ps) fl its (KI idx) false rv nw st1 v NQ W AT' RV NC F) as (EN & MN & GR).
    inv E. split; auto.
    destruct (written_weak st ps tid KList pa fl its AT ANC st1 (set_nth (Z.to_nat idx) (KI idx, nw) its) GR) as (A1 & _).
    destruct (A1 old) as [A2 A3].
    exists (set_nth (Z.to_nat idx) (KI idx, nw) its). repeat split; auto; try apply W'.
    + apply Forall_set_nth_clean; auto.
    + rewrite evals_set_nth. reflexivity.
Qed.

(* l.insert(z, x) with any argument *)
Lemma lprim_insert_ref : forall z rv v st' p,
  ref_value st rv v -> lprim q sc st ps (KI z) (RIns rv) = (st', p) ->
  p = PUpd /\ wrote_w ps tid pa fl st' (PyList.insert (evals its) z v).
Proof.
  intros z rv v st' p RV E.
  pose proof (ref_value_ok _ _ _ RV) as OK.
  pose proof (lprim_WFI _ _ _ _ _ _ _ _ W (OK : rv_ok (RIns rv)) E) as W'.
  unfold lprim in E. pose proof AT as AT'. unfold at_is in AT'. rewrite AT' in E. fold n in E.
  replace (is_missing_rv (RIns rv)) with false in E by reflexivity. rewrite andb_false_r in E. cbn [fst snd] in E.
  assert (NN : 0 <= n) by (unfold n, zlen; lia).
  set (idx0 := if z >=? n then n else z) in *.
  set (idx := if idx0 <? 0 then (if idx0 >=? - n then idx0 + n else 0) else idx0) in *.
  assert (P : Z.to_nat idx = PyList.insert_pos (PyList.len (evals its)) z /\ 0 <= idx <= n).
  { rewrite len_evals. fold n. unfold PyList.insert_pos, idx, idx0.
    destruct (z >=? n) eqn:Hzn; repeat match goal with |- context [if ?b then _ else _] => destruct b eqn:? end; lia. }
  destruct P as [P B].
  rewrite andb_false_r in E.
  destruct (formalize q sc st (fst ps) KList tid fl (snd ps ++ [KI idx]) true rv) as [nw st1] eqn:F.
  assert (NC : true = false -> not_current its (KI idx) rv) by discriminate.
  destruct (formalize_ref q sc st ps KList tid pa (snd ps) fl its (KI idx) true rv nw st1 v NQ W AT' RV NC F) as (EN & MN & GR).
  unfold PyList.insert. rewrite <- P, <- EN.
  destruct (idx <? n) eqn:L; inv E; split; auto.
  - destruct (written_weak st ps tid KList pa fl its AT ANC st1 (renum (snd ps) (insert_at (Z.to_nat idx) (KI idx, nw) its)) GR) as (_ & A1 & AC1).
    exists (renum (snd ps) (insert_at (Z.to_nat idx) (KI idx, nw) its)). repeat split; auto; try apply W'.
    + apply clean_renum. apply Forall_insert_at; auto.
    + rewrite evals_renum, evals_insert_at; auto. unfold n, zlen in *. lia.
  - assert (idx = n) by lia. rewrite H in W'. rewrite H.
    destruct (written_weak st ps tid KList pa fl its AT ANC st1 (its ++ [(KI n, nw)]) GR) as (_ & A1 & AC1).
    exists (its ++ [(KI n, nw)]). repeat split; auto; try apply W'.
    + apply clean_app; auto. constructor; auto.
    + rewrite evals_app. unfold n, zlen. rewrite Nat2Z.id. rewrite <- (evals_length its).
      rewrite firstn_all, skipn_all. reflexivity.
Qed.
End RefPrim.

Lemma dprim_WFI : forall q sc st cp k rv st' p, WFI st -> rv_ok rv -> dprim q sc st cp k rv = (st', p) -> WFI st'.
Proof. intros. eapply WFI_step; eauto. destruct H; eapply dprim_wfs; eauto. eapply dprim_ids; eauto. Qed.

Section RefDPrim.
Variables (q : quirks) (sc : scope) (st : state) (ps : pos) (tid : N) (pa : option N) (fl : flags) (its : list (key * node)).
Hypothesis NQ : no_quirks q.
Hypothesis AT : at_is st ps tid KDict pa fl its.
Hypothesis CLEAN : clean its.
Hypothesis ANC : anc_clean st ps.
Hypothesis W : WFI st.

(* d[k] = x with any argument *)
Lemma dprim_set_ref : forall k rv v st' p,
  ref_value st rv v -> (forall old, assoc k its = Some old -> tag_agree old rv) ->
  dprim q sc st ps k rv = (st', p) ->
  (p = PNone \/ p = PUpd) /\ dwrote_w ps tid pa fl st' (PyDict.dset key_eqb k v (eitems its)).
Proof.
  intros k rv v st' p RV TA E.
  pose proof (ref_value_ok _ _ _ RV) as OK. pose proof (ref_value_not_missing _ _ _ RV) as NM.
  pose proof (dprim_WFI _ _ _ _ _ _ _ _ W OK E) as W'.
  unfold dprim in E. pose proof AT as AT'. unfold at_is in AT'. rewrite AT' in E. cbn [fst snd] in E.
  destruct (same_obj (match assoc k its with Some o => o | None => Leaf LMissing end) rv) eqn:S.
  - injection E as E1 E2; subst st' p. split; auto. exists its. repeat split; auto; try apply W.
    symmetry. apply dset_same. rewrite dget_eitems.
    destruct (assoc k its) as [o|] eqn:A; simpl.
    + f_equal. eapply (same_obj_ref st ps tid KDict pa fl its AT W); eauto.
    + exfalso. destruct rv; simpl in *; try discriminate. destruct l; simpl in *; discriminate.
  - rewrite NM in E.
    destruct (formalize q sc st (fst ps) KDict tid fl (snd ps ++ [k]) false rv) as [nw st1] eqn:F.
    assert (NC : false = false -> not_current its k rv) by (intros _; apply not_same_not_current; exact S).
    destruct (formalize_ref q sc st ps KDict tid pa (snd ps) fl its k false rv nw st1 v NQ W AT' RV NC F) as (EN & MN & GR).
    inv E. split; auto.
    destruct (written_weak st ps tid KDict pa fl its AT ANC st1 (set_assoc k nw its) GR) as (A1 & _).
    destruct (A1 (match assoc k its with Some o => o | None => Leaf LMissing end)) as [A2 A3].
    exists (set_assoc k nw its). repeat split; auto; try apply W'.
    + apply clean_set_assoc; auto.
    + rewrite eitems_set_assoc. reflexivity.
Qed.
End RefDPrim.

Lemma notified_id_w : forall sc st ps tid k pa fl its p,
  at_is st ps tid k pa fl its -> clean its -> anc_clean st ps -> WFI st -> notified sc st ps p = st.
Proof.
  intros sc st ps tid k pa fl its p R1 C1 A1 W1. unfold notified. destruct p; auto. destruct (notify_on sc); auto.
  rewrite fix_chain_id; [auto|apply W1|].
  intros pre suf i pa0 pt fl0 its0 ES G. destruct suf.
  - rewrite app_nil_r in ES. subst pre. unfold at_is in R1. rewrite <- surjective_pairing in G. rewrite R1 in G. inv G. auto.
  - eapply A1; eauto. discriminate.
Qed.

Lemma after_prim_w : forall sc ps tid pa fl st1 p l' out st',
  (p = PNone \/ p = PUpd) -> wrote_w ps tid pa fl st1 l' ->
  match p with PErr e => (st1, Err e) | _ => (notified sc st1 ps p, Ok RNone) end = (st', out) ->
  wrote_w ps tid pa fl st' l' /\ out = Ok RNone.
Proof.
  intros sc ps tid pa fl st1 p l' out st' PP (its1 & R1 & C1 & E1 & A1 & W1) E.
  rewrite (notified_id_w sc st1 ps tid KList pa fl its1 p R1 C1 A1 W1) in E.
  destruct PP; subst p; inv E; split; auto; exists its1; auto 10.
Qed.
Lemma after_dprim_w : forall sc ps tid pa fl st1 p d' out st',
  (p = PNone \/ p = PUpd) -> dwrote_w ps tid pa fl st1 d' ->
  match p with PErr e => (st1, Err e) | _ => (notified sc st1 ps p, Ok RNone) end = (st', out) ->
  dwrote_w ps tid pa fl st' d' /\ out = Ok RNone.
Proof.
  intros sc ps tid pa fl st1 p d' out st' PP (its1 & R1 & C1 & E1 & A1 & W1) E.
  rewrite (notified_id_w sc st1 ps tid KDict pa fl its1 p R1 C1 A1 W1) in E.
  destruct PP; subst p; inv E; split; auto; exists its1; auto 10.
Qed.

(* l.append(x), l[i] = x, l.insert(i, x) where x is any existing or literal value (also an opaque object): the step is
   list's with what x denoted before the call *)
Definition ref_lop (o : op rvalue) (v : pv) : option (PyList.lop pv) :=
  match o with
  | LAppend _ => Some (PyList.PLAppend v)
  | LSet i _ => Some (PyList.PLSet i v)
  | LInsert i _ => Some (PyList.PLInsert i v)
  | _ => None
  end.
Definition ref_arg (o : op rvalue) : option rvalue :=
  match o with LAppend rv | LSet _ rv | LInsert _ rv | DSet _ _ rv => Some rv | _ => None end.

Theorem exec_list_ref_refines : forall q sc ps tid pa fl st its o rv v lo st' out,
  no_quirks q -> WFI st -> at_is st ps tid KList pa fl its -> clean its -> anc_clean st ps -> permits sc fl ->
  ref_arg o = Some rv -> ref_value st rv v -> (forall k old, In (k, old) its -> tag_agree old rv) -> ref_lop o v = Some lo ->
  exec q sc st ps tid KList (snd ps) fl its o = (st', out) ->
  match py_lstep (evals its) lo with
  | inr e => st' = st /\ out = Err (err_of e)
  | inl (l', ret) => wrote_w ps tid pa fl st' l' /\ ret_agrees st' out ret
  end.
Proof.
  intros q sc ps tid pa fl st its o rv v lo st' out NQ W R C A [SL AW] RA RV TA LO E.
  unfold py_lstep, PyList.lstep. rewrite len_evals.
  destruct o; simpl in LO; inv LO; simpl in RA; inv RA; unfold exec in E; rewrite ?SL, ?AW in E; cbn [negb andb] in E.
  - (* l[i] = x *)
    unfold PyList.norm_index. destruct ((i <? - zlen its) || (i >=? zlen its)) eqn:B.
    + inv E; auto.
    + destruct (lprim q sc st ps (KI i) rv) as [st1 p] eqn:L.
      destruct (lprim_replace_ref q sc st ps tid pa fl its NQ R C A W i rv v st1 p RV TA ltac:(lia) L) as [PP WR].
      destruct (after_prim_w _ _ _ _ _ _ _ _ _ _ PP WR E); subst; split; [auto|reflexivity].
  - (* append *)
    destruct (lprim q sc st ps (KI (zlen its)) rv) as [st1 p] eqn:L.
    destruct (lprim_append_ref q sc st ps tid pa fl its NQ R C A W _ rv v st1 p RV (Z.le_refl _) L) as [PP WR].
    destruct (after_prim_w _ _ _ _ _ _ _ _ _ _ (or_intror PP) WR E); subst; split; [auto|reflexivity].
  - (* insert *)
    destruct (lprim q sc st ps (KI i) (RIns rv)) as [st1 p] eqn:L.
    destruct (lprim_insert_ref q sc st ps tid pa fl its NQ R C A W i rv v st1 p RV L) as [PP WR].
    destruct (after_prim_w _ _ _ _ _ _ _ _ _ _ (or_intror PP) WR E); subst; split; [auto|reflexivity].
Qed.

(* d[k] = x / d.k = x with any argument *)
Theorem exec_dict_ref_refines : forall q sc ps tid pa fl st its a k rv v st' out,
  no_quirks q -> WFI st -> at_is st ps tid KDict pa fl its -> clean its -> anc_clean st ps -> permits sc fl ->
  ref_value st rv v -> (forall old, assoc k its = Some old -> tag_agree old rv) ->
  exec q sc st ps tid KDict (snd ps) fl its (DSet a k rv) = (st', out) ->
  out = Ok RNone /\ dwrote_w ps tid pa fl st' (PyDict.dset key_eqb k v (eitems its)).
Proof.
  intros q sc ps tid pa fl st its a k rv v st' out NQ W R C A [SL AW] RV TA E.
  unfold exec in E; rewrite ?SL, ?AW in E; cbn [negb andb] in E.
  destruct (dprim q sc st ps k rv) as [st1 p] eqn:L.
  destruct (dprim_set_ref q sc st ps tid pa fl its NQ R C A W k rv v st1 p RV TA L) as [PP WR].
  destruct (after_dprim_w _ _ _ _ _ _ _ _ _ _ PP WR E); subst; split; auto.
Qed.

(* l.append(x) where x is any existing or literal value: the list ends with what x denoted before the call *)
Theorem exec_append_ref_refines : forall q sc ps tid pa fl st its rv v st' out,
  no_quirks q -> WFI st -> at_is st ps tid KList pa fl its -> clean its -> anc_clean st ps -> treats_as_sealed sc fl = false ->
  ref_value st rv v -> is_missing_rv rv = false ->
  exec q sc st ps tid KList (snd ps) fl its (LAppend rv) = (st', out) ->
  out = Ok RNone /\ wrote_w ps tid pa fl st' (evals its ++ [v]).
Proof.
  intros q sc ps tid pa fl st its rv v st' out NQ W R C A SL RV NM E. unfold exec in E. rewrite SL in E.
  destruct (lprim q sc st ps (KI (zlen its)) rv) as [st1 p] eqn:L.
  destruct (lprim_append_ref q sc st ps tid pa fl its NQ R C A W _ rv v st1 p RV (Z.le_refl _) L) as [PP WR].
  destruct (after_prim_w _ _ _ _ _ _ _ _ _ _ (or_intror PP) WR E); subst; split; auto.
Qed.

(* SymCoreC02Refs.v -- arguments that are existing symbolic values (not literals): a node that has a parent is copied at write
   time, a root of another tree is adopted (its slot in the forest empties).  Either way the stored value denotes what the
   argument denoted before the call, so on the erasure the write is list's / dict's with that value.  The frame is weaker
   than for literals: other roots may be emptied, the root of the target is not touched. *)
From Coq Require Import ZArith NArith List Bool Lia.
Import ListNotations.
From PG Require Import Common.Tactics Model.SymCoreDefs Model.SymCoreOps Model.SymCoreSpec Model.SymCoreC02
     Proofs.SymCoreBase Proofs.SymCoreWF Proofs.SymCoreWFOps Proofs.SymCoreClone Proofs.SymCoreIds Proofs.SymCoreC02Read
     Proofs.SymCoreC02Frame Proofs.SymCoreC02Prim Proofs.SymCoreC02List Proofs.SymCoreC02Items Proofs.SymCoreC02Rebind.
From PG Require Model.PyList Model.PyDict.
Local Open Scope Z_scope.

(* what an argument denotes in the state the call starts in *)
Definition ref_value (st : state) (rv : rvalue) (v : pv) : Prop :=
  match rv with
  | RNodeId i => exists vps n, get_at st vps = Some n /\ nid n = Some i /\ erase n = v
  | _ => plain_rv rv /\ prv rv = v
  end.

Lemma formalize_ref : forall q sc st cp ck cid pa pt cfl its k ins rv nw st1 v,
  no_quirks q -> WFI st -> get_at st cp = Some (Node cid ck pa pt cfl its) -> ref_value st rv v ->
  (ins = false -> not_current its k rv) ->
  formalize q sc st (fst cp) ck cid cfl (pt ++ [k]) ins rv = (nw, st1) ->
  erase nw = v /\ is_missing nw = false /\ get_root st1 (fst cp) = get_root st (fst cp).
Proof.
  intros q sc st cp ck cid pa pt cfl its k ins rv nw st1 v NQ W G RV NC F.
  assert (OK : rv_ok rv).
  { destruct rv; simpl in *; auto. destruct RV. apply (plain_rv_ok (RLit l)); auto. destruct RV; contradiction. }
  destruct (formalize_ids q sc st cp ck cid pa pt cfl its k ins rv nw st1 (proj1 W) (proj2 W) OK G NC F) as (_ & GR & _).
  destruct rv as [l|l|i|v0]; simpl in RV.
  - destruct RV as [PV EV]. destruct (formalize_storable _ _ _ _ _ _ _ _ _ _ _ _ (plain_storable (RLeaf l) PV) F) as (A & B & _). subst v. auto.
  - destruct RV as [PV EV]. destruct (formalize_storable _ _ _ _ _ _ _ _ _ _ _ _ (plain_storable (RLit l) PV) F) as (A & B & _). subst v. auto.
  - destruct RV as (vps & n & GV & NI & EV). destruct n as [lf|i0 vk vpa vpt vfl vits]; simpl in NI; inv NI.
    unfold formalize in F. rewrite (locate_complete' _ _ _ _ _ _ _ _ W GV) in F. rewrite GV in F.
    destruct (needs_clone (fst cp) ck cid (pt ++ [k]) ins vps (Node i vk vpa vpt vfl vits)).
    + destruct (clone_at (q_copy_drops_missing q) false (Some cid) (pt ++ [k]) (Node i vk vpa vpt vfl vits) (next_id st, [])) as [cl cs] eqn:CL.
      inv F. destruct (wfs_get_at _ _ _ (proj1 W) GV) as (ep & WN). repeat split; auto.
      * replace nw with (fst (clone_at (q_copy_drops_missing q) false (Some cid) (pt ++ [k]) (Node i vk vpa vpt vfl vits) (next_id st, []))) by (rewrite CL; auto).
        eapply clone_erase; eauto. left; exact NQ.
      * pose proof (clone_at_is_node (q_copy_drops_missing q) false (Some cid) (pt ++ [k]) (Node i vk vpa vpt vfl vits) (next_id st, [])) as IN.
        rewrite CL in IN. simpl in IN. destruct nw; simpl in *; auto; discriminate.
    + injection F as F1 F2. subst nw st1.
      pose proof (erase_set_path (Node i vk vpa vpt vfl vits) (pt ++ [k])) as ES. simpl in ES.
      split; [|split; auto].
      * rewrite erase_set_par. simpl. exact ES.
      * simpl. destruct (path_eqb vpt (pt ++ [k])); reflexivity.
  - destruct RV; contradiction.
Qed.

Section RefPrim.
Variables (q : quirks) (sc : scope) (st : state) (ps : pos) (tid : N) (pa : option N) (fl : flags) (its : list (key * node)).
Hypothesis NQ : no_quirks q.
Hypothesis AT : at_is st ps tid KList pa fl its.
Hypothesis CLEAN : clean its.
Hypothesis ANC : anc_clean st ps.
Hypothesis W : WFI st.
Let n := zlen its.

(* the result of a write whose argument may be an existing value: as [wrote], without the claim about the other roots *)
Definition wrote_w (st' : state) (l' : list pv) : Prop :=
  exists its', at_is st' ps tid KList pa fl its' /\ clean its' /\ evals its' = l' /\ anc_clean st' ps /\ WFI st'.

Lemma written_weak : forall st1 its',
  get_root st1 (fst ps) = get_root st (fst ps) ->
  (forall old, at_is (add_detached (update_at st1 ps (set_items its')) old) ps tid KList pa fl its' /\
               anc_clean (add_detached (update_at st1 ps (set_items its')) old) ps) /\
  at_is (update_at st1 ps (set_items its')) ps tid KList pa fl its' /\ anc_clean (update_at st1 ps (set_items its')) ps.
Proof.
  intros st1 its' GR.
  assert (G1 : get_at st1 ps = Some (Node tid KList pa (snd ps) fl its)) by (unfold get_at; rewrite GR; exact AT).
  assert (A1 : anc_clean st1 ps) by (eapply anc_clean_same_root; eauto).
  assert (B : at_is (update_at st1 ps (set_items its')) ps tid KList pa fl its' /\ anc_clean (update_at st1 ps (set_items its')) ps).
  { split. unfold at_is. rewrite (get_at_update_at_same _ _ _ _ G1). reflexivity. apply anc_clean_update_items; auto. }
  split; auto. intros old. destruct B as [B1 B2]. split.
  - unfold at_is. eapply keeps_roots_get_at. apply keeps_roots_add_detached. exact B1.
  - eapply anc_clean_keeps. apply keeps_roots_add_detached. eapply get_at_root_some; eauto. auto.
Qed.

(* l.append(x) with any argument: a literal, a symbolic value that has a parent (copied) or a root (adopted) *)
Lemma lprim_append_ref : forall z rv v st' p,
  ref_value st rv v -> is_missing_rv rv = false -> n <= z ->
  lprim q sc st ps (KI z) rv = (st', p) ->
  p = PUpd /\ wrote_w st' (evals its ++ [v]).
Proof.
  intros z rv v st' p RV NM RG E.
  assert (OK : rv_ok rv).
  { destruct rv; simpl in *; auto. destruct RV. apply (plain_rv_ok (RLit l)); auto. destruct RV; contradiction. }
  assert (NI : match rv with RIns v' => (true, v') | _ => (false, rv) end = (false, rv)).
  { destruct rv; auto. simpl in RV. destruct RV; contradiction. }
  pose proof (lprim_WFI _ _ _ _ _ _ _ _ W OK E) as W'.
  destruct (at_children ps tid pa fl st its (proj1 W) AT) as (CF & KP).
  unfold lprim in E. pose proof AT as AT'. unfold at_is in AT'. rewrite AT' in E. fold n in E.
  replace (z >=? n) with true in E by lia. rewrite NM in E. cbn [andb fst snd] in E. rewrite NI in E.
  assert (NN : 0 <= n) by (unfold n, zlen; lia).
  replace (n <? 0) with false in E by lia. replace (n <? n) with false in E by lia. cbn [andb] in E.
  destruct (formalize q sc st (fst ps) KList tid fl (snd ps ++ [KI n]) false rv) as [nw st1] eqn:F.
  assert (NC : false = false -> not_current its (KI n) rv).
  { intros _ i EI. destruct (assoc (KI n) its) as [c|] eqn:AS; auto.
    destruct (assoc_positions _ _ _ _ KP AS) as (j & EJ & BJ). inv EJ. unfold n in BJ. lia. }
  destruct (formalize_ref q sc st ps KList tid pa (snd ps) fl its (KI n) false rv nw st1 v NQ W AT' RV NC F) as (EN & MN & GR).
  inv E. split; auto.
  destruct (written_weak st1 (its ++ [(KI n, nw)]) GR) as (_ & A1 & AC1).
  exists (its ++ [(KI n, nw)]). repeat split; auto; try apply W'.
  - apply clean_app; auto. constructor; auto.
  - rewrite evals_app. simpl. try rewrite EN. reflexivity.
Qed.
End RefPrim.

(* l.append(x) where x is any existing or literal value: the list ends with what x denoted before the call *)
Theorem exec_append_ref_refines : forall q sc ps tid pa fl st its rv v st' out,
  no_quirks q -> WFI st -> at_is st ps tid KList pa fl its -> clean its -> anc_clean st ps -> treats_as_sealed sc fl = false ->
  ref_value st rv v -> is_missing_rv rv = false ->
  exec q sc st ps tid KList (snd ps) fl its (LAppend rv) = (st', out) ->
  out = Ok RNone /\ wrote_w ps tid pa fl st' (evals its ++ [v]).
Proof.
  intros q sc ps tid pa fl st its rv v st' out NQ W R C A SL RV NM E. unfold exec in E. rewrite SL in E.
  destruct (lprim q sc st ps (KI (zlen its)) rv) as [st1 p] eqn:L.
  destruct (lprim_append_ref q sc st ps tid pa fl its NQ R C A W (zlen its) rv v st1 p RV NM (Z.le_refl _) L) as (EP & its1 & R1 & C1 & E1 & A1 & W1).
  subst p. inv E. split; auto. unfold notified. destruct (notify_on sc).
  - rewrite fix_chain_id; [exists its1; auto 10|apply W1|].
    intros pre suf i pa0 pt fl0 its0 ES G. destruct suf.
    + rewrite app_nil_r in ES. subst pre. unfold at_is in R1. rewrite <- surjective_pairing in G. rewrite R1 in G. inv G. auto.
    + eapply A1; eauto. discriminate.
  - exists its1; auto 10.
Qed.

(* MemFSProofs.v — every operation of the in-memory file system refines the map component path -> text. *)
From PG Require Import Common.Tactics Model.Json Model.MemFS Proofs.JsonProofs Proofs.JsonStrProofs Proofs.MemFSPaths Proofs.MemFSTree.
From Coq Require Import NArith.

Lemma strs_eqb_refl : forall a, strs_eqb a a = true.
Proof. induction a; simpl; [reflexivity|]. rewrite str_eqb_refl. exact IHa. Qed.
Lemma strs_eqb_neq : forall a b, a <> b -> strs_eqb a b = false.
Proof. intros a b H. destruct (strs_eqb a b) eqn:E; [|reflexivity]. apply strs_eqb_eq in E. contradiction. Qed.
Lemma aupd_same : forall a cs v, aupd a cs v cs = v.
Proof. intros. unfold aupd. rewrite strs_eqb_refl. reflexivity. Qed.
Lemma aupd_other : forall a cs v cs', cs' <> cs -> aupd a cs v cs' = a cs'.
Proof. intros. unfold aupd. rewrite strs_eqb_neq by assumption. reflexivity. Qed.
Lemma strs_eq_dec : forall a b : list str, {a = b} + {a <> b}.
Proof. intros a b. destruct (strs_eqb a b) eqn:E; [left; apply strs_eqb_eq; exact E | right; intro X; subst; rewrite strs_eqb_refl in E; discriminate]. Qed.

Lemma prefix_cases : forall (pcs cs : list str), (exists rest, cs = pcs ++ rest) \/ (forall rest, cs <> pcs ++ rest).
Proof.
  induction pcs as [|c pcs IH]; intro cs; [left; exists cs; reflexivity|].
  destruct cs as [|x r]; [right; intros rest X; discriminate|].
  destruct (str_eq_dec x c) as [E|E].
  - subst x. destruct (IH r) as [[rest A]|A]; [left; exists rest; simpl; congruence | right; intros rest X; apply (A rest); simpl in X; congruence].
  - right. intros rest X. simpl in X. congruence.
Qed.

Lemma wf_locate : forall cs root n, wf_node root = true -> locate root cs = LFound n -> wf_node n = true.
Proof.
  induction cs as [|c cs IH]; intros root n W H; [simpl in H; inv H; exact W|].
  simpl in H. destruct root as [|es]; [discriminate|]. destruct (alookup c es) as [ch|] eqn:E; [|discriminate].
  simpl in W. apply andb_true_iff in W. destruct W as [_ W2]. eapply IH; [|exact H]. eapply kids_wf_lookup; eassumption.
Qed.

(* locate through the parent *)
Lemma locate_snoc : forall pcs root name,
  locate root (pcs ++ [name]) =
  match locate root pcs with
  | LFound (NDir es) => match alookup name es with Some ch => LFound ch | None => LNone end
  | LFound (NFile _) => LCrash
  | LNone => LNone
  | LCrash => LCrash
  end.
Proof.
  induction pcs as [|c pcs IH]; intros root name.
  - simpl. destruct root as [|es]; [reflexivity|]. destruct (alookup name es); reflexivity.
  - simpl. destruct root as [|es]; [reflexivity|]. destruct (alookup c es); [apply IH | reflexivity].
Qed.

(* --- the three kinds of mutation ------------------------------------------------------------------------ *)
Lemma fresh_spec : forall root pcs es name c,
  locate root pcs = LFound (NDir es) ->
  (alookup name es = None \/ exists old, alookup name es = Some (NFile old)) ->
  forall cs, file_at (upd_dir (aset name (NFile c)) root pcs) cs = aupd (file_at root) (pcs ++ [name]) (Some c) cs.
Proof.
  intros root pcs es name c Hl Hn cs.
  destruct (strs_eq_dec cs (pcs ++ [name])) as [E|E].
  - subst cs. rewrite aupd_same. unfold file_at. rewrite (locate_upd_dir_below _ _ _ _ _ Hl).
    simpl. rewrite alookup_aset_same. reflexivity.
  - rewrite aupd_other by assumption.
    destruct (prefix_cases pcs cs) as [[rest A]|A].
    + subst cs. unfold file_at. rewrite (locate_upd_dir_below _ _ _ _ _ Hl). rewrite (locate_app _ _ _ _ Hl).
      destruct rest as [|x r]; [reflexivity|].
      simpl. destruct (str_eq_dec x name) as [Ex|Ex].
      * subst x. rewrite alookup_aset_same. destruct r as [|y r]; [contradiction|].
        destruct Hn as [Hn|[old Hn]]; rewrite Hn; reflexivity.
      * rewrite alookup_aset_other by assumption. reflexivity.
    + eapply file_at_upd_dir_frame; eassumption.
Qed.

Lemma remove_spec : forall root pcs es name old,
  wf_node root = true -> locate root pcs = LFound (NDir es) -> alookup name es = Some (NFile old) ->
  forall cs, file_at (upd_dir (aremove name) root pcs) cs = aupd (file_at root) (pcs ++ [name]) None cs.
Proof.
  intros root pcs es name old W Hl Hn cs.
  assert (Wes : names_nodup es = true).
  { pose proof (wf_locate _ _ _ W Hl) as X. simpl in X. apply andb_true_iff in X. tauto. }
  destruct (strs_eq_dec cs (pcs ++ [name])) as [E|E].
  - subst cs. rewrite aupd_same. unfold file_at. rewrite (locate_upd_dir_below _ _ _ _ _ Hl).
    simpl. rewrite alookup_aremove_same by assumption. reflexivity.
  - rewrite aupd_other by assumption.
    destruct (prefix_cases pcs cs) as [[rest A]|A].
    + subst cs. unfold file_at. rewrite (locate_upd_dir_below _ _ _ _ _ Hl). rewrite (locate_app _ _ _ _ Hl).
      destruct rest as [|x r]; [reflexivity|].
      simpl. destruct (str_eq_dec x name) as [Ex|Ex].
      * subst x. rewrite alookup_aremove_same by assumption. rewrite Hn. destruct r as [|y r]; [contradiction|]. reflexivity.
      * rewrite alookup_aremove_other by assumption. reflexivity.
    + eapply file_at_upd_dir_frame; eassumption.
Qed.

Lemma plain_spec : forall f root cs0 old,
  locate root cs0 = LFound (NFile old) ->
  forall cs, file_at (upd_file f root cs0) cs = aupd (file_at root) cs0 (Some (f old)) cs.
Proof.
  intros f root cs0 old Hl cs. destruct (strs_eq_dec cs cs0) as [E|E].
  - subst cs. rewrite aupd_same. eapply file_at_upd_file_same. exact Hl.
  - rewrite aupd_other by assumption. eapply file_at_upd_file_frame; eassumption.
Qed.

Lemma wf_fresh : forall root pcs name c, wf_node root = true -> wf_node (upd_dir (aset name (NFile c)) root pcs) = true.
Proof.
  intros. apply wf_upd_dir; [|assumption]. intros es A B. split; [apply names_nodup_aset; exact A | apply kids_wf_aset; [reflexivity | exact B]].
Qed.
Lemma wf_remove : forall root pcs name, wf_node root = true -> wf_node (upd_dir (aremove name) root pcs) = true.
Proof.
  intros. apply wf_upd_dir; [|assumption]. intros es A B. split; [apply names_nodup_aremove; exact A | apply kids_wf_aremove; exact B].
Qed.

Lemma read_file_file_at : forall root p c, read_file root p = FOk c <-> file_at root (components p) = Some c.
Proof.
  intros root p c. unfold read_file, file_at. destruct (locate root (components p)) as [[x|es]| |]; split; intro H; try discriminate; congruence.
Qed.
Lemma read_file_err : forall root p, file_at root (components p) = None -> exists e, read_file root p = FErr e.
Proof.
  intros root p H. unfold read_file, file_at in *. destruct (locate root (components p)) as [[x|es]| |]; try discriminate; eexists; reflexivity.
Qed.

(* --- open(path, mode) + write + close ------------------------------------------------------------------- *)
Lemma name_part_nil : forall t, name_part t = [] -> t = [].
Proof. destruct t; simpl; [reflexivity | discriminate]. Qed.
Lemma name_part_cons : forall t, t <> [] -> name_part t = [t].
Proof. destruct t; [contradiction | reflexivity]. Qed.
Lemma slashed_rsplit : forall p h t, rsplit p = Some (h, t) -> slashed p = match t with [] => true | _ => false end.
Proof. intros p h t H. unfold slashed. rewrite H. reflexivity. Qed.

Lemma write_file_spec : forall root p m c root',
  wf_node root = true -> routed p = true -> write_file root p m c = FOk root' ->
  wf_node root' = true /\
  forall cs, file_at root' cs = aupd (file_at root) (components p) (Some (new_content p m c (file_at root (components p)))) cs.
Proof.
  intros root p m c root' W Hr H. unfold write_file in H.
  destruct (locate root (components p)) as [[old|es0]| |] eqn:El; try discriminate.
  - (* the file exists *)
    assert (Hold : file_at root (components p) = Some old) by (unfold file_at; rewrite El; reflexivity).
    rewrite Hold. simpl in H. rewrite andb_false_r, orb_false_r in H.
    assert (Hplain : forall r, FOk (upd_file (fun o => if m_a m then o ++ c else overwrite o c) root (components p)) = FOk r ->
              wf_node r = true /\ forall cs, file_at r cs = aupd (file_at root) (components p) (Some (if m_a m then old ++ c else overwrite old c)) cs).
    { intros r X. inv X. split; [apply wf_upd_file; assumption|]. intro cs. exact (plain_spec (fun o => if m_a m then o ++ c else overwrite o c) _ _ _ El cs). }
    unfold new_content. destruct (m_w m) eqn:Ew.
    + unfold parent_and_name in H. destruct (rsplit p) as [[h name]|] eqn:Es; [|discriminate].
      pose proof (components_rsplit p h name Hr Es) as Ec.
      rewrite (slashed_rsplit _ _ _ Es).
      destruct name as [|n0 nm].
      * (* trailing slash: the parent is the file itself *)
        simpl in Ec. rewrite app_nil_r in Ec. rewrite <- Ec in H. rewrite El in H.
        simpl. apply Hplain. exact H.
      * rewrite name_part_cons in Ec by discriminate. rewrite Ec in El. rewrite locate_snoc in El.
        destruct (locate root (components h)) as [[x|es]| |] eqn:Eh; try discriminate.
        destruct (alookup (n0 :: nm) es) as [ch|] eqn:Ea; [|discriminate]. inv El.
        inv H. simpl. split; [apply wf_fresh; assumption|]. intro cs. rewrite Ec.
        apply (fresh_spec _ _ _ _ _ Eh). right. exists old. exact Ea.
    + simpl. apply Hplain. exact H.
  - (* no such file *)
    assert (Hold : file_at root (components p) = None) by (unfold file_at; rewrite El; reflexivity).
    rewrite Hold. simpl in H. rewrite andb_true_r in H.
    destruct (m_w m || m_a m) eqn:Ewa; [|discriminate].
    unfold parent_and_name in H. destruct (rsplit p) as [[h name]|] eqn:Es; [|discriminate].
    pose proof (components_rsplit p h name Hr Es) as Ec.
    destruct name as [|n0 nm].
    + simpl in Ec. rewrite app_nil_r in Ec. rewrite <- Ec in H. rewrite El in H. discriminate.
    + rewrite name_part_cons in Ec by discriminate. rewrite Ec in El. rewrite locate_snoc in El.
      destruct (locate root (components h)) as [[x|es]| |] eqn:Eh; try discriminate.
      destruct (alookup (n0 :: nm) es) as [ch|] eqn:Ea; [discriminate|].
      inv H. simpl. split; [apply wf_fresh; assumption|]. intro cs. rewrite Ec.
      apply (fresh_spec _ _ _ _ _ Eh). left. exact Ea.
Qed.

Lemma rm_spec : forall root p root',
  wf_node root = true -> rm root p = FOk root' ->
  wf_node root' = true /\ forall cs, file_at root' cs = aupd (file_at root) (rm_target p) None cs.
Proof.
  intros root p root' W H. unfold rm, parent_and_name in H. unfold rm_target.
  destruct (rsplit p) as [[h name]|] eqn:Es; [|discriminate].
  destruct (locate root (components h)) as [[x|es]| |] eqn:Eh; try discriminate.
  destruct (alookup name es) as [[old|es']|] eqn:Ea; try discriminate.
  inv H. split; [apply wf_remove; assumption|]. intro cs. eapply remove_spec; eassumption.
Qed.

Lemma mkdirs_spec : forall root p root',
  wf_node root = true -> mkdirs root p = FOk root' ->
  wf_node root' = true /\ forall cs, file_at root' cs = file_at root cs.
Proof. intros root p root' W H. unfold mkdirs in H. eapply mkdirs_at_spec; eassumption. Qed.

Lemma mk_parent_spec : forall root p root',
  wf_node root = true -> mk_parent root p = FOk root' ->
  wf_node root' = true /\ forall cs, file_at root' cs = file_at root cs.
Proof.
  intros root p root' W H. unfold mk_parent in H.
  destruct (dirname p) as [|d0 d]; [inv H; split; [assumption | reflexivity]|].
  destruct (routed (d0 :: d)); [eapply mkdirs_spec; eassumption | inv H; split; [assumption | reflexivity]].
Qed.

(* --- mkdir / rmdir / rmdirs: directories only, no file changes ------------------------------------------------- *)
Lemma file_at_upd_dir_entry : forall g pcs root es,
  locate root pcs = LFound (NDir es) ->
  (forall x r, file_at (NDir (g es)) (x :: r) = file_at (NDir es) (x :: r)) ->
  forall cs, file_at (upd_dir g root pcs) cs = file_at root cs.
Proof.
  intros g pcs root es Hl Hg cs. destruct (prefix_cases pcs cs) as [[rest A]|A].
  - subst cs. unfold file_at at 1 2. rewrite (locate_upd_dir_below _ _ _ _ _ Hl). rewrite (locate_app _ _ _ _ Hl).
    destruct rest as [|x r]; [reflexivity|]. apply Hg.
  - eapply file_at_upd_dir_frame; eassumption.
Qed.

Lemma mkdir_spec : forall root p root', wf_node root = true -> mkdir root p = FOk root' ->
  wf_node root' = true /\ forall cs, file_at root' cs = file_at root cs.
Proof.
  intros root p0 root' W H. unfold mkdir, parent_and_name in H. cbv zeta in H.
  generalize dependent (mkdir_path p0). intros p H.
  destruct (rsplit p) as [[h name]|]; [|discriminate].
  destruct (locate root (components h)) as [[x|es]| |] eqn:Eh; try discriminate.
  destruct (alookup name es) as [y|] eqn:Ea; [discriminate|]. inv H. split.
  - apply wf_upd_dir; [|assumption]. intros es0 A B. split; [apply names_nodup_aset; exact A | apply kids_wf_aset; [reflexivity | exact B]].
  - apply (file_at_upd_dir_entry _ _ _ _ Eh). intros x r. rewrite !file_at_dir_cons.
    destruct (str_eq_dec x name) as [E|E].
    + subst x. rewrite alookup_aset_same, Ea. destruct r; reflexivity.
    + rewrite alookup_aset_other by assumption. reflexivity.
Qed.

Lemma rmdir_spec : forall root p root', wf_node root = true -> rmdir root p = FOk root' ->
  wf_node root' = true /\ forall cs, file_at root' cs = file_at root cs.
Proof.
  intros root p0 root' W H. unfold rmdir, parent_and_name in H. cbv zeta in H.
  generalize dependent (mkdir_path p0). intros p H.
  destruct (rsplit p) as [[h name]|]; [|discriminate].
  destruct (locate root (components h)) as [[x|es]| |] eqn:Eh; try discriminate.
  destruct (alookup name es) as [[y|[|e0 es']]|] eqn:Ea; try discriminate. inv H.
  assert (Hnd : names_nodup es = true).
  { pose proof (wf_locate _ _ _ W Eh) as X. simpl in X. apply andb_true_iff in X. tauto. }
  split; [apply wf_remove; assumption|].
  apply (file_at_upd_dir_entry _ _ _ _ Eh). intros x r. rewrite !file_at_dir_cons.
  destruct (str_eq_dec x name) as [E|E].
  - subst x. rewrite alookup_aremove_same by assumption. rewrite Ea. destruct r; reflexivity.
  - rewrite alookup_aremove_other by assumption. reflexivity.
Qed.

Lemma file_at_empty_dir : forall n cs, is_empty_dir n = true -> file_at n cs = None.
Proof. intros [c|[|e es]] cs H; try discriminate. destruct cs; reflexivity. Qed.

Lemma rmdirs_at_spec : forall cs n n' b, wf_node n = true -> rmdirs_at n cs = FOk (n', b) ->
  wf_node n' = true /\ (forall cs', file_at n' cs' = file_at n cs') /\ (b = true -> forall cs', file_at n cs' = None).
Proof.
  induction cs as [|c cs IH]; intros n n' b W H.
  - simpl in H. destruct (is_empty_dir n) eqn:E; [|discriminate]. inv H. split; [assumption|]. split; [reflexivity|].
    intros _ cs'. apply file_at_empty_dir. exact E.
  - simpl in H. destruct n as [x|es]; [discriminate|].
    simpl in W. apply andb_true_iff in W. destruct W as [W1 W2].
    destruct (alookup c es) as [[y|es1]|] eqn:Ea; try discriminate.
    destruct (rmdirs_at (NDir es1) cs) as [[ch' b']|e] eqn:Er; [|discriminate].
    destruct (IH _ _ _ (kids_wf_lookup _ _ _ W2 Ea) Er) as [Wc [Fc Ec]].
    destruct b'.
    + inv H. split; [simpl; rewrite names_nodup_aremove, kids_wf_aremove by assumption; reflexivity|]. split.
      * intros [|x r]; [reflexivity|]. rewrite !file_at_dir_cons. destruct (str_eq_dec x c) as [E|E].
        -- subst x. rewrite alookup_aremove_same by assumption. rewrite Ea. symmetry. apply (Ec eq_refl).
        -- rewrite alookup_aremove_other by assumption. reflexivity.
      * intros Hb [|x r]; [reflexivity|]. rewrite file_at_dir_cons.
        destruct (aremove c es) as [|e0 l0] eqn:Erm; [|discriminate].
        destruct (str_eq_dec x c) as [E|E]; [subst x; rewrite Ea; apply (Ec eq_refl)|].
        rewrite <- (alookup_aremove_other x c es E). rewrite Erm. reflexivity.
    + inv H. split; [simpl; rewrite names_nodup_aset by assumption; simpl; apply kids_wf_aset; assumption|]. split.
      * intros [|x r]; [reflexivity|]. rewrite !file_at_dir_cons. destruct (str_eq_dec x c) as [E|E].
        -- subst x. rewrite alookup_aset_same, Ea. apply Fc.
        -- rewrite alookup_aset_other by assumption. reflexivity.
      * discriminate.
Qed.
Lemma rmdirs_spec : forall root p root', wf_node root = true -> rmdirs root p = FOk root' ->
  wf_node root' = true /\ forall cs, file_at root' cs = file_at root cs.
Proof.
  intros root p root' W H. unfold rmdirs in H. destruct (rmdirs_at root (components p)) as [[r b]|e] eqn:E; [|discriminate].
  inv H. destruct (rmdirs_at_spec _ _ _ _ W E) as [A [B _]]. split; assumption.
Qed.

(* --- one operation ------------------------------------------------------------------------------------------ *)
Lemma write_after_parent : forall root p m c,
  wf_node root = true -> routed p = true ->
  forall root' out, (match mk_parent root p with
                     | FErr e => (root, FErr e)
                     | FOk r1 => match write_file r1 p m c with
                                 | FOk r2 => (r2, FOk tt)
                                 | FErr e => (r1, FErr e)
                                 end
                     end) = (root', out) ->
  wf_node root' = true /\
  forall cs, file_at root' cs =
             match out with
             | FOk _ => aupd (file_at root) (components p) (Some (new_content p m c (file_at root (components p)))) cs
             | FErr _ => file_at root cs
             end.
Proof.
  intros root p m c W Hr root' out H.
  destruct (mk_parent root p) as [r1|e] eqn:Em; [|inv H; split; [assumption | reflexivity]].
  destruct (mk_parent_spec _ _ _ W Em) as [W1 F1].
  destruct (write_file r1 p m c) as [r2|e] eqn:Ew.
  - inv H. destruct (write_file_spec _ _ _ _ _ W1 Hr Ew) as [W2 F2]. split; [assumption|].
    intro cs. rewrite F2. unfold aupd. rewrite !F1. reflexivity.
  - inv H. split; [assumption | exact F1].
Qed.

Theorem step_spec : forall root o root' out,
  wf_node root = true -> step root o = (root', out) ->
  wf_node root' = true /\ forall cs, file_at root' cs = astep (file_at root) o out cs.
Proof.
  intros root o root' out W H. unfold step in H.
  destruct (routed (op_path o)) eqn:Hr; simpl in H; [|inv H; split; [assumption | reflexivity]].
  destruct o as [p c|p|p|p|p|p|p|p m c|p m rs|p|p|p|p]; simpl in Hr.
  - (* save *)
    unfold upd2, save_text in H.
    destruct (match mk_parent root p with FErr e => (root, FErr e) | FOk r1 =>
                match write_file r1 p w_mode c with FOk r2 => (r2, FOk tt) | FErr e => (r1, FErr e) end end) as [r o] eqn:E.
    destruct (write_after_parent _ _ _ _ W Hr _ _ E) as [W' F].
    destruct o as [[]|e]; inv H; split; try assumption; intro cs; rewrite F; reflexivity.
  - unfold obs in H. destruct (read_file root p); inv H; split; try assumption; reflexivity.
  - unfold upd in H. destruct (rm root p) as [r|e] eqn:E; inv H.
    + destruct (rm_spec _ _ _ W E) as [W' F]. split; [assumption | exact F].
    + split; [assumption | reflexivity].
  - unfold upd in H. destruct (mkdirs root p) as [r|e] eqn:E; inv H.
    + destruct (mkdirs_spec _ _ _ W E) as [W' F]. split; [assumption | exact F].
    + split; [assumption | reflexivity].
  - unfold obs in H. destruct (exists_ root p); inv H; split; try assumption; reflexivity.
  - unfold obs in H. destruct (listdir root p); inv H; split; try assumption; reflexivity.
  - unfold obs in H. destruct (isdir root p); inv H; split; try assumption; reflexivity.
  - unfold upd in H. destruct (write_file root p m c) as [r|e] eqn:E; inv H.
    + destruct (write_file_spec _ _ _ _ _ W Hr E) as [W' F]. split; [assumption | exact F].
    + split; [assumption | reflexivity].
  - unfold upd2, seq_write in H.
    destruct (match mk_parent root p with FErr e => (root, FErr e) | FOk r1 =>
                match write_file r1 p m (line_bytes rs) with FOk r2 => (r2, FOk tt) | FErr e => (r1, FErr e) end end) as [r o] eqn:E.
    destruct (write_after_parent _ _ _ _ W Hr _ _ E) as [W' F].
    destruct o as [[]|e]; inv H; split; try assumption; intro cs; rewrite F; reflexivity.
  - unfold obs in H. destruct (seq_read root p); inv H; split; try assumption; reflexivity.
  - unfold upd in H. destruct (mkdir root p) as [r|e] eqn:E; inv H.
    + destruct (mkdir_spec _ _ _ W E) as [W' F]. split; [assumption | exact F].
    + split; [assumption | reflexivity].
  - unfold upd in H. destruct (rmdir root p) as [r|e] eqn:E; inv H.
    + destruct (rmdir_spec _ _ _ W E) as [W' F]. split; [assumption | exact F].
    + split; [assumption | reflexivity].
  - unfold upd in H. destruct (rmdirs root p) as [r|e] eqn:E; inv H.
    + destruct (rmdirs_spec _ _ _ W E) as [W' F]. split; [assumption | exact F].
    + split; [assumption | reflexivity].
Qed.

(* --- histories ------------------------------------------------------------------------------------------------ *)
Lemma arun_ext : forall h outs a b, (forall cs, a cs = b cs) -> forall cs, arun a h outs cs = arun b h outs cs.
Proof.
  induction h as [|o h IH]; intros outs a b E cs; [simpl; apply E|].
  destruct outs as [|out outs]; [simpl; apply E|]. simpl. apply IH.
  intro cs'. destruct out; simpl; try apply E.
  destruct o; simpl; try apply E; unfold aupd; destruct (strs_eqb cs' _); try reflexivity; try apply E; rewrite E; reflexivity.
Qed.

Theorem run_trace_refines : forall h root,
  wf_node root = true ->
  wf_node (fst (run_trace root h)) = true /\
  forall cs, file_at (fst (run_trace root h)) cs = arun (file_at root) h (snd (run_trace root h)) cs.
Proof.
  induction h as [|o h IH]; intros root W; [split; [exact W | reflexivity]|].
  simpl. destruct (step root o) as [r1 out] eqn:Es.
  destruct (step_spec _ _ _ _ W Es) as [W1 F1].
  destruct (run_trace r1 h) as [r2 outs] eqn:Er. simpl.
  destruct (IH r1 W1) as [W2 F2]. rewrite Er in W2, F2. simpl in W2, F2.
  split; [exact W2|]. intro cs. rewrite F2. apply arun_ext. exact F1.
Qed.

(* --- corollaries ---------------------------------------------------------------------------------------------- *)
Lemma run_trace_length : forall h root, length (snd (run_trace root h)) = length h.
Proof.
  induction h as [|o h IH]; intro root; [reflexivity|].
  simpl. destruct (step root o) as [r1 out]. specialize (IH r1). destruct (run_trace r1 h) as [r2 outs]. simpl in *. congruence.
Qed.
Lemma arun_afold : forall h outs a, length outs = length h -> forall cs, arun a h outs cs = afold a (combine h outs) cs.
Proof.
  induction h as [|o h IH]; intros outs a L cs; [reflexivity|].
  destruct outs as [|out outs]; [discriminate|]. simpl. apply IH. simpl in L. congruence.
Qed.

Theorem memfs_refines_trace : forall h root, wf_node root = true ->
  forall cs, file_at (run_fs root h) cs = afold (file_at root) (trace_of root h) cs.
Proof.
  intros h root W cs. unfold run_fs, trace_of. destruct (run_trace_refines h root W) as [_ F]. rewrite F.
  apply arun_afold. apply run_trace_length.
Qed.

Theorem read_your_writes_trace : forall h root p, wf_node root = true ->
  (forall c, afold (file_at root) (trace_of root h) (components p) = Some c -> read_file (run_fs root h) p = FOk c) /\
  (afold (file_at root) (trace_of root h) (components p) = None -> exists e, read_file (run_fs root h) p = FErr e).
Proof.
  intros h root p W. split.
  - intros c H. apply read_file_file_at. rewrite memfs_refines_trace by assumption. exact H.
  - intro H. apply read_file_err. rewrite memfs_refines_trace by assumption. exact H.
Qed.

(* operations that do not touch a path leave it alone, whatever they report *)
Lemma astep_untouched : forall a o out cs, ~ touches o cs -> astep a o out cs = a cs.
Proof.
  intros a o out cs H. destruct out; try reflexivity.
  destruct o; simpl in *; try reflexivity; apply aupd_other; congruence.
Qed.
Lemma afold_untouched : forall t a cs, (forall x, In x t -> ~ touches (fst x) cs) -> afold a t cs = a cs.
Proof.
  induction t as [|x t IH]; intros a cs H; [reflexivity|].
  unfold afold in *. simpl. rewrite IH by (intros; apply H; right; assumption).
  apply astep_untouched. apply H. left. reflexivity.
Qed.
Lemma afold_app : forall t1 t2 a, afold a (t1 ++ t2) = afold (afold a t1) t2.
Proof. intros. unfold afold. apply fold_left_app. Qed.
Lemma afold_cons : forall x t a, afold a (x :: t) = afold (astep a (fst x) (snd x)) t.
Proof. reflexivity. Qed.

(* the last successful save to a path is what is read there, whatever happened elsewhere in between *)
Theorem last_save_wins : forall root h p t1 p' c t2, wf_node root = true ->
  trace_of root h = t1 ++ (OSave p' c, RUnit) :: t2 ->
  components p' = components p -> slashed p' = false ->
  (forall x, In x t2 -> ~ touches (fst x) (components p)) ->
  read_file (run_fs root h) p = FOk c.
Proof.
  intros root h p t1 p' c t2 W Et Ec Hs Hun.
  apply read_file_file_at. rewrite memfs_refines_trace by assumption. rewrite Et.
  rewrite afold_app. rewrite afold_cons.
  rewrite afold_untouched by assumption. simpl. rewrite <- Ec. rewrite aupd_same.
  unfold new_content. destruct (afold (file_at root) t1 (components p')); [|reflexivity].
  rewrite Hs. reflexivity.
Qed.

(* ... and a removed path stays unreadable until it is written again *)
Theorem removed_stays_removed : forall root h p t1 p' t2, wf_node root = true ->
  trace_of root h = t1 ++ (ORm p', RUnit) :: t2 ->
  rm_target p' = components p ->
  (forall x, In x t2 -> ~ touches (fst x) (components p)) ->
  exists e, read_file (run_fs root h) p = FErr e.
Proof.
  intros root h p t1 p' t2 W Et Ec Hun.
  apply read_file_err. rewrite memfs_refines_trace by assumption. rewrite Et.
  rewrite afold_app. rewrite afold_cons.
  rewrite afold_untouched by assumption. simpl. rewrite <- Ec. apply aupd_same.
Qed.

(* --- values: pg.load returns the last value saved -------------------------------------------------------------- *)
Section SaveLoadProofs.
  Variable V : Type.
  Variable ser : V -> str.
  Variable deser : str -> result V.
  Variable okv : V -> Prop.
  Hypothesis deser_ser : forall v, okv v -> deser (ser v) = Ok v.

  Theorem load_last_saved : forall root h p t1 p' v t2, wf_node root = true -> okv v ->
    trace_of root h = t1 ++ (pg_save_op V ser p' v, RUnit) :: t2 ->
    components p' = components p -> slashed p' = false ->
    (forall x, In x t2 -> ~ touches (fst x) (components p)) ->
    pg_load V deser (run_fs root h) p = FOk (Ok v).
  Proof.
    intros root h p t1 p' v t2 W Hv Et Ec Hs Hun. unfold pg_load.
    rewrite (last_save_wins root h p t1 p' (ser v) t2 W Et Ec Hs Hun). rewrite deser_ser by assumption. reflexivity.
  Qed.
End SaveLoadProofs.

(* --- line sequences --------------------------------------------------------------------------------------------- *)
Lemma no_nl_cons : forall c r, no_nl (c :: r) = true -> N.eqb c_nl c = false /\ no_nl r = true.
Proof.
  intros c r H. unfold no_nl in *. simpl in H. apply negb_true_iff in H. apply orb_false_iff in H. destruct H as [A B].
  split; [exact A | apply negb_true_iff; exact B].
Qed.
Lemma rstrip_nl_no_nl : forall r, no_nl r = true -> rstrip_nl r = r.
Proof.
  induction r as [|c r IH]; intro H; [reflexivity|].
  apply no_nl_cons in H. destruct H as [A B]. simpl. rewrite IH by assumption.
  destruct r; [rewrite N.eqb_sym, A; reflexivity | reflexivity].
Qed.
Lemma lines_record : forall r rest, no_nl r = true -> lines (r ++ c_nl :: rest) = r :: lines rest.
Proof.
  induction r as [|c r IH]; intros rest H.
  - simpl. reflexivity.
  - apply no_nl_cons in H. destruct H as [A B]. simpl. rewrite N.eqb_sym, A. rewrite IH by assumption. reflexivity.
Qed.
Lemma line_bytes_app : forall a b, line_bytes (a ++ b) = line_bytes a ++ line_bytes b.
Proof. intros. unfold line_bytes. rewrite map_app, concat_app. reflexivity. Qed.
Theorem lines_line_bytes : forall rs, forallb no_nl rs = true -> lines (line_bytes rs) = rs.
Proof.
  induction rs as [|r rs IH]; intro H; [reflexivity|].
  simpl in H. apply andb_true_iff in H. destruct H as [A B].
  unfold line_bytes. simpl. rewrite rstrip_nl_no_nl by assumption. rewrite <- app_assoc. simpl.
  rewrite lines_record by assumption. f_equal. apply IH. exact B.
Qed.

Definition track_inv (cs : list str) (t : tracked) (a : amap) : Prop :=
  match t with
  | TAbsent => a cs = None
  | TRecords rs => a cs = Some (line_bytes rs)
  | TOther => True
  end.
Lemma track_step_inv : forall cs t a x, track_inv cs t a -> track_inv cs (track_step cs t x) (astep a (fst x) (snd x)).
Proof.
  intros cs t a [o out] Hinv. unfold track_step. simpl.
  destruct out; try exact Hinv.
  destruct o as [p c|p|p|p|p|p|p|p m c|p m rs|p|p|p|p]; try exact Hinv; simpl.
  - destruct (strs_eqb (components p) cs) eqn:E; [exact I|].
    assert (Hne : cs <> components p) by (intro X; subst; rewrite strs_eqb_refl in E; discriminate).
    destruct t; simpl in *; try rewrite aupd_other by assumption; auto.
  - destruct (strs_eqb (rm_target p) cs) eqn:E.
    + apply strs_eqb_eq in E. subst cs. simpl. apply aupd_same.
    + assert (Hne : cs <> rm_target p) by (intro X; subst; rewrite strs_eqb_refl in E; discriminate).
      destruct t; simpl in *; try rewrite aupd_other by assumption; auto.
  - destruct (strs_eqb (components p) cs) eqn:E; [exact I|].
    assert (Hne : cs <> components p) by (intro X; subst; rewrite strs_eqb_refl in E; discriminate).
    destruct t; simpl in *; try rewrite aupd_other by assumption; auto.
  - destruct (strs_eqb (components p) cs) eqn:E.
    + apply strs_eqb_eq in E. subst cs.
      destruct t as [|r0|]; simpl in *.
      * rewrite aupd_same. rewrite Hinv. reflexivity.
      * unfold new_content. rewrite Hinv.
        destruct (m_w m && negb (slashed p)); simpl; [apply aupd_same|].
        destruct (m_a m); simpl; [|exact I]. rewrite aupd_same. rewrite line_bytes_app. reflexivity.
      * destruct (m_w m && negb (slashed p)) eqn:Ew; simpl; [|exact I].
        rewrite aupd_same. unfold new_content. destruct (a (components p)); [rewrite Ew|]; reflexivity.
    + assert (Hne : cs <> components p) by (intro X; subst; rewrite strs_eqb_refl in E; discriminate).
      destruct t; simpl in *; try rewrite aupd_other by assumption; auto.
Qed.
Lemma track_fold_inv : forall cs tr t a, track_inv cs t a -> track_inv cs (fold_left (track_step cs) tr t) (afold a tr).
Proof.
  induction tr as [|x tr IH]; intros t a H; [exact H|].
  rewrite afold_cons. simpl. apply IH. apply track_step_inv. exact H.
Qed.

(* records appended to a line sequence on /mem/ are the records read back *)
Theorem lineseq_append_read : forall root h p rs, wf_node root = true ->
  file_at root (components p) = None ->
  track (components p) (trace_of root h) = TRecords rs -> forallb no_nl rs = true ->
  seq_read (run_fs root h) p = FOk rs.
Proof.
  intros root h p rs W H0 Ht Hn.
  pose proof (track_fold_inv (components p) (trace_of root h) TAbsent (file_at root) H0) as Hinv.
  unfold track in Ht. rewrite Ht in Hinv. simpl in Hinv.
  assert (Hr : read_file (run_fs root h) p = FOk (line_bytes rs)).
  { apply read_file_file_at. rewrite memfs_refines_trace by assumption. exact Hinv. }
  unfold seq_read. rewrite Hr. rewrite lines_line_bytes by assumption. reflexivity.
Qed.
Theorem lineseq_absent : forall root h p, wf_node root = true ->
  file_at root (components p) = None ->
  track (components p) (trace_of root h) = TAbsent -> exists e, seq_read (run_fs root h) p = FErr e.
Proof.
  intros root h p W H0 Ht.
  pose proof (track_fold_inv (components p) (trace_of root h) TAbsent (file_at root) H0) as Hinv.
  unfold track in Ht. rewrite Ht in Hinv. simpl in Hinv.
  unfold seq_read. destruct (read_file_err (run_fs root h) p) as [e He].
  - rewrite memfs_refines_trace by assumption. exact Hinv.
  - rewrite He. eexists. reflexivity.
Qed.

(* --- pg.save / pg.load with the JSON string form ------------------------------------------------------------------ *)
Theorem load_last_saved_json : forall (dumps : jv -> str) (loads : str -> option jv),
  (forall j, sj_ok j = true -> loads (dumps j) = Some j) ->
  forall q ct root h p t1 p' v t2,
  (q_empty_tuple q = false \/ no_empty_tuple v = true) -> ct_ok ct = true -> ser_ok ct v = true -> str_ok v = true ->
  wf_node root = true ->
  trace_of root h = t1 ++ (pg_save_op pv (to_str str dumps) p' v, RUnit) :: t2 ->
  components p' = components p -> slashed p' = false ->
  (forall x, In x t2 -> ~ touches (fst x) (components p)) ->
  pg_load pv (of_str str loads q ct) (run_fs root h) p = FOk (Ok v).
Proof.
  intros dumps loads Hjson q ct root h p t1 p' v t2 Hq Hct Hs Hst W Et Ec Hsl Hun.
  apply (load_last_saved pv (to_str str dumps) (of_str str loads q ct)
           (fun v => ser_ok ct v = true /\ str_ok v = true /\ (q_empty_tuple q = false \/ no_empty_tuple v = true)))
    with (t1 := t1) (p' := p') (t2 := t2); auto.
  intros v0 [A [B C]]. apply str_roundtrip_general; assumption.
Qed.

(* --- witnesses ------------------------------------------------------------------------------------------------------ *)
Definition sp (l : list N) : str := l.
(* "/mem/m.json", "/mem/e/m", "/mem/mem/x": the look-alike paths keep their own components *)
Definition p_mjson : str := [47; 109; 101; 109; 47; 109; 46; 106; 115; 111; 110]%N.
Definition p_em : str := [47; 109; 101; 109; 47; 101; 47; 109]%N.
Definition p_memx : str := [47; 109; 101; 109; 47; 109; 101; 109; 47; 120]%N.
Theorem lookalike_components :
  components p_mjson = [[109; 46; 106; 115; 111; 110]%N] /\
  components p_em = [[101%N]; [109%N]] /\
  components p_memx = [[109; 101; 109]%N; [120%N]].
Proof. vm_compute. repeat split. Qed.

Definition ex_hist : list op := [OSave p_mjson [49%N]; OMkdirs p_em; OSave p_memx [50%N]; OSave p_mjson [51%N]; OSave p_em [52%N]].
Example ex_last_save : 
  wf_node empty_fs = true /\
  trace_of empty_fs ex_hist =
    [(OSave p_mjson [49%N], RUnit); (OMkdirs p_em, RUnit); (OSave p_memx [50%N], RUnit)] ++
    (OSave p_mjson [51%N], RUnit) :: [(OSave p_em [52%N], RErr FIsDir)] /\
  slashed p_mjson = false /\
  read_file (run_fs empty_fs ex_hist) p_mjson = FOk [51%N] /\
  read_file (run_fs empty_fs ex_hist) p_memx = FOk [50%N].
Proof. vm_compute. repeat split. Qed.
Example ex_untouched : forall x, In x [(OSave p_em [52%N], RErr FIsDir)] -> ~ touches (fst x) (components p_mjson).
Proof. intros x [E|[]]. subst x. vm_compute. discriminate. Qed.
Example ex_lineseq :
  let h := [OSeqWrite p_em w_mode [[97%N]; [98%N]]; OSave p_mjson [49%N]; OSeqWrite p_em a_mode [[99%N]]] in
  track (components p_em) (trace_of empty_fs h) = TRecords [[97%N]; [98%N]; [99%N]] /\
  seq_read (run_fs empty_fs h) p_em = FOk [[97%N]; [98%N]; [99%N]].
Proof. vm_compute. split; reflexivity. Qed.
(* a record containing a line feed does not survive a line sequence: the reservation of the line format *)
Theorem newline_record_refuted :
  let h := [OSeqWrite p_em w_mode [[97; 10; 98]%N]] in
  seq_read (run_fs empty_fs h) p_em = FOk [[97%N]; [98%N]].
Proof. vm_compute. reflexivity. Qed.

Example ex_parent_and_name :
  routed p_em = true /\ rsplit p_em = Some ([47; 109; 101; 109; 47; 101]%N, [109%N]) /\
  components p_em = components [47; 109; 101; 109; 47; 101]%N ++ name_part [109%N].
Proof. vm_compute. repeat split. Qed.
Example ex_removed :
  trace_of empty_fs [OSave p_mjson [49%N]; ORm p_mjson; ORead p_em] =
    [(OSave p_mjson [49%N], RUnit)] ++ (ORm p_mjson, RUnit) :: [(ORead p_em, RErr FNotFound)] /\
  rm_target p_mjson = components p_mjson /\
  (forall x, In x [(ORead p_em, RErr FNotFound)] -> ~ touches (fst x) (components p_mjson)).
Proof. split; [reflexivity|]. split; [reflexivity|]. intros x [E|[]]. subst x. simpl. tauto. Qed.
Example ex_read_your_writes :
  afold (file_at empty_fs) (trace_of empty_fs ex_hist) (components p_mjson) = Some [51%N] /\
  afold (file_at empty_fs) (trace_of empty_fs ex_hist) (components p_em) = None.
Proof. vm_compute. split; reflexivity. Qed.

(* SymCoreEventsWF.v -- in a well-formed state the chain of a written container consists of that container and its actual
   ancestors, one node per position, pairwise distinct ids; every state a trace mentions is well-formed. *)
From PG Require Import Common.Tactics Model.SymCoreDefs Model.SymCoreOps Model.SymCoreSpec Model.SymCoreEvents
     Proofs.SymCoreBase Proofs.SymCoreWF Proofs.SymCoreClone Proofs.SymCoreWFOps Proofs.SymCoreIds
     Proofs.SymCoreEventsBase Proofs.SymCoreEventsDeliver Proofs.SymCoreEventsStep.
From Coq Require Import NArith Permutation.

Lemma in_inits : forall A (p pre : list A), In pre (inits p) <-> exists rest, p = pre ++ rest.
Proof.
  induction p; simpl; intros.
  - split. intros [H|[]]; subst; exists []; auto. intros [rest E]. destruct pre; auto. discriminate.
  - split.
    + intros [H|H]. subst. exists (a :: p); auto.
      apply in_map_iff in H. destruct H as [x [E I]]. subst. apply IHp in I. destruct I as [rest E]. exists rest. subst; auto.
    + intros [rest E]. destruct pre. auto. right. inv E. apply in_map. apply IHp. eauto.
Qed.
Lemma chain_at_in : forall st r p n, In n (chain_at st (r, p)) ->
  exists pre rest, p = pre ++ rest /\ get_at st (r, pre) = Some n.
Proof.
  intros. unfold chain_at in H. simpl in H. apply in_flat_map in H. destruct H as [pre [I G]].
  unfold prefixes_desc in I. apply in_rev in I. apply in_inits in I. destruct I as [rest E].
  destruct (get_at st (r, pre)) eqn:GA; simpl in G; [|contradiction]. destruct G as [G|[]]. subst. eauto.
Qed.
Lemma get_at_app : forall st r p q, get_at st (r, p ++ q) = match get_at st (r, p) with Some c => get_in q c | None => None end.
Proof. intros. unfold get_at. simpl. destruct (get_root st r); auto. apply get_in_app. Qed.
Lemma get_in_leaf : forall q l n, get_in q (Leaf l) = Some n -> q = [] /\ n = Leaf l.
Proof. destruct q; simpl; intros. inv H; auto. discriminate. Qed.
(* the nodes above a symbolic node are symbolic nodes *)
Lemma prefix_is_node : forall st r pre rest n i k pa pt fl its,
  get_at st (r, pre ++ rest) = Some (Node i k pa pt fl its) -> get_at st (r, pre) = Some n -> is_node n = true.
Proof.
  intros. rewrite get_at_app, H0 in H. destruct n; auto. apply get_in_leaf in H. destruct H. discriminate.
Qed.

(* every member of the chain of the node with id [i] is a symbolic node stored at a prefix of that node's position *)
Lemma chain_of_in : forall st i n, wfs st -> In n (chain_of st i) ->
  exists r p pre rest, locate st i = Some (r, p) /\ p = pre ++ rest /\ get_at st (r, pre) = Some n /\ is_node n = true.
Proof.
  intros. unfold chain_of in H0. destruct (locate st i) as [[r p]|] eqn:L; [|contradiction].
  destruct (locate_spec _ _ _ H L) as (k & pa & pt & fl & its & G).
  apply chain_at_in in H0. destruct H0 as (pre & rest & E & GA). subst.
  exists r, (pre ++ rest), pre, rest. repeat split; auto. eapply prefix_is_node; eauto.
Qed.

Lemma affected_in : forall st ups n, In n (affected st ups) -> exists u, In u ups /\ In n (chain_of st (u_tid u)).
Proof.
  intros. unfold affected, pairs in H. apply in_map_iff in H. destruct H as [[m u] [E I]]. simpl in E. subst m.
  apply in_flat_map in I. destruct I as [u' [I1 I2]]. apply in_map_iff in I2. destruct I2 as [x [E I2]]. inv E. eauto.
Qed.
Lemma in_affected : forall st ups u n, In u ups -> In n (chain_of st (u_tid u)) -> In n (affected st ups).
Proof.
  intros. unfold affected, pairs. apply in_map_iff. exists (n, u). split; auto.
  apply in_flat_map. exists u. split; auto. apply in_map_iff. exists n. auto.
Qed.

Theorem affected_inj : forall st ups, WFI st -> inj_ids (affected st ups).
Proof.
  intros st ups W n m In1 In2 E. destruct W as [W I].
  apply affected_in in In1. apply affected_in in In2. destruct In1 as (u1 & _ & C1). destruct In2 as (u2 & _ & C2).
  destruct (chain_of_in _ _ _ W C1) as (r1 & p1 & pre1 & rest1 & _ & _ & G1 & N1).
  destruct (chain_of_in _ _ _ W C2) as (r2 & p2 & pre2 & rest2 & _ & _ & G2 & N2).
  destruct n as [|i1 k1 pa1 pt1 fl1 its1]; [discriminate|]. destruct m as [|i2 k2 pa2 pt2 fl2 its2]; [discriminate|].
  unfold nid0 in E. simpl in E. subst i2.
  destruct (no_node_twice _ _ _ _ _ _ _ _ _ _ _ _ _ _ _ _ (conj W I) G1 G2). subst. congruence.
Qed.

(* --- every state a trace mentions is well-formed ------------------------------------------------------------------------------ *)
Definition st_of (e : tentry) : state := match e with TW st _ => st | TN st _ _ => st end.
Definition trace_ok (t : trace) : Prop := Forall (fun e => WFI (st_of e)) t.
Lemma trace_ok_nil : trace_ok []. Proof. constructor. Qed.
Lemma trace_ok_app : forall a b, trace_ok a -> trace_ok b -> trace_ok (a ++ b).
Proof. unfold trace_ok; intros; apply Forall_app; auto. Qed.
Lemma trace_ok_cons : forall e t, WFI (st_of e) -> trace_ok t -> trace_ok (e :: t).
Proof. intros; constructor; auto. Qed.
Lemma ntf_ok : forall sc st ups, WFI st -> trace_ok (ntf sc st ups).
Proof. intros. unfold ntf, trace_ok. destruct ups; auto. destruct (notify_on sc); auto. Qed.
#[global] Hint Resolve trace_ok_nil trace_ok_app trace_ok_cons ntf_ok : c09.

Definition quiet (sc : scope) : scope := mkScope (sc_sealed sc) (sc_aw sc) [false] (sc_partial sc).

Section TraceOK.
Variable q : quirks.

Lemma prim_WFI : forall pr sc st cp k rv st' p,
  pr = lprim q \/ pr = dprim q \/ pr = oprim q ->
  WFI st -> rv_ok rv -> pr sc st cp k rv = (st', p) -> WFI st'.
Proof.
  intros pr sc st cp k rv st' p [E|[E|E]] W OK P; subst pr; eapply WFI_step; eauto; destruct W as [W I].
  - eapply lprim_wfs; eauto. - eapply lprim_ids; eauto. split; auto.
  - eapply dprim_wfs; eauto. - eapply dprim_ids; eauto. split; auto.
  - eapply oprim_wfs; eauto. - eapply oprim_ids; eauto. split; auto.
Qed.
Lemma wtrace_ok : forall st st' cp ky rv p, WFI st' -> trace_ok (fst (wtrace st st' cp ky rv p)).
Proof. intros. unfold wtrace. destruct p; simpl; auto with c09. Qed.
Lemma write1_ok : forall pr sc st ps ky rv,
  pr = lprim q \/ pr = dprim q \/ pr = oprim q -> WFI st -> rv_ok rv -> trace_ok (write1_tr pr sc st ps ky rv).
Proof.
  intros. unfold write1_tr. destruct (pr sc st ps ky rv) as [st' p] eqn:P.
  assert (WFI st') by (eapply prim_WFI; eauto).
  destruct p; simpl; auto with c09.
Qed.
Lemma extend_tr_ok : forall sc rvs st ps, WFI st -> Forall rv_ok rvs ->
  trace_ok (fst (fst (fst (extend_tr q sc st ps rvs)))) /\ WFI (snd (fst (extend_tr q sc st ps rvs))).
Proof.
  induction rvs; simpl; intros; auto with c09. inv H0.
  destruct (lprim q sc st ps (KI (cur_len st ps)) a) as [st' p] eqn:E.
  assert (W : WFI st') by (eapply (prim_WFI (lprim q)); eauto).
  destruct (IHrvs st' ps W H4) as [T S]. assert (WT := wtrace_ok st st' ps (KI (cur_len st ps)) a).
  destruct (extend_tr q sc st' ps rvs) as [[[t u] stf] ok]. simpl in *.
  destruct p; simpl; auto with c09.
Qed.
Lemma extend_core_ok : forall sc rvs st ps, WFI st -> Forall rv_ok rvs -> trace_ok (extend_core_tr q sc st ps rvs).
Proof.
  intros. unfold extend_core_tr. destruct (extend_tr_ok sc rvs st ps H H0) as [T S].
  destruct (extend_tr q sc st ps rvs) as [[[t u] stf] ok]. simpl in *. destruct ok; auto with c09.
Qed.
Lemma rebind_one_tr_ok : forall sc st tp path rv, WFI st -> rv_ok rv -> trace_ok (fst (rebind_one_tr q sc st tp path rv)).
Proof.
  intros. unfold rebind_one_tr.
  destruct path as [|k path']; [apply trace_ok_nil|].
  set (rl := removelast (k :: path')). set (lk := last (k :: path') (KI 0)).
  destruct (get_at st tp); [|apply trace_ok_nil].
  destruct (query_path n rl); [|apply trace_ok_nil].
  destruct (get_at st (fst tp, snd tp ++ l)) as [[lf|cid ck cpa cpt cfl cits]|]; try apply trace_ok_nil.
  destruct (treats_as_sealed sc cfl); [apply trace_ok_nil|].
  destruct (prim q sc st (fst tp, snd tp ++ l) lk rv) as [st' p] eqn:P.
  apply wtrace_ok. eapply WFI_step; eauto. destruct H. eapply prim_wfs; eauto. eapply prim_ids; eauto.
Qed.
Lemma rebind_tr_ok : forall sc pvs st tp, WFI st -> Forall (fun kv => rv_ok (snd kv)) pvs ->
  trace_ok (fst (fst (fst (rebind_tr q sc st tp pvs)))) /\ WFI (snd (fst (rebind_tr q sc st tp pvs))).
Proof.
  induction pvs as [|[p rv] r IH]; simpl; intros; auto with c09. inv H0. simpl in H3.
  destruct (rebind_one q sc st tp p rv) as [[st' pr] c] eqn:R.
  assert (W : WFI st'). { eapply WFI_step; eauto. destruct H. eapply rebind_one_wfs; eauto. eapply rebind_one_rel; eauto. }
  assert (T1 := rebind_one_tr_ok sc st tp p rv H H3).
  destruct (IH st' tp W H4) as [T S].
  destruct (rebind_tr q sc st' tp r) as [[[t u] stf] ok]. destruct (rebind_one_tr q sc st tp p rv) as [tw us]. simpl in *.
  destruct pr; simpl; auto with c09.
Qed.
Lemma sort_desc_forall' : forall A (P : list key * A -> Prop) l, Forall P l -> Forall P (sort_desc l).
Proof. exact sort_desc_forall. Qed.
Lemma rebind_core_ok : forall sc st tp tk pvs nt stop, WFI st -> Forall (fun kv => rv_ok (snd kv)) pvs ->
  trace_ok (rebind_core_tr q sc st tp tk pvs nt stop).
Proof.
  intros. unfold rebind_core_tr.
  set (ordered := match tk with KList => sort_desc pvs | _ => pvs end).
  assert (O : Forall (fun kv => rv_ok (snd kv)) ordered) by (unfold ordered; destruct tk; auto using sort_desc_forall').
  destruct (rebind_tr_ok sc ordered st tp H O) as [T S].
  destruct (rebind_tr q sc st tp ordered) as [[[t u] stf] ok]. simpl in *.
  destruct (ok && nt); auto. apply trace_ok_app; auto.
  destruct (match tk with KList => rev u | _ => u end); auto with c09.
Qed.
End TraceOK.

Section TraceOK2.
Variable q : quirks.

Lemma ldel_tr_ok : forall sc st ps idx tid pa pt fl its,
  WFI st -> get_at st ps = Some (Node tid KList pa pt fl its) -> trace_ok (ldel_tr sc st ps idx).
Proof.
  intros sc st ps idx tid pa pt fl its W G. unfold ldel_tr.
  destruct (nth_error (cur_items st ps) idx) as [[k old]|] eqn:NE; [|apply trace_ok_nil].
  set (st2 := add_detached (update_at st ps (set_items (renum (cur_path st ps) (remove_nth idx (cur_items st ps))))) old).
  assert (L : ldel_core (quiet sc) st ps idx = (st2, ret_item st2 old)).
  { unfold ldel_core. rewrite NE. reflexivity. }
  assert (W2 : WFI st2).
  { eapply WFI_step; eauto. destruct W. eapply ldel_core_wfs; eauto. eapply ldel_core_rel; eauto. }
  auto with c09.
Qed.
Lemma clear_list_tr_ok : forall st ps tid tk pa tpth fl its,
  WFI st -> get_at st ps = Some (Node tid tk pa tpth fl its) -> keys_ok tk [] ->
  WFI (detach_all (update_at st ps (set_items [])) its).
Proof.
  intros. set (sc := mkScope [] [] [] []).
  assert (E : clear_core (quiet sc) st ps its = detach_all (update_at st ps (set_items [])) its).
  { unfold clear_core. destruct its; reflexivity. }
  rewrite <- E. eapply WFI_step; eauto. destruct H. eapply clear_core_wfs; eauto. eapply clear_core_rel; eauto.
Qed.
Lemma reorder_ok : forall sc st ps tid pa tpth fl its its',
  WFI st -> get_at st ps = Some (Node tid KList pa tpth fl its) ->
  Forall (child_wf tid tpth) its' -> Permutation (ids_items its') (ids_items its) ->
  trace_ok (reorder_tr sc st ps tid tpth its its').
Proof.
  intros. unfold reorder_tr.
  assert (WFI (update_at st ps (set_items (renum tpth its')))).
  { assert (E : reorder_core (quiet sc) st ps tpth its its' = update_at st ps (set_items (renum tpth its'))).
    { unfold reorder_core. replace (notify_on (quiet sc)) with false by reflexivity. rewrite andb_false_r. auto. }
    rewrite <- E. eapply WFI_step; eauto. destruct H. eapply reorder_core_wfs; eauto. eapply reorder_core_rel; eauto. }
  destruct (reorder_ups tpth tid 0 its (renum tpth its')); auto with c09.
Qed.

Lemma exec_quiet_wfi : forall sc st ps tid tk pa tpth tfl its o,
  WFI st -> get_at st ps = Some (Node tid tk pa tpth tfl its) -> kind_ok tk o = true -> op_ok o ->
  WFI (fst (exec q (quiet sc) st ps tid tk tpth tfl its o)).
Proof.
  intros. destruct (exec q (quiet sc) st ps tid tk tpth tfl its o) as [st' out] eqn:E. simpl.
  eapply WFI_step; eauto. destruct H. eapply exec_wfs; eauto. eapply exec_rel; eauto.
Qed.

Lemma exec_trace_ok : forall sc st ps tid tk pa tpth tfl its o,
  WFI st -> get_at st ps = Some (Node tid tk pa tpth tfl its) -> kind_ok tk o = true -> op_ok o ->
  trace_ok (exec_trace q sc st ps tid tk tpth tfl its o).
Proof.
  intros sc st ps tid tk pa tpth tfl its o W G K OK.
  assert (CF := container_facts _ _ _ _ _ _ _ _ (proj1 W) G). destruct CF as (Ept & KO & CH).
  assert (QW := exec_quiet_wfi sc st ps tid tk pa tpth tfl its).
  unfold exec_trace.
  destruct o; simpl in OK; try apply trace_ok_nil;
    try (destruct tk; try discriminate K).
  - (* LSet *) repeat (destr_if; try apply trace_ok_nil); apply (write1_ok q); auto.
  - (* LDel *) repeat (destr_if; try apply trace_ok_nil); eapply ldel_tr_ok; eauto.
  - (* LAppend *) repeat (destr_if; try apply trace_ok_nil); apply (write1_ok q); auto.
  - (* LInsert *) repeat (destr_if; try apply trace_ok_nil); apply (write1_ok q); auto.
  - (* LExtend *) repeat (destr_if; try apply trace_ok_nil); apply extend_core_ok; auto.
  - (* LPop *) repeat (destr_if; try apply trace_ok_nil); eapply ldel_tr_ok; eauto.
  - (* LRemove *) destruct (find_index _ its); [|apply trace_ok_nil]. repeat (destr_if; try apply trace_ok_nil); eapply ldel_tr_ok; eauto.
  - (* LClear *) destr_if; [apply trace_ok_nil|]. unfold clear_list_tr.
    assert (WFI (detach_all (update_at st ps (set_items [])) its)) by (eapply clear_list_tr_ok; eauto; simpl; auto).
    auto with c09.
  - (* LReverse *) destr_if; [apply trace_ok_nil|]. eapply reorder_ok; eauto. apply Forall_rev; auto. apply perm_rev.
  - (* LSort *) destr_if; [apply trace_ok_nil|]. eapply reorder_ok; eauto. apply sorted_forall; auto. apply perm_sorted.
  - (* LIAdd *) repeat (destr_if; try apply trace_ok_nil); apply extend_core_ok; auto.
  - (* LIMul *) repeat (destr_if; try apply trace_ok_nil).
    + unfold clear_list_tr.
      assert (WFI (detach_all (update_at st ps (set_items [])) its)) by (eapply clear_list_tr_ok; eauto; simpl; auto).
      auto with c09.
    + apply extend_core_ok; auto. apply repeat_list_forall. apply rv_of_item_ok.
  - (* LAdd *) destr_if; [apply trace_ok_nil|]. destruct (new_list_from q st its) as [c st1] eqn:NL.
    destruct (new_list_from_wfs _ _ _ _ _ _ _ (proj1 W) CH NL) as (W1 & N1 & Wc).
    pose proof (new_list_from_rel _ _ _ _ _ NL) as R1.
    assert (WI1 : WFI (add_root st1 c)) by (eapply WFI_step; eauto using wfs_add_root).
    apply extend_core_ok; auto.
  - (* LMul *) destr_if; [apply trace_ok_nil|]. destruct (new_list_from q st []) as [c st1] eqn:NL.
    destruct (new_list_from_wfs q st [] c st1 tid (snd ps) (proj1 W) (Forall_nil _) NL) as (W1 & N1 & Wc).
    pose proof (new_list_from_rel _ _ _ _ _ NL) as R1.
    assert (WI1 : WFI (add_root st1 c)) by (eapply WFI_step; eauto using wfs_add_root).
    apply extend_tr_ok; auto. apply repeat_list_forall. apply rv_of_item_ok.
  - (* DSet *) repeat (destr_if; try apply trace_ok_nil); apply (write1_ok q); auto.
  - (* DDel *) repeat (destr_if; try apply trace_ok_nil); apply (write1_ok q); simpl; auto.
  - (* DPop *) destruct (assoc k its); [|apply trace_ok_nil]. repeat (destr_if; try apply trace_ok_nil); apply (write1_ok q); simpl; auto.
  - (* DPopItem *) destr_if; [apply trace_ok_nil|]. destruct (rev its) as [|[k old] r] eqn:R; [apply trace_ok_nil|].
    assert (X := QW DPopItem W G eq_refl I). simpl in X.
    change (treats_as_sealed (quiet sc) tfl) with (treats_as_sealed sc tfl) in X. rewrite Heqb, R in X. simpl in X.
    auto with c09.
  - (* DClear *) destr_if; [apply trace_ok_nil|].
    assert (WFI (detach_all (update_at st ps (set_items [])) its)) by (eapply clear_list_tr_ok; eauto; simpl; constructor).
    auto with c09.
  - (* DSetDefault *) destruct (assoc k its); repeat (destr_if; try apply trace_ok_nil); apply (write1_ok q); auto.
  - (* DUpdate *) apply rebind_core_ok; auto. clear - OK. induction kvs; simpl; auto. inv OK. constructor; auto.
  - (* DIOr *) apply rebind_core_ok; auto. clear - OK. induction kvs; simpl; auto. inv OK. constructor; auto.
  - (* OSet *) repeat (destr_if; try apply trace_ok_nil); apply (write1_ok q); auto.
  - (* Rebind *) destruct pvs; [apply trace_ok_nil|]. apply rebind_core_ok; auto.
  - destruct pvs; [apply trace_ok_nil|]. apply rebind_core_ok; auto.
  - destruct pvs; [apply trace_ok_nil|]. destr_if; [apply trace_ok_nil|]. apply rebind_core_ok; auto.
Qed.
End TraceOK2.

(* SymCoreC02Slice.v -- the operations the C02 extension adds: slice assignment and slice deletion on a root pg.List refine
   list's l[a:b:c] = vs and del l[a:b:c] on the erasure. *)
From Coq Require Import ZArith NArith List Bool Lia.
Import ListNotations.
From PG Require Import Common.Tactics Model.SymCoreDefs Model.SymCoreOps Model.SymCoreSpec Model.SymCoreC02
     Proofs.SymCoreBase Proofs.SymCoreWF Proofs.SymCoreWFOps Proofs.SymCoreClone Proofs.SymCoreC02Read
     Proofs.SymCoreC02Frame Proofs.SymCoreC02Prim Proofs.SymCoreC02List Proofs.PyListFacts.
From PG Require Model.PyList Model.PyDict.
Local Open Scope Z_scope.

Section Slices.
Variables (q : quirks) (sc : scope) (r : nat) (tid : N) (fl : flags).

(* List._delete_items *)
Lemma ldel_many_root : forall st its f st' b,
  root_is st r tid KList fl its -> clean its -> ldel_many st (r, []) f = (st', b) ->
  wrote st r tid fl st' (PyList.filter_pos (fun i => negb (f i)) 0 (evals its)).
Proof.
  intros st its f st' b R C E. unfold ldel_many in E.
  destruct (root_cur r tid fl _ _ R) as (CI & CP & _). rewrite CI, CP in E. clear CI CP.
  unfold evals. rewrite <- PyListFacts.filter_pos_map. fold (evals (PyList.filter_pos (fun i => negb (f i)) 0 its)).
  destruct (PyList.filter_pos f 0 its) as [|g gone] eqn:G.
  - inv E. rewrite PyListFacts.filter_pos_none; auto. apply wrote_refl; auto.
  - injection E as E1 E2. subst st' b. rewrite <- (evals_renum []).
    exists (renum [] (PyList.filter_pos (fun i => negb (f i)) 0 its)). repeat split; auto.
    + apply keeps_roots_detach_all. try apply keeps_roots_add_detached. unfold root_is. rewrite (get_root_update_at_same _ _ _ _ R). reflexivity.
    + apply clean_renum. apply PyListFacts.filter_pos_forall; auto.
    + red; intros. apply keeps_roots_detach_all. try apply keeps_roots_add_detached. rewrite get_root_update_at_other; auto.
Qed.

(* a batch of item assignments at positions in range *)
Lemma write_loop_replace : forall ivs st its upd st' u e,
  root_is st r tid KList fl its -> clean its ->
  Forall (fun iv => 0 <= fst iv < zlen its /\ plain_rv (snd iv)) ivs ->
  write_loop q sc st (r, []) ivs upd = (st', u, e) ->
  e = None /\ wrote st r tid fl st' (fold_left PyListFacts.put (map (fun iv => (fst iv, prv (snd iv))) ivs) (evals its)).
Proof.
  induction ivs as [|[i rv] ivs IH]; intros st its upd st' u e R C F E; simpl in E.
  - inv E. split; auto. apply wrote_refl; auto.
  - inv F. destruct H1 as [B PL]. simpl in B, PL.
    destruct (lprim q sc st (r, []) (KI i) rv) as [st1 p] eqn:L.
    destruct (lprim_replace q sc st r tid fl its R C i rv st1 p PL ltac:(lia) L) as (PP & its1 & R1 & C1 & E1 & K1).
    replace (i <? 0) with false in E1 by lia.
    assert (LEN : zlen its1 = zlen its).
    { unfold zlen. rewrite <- (evals_length its1), E1, PyListFacts.replace_nth_length, evals_length. reflexivity. }
    assert (exists upd', write_loop q sc st1 (r, []) ivs upd' = (st', u, e)) by (destruct PP; subst p; eauto).
    destruct H as [upd' E'].
    assert (F' : Forall (fun iv => 0 <= fst iv < zlen its1 /\ plain_rv (snd iv)) ivs) by (rewrite LEN; auto).
    destruct (IH st1 its1 upd' st' u e R1 C1 F' E') as (EE & its2 & R2 & C2 & E2 & K2).
    split; auto. exists its2. repeat split; auto.
    + rewrite E2, E1. reflexivity.
    + eapply keeps_other_trans; eauto.
Qed.
(* the writes of l[s:e] = vs: replace while inside the slice, insert afterwards *)
Lemma insert_length : forall A (L : list A) s v, 0 <= s <= PyList.len L -> PyList.len (PyList.insert L s v) = PyList.len L + 1.
Proof.
  intros. rewrite PyListFacts.insert_in_range by auto. unfold PyList.len in *. rewrite app_length. simpl.
  rewrite firstn_length_le by lia. rewrite skipn_length. lia.
Qed.
Lemma write_loop_splice : forall rvs st its upd s e st' u err,
  root_is st r tid KList fl its -> clean its -> Forall plain_rv rvs ->
  0 <= s <= zlen its -> (s < e -> e <= zlen its) ->
  write_loop q sc st (r, []) (slice_writes s e rvs) upd = (st', u, err) ->
  err = None /\ wrote st r tid fl st' (PyListFacts.splice_writes (evals its) s e (map prv rvs)).
Proof.
  induction rvs as [|rv rvs IH]; intros st its upd s e st' u err R C F B1 B2 E; simpl in E.
  - inv E. split; auto. apply wrote_refl; auto.
  - inv F. simpl.
    destruct (s >=? e) eqn:G.
    + destruct (lprim q sc st (r, []) (KI s) (RIns rv)) as [st1 p] eqn:L.
      destruct (lprim_insert q sc st r tid fl its R C s rv st1 p (plain_storable _ H1) L) as (PP & its1 & R1 & C1 & E1 & K1).
      subst p.
      assert (LEN : zlen its1 = zlen its + 1).
      { rewrite <- !len_evals, E1. apply insert_length. rewrite len_evals. lia. }
      destruct (IH st1 its1 true (s + 1) e st' u err R1 C1 H2 ltac:(lia) ltac:(lia) E) as (EE & its2 & R2 & C2 & E2 & K2).
      split; auto. exists its2. repeat split; auto.
      * rewrite E2, E1. reflexivity.
      * eapply keeps_other_trans; eauto.
    + destruct (lprim q sc st (r, []) (KI s) rv) as [st1 p] eqn:L.
      destruct (lprim_replace q sc st r tid fl its R C s rv st1 p H1 ltac:(lia) L) as (PP & its1 & R1 & C1 & E1 & K1).
      replace (s <? 0) with false in E1 by lia.
      assert (LEN : zlen its1 = zlen its).
      { unfold zlen. rewrite <- (evals_length its1), E1, PyListFacts.replace_nth_length, evals_length. reflexivity. }
      assert (exists upd', write_loop q sc st1 (r, []) (slice_writes (s + 1) e rvs) upd' = (st', u, err)) by (destruct PP; subst p; eauto).
      destruct H as [upd' E'].
      destruct (IH st1 its1 upd' (s + 1) e st' u err R1 C1 H2 ltac:(lia) ltac:(lia) E') as (EE & its2 & R2 & C2 & E2 & K2).
      split; auto. exists its2. repeat split; auto.
      * rewrite E2, E1. reflexivity.
      * eapply keeps_other_trans; eauto.
Qed.
End Slices.

Definition xlop_of (x : xop rvalue) : option (PyList.lop pv) :=
  match x with
  | LSetSlice a b c vs => Some (PyList.PLSetSlice a b c (map prv vs))
  | LDelSlice a b c => Some (PyList.PLDelSlice a b c)
  | _ => None
  end.
Definition plain_xop (x : xop rvalue) : Prop :=
  match x with LSetSlice _ _ _ vs => Forall plain_rv vs | _ => True end.
Lemma len_map_prv : forall rvs, PyList.len (map prv rvs) = zlen rvs.
Proof. intros; unfold PyList.len, zlen; rewrite map_length; reflexivity. Qed.
Lemma zip_forall_both : forall A B (P : A -> Prop) (Q : B -> Prop) (a : list A) (b : list B),
  Forall P a -> Forall Q b -> Forall (fun x => P (fst x) /\ Q (snd x)) (PyList.zip a b).
Proof. induction a; destruct b; simpl; intros; auto. inv H; inv H0. constructor; auto. Qed.

Section SliceRefine.
Variables (q : quirks) (sc : scope) (r : nat) (tid : N) (fl : flags).

Theorem exec_x_list_refines : forall st its x lo st' out,
  root_is st r tid KList fl its -> clean its -> permits sc fl -> plain_xop x -> xlop_of x = Some lo ->
  exec_x q sc st (r, []) fl its x = (st', out) ->
  match py_lstep (evals its) lo with
  | inr e => st' = st /\ out = Err (err_of e)
  | inl (l', ret) => wrote st r tid fl st' l' /\ ret_agrees st' out ret
  end.
Proof.
  intros st its x lo st' out R C [SL AW] PL LO E.
  assert (NN : 0 <= zlen its) by (unfold zlen; lia).
  destruct x; simpl in LO; inv LO; unfold exec_x in E; rewrite SL, AW in E; cbn [negb] in E; simpl in PL;
    unfold py_lstep, PyList.lstep.
  - (* l[a:b:c] = vs *)
    unfold PyList.set_slice. rewrite len_evals.
    destruct (PyList.slice_indices a b c (zlen its)) as [[[start stop] step]|] eqn:SI.
    2:{ inv E. auto. }
    destruct (PyListFacts.slice_indices_bounds _ _ _ _ _ _ _ NN SI) as (NZ & BP & BM).
    destruct (step =? 1) eqn:S1.
    + destruct (BP ltac:(lia)) as [B1 B2].
      destruct (write_loop q sc st (r, []) (slice_writes start (Z.max start stop) vs) false) as [[st1 upd] err] eqn:WL.
      destruct (write_loop_splice q sc r tid fl vs st its false start (Z.max start stop) st1 upd err R C PL ltac:(lia) ltac:(lia) WL)
        as (EE & W1). subst err.
      destruct (ldel_many st1 (r, []) (fun i => (start + zlen vs <=? i) && (i <? Z.max start stop))) as [st2 del] eqn:DM.
      inv E. split; [|reflexivity]. apply wrote_fix_chain.
      eapply wrote_step; eauto. intros its1 R1 C1 E1.
      pose proof (ldel_many_root r tid fl st1 its1 _ st2 del R1 C1 DM) as W2.
      rewrite E1 in W2. rewrite <- len_map_prv in W2.
      rewrite PyListFacts.splice_then_delete in W2; try lia; auto.
      rewrite len_evals. lia.
    + destruct (Nat.eqb (length (PyList.slice_range start stop step)) (length vs)) eqn:LE; rewrite map_length, LE; cbn [negb] in E.
      2:{ inv E. auto. }
      set (idxs := PyList.slice_range start stop step) in *.
      pose proof (PyListFacts.slice_range_bounds _ _ _ _ _ _ _ NN SI) as IB. fold idxs in IB.
      pose proof (PyListFacts.slice_range_nodup start stop step NZ) as ND. fold idxs in ND.
      set (ivs := PyList.zip idxs vs) in *.
      assert (FB : Forall (fun iv => 0 <= fst iv < zlen its /\ plain_rv (snd iv)) ivs) by (unfold ivs; apply (zip_forall_both _ _ (fun i => 0 <= i < zlen its) plain_rv); auto).
      set (g := fun iv : Z * rvalue => (fst iv, prv (snd iv))).
      assert (PYE : fold_left (fun acc iv => PyList.replace_nth (Z.to_nat (fst iv)) (snd iv) acc) (PyList.zip idxs (map prv vs)) (evals its)
                    = fold_left PyListFacts.put (map g ivs) (evals its)).
      { rewrite PyListFacts.zip_map_r. reflexivity. }
      rewrite PYE.
      match type of E with context [write_loop ?a ?b ?c ?d ?e ?f] => destruct (write_loop a b c d e f) as [[st1 upd] err] eqn:WL end.
      destruct (step <? 0) eqn:NEG.
      * assert (FB' : Forall (fun iv => 0 <= fst iv < zlen its /\ plain_rv (snd iv)) (rev ivs)) by (apply Forall_rev; auto).
        destruct (write_loop_replace q sc r tid fl (rev ivs) st its false st1 upd err R C FB' WL) as (EE & W1). subst err.
        inv E. split; [|reflexivity]. apply wrote_fix_chain.
        rewrite map_rev in W1. rewrite PyListFacts.fold_put_rev in W1; auto.
        -- apply Forall_map. simpl. eapply Forall_impl; [|exact FB]. simpl; intros; lia.
        -- rewrite map_map. simpl. apply PyListFacts.zip_fst_nodup; auto.
      * destruct (write_loop_replace q sc r tid fl ivs st its false st1 upd err R C FB WL) as (EE & W1). subst err.
        inv E. split; [|reflexivity]. apply wrote_fix_chain; auto.
  - (* del l[a:b:c] *)
    unfold PyList.del_slice. rewrite len_evals.
    destruct (PyList.slice_indices a b c (zlen its)) as [[[start stop] step]|] eqn:SI.
    2:{ inv E. auto. }
    destruct (ldel_many st (r, []) (fun i => PyList.zmem i (PyList.slice_range start stop step))) as [st1 del] eqn:DM.
    inv E. split; [|reflexivity]. apply wrote_fix_chain.
    apply (ldel_many_root r tid fl st its _ st1 del R C DM).
Qed.
End SliceRefine.

(* SymCoreC02Slice.v -- the operations the C02 extension adds: slice assignment and slice deletion on a root pg.List refine
   list's l[a:b:c] = vs and del l[a:b:c] on the erasure. *)
From Coq Require Import ZArith NArith List Bool Lia.
Import ListNotations.
From PG Require Import Common.Tactics Model.SymCoreDefs Model.SymCoreOps Model.SymCoreSpec Model.SymCoreC02
     Proofs.SymCoreBase Proofs.SymCoreWF Proofs.SymCoreWFOps Proofs.SymCoreClone Proofs.SymCoreC02Read
     Proofs.SymCoreC02Frame Proofs.SymCoreC02Prim Proofs.SymCoreC02List Proofs.PyListFacts.
From PG Require Model.PyList Model.PyDict.
Local Open Scope Z_scope.

Section Slices.
Variables (q : quirks) (sc : scope) (ps : pos) (tid : N) (pa : option N) (fl : flags).

(* List._delete_items *)
Lemma ldel_many_at : forall st its f st' b,
  at_is st ps tid KList pa fl its -> clean its -> anc_clean st ps -> wfs st -> ldel_many st ps f = (st', b) ->
  wrote st ps tid pa fl st' (PyList.filter_pos (fun i => negb (f i)) 0 (evals its)).
Proof.
  intros st its f st' b R C A W E. unfold ldel_many in E.
  destruct (at_cur ps tid pa fl _ _ R) as (CI & CP & _). rewrite CI, CP in E. clear CI CP.
  destruct (at_children ps tid pa fl _ _ W R) as (CF & KP).
  unfold evals. rewrite <- PyListFacts.filter_pos_map. fold (evals (PyList.filter_pos (fun i => negb (f i)) 0 its)).
  destruct (PyList.filter_pos f 0 its) as [|g gone] eqn:G.
  - inv E. rewrite PyListFacts.filter_pos_none; auto. apply wrote_refl; auto.
  - injection E as E1 E2. subst st' b.
    refine (items_replaced ps tid pa fl st its _ (g :: gone) R A W _ _ _).
    + apply PyListFacts.filter_pos_forall; auto.
    + apply child_wf_any_of. apply PyListFacts.filter_pos_forall; auto.
    + rewrite <- G. apply PyListFacts.filter_pos_forall. apply (children_wf_any tid (snd ps)); auto.
Qed.

(* a batch of item assignments at positions in range *)
Lemma write_loop_replace : forall ivs st its upd st' u e,
  at_is st ps tid KList pa fl its -> clean its -> anc_clean st ps -> wfs st ->
  Forall (fun iv => 0 <= fst iv < zlen its /\ plain_rv (snd iv)) ivs ->
  write_loop q sc st ps ivs upd = (st', u, e) ->
  e = None /\ wrote st ps tid pa fl st' (fold_left PyListFacts.put (map (fun iv => (fst iv, prv (snd iv))) ivs) (evals its)).
Proof.
  induction ivs as [|[i rv] ivs IH]; intros st its upd st' u e R C A W F E; simpl in E.
  - inv E. split; auto. apply wrote_refl; auto.
  - inv F. destruct H1 as [B PL]. simpl in B, PL.
    destruct (lprim q sc st ps (KI i) rv) as [st1 p] eqn:L.
    destruct (lprim_replace q sc st ps tid pa fl its R C A W i rv st1 p PL ltac:(lia) L) as (PP & its1 & R1 & C1 & E1 & K1 & A1 & W1).
    replace (i <? 0) with false in E1 by lia.
    assert (LEN : zlen its1 = zlen its).
    { unfold zlen. rewrite <- (evals_length its1), E1, PyListFacts.replace_nth_length, evals_length. reflexivity. }
    assert (exists upd', write_loop q sc st1 ps ivs upd' = (st', u, e)) by (destruct PP; subst p; eauto).
    destruct H as [upd' E'].
    assert (F' : Forall (fun iv => 0 <= fst iv < zlen its1 /\ plain_rv (snd iv)) ivs) by (rewrite LEN; auto).
    destruct (IH st1 its1 upd' st' u e R1 C1 A1 W1 F' E') as (EE & its2 & R2 & C2 & E2 & K2 & A2 & W2).
    split; auto. exists its2. repeat split; auto.
    + rewrite E2, E1. reflexivity.
    + eapply keeps_other_trans; eauto.
Qed.

(* the writes of l[s:e] = vs: replace while inside the slice, insert afterwards *)
Lemma insert_length : forall A (L : list A) s v, 0 <= s <= PyList.len L -> PyList.len (PyList.insert L s v) = PyList.len L + 1.
Proof.
  intros. rewrite PyListFacts.insert_in_range by auto. unfold PyList.len in *. rewrite app_length. simpl.
  rewrite firstn_length_le by lia. rewrite skipn_length. lia.
Qed.
Lemma write_loop_splice : forall rvs st its upd s e st' u err,
  at_is st ps tid KList pa fl its -> clean its -> anc_clean st ps -> wfs st -> Forall plain_rv rvs ->
  0 <= s <= zlen its -> (s < e -> e <= zlen its) ->
  write_loop q sc st ps (slice_writes s e rvs) upd = (st', u, err) ->
  err = None /\ wrote st ps tid pa fl st' (PyListFacts.splice_writes (evals its) s e (map prv rvs)).
Proof.
  induction rvs as [|rv rvs IH]; intros st its upd s e st' u err R C A W F B1 B2 E; simpl in E.
  - inv E. split; auto. apply wrote_refl; auto.
  - inv F. simpl.
    destruct (s >=? e) eqn:G.
    + destruct (lprim q sc st ps (KI s) (RIns rv)) as [st1 p] eqn:L.
      destruct (lprim_insert q sc st ps tid pa fl its R C A W s rv st1 p (plain_storable _ H1) L) as (PP & its1 & R1 & C1 & E1 & K1 & A1 & W1).
      subst p.
      assert (LEN : zlen its1 = zlen its + 1).
      { rewrite <- !len_evals, E1. apply insert_length. rewrite len_evals. lia. }
      destruct (IH st1 its1 true (s + 1) e st' u err R1 C1 A1 W1 H2 ltac:(lia) ltac:(lia) E) as (EE & its2 & R2 & C2 & E2 & K2 & A2 & W2).
      split; auto. exists its2. repeat split; auto.
      * rewrite E2, E1. reflexivity.
      * eapply keeps_other_trans; eauto.
    + destruct (lprim q sc st ps (KI s) rv) as [st1 p] eqn:L.
      destruct (lprim_replace q sc st ps tid pa fl its R C A W s rv st1 p H1 ltac:(lia) L) as (PP & its1 & R1 & C1 & E1 & K1 & A1 & W1).
      replace (s <? 0) with false in E1 by lia.
      assert (LEN : zlen its1 = zlen its).
      { unfold zlen. rewrite <- (evals_length its1), E1, PyListFacts.replace_nth_length, evals_length. reflexivity. }
      assert (exists upd', write_loop q sc st1 ps (slice_writes (s + 1) e rvs) upd' = (st', u, err)) by (destruct PP; subst p; eauto).
      destruct H as [upd' E'].
      destruct (IH st1 its1 upd' (s + 1) e st' u err R1 C1 A1 W1 H2 ltac:(lia) ltac:(lia) E') as (EE & its2 & R2 & C2 & E2 & K2 & A2 & W2).
      split; auto. exists its2. repeat split; auto.
      * rewrite E2, E1. reflexivity.
      * eapply keeps_other_trans; eauto.
Qed.
End Slices.

Definition xlop_of (x : xop rvalue) : option (PyList.lop pv) :=
  match x with
  | LSetSlice a b c vs => Some (PyList.PLSetSlice a b c (map prv vs))
  | LDelSlice a b c => Some (PyList.PLDelSlice a b c)
  | _ => None
  end.
Definition plain_xop (x : xop rvalue) : Prop :=
  match x with LSetSlice _ _ _ vs => Forall plain_rv vs | _ => True end.
Lemma len_map_prv : forall rvs, PyList.len (map prv rvs) = zlen rvs.
Proof. intros; unfold PyList.len, zlen; rewrite map_length; reflexivity. Qed.
Lemma zip_forall_both : forall A B (P : A -> Prop) (Q : B -> Prop) (a : list A) (b : list B),
  Forall P a -> Forall Q b -> Forall (fun x => P (fst x) /\ Q (snd x)) (PyList.zip a b).
Proof. induction a; destruct b; simpl; intros; auto. inv H; inv H0. constructor; auto. Qed.

Section SliceRefine.
Variables (q : quirks) (sc : scope) (ps : pos) (tid : N) (pa : option N) (fl : flags).

Theorem exec_x_list_refines : forall st its x lo st' out,
  wfs st -> at_is st ps tid KList pa fl its -> clean its -> anc_clean st ps -> permits sc fl -> plain_xop x -> xlop_of x = Some lo ->
  exec_x q sc st ps fl its x = (st', out) ->
  match py_lstep (evals its) lo with
  | inr e => st' = st /\ out = Err (err_of e)
  | inl (l', ret) => wrote st ps tid pa fl st' l' /\ ret_agrees st' out ret
  end.
Proof.
  intros st its x lo st' out W R C A [SL AW] PL LO E.
  assert (NN : 0 <= zlen its) by (unfold zlen; lia).
  destruct x; simpl in LO; inv LO; unfold exec_x in E; rewrite SL, AW in E; cbn [negb] in E; simpl in PL;
    unfold py_lstep, PyList.lstep.
  - (* l[a:b:c] = vs *)
    unfold PyList.set_slice. rewrite len_evals.
    destruct (PyList.slice_indices a b c (zlen its)) as [[[start stop] step]|] eqn:SI.
    2:{ inv E. auto. }
    destruct (PyListFacts.slice_indices_bounds _ _ _ _ _ _ _ NN SI) as (NZ & BP & BM).
    destruct (step =? 1) eqn:S1.
    + destruct (BP ltac:(lia)) as [B1 B2].
      destruct (write_loop q sc st ps (slice_writes start (Z.max start stop) vs) false) as [[st1 upd] err] eqn:WL.
      destruct (write_loop_splice q sc ps tid pa fl vs st its false start (Z.max start stop) st1 upd err R C A W PL ltac:(lia) ltac:(lia) WL)
        as (EE & W1). subst err.
      destruct (ldel_many st1 ps (fun i => (start + zlen vs <=? i) && (i <? Z.max start stop))) as [st2 del] eqn:DM.
      inv E. split; [|reflexivity]. apply wrote_fix_chain.
      eapply wrote_step; eauto. intros its1 R1 C1 A1 WW1 E1.
      pose proof (ldel_many_at ps tid pa fl st1 its1 _ st2 del R1 C1 A1 WW1 DM) as W2.
      rewrite E1 in W2. rewrite <- len_map_prv in W2.
      rewrite PyListFacts.splice_then_delete in W2; try lia; auto.
      rewrite len_evals. lia.
    + destruct (Nat.eqb (length (PyList.slice_range start stop step)) (length vs)) eqn:LE; rewrite map_length, LE; cbn [negb] in E.
      2:{ inv E. auto. }
      set (idxs := PyList.slice_range start stop step) in *.
      pose proof (PyListFacts.slice_range_bounds _ _ _ _ _ _ _ NN SI) as IB. fold idxs in IB.
      pose proof (PyListFacts.slice_range_nodup start stop step NZ) as ND. fold idxs in ND.
      set (ivs := PyList.zip idxs vs) in *.
      assert (FB : Forall (fun iv => 0 <= fst iv < zlen its /\ plain_rv (snd iv)) ivs) by (unfold ivs; apply (zip_forall_both _ _ (fun i => 0 <= i < zlen its) plain_rv); auto).
      set (g := fun iv : Z * rvalue => (fst iv, prv (snd iv))).
      assert (PYE : fold_left (fun acc iv => PyList.replace_nth (Z.to_nat (fst iv)) (snd iv) acc) (PyList.zip idxs (map prv vs)) (evals its)
                    = fold_left PyListFacts.put (map g ivs) (evals its)).
      { rewrite PyListFacts.zip_map_r. reflexivity. }
      rewrite PYE.
      match type of E with context [write_loop ?a ?b ?c ?d ?e ?f] => destruct (write_loop a b c d e f) as [[st1 upd] err] eqn:WL end.
      destruct (step <? 0) eqn:NEG.
      * assert (FB' : Forall (fun iv => 0 <= fst iv < zlen its /\ plain_rv (snd iv)) (rev ivs)) by (apply Forall_rev; auto).
        destruct (write_loop_replace q sc ps tid pa fl (rev ivs) st its false st1 upd err R C A W FB' WL) as (EE & W1). subst err.
        inv E. split; [|reflexivity]. apply wrote_fix_chain.
        rewrite map_rev in W1. rewrite PyListFacts.fold_put_rev in W1; auto.
        -- apply Forall_map. simpl. eapply Forall_impl; [|exact FB]. simpl; intros; lia.
        -- rewrite map_map. simpl. apply PyListFacts.zip_fst_nodup; auto.
      * destruct (write_loop_replace q sc ps tid pa fl ivs st its false st1 upd err R C A W FB WL) as (EE & W1). subst err.
        inv E. split; [|reflexivity]. apply wrote_fix_chain; auto.
  - (* del l[a:b:c] *)
    unfold PyList.del_slice. rewrite len_evals.
    destruct (PyList.slice_indices a b c (zlen its)) as [[[start stop] step]|] eqn:SI.
    2:{ inv E. auto. }
    destruct (ldel_many st ps (fun i => PyList.zmem i (PyList.slice_range start stop step))) as [st1 del] eqn:DM.
    inv E. split; [|reflexivity]. apply wrote_fix_chain.
    apply (ldel_many_at ps tid pa fl st its _ st1 del R C A W DM).
Qed.
End SliceRefine.

(* HierTraverse.v — traversal visits every node exactly once and reports the path that looks the node up. *)
From PG Require Import Common.Tactics Model.KeyPath Model.Hier Proofs.KeyPathArith.
Local Open Scope Z_scope.

(* ---- induction below the child lists --------------------------------------------------------------------------------- *)
Fixpoint pv_ind' (P : pv -> Prop) (HN : P PNone) (HI : forall z, P (PInt z)) (HS : forall s, P (PStr s))
    (HL : forall l, Forall P l -> P (PList l))
    (HD : forall kvs, Forall (fun kv => P (snd kv)) kvs -> P (PDict kvs)) (v : pv) : P v :=
  match v with
  | PNone => HN
  | PInt z => HI z
  | PStr s => HS s
  | PList l => HL l ((fix go (l : list pv) : Forall P l :=
                        match l with [] => Forall_nil _ | x :: r => Forall_cons x (pv_ind' P HN HI HS HL HD x) (go r) end) l)
  | PDict kvs => HD kvs ((fix go (l : list (key * pv)) : Forall (fun kv => P (snd kv)) l :=
                            match l with [] => Forall_nil _ | kv :: r => Forall_cons kv (pv_ind' P HN HI HS HL HD (snd kv)) (go r) end) kvs)
  end.

(* ---- the nodes of a value, in pre-order, with their canonical paths ------------------------------------------------------ *)
Fixpoint nodes_dict (nodes : pv -> list key -> list (list key * pv)) (path : list key) (l : list (key * pv)) : list (list key * pv) :=
  match l with [] => [] | (k, c) :: r => nodes c (path ++ [k]) ++ nodes_dict nodes path r end.
Fixpoint nodes_list (nodes : pv -> list key -> list (list key * pv)) (path : list key) (l : list pv) (i : Z) : list (list key * pv) :=
  match l with [] => [] | c :: r => nodes c (path ++ [KInt i]) ++ nodes_list nodes path r (i + 1) end.

Fixpoint nodes (v : pv) (path : list key) {struct v} : list (list key * pv) :=
  (path, v) ::
  match v with
  | PDict kvs =>
      (fix go (l : list (key * pv)) : list (list key * pv) :=
         match l with [] => [] | (k, c) :: r => nodes c (path ++ [k]) ++ go r end) kvs
  | PList l =>
      (fix go (l : list pv) (i : Z) : list (list key * pv) :=
         match l with [] => [] | c :: r => nodes c (path ++ [KInt i]) ++ go r (i + 1) end) l 0
  | _ => []
  end.

Lemma nodes_dict_eq : forall path kvs, nodes (PDict kvs) path = (path, PDict kvs) :: nodes_dict nodes path kvs.
Proof.
  intros. cbn [nodes]. f_equal. induction kvs as [| [k c] r IH]; [reflexivity |]. cbn [nodes_dict]. rewrite <- IH. reflexivity.
Qed.
Lemma nodes_list_eq : forall path l, nodes (PList l) path = (path, PList l) :: nodes_list nodes path l 0.
Proof.
  intros. cbn [nodes]. f_equal. generalize 0. induction l as [| c r IH]; intros i; [reflexivity |].
  cbn [nodes_list]. rewrite <- IH. reflexivity.
Qed.

(* x is the node of v at the canonical path p (dict keys; list positions counted from 0) *)
Inductive at_path : pv -> list key -> pv -> Prop :=
| at_here : forall v, at_path v [] v
| at_dict : forall kvs k c p x, In (k, c) kvs -> at_path c p x -> at_path (PDict kvs) (k :: p) x
| at_list : forall l i c p x, nth_error l i = Some c -> at_path c p x -> at_path (PList l) (KInt (Z.of_nat i) :: p) x.

(* values as Python builds them: the keys of a dict are distinct *)
Inductive wfv : pv -> Prop :=
| wfv_none : wfv PNone | wfv_int : forall z, wfv (PInt z) | wfv_str : forall s, wfv (PStr s)
| wfv_list : forall l, Forall wfv l -> wfv (PList l)
| wfv_dict : forall kvs, NoDup (map fst kvs) -> Forall (fun kv => wfv (snd kv)) kvs -> wfv (PDict kvs).

(* ---- nodes = exactly the nodes ------------------------------------------------------------------------------------------- *)
Lemma nodes_list_in : forall path l i0 p x,
  Forall (fun c => forall path p x, In (p, x) (nodes c path) <-> exists s, p = path ++ s /\ at_path c s x) l ->
  (In (p, x) (nodes_list nodes path l i0) <->
   exists j c s, nth_error l j = Some c /\ p = path ++ KInt (i0 + Z.of_nat j) :: s /\ at_path c s x).
Proof.
  intros path l. induction l as [| c r IH]; intros i0 p x H; cbn [nodes_list].
  - split; [intros [] | intros (j & c & s & E & _); destruct j; discriminate].
  - inv H. rewrite in_app_iff, (H2 (path ++ [KInt i0]) p x), (IH (i0 + 1) p x H3). split.
    + intros [(s & -> & Hs) | (j & c' & s & E & -> & Hs)].
      * exists O, c, s. rewrite <- app_assoc. cbn. rewrite Z.add_0_r. auto.
      * exists (S j), c', s. cbn [nth_error]. split; [assumption |]. split; [| assumption].
        replace (i0 + Z.of_nat (S j)) with (i0 + 1 + Z.of_nat j) by lia. reflexivity.
    + intros (j & c' & s & E & -> & Hs). destruct j as [| j].
      * left. inv E. exists s. rewrite <- app_assoc. cbn. rewrite Z.add_0_r. auto.
      * right. exists j, c', s. cbn [nth_error] in E. split; [assumption |]. split; [| assumption].
        replace (i0 + Z.of_nat (S j)) with (i0 + 1 + Z.of_nat j) by lia. reflexivity.
Qed.

Lemma nodes_dict_in : forall path kvs p x,
  Forall (fun kv => forall path p x, In (p, x) (nodes (snd kv) path) <-> exists s, p = path ++ s /\ at_path (snd kv) s x) kvs ->
  (In (p, x) (nodes_dict nodes path kvs) <->
   exists k c s, In (k, c) kvs /\ p = path ++ k :: s /\ at_path c s x).
Proof.
  intros path kvs. induction kvs as [| [k c] r IH]; intros p x H; cbn [nodes_dict].
  - split; [intros [] | intros (k & c & s & [] & _)].
  - inv H. cbn [snd] in H2. rewrite in_app_iff, (H2 (path ++ [k]) p x), (IH p x H3). split.
    + intros [(s & -> & Hs) | (k' & c' & s & E & -> & Hs)].
      * exists k, c, s. rewrite <- app_assoc. cbn. auto.
      * exists k', c', s. cbn. auto.
    + intros (k' & c' & s & [E | E] & -> & Hs).
      * inv E. left. exists s. rewrite <- app_assoc. auto.
      * right. exists k', c', s. auto.
Qed.

Theorem nodes_iff : forall v path p x, In (p, x) (nodes v path) <-> exists s, p = path ++ s /\ at_path v s x.
Proof.
  apply (pv_ind' (fun v => forall path p x, In (p, x) (nodes v path) <-> exists s, p = path ++ s /\ at_path v s x)).
  - intros path p x. cbn. split.
    + intros [E | []]. inv E. exists []. rewrite app_nil_r. split; [reflexivity | constructor].
    + intros (s & -> & H). inv H. rewrite app_nil_r. auto.
  - intros z path p x. cbn. split.
    + intros [E | []]. inv E. exists []. rewrite app_nil_r. split; [reflexivity | constructor].
    + intros (s & -> & H). inv H. rewrite app_nil_r. auto.
  - intros s0 path p x. cbn. split.
    + intros [E | []]. inv E. exists []. rewrite app_nil_r. split; [reflexivity | constructor].
    + intros (s & -> & H). inv H. rewrite app_nil_r. auto.
  - intros l IH path p x. rewrite nodes_list_eq. cbn [In]. rewrite (nodes_list_in path l 0 p x IH). split.
    + intros [E | (j & c & s & E & -> & Hs)].
      * inv E. exists []. rewrite app_nil_r. split; [reflexivity | constructor].
      * exists (KInt (Z.of_nat j) :: s). split; [reflexivity |]. econstructor; eauto.
    + intros (s & -> & H). inv H.
      * left. rewrite app_nil_r. reflexivity.
      * right. do 3 eexists. split; [eassumption |]. split; [reflexivity | eassumption].
  - intros kvs IH path p x. rewrite nodes_dict_eq. cbn [In]. rewrite (nodes_dict_in path kvs p x IH). split.
    + intros [E | (k & c & s & E & -> & Hs)].
      * inv E. exists []. rewrite app_nil_r. split; [reflexivity | constructor].
      * exists (k :: s). split; [reflexivity |]. econstructor; eauto.
    + intros (s & -> & H). inv H.
      * left. rewrite app_nil_r. reflexivity.
      * right. do 3 eexists. split; [eassumption |]. split; [reflexivity | eassumption].
Qed.

(* ---- the reported path, looked up from the root, returns the node ---------------------------------------------------------- *)
Lemma dget_in : forall k c kvs, NoDup (map fst kvs) -> In (k, c) kvs -> dget k kvs = Some c.
Proof.
  induction kvs as [| [k0 c0] r IH]; cbn; intros Hn H; [contradiction |].
  inv Hn. destruct H as [H | H].
  - inv H. rewrite key_eqb_refl. reflexivity.
  - destruct (key_eqb k k0) eqn:E; [| auto].
    apply key_eqb_eq in E. subst. exfalso. apply H2. change k0 with (fst (k0, c)). apply in_map. assumption.
Qed.

Theorem at_lookup : forall v s x, wfv v -> at_path v s x -> lookup v s = inr x.
Proof.
  intros v s x Hw H. induction H; cbn [lookup]; auto.
  - inv Hw. cbn [child]. rewrite (dget_in _ _ _ H2 H). apply IHat_path.
    rewrite Forall_forall in H3. apply (H3 (k, c)). assumption.
  - inv Hw. cbn [child].
    assert (i < length l)%nat as Hlt by (apply nth_error_Some; congruence).
    replace (Z.of_nat i <? Z.of_nat (length l)) with true by (symmetry; apply Z.ltb_lt; lia).
    unfold py_index. replace (0 <=? Z.of_nat i) with true by (symmetry; apply Z.leb_le; lia).
    replace (Z.of_nat i <? Z.of_nat (length l)) with true by (symmetry; apply Z.ltb_lt; lia).
    cbn [andb]. rewrite Nat2Z.id, H. apply IHat_path.
    rewrite Forall_forall in H2. apply H2. eapply nth_error_In; eauto.
Qed.

(* ---- no path is reported twice --------------------------------------------------------------------------------------------- *)
Lemma NoDup_app_intro : forall (A : Type) (l1 l2 : list A),
  NoDup l1 -> NoDup l2 -> (forall x, In x l1 -> In x l2 -> False) -> NoDup (l1 ++ l2).
Proof.
  induction l1 as [| a l1 IH]; intros l2 H1 H2 H; simpl; auto.
  inv H1. constructor.
  - rewrite in_app_iff. intros [F | F]; [auto | eapply H; simpl; eauto].
  - apply IH; auto. intros x Hx; apply H; simpl; auto.
Qed.

Lemma in_map_fst : forall (p : list key) (l : list (list key * pv)), In p (map fst l) <-> exists x, In (p, x) l.
Proof.
  intros p l. rewrite in_map_iff. split.
  - intros ([p' x] & E & H). cbn in E. subst. eauto.
  - intros (x & H). exists (p, x). auto.
Qed.

Definition nodup_P (v : pv) : Prop := wfv v -> forall path, NoDup (map fst (nodes v path)).

Lemma nodes_nodup_all : forall v, nodup_P v.
Proof.
  apply pv_ind'; unfold nodup_P.
  - intros _ path. cbn. repeat constructor. auto.
  - intros z _ path. cbn. repeat constructor. auto.
  - intros s _ path. cbn. repeat constructor. auto.
  - intros l IH Hw path. inv Hw. rewrite nodes_list_eq. cbn [map fst]. constructor.
    + rewrite in_map_fst. intros (x & Hx).
      apply (nodes_list_in path l 0 path x) in Hx; [| apply Forall_forall; intros; apply nodes_iff].
      destruct Hx as (j & c & s & _ & E & _). apply (f_equal (@length key)) in E. rewrite app_length in E. cbn in E. lia.
    + match goal with H : Forall wfv l |- _ => revert IH H end.
      generalize 0. induction l as [| c r IHr]; intros i0 IH Hall; cbn [nodes_list]; [constructor |].
      inv IH. inv Hall. rewrite map_app. apply NoDup_app_intro; auto.
      intros p Hp Hq. apply in_map_fst in Hp as (x & Hx). apply in_map_fst in Hq as (y & Hy).
      apply nodes_iff in Hx as (s & -> & _).
      apply (nodes_list_in path r (i0 + 1) _ y) in Hy; [| apply Forall_forall; intros; apply nodes_iff].
      destruct Hy as (j & c' & s' & _ & E & _). rewrite <- app_assoc in E. apply app_inv_head in E. inv E. lia.
  - intros kvs IH Hw path. inv Hw. rewrite nodes_dict_eq. cbn [map fst]. constructor.
    + rewrite in_map_fst. intros (x & Hx).
      apply (nodes_dict_in path kvs path x) in Hx; [| apply Forall_forall; intros; apply nodes_iff].
      destruct Hx as (k & c & s & _ & E & _). apply (f_equal (@length key)) in E. rewrite app_length in E. cbn in E. lia.
    + match goal with H : NoDup (map fst kvs), H' : Forall _ kvs |- _ => revert IH H H' end.
      induction kvs as [| [k c] r IHr]; intros IH Hnd Hall; cbn [nodes_dict]; [constructor |].
      inv IH. inv Hnd. inv Hall. cbn [snd fst] in *. rewrite map_app. apply NoDup_app_intro; auto.
      intros p Hp Hq. apply in_map_fst in Hp as (x & Hx). apply in_map_fst in Hq as (y & Hy).
      apply nodes_iff in Hx as (s & -> & _).
      apply (nodes_dict_in path r _ y) in Hy; [| apply Forall_forall; intros; apply nodes_iff].
      destruct Hy as (k' & c' & s' & Hin & E & _). rewrite <- app_assoc in E. apply app_inv_head in E. inv E.
      match goal with H : ~ In _ (map fst r) |- _ => apply H end. change k' with (fst (k', c')). apply in_map. assumption.
Qed.

Theorem nodes_nodup : forall v path, wfv v -> NoDup (map fst (nodes v path)).
Proof. intros. apply nodes_nodup_all. assumption. Qed.

(* ---- utils.traverse / pg.traverse / pg.query ------------------------------------------------------------------------------ *)
Definition pres (lg : list ev) : list (list key * pv) :=
  flat_map (fun e => match e with EPre p x => [(p, x)] | EPost _ _ => [] end) lg.
Definition posts (lg : list ev) : list (list key * pv) :=
  flat_map (fun e => match e with EPost p x => [(p, x)] | EPre _ _ => [] end) lg.

Lemma pres_app : forall a b, pres (a ++ b) = pres a ++ pres b.
Proof. intros. unfold pres. apply flat_map_app. Qed.

Fixpoint go_dict (f : pv -> list key -> list ev * bool) (path : list key) (l : list (key * pv)) : list ev * bool :=
  match l with
  | [] => ([], true)
  | (k, c) :: r =>
      let (lg, ok) := f c (path ++ [k]) in
      if ok then let (lg2, ok2) := go_dict f path r in (lg ++ lg2, ok2) else (lg, false)
  end.
Fixpoint go_list (f : pv -> list key -> list ev * bool) (path : list key) (l : list pv) (i : Z) : list ev * bool :=
  match l with
  | [] => ([], true)
  | c :: r =>
      let (lg, ok) := f c (path ++ [KInt i]) in
      if ok then let (lg2, ok2) := go_list f path r (i + 1) in (lg ++ lg2, ok2) else (lg, false)
  end.

Definition kids_of (f : pv -> list key -> list ev * bool) (v : pv) (path : list key) : list ev * bool :=
  match v with
  | PDict kvs => go_dict f path kvs
  | PList l => go_list f path l 0
  | _ => ([], true)
  end.

Lemma trav_unfold : forall pre post v path,
  trav pre post v path =
  if negb (pre path v) then ([EPre path v], false) else
  let (lg, ok) := kids_of (trav pre post) v path in
  if ok then (EPre path v :: lg ++ [EPost path v], post path v) else (EPre path v :: lg, false).
Proof.
  intros pre post v path. destruct v; try reflexivity.
  - cbn [trav kids_of]. destruct (negb (pre path (PList l))); [reflexivity |].
    replace ((fix go (l0 : list pv) (i : Z) {struct l0} : list ev * bool :=
         match l0 with
         | [] => ([], true)
         | c :: r => let (lg, ok) := trav pre post c (path ++ [KInt i]) in
                     if ok then let (lg2, ok2) := go r (i + 1) in (lg ++ lg2, ok2) else (lg, false)
         end) l 0) with (go_list (trav pre post) path l 0); [reflexivity |].
    generalize 0. induction l as [| c r IH]; intros i; [reflexivity |]. cbn [go_list]. rewrite IH. reflexivity.
  - cbn [trav kids_of]. destruct (negb (pre path (PDict l))); [reflexivity |].
    replace ((fix go (l0 : list (key * pv)) : list ev * bool :=
         match l0 with
         | [] => ([], true)
         | (k, c) :: r => let (lg, ok) := trav pre post c (path ++ [k]) in
                          if ok then let (lg2, ok2) := go r in (lg ++ lg2, ok2) else (lg, false)
         end) l) with (go_dict (trav pre post) path l); [reflexivity |].
    induction l as [| [k c] r IH]; [reflexivity |]. cbn [go_dict]. rewrite IH. reflexivity.
Qed.

Lemma strav_unfold : forall pre post v path,
  strav pre post v path =
  let a := pre path v in
  let (lg, ok) := match a with AEnter => kids_of (strav pre post) v path | _ => ([], true) end in
  (EPre path v :: lg ++ [EPost path v], negb (is_stop a || negb ok || is_stop (post path v))).
Proof.
  intros pre post v path. destruct v; try (cbn [strav kids_of]; destruct (pre path _); reflexivity).
  - cbn [strav kids_of]. destruct (pre path (PList l)); try reflexivity.
    replace ((fix go (l0 : list pv) (i : Z) {struct l0} : list ev * bool :=
         match l0 with
         | [] => ([], true)
         | c :: r => let (lg, ok) := strav pre post c (path ++ [KInt i]) in
                     if ok then let (lg2, ok2) := go r (i + 1) in (lg ++ lg2, ok2) else (lg, false)
         end) l 0) with (go_list (strav pre post) path l 0); [reflexivity |].
    generalize 0. induction l as [| c r IH]; intros i; [reflexivity |]. cbn [go_list]. rewrite IH. reflexivity.
  - cbn [strav kids_of]. destruct (pre path (PDict l)); try reflexivity.
    replace ((fix go (l0 : list (key * pv)) : list ev * bool :=
         match l0 with
         | [] => ([], true)
         | (k, c) :: r => let (lg, ok) := strav pre post c (path ++ [k]) in
                          if ok then let (lg2, ok2) := go r in (lg ++ lg2, ok2) else (lg, false)
         end) l) with (go_dict (strav pre post) path l); [reflexivity |].
    induction l as [| [k c] r IH]; [reflexivity |]. cbn [go_dict]. rewrite IH. reflexivity.
Qed.

(* a traversal function that logs exactly the nodes of each child and succeeds does so for the child lists *)
Definition visits_all (f : pv -> list key -> list ev * bool) (v : pv) : Prop :=
  forall path, snd (f v path) = true /\ pres (fst (f v path)) = nodes v path.

Lemma go_dict_all : forall f path kvs, Forall (fun kv => visits_all f (snd kv)) kvs ->
  snd (go_dict f path kvs) = true /\ pres (fst (go_dict f path kvs)) = nodes_dict nodes path kvs.
Proof.
  intros f path kvs H. induction H as [| [k c] r Hc _ IH]; cbn [go_dict nodes_dict]; [auto |].
  destruct (Hc (path ++ [k])) as [A B]. cbn [snd] in *. destruct (f c (path ++ [k])) as [lg ok]. cbn [fst snd] in *. subst ok.
  destruct IH as [C D]. destruct (go_dict f path r) as [lg2 ok2]. cbn [fst snd] in *. subst ok2.
  split; [reflexivity |]. rewrite pres_app. congruence.
Qed.

Lemma go_list_all : forall f path l i, Forall (visits_all f) l ->
  snd (go_list f path l i) = true /\ pres (fst (go_list f path l i)) = nodes_list nodes path l i.
Proof.
  intros f path l i H. revert i. induction H as [| c r Hc _ IH]; intros i; cbn [go_list nodes_list]; [auto |].
  destruct (Hc (path ++ [KInt i])) as [A B]. destruct (f c (path ++ [KInt i])) as [lg ok]. cbn [fst snd] in *. subst ok.
  destruct (IH (i + 1)) as [C D]. destruct (go_list f path r (i + 1)) as [lg2 ok2]. cbn [fst snd] in *. subst ok2.
  split; [reflexivity |]. rewrite pres_app. congruence.
Qed.

Lemma kids_all : forall f v path,
  match v with PList l => Forall (visits_all f) l | PDict kvs => Forall (fun kv => visits_all f (snd kv)) kvs | _ => True end ->
  snd (kids_of f v path) = true /\ (path, v) :: pres (fst (kids_of f v path)) = nodes v path.
Proof.
  intros f v path H. destruct v; cbn [kids_of]; try (split; reflexivity).
  - destruct (go_list_all f path l 0 H) as [A B]. rewrite nodes_list_eq, B. auto.
  - destruct (go_dict_all f path l H) as [A B]. rewrite nodes_dict_eq, B. auto.
Qed.

Lemma pres_snoc_post : forall lg p x, pres (lg ++ [EPost p x]) = pres lg.
Proof. intros. rewrite pres_app. cbn. apply app_nil_r. Qed.

(* utils.traverse with visitors that always continue *)
Theorem trav_visits_all : forall v, visits_all (trav (fun _ _ => true) (fun _ _ => true)) v.
Proof.
  apply pv_ind'; intros; intro path; rewrite trav_unfold; cbn [negb]; try (cbn; split; reflexivity);
    match goal with |- context [kids_of ?f ?v ?p] => destruct (kids_all f v p) as [A B]; [assumption |] end;
    destruct (kids_of _ _ _) as [lg ok]; cbn [fst snd] in *; subst ok; cbn [fst snd pres flat_map app];
    match goal with |- context [lg ++ [EPost ?p ?x]] => fold (pres (lg ++ [EPost p x])) end;
    rewrite pres_snoc_post; auto.
Qed.

(* pg.traverse when every pre-order visitor call answers ENTER and no post-order call answers STOP *)
Theorem strav_visits_all : forall pre post, (forall p x, pre p x = AEnter) -> (forall p x, post p x <> AStop) ->
  forall v, visits_all (strav pre post) v.
Proof.
  intros pre post Hpre Hpost.
  assert (forall p x, is_stop (post p x) = false) as Hp by (intros p x; specialize (Hpost p x); destruct (post p x); auto; congruence).
  apply pv_ind'; intros; intro path; rewrite strav_unfold; cbv zeta; rewrite Hpre, Hp; cbn [is_stop orb];
    try (cbn; split; reflexivity);
    match goal with |- context [kids_of ?f ?v ?p] => destruct (kids_all f v p) as [A B]; [assumption |] end;
    destruct (kids_of _ _ _) as [lg ok]; cbn [fst snd] in *; subst ok; cbn [fst snd pres flat_map app negb orb];
    match goal with |- context [lg ++ [EPost ?p ?x]] => fold (pres (lg ++ [EPost p x])) end;
    rewrite pres_snoc_post; auto.
Qed.

(* pg.query(custom_selector=sel, enter_selected=True) returns exactly the selected nodes, in pre-order *)
Lemma select_pres : forall (sel : list key -> pv -> bool) (lg : list ev),
  flat_map (fun e => match e with EPre p x => if sel p x then [(p, x)] else [] | EPost _ _ => [] end) lg =
  filter (fun px : list key * pv => sel (fst px) (snd px)) (pres lg).
Proof.
  intros sel lg. induction lg as [| e r IH]; [reflexivity |].
  cbn [flat_map pres]. fold (pres r). rewrite IH. destruct e; cbn [app filter fst snd]; [| reflexivity].
  destruct (sel p v); reflexivity.
Qed.

Theorem squery_enter_selected : forall sel v,
  squery sel true v = filter (fun px => sel (fst px) (snd px)) (nodes v []).
Proof.
  intros sel v. unfold squery.
  set (pre := fun (p : list key) (x : pv) => if sel p x then AEnter else AEnter).
  assert (forall p x, pre p x = AEnter) as Hpre by (intros; unfold pre; destruct (sel p x); reflexivity).
  destruct (strav_visits_all pre (fun _ _ => AEnter) Hpre ltac:(discriminate) v []) as [_ B].
  destruct (strav pre (fun _ _ => AEnter) v []) as [lg ok]. cbn [fst] in B. rewrite select_pres, B. reflexivity.
Qed.

(* every selected pair of any query (entering or not) is a node with its path; with enter_selected=False exactly
   the selected nodes that have no selected proper ancestor are returned (shown by the correspondence only) *)

(* SymCoreC02Prim.v -- the list / dict write primitives on a root container, seen through the erasure:
   what lprim / dprim do to the plain contents (replace, append, insert; set, delete). *)
From Coq Require Import ZArith NArith List Bool Lia.
Import ListNotations.
From PG Require Import Common.Tactics Model.SymCoreDefs Model.SymCoreOps Model.SymCoreSpec Model.SymCoreC02
     Proofs.SymCoreBase Proofs.SymCoreWF Proofs.SymCoreWFOps Proofs.SymCoreClone Proofs.SymCoreC02Read Proofs.SymCoreC02Frame.
From PG Require Model.PyList Model.PyDict.
Local Open Scope Z_scope.

(* values an operation may store: a leaf other than the MISSING_VALUE marker, or a (valid) literal container *)
Definition storable_rv (rv : rvalue) : Prop :=
  match rv with
  | RLeaf l => l <> LMissing
  | RLit (LitNode k fl pl its) => lit_valid (LitNode k fl pl its) = true
  | _ => False
  end.
(* plain Python values written by the user: None / bool / int / str or a literal list / dict (opaque objects are left to
   the correspondence: whether two of them are the same object is not visible in the erasure) *)
Definition plain_leaf (l : leaf) : bool := match l with LMissing | LOpq _ _ => false | _ => true end.
Definition plain_rv (rv : rvalue) : Prop :=
  match rv with
  | RLeaf l => plain_leaf l = true
  | RLit (LitNode k fl pl its) => lit_valid (LitNode k fl pl its) = true
  | _ => False
  end.
Definition prv (rv : rvalue) : pv :=
  match rv with RLeaf l => PLeaf (erase_leaf l) | RLit l => plit l | _ => PLeaf LJunk end.
Lemma plain_storable : forall rv, plain_rv rv -> storable_rv rv.
Proof. destruct rv; simpl; auto. destruct l; simpl; congruence. Qed.

Lemma formalize_storable : forall q sc st r ck cid cfl tp ins rv nw st1,
  storable_rv rv -> formalize q sc st r ck cid cfl tp ins rv = (nw, st1) ->
  erase nw = prv rv /\ is_missing nw = false /\ roots st1 = roots st.
Proof.
  intros. destruct rv; simpl in H; try contradiction.
  - inv H0. repeat split; auto. destruct l; simpl; congruence.
  - destruct l as [|k fl pl its]; try contradiction. simpl in H0.
    destruct (build (accepts_partial sc cfl) (Some cid) tp (LitNode k fl pl its) (next_id st)) as [n nx] eqn:B. inv H0.
    pose proof (build_erase (LitNode k fl pl its) (accepts_partial sc cfl) (Some cid) tp (next_id st)) as E.
    pose proof (build_not_missing (accepts_partial sc cfl) (Some cid) tp k fl pl its (next_id st)) as M.
    rewrite B in *. simpl in *. auto.
Qed.
Lemma same_roots_get_root : forall st st1 r, roots st1 = roots st -> get_root st1 r = get_root st r.
Proof. intros; unfold get_root; rewrite H; auto. Qed.
Lemma same_obj_storable : forall old rv, plain_rv rv -> same_obj old rv = true -> erase old = prv rv.
Proof.
  intros. destruct old, rv; simpl in *; try discriminate; try contradiction.
  destruct l, l0; simpl in *; try discriminate; auto.
  - apply Bool.eqb_prop in H0; subst; auto.
  - apply Z.eqb_eq in H0; subst; auto.
  - f_equal. f_equal. apply (list_eqb_eq _ N.eqb); auto. intros; apply N.eqb_eq; auto.
Qed.

Lemma replace_nth_same : forall A (l : list A) p x, nth_error l p = Some x -> PyList.replace_nth p x l = l.
Proof. induction l; destruct p; simpl; intros; try discriminate. inv H; auto. f_equal; auto. Qed.
Lemma Forall_set_nth_clean : forall l p k nw, clean l -> is_missing nw = false -> clean (set_nth p (k, nw) l).
Proof. intros. apply Forall_set_nth; auto. Qed.

Section Prim.
Variables (q : quirks) (sc : scope) (st : state) (r : nat) (tid : N) (fl : flags) (its : list (key * node)).
Hypothesis ROOT : root_is st r tid KList fl its.
Hypothesis CLEAN : clean its.
Let n := zlen its.

(* the result of every successful write *)
Definition wrote (st' : state) (l' : list pv) : Prop :=
  exists its', root_is st' r tid KList fl its' /\ clean its' /\ evals its' = l' /\ keeps_other r st st'.

Lemma wrote_here : forall st1 its' old,
  roots st1 = roots st -> clean its' ->
  wrote (add_detached (update_at st1 (r, []) (set_items its')) old) (evals its').
Proof.
  intros. exists its'. repeat split; auto.
  - apply keeps_roots_add_detached. rewrite (get_root_update_at_same _ _ _ (Node tid KList None [] fl its)); [reflexivity|].
    rewrite (same_roots_get_root _ _ _ H). exact ROOT.
  - red; intros. apply keeps_roots_add_detached. rewrite get_root_update_at_other; auto.
    rewrite (same_roots_get_root _ _ _ H). auto.
Qed.
Lemma wrote_here' : forall st1 its',
  roots st1 = roots st -> clean its' ->
  wrote (update_at st1 (r, []) (set_items its')) (evals its').
Proof.
  intros. exists its'. repeat split; auto.
  - unfold root_is. rewrite (get_root_update_at_same _ _ _ (Node tid KList None [] fl its)); [reflexivity|]. rewrite (same_roots_get_root _ _ _ H). exact ROOT.
  - red; intros. rewrite get_root_update_at_other; auto. rewrite (same_roots_get_root _ _ _ H). auto.
Qed.

(* l[z] = v for an index in range: the item is replaced *)
Lemma lprim_replace : forall z rv st' p,
  plain_rv rv -> - n <= z < n -> lprim q sc st (r, []) (KI z) rv = (st', p) ->
  (p = PNone \/ p = PUpd) /\
  wrote st' (PyList.replace_nth (Z.to_nat (if z <? 0 then z + n else z)) (prv rv) (evals its)).
Proof.
  intros z rv st' p PL RG E. unfold lprim in E. rewrite get_at_root, ROOT in E. fold n in E.
  replace (z >=? n) with false in E by lia. cbn [andb fst snd] in E.
  assert (NI : match rv with RIns v' => (true, v') | _ => (false, rv) end = (false, rv))
    by (destruct rv; simpl in PL; try contradiction; reflexivity).
  rewrite NI in E. clear NI.
  set (idx := if z <? 0 then (if z >=? - n then z + n else z) else z) in *.
  assert (I : idx = (if z <? 0 then z + n else z)) by (unfold idx; destruct (z <? 0) eqn:?; auto; replace (z >=? - n) with true by lia; auto).
  assert (B : 0 <= idx < n) by (rewrite I; destruct (z <? 0) eqn:?; lia).
  replace (idx <? n) with true in E by lia. replace (idx <? 0) with false in E by lia. cbn [andb negb] in E.
  destruct (nth_error its (Z.to_nat idx)) as [[k0 old]|] eqn:N.
  2:{ apply nth_error_None in N. unfold n, zlen in B. lia. }
  rewrite <- I.
  destruct (same_obj old rv) eqn:S.
  - inv E. split; auto. exists its. repeat split; auto; try apply keeps_other_refl.
    symmetry. apply replace_nth_same. rewrite nth_error_evals, N. simpl. f_equal.
    apply same_obj_storable; auto.
  - destruct (formalize q sc st r KList tid fl ([] ++ [KI idx]) false rv) as [nw st1] eqn:F.
    destruct (formalize_storable _ _ _ _ _ _ _ _ _ _ _ _ (plain_storable _ PL) F) as (EN & MN & RS).
    inv E. split; auto. rewrite <- EN.
    rewrite <- evals_set_nth with (k := KI idx).
    apply wrote_here; auto. apply Forall_set_nth_clean; auto.
Qed.
Lemma storable_not_missing : forall rv, storable_rv rv -> is_missing_rv rv = false.
Proof. destruct rv; simpl; auto. destruct l; simpl; congruence. Qed.
Lemma storable_no_ins : forall rv, storable_rv rv -> match rv with RIns v' => (true, v') | _ => (false, rv) end = (false, rv).
Proof. destruct rv; simpl; intros; try contradiction; reflexivity. Qed.

(* l.append(v) / a write at an index past the end: the value is appended *)
Lemma lprim_append : forall z rv st' p,
  storable_rv rv -> n <= z -> lprim q sc st (r, []) (KI z) rv = (st', p) ->
  p = PUpd /\ wrote st' (evals its ++ [prv rv]).
Proof.
  intros z rv st' p PL RG E. unfold lprim in E. rewrite get_at_root, ROOT in E. fold n in E.
  replace (z >=? n) with true in E by lia. rewrite (storable_not_missing _ PL) in E. cbn [andb fst snd] in E.
  rewrite (storable_no_ins _ PL) in E.
  assert (NN : 0 <= n) by (unfold n, zlen; lia).
  replace (n <? 0) with false in E by lia. replace (n <? n) with false in E by lia. cbn [andb] in E.
  destruct (formalize q sc st r KList tid fl ([] ++ [KI n]) false rv) as [nw st1] eqn:F.
  destruct (formalize_storable _ _ _ _ _ _ _ _ _ _ _ _ PL F) as (EN & MN & RS).
  inv E. split; auto. rewrite <- EN.
  replace (evals its ++ [erase nw]) with (evals (its ++ [(KI n, nw)])) by (rewrite evals_app; reflexivity).
  apply wrote_here'; auto. apply clean_app; auto. constructor; auto.
Qed.

(* an insertion marker inserts: list.insert with its clamping *)
Lemma lprim_insert : forall z rv st' p,
  storable_rv rv -> lprim q sc st (r, []) (KI z) (RIns rv) = (st', p) ->
  p = PUpd /\ wrote st' (PyList.insert (evals its) z (prv rv)).
Proof.
  intros z rv st' p PL E. unfold lprim in E. rewrite get_at_root, ROOT in E. fold n in E.
  replace (is_missing_rv (RIns rv)) with false in E by reflexivity. rewrite andb_false_r in E. cbn [fst snd] in E.
  assert (NN : 0 <= n) by (unfold n, zlen; lia).
  set (idx0 := if z >=? n then n else z) in *.
  set (idx := if idx0 <? 0 then (if idx0 >=? - n then idx0 + n else 0) else idx0) in *.
  assert (P : Z.to_nat idx = PyList.insert_pos (PyList.len (evals its)) z /\ 0 <= idx <= n).
  { rewrite len_evals. fold n. unfold PyList.insert_pos, idx, idx0.
    destruct (z >=? n) eqn:Hzn; repeat match goal with |- context [if ?b then _ else _] => destruct b eqn:? end; lia. }
  destruct P as [P B].
  rewrite andb_false_r in E.
  destruct (formalize q sc st r KList tid fl ([] ++ [KI idx]) true rv) as [nw st1] eqn:F.
  destruct (formalize_storable _ _ _ _ _ _ _ _ _ _ _ _ PL F) as (EN & MN & RS).
  unfold PyList.insert. rewrite <- P, <- EN.
  destruct (idx <? n) eqn:L; inv E; split; auto.
  - replace (firstn (Z.to_nat idx) (evals its) ++ erase nw :: skipn (Z.to_nat idx) (evals its))
      with (evals (renum [] (insert_at (Z.to_nat idx) (KI idx, nw) its))).
    2:{ rewrite evals_renum, evals_insert_at; auto. unfold n, zlen in *. lia. }
    apply wrote_here'; auto. apply clean_renum. apply Forall_insert_at; auto.
  - assert (idx = n) by lia. rewrite H.
    replace (firstn (Z.to_nat n) (evals its) ++ erase nw :: skipn (Z.to_nat n) (evals its))
      with (evals (its ++ [(KI n, nw)])).
    2:{ rewrite evals_app. unfold n, zlen. rewrite Nat2Z.id. rewrite <- (evals_length its).
        rewrite firstn_all, skipn_all. reflexivity. }
    apply wrote_here'; auto. apply clean_app; auto. constructor; auto.
Qed.
End Prim.

(* --- the dict primitive ---------------------------------------------------------------------------------------------- *)
Lemma dset_same : forall (k : key) (v : pv) d, PyDict.dget key_eqb k d = Some v -> PyDict.dset key_eqb k v d = d.
Proof.
  induction d as [|[k' v'] d IH]; simpl; intros; try discriminate.
  destruct (key_eqb k k'). inv H; auto. f_equal; auto.
Qed.

Section DPrim.
Variables (q : quirks) (sc : scope) (st : state) (r : nat) (tid : N) (fl : flags) (its : list (key * node)).
Hypothesis ROOT : root_is st r tid KDict fl its.
Hypothesis CLEAN : clean its.

Definition dwrote (st' : state) (d' : list (key * pv)) : Prop :=
  exists its', root_is st' r tid KDict fl its' /\ clean its' /\ eitems its' = d' /\ keeps_other r st st'.

Lemma dwrote_here : forall st1 its' old,
  roots st1 = roots st -> clean its' ->
  dwrote (add_detached (update_at st1 (r, []) (set_items its')) old) (eitems its').
Proof.
  intros. exists its'. repeat split; auto.
  - apply keeps_roots_add_detached. rewrite (get_root_update_at_same _ _ _ (Node tid KDict None [] fl its)); [reflexivity|].
    rewrite (same_roots_get_root _ _ _ H). exact ROOT.
  - red; intros. apply keeps_roots_add_detached. rewrite get_root_update_at_other; auto.
    rewrite (same_roots_get_root _ _ _ H). auto.
Qed.

(* d[k] = v *)
Lemma dprim_set : forall k rv st' p,
  plain_rv rv -> dprim q sc st (r, []) k rv = (st', p) ->
  (p = PNone \/ p = PUpd) /\ dwrote st' (PyDict.dset key_eqb k (prv rv) (eitems its)).
Proof.
  intros k rv st' p PL E. unfold dprim in E. rewrite get_at_root, ROOT in E. cbn [fst snd] in E.
  set (old := match assoc k its with Some o => o | None => Leaf LMissing end) in *.
  destruct (same_obj old rv) eqn:S.
  - inv E. split; auto. exists its. repeat split; auto; try apply keeps_other_refl.
    symmetry. apply dset_same. rewrite dget_eitems. unfold old in S.
    destruct (assoc k its) as [o|] eqn:A; simpl.
    + f_equal. apply same_obj_storable; auto.
    + exfalso. destruct rv; simpl in *; try discriminate. destruct l; simpl in *; discriminate.
  - rewrite (storable_not_missing _ (plain_storable _ PL)) in E.
    destruct (formalize q sc st r KDict tid fl ([] ++ [k]) false rv) as [nw st1] eqn:F.
    destruct (formalize_storable _ _ _ _ _ _ _ _ _ _ _ _ (plain_storable _ PL) F) as (EN & MN & RS).
    inv E. split; auto. rewrite <- EN, <- eitems_set_assoc.
    apply dwrote_here; auto. apply clean_set_assoc; auto.
Qed.

(* del d[k] (the primitive is called with the MISSING_VALUE marker) *)
Lemma dprim_del : forall k st' p,
  has_key k its = true -> dprim q sc st (r, []) k (RLeaf LMissing) = (st', p) ->
  p = PUpd /\ dwrote st' (PyDict.ddel key_eqb k (eitems its)).
Proof.
  intros k st' p HK E. unfold dprim in E. rewrite get_at_root, ROOT in E. cbn [fst snd] in E.
  unfold has_key in HK. destruct (assoc k its) as [o|] eqn:A; try discriminate.
  pose proof (clean_assoc _ _ _ CLEAN A) as M.
  replace (same_obj o (RLeaf LMissing)) with false in E by (symmetry; exact M).
  simpl in E. inv E. split; auto. rewrite <- eitems_remove_assoc.
  apply dwrote_here; auto. apply clean_remove_assoc; auto.
Qed.
End DPrim.

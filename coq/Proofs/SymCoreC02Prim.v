(* SymCoreC02Prim.v -- the list / dict write primitives on a root container, seen through the erasure:
   what lprim / dprim do to the plain contents (replace, append, insert; set, delete). *)
From Coq Require Import ZArith NArith List Bool Lia.
Import ListNotations.
From PG Require Import Common.Tactics Model.SymCoreDefs Model.SymCoreOps Model.SymCoreSpec Model.SymCoreC02
     Proofs.SymCoreBase Proofs.SymCoreWF Proofs.SymCoreWFOps Proofs.SymCoreClone Proofs.SymCoreC02Read Proofs.SymCoreC02Frame.
From PG Require Model.PyList Model.PyDict.
Local Open Scope Z_scope.

(* values an operation may store: a leaf other than the MISSING_VALUE marker, or a (valid) literal container *)
Definition storable_rv (rv : rvalue) : Prop :=
  match rv with
  | RLeaf l => l <> LMissing
  | RLit (LitNode k fl pl its) => lit_valid (LitNode k fl pl its) = true
  | _ => False
  end.
(* plain Python values written by the user: None / bool / int / str or a literal list / dict (opaque objects are left to
   the correspondence: whether two of them are the same object is not visible in the erasure) *)
Definition plain_leaf (l : leaf) : bool := match l with LMissing | LOpq _ _ => false | _ => true end.
Definition plain_rv (rv : rvalue) : Prop :=
  match rv with
  | RLeaf l => plain_leaf l = true
  | RLit (LitNode k fl pl its) => lit_valid (LitNode k fl pl its) = true
  | _ => False
  end.
Definition prv (rv : rvalue) : pv :=
  match rv with RLeaf l => PLeaf (erase_leaf l) | RLit l => plit l | _ => PLeaf LJunk end.
Lemma plain_storable : forall rv, plain_rv rv -> storable_rv rv.
Proof. destruct rv; simpl; auto. destruct l; simpl; congruence. Qed.

Lemma formalize_storable : forall q sc st r ck cid cfl tp ins rv nw st1,
  storable_rv rv -> formalize q sc st r ck cid cfl tp ins rv = (nw, st1) ->
  erase nw = prv rv /\ is_missing nw = false /\ roots st1 = roots st.
Proof.
  intros. destruct rv; simpl in H; try contradiction.
  - inv H0. repeat split; auto. destruct l; simpl; congruence.
  - destruct l as [|k fl pl its]; try contradiction. simpl in H0.
    destruct (build (accepts_partial sc cfl) (Some cid) tp (LitNode k fl pl its) (next_id st)) as [n nx] eqn:B. inv H0.
    pose proof (build_erase (LitNode k fl pl its) (accepts_partial sc cfl) (Some cid) tp (next_id st)) as E.
    pose proof (build_not_missing (accepts_partial sc cfl) (Some cid) tp k fl pl its (next_id st)) as M.
    rewrite B in *. simpl in *. auto.
Qed.
Lemma same_roots_get_root : forall st st1 r, roots st1 = roots st -> get_root st1 r = get_root st r.
Proof. intros; unfold get_root; rewrite H; auto. Qed.
Lemma same_obj_storable : forall old rv, plain_rv rv -> same_obj old rv = true -> erase old = prv rv.
Proof.
  intros. destruct old, rv; simpl in *; try discriminate; try contradiction.
  destruct l, l0; simpl in *; try discriminate; auto.
  - apply Bool.eqb_prop in H0; subst; auto.
  - apply Z.eqb_eq in H0; subst; auto.
  - f_equal. f_equal. apply (list_eqb_eq _ N.eqb); auto. intros; apply N.eqb_eq; auto.
Qed.

Lemma replace_nth_same : forall A (l : list A) p x, nth_error l p = Some x -> PyList.replace_nth p x l = l.
Proof. induction l; destruct p; simpl; intros; try discriminate. inv H; auto. f_equal; auto. Qed.
Lemma Forall_set_nth_clean : forall l p k nw, clean l -> is_missing nw = false -> clean (set_nth p (k, nw) l).
Proof. intros. apply Forall_set_nth; auto. Qed.

Lemma storable_not_missing : forall rv, storable_rv rv -> is_missing_rv rv = false.
Proof. destruct rv; simpl; auto. destruct l; simpl; congruence. Qed.
Lemma storable_no_ins : forall rv, storable_rv rv -> match rv with RIns v' => (true, v') | _ => (false, rv) end = (false, rv).
Proof. destruct rv; simpl; intros; try contradiction; reflexivity. Qed.
Lemma plain_rv_ok : forall rv, plain_rv rv -> rv_ok rv.
Proof. destruct rv; simpl; auto; try contradiction. destruct l; auto; contradiction. Qed.
Lemma storable_rv_ok : forall rv, storable_rv rv -> rv_ok rv.
Proof. destruct rv; simpl; auto; try contradiction. destruct l; auto; contradiction. Qed.

(* the result of every successful write into the list at position ps: the container is still there with the new items,
   everything the frame needs for the next write is re-established *)
Definition wrote (st : state) (ps : pos) (tid : N) (pa : option N) (fl : flags) (st' : state) (l' : list pv) : Prop :=
  exists its', at_is st' ps tid KList pa fl its' /\ clean its' /\ evals its' = l' /\
               keeps_other (fst ps) st st' /\ anc_clean st' ps /\ wfs st'.
Definition dwrote (st : state) (ps : pos) (tid : N) (pa : option N) (fl : flags) (st' : state) (d' : list (key * pv)) : Prop :=
  exists its', at_is st' ps tid KDict pa fl its' /\ clean its' /\ eitems its' = d' /\
               keeps_other (fst ps) st st' /\ anc_clean st' ps /\ wfs st'.

Section Prim.
Variables (q : quirks) (sc : scope) (st : state) (ps : pos) (tid : N) (pa : option N) (fl : flags) (its : list (key * node)).
Variable k0 : kind.
Hypothesis AT : at_is st ps tid k0 pa fl its.
Hypothesis ANC : anc_clean st ps.

(* the shape every write has: new items for the target, the replaced item detached *)
Lemma written_here : forall st1 its' old,
  roots st1 = roots st ->
  at_is (add_detached (update_at st1 ps (set_items its')) old) ps tid k0 pa fl its' /\
  keeps_other (fst ps) st (add_detached (update_at st1 ps (set_items its')) old) /\
  anc_clean (add_detached (update_at st1 ps (set_items its')) old) ps.
Proof.
  intros. assert (G1 : get_at st1 ps = Some (Node tid k0 pa (snd ps) fl its)) by (rewrite (same_roots_get_at _ _ _ H); exact AT).
  split; [|split].
  - unfold at_is. eapply keeps_roots_get_at. apply keeps_roots_add_detached.
    rewrite (get_at_update_at_same _ _ _ _ G1). reflexivity.
  - red; intros. apply keeps_roots_add_detached. destruct ps as [r p]. rewrite get_root_update_at_other; auto.
    rewrite (same_roots_get_root _ _ _ H). auto.
  - eapply anc_clean_keeps. apply keeps_roots_add_detached.
    + destruct (get_at_root_some _ _ _ (get_at_update_at_same _ _ (set_items its') _ G1)) as [t0 G0]. eauto.
    + apply anc_clean_update_items. eapply anc_clean_same_roots; eauto.
Qed.
Lemma written_here' : forall st1 its',
  roots st1 = roots st ->
  at_is (update_at st1 ps (set_items its')) ps tid k0 pa fl its' /\
  keeps_other (fst ps) st (update_at st1 ps (set_items its')) /\
  anc_clean (update_at st1 ps (set_items its')) ps.
Proof.
  intros. assert (G1 : get_at st1 ps = Some (Node tid k0 pa (snd ps) fl its)) by (rewrite (same_roots_get_at _ _ _ H); exact AT).
  split; [|split].
  - unfold at_is. rewrite (get_at_update_at_same _ _ _ _ G1). reflexivity.
  - red; intros. destruct ps as [r p]. rewrite get_root_update_at_other; auto. rewrite (same_roots_get_root _ _ _ H). auto.
  - apply anc_clean_update_items. eapply anc_clean_same_roots; eauto.
Qed.
End Prim.

Section LPrim.
Variables (q : quirks) (sc : scope) (st : state) (ps : pos) (tid : N) (pa : option N) (fl : flags) (its : list (key * node)).
Hypothesis AT : at_is st ps tid KList pa fl its.
Hypothesis CLEAN : clean its.
Hypothesis ANC : anc_clean st ps.
Hypothesis WFS : wfs st.
Let n := zlen its.

Lemma wrote_of : forall st' its', wfs st' -> clean its' ->
  at_is st' ps tid KList pa fl its' /\ keeps_other (fst ps) st st' /\ anc_clean st' ps -> wrote st ps tid pa fl st' (evals its').
Proof. intros st' its' W C (A & K & AC). exists its'. auto 10. Qed.

(* l[z] = v for an index in range: the item is replaced *)
Lemma lprim_replace : forall z rv st' p,
  plain_rv rv -> - n <= z < n -> lprim q sc st ps (KI z) rv = (st', p) ->
  (p = PNone \/ p = PUpd) /\
  wrote st ps tid pa fl st' (PyList.replace_nth (Z.to_nat (if z <? 0 then z + n else z)) (prv rv) (evals its)).
Proof.
  intros z rv st' p PL RG E.
  pose proof (lprim_wfs _ _ _ _ _ _ _ _ WFS (plain_rv_ok _ PL) E) as W'.
  unfold lprim in E. unfold at_is in AT. rewrite AT in E. fold n in E.
  replace (z >=? n) with false in E by lia. cbn [andb fst snd] in E.
  assert (NI : match rv with RIns v' => (true, v') | _ => (false, rv) end = (false, rv))
    by (destruct rv; simpl in PL; try contradiction; reflexivity).
  rewrite NI in E. clear NI.
  set (idx := if z <? 0 then (if z >=? - n then z + n else z) else z) in *.
  assert (I : idx = (if z <? 0 then z + n else z)) by (unfold idx; destruct (z <? 0) eqn:?; auto; replace (z >=? - n) with true by lia; auto).
  assert (B : 0 <= idx < n) by (rewrite I; destruct (z <? 0) eqn:?; lia).
  replace (idx <? n) with true in E by lia. replace (idx <? 0) with false in E by lia. cbn [andb negb] in E.
  destruct (nth_error its (Z.to_nat idx)) as [[kk old]|] eqn:N.
  2:{ apply nth_error_None in N. unfold n, zlen in B. lia. }
  rewrite <- I.
  destruct (same_obj old rv) eqn:S.
  - inv E. split; auto. exists its. repeat split; auto; try apply keeps_other_refl.
    symmetry. apply replace_nth_same. rewrite nth_error_evals, N. simpl. f_equal.
    apply same_obj_storable; auto.
  - destruct (formalize q sc st (fst ps) KList tid fl (snd ps ++ [KI idx]) false rv) as [nw st1] eqn:F.
    destruct (formalize_storable _ _ _ _ _ _ _ _ _ _ _ _ (plain_storable _ PL) F) as (EN & MN & RS).
    inv E. split; auto. rewrite <- EN.
    rewrite <- evals_set_nth with (k := KI idx).
    apply wrote_of; auto. apply Forall_set_nth_clean; auto.
    eapply written_here; eauto.
Qed.

(* l.append(v) / a write at an index past the end: the value is appended *)
Lemma lprim_append : forall z rv st' p,
  storable_rv rv -> n <= z -> lprim q sc st ps (KI z) rv = (st', p) ->
  p = PUpd /\ wrote st ps tid pa fl st' (evals its ++ [prv rv]).
Proof.
  intros z rv st' p PL RG E.
  pose proof (lprim_wfs _ _ _ _ _ _ _ _ WFS (storable_rv_ok _ PL) E) as W'.
  unfold lprim in E. unfold at_is in AT. rewrite AT in E. fold n in E.
  replace (z >=? n) with true in E by lia. rewrite (storable_not_missing _ PL) in E. cbn [andb fst snd] in E.
  rewrite (storable_no_ins _ PL) in E.
  assert (NN : 0 <= n) by (unfold n, zlen; lia).
  replace (n <? 0) with false in E by lia. replace (n <? n) with false in E by lia. cbn [andb] in E.
  destruct (formalize q sc st (fst ps) KList tid fl (snd ps ++ [KI n]) false rv) as [nw st1] eqn:F.
  destruct (formalize_storable _ _ _ _ _ _ _ _ _ _ _ _ PL F) as (EN & MN & RS).
  inv E. split; auto. rewrite <- EN.
  replace (evals its ++ [erase nw]) with (evals (its ++ [(KI n, nw)])) by (rewrite evals_app; reflexivity).
  apply wrote_of; auto. { apply clean_app; auto. constructor; auto. }
  eapply written_here'; eauto.
Qed.

(* the same with the new items exposed, for any value whose formalisation is known *)
Lemma lprim_append_gen : forall z rv st' p v,
  rv_ok rv -> is_missing_rv rv = false -> (forall v', rv <> RIns v') -> n <= z ->
  (forall nw st1, formalize q sc st (fst ps) KList tid fl (snd ps ++ [KI n]) false rv = (nw, st1) ->
                  erase nw = v /\ is_missing nw = false /\ roots st1 = roots st) ->
  lprim q sc st ps (KI z) rv = (st', p) ->
  p = PUpd /\ exists nw, at_is st' ps tid KList pa fl (its ++ [(KI n, nw)]) /\ erase nw = v /\ is_missing nw = false /\
              keeps_other (fst ps) st st' /\ anc_clean st' ps /\ wfs st'.
Proof.
  intros z rv st' p v OK NM NI RG FZ E.
  pose proof (lprim_wfs _ _ _ _ _ _ _ _ WFS OK E) as W'.
  unfold lprim in E. unfold at_is in AT. rewrite AT in E. fold n in E.
  replace (z >=? n) with true in E by lia. rewrite NM in E. cbn [andb fst snd] in E.
  assert (NI' : match rv with RIns v' => (true, v') | _ => (false, rv) end = (false, rv)).
  { destruct rv; auto. exfalso. eapply NI; eauto. }
  rewrite NI' in E.
  assert (NN : 0 <= n) by (unfold n, zlen; lia).
  replace (n <? 0) with false in E by lia. replace (n <? n) with false in E by lia. cbn [andb] in E.
  destruct (formalize q sc st (fst ps) KList tid fl (snd ps ++ [KI n]) false rv) as [nw st1] eqn:F.
  destruct (FZ _ _ eq_refl) as (EN & MN & RS).
  inv E. split; auto. exists nw.
  destruct (written_here' st ps tid pa fl its KList AT ANC st1 (its ++ [(KI n, nw)]) RS) as (A1 & K1 & AC1). auto 10.
Qed.

(* an insertion marker inserts: list.insert with its clamping *)
Lemma lprim_insert : forall z rv st' p,
  storable_rv rv -> lprim q sc st ps (KI z) (RIns rv) = (st', p) ->
  p = PUpd /\ wrote st ps tid pa fl st' (PyList.insert (evals its) z (prv rv)).
Proof.
  intros z rv st' p PL E.
  pose proof (lprim_wfs _ _ _ _ _ _ _ _ WFS (storable_rv_ok _ PL : rv_ok (RIns rv)) E) as W'.
  unfold lprim in E. unfold at_is in AT. rewrite AT in E. fold n in E.
  replace (is_missing_rv (RIns rv)) with false in E by reflexivity. rewrite andb_false_r in E. cbn [fst snd] in E.
  assert (NN : 0 <= n) by (unfold n, zlen; lia).
  set (idx0 := if z >=? n then n else z) in *.
  set (idx := if idx0 <? 0 then (if idx0 >=? - n then idx0 + n else 0) else idx0) in *.
  assert (P : Z.to_nat idx = PyList.insert_pos (PyList.len (evals its)) z /\ 0 <= idx <= n).
  { rewrite len_evals. fold n. unfold PyList.insert_pos, idx, idx0.
    destruct (z >=? n) eqn:Hzn; repeat match goal with |- context [if ?b then _ else _] => destruct b eqn:? end; lia. }
  destruct P as [P B].
  rewrite andb_false_r in E.
  destruct (formalize q sc st (fst ps) KList tid fl (snd ps ++ [KI idx]) true rv) as [nw st1] eqn:F.
  destruct (formalize_storable _ _ _ _ _ _ _ _ _ _ _ _ PL F) as (EN & MN & RS).
  unfold PyList.insert. rewrite <- P, <- EN.
  destruct (idx <? n) eqn:L; inv E; split; auto.
  - replace (firstn (Z.to_nat idx) (evals its) ++ erase nw :: skipn (Z.to_nat idx) (evals its))
      with (evals (renum (snd ps) (insert_at (Z.to_nat idx) (KI idx, nw) its))).
    2:{ rewrite evals_renum, evals_insert_at; auto. unfold n, zlen in *. lia. }
    apply wrote_of; auto. { apply clean_renum. apply Forall_insert_at; auto. }
    eapply written_here'; eauto.
  - assert (idx = n) by lia. rewrite H in W'. rewrite H.
    replace (firstn (Z.to_nat n) (evals its) ++ erase nw :: skipn (Z.to_nat n) (evals its))
      with (evals (its ++ [(KI n, nw)])).
    2:{ rewrite evals_app. unfold n, zlen. rewrite Nat2Z.id. rewrite <- (evals_length its).
        rewrite firstn_all, skipn_all. reflexivity. }
    apply wrote_of; auto. { apply clean_app; auto. constructor; auto. }
    eapply written_here'; eauto.
Qed.
End LPrim.

(* --- the dict primitive ---------------------------------------------------------------------------------------------- *)
Lemma dset_same : forall (k : key) (v : pv) d, PyDict.dget key_eqb k d = Some v -> PyDict.dset key_eqb k v d = d.
Proof.
  induction d as [|[k' v'] d IH]; simpl; intros; try discriminate.
  destruct (key_eqb k k'). inv H; auto. f_equal; auto.
Qed.

Section DPrim.
Variables (q : quirks) (sc : scope) (st : state) (ps : pos) (tid : N) (pa : option N) (fl : flags) (its : list (key * node)).
Hypothesis AT : at_is st ps tid KDict pa fl its.
Hypothesis CLEAN : clean its.
Hypothesis ANC : anc_clean st ps.
Hypothesis WFS : wfs st.

Lemma dwrote_of : forall st' its', wfs st' -> clean its' ->
  at_is st' ps tid KDict pa fl its' /\ keeps_other (fst ps) st st' /\ anc_clean st' ps -> dwrote st ps tid pa fl st' (eitems its').
Proof. intros st' its' W C (A & K & AC). exists its'. auto 10. Qed.

(* d[k] = v *)
Lemma dprim_set : forall k rv st' p,
  plain_rv rv -> dprim q sc st ps k rv = (st', p) ->
  (p = PNone \/ p = PUpd) /\ dwrote st ps tid pa fl st' (PyDict.dset key_eqb k (prv rv) (eitems its)).
Proof.
  intros k rv st' p PL E.
  pose proof (dprim_wfs _ _ _ _ _ _ _ _ WFS (plain_rv_ok _ PL) E) as W'.
  unfold dprim in E. unfold at_is in AT. rewrite AT in E. cbn [fst snd] in E.
  set (old := match assoc k its with Some o => o | None => Leaf LMissing end) in *.
  destruct (same_obj old rv) eqn:S.
  - inv E. split; auto. exists its. repeat split; auto; try apply keeps_other_refl.
    symmetry. apply dset_same. rewrite dget_eitems. unfold old in S.
    destruct (assoc k its) as [o|] eqn:A; simpl.
    + f_equal. apply same_obj_storable; auto.
    + exfalso. destruct rv; simpl in *; try discriminate. destruct l; simpl in *; discriminate.
  - rewrite (storable_not_missing _ (plain_storable _ PL)) in E.
    destruct (formalize q sc st (fst ps) KDict tid fl (snd ps ++ [k]) false rv) as [nw st1] eqn:F.
    destruct (formalize_storable _ _ _ _ _ _ _ _ _ _ _ _ (plain_storable _ PL) F) as (EN & MN & RS).
    inv E. split; auto. rewrite <- EN, <- eitems_set_assoc.
    apply dwrote_of; auto. { apply clean_set_assoc; auto. }
    eapply written_here; eauto.
Qed.

(* a new key, for any value whose formalisation is known: the item goes to the end *)
Lemma dprim_add_gen : forall k rv st' p v,
  rv_ok rv -> is_missing_rv rv = false -> assoc k its = None ->
  (forall nw st1, formalize q sc st (fst ps) KDict tid fl (snd ps ++ [k]) false rv = (nw, st1) ->
                  erase nw = v /\ is_missing nw = false /\ roots st1 = roots st) ->
  dprim q sc st ps k rv = (st', p) ->
  p = PUpd /\ exists nw, at_is st' ps tid KDict pa fl (its ++ [(k, nw)]) /\ erase nw = v /\ is_missing nw = false /\
              keeps_other (fst ps) st st' /\ anc_clean st' ps /\ wfs st'.
Proof.
  intros k rv st' p v OK NM AB FZ E.
  pose proof (dprim_wfs _ _ _ _ _ _ _ _ WFS OK E) as W'.
  unfold dprim in E. unfold at_is in AT. rewrite AT in E. cbn [fst snd] in E. rewrite AB in E.
  replace (same_obj (Leaf LMissing) rv) with false in E by (symmetry; exact NM).
  rewrite NM in E.
  destruct (formalize q sc st (fst ps) KDict tid fl (snd ps ++ [k]) false rv) as [nw st1] eqn:F.
  destruct (FZ _ _ eq_refl) as (EN & MN & RS).
  inv E. split; auto. exists nw.
  replace (set_assoc k nw its) with (its ++ [(k, nw)]) in *.
  2:{ clear - AB. induction its as [|[k' v'] l IH]; simpl in *; auto. destruct (key_eqb k k'); try discriminate. f_equal; auto. }
  destruct (written_here st ps tid pa fl its KDict AT ANC st1 (its ++ [(k, nw)]) (Leaf LMissing) RS) as (A1 & K1 & AC1). auto 10.
Qed.

(* del d[k] (the primitive is called with the MISSING_VALUE marker) *)
Lemma dprim_del : forall k st' p,
  has_key k its = true -> dprim q sc st ps k (RLeaf LMissing) = (st', p) ->
  p = PUpd /\ dwrote st ps tid pa fl st' (PyDict.ddel key_eqb k (eitems its)).
Proof.
  intros k st' p HK E.
  pose proof (dprim_wfs _ _ _ _ _ _ _ _ WFS (I : rv_ok (RLeaf LMissing)) E) as W'.
  unfold dprim in E. unfold at_is in AT. rewrite AT in E. cbn [fst snd] in E.
  unfold has_key in HK. destruct (assoc k its) as [o|] eqn:A; try discriminate.
  pose proof (clean_assoc _ _ _ CLEAN A) as M.
  replace (same_obj o (RLeaf LMissing)) with false in E by (symmetry; exact M).
  simpl in E. inv E. split; auto. rewrite <- eitems_remove_assoc.
  apply dwrote_of; auto. { apply clean_remove_assoc; auto. }
  eapply (written_here st ps tid pa fl its KDict AT ANC st); eauto.
Qed.
End DPrim.

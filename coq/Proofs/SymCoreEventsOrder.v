(* SymCoreEventsOrder.v -- children before parents: the targets are notified in descending KeyPath order.
   Python's sorted() is modelled by an insertion sort, which is only meaningful where the comparison of keys
   (KeyPath._KeyComparisonWrapper: two ints as ints, anything else as strings) is a consistent order.  It is one on
   "simple" keys: every int key (list indices of any size) and every string key that does not start with a digit or a
   minus sign: there the comparison is "by the first character of the text, then ints as ints and strings as strings". *)
From PG Require Import Common.Tactics Model.SymCoreDefs Model.SymCoreOps Model.SymCoreEvents Proofs.SymCoreBase
     Proofs.SymCoreEventsDeliver Proofs.SymCoreEventsBase Proofs.SymCoreEventsStep.
From Coq Require Import NArith Permutation.
Local Open Scope Z_scope.

(* --- the order of strings ---------------------------------------------------------------------------------------------- *)
Lemma str_ltb_irrefl : forall a, str_ltb a a = false.
Proof. induction a; simpl; auto. rewrite N.eqb_refl. auto. Qed.
Lemma str_ltb_asym : forall a b, str_ltb a b = true -> str_ltb b a = false.
Proof.
  induction a; destruct b; simpl; intros; auto; try discriminate.
  rewrite N.eqb_sym. destruct (N.eqb a n) eqn:E; auto. apply N.ltb_lt in H. apply N.ltb_ge. lia.
Qed.
(* negative transitivity: a < c  ->  a < b  or  b < c *)
Lemma str_ltb_negtrans : forall a b c, str_ltb a c = true -> str_ltb a b = true \/ str_ltb b c = true.
Proof.
  induction a; destruct b, c; simpl; intros; auto; try discriminate.
  destruct (N.eqb a n0) eqn:E1.
  - apply N.eqb_eq in E1. subst n0. destruct (N.eqb a n) eqn:E2.
    + apply N.eqb_eq in E2. subst n. rewrite N.eqb_refl. auto.
    + rewrite N.eqb_sym, E2. destruct (N.ltb a n) eqn:L; auto. right. apply N.ltb_lt. apply N.ltb_ge in L. apply N.eqb_neq in E2. lia.
  - apply N.ltb_lt in H. destruct (N.eqb a n) eqn:E2.
    + apply N.eqb_eq in E2. subst n. rewrite E1. right. apply N.ltb_lt. auto.
    + destruct (N.ltb a n) eqn:L; auto. right. apply N.ltb_ge in L. apply N.eqb_neq in E2.
      destruct (N.eqb n n0) eqn:E3. apply N.eqb_eq in E3. lia. apply N.ltb_lt. lia.
Qed.
Lemma str_total : forall a b, str_ltb a b = false -> str_ltb b a = false -> a = b.
Proof.
  induction a; destruct b; simpl; intros; auto; try discriminate.
  rewrite N.eqb_sym in H0. destruct (N.eqb a n) eqn:E.
  - apply N.eqb_eq in E. subst. f_equal. auto.
  - apply N.ltb_ge in H. apply N.ltb_ge in H0. apply N.eqb_neq in E. lia.
Qed.
Lemma str_eqb_eq : forall a b, list_eqb N.eqb a b = true <-> a = b.
Proof.
  split. apply list_eqb_eq. intros; apply N.eqb_eq; auto.
  intros; subst. apply list_eqb_refl. apply N.eqb_refl.
Qed.

(* --- simple keys ---------------------------------------------------------------------------------------------------------- *)
(* ANY int key (list indices of any size, negative ints as dict keys) and any string key that does not start with a digit or a
   minus sign.  (A string key that looks like a number breaks the order: 9 < 10 as ints, 10 < "5" and "5" < 9 as texts.) *)
Definition simple_key (k : key) : Prop :=
  match k with
  | KI _ => True
  | KS [] => True
  | KS (c :: _) => c <> 45%N /\ ((c < 48)%N \/ (57 < c)%N)
  end.
(* the text of an int starts with '-' or with a digit *)
Lemma pos_digits_S : forall f n acc,
  pos_digits (S f) n acc =
  (if N.eqb (N.div n 10) 0 then (48 + N.modulo n 10)%N :: acc else pos_digits f (N.div n 10) ((48 + N.modulo n 10)%N :: acc)).
Proof. reflexivity. Qed.
Lemma pos_digits_head : forall f n c acc, (48 <= c <= 57)%N -> exists c' r, pos_digits f n (c :: acc) = c' :: r /\ (48 <= c' <= 57)%N.
Proof.
  induction f; intros. simpl. eauto.
  rewrite pos_digits_S. destruct (N.eqb (N.div n 10) 0).
  - do 2 eexists. split. reflexivity. pose proof (N.mod_upper_bound n 10). lia.
  - apply IHf. pose proof (N.mod_upper_bound n 10). lia.
Qed.
Lemma pos_digits_head0 : forall n, exists c r, pos_digits 40 n [] = c :: r /\ (48 <= c <= 57)%N.
Proof.
  intros. change 40%nat with (S 39). rewrite pos_digits_S. destruct (N.eqb (N.div n 10) 0).
  - do 2 eexists. split. reflexivity. pose proof (N.mod_upper_bound n 10). lia.
  - apply pos_digits_head. pose proof (N.mod_upper_bound n 10). lia.
Qed.
Lemma z_str_head : forall z, exists c r, z_str z = c :: r /\ (if z <? 0 then c = 45%N else (48 <= c <= 57)%N).
Proof.
  intros. unfold z_str. destruct (z <? 0). do 2 eexists; split; reflexivity.
  apply pos_digits_head0.
Qed.
(* the comparison of two simple keys: first by class (the first character of the text; all non-negative ints in one class), then inside
   the class -- ints as ints, strings as strings *)
Definition cls (k : key) : N :=
  match k with KI x => if x <? 0 then 45%N else 48%N | KS [] => 0%N | KS (c :: _) => c end.
Definition inner (a b : key) : bool :=
  match a, b with KI x, KI y => x <? y | KS s, KS t => str_ltb s t | _, _ => false end.
Definition klt (a b : key) : bool := N.ltb (cls a) (cls b) || (N.eqb (cls a) (cls b) && inner a b).
Lemma simple_ltb : forall a b, simple_key a -> simple_key b -> kw_ltb a b = klt a b.
Proof.
  intros [s|x] [t|y] SA SB; unfold kw_ltb, klt, key_str, cls, inner.
  - destruct s as [|c s], t as [|d t]; cbn [str_ltb]; auto.
    + destruct (N.ltb 0 d) eqn:L; simpl; auto. apply N.ltb_ge in L. assert (d = 0%N) by lia. subst. reflexivity.
    + destruct (N.ltb c 0) eqn:L. apply N.ltb_lt in L. lia. simpl. rewrite andb_false_r. auto.
    + destruct (N.eqb c d) eqn:E; simpl.
      * apply N.eqb_eq in E. subst. rewrite N.ltb_irrefl. auto.
      * rewrite orb_false_r. auto.
  - destruct (z_str_head y) as (h & r & E & H). rewrite E. rewrite andb_false_r, orb_false_r.
    destruct s as [|c s]; cbn [str_ltb].
    + symmetry. apply N.ltb_lt. destruct (y <? 0); lia.
    + simpl in SA. destruct (N.eqb c h) eqn:Q. { apply N.eqb_eq in Q. destruct (y <? 0); lia. }
      destruct (y <? 0). subst. auto.
      destruct (N.ltb c h) eqn:L1, (N.ltb c 48) eqn:L2; auto;
        try apply N.ltb_lt in L1; try apply N.ltb_lt in L2; try apply N.ltb_ge in L1; try apply N.ltb_ge in L2; lia.
  - destruct (z_str_head x) as (h & r & E & H). rewrite E. rewrite andb_false_r, orb_false_r.
    destruct t as [|d t]; cbn [str_ltb].
    + symmetry. apply N.ltb_ge. lia.
    + simpl in SB. destruct (N.eqb h d) eqn:Q. { apply N.eqb_eq in Q. destruct (x <? 0); lia. }
      destruct (x <? 0). subst. auto.
      destruct (N.ltb h d) eqn:L1, (N.ltb 48 d) eqn:L2; auto;
        try apply N.ltb_lt in L1; try apply N.ltb_lt in L2; try apply N.ltb_ge in L1; try apply N.ltb_ge in L2; lia.
  - destruct (x <? 0) eqn:X, (y <? 0) eqn:Y; simpl; try rewrite N.eqb_refl; simpl; auto.
    + apply Z.ltb_lt in X. apply Z.ltb_ge in Y. apply Z.ltb_lt. lia.
    + apply Z.ltb_lt in Y. apply Z.ltb_ge in X. apply Z.ltb_ge. lia.
Qed.
Lemma simple_eqb : forall a b, simple_key a -> simple_key b -> kw_eqb a b = true -> a = b.
Proof.
  intros [s|x] [t|y] SA SB; unfold kw_eqb, key_str; intros H.
  - apply str_eqb_eq in H. subst. auto.
  - destruct (z_str_head y) as (h & r & E & HH). rewrite E in H. destruct s as [|c s]; simpl in H. discriminate.
    simpl in SA. apply andb_prop in H. destruct H as [H _]. apply N.eqb_eq in H. destruct (y <? 0); lia.
  - destruct (z_str_head x) as (h & r & E & HH). rewrite E in H. destruct t as [|d t]; simpl in H. discriminate.
    simpl in SB. apply andb_prop in H. destruct H as [H _]. apply N.eqb_eq in H. destruct (x <? 0); lia.
  - apply Z.eqb_eq in H. subst. auto.
Qed.
Lemma cls_mixed : forall s x, simple_key (KS s) -> cls (KS s) <> cls (KI x).
Proof. intros [|c s] x S; simpl in *; destruct (x <? 0); lia. Qed.
Lemma klt_asym : forall a b, klt a b = true -> klt b a = false.
Proof.
  unfold klt. intros a b H. apply orb_prop in H. destruct H as [H|H].
  - apply N.ltb_lt in H. destruct (N.ltb (cls b) (cls a)) eqn:L. apply N.ltb_lt in L. lia.
    destruct (N.eqb (cls b) (cls a)) eqn:E. apply N.eqb_eq in E. lia. auto.
  - apply andb_prop in H. destruct H as [E I]. apply N.eqb_eq in E. rewrite E, N.ltb_irrefl, N.eqb_refl. simpl.
    destruct a, b; simpl in *; try discriminate. apply str_ltb_asym; auto. apply Z.ltb_lt in I. apply Z.ltb_ge. lia.
Qed.
Lemma klt_negtrans : forall a b c, simple_key a -> simple_key b -> simple_key c ->
  klt a c = true -> klt a b = true \/ klt b c = true.
Proof.
  unfold klt. intros a b c SA SB SC H.
  destruct (N.ltb (cls a) (cls b)) eqn:L1; auto. destruct (N.ltb (cls b) (cls c)) eqn:L2; auto.
  apply N.ltb_ge in L1. apply N.ltb_ge in L2. apply orb_prop in H. destruct H as [H|H]. { apply N.ltb_lt in H. lia. }
  apply andb_prop in H. destruct H as [E I]. apply N.eqb_eq in E.
  assert (E1 : cls a = cls b) by lia. assert (E2 : cls b = cls c) by lia.
  rewrite E1, E2, !N.eqb_refl. simpl.
  destruct a as [s|x], c as [u|z]; simpl in I; try discriminate.
  - destruct b as [t|y]. apply str_ltb_negtrans; auto. exfalso. eapply cls_mixed; eauto.
  - destruct b as [t|y]. exfalso. eapply (cls_mixed t x); eauto.
    simpl. apply Z.ltb_lt in I. destruct (x <? y) eqn:Q; auto. right. apply Z.ltb_ge in Q. apply Z.ltb_lt. lia.
Qed.
Lemma klt_total : forall a b, simple_key a -> simple_key b -> klt a b = false -> klt b a = false -> a = b.
Proof.
  unfold klt. intros a b SA SB H1 H2.
  apply orb_false_elim in H1. destruct H1 as [L1 I1]. apply orb_false_elim in H2. destruct H2 as [L2 I2].
  apply N.ltb_ge in L1. apply N.ltb_ge in L2. assert (E : cls a = cls b) by lia.
  rewrite E, N.eqb_refl in *. simpl in *.
  destruct a as [s|x], b as [t|y]; simpl in *.
  - f_equal. apply str_total; auto.
  - exfalso. eapply cls_mixed; eauto.
  - exfalso. eapply cls_mixed; eauto.
  - f_equal. apply Z.ltb_ge in I1. apply Z.ltb_ge in I2. lia.
Qed.
Lemma klt_irrefl : forall a, klt a a = false.
Proof.
  intros. unfold klt. rewrite N.ltb_irrefl, N.eqb_refl. simpl. destruct a; simpl. apply str_ltb_irrefl. apply Z.ltb_irrefl.
Qed.
Lemma kw_eqb_refl : forall k, kw_eqb k k = true.
Proof. destruct k; simpl. apply list_eqb_refl. apply N.eqb_refl. apply Z.eqb_refl. Qed.
Lemma simple_eqb_false : forall a b, simple_key a -> simple_key b -> kw_eqb a b = false -> a <> b.
Proof. intros a b _ _ H E. subst. rewrite kw_eqb_refl in H. discriminate. Qed.

(* --- paths of simple keys ---------------------------------------------------------------------------------------------------- *)
Definition simple_path (p : list key) : Prop := Forall simple_key p.
Lemma path_ltb_asym : forall a b, simple_path a -> simple_path b -> path_ltb a b = true -> path_ltb b a = false.
Proof.
  induction a; destruct b; cbn [path_ltb]; intros SA SB H; auto; try discriminate. inv SA. inv SB.
  destruct (kw_eqb a k) eqn:E.
  - apply simple_eqb in E; auto. subst. rewrite kw_eqb_refl. auto.
  - destruct (kw_eqb k a) eqn:E2.
    + apply simple_eqb in E2; auto. subst. rewrite kw_eqb_refl in E. discriminate.
    + rewrite simple_ltb in * by auto. apply klt_asym; auto.
Qed.
Lemma path_ltb_negtrans : forall a b c, simple_path a -> simple_path b -> simple_path c ->
  path_ltb a c = true -> path_ltb a b = true \/ path_ltb b c = true.
Proof.
  induction a; destruct b, c; cbn [path_ltb]; intros SA SB SC H; auto; try discriminate. inv SA. inv SB. inv SC.
  rewrite (simple_ltb a k0) in H by auto. rewrite (simple_ltb a k), (simple_ltb k k0) by auto.
  destruct (kw_eqb a k0) eqn:E1.
  - apply simple_eqb in E1; auto. subst k0.
    destruct (kw_eqb a k) eqn:E2.
    + apply simple_eqb in E2; auto. subst k. rewrite kw_eqb_refl. eauto.
    + assert (E3 : kw_eqb k a = false).
      { destruct (kw_eqb k a) eqn:X; auto. apply simple_eqb in X; auto. subst. rewrite kw_eqb_refl in E2. discriminate. }
      rewrite E3. destruct (klt a k) eqn:L; auto. right.
      destruct (klt k a) eqn:L2; auto.
      exfalso. apply (simple_eqb_false a k); auto. apply klt_total; auto.
  - destruct (kw_eqb a k) eqn:E2.
    + apply simple_eqb in E2; auto. subst k. rewrite E1. auto.
    + destruct (kw_eqb k k0) eqn:E3.
      * apply simple_eqb in E3; auto. subst k0. auto.
      * apply klt_negtrans; auto.
Qed.
(* a path is smaller than its extensions and never smaller than its prefixes (any keys) *)
Lemma prefix_ltb : forall p k q, path_ltb p (p ++ k :: q) = true.
Proof. induction p; simpl; intros; auto. rewrite kw_eqb_refl. auto. Qed.

(* --- insertion sort gives a descending list ------------------------------------------------------------------------------------ *)
Section Sorted.
Context {A : Type}.
Definition desc (l : list (list key * A)) : Prop :=
  forall l1 x l2 y l3, l = l1 ++ x :: l2 ++ y :: l3 -> path_ltb (fst x) (fst y) = false.
Fixpoint descb (l : list (list key * A)) : Prop :=
  match l with
  | [] => True
  | x :: r => Forall (fun y => path_ltb (fst x) (fst y) = false) r /\ descb r
  end.
Lemma descb_desc : forall l, descb l -> desc l.
Proof.
  induction l; simpl; intros D l1 x l2 y l3 E.
  - destruct l1; discriminate.
  - destruct D as [F D]. destruct l1; simpl in E; inv E.
    + rewrite Forall_forall in F. apply F. apply in_or_app. right. simpl. auto.
    + eapply IHl; eauto.
Qed.
Lemma insert_desc_in : forall (x z : list key * A) l, In z (insert_desc x l) -> z = x \/ In z l.
Proof.
  induction l; simpl; intros. destruct H as [|[]]; auto.
  destruct (path_ltb (fst x) (fst a)); simpl in H.
  - destruct H; auto. apply IHl in H. tauto.
  - destruct H; auto.
Qed.
Lemma insert_desc_sorted : forall (x : list key * A) l,
  simple_path (fst x) -> Forall (fun y => simple_path (fst y)) l -> descb l -> descb (insert_desc x l).
Proof.
  induction l as [|y r IH]; simpl; intros SX SL D. auto.
  inv SL. destruct D as [F D]. destruct (path_ltb (fst x) (fst y)) eqn:L.
  - simpl. split; [|apply IH; auto]. rewrite Forall_forall in *. intros z Iz.
    apply insert_desc_in in Iz. destruct Iz as [E|I].
    + subst. apply path_ltb_asym; auto.
    + auto.
  - simpl. split; auto. constructor; auto.
    rewrite Forall_forall in *. intros z Iz.
    destruct (path_ltb (fst x) (fst z)) eqn:L2; auto.
    destruct (path_ltb_negtrans (fst x) (fst y) (fst z)) as [N|N]; auto.
    + congruence.
    + rewrite F in N; auto.
Qed.
Lemma insert_desc_forall' : forall (P : list key * A -> Prop) x l, P x -> Forall P l -> Forall P (insert_desc x l).
Proof. induction l; simpl; intros; auto. inv H0. destruct (path_ltb (fst x) (fst a)); auto. Qed.
Lemma sort_desc_sorted : forall l : list (list key * A), Forall (fun y => simple_path (fst y)) l -> descb (sort_desc l).
Proof.
  unfold sort_desc. induction l; simpl; intros; auto. inv H. apply insert_desc_sorted; auto.
  clear - H3. induction l; simpl; auto. inv H3. apply insert_desc_forall'; auto.
Qed.
End Sorted.

(* CHILDREN FIRST: if a target comes before another one in the notification order, it is not stored above it *)
Theorem order_children_first : forall ts l1 t1 l2 t2 l3,
  Forall (fun t => simple_path (npth (fst t))) ts ->
  order ts = l1 ++ t1 :: l2 ++ t2 :: l3 ->
  forall k q, npth (fst t2) <> npth (fst t1) ++ k :: q.
Proof.
  intros ts l1 t1 l2 t2 l3 S E k q C.
  unfold order in E.
  assert (D := sort_desc_sorted (map (fun t => (npth (fst t), t)) ts)).
  assert (F : Forall (fun y : list key * target => simple_path (fst y)) (map (fun t => (npth (fst t), t)) ts)).
  { clear - S. induction ts; simpl; auto. inv S. constructor; auto. }
  specialize (D F). apply descb_desc in D.
  assert (P : forall x, In x (sort_desc (map (fun t : target => (npth (fst t), t)) ts)) -> fst x = npth (fst (snd x))).
  { intros x I. apply (Permutation_in _ (sort_desc_perm _ _)) in I. apply in_map_iff in I. destruct I as [t [Et _]]. subst. auto. }
  set (s := sort_desc (map (fun t : node * list (list key * update) => (npth (fst t), t)) ts)) in *.
  assert (exists s1 x s2 y s3, s = s1 ++ x :: s2 ++ y :: s3 /\ snd x = t1 /\ snd y = t2).
  { clearbody s. clear - E. apply map_eq_app in E. destruct E as (s1 & r1 & E0 & M1 & M2).
    apply map_eq_cons in M2. destruct M2 as (x & r2 & E1 & Ex & M3).
    apply map_eq_app in M3. destruct M3 as (s2 & r3 & E2 & M4 & M5).
    apply map_eq_cons in M5. destruct M5 as (y & s3 & E3 & Ey & M6).
    subst. exists s1, x, s2, y, s3. auto. }
  destruct H as (s1 & x & s2 & y & s3 & Es & E1 & E2).
  specialize (D _ _ _ _ _ Es).
  assert (Ix : In x s) by (rewrite Es; apply in_or_app; right; simpl; auto).
  assert (Iy : In y s) by (rewrite Es; apply in_or_app; right; simpl; right; apply in_or_app; right; simpl; auto).
  pose proof (P x Ix) as Px. pose proof (P y Iy) as Py. unfold target in *. rewrite Px, Py in D.
  rewrite E1, E2, C in D. rewrite prefix_ltb in D. discriminate.
Qed.

(* --- the same, as a property of the list of receiver paths (closed under dropping elements) -------------------------------------- *)
Definition not_below (a b : list key) : Prop := forall k q, b <> a ++ k :: q.   (* b is not a proper extension of a *)
Fixpoint children_first (l : list (list key)) : Prop :=
  match l with
  | [] => True
  | a :: r => Forall (not_below a) r /\ children_first r
  end.
Lemma descb_children_first : forall A (s : list (list key * A)), descb s -> children_first (map fst s).
Proof.
  induction s; simpl; intros; auto. destruct H as [F D]. split; auto.
  rewrite Forall_forall in *. intros b I k q C. apply in_map_iff in I. destruct I as [y [E I]]. subst b.
  specialize (F _ I). rewrite C, prefix_ltb in F. discriminate.
Qed.
Lemma children_first_filter : forall A (f : A -> list key) (p : A -> bool) l,
  children_first (map f l) -> children_first (map f (filter p l)).
Proof.
  induction l; simpl; intros; auto. destruct H as [F C]. destruct (p a); simpl; auto. split; auto.
  rewrite Forall_forall in *. intros b I. apply F. apply in_map_iff in I. destruct I as [x [E I]]. apply filter_In in I.
  subst. apply in_map. tauto.
Qed.
Lemma children_first_prefix : forall a b, children_first (a ++ b) -> children_first a.
Proof.
  induction a; simpl; intros; auto. destruct H as [F C]. split; eauto.
  rewrite Forall_forall in *. intros. apply F. apply in_or_app. auto.
Qed.
Lemma order_paths : forall ts, map (fun t : target => npth (fst t)) (order ts) = map fst (sort_desc (map (fun t => (npth (fst t), t)) ts)).
Proof.
  intros. unfold order. rewrite map_map. apply map_ext_in. intros x I.
  apply (Permutation_in _ (sort_desc_perm _ _)) in I. apply in_map_iff in I. destruct I as [t [Et _]]. subst. auto.
Qed.
Lemma events_paths : forall ts, map ev_path (flat_map event_of ts) = map (fun t : target => npth (fst t)) (filter (fun t => observes (fst t)) ts).
Proof.
  induction ts as [|[m pl] r IH]; simpl; auto. unfold event_of at 1, observes at 1. simpl.
  destruct (obs_of m); simpl; rewrite IH; auto.
Qed.

Theorem deliver_children_first : forall st ups stop,
  Forall (fun n => simple_path (npth n)) (affected st ups) ->
  children_first (map ev_path (deliver st ups stop)).
Proof.
  intros. unfold deliver, notified_targets. rewrite events_paths. apply children_first_filter.
  destruct (SymCoreEventsStep.cut_after_incl stop (order (group st ups))) as [rest E].
  apply (children_first_prefix _ (map (fun t : target => npth (fst t)) rest)). rewrite <- map_app, <- E.
  rewrite order_paths. apply descb_children_first. apply sort_desc_sorted.
  rewrite Forall_forall in *. intros y I. apply in_map_iff in I. destruct I as [t [E' I]]. subst y. simpl.
  apply H. apply group_target_node in I. tauto.
Qed.

(* SymCoreEventsOrder.v -- children before parents: the targets are notified in descending KeyPath order.
   Python's sorted() is modelled by an insertion sort, which is only meaningful where the comparison of keys
   (KeyPath._KeyComparisonWrapper: two ints as ints, anything else as strings) is a consistent order.  It is one on
   "simple" keys: list / int keys 0..9 and string keys that do not start with a digit or a sign (every key the
   generators use): there the comparison is the lexicographic order of the key texts. *)
From PG Require Import Common.Tactics Model.SymCoreDefs Model.SymCoreOps Model.SymCoreEvents Proofs.SymCoreBase
     Proofs.SymCoreEventsDeliver Proofs.SymCoreEventsBase Proofs.SymCoreEventsStep.
From Coq Require Import NArith Permutation.
Local Open Scope Z_scope.

(* --- the order of strings ---------------------------------------------------------------------------------------------- *)
Lemma str_ltb_irrefl : forall a, str_ltb a a = false.
Proof. induction a; simpl; auto. rewrite N.eqb_refl. auto. Qed.
Lemma str_ltb_asym : forall a b, str_ltb a b = true -> str_ltb b a = false.
Proof.
  induction a; destruct b; simpl; intros; auto; try discriminate.
  rewrite N.eqb_sym. destruct (N.eqb a n) eqn:E; auto. apply N.ltb_lt in H. apply N.ltb_ge. lia.
Qed.
(* negative transitivity: a < c  ->  a < b  or  b < c *)
Lemma str_ltb_negtrans : forall a b c, str_ltb a c = true -> str_ltb a b = true \/ str_ltb b c = true.
Proof.
  induction a; destruct b, c; simpl; intros; auto; try discriminate.
  destruct (N.eqb a n0) eqn:E1.
  - apply N.eqb_eq in E1. subst n0. destruct (N.eqb a n) eqn:E2.
    + apply N.eqb_eq in E2. subst n. rewrite N.eqb_refl. auto.
    + rewrite N.eqb_sym, E2. destruct (N.ltb a n) eqn:L; auto. right. apply N.ltb_lt. apply N.ltb_ge in L. apply N.eqb_neq in E2. lia.
  - apply N.ltb_lt in H. destruct (N.eqb a n) eqn:E2.
    + apply N.eqb_eq in E2. subst n. rewrite E1. right. apply N.ltb_lt. auto.
    + destruct (N.ltb a n) eqn:L; auto. right. apply N.ltb_ge in L. apply N.eqb_neq in E2.
      destruct (N.eqb n n0) eqn:E3. apply N.eqb_eq in E3. lia. apply N.ltb_lt. lia.
Qed.
Lemma str_total : forall a b, str_ltb a b = false -> str_ltb b a = false -> a = b.
Proof.
  induction a; destruct b; simpl; intros; auto; try discriminate.
  rewrite N.eqb_sym in H0. destruct (N.eqb a n) eqn:E.
  - apply N.eqb_eq in E. subst. f_equal. auto.
  - apply N.ltb_ge in H. apply N.ltb_ge in H0. apply N.eqb_neq in E. lia.
Qed.
Lemma str_eqb_eq : forall a b, list_eqb N.eqb a b = true <-> a = b.
Proof.
  split. apply list_eqb_eq. intros; apply N.eqb_eq; auto.
  intros; subst. apply list_eqb_refl. apply N.eqb_refl.
Qed.

(* --- simple keys ---------------------------------------------------------------------------------------------------------- *)
Definition simple_key (k : key) : Prop :=
  match k with
  | KI z => 0 <= z <= 9
  | KS s => match s with [] => True | c :: _ => (57 < c)%N end
  end.
Lemma z_str_digit : forall z, 0 <= z <= 9 -> z_str z = [(48 + Z.to_N z)%N].
Proof.
  intros. assert (z = 0 \/ z = 1 \/ z = 2 \/ z = 3 \/ z = 4 \/ z = 5 \/ z = 6 \/ z = 7 \/ z = 8 \/ z = 9) by lia.
  intuition; subst; reflexivity.
Qed.
Lemma digit_ltb : forall x y, 0 <= x <= 9 -> 0 <= y <= 9 ->
  str_ltb [(48 + Z.to_N x)%N] [(48 + Z.to_N y)%N] = Z.ltb x y.
Proof.
  intros. cbn [str_ltb].
  destruct (N.eqb (48 + Z.to_N x) (48 + Z.to_N y)) eqn:E.
  - apply N.eqb_eq in E. symmetry. apply Z.ltb_ge. lia.
  - apply N.eqb_neq in E. destruct (Z.ltb x y) eqn:L.
    + apply Z.ltb_lt in L. apply N.ltb_lt. lia.
    + apply Z.ltb_ge in L. apply N.ltb_ge. lia.
Qed.
Lemma digit_eqb : forall x y, 0 <= x <= 9 -> 0 <= y <= 9 ->
  list_eqb N.eqb [(48 + Z.to_N x)%N] [(48 + Z.to_N y)%N] = Z.eqb x y.
Proof.
  intros. cbn [list_eqb]. rewrite andb_true_r.
  destruct (Z.eqb x y) eqn:E.
  - apply Z.eqb_eq in E. subst. apply N.eqb_refl.
  - apply Z.eqb_neq in E. apply N.eqb_neq. lia.
Qed.
Lemma simple_ltb : forall a b, simple_key a -> simple_key b -> kw_ltb a b = str_ltb (key_str a) (key_str b).
Proof.
  intros [s|x] [t|y] SA SB; unfold kw_ltb, key_str; auto.
  unfold simple_key in *. rewrite !z_str_digit by auto. symmetry. apply digit_ltb; auto.
Qed.
Lemma simple_eqb : forall a b, simple_key a -> simple_key b -> kw_eqb a b = list_eqb N.eqb (key_str a) (key_str b).
Proof.
  intros [s|x] [t|y] SA SB; unfold kw_eqb, key_str; auto.
  unfold simple_key in *. rewrite !z_str_digit by auto. symmetry. apply digit_eqb; auto.
Qed.

(* --- paths of simple keys: lexicographic order of the key texts ------------------------------------------------------------ *)
Definition simple_path (p : list key) : Prop := Forall simple_key p.
Lemma path_ltb_asym : forall a b, simple_path a -> simple_path b -> path_ltb a b = true -> path_ltb b a = false.
Proof.
  induction a; destruct b; cbn [path_ltb]; intros SA SB H; auto; try discriminate. inv SA. inv SB.
  rewrite simple_eqb, simple_ltb in * by auto.
  destruct (list_eqb N.eqb (key_str a) (key_str k)) eqn:E.
  - apply str_eqb_eq in E. rewrite E. rewrite (proj2 (str_eqb_eq _ _) eq_refl). auto.
  - destruct (list_eqb N.eqb (key_str k) (key_str a)) eqn:E2.
    + apply str_eqb_eq in E2. rewrite E2 in E. rewrite (proj2 (str_eqb_eq _ _) eq_refl) in E. discriminate.
    + apply str_ltb_asym; auto.
Qed.
Lemma path_ltb_negtrans : forall a b c, simple_path a -> simple_path b -> simple_path c ->
  path_ltb a c = true -> path_ltb a b = true \/ path_ltb b c = true.
Proof.
  induction a; destruct b, c; cbn [path_ltb]; intros SA SB SC H; auto; try discriminate. inv SA. inv SB. inv SC.
  rewrite (simple_eqb a k0), (simple_ltb a k0) in H by auto.
  rewrite (simple_eqb a k), (simple_ltb a k), (simple_eqb k k0), (simple_ltb k k0) by auto.
  destruct (list_eqb N.eqb (key_str a) (key_str k0)) eqn:E1.
  - apply str_eqb_eq in E1. rewrite <- E1 in *.
    destruct (list_eqb N.eqb (key_str a) (key_str k)) eqn:E2.
    + apply str_eqb_eq in E2. rewrite <- E2. rewrite (proj2 (str_eqb_eq _ _) eq_refl). eauto.
    + assert (E3 : list_eqb N.eqb (key_str k) (key_str a) = false).
      { destruct (list_eqb N.eqb (key_str k) (key_str a)) eqn:X; auto. apply str_eqb_eq in X. rewrite X in E2.
        rewrite (proj2 (str_eqb_eq _ _) eq_refl) in E2. discriminate. }
      rewrite E3. destruct (str_ltb (key_str a) (key_str k)) eqn:L; auto. right.
      destruct (str_ltb (key_str k) (key_str a)) eqn:L2; auto.
      apply str_total in L; auto. rewrite L in E2. rewrite (proj2 (str_eqb_eq _ _) eq_refl) in E2. discriminate.
  - destruct (list_eqb N.eqb (key_str a) (key_str k)) eqn:E2.
    + apply str_eqb_eq in E2. rewrite <- E2. rewrite E1. auto.
    + destruct (list_eqb N.eqb (key_str k) (key_str k0)) eqn:E3.
      * apply str_eqb_eq in E3. rewrite <- E3 in H. auto.
      * apply str_ltb_negtrans; auto.
Qed.
Lemma kw_eqb_refl : forall k, kw_eqb k k = true.
Proof. destruct k; simpl. apply list_eqb_refl. apply N.eqb_refl. apply Z.eqb_refl. Qed.
(* a path is smaller than its extensions and never smaller than its prefixes (any keys) *)
Lemma prefix_ltb : forall p k q, path_ltb p (p ++ k :: q) = true.
Proof. induction p; simpl; intros; auto. rewrite kw_eqb_refl. auto. Qed.

(* --- insertion sort gives a descending list ------------------------------------------------------------------------------------ *)
Section Sorted.
Context {A : Type}.
Definition desc (l : list (list key * A)) : Prop :=
  forall l1 x l2 y l3, l = l1 ++ x :: l2 ++ y :: l3 -> path_ltb (fst x) (fst y) = false.
Fixpoint descb (l : list (list key * A)) : Prop :=
  match l with
  | [] => True
  | x :: r => Forall (fun y => path_ltb (fst x) (fst y) = false) r /\ descb r
  end.
Lemma descb_desc : forall l, descb l -> desc l.
Proof.
  induction l; simpl; intros D l1 x l2 y l3 E.
  - destruct l1; discriminate.
  - destruct D as [F D]. destruct l1; simpl in E; inv E.
    + rewrite Forall_forall in F. apply F. apply in_or_app. right. simpl. auto.
    + eapply IHl; eauto.
Qed.
Lemma insert_desc_in : forall (x z : list key * A) l, In z (insert_desc x l) -> z = x \/ In z l.
Proof.
  induction l; simpl; intros. destruct H as [|[]]; auto.
  destruct (path_ltb (fst x) (fst a)); simpl in H.
  - destruct H; auto. apply IHl in H. tauto.
  - destruct H; auto.
Qed.
Lemma insert_desc_sorted : forall (x : list key * A) l,
  simple_path (fst x) -> Forall (fun y => simple_path (fst y)) l -> descb l -> descb (insert_desc x l).
Proof.
  induction l as [|y r IH]; simpl; intros SX SL D. auto.
  inv SL. destruct D as [F D]. destruct (path_ltb (fst x) (fst y)) eqn:L.
  - simpl. split; [|apply IH; auto]. rewrite Forall_forall in *. intros z Iz.
    apply insert_desc_in in Iz. destruct Iz as [E|I].
    + subst. apply path_ltb_asym; auto.
    + auto.
  - simpl. split; auto. constructor; auto.
    rewrite Forall_forall in *. intros z Iz.
    destruct (path_ltb (fst x) (fst z)) eqn:L2; auto.
    destruct (path_ltb_negtrans (fst x) (fst y) (fst z)) as [N|N]; auto.
    + congruence.
    + rewrite F in N; auto.
Qed.
Lemma insert_desc_forall' : forall (P : list key * A -> Prop) x l, P x -> Forall P l -> Forall P (insert_desc x l).
Proof. induction l; simpl; intros; auto. inv H0. destruct (path_ltb (fst x) (fst a)); auto. Qed.
Lemma sort_desc_sorted : forall l : list (list key * A), Forall (fun y => simple_path (fst y)) l -> descb (sort_desc l).
Proof.
  unfold sort_desc. induction l; simpl; intros; auto. inv H. apply insert_desc_sorted; auto.
  clear - H3. induction l; simpl; auto. inv H3. apply insert_desc_forall'; auto.
Qed.
End Sorted.

(* CHILDREN FIRST: if a target comes before another one in the notification order, it is not stored above it *)
Theorem order_children_first : forall ts l1 t1 l2 t2 l3,
  Forall (fun t => simple_path (npth (fst t))) ts ->
  order ts = l1 ++ t1 :: l2 ++ t2 :: l3 ->
  forall k q, npth (fst t2) <> npth (fst t1) ++ k :: q.
Proof.
  intros ts l1 t1 l2 t2 l3 S E k q C.
  unfold order in E.
  assert (D := sort_desc_sorted (map (fun t => (npth (fst t), t)) ts)).
  assert (F : Forall (fun y : list key * target => simple_path (fst y)) (map (fun t => (npth (fst t), t)) ts)).
  { clear - S. induction ts; simpl; auto. inv S. constructor; auto. }
  specialize (D F). apply descb_desc in D.
  assert (P : forall x, In x (sort_desc (map (fun t : target => (npth (fst t), t)) ts)) -> fst x = npth (fst (snd x))).
  { intros x I. apply (Permutation_in _ (sort_desc_perm _ _)) in I. apply in_map_iff in I. destruct I as [t [Et _]]. subst. auto. }
  set (s := sort_desc (map (fun t : node * list (list key * update) => (npth (fst t), t)) ts)) in *.
  assert (exists s1 x s2 y s3, s = s1 ++ x :: s2 ++ y :: s3 /\ snd x = t1 /\ snd y = t2).
  { clearbody s. clear - E. apply map_eq_app in E. destruct E as (s1 & r1 & E0 & M1 & M2).
    apply map_eq_cons in M2. destruct M2 as (x & r2 & E1 & Ex & M3).
    apply map_eq_app in M3. destruct M3 as (s2 & r3 & E2 & M4 & M5).
    apply map_eq_cons in M5. destruct M5 as (y & s3 & E3 & Ey & M6).
    subst. exists s1, x, s2, y, s3. auto. }
  destruct H as (s1 & x & s2 & y & s3 & Es & E1 & E2).
  specialize (D _ _ _ _ _ Es).
  assert (Ix : In x s) by (rewrite Es; apply in_or_app; right; simpl; auto).
  assert (Iy : In y s) by (rewrite Es; apply in_or_app; right; simpl; right; apply in_or_app; right; simpl; auto).
  pose proof (P x Ix) as Px. pose proof (P y Iy) as Py. unfold target in *. rewrite Px, Py in D.
  rewrite E1, E2, C in D. rewrite prefix_ltb in D. discriminate.
Qed.

(* --- the same, as a property of the list of receiver paths (closed under dropping elements) -------------------------------------- *)
Definition not_below (a b : list key) : Prop := forall k q, b <> a ++ k :: q.   (* b is not a proper extension of a *)
Fixpoint children_first (l : list (list key)) : Prop :=
  match l with
  | [] => True
  | a :: r => Forall (not_below a) r /\ children_first r
  end.
Lemma descb_children_first : forall A (s : list (list key * A)), descb s -> children_first (map fst s).
Proof.
  induction s; simpl; intros; auto. destruct H as [F D]. split; auto.
  rewrite Forall_forall in *. intros b I k q C. apply in_map_iff in I. destruct I as [y [E I]]. subst b.
  specialize (F _ I). rewrite C, prefix_ltb in F. discriminate.
Qed.
Lemma children_first_filter : forall A (f : A -> list key) (p : A -> bool) l,
  children_first (map f l) -> children_first (map f (filter p l)).
Proof.
  induction l; simpl; intros; auto. destruct H as [F C]. destruct (p a); simpl; auto. split; auto.
  rewrite Forall_forall in *. intros b I. apply F. apply in_map_iff in I. destruct I as [x [E I]]. apply filter_In in I.
  subst. apply in_map. tauto.
Qed.
Lemma children_first_prefix : forall a b, children_first (a ++ b) -> children_first a.
Proof.
  induction a; simpl; intros; auto. destruct H as [F C]. split; eauto.
  rewrite Forall_forall in *. intros. apply F. apply in_or_app. auto.
Qed.
Lemma order_paths : forall ts, map (fun t : target => npth (fst t)) (order ts) = map fst (sort_desc (map (fun t => (npth (fst t), t)) ts)).
Proof.
  intros. unfold order. rewrite map_map. apply map_ext_in. intros x I.
  apply (Permutation_in _ (sort_desc_perm _ _)) in I. apply in_map_iff in I. destruct I as [t [Et _]]. subst. auto.
Qed.
Lemma events_paths : forall ts, map ev_path (flat_map event_of ts) = map (fun t : target => npth (fst t)) (filter (fun t => observes (fst t)) ts).
Proof.
  induction ts as [|[m pl] r IH]; simpl; auto. unfold event_of at 1, observes at 1. simpl.
  destruct (obs_of m); simpl; rewrite IH; auto.
Qed.

Theorem deliver_children_first : forall st ups stop,
  Forall (fun n => simple_path (npth n)) (affected st ups) ->
  children_first (map ev_path (deliver st ups stop)).
Proof.
  intros. unfold deliver, notified_targets. rewrite events_paths. apply children_first_filter.
  destruct (SymCoreEventsStep.cut_after_incl stop (order (group st ups))) as [rest E].
  apply (children_first_prefix _ (map (fun t : target => npth (fst t)) rest)). rewrite <- map_app, <- E.
  rewrite order_paths. apply descb_children_first. apply sort_desc_sorted.
  rewrite Forall_forall in *. intros y I. apply in_map_iff in I. destruct I as [t [E' I]]. subst y. simpl.
  apply H. apply group_target_node in I. tauto.
Qed.

(* BindingClass.v — symbolized classes: Object.__init__ + ClassWrapper._call_init hand the user __init__
   the effective arguments (construction arguments merged with later rebinds). *)
From PG Require Import Common.Tactics Model.Binding Proofs.BindingMaps Proofs.BindingProofs Proofs.BindingSig Proofs.BindingDirect.
From Coq Require Import NArith.
Local Open Scope N_scope.

Definition ev (e : eff) : list val := match evar e with Some l => l | None => [] end.

(* what the symbolized class does: construct, rebind, and (when no required argument is missing)
   run the user __init__; a still partial object stands for the missing-argument TypeError *)
Definition cls_bind (s : sig) (ctor : call) (partial : bool) (lates : list (name * val)) : result bound :=
  match cls_ctor s ctor partial with
  | Err x => Err x
  | Ok st =>
      match cls_late_all s st lates with
      | Err x => Err x
      | Ok st' => match cls_init_call s st' with None => Err ETypeError | Some c => py_bind s c end
      end
  end.
(* what the original class does with the same effective arguments; a plain (non partial)
   construction must already be a complete call *)
Definition cls_spec (s : sig) (ctor : call) (partial : bool) (lates : list (name * val)) : result bound :=
  match supply s eff0 ctor false false with
  | Err x => Err x
  | Ok e1 =>
      match (if partial then Ok e1 else match py_bind s (effective_call s e1) with Ok _ => Ok e1 | Err x => Err x end) with
      | Err x => Err x
      | Ok _ => match supply_lates s e1 lates with
                | Err x => Err x
                | Ok e => py_bind s (effective_call s e)
                end
      end
  end.

Definition present (m : kmap val) (p : name * option val) : bool :=
  match snd p with Some _ => true | None => kmem (fst p) m end.
Lemma fill_complete : forall ps m, forallb (present m) ps = true -> exists l, fill ps m = Ok l.
Proof.
  induction ps as [|[n d] r IH]; intros m H; simpl in *; [eexists; reflexivity|].
  apply andb_true_iff in H. destruct H as [P H]. destruct (IH m H) as [l E]. rewrite E.
  unfold present in P; simpl in P. destruct d as [dv|].
  - destruct (kget n m); eexists; reflexivity.
  - unfold kmem in P. destruct (kget n m); [eexists; reflexivity|discriminate].
Qed.
Lemma fill_incomplete : forall ps m, forallb (present m) ps = false -> fill ps m = Err ETypeError.
Proof.
  induction ps as [|[n d] r IH]; intros m H; simpl in *; [discriminate|].
  apply andb_false_iff in H. destruct H as [P|H].
  - unfold present in P; simpl in P. destruct d as [dv|]; [discriminate|]. unfold kmem in P.
    destruct (kget n m); [discriminate|reflexivity].
  - rewrite (IH m H). destruct (match kget n m with Some v => Some v | None => d end); reflexivity.
Qed.

Record crel (s : sig) (st : cstate) (e : eff) : Prop := {
  cr_attrs : forall k, kget k (cattrs st) = match kget k (enamed e) with Some v => Some v | None => default_of s k end;
  cr_vattr : cvattr st = ev e;
  cr_sorted : ksorted (cattrs st) }.

Lemma default_of_param : forall s n d, wf_sig s -> In (n, d) (params s) -> default_of s n = d.
Proof.
  intros s n d W I. unfold default_of. rewrite (find_self (params s) n d); [reflexivity|apply W|assumption].
Qed.
Lemma default_of_nonparam : forall s k, is_param s k = false -> default_of s k = None.
Proof.
  intros s k P. unfold default_of. rewrite find_not_in; [reflexivity|].
  intros I. apply is_param_in in I. congruence.
Qed.
Lemma forallb_ext_in : forall {A} (f g : A -> bool) l, (forall x, In x l -> f x = g x) -> forallb f l = forallb g l.
Proof.
  induction l as [|a r IH]; intros H; simpl; [reflexivity|].
  rewrite (H a (or_introl eq_refl)), IH; [reflexivity|]. intros; apply H; right; assumption.
Qed.

Section WithRel.
Variables (s : sig) (st : cstate) (e : eff).
Hypothesis W : wf_sig s.
Hypothesis R : crel s st e.

Lemma crel_present : all_required_present s (cattrs st) = forallb (present (enamed e)) (params s).
Proof.
  unfold all_required_present. apply forallb_ext_in. intros [n d] I. unfold present; simpl.
  destruct d; [reflexivity|]. unfold kmem. rewrite (cr_attrs s st e R n), (default_of_param s n None W I).
  destruct (kget n (enamed e)); reflexivity.
Qed.
Lemma crel_fill : fill (params s) (cattrs st) = fill (params s) (enamed e).
Proof.
  apply fill_ext. intros n d I. rewrite (cr_attrs s st e R n), (default_of_param s n d W I).
  destruct (kget n (enamed e)); [reflexivity|]. destruct d; reflexivity.
Qed.
Lemma crel_extras : ksorted (enamed e) -> extras s (cattrs st) = extras s (enamed e).
Proof.
  intros S. apply kmap_ext; [apply ksorted_kfilter; apply R|apply ksorted_kfilter; assumption|].
  intros k. rewrite !extras_get. destruct (is_param s k) eqn:P; [reflexivity|].
  rewrite (cr_attrs s st e R k), (default_of_nonparam s k P). destruct (kget k (enamed e)); reflexivity.
Qed.
Lemma crel_direct : ksorted (enamed e) -> forall va, direct_bind s (cattrs st) va = direct_bind s (enamed e) va.
Proof. intros S va. unfold direct_bind. rewrite crel_fill, (crel_extras S). reflexivity. Qed.
Lemma crel_fit : keys_fit s (enamed e) -> forall va, va = [] \/ has_va s = true -> args_fit s (cattrs st) va.
Proof.
  intros F va V. constructor; [apply R| |assumption].
  intros k M. unfold kmem in M. rewrite (cr_attrs s st e R k) in M.
  destruct (kget k (enamed e)) eqn:G.
  - apply F. unfold kmem; rewrite G; reflexivity.
  - destruct (is_param s k) eqn:P; [left; reflexivity|]. rewrite (default_of_nonparam s k P) in M. discriminate.
Qed.

(* _call_init = the direct call with the effective arguments *)
Lemma cls_init_call_direct : eff_ok s e -> keys_fit s (enamed e) ->
  match cls_init_call s st with None => Err ETypeError | Some c => py_bind s c end = direct_bind s (enamed e) (ev e).
Proof.
  intros OK F. unfold cls_init_call. rewrite crel_present.
  destruct (forallb (present (enamed e)) (params s)) eqn:P; simpl.
  2:{ unfold direct_bind. rewrite (fill_incomplete _ _ P). reflexivity. }
  assert (cvattr st = [] \/ has_va s = true) as VA.
  { destruct (has_va s) eqn:HV; [right; reflexivity|left].
    rewrite (cr_vattr s st e R). unfold ev. rewrite (eo_noevar s e OK HV). reflexivity. }
  destruct (list_args (pos s) (cattrs st)) as [[la|] K] eqn:L.
  - rewrite (positional_form s (cattrs st) (cvattr st) la K W (crel_fit F _ VA) L).
    rewrite (cr_vattr s st e R). apply crel_direct. apply OK.
  - destruct (list_args_none _ _ _ (nodup_pos s W) L) as [n [I G]].
    rewrite <- (crel_direct (eo_sorted s e OK)). unfold direct_bind.
    rewrite (fill_missing (params s) (cattrs st) n); [reflexivity| |assumption].
    unfold params; apply in_or_app; left; assumption.
Qed.
End WithRel.

(* ---- construction and rebinds of a symbolized class against the specification ------------------------------- *)
Lemma supply_kw_err : forall s kws ovr drop given e x, supply_kw s kws ovr drop given e = Err x -> x = ETypeError.
Proof.
  intros s; induction kws as [|[k v] r IH]; intros ovr drop given e x H; simpl in H; [discriminate|].
  destruct (smem k given); [inversion H; reflexivity|].
  destruct (is_va s k).
  - destruct (evar e), ovr; try (inversion H; reflexivity);
      (destruct (vals_of_val v); [eapply IH; eauto|inversion H; reflexivity]).
  - destruct (kmem k (enamed e) && negb ovr); [inversion H; reflexivity|].
    destruct (is_param s k || has_kw s); [eapply IH; eauto|].
    destruct drop; [eapply IH; eauto|inversion H; reflexivity].
Qed.
Lemma supply_err : forall s e c ovr drop x, supply s e c ovr drop = Err x -> x = ETypeError.
Proof.
  intros s e c ovr drop x H. unfold supply in H.
  destruct (supply_pos (pos s) (cpos c) ovr (enamed e)) eqn:P; [|inversion H; subst; eapply supply_pos_err; eauto].
  match type of H with match ?ev with _ => _ end = _ => destruct ev as [v|y] eqn:EV end.
  - eapply supply_kw_err; eauto.
  - inversion H; subst.
    destruct (is_nil (skipn (length (pos s)) (cpos c))); [discriminate|].
    destruct (has_va s); [destruct (evar e), ovr; inversion EV; reflexivity|].
    destruct drop; inversion EV; reflexivity.
Qed.
Lemma supply_kw_accepted : forall s kws ovr given e e', supply_kw s kws ovr false given e = Ok e' ->
  forallb (fun kv => accepts_key s (fst kv)) kws = true.
Proof.
  intros s; induction kws as [|[k v] r IH]; intros ovr given e e' H; simpl in *; [reflexivity|].
  destruct (smem k given); [discriminate|]. unfold accepts_key, is_field.
  destruct (is_va s k).
  - rewrite orb_true_r. simpl.
    destruct (evar e), ovr; try discriminate; (destruct (vals_of_val v); [eapply IH; eauto|discriminate]).
  - rewrite orb_false_r. destruct (kmem k (enamed e) && negb ovr); [discriminate|].
    destruct (is_param s k || has_kw s); [simpl; eapply IH; eauto|discriminate].
Qed.

Lemma cls_kwargs_supply : forall s kws fa vb given ev0,
  (forall k, In k (map fst kws) -> is_va s k = false) ->
  forallb (fun kv => accepts_key s (fst kv)) kws = true ->
  (forall k, In k (map fst kws) -> smem k given = true -> kmem k fa = true) ->
  cls_kwargs s kws fa vb =
  match supply_kw s kws false false given {| enamed := fa; evar := ev0 |} with
  | Ok e' => Ok (enamed e', vb) | Err x => Err x end.
Proof.
  intros s; induction kws as [|[k v] r IH]; intros fa vb given ev0 NV AK G; simpl in *; [reflexivity|].
  apply andb_true_iff in AK. destruct AK as [A AK].
  rewrite (NV k (or_introl eq_refl)).
  unfold accepts_key, is_field in A. rewrite (NV k (or_introl eq_refl)), orb_false_r in A. rewrite A.
  rewrite andb_true_r.
  destruct (smem k given) eqn:Gk; [rewrite (G k (or_introl eq_refl) Gk); reflexivity|].
  destruct (kmem k fa) eqn:M; [reflexivity|].
  apply IH; auto. intros k' I Gk'. rewrite smem_sadd in Gk'. rewrite kmem_kset.
  destruct (N.eqb k' k); [reflexivity|]. simpl in *. apply G; auto.
Qed.

Lemma bind_positional_eff_ok : forall s vs evr, wf_sig s -> (has_va s = false -> evr = None) ->
  eff_ok s {| enamed := bind_positional (pos s) vs []; evar := evr |}.
Proof.
  intros s vs evr W HE. constructor; simpl.
  - apply ksorted_bind_positional; constructor.
  - intros k V. destruct (kmem k (bind_positional (pos s) vs [])) eqn:M; [|reflexivity].
    rewrite kmem_bind_positional in M. rewrite orb_false_r in M.
    apply positional_names_in in M. pose proof (pos_is_param s k M) as P. rewrite (va_not_param s k W V) in P. discriminate.
  - exact HE.
Qed.

Lemma cls_ctor_supply : forall s c partial, wf_sig s -> call_ok s c ->
  match cls_ctor s c partial, supply s eff0 c false false with
  | Ok st, Ok e1 => crel s st e1 /\ (partial = false -> forallb (present (enamed e1)) (params s) = true)
  | Err a, Ok e1 => a = ETypeError /\ partial = false /\ forallb (present (enamed e1)) (params s) = false
  | Err a, Err b => a = b
  | Ok _, Err _ => False
  end.
Proof.
  intros s c partial W [ND NV]. unfold cls_ctor.
  destruct (forallb (fun kv => accepts_key s (fst kv)) (ckw c)) eqn:AK; simpl.
  2:{ destruct (supply s eff0 c false false) as [e1|x] eqn:S; [|symmetry; eapply supply_err; eauto].
      exfalso. unfold supply in S.
      destruct (supply_pos (pos s) (cpos c) false (enamed eff0)); [|discriminate].
      match type of S with match ?ev with _ => _ end = _ => destruct ev; [|discriminate] end.
      apply supply_kw_accepted in S. congruence. }
  unfold supply, eff0; simpl.
  rewrite supply_pos_fresh; [|apply nodup_pos; assumption|intros; right; reflexivity].
  set (over := skipn (length (pos s)) (cpos c)).
  destruct (negb (is_nil (cpos c)) && no_fields s) eqn:NF.
  { (* the class takes no arguments at all *)
    apply andb_true_iff in NF. destruct NF as [NC NF]. unfold no_fields in NF.
    apply andb_true_iff in NF. destruct NF as [NF NK]. apply andb_true_iff in NF. destruct NF as [NP NVa].
    assert (pos s = []) as PE. { unfold params in NP. destruct (pos s); [reflexivity|discriminate]. }
    assert (over = cpos c) as -> by (unfold over; rewrite PE; reflexivity).
    destruct (cpos c); [discriminate|]. simpl. apply negb_true_iff in NVa. rewrite NVa. reflexivity. }
  assert (forall vb0 given ev0,
           (forall k, In k (map fst (ckw c)) -> smem k given = true -> kmem k (bind_positional (pos s) (cpos c) []) = true) ->
           (has_va s = false -> ev0 = None) ->
           (match vb0 with Some l => l | None => [] end = match ev0 with Some l => l | None => [] end) ->
           match
             match cls_kwargs s (ckw c) (bind_positional (pos s) (cpos c) []) vb0 with
             | Ok (fa, vb) =>
                 if negb partial && negb (all_required_present s fa) then Err ETypeError
                 else Ok {| cattrs := fill_defaults (params s) fa; cvattr := match vb with Some l => l | None => [] end |}
             | Err e => Err e
             end,
             supply_kw s (ckw c) false false given {| enamed := bind_positional (pos s) (cpos c) []; evar := ev0 |}
           with
           | Ok st, Ok e1 => crel s st e1 /\ (partial = false -> forallb (present (enamed e1)) (params s) = true)
           | Err a, Ok e1 => a = ETypeError /\ partial = false /\ forallb (present (enamed e1)) (params s) = false
           | Err a, Err b => a = b
           | Ok _, Err _ => False
           end) as MAIN.
  { intros vb0 given ev0 G HE VE.
    rewrite (cls_kwargs_supply s (ckw c) _ vb0 given ev0 NV AK G).
    destruct (supply_kw s (ckw c) false false given _) as [e1|x] eqn:SK; [|reflexivity].
    pose proof (supply_kw_evar _ _ _ _ _ _ _ NV SK) as EV. simpl in EV.
    assert (eff_ok s e1) as OK1 by (eapply supply_kw_ok; [|exact SK]; apply bind_positional_eff_ok; assumption).
    change (all_required_present s (enamed e1)) with (forallb (present (enamed e1)) (params s)).
    destruct (negb partial && negb (forallb (present (enamed e1)) (params s))) eqn:MC.
    - apply andb_true_iff in MC. destruct MC as [MP MQ]. apply negb_true_iff in MP, MQ. auto.
    - split.
      + constructor; simpl.
        * intros k. rewrite fill_defaults_get by apply W. reflexivity.
        * unfold ev. rewrite EV. exact VE.
        * apply ksorted_fill_defaults. apply OK1.
      + intros ->. simpl in MC. apply negb_false_iff in MC. exact MC. }
  destruct (is_nil over) eqn:O; simpl.
  - apply MAIN.
    + intros k I G. rewrite kmem_bind_positional, G. reflexivity.
    + reflexivity.
    + destruct (negb (is_nil (cpos c)) && has_va s); [|reflexivity]. destruct over; [reflexivity|discriminate].
  - destruct (has_va s) eqn:HV; simpl; [|reflexivity].
    assert (negb (is_nil (cpos c)) = true) as NC.
    { destruct (cpos c) eqn:CC; [|reflexivity]. unfold over in O. try rewrite CC in O. rewrite skipn_nil in O. discriminate. }
    rewrite NC. simpl. apply MAIN.
    + intros k I G. rewrite smem_sadd in G.
      rewrite N.eqb_sym, (is_va_false_neq s k HV (NV k I)) in G. simpl in G.
      rewrite kmem_bind_positional, G. reflexivity.
    + intros; discriminate.
    + reflexivity.
Qed.

Lemma cls_late_one_rel : forall s st e k v, crel s st e -> accepts_key s k = true ->
  match cls_late_one s st k v, supply s e {| cpos := []; ckw := [(k, v)] |} true false with
  | Ok st', Ok e' => crel s st' e'
  | Err a, Err b => a = b
  | _, _ => False
  end.
Proof.
  intros s st e k v R A. rewrite supply_single. unfold cls_late_one.
  destruct (is_va s k) eqn:V.
  - destruct (vals_of_val v) as [l|]; [|reflexivity].
    constructor; simpl; [apply R|reflexivity|apply R].
  - rewrite A. unfold accepts_key, is_field in A. rewrite V, orb_false_r in A. rewrite A.
    constructor; simpl.
    + intros k'. rewrite !kget_kset. destruct (N.eqb k' k); [reflexivity|apply R].
    + apply R.
    + apply ksorted_kset. apply R.
Qed.
Lemma cls_late_all_rel : forall s lates st e, wf_sig s -> crel s st e -> late_names_ok s lates ->
  match cls_late_all s st lates, supply_lates s e lates with
  | Ok st', Ok e' => crel s st' e'
  | Err a, Err b => a = b
  | _, _ => False
  end.
Proof.
  intros s; induction lates as [|[k v] r IH]; intros st e W R F; simpl; [assumption|].
  inversion F; subst. pose proof (cls_late_one_rel s st e k v R H1) as L.
  destruct (cls_late_one s st k v) as [st1|a]; destruct (supply s e {| cpos := []; ckw := [(k, v)] |} true false) as [e1|b];
    try contradiction; [|exact L].
  apply IH; assumption.
Qed.

Theorem symbolized_class_binds_effective_arguments : forall s ctor partial lates,
  wf_sig s -> call_ok s ctor -> late_names_ok s lates ->
  cls_bind s ctor partial lates = cls_spec s ctor partial lates.
Proof.
  intros s ctor partial lates W CO LN. unfold cls_bind, cls_spec.
  pose proof (cls_ctor_supply s ctor partial W CO) as C.
  destruct (cls_ctor s ctor partial) as [st|a]; destruct (supply s eff0 ctor false false) as [e1|b] eqn:S1;
    try contradiction; [| |congruence].
  - destruct C as [R P].
    assert (eff_ok s e1) as OK1 by (eapply supply_ok; [assumption|apply eff0_ok|exact S1]).
    assert (keys_fit s (enamed e1)) as F1 by (eapply supply_fit; [|exact S1]; intros k M; discriminate).
    assert ((if partial then Ok e1 else match py_bind s (effective_call s e1) with Ok _ => Ok e1 | Err x => Err x end) = Ok e1) as ->.
    { destruct partial; [reflexivity|]. rewrite (effective_call_meaning s e1 W OK1 F1). unfold direct_bind.
      destruct (fill_complete _ _ (P eq_refl)) as [l ->]. reflexivity. }
    pose proof (cls_late_all_rel s lates st e1 W R LN) as L.
    destruct (cls_late_all s st lates) as [st'|a]; destruct (supply_lates s e1 lates) as [e|b] eqn:S2; try contradiction; [|congruence].
    assert (eff_ok s e) as OK2 by (eapply supply_lates_ok; eauto).
    assert (keys_fit s (enamed e)) as F2 by (eapply supply_lates_fit; eauto).
    rewrite (cls_init_call_direct s st' e W L OK2 F2). symmetry. apply effective_call_meaning; assumption.
  - destruct C as [-> [-> P]]. simpl.
    assert (eff_ok s e1) as OK1 by (eapply supply_ok; [assumption|apply eff0_ok|exact S1]).
    assert (keys_fit s (enamed e1)) as F1 by (eapply supply_fit; [|exact S1]; intros k M; discriminate).
    rewrite (effective_call_meaning s e1 W OK1 F1). unfold direct_bind. rewrite (fill_incomplete _ _ P). reflexivity.
Qed.

(* SymCoreEventsInstance.v -- per-run obligations of C09 on what harness/translators/notify_src.py reads off the current source
   (Gen/NotifySrc.v): every raw write site of pg.List / pg.Dict invalidates the content caches and reports its update, and the two
   functions the model of delivery and of the resets is written after still have the shape it assumes. *)
From PG Require Import Common.Tactics Model.SymCoreDefs Model.SymCoreOps Model.SymCoreEvents Gen.NotifySrc.
From Coq Require Import NArith.

Definition str (s : list N) := s.
Definition cache_attr_names : list (list N) :=
  [ [95;115;121;109;95;112;117;114;101;115;121;109;98;111;108;105;99]%N;                                    (* _sym_puresymbolic *)
    [95;115;121;109;95;109;105;115;115;105;110;103;95;118;97;108;117;101;115]%N;                            (* _sym_missing_values *)
    [95;115;121;109;95;110;111;110;100;101;102;97;117;108;116;95;118;97;108;117;101;115]%N ].               (* _sym_nondefault_values *)

(* every method of pg.List / pg.Dict that writes to the built-in base resets the memoised facts (TW entries of the model) ... *)
Lemma generated_write_sites_invalidate : forallb (fun r => snd (fst r)) write_sites = true.
Proof. vm_compute. reflexivity. Qed.
(* ... and hands back or sends the FieldUpdate of what it wrote *)
Lemma generated_write_sites_report : forallb snd write_sites = true.
Proof. vm_compute. reflexivity. Qed.
(* Symbolic._invalidate_content_cache resets the three memo attributes of the node and of every ancestor: the reset of a TW entry *)
Lemma generated_invalidate_is_the_model_reset :
  invalidated_attrs = cache_attr_names /\ invalidate_walks_to_root = true /\
  forall st cid, reset_of (TW st cid) = map nid0 (chain_of st cid).
Proof. repeat split. Qed.
(* Symbolic._notify_field_updates: the walk, the relative paths, the order, the resets and the stop are those of deliver / reset_of *)
Lemma generated_notify_is_the_model_delivery :
  notify_walks_from_update_target = true /\ notify_relative_path_by_depth = true /\ notify_sorted_descending_by_path = true /\
  notify_resets_before_on_change = cache_attr_names /\ notify_stops_after_self_when_not_parents = true /\
  (forall st ts u, group_one st ts u =
     fold_left (fun ts n => add_target n (if subscribes n then Some (rel_path n u, u) else None) ts) (chain_of st (u_tid u)) ts) /\
  (forall n u, rel_path n u = skipn (length (npth n)) (u_path u)) /\
  (forall ts, order ts = map snd (sort_desc (map (fun t => (npth (fst t), t)) ts))) /\
  (forall st ups stop, notified_targets st ups stop = cut_after stop (order (group st ups))).
Proof. repeat split. Qed.

(* SymCoreEventsComplete.v -- the notification of a call names exactly the containers the call wrote: every write of the trace
   (TW) is the target of one of the FieldUpdates handed to _notify_field_updates (TN), and every FieldUpdate has its write.
   Together with the frame (SymCoreEventsFresh.step_frame: whatever changed is reset by a write or a notification of the trace) and
   the receivers theorem (step_who: the receivers are the observers among the update targets and their ancestors): a change that is
   notified at all is notified completely -- no written container is left out of the payload, no reported location was not written. *)
From PG Require Import Common.Tactics Model.SymCoreDefs Model.SymCoreOps Model.SymCoreSpec Model.SymCoreEvents
     Proofs.SymCoreBase Proofs.SymCoreWF Proofs.SymCoreClone Proofs.SymCoreWFOps Proofs.SymCoreIds
     Proofs.SymCoreEventsBase Proofs.SymCoreEventsDeliver Proofs.SymCoreEventsStep Proofs.SymCoreEventsWF Proofs.SymCoreEventsTheorems
     Model.SymCoreEventsSpec Proofs.SymCoreEventsQuery Proofs.SymCoreEventsFrame Proofs.SymCoreEventsFresh.
From Coq Require Import NArith Permutation.

Definition wr (t : trace) : list N := flat_map (fun e => match e with TW _ c => [c] | TN _ _ _ => [] end) t.
Definition seteq (a b : list N) : Prop := incl a b /\ incl b a.
Definition balanced (t : trace) : Prop := forall st ups stop, In (TN st ups stop) t -> seteq (wr t) (map u_tid ups).

Lemma wr_app : forall a b, wr (a ++ b) = wr a ++ wr b.
Proof. intros. unfold wr. apply flat_map_app. Qed.
Lemma seteq_refl : forall a, seteq a a. Proof. split; apply incl_refl. Qed.
Lemma seteq_of_eq : forall a b, a = b -> seteq a b. Proof. intros; subst; apply seteq_refl. Qed.
Lemma bal_silent : forall t, silent t -> balanced t.
Proof. intros t S st ups stop I. exfalso. eapply silent_no_tn; eauto. Qed.
Lemma bal_silent_tn : forall tw st ups stop, silent tw -> seteq (wr tw) (map u_tid ups) -> balanced (tw ++ [TN st ups stop]).
Proof.
  intros tw st ups stop S E s u sp I. apply in_app_or in I. destruct I as [I|[I|[]]]. exfalso; eapply silent_no_tn; eauto.
  inv I. rewrite wr_app. simpl. rewrite app_nil_r. auto.
Qed.
Lemma bal_ntf : forall tw sc st ups, silent tw -> seteq (wr tw) (map u_tid ups) -> balanced (tw ++ ntf sc st ups).
Proof.
  intros. unfold ntf. destruct ups as [|u0 r]. rewrite app_nil_r. apply bal_silent; auto.
  destruct (notify_on sc). apply bal_silent_tn; auto. rewrite app_nil_r. apply bal_silent; auto.
Qed.
(* one write of [tid], told as any non-empty list of updates of [tid] *)
Lemma seteq_all : forall tid (ups : list update), Forall (fun u => u_tid u = tid) ups -> ups <> [] -> seteq [tid] (map u_tid ups).
Proof.
  intros tid ups F NE. split; intros x I.
  - destruct I as [I|[]]. subst. destruct ups as [|u0 r]; [congruence|]. inv F. simpl. auto.
  - apply in_map_iff in I. destruct I as (u & E & I). rewrite Forall_forall in F. rewrite (F _ I) in E. simpl. auto.
Qed.
Lemma bal_one : forall s tid sc s' ups, Forall (fun u => u_tid u = tid) ups -> balanced (TW s tid :: ntf sc s' ups).
Proof.
  intros. change (TW s tid :: ntf sc s' ups) with ([TW s tid] ++ ntf sc s' ups).
  unfold ntf. destruct ups as [|u0 r]. simpl. apply bal_silent. auto with c09.
  destruct (notify_on sc). 2:{ simpl. apply bal_silent. auto with c09. }
  apply bal_silent_tn. auto with c09. apply seteq_all; auto. discriminate.
Qed.

(* --- one write through a primitive ------------------------------------------------------------------------------------------- *)
Lemma wtrace_wr : forall st st' cp ky rv p cid ck pa pt fl its, get_at st cp = Some (Node cid ck pa pt fl its) ->
  wr (fst (wtrace st st' cp ky rv p)) = map u_tid (snd (wtrace st st' cp ky rv p)).
Proof.
  intros. unfold wtrace. destruct p; simpl; auto.
  destruct (upd_of_tid st st' cp ky rv _ _ _ _ _ _ H) as (u & E & T). rewrite E. simpl.
  rewrite (cur_id_at _ _ _ _ _ _ _ _ H). congruence.
Qed.
Lemma write1_bal : forall pr sc st ps ky rv cid ck pa pt fl its, get_at st ps = Some (Node cid ck pa pt fl its) ->
  balanced (write1_tr pr sc st ps ky rv).
Proof.
  intros. unfold write1_tr. destruct (pr sc st ps ky rv) as [st' p]. destruct p; try solve [apply bal_silent; auto with c09].
  pose proof (wtrace_wr st st' ps ky rv PUpd _ _ _ _ _ _ H) as E. pose proof (wtrace_silent' st st' ps ky rv PUpd) as S.
  destruct (wtrace st st' ps ky rv PUpd) as [tw ups]. simpl in *. apply bal_ntf; auto. apply seteq_of_eq; auto.
Qed.

(* --- List.extend ----------------------------------------------------------------------------------------------------------------- *)
Lemma extend_tr_wr : forall q sc ps cid ck pa pt fl rvs st its,
  WFI st -> Forall rv_ok rvs -> get_at st ps = Some (Node cid ck pa pt fl its) ->
  wr (fst (fst (fst (extend_tr q sc st ps rvs)))) = map u_tid (snd (fst (fst (extend_tr q sc st ps rvs)))).
Proof.
  intros q sc ps cid ck pa pt fl. induction rvs as [|a r IH]; intros st its W OK G; simpl; auto. inv OK.
  destruct (lprim q sc st ps (KI (cur_len st ps)) a) as [st1 p] eqn:L.
  destruct (prim_facts q (lprim q) _ _ _ _ _ _ _ _ _ _ _ _ _ (or_introl eq_refl) W H1 G L) as (W1 & S1 & [its1 G1] & NU).
  pose proof (wtrace_wr st st1 ps (KI (cur_len st ps)) a p _ _ _ _ _ _ G) as E.
  specialize (IH st1 its1 W1 H2 G1).
  destruct (extend_tr q sc st1 ps r) as [[[t u] stf] ok]. destruct (wtrace st st1 ps (KI (cur_len st ps)) a p) as [tw us] eqn:WT.
  simpl in *. destruct p; simpl; auto.
  - unfold wtrace in WT. inv WT. simpl. auto.
  - rewrite wr_app, map_app. congruence.
Qed.
Lemma extend_core_bal : forall q sc st ps rvs cid ck pa pt fl its,
  WFI st -> Forall rv_ok rvs -> get_at st ps = Some (Node cid ck pa pt fl its) -> balanced (extend_core_tr q sc st ps rvs).
Proof.
  intros. unfold extend_core_tr.
  pose proof (extend_tr_wr q sc ps cid ck pa pt fl rvs st its H H0 H1) as E. pose proof (extend_tr_silent' q sc rvs st ps) as S.
  destruct (extend_tr q sc st ps rvs) as [[[t u] stf] ok]. simpl in *. destruct ok.
  apply bal_ntf; auto. apply seteq_of_eq; auto. apply bal_silent; auto.
Qed.

(* --- rebind ------------------------------------------------------------------------------------------------------------------------ *)
Lemma rebind_one_tr_wr : forall q sc st tp path rv,
  wr (fst (rebind_one_tr q sc st tp path rv)) = map u_tid (snd (rebind_one_tr q sc st tp path rv)).
Proof.
  intros. unfold rebind_one_tr.
  destruct path as [|k path']; auto.
  set (rl := removelast (k :: path')). set (lk := last (k :: path') (KI 0)).
  destruct (get_at st tp); auto.
  destruct (query_path n rl); auto.
  destruct (get_at st (fst tp, snd tp ++ l)) as [[lf|cid ck cpa cpt cfl cits]|] eqn:G; auto.
  destruct (treats_as_sealed sc cfl); auto.
  destruct (prim q sc st (fst tp, snd tp ++ l) lk rv) as [st' p].
  eapply wtrace_wr; eauto.
Qed.
Lemma rebind_tr_wr : forall q sc pvs st tp,
  wr (fst (fst (fst (rebind_tr q sc st tp pvs)))) = map u_tid (snd (fst (fst (rebind_tr q sc st tp pvs)))).
Proof.
  induction pvs as [|[p rv] r IH]; simpl; intros; auto.
  destruct (rebind_one q sc st tp p rv) as [[st' pr] c].
  pose proof (rebind_one_tr_wr q sc st tp p rv) as E. specialize (IH st' tp).
  destruct (rebind_tr q sc st' tp r) as [[[t u] stf] ok]. destruct (rebind_one_tr q sc st tp p rv) as [tw us]. simpl in *.
  destruct pr; simpl; auto; rewrite wr_app, map_app; congruence.
Qed.
Lemma rebind_core_bal : forall q sc st tp tk pvs nt stop, balanced (rebind_core_tr q sc st tp tk pvs nt stop).
Proof.
  intros. unfold rebind_core_tr.
  set (ordered := match tk with KList => sort_desc pvs | _ => pvs end).
  pose proof (rebind_tr_wr q sc ordered st tp) as E. pose proof (rebind_tr_silent' q sc ordered st tp) as S.
  destruct (rebind_tr q sc st tp ordered) as [[[t u] stf] ok]. simpl in *.
  destruct (ok && nt); [|apply bal_silent; auto].
  assert (Q : seteq (wr t) (map u_tid (match tk with KList => rev u | _ => u end))).
  { rewrite E. destruct tk; try apply seteq_refl. rewrite map_rev. split; intros x I; [apply -> in_rev|apply in_rev]; auto. }
  destruct (match tk with KList => rev u | _ => u end) as [|u0 l]. rewrite app_nil_r. apply bal_silent; auto.
  apply bal_silent_tn; auto.
Qed.

(* --- removals and re-orderings: one container ------------------------------------------------------------------------------------------- *)
Lemma removed_list_tid : forall cp cid its i, Forall (fun u => u_tid u = cid) (removed_ups_list cp cid i its).
Proof. induction its as [|[k o] r IH]; simpl; intros; constructor; auto. Qed.
Lemma removed_dict_tid : forall cp cid its, Forall (fun u => u_tid u = cid) (removed_ups_dict cp cid its).
Proof. intros. unfold removed_ups_dict. apply Forall_forall. intros u I. apply in_map_iff in I. destruct I as (kv & E & _). subst. auto. Qed.
Lemma reorder_ups_tid : forall cp cid olds news i, Forall (fun u => u_tid u = cid) (reorder_ups cp cid i olds news).
Proof.
  induction olds as [|[k o] r IH]; destruct news as [|[k' n] r']; simpl; intros; auto.
  apply Forall_app. split; auto. destruct (same_item o n); auto.
Qed.
Lemma ldel_bal : forall sc st ps idx, balanced (ldel_tr sc st ps idx).
Proof.
  intros. unfold ldel_tr. destruct (nth_error (cur_items st ps) idx) as [[k old]|]; [|apply bal_silent; auto with c09].
  apply bal_one. constructor; auto.
Qed.
Lemma clear_list_bal : forall sc st ps tid tpth its, balanced (clear_list_tr sc st ps tid tpth its).
Proof. intros. unfold clear_list_tr. apply bal_one. apply removed_list_tid. Qed.
Lemma reorder_bal : forall sc st ps tid tpth its its', balanced (reorder_tr sc st ps tid tpth its its').
Proof.
  intros. unfold reorder_tr. pose proof (reorder_ups_tid tpth tid its (renum tpth its') 0) as F.
  destruct (reorder_ups tpth tid 0 its (renum tpth its')) as [|u0 r]. apply bal_silent; auto with c09.
  apply bal_one. auto.
Qed.

(* --- every operation ------------------------------------------------------------------------------------------------------------------------ *)
Lemma exec_trace_bal : forall q sc st ps tid tk pa tpth tfl its o,
  WFI st -> get_at st ps = Some (Node tid tk pa tpth tfl its) -> kind_ok tk o = true -> op_ok o ->
  balanced (exec_trace q sc st ps tid tk tpth tfl its o).
Proof.
  intros q sc st ps tid tk pa tpth tfl its o W G K OK.
  assert (CF := container_facts _ _ _ _ _ _ _ _ (proj1 W) G). destruct CF as (Ept & KO & CH).
  assert (NIL : balanced []) by (apply bal_silent; auto with c09).
  unfold exec_trace.
  destruct o; simpl in OK; try exact NIL;
    try (destruct tk; try discriminate K).
  - (* LSet *) repeat (destr_if; try exact NIL); eapply write1_bal; eauto.
  - (* LDel *) repeat (destr_if; try exact NIL); apply ldel_bal.
  - (* LAppend *) repeat (destr_if; try exact NIL); eapply write1_bal; eauto.
  - (* LInsert *) repeat (destr_if; try exact NIL); eapply write1_bal; eauto.
  - (* LExtend *) repeat (destr_if; try exact NIL); eapply extend_core_bal; eauto.
  - (* LPop *) repeat (destr_if; try exact NIL); apply ldel_bal.
  - (* LRemove *) destruct (find_index _ its); [|exact NIL]. repeat (destr_if; try exact NIL); apply ldel_bal.
  - (* LClear *) destr_if; [exact NIL|]. apply clear_list_bal.
  - (* LReverse *) destr_if; [exact NIL|]. apply reorder_bal.
  - (* LSort *) destr_if; [exact NIL|]. apply reorder_bal.
  - (* LIAdd *) repeat (destr_if; try exact NIL); eapply extend_core_bal; eauto.
  - (* LIMul *) repeat (destr_if; try exact NIL).
    + apply clear_list_bal.
    + eapply extend_core_bal; eauto. apply repeat_list_forall. apply rv_of_item_ok.
  - (* LAdd *) destr_if; [exact NIL|]. destruct (new_list_from q st its) as [c st1] eqn:NL.
    destruct (new_list_from_facts _ _ _ _ _ NL) as (L1 & LV & RG & cid & cfl & cits & EC).
    destruct (new_list_from_wfs _ _ _ _ _ _ _ (proj1 W) CH NL) as (W1 & N1 & Wc).
    pose proof (new_list_from_rel _ _ _ _ _ NL) as R1.
    assert (WI1 : WFI (add_root st1 c)) by (eapply WFI_step; eauto using wfs_add_root).
    assert (G1 : get_at (add_root st1 c) (length (roots st1), []) = Some (Node cid KList None [] cfl cits)).
    { unfold get_at. simpl. rewrite get_root_add_root_new'. subst c. auto. }
    eapply extend_core_bal; eauto.
  - (* LMul *) destr_if; [exact NIL|]. destruct (new_list_from q st []) as [c st1] eqn:NL.
    apply bal_silent. apply extend_tr_silent'.
  - (* DSet *) repeat (destr_if; try exact NIL); eapply write1_bal; eauto.
  - (* DDel *) repeat (destr_if; try exact NIL); eapply write1_bal; eauto.
  - (* DPop *) destruct (assoc k its); [|exact NIL]. repeat (destr_if; try exact NIL); eapply write1_bal; eauto.
  - (* DPopItem *) destr_if; [exact NIL|]. destruct (rev its) as [|[k old] r] eqn:R; [exact NIL|]. apply bal_one. constructor; auto.
  - (* DClear *) destr_if; [exact NIL|]. apply bal_one. apply removed_dict_tid.
  - (* DSetDefault *) destruct (assoc k its); repeat (destr_if; try exact NIL); eapply write1_bal; eauto.
  - (* DUpdate *) apply rebind_core_bal.
  - (* DIOr *) apply rebind_core_bal.
  - (* OSet *) repeat (destr_if; try exact NIL); eapply write1_bal; eauto.
  - (* Rebind *) destruct pvs; [exact NIL|]. apply rebind_core_bal.
  - destruct pvs; [exact NIL|]. apply rebind_core_bal.
  - destruct pvs; [exact NIL|]. destr_if; [exact NIL|]. apply rebind_core_bal.
Qed.
Theorem step_trace_bal : forall q st o, WFI st -> balanced (step_trace q st o).
Proof.
  intros. unfold step_trace.
  destruct (get_at st (o_pos o)) as [[lf|tid tk pa tpth tfl its]|] eqn:G; try solve [apply bal_silent; auto with c09].
  destruct (kind_ok tk (o_op o)) eqn:K; simpl; [|apply bal_silent; auto with c09].
  destruct (resolve_op st (o_op o)) as [ro|] eqn:R; [|apply bal_silent; auto with c09].
  eapply exec_trace_bal; eauto.
  - eapply kind_ok_resolve; eauto.
  - eapply resolve_op_ok; eauto.
Qed.

Lemma in_wr : forall t c, In c (wr t) <-> exists st, In (TW st c) t.
Proof.
  intros. unfold wr. rewrite in_flat_map. split.
  - intros (e & I & X). destruct e as [s i|s u sp]; simpl in X. destruct X as [X|[]]. subst. eauto. destruct X.
  - intros (s & I). exists (TW s c). simpl. auto.
Qed.
(* COMPLETE AND EXACT: the notification of a call names exactly the containers the call wrote *)
Theorem step_reported : forall q st o st' ups stop, WFI st -> In (TN st' ups stop) (step_trace q st o) ->
  (forall st1 cid, In (TW st1 cid) (step_trace q st o) -> exists u, In u ups /\ u_tid u = cid) /\
  (forall u, In u ups -> exists st1, In (TW st1 (u_tid u)) (step_trace q st o)).
Proof.
  intros q st o st' ups stop W I. destruct (step_trace_bal q st o W _ _ _ I) as [A B]. split.
  - intros st1 cid J. assert (X : In cid (wr (step_trace q st o))) by (apply in_wr; eauto).
    apply A in X. apply in_map_iff in X. destruct X as (u & E & Iu). eauto.
  - intros u Iu. apply in_wr. apply B. apply in_map. auto.
Qed.
(* the same for rebind(..., skip_notification, notify_parents) *)
Theorem stepx_reported : forall q st sc ps pvs skip np st' ups stop, In (TN st' ups stop) (snd (stepx q st sc ps pvs skip np)) ->
  (forall st1 cid, In (TW st1 cid) (snd (stepx q st sc ps pvs skip np)) -> exists u, In u ups /\ u_tid u = cid) /\
  (forall u, In u ups -> exists st1, In (TW st1 (u_tid u)) (snd (stepx q st sc ps pvs skip np))).
Proof.
  intros q st sc ps pvs skip np st' ups stop I.
  assert (BAL : balanced (snd (stepx q st sc ps pvs skip np))).
  { assert (NIL : balanced []) by (apply bal_silent; auto with c09). unfold stepx.
    destruct (get_at st ps) as [[lf|tid tk pa tpth tfl its]|]; simpl; try exact NIL.
    destruct (resolve_kvs st pvs) as [[|pv r]|]; simpl; try exact NIL.
    destruct (match tk with KObj _ => treats_as_sealed sc tfl | _ => false end); simpl; try exact NIL.
    destruct (rebindx_core q sc st ps tk (pv :: r) (match skip with Some b => negb b | None => notify_on sc end) np). simpl.
    apply rebind_core_bal. }
  destruct (BAL _ _ _ I) as [A B]. split.
  - intros st1 cid J. assert (X : In cid (wr (snd (stepx q st sc ps pvs skip np)))) by (apply in_wr; eauto).
    apply A in X. apply in_map_iff in X. destruct X as (u & E & Iu). eauto.
  - intros u Iu. apply in_wr. apply B. apply in_map. auto.
Qed.

(* --- a call that wrote and completed has notified ----------------------------------------------------------------------------------------- *)
Definition has_tn (t : trace) : Prop := exists st ups stop, In (TN st ups stop) t.
Lemma wr_ntf : forall sc st ups, wr (ntf sc st ups) = [].
Proof. intros. unfold ntf. destruct ups; auto. destruct (notify_on sc); auto. Qed.
Lemma ntf_told : forall tw sc st ups, notify_on sc = true -> ups <> [] -> has_tn (tw ++ ntf sc st ups).
Proof.
  intros. unfold ntf. destruct ups as [|u0 r]; [congruence|]. rewrite H. exists st, (u0 :: r), None. apply in_or_app. right. simpl. auto.
Qed.
Lemma map_nonnil : forall A B (f : A -> B) l, map f l <> [] -> l <> [].
Proof. intros. destruct l; simpl in *; congruence. Qed.
Lemma write1_told : forall pr sc st ps ky rv cid ck pa pt fl its, get_at st ps = Some (Node cid ck pa pt fl its) ->
  notify_on sc = true -> wr (write1_tr pr sc st ps ky rv) <> [] -> has_tn (write1_tr pr sc st ps ky rv).
Proof.
  intros pr sc st ps ky rv cid ck pa pt fl its G N NE. unfold write1_tr in *. destruct (pr sc st ps ky rv) as [st' p].
  destruct p; try (simpl in NE; congruence).
  pose proof (wtrace_wr st st' ps ky rv PUpd _ _ _ _ _ _ G) as E.
  destruct (wtrace st st' ps ky rv PUpd) as [tw ups]. simpl in *.
  rewrite wr_app, wr_ntf, app_nil_r, E in NE. apply ntf_told; auto. eapply map_nonnil; eauto.
Qed.
Lemma one_told : forall s tid sc s' ups, notify_on sc = true -> ups <> [] -> has_tn (TW s tid :: ntf sc s' ups).
Proof. intros. apply (ntf_told [TW s tid]); auto. Qed.
Lemma extend_core_told : forall q sc st ps rvs cid ck pa pt fl its,
  WFI st -> Forall rv_ok rvs -> get_at st ps = Some (Node cid ck pa pt fl its) -> notify_on sc = true ->
  wr (extend_core_tr q sc st ps rvs) <> [] ->
  has_tn (extend_core_tr q sc st ps rvs) \/ exists e, snd (extend_core q sc st ps rvs) = Err e.
Proof.
  intros q sc st ps rvs cid ck pa pt fl its W OK G N NE.
  destruct (extend_frame q sc ps cid ck pa pt fl rvs st false its W OK G) as (t & u & stf & ok & e & E1 & E2 & _).
  pose proof (extend_tr_wr q sc ps cid ck pa pt fl rvs st its W OK G) as E. rewrite E1 in E. simpl in E.
  unfold extend_core_tr, extend_core in *. rewrite E1 in *. rewrite E2. destruct ok.
  - left. rewrite wr_app, wr_ntf, app_nil_r, E in NE. apply ntf_told; auto. eapply map_nonnil; eauto.
  - right. simpl. eauto.
Qed.
Lemma rebind_core_told : forall q sc st tp tk pvs stop,
  WFI st -> Forall (fun kv => rv_ok (snd kv)) pvs ->
  wr (rebind_core_tr q sc st tp tk pvs true stop) <> [] ->
  has_tn (rebind_core_tr q sc st tp tk pvs true stop) \/ exists e, forall nt, snd (rebind_core q sc st tp tk pvs nt) = Err e.
Proof.
  intros q sc st tp tk pvs stop W OK NE. unfold rebind_core_tr, rebind_core in *.
  set (ordered := match tk with KList => sort_desc pvs | _ => pvs end) in *.
  assert (O : Forall (fun kv => rv_ok (snd kv)) ordered) by (unfold ordered; destruct tk; auto using sort_desc_forall').
  destruct (rebind_frame q sc tp ordered st [] W O) as (t & u & stf & ok & e & upd' & E1 & E2 & _).
  pose proof (rebind_tr_wr q sc ordered st tp) as E. rewrite E1 in E. simpl in E.
  rewrite E1 in *. rewrite E2. destruct ok; simpl in *.
  - left. assert (U : u <> []).
    { destruct (match tk with KList => rev u | _ => u end); rewrite wr_app in NE; simpl in NE; rewrite app_nil_r, E in NE;
        eapply map_nonnil; eauto. }
    destruct (match tk with KList => rev u | _ => u end) as [|u0 l] eqn:EU.
    + exfalso. destruct tk; try congruence. apply U. rewrite <- (rev_involutive u), EU. auto.
    + exists stf, (u0 :: l), stop. apply in_or_app. right. simpl. auto.
  - right. exists e. auto.
Qed.

Lemma ldel_told : forall sc st ps idx, notify_on sc = true -> wr (ldel_tr sc st ps idx) <> [] -> has_tn (ldel_tr sc st ps idx).
Proof.
  intros. unfold ldel_tr in *. destruct (nth_error (cur_items st ps) idx) as [[k old]|]. apply one_told; auto. discriminate.
  simpl in H0. congruence.
Qed.
(* the calls that write without telling anybody: Dict.update / |= (skip_notification), l * n (the new list has no observers yet),
   and clearing what is empty already *)
Definition tells (o : op rvalue) (its : list (key * node)) : bool :=
  match o with
  | DUpdate _ | DIOr _ | LMul _ => false
  | LClear | DClear => negb (is_nil its)
  | LIMul m => (0 <? m)%Z || negb (is_nil its)
  | _ => true
  end.
Lemma removed_list_nonnil : forall cp cid i its, its <> [] -> removed_ups_list cp cid i its <> [].
Proof. intros. destruct its as [|[k c] r]. congruence. simpl. discriminate. Qed.
Lemma not_nil : forall A (l : list A), negb (is_nil l) = true -> l <> [].
Proof. intros. destruct l; simpl in *; congruence. Qed.
Lemma exec_told : forall q sc st ps tid tk pa tpth tfl its o,
  WFI st -> get_at st ps = Some (Node tid tk pa tpth tfl its) -> kind_ok tk o = true -> op_ok o ->
  notify_on sc = true -> tells o its = true ->
  wr (exec_trace q sc st ps tid tk tpth tfl its o) <> [] ->
  has_tn (exec_trace q sc st ps tid tk tpth tfl its o) \/ exists e, snd (exec q sc st ps tid tk tpth tfl its o) = Err e.
Proof.
  intros q sc st ps tid tk pa tpth tfl its o W G K OK N T.
  assert (CF := container_facts _ _ _ _ _ _ _ _ (proj1 W) G). destruct CF as (Ept & KO & CH).
  assert (NIL : forall P : Prop, wr [] <> [] -> P) by (intros P X; exfalso; apply X; reflexivity).
  unfold exec_trace, exec.
  destruct o; simpl in OK, T; try discriminate T; try exact (NIL _);
    try (destruct tk; try discriminate K).
  - (* LSet *) repeat (destr_if; try exact (NIL _)). intros NE; left; eapply write1_told; eauto.
  - (* LDel *) repeat (destr_if; try exact (NIL _)); intros NE; left; apply ldel_told; auto.
  - (* LAppend *) repeat (destr_if; try exact (NIL _)). intros NE; left; eapply write1_told; eauto.
  - (* LInsert *) repeat (destr_if; try exact (NIL _)). intros NE; left; eapply write1_told; eauto.
  - (* LExtend *) destruct (treats_as_sealed sc tfl); [exact (NIL _)|]. intros NE. eapply extend_core_told; eauto.
  - (* LPop *) repeat (destr_if; try exact (NIL _)); intros NE; left; apply ldel_told; auto.
  - (* LRemove *) destruct (find_index _ its); [|exact (NIL _)]. repeat (destr_if; try exact (NIL _)); intros NE; left; apply ldel_told; auto.
  - (* LClear *) destruct (treats_as_sealed sc tfl); [exact (NIL _)|]. intros _. left. apply one_told; auto.
    apply removed_list_nonnil. apply not_nil; auto.
  - (* LReverse *) destruct (treats_as_sealed sc tfl); [exact (NIL _)|]. unfold reorder_tr.
    destruct (reorder_ups tpth tid 0 its (renum tpth (rev its))); [exact (NIL _)|]. intros _. left. apply one_told; auto. discriminate.
  - (* LSort *) destruct (treats_as_sealed sc tfl); [exact (NIL _)|]. unfold reorder_tr.
    destruct (reorder_ups tpth tid 0 its _); [exact (NIL _)|]. intros _. left. apply one_told; auto. discriminate.
  - (* LIAdd *) destruct (treats_as_sealed sc tfl); [exact (NIL _)|]. intros NE. eapply extend_core_told; eauto.
  - (* LIMul *) destruct (treats_as_sealed sc tfl); [exact (NIL _)|]. destruct (n <=? 0)%Z eqn:M.
    + intros _. left. apply one_told; auto. apply removed_list_nonnil. apply not_nil.
      apply Z.leb_le in M. assert (X : (0 <? n)%Z = false) by (apply Z.ltb_ge; auto). rewrite X in T. auto.
    + intros NE. eapply extend_core_told; eauto. apply repeat_list_forall. apply rv_of_item_ok.
  - (* LAdd *) destruct (treats_as_sealed sc default_flags); [exact (NIL _)|]. destruct (new_list_from q st its) as [c st1] eqn:NL.
    destruct (new_list_from_facts _ _ _ _ _ NL) as (L1 & LV & RG & cid & cfl & cits & EC).
    destruct (new_list_from_wfs _ _ _ _ _ _ _ (proj1 W) CH NL) as (W1 & N1 & Wc).
    pose proof (new_list_from_rel _ _ _ _ _ NL) as R1.
    assert (WI1 : WFI (add_root st1 c)) by (eapply WFI_step; eauto using wfs_add_root).
    assert (G1 : get_at (add_root st1 c) (length (roots st1), []) = Some (Node cid KList None [] cfl cits)).
    { unfold get_at. simpl. rewrite get_root_add_root_new'. subst c. auto. }
    intros NE. destruct (extend_core_told q sc _ _ vs _ _ _ _ _ _ WI1 OK G1 N NE) as [H|[e H]]; [left; auto|right].
    exists e. destruct (extend_core q sc (add_root st1 c) (length (roots st1), []) vs) as [st' [r|e']]; simpl in *; congruence.
  - (* DSet *) repeat (destr_if; try exact (NIL _)). intros NE; left; eapply write1_told; eauto.
  - (* DDel *) repeat (destr_if; try exact (NIL _)). intros NE; left; eapply write1_told; eauto.
  - (* DPop *) destruct (assoc k its); [|exact (NIL _)]. destruct (treats_as_sealed sc tfl); [exact (NIL _)|].
    intros NE; left; eapply write1_told; eauto.
  - (* DPopItem *) destruct (treats_as_sealed sc tfl); [exact (NIL _)|]. destruct (rev its) as [|[k old] r] eqn:R; [exact (NIL _)|].
    intros _. left. apply one_told; auto. discriminate.
  - (* DClear *) destruct (treats_as_sealed sc tfl); [exact (NIL _)|]. intros _. left. apply one_told; auto.
    apply not_nil in T. destruct its; [congruence|]. simpl. discriminate.
  - (* DSetDefault *) destruct (assoc k its) as [old|]; [destruct (is_missing old); [|exact (NIL _)]|];
      (destruct (treats_as_sealed sc tfl); [exact (NIL _)|]); (destruct (negb (writable_via_accessors sc tfl)); [exact (NIL _)|]);
      intros NE; left; eapply write1_told; eauto.
  - (* OSet *) repeat (destr_if; try exact (NIL _)). intros NE; left; eapply write1_told; eauto.
  - (* Rebind *) destruct pvs; [exact (NIL _)|]. rewrite N. intros NE.
    destruct (rebind_core_told q sc st ps KDict (p :: pvs) None W OK NE) as [H|[e H]]; [left; auto|right; eauto].
  - destruct pvs; [exact (NIL _)|]. rewrite N. intros NE.
    destruct (rebind_core_told q sc st ps KList (p :: pvs) None W OK NE) as [H|[e H]]; [left; auto|right; eauto].
  - destruct pvs; [exact (NIL _)|]. destruct (treats_as_sealed sc tfl); [exact (NIL _)|]. rewrite N. intros NE.
    destruct (rebind_core_told q sc st ps (KObj cls) (p :: pvs) None W OK NE) as [H|[e H]]; [left; auto|right; eauto].
Qed.
Definition step_tells (st : state) (o : sop) : Prop :=
  match get_at st (o_pos o) with
  | Some (Node _ _ _ _ _ its) => match resolve_op st (o_op o) with Some ro => tells ro its = true | None => True end
  | _ => True
  end.
(* A WRITE IS TOLD: with notification enabled, a call that wrote a container and did not raise has called _notify_field_updates
   (which, by step_reported, names every container it wrote).  What is not told: the writes of a call that raised in the middle. *)
Theorem step_told : forall q st o st1 cid, WFI st -> notify_on (o_scope o) = true -> step_tells st o ->
  In (TW st1 cid) (step_trace q st o) ->
  (exists st' ups stop, In (TN st' ups stop) (step_trace q st o)) \/ exists e, snd (step q st o) = Err e.
Proof.
  intros q st o st1 cid W N T I.
  assert (NE : wr (step_trace q st o) <> []). { intros E. assert (X : In cid (wr (step_trace q st o))) by (apply in_wr; eauto). rewrite E in X. destruct X. }
  unfold step_trace, step, step_tells in *.
  destruct (get_at st (o_pos o)) as [[lf|tid tk pa tpth tfl its]|] eqn:G; try (exfalso; apply NE; reflexivity).
  destruct (kind_ok tk (o_op o)) eqn:K; simpl in *; [|exfalso; apply NE; reflexivity].
  destruct (resolve_op st (o_op o)) as [ro|] eqn:R; [|exfalso; apply NE; reflexivity].
  destruct (exec_told q (o_scope o) st (o_pos o) tid tk pa tpth tfl its ro W G) as [H|[e H]]; auto.
  - eapply kind_ok_resolve; eauto.
  - eapply resolve_op_ok; eauto.
  - right. exists e. destruct (exec q (o_scope o) st (o_pos o) tid tk tpth tfl its ro) as [st' out]. simpl in *. auto.
Qed.
(* rebind(..., skip_notification=False / None with notification on, any notify_parents) *)
Theorem stepx_told : forall q st sc ps pvs skip np st1 cid, WFI st ->
  (match skip with Some b => negb b | None => notify_on sc end) = true ->
  In (TW st1 cid) (snd (stepx q st sc ps pvs skip np)) ->
  (exists st' ups stop, In (TN st' ups stop) (snd (stepx q st sc ps pvs skip np))) \/ exists e, snd (fst (stepx q st sc ps pvs skip np)) = Err e.
Proof.
  intros q st sc ps pvs skip np st1 cid W N I.
  assert (NE : wr (snd (stepx q st sc ps pvs skip np)) <> []).
  { intros E. assert (X : In cid (wr (snd (stepx q st sc ps pvs skip np)))) by (apply in_wr; eauto). rewrite E in X. destruct X. }
  unfold stepx in *.
  destruct (get_at st ps) as [[lf|tid tk pa tpth tfl its]|]; simpl in *; try (exfalso; apply NE; reflexivity).
  destruct (resolve_kvs st pvs) as [[|pv r]|] eqn:RK; simpl in *; try (exfalso; apply NE; reflexivity).
  destruct (match tk with KObj _ => treats_as_sealed sc tfl | _ => false end); simpl in *; try (exfalso; apply NE; reflexivity).
  assert (OK : Forall (fun kv => rv_ok (snd kv)) (pv :: r)) by (eapply resolve_kvs_ok; eauto).
  rewrite N in *.
  destruct (rebindx_core q sc st ps tk (pv :: r) true np) as [st' out] eqn:RX. simpl in *.
  destruct (rebind_core_told q sc st ps tk (pv :: r) (if np then None else Some tid) W OK NE) as [H|[e H]]; [left; auto|right].
  exists e. unfold rebindx_core in RX. destruct np.
  - specialize (H true). rewrite RX in H. auto.
  - specialize (H true). unfold rebind_core in H.
    destruct (rebind_loop q sc st ps (match tk with KList => sort_desc (pv :: r) | _ => pv :: r end) []) as [[s u] [e'|]]; simpl in *; inv RX; auto.
Qed.

(* TypingUnion.v — Union specs with a safe dispatch: apply is idempotent when the candidates of
   every Union are unfrozen, non-Union and typed ([union_plain]). *)
From PG Require Import Common.Tactics Model.Typing Proofs.TypingBasics Proofs.TypingApply Proofs.TypingDict
                       Proofs.TypingApplyDict Proofs.TypingCompat.
Local Open Scope Z_scope.
Local Arguments Z.mul : simpl never.

(* ------------------------------------------------------------------------------------------ *)
(** * Types are kept by the class-specific part *)

Lemma body_type_eq : forall p s v1 v', is_union' s = false -> apply_body p s v1 = Ok v' ->
  type_of v' = type_of v1.
Proof.
  intros p s v1 v' U B. destruct s; try discriminate; cbn [apply_body] in B.
  - inv B; auto.
  - apply validate_num_same in B. subst; auto.
  - apply validate_num_same in B. subst; auto.
  - inv B; auto.
  - destruct (py_in v1 vals); inv B; auto.
  - destruct v1; try discriminate. destruct (mapM (apply p s) l) as [l'|]; simpl in B; try discriminate.
    destruct (size_ok mn mx (len l')); inv B. reflexivity.
  - destruct v1; try discriminate. destruct (fixed_length mn mx).
    + destruct (negb (len l =? len es)); try discriminate.
      destruct (zipM (apply p) es l); simpl in B; inv B. reflexivity.
    + destruct (negb (size_ok mn mx (len l))); try discriminate. destruct es.
      * destruct l; inv B. reflexivity.
      * destruct (mapM (apply p s) l); simpl in B; inv B. reflexivity.
  - destruct schema.
    + destruct v1; try discriminate. destruct (unknown_keys l kvs); try discriminate.
      destruct (fields_apply (apply p) l kvs l); simpl in B; inv B. reflexivity.
    + inv B; auto.
  - inv B; auto.
  - inv B; auto.
Qed.

(* idempotence of the pipeline; the class-specific part only has to behave on values that pass
   the type check as they are *)
Lemma pipeline_idem' : forall p s,
  (forall v1 v', coerce (vtype s) v1 = Ok v1 -> apply_body p s v1 = Ok v' -> type_of v1 <> None ->
                 type_of v' = type_of v1 /\ apply_body p s v' = Ok v') ->
  forall v v', pipeline p s v = Ok v' -> pipeline p s v' = Ok v'.
Proof.
  intros p s HB v v' H.
  destruct (frozen (mods_of s)) eqn:F.
  - unfold pipeline in *. rewrite F in *.
    destruct (is_missing v || py_eq (dflt (mods_of s)) v); inv H.
    rewrite py_eq_refl, orb_true_r. reflexivity.
  - destruct (type_of v) eqn:T.
    + rewrite pipeline_typed in H by congruence.
      destruct (coerce (vtype s) v) as [v1|] eqn:C; simpl in H; [|discriminate].
      assert (T1 : type_of v1 <> None) by (eapply coerce_typed; eauto; congruence).
      destruct (HB _ _ (coerce_idem _ _ _ C) H T1) as [T' B'].
      rewrite pipeline_typed by congruence.
      rewrite (coerce_same_type _ v1 v') by (eauto using coerce_idem). simpl. exact B'.
    + unfold pipeline in *. rewrite F in *. destruct v; simpl in T; try discriminate.
      * destruct (noneable (mods_of s)); inv H. reflexivity.
      * destruct p; inv H. reflexivity.
Qed.

(* ------------------------------------------------------------------------------------------ *)
(** * Dispatch of a Union whose candidates all have a value type *)

Definition inst_of (v : pv) (c : spec) : bool :=
  match vtype c with Some ts => isinstance v ts | None => false end.

Lemma strong_find : forall f k v cs,
  union_strong f k v cs = match find (inst_of v) cs with Some c => f c v | None => k tt end.
Proof.
  induction cs as [|c r IH]; simpl; auto. unfold inst_of at 1.
  destruct (vtype c) as [ts|]; auto. destruct (isinstance v ts); auto.
Qed.

Fixpoint union_types (cs : list spec) : option (list ty) :=
  match cs with
  | [] => Some []
  | c :: r => match vtype c, union_types r with Some a, Some b => Some (a ++ b) | _, _ => None end
  end.

Lemma vtype_union : forall cs m, vtype (SUnion cs m) = union_types cs.
Proof. intros. simpl. induction cs; simpl; auto; rewrite IHcs; reflexivity. Qed.

Lemma isinstance_app : forall v a b, isinstance v (a ++ b) = isinstance v a || isinstance v b.
Proof. intros. unfold isinstance. destruct (type_of v); auto. apply existsb_app. Qed.

Lemma find_inst_some : forall v cs ts, union_types cs = Some ts -> isinstance v ts = true ->
  exists c, find (inst_of v) cs = Some c.
Proof.
  induction cs as [|c r IH]; simpl; intros ts U I.
  - inv U. unfold isinstance in I. destruct (type_of v); discriminate.
  - destruct (vtype c) as [a|] eqn:VC; [|discriminate].
    destruct (union_types r) as [b|] eqn:UR; inv U.
    rewrite isinstance_app in I. unfold inst_of at 1. rewrite VC.
    destruct (isinstance v a); eauto.
Qed.

Lemma isinstance_type : forall v w ts, type_of w = type_of v -> isinstance w ts = isinstance v ts.
Proof. unfold isinstance. intros. rewrite H. reflexivity. Qed.

Lemma find_inst_type : forall v w cs, type_of w = type_of v -> find (inst_of w) cs = find (inst_of v) cs.
Proof.
  induction cs as [|c r IH]; simpl; intros T; auto. unfold inst_of at 1 3.
  destruct (vtype c); auto. rewrite (isinstance_type v w l T). destruct (isinstance v l); auto.
Qed.

Lemma find_some_in : forall {A} (f : A -> bool) l x, find f l = Some x -> In x l /\ f x = true.
Proof. intros. apply find_some. exact H. Qed.

(* a plain candidate applied to an instance of its value type keeps the type *)
Lemma cand_keeps_type : forall p c v v', cand_plain c = true -> inst_of v c = true ->
  apply p c v = Ok v' -> type_of v' = type_of v.
Proof.
  intros p c v v' CP I H. unfold cand_plain in CP. apply andb_true_iff in CP as [CP VT].
  apply andb_true_iff in CP as [F U]. apply negb_true_iff in F. apply negb_true_iff in U.
  unfold inst_of in I. destruct (vtype c) as [ts|] eqn:VC; [|discriminate].
  rewrite apply_eq in H.
  assert (T : type_of v <> None) by (unfold isinstance in I; destruct (type_of v); congruence).
  rewrite pipeline_typed in H by auto. rewrite VC in H. simpl in H. rewrite I in H. simpl in H.
  eapply body_type_eq; eauto; destruct c; auto; discriminate.
Qed.

Lemma idem_union : forall p cs m, forallb cand_plain cs = true -> Forall (idem p) cs -> idem p (SUnion cs m).
Proof.
  intros p cs m CP IH v v'. rewrite !apply_eq. apply pipeline_idem'.
  intros v1 v1' CO B T. cbn [apply_body] in *.
  rewrite vtype_union in CO.
  assert (TS : exists ts, union_types cs = Some ts).
  { clear - CP. induction cs as [|c r IHr]; simpl; eauto. simpl in CP. apply andb_true_iff in CP as [A B].
    destruct (IHr B) as [ts E]. rewrite E. unfold cand_plain in A. apply andb_true_iff in A as [_ A].
    destruct (vtype c); eauto; discriminate. }
  destruct TS as [ts TS]. rewrite TS in CO. apply coerce_fixed_instance in CO.
  destruct (find_inst_some _ _ _ TS CO) as [c0 F0].
  rewrite strong_find, F0 in B.
  destruct (find_some_in _ _ _ F0) as [I0 X0].
  rewrite forallb_forall in CP. rewrite Forall_forall in IH.
  pose proof (cand_keeps_type _ _ _ _ (CP _ I0) X0 B) as TT. split; auto.
  rewrite strong_find, (find_inst_type v1 v1' cs TT), F0. apply (IH _ I0 v1 v1'). exact B.
Qed.

(* ------------------------------------------------------------------------------------------ *)
(** * MISSING_VALUE as a result *)

Definition missing_ok (p : bool) (s : spec) : Prop :=
  forall v, apply p s v = Ok PMissing ->
  (frozen (mods_of s) = true /\ dflt (mods_of s) = PMissing) \/
  (frozen (mods_of s) = false /\ v = PMissing).

Lemma missing_ok_nonunion : forall p s, is_union' s = false -> missing_ok p s.
Proof. intros p s U v H. eapply apply_missing_out; eauto. Qed.

Lemma missing_ok_union : forall p cs m, forallb cand_plain cs = true -> missing_ok p (SUnion cs m).
Proof.
  intros p cs m CP v H. rewrite apply_eq in H.
  destruct (frozen (mods_of (SUnion cs m))) eqn:F.
  - left. unfold pipeline in H. rewrite F in H.
    destruct (is_missing v || py_eq (dflt (mods_of (SUnion cs m))) v); inv H. auto.
  - right. split; auto. destruct (type_of v) eqn:T.
    + exfalso. rewrite (pipeline_typed p (SUnion cs m) v F) in H by congruence.
      destruct (coerce (vtype (SUnion cs m)) v) as [v1|] eqn:C; cbn [bind] in H; [|discriminate].
      pose proof (coerce_idem _ _ _ C) as C1. rewrite vtype_union in C1.
      assert (T1 : type_of v1 <> None) by (apply (coerce_typed _ _ _ C); congruence).
      destruct (union_types cs) as [ts|] eqn:TS.
      * apply coerce_fixed_instance in C1. destruct (find_inst_some _ _ _ TS C1) as [c0 F0].
        cbn [apply_body] in H. rewrite strong_find, F0 in H.
        destruct (find_some_in _ _ _ F0) as [I0 X0]. rewrite forallb_forall in CP.
        pose proof (cand_keeps_type _ _ _ _ (CP _ I0) X0 H) as TT. simpl in TT. congruence.
      * clear - CP TS. induction cs as [|c r IHr]; simpl in *; [discriminate|].
        apply andb_true_iff in CP as [A B]. unfold cand_plain in A. apply andb_true_iff in A as [_ A].
        destruct (vtype c); [|discriminate]. destruct (union_types r); [discriminate|]. auto.
    + unfold pipeline in H. rewrite F in H. destruct v; simpl in T; try discriminate; auto.
      destruct (noneable (mods_of (SUnion cs m))); discriminate.
Qed.

Lemma round2_gen : forall p sp o x', idem p sp -> missing_ok p sp ->
  apply p sp (field_input sp o) = Ok x' -> apply p sp (field_input sp (Some x')) = Ok x'.
Proof.
  intros p sp o x' I U H. unfold field_input at 1. destruct (is_missing x') eqn:M.
  - destruct x'; try discriminate.
    destruct (U _ H) as [[F D]|[F E]].
    + rewrite apply_eq. unfold pipeline. rewrite F, D. reflexivity.
    + assert (D : dflt (mods_of sp) = PMissing).
      { unfold field_input in E. destruct o as [x|]; auto. destruct (is_missing x) eqn:Mx; auto.
        subst x. discriminate. }
      rewrite D. rewrite E in H. exact H.
  - apply I in H. exact H.
Qed.

(* ------------------------------------------------------------------------------------------ *)
(** * Dict schemas whose field specs may be Unions (the proof of [idem_dict] with the weaker
      hypothesis on MISSING_VALUE results) *)

Lemma idem_dict_gen : forall p fs m, keys_distinct fs = true ->
  Forall (fun kf => idem p (snd kf) /\ missing_ok p (snd kf)) fs ->
  idem p (SDict (Some fs) m).
Proof.
  intros p fs m KD IH v v'. rewrite !apply_eq. apply pipeline_idem.
  intros v1 v1' B T. cbn [apply_body] in *.
  destruct v1; try discriminate.
  destruct (unknown_keys fs kvs) eqn:UK; [discriminate|].
  destruct (fields_apply (apply p) fs kvs fs) as [ups|] eqn:FA; simpl in B; [|discriminate].
  inv B. split; [reflexivity|].
  set (kvs' := dict_merge kvs ups).
  rewrite Forall_forall in IH.
  assert (CONST : forall k sp, In (KConst k, sp) fs -> has_const k fs = true)
    by (intros; eapply has_const_In; eauto).
  (* A: a const field finds its own result in the merged dict *)
  assert (A : forall k sp, In (KConst k, sp) fs ->
            exists x', lookup k ups = Some x' /\ apply p sp (field_input sp (lookup k kvs)) = Ok x' /\
                       lookup k kvs' = Some x').
  { intros k sp I. destruct (fields_const _ _ _ _ _ FA KD CONST k sp I) as [x' [L F]].
    exists x'. repeat split; auto. unfold kvs'. rewrite lookup_merge, L. destruct (lookup k kvs); auto. }
  (* B: an entry of the merged dict under a non-const key carries the dyn field's result *)
  assert (Bd : forall k z, In (k, z) kvs' -> has_const k fs = false ->
            exists x0, lookup k kvs = Some x0 /\ lookup k kvs' = Some z /\
            forall spd, In (KDyn, spd) fs ->
              lookup k ups = Some z /\
              apply p spd (if is_missing x0 then dflt (mods_of spd) else x0) = Ok z).
  { intros k z I NC. destruct (In_merge _ _ _ _ I) as [[x [Ix Ez]]|[Iu NK]].
    - destruct (has_key_lookup _ _ (In_has_key _ _ _ Ix)) as [x0 L0]. exists x0. split; auto.
      destruct (has_dyn fs) eqn:HD.
      + unfold has_dyn in HD. destruct (field_of KDyn fs) as [spd|] eqn:FD; [|discriminate].
        pose proof (field_of_In' _ _ _ FD) as Id.
        destruct (fields_dyn _ _ _ _ _ FA KD CONST spd Id k x0 NC L0) as [y [Ly Fy]].
        rewrite Ly in Ez. subst z. split.
        * unfold kvs'. rewrite lookup_merge, L0, Ly. reflexivity.
        * intros spd' Id'. rewrite (In_field_of _ _ _ KD Id') in FD. inv FD. auto.
      + (* no dyn field: a non-const key would be unknown *)
        exfalso. unfold unknown_keys in UK. rewrite HD in UK. simpl in UK.
        assert (X : existsb (fun kv => negb (has_const (fst kv) fs)) kvs = true).
        { apply existsb_exists. exists (k, x). split; auto. simpl. rewrite NC. reflexivity. }
        congruence.
    - exfalso. destruct (fields_entries _ _ _ _ _ FA _ _ Iu) as [[sp [Is _]]|[_ [spd [x [_ [Ix _]]]]]].
      + rewrite (CONST _ _ Is) in NC. discriminate.
      + rewrite (In_has_key _ _ _ Ix) in NK. discriminate. }
  (* every entry of the merged dict under a const key carries that field's result *)
  assert (Cc : forall k z sp, In (k, z) kvs' -> In (KConst k, sp) fs -> lookup k ups = Some z).
  { intros k z sp I Is. destruct (A _ _ Is) as [x' [L [F _]]].
    destruct (In_merge _ _ _ _ I) as [[x [Ix Ez]]|[Iu NK]].
    - rewrite L in Ez. subst. auto.
    - destruct (fields_entries _ _ _ _ _ FA _ _ Iu) as [[sp2 [Is2 F2]]|[NC _]].
      + pose proof (In_field_of _ _ _ KD Is) as E1. pose proof (In_field_of _ _ _ KD Is2) as E2.
        rewrite E1 in E2. inv E2. rewrite F in F2. inv F2. auto.
      + rewrite (CONST _ _ Is) in NC. discriminate. }
  (* C: the merged dict has no unknown keys *)
  assert (UK' : unknown_keys fs kvs' = false).
  { unfold unknown_keys in *. destruct (has_dyn fs) eqn:HD; simpl in *; auto.
    destruct (existsb (fun kv => negb (has_const (fst kv) fs)) kvs') eqn:X; auto.
    apply existsb_exists in X as [[k z] [I N]]. simpl in N.
    destruct (has_const k fs) eqn:NC; [discriminate|].
    destruct (Bd _ _ I NC) as [x0 [L0 _]].
    exfalso. assert (Y : existsb (fun kv => negb (has_const (fst kv) fs)) kvs = true).
    { apply existsb_exists. exists (k, x0). split. eapply lookup_In; eauto. simpl. rewrite NC. reflexivity. }
    congruence. }
  rewrite UK'.
  (* D: the second run succeeds *)
  destruct (fields_apply_ok (apply p) fs kvs' fs) as [ups2 F2].
  { intros k sp Is. destruct (A _ _ Is) as [x' [L [F L']]]. rewrite L'.
    destruct (IH _ Is) as [I U]. exists x'. eapply round2_gen; eauto. }
  { intros spd Id k z I NC. destruct (Bd _ _ I NC) as [x0 [L0 [L' Hd]]]. destruct (Hd _ Id) as [Lu Fz].
    destruct (IH _ Id) as [Ii U]. exists z.
    change (if is_missing z then dflt (mods_of spd) else z) with (field_input spd (Some z)).
    eapply round2_gen with (o := Some x0); eauto. }
  rewrite F2. simpl. f_equal. f_equal.
  (* E: and the merge is a fixed point *)
  apply merge_fixed_conv.
  - intros k y Iy. destruct (fields_entries _ _ _ _ _ F2 _ _ Iy) as [[sp [Is _]]|[_ [spd [x [_ [Ix _]]]]]].
    + destruct (A _ _ Is) as [x' [_ [_ L']]]. unfold has_key. rewrite L'. reflexivity.
    + eapply In_has_key; eauto.
  - intros k z Iz z' L2.
    destruct (fields_entries _ _ _ _ _ F2 _ _ (lookup_In _ _ _ L2)) as [[sp [Is Fz']]|[NC [spd [x [Id [Ix Fz']]]]]].
    + destruct (A _ _ Is) as [x' [L [F L']]]. rewrite L' in Fz'.
      destruct (IH _ Is) as [I U]. simpl in I, U. pose proof (round2_gen _ _ _ _ I U F) as R. rewrite R in Fz'. inv Fz'.
      pose proof (Cc _ _ _ Iz Is) as Lz. rewrite L in Lz. inv Lz. reflexivity.
    + destruct (Bd _ _ Iz NC) as [x0 [L0 [L' Hd]]]. destruct (Hd _ Id) as [Lu Fz].
      destruct (fields_dyn _ _ _ _ _ F2 KD CONST spd Id k z NC L') as [y [Ly Fy]].
      rewrite L2 in Ly. inv Ly.
      destruct (IH _ Id) as [I U]. simpl in I, U.
      pose proof (round2_gen p spd (Some x0) z I U Fz) as R. unfold field_input in R. rewrite R in Fy. inv Fy. reflexivity.
Qed.

(* ------------------------------------------------------------------------------------------ *)
(** * The theorem: apply is idempotent for every spec whose Unions dispatch plainly *)

Lemma plain_missing_ok : forall p s, union_plain s = true -> missing_ok p s.
Proof.
  intros p s U. destruct s; try (apply missing_ok_nonunion; reflexivity).
  simpl in U. apply andb_true_iff in U as [U _]. apply missing_ok_union; auto.
Qed.

Theorem apply_idempotent_plain : forall s, union_plain s = true -> keys_ok s = true ->
  forall p v v', apply p s v = Ok v' -> apply p s v' = Ok v'.
Proof.
  induction s using spec_ind'; intros NU KO p; fold (idem p).
  - apply idem_leaf; intros v v' B; inv B; reflexivity.
  - apply idem_leaf; intros v v' B. eapply validate_num_same; eauto.
  - apply idem_leaf; intros v v' B. eapply validate_num_same; eauto.
  - apply idem_leaf; intros v v' B; inv B; reflexivity.
  - apply idem_leaf; intros v v' B. cbn [apply_body] in B. destruct (py_in v vs); inv B; reflexivity.
  - apply idem_list. intros v v'. apply IHs; auto.
  - apply idem_tuple. simpl in NU, KO. rewrite forallb_forall in NU, KO.
    rewrite Forall_forall in *. intros e He v v'. apply H; auto.
  - apply idem_leaf; intros v v' B; inv B; reflexivity.
  - simpl in NU, KO. apply andb_true_iff in KO as [KD KO]. rewrite forallb_forall in NU, KO.
    apply idem_dict_gen; auto. rewrite Forall_forall in *. intros kf I. split.
    + intros v v'. apply H; auto.
    + apply plain_missing_ok. auto.
  - apply idem_leaf; intros v v' B; inv B; reflexivity.
  - simpl in NU, KO. apply andb_true_iff in NU as [CP NU]. rewrite forallb_forall in NU, KO.
    apply idem_union; auto. rewrite Forall_forall in *. intros c I v v'. apply H; auto.
  - apply idem_leaf; intros v v' B; inv B; reflexivity.
Qed.

Lemma no_union_plain : forall s, no_union s = true -> union_plain s = true.
Proof.
  induction s using spec_ind'; simpl; intros NU; auto; try discriminate.
  - rewrite forallb_forall in *. rewrite Forall_forall in H. auto.
  - rewrite forallb_forall in *. rewrite Forall_forall in H. auto.
Qed.

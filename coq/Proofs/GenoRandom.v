(* GenoRandom.v — random_dna returns a valid decision for every generator that meets its contract. *)
From Coq Require Import Sorted Permutation.
From PG Require Import Common.Tactics Model.Geno Proofs.GenoBasics Proofs.GenoValid Proofs.GenoNext.

(* ---- insertion sort ------------------------------------------------------------------------------------- *)
Lemma insert_sorted_perm : forall x l, Permutation (insert_sorted x l) (x :: l).
Proof.
  induction l; simpl; auto. destruct (x <=? a); auto.
  eapply perm_trans; [apply perm_skip; apply IHl|]. apply perm_swap.
Qed.
Lemma isort_perm : forall l, Permutation (isort l) l.
Proof.
  induction l; simpl; auto. unfold isort in *. simpl.
  eapply perm_trans; [apply insert_sorted_perm|]. apply perm_skip; auto.
Qed.
Lemma insert_sorted_sorted : forall x l, StronglySorted le l -> StronglySorted le (insert_sorted x l).
Proof.
  induction l; intros H; simpl. repeat constructor.
  inversion H as [|? ? Hs Hf]; subst. destruct (x <=? a) eqn:E.
  - apply Nat.leb_le in E. constructor; auto. constructor; auto.
    eapply Forall_impl; [|exact Hf]. intros; simpl in *; lia.
  - apply Nat.leb_gt in E. constructor; auto.
    apply Forall_forall. intros y Hy.
    apply (Permutation_in _ (insert_sorted_perm x l)) in Hy. destruct Hy as [<-|Hy]. lia.
    rewrite Forall_forall in Hf; auto.
Qed.
Lemma isort_sorted : forall l, StronglySorted le (isort l).
Proof. induction l; simpl. constructor. unfold isort in *. simpl. apply insert_sorted_sorted; auto. Qed.

(* ---- map_st ------------------------------------------------------------------------------------------------ *)
Lemma map_st_Forall2 : forall A X R (f : A -> R -> X * R) (P : A -> X -> Prop) l,
  Forall (fun a => forall r, P a (fst (f a r))) l -> forall r, Forall2 P l (fst (map_st f l r)).
Proof.
  induction l; intros H r; simpl. constructor. inv H.
  destruct (f a r) as [x r1] eqn:E. specialize (IHl H3 r1). destruct (map_st f l r1) as [xs r2] eqn:E2.
  simpl in *. constructor; auto. specialize (H2 r). rewrite E in H2. auto.
Qed.
Lemma Forall2_length_eq : forall A B (P : A -> B -> Prop) l1 l2, Forall2 P l1 l2 -> length l1 = length l2.
Proof. induction 1; simpl; auto. Qed.

Section RandomMember.
  Variable R : Type.
  Variable sample : nat -> nat -> R -> list nat * R.
  Variable randint : nat -> R -> nat * R.
  Variable uniform : flt -> flt -> R -> flt * R.
  (* the contract of random.Random: what the code relies on *)
  Hypothesis sample_ok : forall n k r, k <= n ->
    length (fst (sample n k r)) = k /\ NoDup (fst (sample n k r)) /\ Forall (fun c => c < n) (fst (sample n k r)).
  Hypothesis randint_ok : forall n r, 1 <= n -> fst (randint n r) < n.
  Hypothesis uniform_ok : forall lo hi r, (lo <= hi)%Z -> (lo <= fst (uniform lo hi r) <= hi)%Z.

  Lemma random_dna_space : forall es r,
    random_dna R sample randint uniform (Space es) r =
    let (ds, r') := map_st (fun e r0 => random_p R sample randint uniform e r0) es r in (SSpace ds, r').
  Proof. reflexivity. Qed.
  Lemma random_p_choices : forall k cands dist srt nm lits r,
    random_p R sample randint uniform (Choices k cands dist srt nm lits) r =
    let n := length cands in
    let (choices, r1) := if dist then sample n k r else map_st (fun _ r0 => randint n r0) (seq 0 k) r in
    let choices := if srt then isort choices else choices in
    let (cs, r2) := map_st (fun c r0 =>
                      let (sub, r') := with_nth (fun s => random_dna R sample randint uniform s) (fun r' => (SSpace [], r')) cands c r0
                      in ((c, sub), r')) choices r1 in
    (PChoices cs, r2).
  Proof. reflexivity. Qed.

  Lemma random_both :
    (forall s, wf s = true -> forall r, valid s (fst (random_dna R sample randint uniform s r)) = true) /\
    (forall p, wf_p p = true -> forall r, valid_p p (fst (random_p R sample randint uniform p r)) = true).
  Proof.
    apply dspec_dpoint_ind.
    - intros es IH Hwf r. simpl in Hwf. rewrite random_dna_space.
      destruct (map_st (fun e r0 => random_p R sample randint uniform e r0) es r) as [ds r'] eqn:E. cbn [fst valid].
      apply forallb2_Forall2.
      assert (HF : Forall (fun e => forall r0, valid_p e (fst (random_p R sample randint uniform e r0)) = true) es).
      { apply Forall_forall. intros e He r0.
        rewrite Forall_forall in IH. rewrite forallb_forall in Hwf. apply IH; auto. }
      pose proof (map_st_Forall2 _ _ _ (fun e r0 => random_p R sample randint uniform e r0) (fun e x => valid_p e x = true) es HF r) as H.
      rewrite E in H. exact H.
    - intros k cands dist srt nm lits IH Hwf r.
      apply wf_p_choices in Hwf as (Hk & Hn & Hdk & Hwc).
      rewrite random_p_choices. cbv zeta.
      set (n := length cands) in *.
      (* the drawn indices *)
      assert (Hch : forall r, let ch := fst (if dist then sample n k r else map_st (fun (_ : nat) r0 => randint n r0) (seq 0 k) r) in
                length ch = k /\ (dist = true -> NoDup ch) /\ Forall (fun c => c < n) ch).
      { intros r0. destruct dist; simpl.
        - destruct (sample_ok n k r0 (Hdk eq_refl)) as (A & B & C). auto.
        - pose proof (map_st_Forall2 _ _ _ (fun (_ : nat) r1 => randint n r1) (fun (_ : nat) c => c < n) (seq 0 k)) as H.
          assert (Hf : Forall (fun a : nat => forall r1, fst (randint n r1) < n) (seq 0 k)).
          { apply Forall_forall. intros; apply randint_ok; auto. }
          specialize (H Hf r0). split.
          + apply Forall2_length_eq in H. rewrite seq_length in H. auto.
          + split. intros; discriminate.
            clear - H. remember (fst (map_st (fun (_ : nat) r1 => randint n r1) (seq 0 k) r0)) as l.
            clear Heql. induction H; constructor; auto. }
      specialize (Hch r).
      destruct (if dist then sample n k r else map_st (fun (_ : nat) r0 => randint n r0) (seq 0 k) r) as [ch r1] eqn:Ech.
      simpl in Hch. destruct Hch as (Hl & Hnd & Hb).
      set (ch' := if srt then isort ch else ch).
      assert (Hch' : length ch' = k /\ (dist = true -> NoDup ch') /\ Forall (fun c => c < n) ch' /\ (srt = true -> StronglySorted le ch')).
      { unfold ch'. destruct srt.
        - pose proof (isort_perm ch) as Hp. repeat split.
          + rewrite (Permutation_length Hp). auto.
          + intros E. eapply Permutation_NoDup; [apply Permutation_sym; exact Hp|]. auto.
          + eapply Permutation_Forall; [apply Permutation_sym; exact Hp|]. auto.
          + intros _. apply isort_sorted.
        - repeat split; auto. intros; discriminate. }
      destruct Hch' as (Hl' & Hnd' & Hb' & Hs').
      set (g := fun c r0 => let (sub, r') := with_nth (fun s => random_dna R sample randint uniform s) (fun r' => (SSpace [], r')) cands c r0 in ((c, sub), r')).
      pose proof (map_st_Forall2 _ _ _ g (fun c (x : nat * sdna) => fst x = c /\ with_nth (fun s => valid s (snd x)) false cands c = true) ch') as H.
      assert (Hf : Forall (fun c => forall r0, fst (fst (g c r0)) = c /\ with_nth (fun s => valid s (snd (fst (g c r0)))) false cands c = true) ch').
      { apply Forall_forall. intros c Hc r0. rewrite Forall_forall in Hb'. specialize (Hb' c Hc).
        unfold g. rewrite !with_nth_nth_error.
        destruct (nth_error cands c) as [sc|] eqn:E; [|apply nth_error_None in E; unfold n in Hb'; lia].
        destruct (random_dna R sample randint uniform sc r0) as [sub r'] eqn:Er. simpl. split; auto.
        eapply nth_error_Forall in IH; eauto.
        rewrite forallb_forall in Hwc. specialize (IH (Hwc sc (nth_error_In _ _ E)) r0). rewrite Er in IH. auto. }
      specialize (H Hf r1). fold ch'.
      destruct (map_st g ch' r1) as [cs r2] eqn:Ecs. simpl in *.
      assert (Hfst : map fst cs = ch').
      { clear - H. induction H; simpl; auto. destruct H. f_equal; auto. }
      apply andb_true_iff; split; [apply andb_true_iff; split|].
      + apply Nat.eqb_eq. apply Forall2_length_eq in H. lia.
      + rewrite Hfst. apply constraint_ok_spec. split; auto.
      + apply forallb_forall. intros x Hx.
        assert (G : Forall (fun x : nat * sdna => with_nth (fun s => valid s (snd x)) false cands (fst x) = true) cs).
        { clear - H. induction H; constructor; auto. destruct H as [-> H]. auto. }
        rewrite Forall_forall in G. auto.
    - intros lo hi nm Hwf r. simpl in *. apply Z.leb_le in Hwf.
      pose proof (uniform_ok lo hi r Hwf) as H.
      change (random_p R sample randint uniform (FloatP lo hi nm) r) with (let (f, r') := uniform lo hi r in (PFloat f, r')).
      destruct (uniform lo hi r) as [f r'] eqn:E. simpl in *.
      apply andb_true_iff; split; apply Z.leb_le; lia.
    - intros nm Hwf r. reflexivity.
  Qed.

  Theorem random_member : forall s r, wf s = true -> valid s (fst (random_dna R sample randint uniform s r)) = true.
  Proof. intros. apply random_both; auto. Qed.
End RandomMember.

(* GenoExamples.v — non-vacuity: concrete specifications satisfying the hypotheses of the C11/C12 theorems. *)
From PG Require Import Common.Tactics Model.Geno Model.GenoViews.

Definition nm0 (c : N) : pname := ([KName [c]], None).
Definition konst := Space [].
(* manyof(2, [constant, oneof([c, c]), constant], distinct, sorted) x oneof([c, manyof(2, [c, c], not distinct)]) *)
Definition ex_spec : dspec :=
  Space [ Choices 2 [konst; Space [Choices 1 [konst; konst] true false (nm0 120) []]; konst] true true (nm0 97) [];
          Choices 1 [konst; Space [Choices 2 [konst; konst] false false (nm0 121) []]] true false (nm0 98) [] ].

Example ex_spec_hyps : finite ex_spec = true /\ wf ex_spec = true /\ length (all_valid ex_spec) = 25 /\
                       space_size ex_spec = Some 25%N /\ iter ex_spec 30 = all_valid ex_spec.
Proof. vm_compute. repeat split; reflexivity. Qed.

(* a valid decision of ex_spec that is not the first one, and its successor *)
Definition ex_dna : sdna :=
  SSpace [PChoices [(0, SSpace []); (1, SSpace [PChoices [(1, SSpace [])]])]; PChoices [(1, SSpace [PChoices [(1, SSpace []); (1, SSpace [])]])]].
Example ex_dna_valid : valid ex_spec ex_dna = true /\
  next ex_spec ex_dna = Some (SSpace [PChoices [(0, SSpace []); (2, SSpace [])]; PChoices [(0, SSpace [])]]).
Proof. vm_compute. split; reflexivity. Qed.

(* the PRNG contract of C11_random_member is satisfiable: a generator that always draws the smallest values *)
Definition triv_sample (n k : nat) (r : unit) : list nat * unit := (seq 0 k, r).
Definition triv_randint (n : nat) (r : unit) : nat * unit := (O, r).
Definition triv_uniform (lo hi : flt) (r : unit) : flt * unit := (lo, r).
Example triv_rng_ok :
  (forall n k r, k <= n -> length (fst (triv_sample n k r)) = k /\ NoDup (fst (triv_sample n k r)) /\
                           Forall (fun c => c < n) (fst (triv_sample n k r))) /\
  (forall n r, 1 <= n -> fst (triv_randint n r) < n) /\
  (forall lo hi r, (lo <= hi)%Z -> (lo <= fst (triv_uniform lo hi r) <= hi)%Z).
Proof.
  repeat split; simpl; try lia.
  - apply seq_length.
  - apply seq_NoDup.
  - apply Forall_forall. intros c Hc. apply in_seq in Hc. lia.
Qed.

(* CompareLink.v — pg.eq / pg.lt / pg.hash of the model reduce to the tree order [ncmp] on normal forms:
     eq a b = is_eq (ncmp (norm a) (norm b)),   lt a b = Ok (is_lt (ncmp (norm a) (norm b))),
     hpre a = Ok h -> h = hnorm (norm a)
   for the values of the property's domain [cmp_ok], under [ranks_ok] for the rank table. *)
From PG Require Import Common.Tactics Common.Tr Gen.TypeOrder Model.Compare Proofs.CompareOrder Proofs.CompareDict.
From Coq Require Import QArith Sorting.Sorted.
Close Scope Q_scope.

Section WithTable.
Variable t : ranks.
Hypothesis ROK : ranks_ok t = true.

(* ---- what ranks_ok gives ----------------------------------------------------------------- *)
Lemma distinct_NoDup l : distinct l = true -> NoDup l.
Proof.
  induction l as [|x r IH]; simpl; intros H; constructor; apply andb_prop in H; destruct H as [H1 H2]; auto.
  intros I. apply negb_true_iff in H1.
  assert (existsb (str_eqb x) r = true) by (apply existsb_exists; exists x; split; auto; apply str_eqb_refl).
  congruence.
Qed.

Lemma rank_facts :
  r_bool t = r_int t /\ r_float t = r_int t /\
  NoDup [r_missing t; r_none t; r_int t; r_str t; r_list t; r_tuple t; r_dict t].
Proof.
  unfold ranks_ok in ROK. apply andb_prop in ROK. destruct ROK as [H1 H3].
  apply andb_prop in H1. destruct H1 as [H1 H2].
  apply str_eqb_eq in H1. apply str_eqb_eq in H2.
  split; [|split]; auto using distinct_NoDup.
Qed.

Lemma name_ok_spec n : name_ok t n = true -> ~ In n (all_ranks t).
Proof.
  unfold name_ok. intros H I. apply negb_true_iff in H.
  assert (existsb (str_eqb n) (all_ranks t) = true) by (apply existsb_exists; exists n; split; auto; apply str_eqb_refl).
  congruence.
Qed.

Definition cls_wf (c : cls) : Prop :=
  match c with CObj n u => name_ok t n = true | CEnt => False | _ => True end.

(* equal rank strings: the same class, or two object classes of one __qualname__ *)
Lemma crank_inj c d : cls_wf c -> cls_wf d -> crank t c = crank t d ->
  c = d \/ exists n u u', c = CObj n u /\ d = CObj n u'.
Proof.
  destruct rank_facts as (_ & _ & ND).
  repeat match goal with H : NoDup (_ :: _) |- _ => inversion H; clear H; subst end.
  destruct c, d; simpl; intros W1 W2 E; try (left; reflexivity); try contradiction;
    try (subst; right; eauto; fail);
    try (apply name_ok_spec in W1; unfold all_ranks in W1; simpl in W1);
    try (apply name_ok_spec in W2; unfold all_ranks in W2; simpl in W2);
    exfalso; simpl in *; intuition congruence.
Qed.

Lemma cls_cmp_neq c d : crank t c <> crank t d ->
  cls_cmp t c d = str_cmp (crank t c) (crank t d) /\ str_cmp (crank t c) (crank t d) <> Eq.
Proof.
  intros NE. unfold cls_cmp.
  destruct (str_cmp (crank t c) (crank t d)) eqn:E; simpl; try (split; [reflexivity|discriminate]).
  apply str_cmp_eq in E. contradiction.
Qed.

(* ---- normal forms ------------------------------------------------------------------------- *)
Definition kcls (v : pv) : cls :=
  match v with
  | PMissing => CMissing | PNone => CNone | PBool _ | PInt _ | PFlt _ _ => CNum | PStr _ => CStr
  | PList _ _ => CList | PTuple _ => CTuple | PDict _ _ => CDict | PObj n u _ => CObj n u
  end.

Definition ent (p : key * nv) : nv := NEnt (fst p) (snd p).

Fixpoint norm (v : pv) : nv :=
  match v with
  | PMissing => NNode CMissing []
  | PNone => NNode CNone []
  | PBool b => NNum (inject_Z (if b then 1 else 0))
  | PInt z => NNum (inject_Z z)
  | PFlt m e => NNum (toQ m e)
  | PStr s => NStr s
  | PList _ l => NNode CList (map norm l)
  | PTuple l => NNode CTuple (map norm l)
  | PDict _ e => NNode CDict (map ent (sort_ents t (map (fun kv => (fst kv, norm (snd kv))) e)))
  | PObj n u e => NNode (CObj n u) (map ent (sort_ents t (map (fun kv => (fst kv, norm (snd kv))) e)))
  end.

Definition nent (kv : key * pv) : nv := NEnt (fst kv) (norm (snd kv)).
Lemma norm_ents e :
  map ent (sort_ents t (map (fun kv => (fst kv, norm (snd kv))) e)) = map nent (sort_ents t e).
Proof. rewrite (sort_map t norm e), map_map. reflexivity. Qed.

Lemma ncls_norm v : ncls (norm v) = kcls v.
Proof. destruct v; reflexivity. Qed.

Lemma rank_crank v : rank t v = crank t (kcls v).
Proof. destruct rank_facts as (B & F & _). destruct v; simpl; auto. Qed.

Lemma same_type_kcls a b : same_type a b = true -> kcls a = kcls b.
Proof.
  destruct a, b; simpl; try discriminate; auto.
  intros H. apply andb_prop in H. destruct H as [H1 H2]. apply str_eqb_eq in H1. apply N.eqb_eq in H2. congruence.
Qed.

Lemma cmp_ok_wf f v : cmp_ok t f v = true -> cls_wf (kcls v).
Proof.
  destruct v; simpl; auto. intros H.
  repeat (apply andb_prop in H; destruct H as [H ?]). exact H.
Qed.

Lemma cls_eq_dec (c d : cls) : {c = d} + {c <> d}.
Proof. decide equality. apply N.eq_dec. apply list_eq_dec. apply N.eq_dec. Qed.

(* values of different classes: decided by the rank strings *)
Lemma ncmp_diff a b : rank t a <> rank t b ->
  ncmp t (norm a) (norm b) = str_cmp (rank t a) (rank t b) /\ str_cmp (rank t a) (rank t b) <> Eq.
Proof.
  intros NE. rewrite !rank_crank in NE. rewrite ncmp_unfold, !ncls_norm, !rank_crank.
  destruct (cls_cmp_neq (kcls a) (kcls b)) as [E1 E2]; auto.
  rewrite E1. split; auto. destruct (str_cmp _ _); simpl; auto. congruence.
Qed.

(* ---- leaves --------------------------------------------------------------------------------- *)
Lemma ncmp_num p q : ncmp t (NNum p) (NNum q) = Qcompare p q.
Proof. rewrite ncmp_unfold. cbn [ncls shape nbody]. rewrite cls_cmp_refl, N.compare_refl. reflexivity. Qed.
Lemma ncmp_str s u : ncmp t (NStr s) (NStr u) = str_cmp s u.
Proof. rewrite ncmp_unfold. cbn [ncls shape nbody]. rewrite cls_cmp_refl, N.compare_refl. reflexivity. Qed.
Lemma ncmp_node c l l' : ncmp t (NNode c l) (NNode c l') = lex (ncmp t) l l'.
Proof. rewrite ncmp_unfold. cbn [ncls shape nbody]. rewrite cls_cmp_refl, N.compare_refl. reflexivity. Qed.
Lemma ncmp_ent k v k' v' : ncmp t (NEnt k v) (NEnt k' v') = cthen (key_cmp t k k') (ncmp t v v').
Proof. rewrite ncmp_unfold. cbn [ncls shape nbody]. rewrite cls_cmp_refl, N.compare_refl. reflexivity. Qed.

Lemma norm_num v p : num_of v = Some p -> norm v = NNum p.
Proof. destruct v; simpl; try discriminate; intros H; inv H; reflexivity. Qed.

Lemma leaf_spec f x y : leaf_in_fam f x = true -> leaf_in_fam f y = true ->
  is_leaf x = true /\ is_leaf y = true /\
  native_eq x y = is_eq (ncmp t (norm x) (norm y)) /\
  native_lt x y = Ok (is_lt (ncmp t (norm x) (norm y))).
Proof.
  destruct f, x; intros H1; try discriminate H1; destruct y; intros H2; try discriminate H2;
    repeat split; unfold native_eq, native_lt; cbn [norm num_of]; rewrite ?ncmp_num, ?ncmp_str; reflexivity.
Qed.
Lemma leaf_cmp_ok f x : leaf_in_fam f x = true -> cmp_ok t f x = true /\ depth x = O.
Proof. destruct f, x; simpl; try discriminate; auto. Qed.

(* ---- element-wise comparison of sequences ---------------------------------------------------- *)
Section Seq.
  Variable E : pv -> pv -> bool.
  Variable Lt_ : pv -> pv -> result bool.

  Lemma list_eqb_spec la : forall lb,
    (forall x y, In x la -> In y lb -> E x y = is_eq (ncmp t (norm x) (norm y))) ->
    list_eqb E la lb = is_eq (lex (ncmp t) (map norm la) (map norm lb)).
  Proof.
    induction la as [|x la IH]; intros [|y lb] H; simpl; auto.
    rewrite H by (simpl; auto). rewrite IH by (intros; apply H; simpl; auto).
    destruct (ncmp t (norm x) (norm y)); reflexivity.
  Qed.

  Lemma list_lt_spec la : forall lb,
    (forall x y, In x la -> In y lb -> E x y = is_eq (ncmp t (norm x) (norm y))
                                      /\ Lt_ x y = Ok (is_lt (ncmp t (norm x) (norm y)))) ->
    list_lt E Lt_ la lb = Ok (is_lt (lex (ncmp t) (map norm la) (map norm lb))).
  Proof.
    induction la as [|x la IH]; intros [|y lb] H; simpl; auto.
    destruct (H x y) as [H1 H2]; simpl; auto. rewrite H1, H2.
    rewrite IH by (intros; apply H; simpl; auto).
    destruct (ncmp t (norm x) (norm y)); reflexivity.
  Qed.

  Lemma ents_lt_spec sa : forall sb,
    (forall p q, In p sa -> In q sb -> E (snd p) (snd q) = is_eq (ncmp t (norm (snd p)) (norm (snd q)))
                                      /\ Lt_ (snd p) (snd q) = Ok (is_lt (ncmp t (norm (snd p)) (norm (snd q))))) ->
    ents_lt t E Lt_ sa sb = Ok (is_lt (lex (ncmp t) (map nent sa) (map nent sb))).
  Proof.
    induction sa as [|[k v] sa IH]; intros [|[k' w] sb] H; cbn [ents_lt map lex]; auto.
    destruct (H (k, v) (k', w)) as [H1 H2]; [left; reflexivity | left; reflexivity |].
    cbn [snd] in H1, H2. rewrite H1, H2.
    rewrite IH by (intros; apply H; right; assumption).
    change (nent (k, v)) with (NEnt k (norm v)). change (nent (k', w)) with (NEnt k' (norm w)).
    rewrite ncmp_ent, (key_eqb_cmp t).
    destruct (key_cmp t k k'); simpl; auto.
    destruct (ncmp t (norm v) (norm w)); reflexivity.
  Qed.
End Seq.

Lemma tuple_lt_spec f la : forall lb,
  forallb (leaf_in_fam f) la = true -> forallb (leaf_in_fam f) lb = true ->
  tuple_lt la lb = Ok (is_lt (lex (ncmp t) (map norm la) (map norm lb))).
Proof.
  induction la as [|x la IH]; intros [|y lb] Ha Hb; simpl; auto.
  simpl in Ha, Hb. apply andb_prop in Ha. apply andb_prop in Hb. destruct Ha as [Hx Ha], Hb as [Hy Hb].
  destruct (leaf_spec f x y Hx Hy) as (L1 & L2 & E1 & E2).
  rewrite L1, L2, E1, E2, IH by auto. simpl.
  destruct (ncmp t (norm x) (norm y)); reflexivity.
Qed.

Lemma lex_eq_Forall2 {A} (c : A -> A -> comparison) l : forall l',
  lex c l l' = Eq <-> Forall2 (fun x y => c x y = Eq) l l'.
Proof.
  induction l as [|x l IH]; intros [|y l']; simpl; split; intros H; try discriminate; try constructor; try (inv H; fail).
  - destruct (c x y); simpl in H; try discriminate; auto.
  - apply IH. destruct (c x y); simpl in H; try discriminate; auto.
  - inv H. rewrite H3. simpl. apply IH; auto.
Qed.

Lemma is_eq_true c : is_eq c = true <-> c = Eq.
Proof. destruct c; simpl; split; congruence. Qed.
Lemma cthen_eq a b : cthen a b = Eq <-> a = Eq /\ b = Eq.
Proof. destruct a; simpl; split; intros; try tauto; try discriminate; destruct H; try discriminate; auto. Qed.

Lemma Forall2_map_both {A B} (h : A -> B) (P : B -> B -> Prop) l : forall l',
  Forall2 P (map h l) (map h l') <-> Forall2 (fun x y => P (h x) (h y)) l l'.
Proof.
  induction l as [|x l IH]; intros [|y l']; simpl; split; intros H; try constructor; try (inv H; fail);
    inv H; auto; apply IH; auto.
Qed.
Lemma Forall2_In_l {A B} (P : A -> B -> Prop) l l' x : Forall2 P l l' -> In x l -> exists y, In y l' /\ P x y.
Proof. induction 1; simpl; intros []; subst; eauto. destruct IHForall2 as (z & ? & ?); eauto. Qed.
Lemma Forall2_In_r {A B} (P : A -> B -> Prop) l l' y : Forall2 P l l' -> In y l' -> exists x, In x l /\ P x y.
Proof. induction 1; simpl; intros []; subst; eauto. destruct IHForall2 as (z & ? & ?); eauto. Qed.
Lemma Forall2_imp {A B} (P Q : A -> B -> Prop) l l' : (forall x y, P x y -> Q x y) -> Forall2 P l l' -> Forall2 Q l l'.
Proof. intros H. induction 1; constructor; auto. Qed.
Lemma Forall2_len {A B} (P : A -> B -> Prop) l l' : Forall2 P l l' -> length l = length l'.
Proof. induction 1; simpl; auto. Qed.

Section DictEq.
  Variable E : pv -> pv -> bool.
  Variables ea eb : list (key * pv).
  Hypothesis HE : forall p q, In p ea -> In q eb ->
    E (snd p) (snd q) = is_eq (ncmp t (norm (snd p)) (norm (snd q))).
  Hypothesis Na : nodup_keys ea = true.
  Hypothesis Nb : nodup_keys eb = true.

  Let R (v w : pv) : Prop := ncmp t (norm v) (norm w) = Eq.

  Lemma dict_eqb_spec :
    dict_eqb E ea eb = is_eq (lex (ncmp t) (map nent (sort_ents t ea)) (map nent (sort_ents t eb))).
  Proof.
    apply Bool.eq_iff_eq_true. rewrite is_eq_true, lex_eq_Forall2, Forall2_map_both.
    assert (EQ : forall sa sb,
      Forall2 (fun x y => ncmp t (nent x) (nent y) = Eq) sa sb <->
      Forall2 (fun p q : key * pv => fst p = fst q /\ R (snd p) (snd q)) sa sb).
    { intros sa sb. split; intros H; (eapply Forall2_imp; [|exact H]); intros [k v] [k' w]; unfold nent, R; cbn [fst snd];
        rewrite ncmp_ent, cthen_eq; intros [H1 H2]; split; auto.
      - apply key_cmp_eq in H1; auto. - subst; apply key_cmp_refl. }
    rewrite EQ. clear EQ.
    unfold dict_eqb. rewrite !andb_true_iff, Nat.eqb_eq, !forallb_forall. split.
    - intros [[[Hl H1] H2] H3]. apply (sorted_match t); auto using sort_sorted. split.
      + intros k v I. apply In_sort in I. specialize (H3 _ I). simpl in H3.
        destruct (lookup k eb) as [w|] eqn:L; try discriminate.
        apply lookup_In in L. exists w. split. apply In_sort; auto.
        pose proof (HE (k, v) (k, w) I L) as HH. cbn [snd] in HH. rewrite HH in H3. apply is_eq_true in H3. exact H3.
      + intros k w I. apply In_sort in I. specialize (H2 _ I). simpl in H2.
        apply has_key_In in H2. destruct H2 as [v H2]. exists v. apply In_sort; auto.
    - intros F. repeat split.
      + rewrite <- (length_sort t _ ea), <- (length_sort t _ eb). eapply Forall2_len; eauto.
      + intros [k v] I. simpl. apply (In_sort t) in I.
        destruct (Forall2_In_l _ _ _ _ F I) as ([k' w] & I' & K & _). simpl in K. subst.
        apply has_key_In. exists w. apply (In_sort t); auto.
      + intros [k w] I. simpl. apply (In_sort t) in I.
        destruct (Forall2_In_r _ _ _ _ F I) as ([k' v] & I' & K & _). simpl in K. subst.
        apply has_key_In. exists v. apply (In_sort t); auto.
      + intros [k v] I. simpl. pose proof I as I0. apply (In_sort t) in I.
        destruct (Forall2_In_l _ _ _ _ F I) as ([k' w] & I' & K & Rw). simpl in K, Rw. subst.
        apply (proj1 (In_sort t _ _ _)) in I'. rewrite (In_lookup _ _ _ _ Nb I').
        pose proof (HE (k', v) (k', w) I0 I') as HH. cbn [snd] in HH. rewrite HH. apply is_eq_true. exact Rw.
  Qed.
End DictEq.

(* ---- the link -------------------------------------------------------------------------------- *)
Lemma list_max_In x l : In x l -> x <= list_max l.
Proof. intros I. pose proof (proj1 (list_max_le l (list_max l)) (le_n _)) as F. rewrite Forall_forall in F. auto. Qed.
Lemma depth_In x l : In x l -> depth x <= list_max (map depth l).
Proof. intros I. apply list_max_In. apply in_map; auto. Qed.
Lemma depth_ent_In (p : key * pv) e : In p e -> depth (snd p) <= list_max (map (fun kv => depth (snd kv)) e).
Proof. intros I. apply list_max_In. apply (in_map (fun kv => depth (snd kv))) in I. exact I. Qed.

Definition lt_body (n : nat) (a b : pv) : result bool :=
  match a with
  | PBool _ | PInt _ | PFlt _ _ | PStr _ => native_lt a b
  | PList _ la =>
      match b with PList _ lb => list_lt (eq_f n) (lt_f t n) la lb | _ => Err EUnmodelled end
  | PDict _ ea =>
      match b with
      | PDict _ eb => ents_lt t (eq_f n) (lt_f t n) (sort_ents t ea) (sort_ents t eb)
      | _ => Err EUnmodelled
      end
  | PObj na ua ea =>
      match b with
      | PObj nb ub eb =>
          if str_eqb na nb then
            if N.eqb ua ub then ents_lt t (eq_f n) (lt_f t n) (sort_ents t ea) (sort_ents t eb)
            else Ok (N.ltb ua ub)
          else Err ERecursion
      | _ => Err ERecursion
      end
  | PNone | PMissing => Ok false
  | PTuple la => match b with PTuple lb => tuple_lt la lb | _ => Err ETypeError end
  end.
Lemma lt_f_S n a b :
  lt_f t (S n) a b =
  if negb (same_type a b) && negb (str_eqb (rank t a) (rank t b))
  then Ok (is_lt (str_cmp (rank t a) (rank t b))) else lt_body n a b.
Proof. reflexivity. Qed.

Lemma lt_f_same n a b : kcls a = kcls b -> lt_f t (S n) a b = lt_body n a b.
Proof.
  intros E. rewrite lt_f_S, !rank_crank, E, str_eqb_refl. simpl. rewrite andb_false_r. reflexivity.
Qed.
Lemma lt_f_diff n a b : rank t a <> rank t b ->
  lt_f t (S n) a b = Ok (is_lt (str_cmp (rank t a) (rank t b))).
Proof.
  intros NE. rewrite lt_f_S.
  destruct (same_type a b) eqn:S; [apply same_type_kcls in S; rewrite !rank_crank, S in NE; contradiction|].
  destruct (str_eqb (rank t a) (rank t b)) eqn:R; [|reflexivity].
  apply str_eqb_eq in R. contradiction.
Qed.
Lemma eq_f_diff n a b : kcls a <> kcls b -> eq_f (S n) a b = false.
Proof.
  destruct a, b; simpl; intros NE; try reflexivity; try congruence.
  destruct (str_eqb name name0) eqn:E; auto. destruct (N.eqb uid uid0) eqn:F; auto.
  apply str_eqb_eq in E. apply N.eqb_eq in F. congruence.
Qed.

Lemma cmp_ok_ents f (e : list (key * pv)) p : forallb (fun kv => cmp_ok t f (snd kv)) e = true -> In p e -> cmp_ok t f (snd p) = true.
Proof. intros H I. rewrite forallb_forall in H. apply (H p I). Qed.

Lemma link f n : forall a b, depth a < n -> cmp_ok t f a = true -> cmp_ok t f b = true ->
  eq_f n a b = is_eq (ncmp t (norm a) (norm b)) /\ lt_f t n a b = Ok (is_lt (ncmp t (norm a) (norm b))).
Proof.
  induction n as [|n IH]; intros a b D Ha Hb; [lia|].
  destruct (cls_eq_dec (kcls a) (kcls b)) as [EQ|NE].
  2:{ destruct (list_eq_dec N.eq_dec (rank t a) (rank t b)) as [RE|RN].
      - (* two classes of one __qualname__: ordered by uid *)
        rewrite !rank_crank in RE.
        destruct (crank_inj _ _ (cmp_ok_wf f a Ha) (cmp_ok_wf f b Hb) RE) as [C|(nm & u & u' & Ca & Cb)]; [contradiction|].
        destruct a; try discriminate Ca. destruct b; try discriminate Cb. cbn [kcls] in Ca, Cb, NE. inv Ca. inv Cb.
        assert (U : u <> u') by congruence.
        rewrite lt_f_S. cbn [same_type rank lt_body eq_f norm]. rewrite !norm_ents, ncmp_unfold. cbn [ncls shape nbody].
        rewrite str_eqb_refl. assert (UE : N.eqb u u' = false) by (apply N.eqb_neq; auto). rewrite UE. cbn [andb negb].
        unfold cls_cmp. cbn [crank cidx cuid]. rewrite str_cmp_refl, N.compare_refl. cbn [cthen].
        destruct (N.compare u u') eqn:C; cbn [cthen is_eq is_lt]; unfold N.ltb; rewrite C; auto.
        apply N.compare_eq in C. contradiction.
      - destruct (ncmp_diff a b RN) as [E1 E2].
        rewrite eq_f_diff, lt_f_diff, E1 by auto. split; auto.
        destruct (str_cmp (rank t a) (rank t b)); simpl; congruence. }
  rewrite lt_f_same by auto.
  assert (ELEM : forall x y, depth x < n -> cmp_ok t f x = true -> cmp_ok t f y = true ->
            eq_f n x y = is_eq (ncmp t (norm x) (norm y)) /\ lt_f t n x y = Ok (is_lt (ncmp t (norm x) (norm y)))) by (intros; apply IH; auto).
  clear IH.
  destruct a; destruct b; try discriminate EQ; cbn [norm lt_body].
  (* MISSING, None *)
  1-2: rewrite ncmp_node; split; reflexivity.
  (* numbers: 9 combinations; str *)
  1-10: rewrite ?ncmp_num, ?ncmp_str; split; reflexivity.
  - (* list *)
    cbn [cmp_ok] in Ha, Hb. rewrite forallb_forall in Ha, Hb. cbn [depth] in D.
    rewrite ncmp_node. cbn [eq_f]. split.
    + apply list_eqb_spec. intros x y Ix Iy. apply ELEM; auto. pose proof (depth_In x l Ix). lia.
    + apply list_lt_spec. intros x y Ix Iy. apply ELEM; auto. pose proof (depth_In x l Ix). lia.
  - (* tuple *)
    cbn [cmp_ok] in Ha, Hb. cbn [depth] in D. rewrite ncmp_node. cbn [eq_f]. split.
    + apply list_eqb_spec. intros x y Ix Iy. rewrite forallb_forall in Ha, Hb.
      destruct (leaf_cmp_ok f x (Ha x Ix)) as [Cx Dx]. destruct (leaf_cmp_ok f y (Hb y Iy)) as [Cy _].
      apply ELEM; auto. lia.
    + apply (tuple_lt_spec f); auto.
  - (* dict *)
    cbn [cmp_ok] in Ha, Hb. apply andb_prop in Ha. apply andb_prop in Hb. destruct Ha as [Na Ha], Hb as [Nb Hb].
    cbn [depth] in D. rewrite !norm_ents, ncmp_node. cbn [eq_f]. split.
    + apply dict_eqb_spec; auto. intros p q Ip Iq. apply ELEM; eauto using cmp_ok_ents.
      pose proof (depth_ent_In p ents Ip). lia.
    + apply ents_lt_spec. intros p q Ip Iq. apply In_sort in Ip. apply In_sort in Iq.
      apply ELEM; eauto using cmp_ok_ents. pose proof (depth_ent_In p ents Ip). lia.
  - (* object *)
    inv EQ. cbn [cmp_ok] in Ha, Hb.
    repeat (apply andb_prop in Ha; destruct Ha as [Ha ?]). repeat (apply andb_prop in Hb; destruct Hb as [Hb ?]).
    cbn [depth] in D. rewrite !norm_ents, ncmp_node. cbn [eq_f]. rewrite str_eqb_refl, N.eqb_refl. cbn [andb]. split.
    + apply dict_eqb_spec; auto. intros p q Ip Iq. apply ELEM; eauto using cmp_ok_ents.
      pose proof (depth_ent_In p ents Ip). lia.
    + apply ents_lt_spec. intros p q Ip Iq. apply In_sort in Ip. apply In_sort in Iq.
      apply ELEM; eauto using cmp_ok_ents. pose proof (depth_ent_In p ents Ip). lia.
Qed.

(* ---- pg.eq / pg.lt in terms of the tree order ------------------------------------------------- *)
Definition nc (a b : pv) : comparison := ncmp t (norm a) (norm b).

Lemma eq_spec f a b : cmp_ok t f a = true -> cmp_ok t f b = true -> eq a b = is_eq (nc a b).
Proof. intros Ha Hb. unfold eq. apply (link f); auto. Qed.
Lemma lt_spec f a b : cmp_ok t f a = true -> cmp_ok t f b = true -> lt t a b = Ok (is_lt (nc a b)).
Proof. intros Ha Hb. unfold lt. apply (link f); auto. Qed.

Lemma nc_refl a : nc a a = Eq. Proof. apply ncmp_refl. Qed.
Lemma nc_antisym a b : nc b a = CompOpp (nc a b). Proof. apply ncmp_antisym. Qed.
Lemma nc_trans a b c : trans_ok (nc a b) (nc b c) (nc a c). Proof. apply ncmp_trans. Qed.
End WithTable.

(* SchedSound3.v — third, small layer: (a) a thread that has appended a trial and not yet recorded it as the latest of its
   group knows that the previous latest trial of the group is completed; (b) the trial a worker holds belongs to its group.
   Most steps are handled generically: every primitive mutation only extends the trial list (groups fixed, completion monotone). *)
From PG Require Import Common.Tactics Model.Sched Model.SchedDisc Proofs.SchedBase Proofs.SchedMutex Proofs.SchedSound Proofs.SchedSound2.

Definition T_ext (l l' : list trial) : Prop :=
  forall k y, nth_error l k = Some y -> exists y', nth_error l' k = Some y' /\ t_group y' = t_group y /\ (t_done y = true -> t_done y' = true).

Lemma T_ext_refl : forall l, T_ext l l.
Proof. red; intros. eauto. Qed.

Lemma T_ext_trans : forall a b d, T_ext a b -> T_ext b d -> T_ext a d.
Proof.
  red; intros a b d H1 H2 k y Hn. destruct (H1 _ _ Hn) as [y1 [A [B C]]]. destruct (H2 _ _ A) as [y2 [A2 [B2 C2]]].
  exists y2. repeat split; auto. congruence.
Qed.

Lemma apply_mut_ext : forall g m, T_ext (T g) (T (apply_mut 0 g m)).
Proof.
  intros g m. destruct m; try apply T_ext_refl.
  - (* append *) red; intros. exists y. repeat split; auto. change (T (apply_mut 0 g (MAppend x))) with (T g ++ [x]).
    rewrite nth_error_app1; auto. apply nth_error_Some. congruence.
  - (* trial *) red; intros j y Hn. change (T (apply_mut 0 g (MTrial i k))) with (upd_nth i (apply_tmut k) (T g)).
    rewrite nth_error_upd_nth, Hn. destruct (Nat.eqb i j); simpl; eexists; repeat split; eauto.
    + destruct k; reflexivity.
    + destruct k; simpl; auto.
Qed.

Lemma fold_mut_ext : forall ms g, T_ext (T g) (T (fold_left (apply_mut 0) ms g)).
Proof. induction ms; simpl; intros. apply T_ext_refl. eapply T_ext_trans. apply apply_mut_ext. apply IHms. Qed.

Definition is_latest (m : gmut) : bool := match m with MLatest _ _ => true | _ => false end.

Lemma fold_mut_lat : forall ms g, forallb (fun m => negb (is_latest m)) ms = true ->
  s_latest (St (fold_left (apply_mut 0) ms g)) = s_latest (St g).
Proof.
  induction ms; simpl; intros; auto. apply andb_true_iff in H. destruct H. rewrite IHms; auto. destruct a; try reflexivity. discriminate.
Qed.

Ltac bool_hyps3 :=
  repeat match goal with
  | H : _ && _ = true |- _ => apply andb_true_iff in H; destruct H
  | H : negb _ = true |- _ => apply negb_true_iff in H
  end.

Section Sound3.
Variable ps : progs.
Variable c : cfg.
Hypothesis HD : disciplined ps = true.

Record GI3 (g : gstate) (ts : list tstate) : Prop := {
  g3_latdone : forall t th j, nth_error ts t = Some th -> g_lat (gh th) = Some j ->
               match lat g (r_group th) with Some k => exists y, nth_error (T g) k = Some y /\ t_done y = true | None => True end;
  g3_curgroup : forall t th i, nth_error ts t = Some th -> r_cur th = Some i -> exists x, nth_error (T g) i = Some x /\ t_group x = r_group th
}.

(* the generic step: the trial list is only extended, `latest` is untouched, and the stepping thread keeps g_lat, group, r_cur *)
Lemma GI3_generic : forall g g' ts t th th', T_ext (T g) (T g') -> s_latest (St g') = s_latest (St g) ->
  nth_error ts t = Some th -> g_lat (gh th') = g_lat (gh th) -> r_group th' = r_group th -> r_cur th' = r_cur th ->
  GI3 g ts -> GI3 g' (set_th ts t th').
Proof.
  intros g g' ts t th th' Hext Hlat Ht E1 E2 E3 [R1 R2].
  assert (Hold : forall t0 th0, nth_error (set_th ts t th') t0 = Some th0 ->
            exists th1, nth_error ts t0 = Some th1 /\ g_lat (gh th0) = g_lat (gh th1) /\ r_group th0 = r_group th1 /\ r_cur th0 = r_cur th1).
  { intros t0 th0 Hn. destruct (nth_set_cases2 _ _ _ _ _ _ Ht Hn) as [[? ?]|[? ?]]; subst; eauto 6. }
  constructor.
  - intros t0 th0 j Hn Hl. destruct (Hold _ _ Hn) as [th1 [A [B [C1 D]]]]. rewrite B in Hl. specialize (R1 _ _ _ A Hl).
    unfold lat in *. rewrite Hlat, C1. destruct (alookup (s_latest (St g)) (r_group th1)); auto.
    destruct R1 as [y [Y1 Y2]]. destruct (Hext _ _ Y1) as [y' [Z1 [Z2 Z3]]]. eauto.
  - intros t0 th0 i Hn Hc. destruct (Hold _ _ Hn) as [th1 [A [B [C1 D]]]]. rewrite D in Hc. destruct (R2 _ _ _ A Hc) as [x [X1 X2]].
    destruct (Hext _ _ X1) as [x' [Z1 [Z2 Z3]]]. exists x'. split; auto. congruence.
Qed.

Lemma muts_nolatest : forall me e g th, match e with ESetLatest => True | _ => forallb (fun m => negb (is_latest m)) (muts c me e g th) = true end.
Proof. destruct e; simpl; intros; auto; repeat destr_match; reflexivity. Qed.

Lemma regs_g3 : forall me e g th,
  match e with
  | EAppend | ESetLatest | ESetCur => True
  | _ => g_lat (gh (regs c me e g th)) = g_lat (gh th) /\ r_group (regs c me e g th) = r_group th /\ r_cur (regs c me e g th) = r_cur th
  end.
Proof. destruct e; simpl; intros; auto; repeat destr_match; auto. Qed.

Lemma regs_group : forall me e g th, r_group (regs c me e g th) = r_group th.
Proof. destruct e; simpl; intros; auto; repeat destr_match; auto. Qed.

Lemma note_full_T : forall cn b g th, r_study th = 0 -> T (note_full cn b g th) = T g /\ s_latest (St (note_full cn b g th)) = s_latest (St g).
Proof. intros. destruct cn, b; simpl; rewrite ?H; split; reflexivity. Qed.

Lemma to_script_g3 : forall au ra th, g_lat (gh (to_script au ra th)) = g_lat (gh th) /\ r_group (to_script au ra th) = r_group th /\ r_cur (to_script au ra th) = r_cur th.
Proof. intros. unfold to_script. destruct (next_call _ _ _) as [[u r]|]; repeat split; reflexivity. Qed.

Ltac g3_same g0 Ht HG3 := eapply (GI3_generic g0); [apply T_ext_refl | reflexivity | exact Ht | try reflexivity | try reflexivity | try reflexivity | exact HG3].

Theorem GI3_step : forall g ts t g' ts', Inv ps c g ts -> Inv2 ps g ts -> GI3 g ts -> step1 ps c g ts t = Some (g', ts') -> GI3 g' ts'.
Proof.
  intros g ts t g' ts' HI HI2 HG3 Hstep.
  destruct (step1_inv _ _ _ _ _ _ _ Hstep) as [th [p [i [Ht [Hpc Hcase]]]]].
  destruct (inv_th _ _ _ _ HI _ _ Ht) as [a [Hcur Hs]]. unfold cur_a in Hcur. rewrite Hpc in Hcur.
  destruct (i2_th _ _ _ HI2 _ _ Ht) as [a2 [Hcur2 Hs2]]. unfold cur_a in Hcur2. rewrite Hpc, Hcur in Hcur2. inv Hcur2.
  pose proof (s_study _ _ _ _ Hs) as Hst0.
  destruct Hcase as [[Hf [Hg Hts]] | [gate [x [th' [Hf [Hact Hts]]]]]].
  - subst g' ts'. destruct (to_script_g3 (auto_reward c g p th) false th) as [E1 [E2 E3]]. eapply (GI3_generic g); [apply T_ext_refl | reflexivity | exact Ht | exact E1 | exact E2 | exact E3 | exact HG3].
  - subst ts'. rewrite (fetch_nth ps) in Hf. destruct (check_succ ps HD _ _ _ _ _ _ Hcur Hf) as [Hreq _].
    destruct x; simpl in Hact.
    + destruct (locks g (phys l g th)); try discriminate. (injection Hact as Eg' Eth'; subst g' th'). g3_same g Ht HG3.
    + destruct (held th) as [|[l0 k] h]; (injection Hact as Eg' Eth'; subst g' th'); g3_same g Ht HG3.
    + (* Stmt *)
      unfold sem in Hact. rewrite Hst0 in Hact. (injection Hact as Eg' Eth'; subst g' th').
      destruct (req_stmt _ _ _ _ _ Hreq) as [_ [_ [Hre _]]].
      pose proof (muts_nolatest t e g th) as Hnl. pose proof (regs_g3 t e g th) as Hrg.
      destruct e; try (destruct Hrg as [E1 [E2 E3]]; eapply (GI3_generic g); [apply fold_mut_ext | apply fold_mut_lat; auto | exact Ht | exact E1 | exact E2 | exact E3 | exact HG3]).
      * (* EAppend *)
        simpl in Hre. bool_hyps3. simpl muts. simpl regs. rewrite Hst0. unfold study_of. fold (T g).
        match goal with Hld : f_latdone a2 = true |- _ => destruct (s2_latdone _ _ _ _ Hs2 Hld) as [_ Hdone] end.
        pose proof (s_dlat _ _ _ _ Hs) as Hgl. match goal with Hd : d_lat a2 = false |- _ => rewrite Hd in Hgl end.
        set (x := {| t_id := r_id th; t_group := r_group th; t_dna := r_dna th; t_done := false; t_inf := false; t_meas := []; t_final := None; t_fed := 0; t_owner := None |}).
        set (g1 := fold_left (apply_mut 0) [MAppend x] g).
        assert (Hext : T_ext (T g) (T g1)) by apply fold_mut_ext.
        assert (Hlat1 : forall gk, lat g1 gk = lat g gk) by reflexivity.
        destruct HG3 as [R1 R2]. constructor.
        -- intros t0 th0 j Hn Hl. rewrite Hlat1. destruct (nth_set_cases2 _ _ _ _ _ _ Ht Hn) as [[? ?]|[? ?]]; subst.
           ++ simpl. destruct (lat g (r_group th)); auto. destruct Hdone as [y [Y1 Y2]]. destruct (Hext _ _ Y1) as [y' [Z1 [Z2 Z3]]]. eauto.
           ++ match goal with Hn0 : nth_error ts t0 = Some th0 |- _ => specialize (R1 _ _ _ Hn0 Hl) end.
              destruct (lat g (r_group th0)); auto. destruct R1 as [y [Y1 Y2]]. destruct (Hext _ _ Y1) as [y' [Z1 [Z2 Z3]]]. eauto.
        -- intros t0 th0 j Hn Hc. destruct (nth_set_cases2 _ _ _ _ _ _ Ht Hn) as [[? ?]|[? ?]]; subst.
           ++ simpl in Hc. destruct (R2 _ _ _ Ht Hc) as [y [Y1 Y2]]. destruct (Hext _ _ Y1) as [y' [Z1 [Z2 Z3]]]. exists y'. split; auto. simpl. congruence.
           ++ match goal with Hn0 : nth_error ts t0 = Some th0 |- _ => destruct (R2 _ _ _ Hn0 Hc) as [y [Y1 Y2]] end.
              destruct (Hext _ _ Y1) as [y' [Z1 [Z2 Z3]]]. exists y'. split; auto. congruence.
      * (* ESetLatest *)
        simpl in Hre. bool_hyps3. simpl regs.
        set (g1 := fold_left (apply_mut 0) (muts c t ESetLatest g th) g).
        assert (Hext : T_ext (T g) (T g1)) by apply fold_mut_ext.
        assert (HT1 : T g1 = T g). { unfold g1. simpl. destruct (r_trial th); reflexivity. }
        destruct HG3 as [R1 R2]. constructor.
        -- intros t0 th0 j Hn Hl. destruct (nth_set_cases2 _ _ _ _ _ _ Ht Hn) as [[? ?]|[? ?]]; subst.
           ++ simpl in Hl. discriminate.
           ++ exfalso. match goal with Hn0 : nth_error ts t0 = Some th0, Hne : t0 <> t |- _ => apply Hne;
                destruct (g2_latlock _ _ (i2_gi _ _ _ HI2) _ _ _ Hn0 Hl) as [Hk _];
                eapply LockInv_mutex with (k := KStudy 0); eauto; [apply (inv_lock _ _ _ _ HI) | eapply sat_holds_study; eauto] end.
        -- intros t0 th0 j Hn Hc. rewrite HT1. destruct (nth_set_cases2 _ _ _ _ _ _ Ht Hn) as [[? ?]|[? ?]]; subst.
           ++ simpl in Hc. eapply (R2 t th); eauto.
           ++ eapply R2; eauto.
      * (* ESetCur *)
        simpl in Hre. bool_hyps3. simpl muts. simpl regs. simpl fold_left.
        match goal with Hm : f_mine a2 = true |- _ => pose proof (s2_mine _ _ _ _ Hs2 Hm) as Hmine end.
        destruct HG3 as [R1 R2]. constructor.
        -- intros t0 th0 j Hn Hl. destruct (nth_set_cases2 _ _ _ _ _ _ Ht Hn) as [[? ?]|[? ?]]; subst.
           ++ simpl in Hl. apply (R1 t th j Ht Hl).
           ++ eapply R1; eauto.
        -- intros t0 th0 j Hn Hc. destruct (nth_set_cases2 _ _ _ _ _ _ Ht Hn) as [[? ?]|[? ?]]; subst.
           ++ simpl in Hc. rewrite Hc in Hmine. auto.
           ++ eapply R2; eauto.
    + (* Branch *)
      (injection Hact as Eg' Eth'; subst g' th'). destruct (note_full_T c0 (evalc c c0 g th) g th Hst0) as [A B].
      eapply (GI3_generic g); [rewrite A; apply T_ext_refl | exact B | exact Ht | | | | exact HG3]; destruct c0, (evalc c _ g th); reflexivity.
    + (injection Hact as Eg' Eth'; subst g' th'). g3_same g Ht HG3.
    + assert (Hfin : g' = g -> th' = th_pc None th -> GI3 g' (set_th ts t th')) by (intros; subst; g3_same g Ht HG3).
      assert (Hscr : g' = g -> th' = to_script None true th -> GI3 g' (set_th ts t th')).
      { intros; subst. destruct (to_script_g3 None true th) as [E1 [E2 E3]]. eapply (GI3_generic g); [apply T_ext_refl | reflexivity | exact Ht | exact E1 | exact E2 | exact E3 | exact HG3]. }
      destruct k; try destruct (Nat.eqb p P_init); injection Hact as Eg' Eth'; auto.
    + (injection Hact as Eg' Eth'; subst g' th'). destruct (to_script_g3 (auto_reward c g p th) false th) as [E1 [E2 E3]]. eapply (GI3_generic g); [apply T_ext_refl | reflexivity | exact Ht | exact E1 | exact E2 | exact E3 | exact HG3].
Qed.

End Sound3.

(* HyperConcrete.v — decoding the concrete DNA the library builds from a valid decision ([normalize], i.e. the DNA
   constructor's normal form) is decoding the decision: the re-rooting DNA(None, dna.children) of the child DNA of a
   conditional choice, the slot assignment of ObjectTemplate._decode and the distinct/sorted checks on raw values all
   agree with the structured decoder. *)
From Coq Require Import Sorted.
From PG Require Import Common.Tactics Model.Geno Proofs.GenoBasics Proofs.GenoValid Proofs.GenoNext Proofs.GenoConcrete
  Model.Hyper Model.HyperSpec Proofs.HyperBasics Proofs.HyperDecode Proofs.HyperIter.

Lemma slots_normalize : forall es sds, forallb wf_p es = true -> forallb2 (fun e x => valid_p e x) es sds = true ->
  slots (length es) (normalize (SSpace sds)) = Ok (map norm_p sds).
Proof.
  intros es sds Hwf Hv. pose proof (forallb2_length _ _ _ _ _ Hv) as Hl. apply forallb2_Forall2 in Hv.
  rewrite (shape_s es sds Hwf Hv). rewrite Hl.
  destruct sds as [|x [|y r]]; simpl; auto. rewrite map_length, Nat.eqb_refl. reflexivity.
Qed.

Section Conc.
  Variable cdec : nat -> str -> result tmpl.
  Variable w : tmpl -> bool.
  Notation sdec := (sdec cdec w).
  Notation cdec_ := (cdec_ cdec w).

  Definition ctop (cand : tmpl) (d : dna) : result tmpl :=
    match slots (length (pts w [] cand)) d with
    | Ok sl => match cdec_ cand sl with Ok (v, _) => Ok v | Err e => Err e end
    | Err e => Err e end.
  Definition cchoice (cands : list tmpl) (d : dna) : result tmpl :=
    match pick (dvalue d) (length cands) with
    | Err e => Err e
    | Ok c => with_nth (fun cand => ctop cand (mk VNone (dkids d))) (Err E_INDEX) cands c
    end.
  Definition cmany (k : nat) (cands : list tmpl) (dist srt : bool) (d : dna) : result (list tmpl) :=
    if k =? 1 then match cchoice cands d with Ok v => Ok [v] | Err e => Err e end
    else if negb (length (dkids d) =? k) then Err E_VALUE
    else
      let vals := map dvalue (dkids d) in
      if dist && negb (dvals_distinct vals) then Err E_VALUE
      else match (if srt then dvals_sorted vals else Some true) with
           | None => Err E_TYPE
           | Some false => Err E_VALUE
           | Some true => map_res (cchoice cands) (dkids d)
           end.

  Lemma cdecode_ctop : forall t d, cdecode cdec w t d = ctop t d.
  Proof. reflexivity. Qed.
  Lemma cdec_dict : forall kvs ds, cdec_ (TDict kvs) ds =
    match trav_kvs cdec_ kvs ds with Ok (kvs', r) => Ok (TDict kvs', r) | Err e => Err e end.
  Proof. reflexivity. Qed.
  Lemma cdec_obj : forall c kvs ds, cdec_ (TObj c kvs) ds =
    match trav_kvs cdec_ kvs ds with Ok (kvs', r) => Ok (TObj c kvs', r) | Err e => Err e end.
  Proof. reflexivity. Qed.
  Lemma cdec_list : forall ts ds, cdec_ (TList ts) ds =
    match trav_list cdec_ ts ds with Ok (ts', r) => Ok (TList ts', r) | Err e => Err e end.
  Proof. reflexivity. Qed.
  Lemma cdec_oneof : forall cands a ds, cdec_ (TOneOf cands a) ds =
    if w (TOneOf cands a) then
      match ds with
      | d :: r => match cmany 1 cands true false d with
                  | Ok (v :: _) => Ok (v, r) | Ok [] => Err E_INDEX | Err e => Err e end
      | [] => Err E_VALUE end
    else match trav_list cdec_ cands ds with Ok (cands', r) => Ok (TOneOf cands' a, r) | Err e => Err e end.
  Proof. reflexivity. Qed.
  Lemma cdec_manyof : forall k cands dist srt a ds, cdec_ (TManyOf k cands dist srt a) ds =
    if w (TManyOf k cands dist srt a) then
      match ds with
      | d :: r => match cmany k cands dist srt d with Ok vs => Ok (TList vs, r) | Err e => Err e end
      | [] => Err E_VALUE end
    else match trav_list cdec_ cands ds with Ok (cands', r) => Ok (TManyOf k cands' dist srt a, r) | Err e => Err e end.
  Proof. reflexivity. Qed.

  Definition bridge (t : tmpl) : Prop := hwf t = true -> forall p ds1 rsd,
    forallb2 valid_p (pts w p t) ds1 = true ->
    match sdec t (ds1 ++ rsd) with
    | Ok (v, r) => r = rsd /\ cdec_ t (map norm_p (ds1 ++ rsd)) = Ok (v, map norm_p rsd)
    | Err e => cdec_ t (map norm_p (ds1 ++ rsd)) = Err e
    end.

  Lemma bridge_list : forall ts, Forall bridge ts -> forallb hwf ts = true -> forall (pf : nat -> list ikey) n ds1 rsd,
    forallb2 valid_p (flat_mapi (fun i x => pts w (pf i) x) n ts) ds1 = true ->
    match trav_list sdec ts (ds1 ++ rsd) with
    | Ok (vs, r) => r = rsd /\ trav_list cdec_ ts (map norm_p (ds1 ++ rsd)) = Ok (vs, map norm_p rsd)
    | Err e => trav_list cdec_ ts (map norm_p (ds1 ++ rsd)) = Err e
    end.
  Proof.
    induction 1 as [|x ts Hx _ IH]; intros Hh pf n ds1 rsd Hv.
    - destruct ds1; [|discriminate Hv]. simpl. auto.
    - simpl in Hh. apply andb_true_iff in Hh as [Hh1 Hh2].
      rewrite flat_mapi_cons in Hv. apply forallb2_app_l in Hv as (d1 & d2 & -> & H1 & H2).
      rewrite <- app_assoc. rewrite !trav_list_cons.
      specialize (Hx Hh1 (pf n) d1 (d2 ++ rsd) H1).
      destruct (sdec x (d1 ++ d2 ++ rsd)) as [[v r]|e]; [|rewrite Hx; auto].
      destruct Hx as (-> & ->).
      specialize (IH Hh2 pf (S n) d2 rsd H2).
      destruct (trav_list sdec ts (d2 ++ rsd)) as [[vs r]|e]; [|rewrite IH; auto].
      destruct IH as (-> & ->). auto.
  Qed.

  Lemma bridge_kvs : forall kvs, Forall (fun kv => bridge (snd kv)) kvs -> forallb (fun kv => hwf (snd kv)) kvs = true ->
    forall (pf : str -> list ikey) ds1 rsd,
    forallb2 valid_p (flat_map (fun kv => pts w (pf (fst kv)) (snd kv)) kvs) ds1 = true ->
    match trav_kvs sdec kvs (ds1 ++ rsd) with
    | Ok (vs, r) => r = rsd /\ trav_kvs cdec_ kvs (map norm_p (ds1 ++ rsd)) = Ok (vs, map norm_p rsd)
    | Err e => trav_kvs cdec_ kvs (map norm_p (ds1 ++ rsd)) = Err e
    end.
  Proof.
    induction 1 as [|[k x] kvs Hx _ IH]; intros Hh pf ds1 rsd Hv.
    - destruct ds1; [|discriminate Hv]. simpl. auto.
    - simpl in Hh. apply andb_true_iff in Hh as [Hh1 Hh2]. simpl in Hx.
      simpl in Hv. apply forallb2_app_l in Hv as (d1 & d2 & -> & H1 & H2).
      rewrite <- app_assoc. rewrite !trav_kvs_cons.
      specialize (Hx Hh1 (pf k) d1 (d2 ++ rsd) H1).
      destruct (sdec x (d1 ++ d2 ++ rsd)) as [[v r]|e]; [|rewrite Hx; auto].
      destruct Hx as (-> & ->).
      specialize (IH Hh2 pf d2 rsd H2).
      destruct (trav_kvs sdec kvs (d2 ++ rsd)) as [[vs r]|e]; [|rewrite IH; auto].
      destruct IH as (-> & ->). auto.
  Qed.

  Lemma pick_vint : forall c n, c < n -> pick (vint c) n = Ok c.
  Proof.
    intros. unfold pick, vint.
    replace (Z.of_nat n <=? Z.of_nat c)%Z with false by (symmetry; apply Z.leb_gt; lia).
    replace (0 <=? Z.of_nat c)%Z with true by (symmetry; apply Z.leb_le; lia).
    rewrite Nat2Z.id. reflexivity.
  Qed.

  (* one choice: the node D(c, children) against the decision (c, sub) *)
  Lemma bridge_choice : forall cands, Forall bridge cands -> forallb hwf cands = true -> forall cs,
    with_nth (fun s => valid s (snd cs)) false (map (fun c => Space (pts w [] c)) cands) (fst cs) = true ->
    cchoice cands (D (vint (fst cs)) (unwrap (normalize (snd cs)))) = choice_of cdec w cands cs.
  Proof.
    intros cands HB Hh [c [sds]] Hv. cbn [fst snd] in *. unfold cchoice, choice_of. cbn [dvalue dkids fst snd].
    rewrite with_nth_map, with_nth_nth_error in Hv.
    destruct (nth_error cands c) as [cand|] eqn:En; try discriminate.
    assert (Hlt : c < length cands) by (apply nth_error_Some; congruence).
    rewrite (pick_vint _ _ Hlt). rewrite !with_nth_nth_error, En.
    assert (Hhc : hwf cand = true) by (rewrite forallb_forall in Hh; apply Hh; eapply nth_error_In; eauto).
    pose proof (pts_wf w cand Hhc []) as Hwf.
    rewrite mk_none_unwrap by (apply (normalize_ntop (Space (pts w [] cand))); auto).
    simpl in Hv. unfold ctop. rewrite (slots_normalize _ _ Hwf Hv).
    pose proof (nth_error_Forall _ _ _ _ _ HB En Hhc [] sds [] Hv) as G. rewrite app_nil_r in G.
    destruct (sdec cand sds) as [[v r]|e]; simpl.
    - destruct G as (-> & ->). reflexivity.
    - rewrite G. reflexivity.
  Qed.

  Lemma bridge_choices : forall cands, Forall bridge cands -> forallb hwf cands = true -> forall cs,
    forallb (fun cs0 => with_nth (fun s => valid s (snd cs0)) false (map (fun c => Space (pts w [] c)) cands) (fst cs0)) cs = true ->
    map_res (cchoice cands) (map (fun cs0 => D (vint (fst cs0)) (unwrap (normalize (snd cs0)))) cs) = map_res (choice_of cdec w cands) cs.
  Proof.
    intros cands HB Hh. induction cs as [|c cs IH]; intros Hv; [reflexivity|].
    simpl in Hv. apply andb_true_iff in Hv as [H1 H2]. simpl map. rewrite !map_res_cons.
    rewrite (bridge_choice cands HB Hh c H1), (IH H2). reflexivity.
  Qed.

  Lemma norm_single : forall c sub, norm_p (PChoices [(c, sub)]) = D (vint c) (unwrap (normalize sub)).
  Proof.
    intros. change (norm_p (PChoices [(c, sub)])) with (mk VNone [mk (VInt (Z.of_nat c)) [normalize sub]]).
    rewrite mk_none_single by apply mk_int_ntop. apply node_eq.
  Qed.
  Lemma norm_multi : forall cs, 2 <= length cs ->
    norm_p (PChoices cs) = D VNone (map (fun cs0 => D (vint (fst cs0)) (unwrap (normalize (snd cs0)))) cs).
  Proof.
    intros cs Hl.
    change (norm_p (PChoices cs)) with (mk VNone (map (fun cs0 => mk (VInt (Z.of_nat (fst cs0))) [normalize (snd cs0)]) cs)).
    rewrite mk_none_many by (rewrite map_length; auto). reflexivity.
  Qed.

  Lemma cmany_single : forall cands cs, Forall bridge cands -> forallb hwf cands = true ->
    with_nth (fun s => valid s (snd cs)) false (map (fun c => Space (pts w [] c)) cands) (fst cs) = true ->
    forall dist srt, cmany 1 cands dist srt (norm_p (PChoices [cs])) =
                     match choice_of cdec w cands cs with Ok v => Ok [v] | Err e => Err e end.
  Proof.
    intros cands [c sub] HB Hh Hv dist srt. rewrite norm_single. unfold cmany. simpl (1 =? 1).
    pose proof (bridge_choice cands HB Hh (c, sub) Hv) as E. cbn [fst snd] in E. rewrite E. reflexivity.
  Qed.

  Lemma cmany_multi : forall cands, Forall bridge cands -> forallb hwf cands = true -> forall k dist srt cs,
    2 <= k -> length cs = k -> constraint_ok dist srt (map fst cs) = true ->
    forallb (fun cs0 => with_nth (fun s => valid s (snd cs0)) false (map (fun c => Space (pts w [] c)) cands) (fst cs0)) cs = true ->
    cmany k cands dist srt (norm_p (PChoices cs)) = map_res (choice_of cdec w cands) cs.
  Proof.
    intros cands HB Hh k dist srt cs Hk Hl Hc Hv. rewrite norm_multi by lia. unfold cmany.
    replace (k =? 1) with false by (symmetry; apply Nat.eqb_neq; lia).
    cbn [dkids]. rewrite map_length, Hl, Nat.eqb_refl. cbn [negb].
    rewrite map_map. cbn [dvalue]. rewrite <- (map_map fst vint).
    apply constraint_ok_spec in Hc as [Hd Hs].
    replace (dist && negb (dvals_distinct (map vint (map fst cs)))) with false.
    2:{ destruct dist; auto. rewrite dvals_distinct_vint; auto. }
    replace (if srt then dvals_sorted (map vint (map fst cs)) else Some true) with (Some true).
    2:{ destruct srt; auto. rewrite dvals_sorted_vint; auto. }
    apply bridge_choices; auto.
  Qed.

  Lemma dec_bridge : forall t, bridge t.
  Proof.
    induction t using tmpl_ind'; intros Hh p ds1 rsd Hv.
    - (* leaf *) destruct ds1; [|discriminate Hv]. simpl. auto.
    - (* dict *) simpl in Hh, Hv. rewrite sdec_dict, cdec_dict.
      pose proof (bridge_kvs kvs H Hh (fun k => p ++ [KName k]) ds1 rsd Hv) as G.
      destruct (trav_kvs sdec kvs (ds1 ++ rsd)) as [[vs r]|e]; [|rewrite G; auto]. destruct G as (-> & ->). auto.
    - (* object *) simpl in Hh, Hv. rewrite sdec_obj, cdec_obj.
      pose proof (bridge_kvs kvs H Hh (fun k => p ++ [KName k]) ds1 rsd Hv) as G.
      destruct (trav_kvs sdec kvs (ds1 ++ rsd)) as [[vs r]|e]; [|rewrite G; auto]. destruct G as (-> & ->). auto.
    - (* list *) simpl in Hh, Hv. rewrite sdec_list, cdec_list.
      pose proof (bridge_list ts H Hh (fun i => p ++ [KIdx i]) 0 ds1 rsd Hv) as G.
      destruct (trav_list sdec ts (ds1 ++ rsd)) as [[vs r]|e]; [|rewrite G; auto]. destruct G as (-> & ->). auto.
    - (* oneof *) simpl in Hh. apply andb_true_iff in Hh as [Hn Hh]. simpl in Hv. rewrite sdec_oneof, cdec_oneof.
      destruct (w (TOneOf cands a)) eqn:W.
      + destruct ds1 as [|x ds1]; simpl in Hv; try discriminate.
        apply andb_true_iff in Hv as [Hx Hnil]. destruct ds1; [|discriminate Hnil].
        destruct x as [cs| |]; simpl in Hx; try discriminate.
        apply andb_true_iff in Hx as [Hx Hall]. apply andb_true_iff in Hx as [Hlen _].
        destruct cs as [|c [|c' cs]]; simpl in Hlen; try discriminate.
        simpl in Hall. rewrite andb_true_r in Hall.
        cbn [app map]. rewrite (cmany_single cands c H Hh Hall).
        destruct (choice_of cdec w cands c) as [v|e]; auto.
      + pose proof (bridge_list cands H Hh (fun i => p ++ [KName s_candidates; KIdx i]) 0 ds1 rsd Hv) as G.
        destruct (trav_list sdec cands (ds1 ++ rsd)) as [[vs r]|e]; [|rewrite G; auto]. destruct G as (-> & ->). auto.
    - (* manyof *) simpl in Hh. apply andb_true_iff in Hh as [Hh0 Hh]. apply andb_true_iff in Hh0 as [Hh0 _].
      apply andb_true_iff in Hh0 as [Hk1 _]. assert (Hk1' : 1 <= k) by (destruct k; [discriminate Hk1 | lia]).
      simpl in Hv. rewrite sdec_manyof, cdec_manyof.
      destruct (w (TManyOf k cands d s a)) eqn:W.
      + destruct ds1 as [|x ds1]; simpl in Hv; try discriminate.
        apply andb_true_iff in Hv as [Hx Hnil]. destruct ds1; [|discriminate Hnil].
        destruct x as [cs| |]; simpl in Hx; try discriminate.
        apply andb_true_iff in Hx as [Hx Hall]. apply andb_true_iff in Hx as [Hlen Hc].
        cbn [app map]. rewrite Hlen, Hc. cbn [andb]. apply Nat.eqb_eq in Hlen.
        destruct (Nat.eq_dec k 1) as [->|Hk].
        * destruct cs as [|c [|c' cs]]; simpl in Hlen; try discriminate.
          simpl in Hall. rewrite andb_true_r in Hall.
          rewrite (cmany_single cands c H Hh Hall). rewrite map_res_cons. simpl (map_res _ []).
          destruct (choice_of cdec w cands c) as [v|e]; auto.
        * rewrite (cmany_multi cands H Hh k d s cs) by (auto; lia).
          destruct (map_res (choice_of cdec w cands) cs) as [vs|e]; auto.
      + pose proof (bridge_list cands H Hh (fun i => p ++ [KName s_candidates; KIdx i]) 0 ds1 rsd Hv) as G.
        destruct (trav_list sdec cands (ds1 ++ rsd)) as [[vs r]|e]; [|rewrite G; auto]. destruct G as (-> & ->). auto.
    - (* float *) simpl in Hv. simpl. destruct (w (TFloat lo hi a)) eqn:W.
      + destruct ds1 as [|x ds1]; simpl in Hv; try discriminate.
        apply andb_true_iff in Hv as [Hx Hnil]. destruct ds1; [|discriminate Hnil].
        destruct x as [cs|f|]; simpl in Hx; try discriminate. simpl. rewrite Hx. auto.
      + destruct ds1; [|discriminate Hv]. simpl. auto.
    - (* custom *) simpl in Hv. simpl. destruct (w (TCustom ck a)) eqn:W.
      + destruct ds1 as [|x ds1]; simpl in Hv; try discriminate.
        apply andb_true_iff in Hv as [Hx Hnil]. destruct ds1; [|discriminate Hnil].
        destruct x as [cs|f|s]; simpl in Hx; try discriminate. simpl.
        destruct (cdec ck s) as [v|e]; auto.
      + destruct ds1; [|discriminate Hv]. simpl. auto.
  Qed.

  (* decoding the DNA the library builds from a valid decision = decoding the decision *)
  Theorem cdecode_normalize : forall t d, hwf t = true -> valid (dna_spec w t) d = true ->
    cdecode cdec w t (normalize d) = sdecode cdec w t d.
  Proof.
    intros t [ds] Hh Hv. simpl in Hv. rewrite cdecode_ctop. unfold ctop, sdecode.
    rewrite (slots_normalize _ _ (pts_wf w t Hh []) Hv).
    pose proof (dec_bridge t Hh [] ds [] Hv) as G. rewrite app_nil_r in G.
    destruct (sdec t ds) as [[v r]|e]; simpl.
    - destruct G as (-> & ->). reflexivity.
    - rewrite G. reflexivity.
  Qed.
End Conc.

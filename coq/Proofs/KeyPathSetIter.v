(* KeyPathSetIter.v — iteration lists exactly the members, once each; bool() is non-emptiness. *)
From PG Require Import Common.Tactics Model.KeyPath Proofs.KeyPathArith Proofs.KeyPathSetBase.

Definition paths_entry (prefix : list key) (mv : mkey * tnode) : list (list key) :=
  match fst mv with
  | MTerm => [prefix]
  | MK k => paths_node (snd mv) (prefix ++ [k])
  end.

Lemma paths_node_dict : forall kids prefix, paths_node (TDict kids) prefix = flat_map (paths_entry prefix) kids.
Proof.
  intros kids prefix. cbn [paths_node].
  induction kids as [| [m v] r IH]; [reflexivity |].
  cbn [flat_map]. rewrite <- IH. destruct m; reflexivity.
Qed.

Lemma key_in_keys : forall m v (l : trie), In (m, v) l -> In m (keys_of l).
Proof. intros. change m with (fst (m, v)). apply in_map. assumption. Qed.

Definition iter_P (q : quirks) (n : tnode) : Prop :=
  forall kids, n = TDict kids -> wf q n -> forall prefix p,
  In p (paths_node n prefix) <-> exists s, p = prefix ++ s /\ cleanp q s /\ memb q s n = true.

Lemma iter_spec_all : forall q n, iter_P q n.
Proof.
  intros q. apply tnode_ind'; unfold iter_P.
  - intros kids H. discriminate.
  - intros kids0 IH kids Hk Hw prefix p. inv Hk.
    pose proof (proj1 (wf_dict _ _) Hw) as [Hnd Hent].
    rewrite Forall_forall in IH, Hent.
    rewrite paths_node_dict, in_flat_map. split.
    + intros ([m v] & Hin & Hp). unfold paths_entry in Hp. cbn [fst snd] in Hp.
      destruct m as [| k].
      * destruct Hp as [Hp | []]. subst. exists []. rewrite app_nil_r. split; [reflexivity |]. split; [constructor |].
        cbn [memb]. unfold ahas. rewrite (in_aget _ _ _ Hnd Hin). reflexivity.
      * pose proof (Hent _ Hin) as (Hc & Hne & Hvw). cbn [fst snd] in *.
        destruct v as [| vk]; [contradiction |].
        apply (IH _ Hin vk eq_refl Hvw) in Hp as (s & -> & Hcs & Hm).
        exists (k :: s). rewrite <- app_assoc. split; [reflexivity |]. split; [constructor; assumption |].
        cbn [memb]. rewrite Hc, (in_aget _ _ _ Hnd Hin). exact Hm.
    + intros (s & -> & Hcs & Hm). destruct s as [| k s'].
      * cbn [memb] in Hm. unfold ahas in Hm. destruct (aget MTerm kids) eqn:E; [| discriminate].
        exists (MTerm, t). split; [apply aget_in; assumption |]. left. rewrite app_nil_r. reflexivity.
      * inv Hcs. cbn [memb] in Hm. rewrite H1 in Hm. destruct (aget (MK k) kids) eqn:E; [| discriminate].
        destruct (wf_child _ _ _ _ Hw E) as (vk & -> & _ & Hvw).
        exists (MK k, TDict vk). split; [apply aget_in; assumption |].
        unfold paths_entry. cbn [fst snd]. apply (IH _ (aget_in _ _ _ E) vk eq_refl Hvw).
        exists s'. rewrite <- app_assoc. auto.
Qed.

(* list(s) holds exactly the members *)
Theorem paths_spec : forall q t p, wf q (TDict t) ->
  In p (paths t) <-> cleanp q p /\ memb q p (TDict t) = true.
Proof.
  intros q t p Hw. unfold paths. rewrite (iter_spec_all q (TDict t) t eq_refl Hw [] p). split.
  - intros (s & -> & H). exact H.
  - intros H. exists p. auto.
Qed.

(* ---- no path is listed twice ----------------------------------------------------------------------------------------- *)
Lemma NoDup_app_intro : forall (A : Type) (l1 l2 : list A),
  NoDup l1 -> NoDup l2 -> (forall x, In x l1 -> In x l2 -> False) -> NoDup (l1 ++ l2).
Proof.
  induction l1 as [| a l1 IH]; intros l2 H1 H2 H; simpl; auto.
  inv H1. constructor.
  - rewrite in_app_iff. intros [F | F]; [auto | eapply H; simpl; eauto].
  - apply IH; auto. intros x Hx; apply H; simpl; auto.
Qed.

Lemma NoDup_flat_map : forall (A B : Type) (f : A -> list B) (l : list A),
  NoDup l -> (forall a, In a l -> NoDup (f a)) ->
  (forall a b x, In a l -> In b l -> In x (f a) -> In x (f b) -> a = b) ->
  NoDup (flat_map f l).
Proof.
  induction l as [| a l IH]; intros Hn H1 H2; simpl; [constructor |].
  inv Hn. apply NoDup_app_intro.
  - apply H1. simpl; auto.
  - apply IH; auto.
    + intros; apply H1; simpl; auto.
    + intros a0 b x Ha Hb; apply H2; simpl; auto.
  - intros x Hx Hy. apply in_flat_map in Hy as (b & Hb & Hxb).
    assert (a = b) by (eapply H2; simpl; eauto). subst. contradiction.
Qed.

Lemma nodup_entries : forall (l : trie), NoDup (keys_of l) -> NoDup l.
Proof.
  induction l as [| [m v] r IH]; intros H; [constructor |].
  inv H. constructor; auto. intros F. apply H2. eapply key_in_keys; eauto.
Qed.

Definition nodup_P (q : quirks) (n : tnode) : Prop :=
  forall kids, n = TDict kids -> wf q n -> forall prefix, NoDup (paths_node n prefix).

Lemma nodup_all : forall q n, nodup_P q n.
Proof.
  intros q. apply tnode_ind'; unfold nodup_P.
  - intros kids H. discriminate.
  - intros kids0 IH kids Hk Hw prefix. inv Hk.
    pose proof (proj1 (wf_dict _ _) Hw) as [Hnd Hent].
    rewrite Forall_forall in IH, Hent.
    rewrite paths_node_dict. apply NoDup_flat_map.
    + apply nodup_entries. assumption.
    + intros [m v] Hin. unfold paths_entry. cbn [fst snd]. destruct m as [| k].
      * repeat constructor. simpl. tauto.
      * pose proof (Hent _ Hin) as (_ & Hne & Hvw). cbn [fst snd] in *.
        destruct v as [| vk]; [contradiction |]. apply (IH _ Hin vk eq_refl Hvw).
    + intros [m v] [m' v'] x Hin Hin' Hx Hx'.
      assert (m = m') as Hm.
      { unfold paths_entry in Hx, Hx'. cbn [fst snd] in *.
        assert (forall k w, In (MK k, w) kids -> In x (paths_node w (prefix ++ [k])) -> exists s, x = prefix ++ k :: s) as Hshape.
        { intros k w Hw0 Hxw. pose proof (Hent _ Hw0) as (_ & Hne & Hvw). cbn [fst snd] in *.
          destruct w as [| wk]; [contradiction |].
          apply (iter_spec_all q (TDict wk) wk eq_refl Hvw) in Hxw as (s & -> & _). exists s. rewrite <- app_assoc. reflexivity. }
        destruct m as [| k]; destruct m' as [| k']; auto.
        - destruct Hx as [Hx | []]. subst x. destruct (Hshape _ _ Hin' Hx') as (s & Hs).
          exfalso. apply (f_equal (@length key)) in Hs. rewrite app_length in Hs. simpl in Hs. lia.
        - destruct Hx' as [Hx' | []]. subst x. destruct (Hshape _ _ Hin Hx) as (s & Hs).
          exfalso. apply (f_equal (@length key)) in Hs. rewrite app_length in Hs. simpl in Hs. lia.
        - destruct (Hshape _ _ Hin Hx) as (s & Hs). destruct (Hshape _ _ Hin' Hx') as (s' & Hs').
          rewrite Hs in Hs'. apply app_inv_head in Hs'. congruence. }
      subst m'. f_equal. pose proof (in_aget _ _ _ Hnd Hin). pose proof (in_aget _ _ _ Hnd Hin'). congruence.
Qed.

Theorem paths_nodup : forall q t, wf q (TDict t) -> NoDup (paths t).
Proof. intros q t Hw. exact (nodup_all q (TDict t) t eq_refl Hw []). Qed.

(* ---- bool(s) ----------------------------------------------------------------------------------------------------------- *)
Definition inhab_P (q : quirks) (n : tnode) : Prop :=
  forall kids, n = TDict kids -> wf q n -> kids <> [] -> forall prefix, exists p, In p (paths_node n prefix).

Lemma inhab_all : forall q n, inhab_P q n.
Proof.
  intros q. apply tnode_ind'; unfold inhab_P.
  - intros kids H. discriminate.
  - intros kids0 IH kids Hk Hw Hne prefix. inv Hk.
    pose proof (proj1 (wf_dict _ _) Hw) as [Hnd Hent].
    destruct kids as [| [m v] r]; [congruence |]. inv IH. inv Hent.
    rewrite paths_node_dict. cbn [flat_map]. unfold paths_entry at 1. cbn [fst snd].
    destruct m as [| k].
    + exists prefix. simpl. auto.
    + destruct H3 as (_ & Hvne & Hvw). cbn [fst snd] in *. destruct v as [| vk]; [contradiction |].
      destruct (H1 vk eq_refl Hvw ltac:(destruct vk; [contradiction | discriminate]) (prefix ++ [k])) as (p & Hp).
      exists p. apply in_or_app. auto.
Qed.

Theorem bool_spec : forall q t, wf q (TDict t) ->
  (is_nil t = false <-> exists p, cleanp q p /\ memb q p (TDict t) = true).
Proof.
  intros q t Hw. split.
  - intros H. destruct t as [| x r]; [discriminate |].
    destruct (inhab_all q (TDict (x :: r)) (x :: r) eq_refl Hw ltac:(discriminate) []) as (p & Hp).
    exists p. apply (paths_spec q (x :: r) p Hw). exact Hp.
  - intros (p & Hc & Hm). destruct t; [rewrite memb_empty in Hm; discriminate | reflexivity].
Qed.

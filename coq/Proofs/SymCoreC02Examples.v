(* SymCoreC02Examples.v -- the hypotheses of the C02 theorems are satisfiable: a constructed list / dict and a history
   over the whole API (append of a plain dict, reversed extended-slice assignment, pop, slice deletion, insert, sort, *=). *)
From Coq Require Import ZArith NArith List Bool Lia.
Import ListNotations.
From PG Require Import Common.Tactics Model.SymCoreDefs Model.SymCoreOps Model.SymCoreSpec Model.SymCoreC02
     Proofs.SymCoreBase Proofs.SymCoreWF Proofs.SymCoreWFOps Proofs.SymCoreClone Proofs.SymCoreIds Proofs.SymCoreC02Read
     Proofs.SymCoreC02Frame Proofs.SymCoreC02Prim Proofs.SymCoreC02List Proofs.SymCoreC02Dict Proofs.SymCoreC02Step
     Proofs.SymCoreC02Slice Proofs.SymCoreC02WF Proofs.SymCoreC02Or Proofs.SymCoreC02Rebind Proofs.SymCoreC02Nested Proofs.SymCoreC02Refs Proofs.SymCoreC02RefStep.
From PG Require Model.PyList Model.PyDict.
Local Open Scope Z_scope.

Definition sc0 : scope := mkScope [] [] [] [].
Definition ka : key := KS [97%N].
Definition kb : key := KS [98%N].
Definition ex_list_lit : lit :=
  LitNode KList default_flags false
    [(KI 0, LitLeaf (LInt 1)); (KI 1, LitNode KDict default_flags true [(ka, LitLeaf (LInt 2))]); (KI 2, LitLeaf (LStr [98%N]))].
Definition ex_dict_lit : lit :=
  LitNode KDict default_flags false [(ka, LitLeaf (LInt 1)); (kb, LitNode KList default_flags true [(KI 0, LitLeaf LNone)])].
Definition ex_state : state := init_forest [ex_list_lit; ex_dict_lit] empty_state.
Definition vi (z : Z) : value := VLit (LitLeaf (LInt z)).
Definition ex_list_history : list (scope * hop) :=
  [ (sc0, HB (LAppend (VLit (LitNode KDict default_flags true [(kb, LitLeaf (LBool true))]))));
    (sc0, HX (LSetSlice None None (Some (-1)) [vi 10; vi 11; vi 12; vi 13]));
    (sc0, HB (LPop None));
    (sc0, HX (LSetSlice (Some 3) (Some 1) None [vi 7; vi 8]));
    (sc0, HX (LDelSlice (Some 0) None (Some 2)));
    (sc0, HB (LInsert (-9) (vi 5)));
    (sc0, HB (LSort [2; 1; 0] false));
    (sc0, HB (LIMul 2));
    (mkScope [Some false] [Some true] [false] [], HB (LSet (-1) (vi 0))) ].
Definition ex_dict_history : list (scope * op value) :=
  [ (sc0, DSet false (KS [97%N; 46%N; 98%N]) (vi 3));
    (sc0, DUpdate [(ka, VLit (LitNode KList default_flags true [])); (KI 0, vi 4)]);
    (sc0, DPop kb None);
    (sc0, DSetDefault kb (vi 9));
    (sc0, DPopItem) ].

Example ex_state_WFI : WFI ex_state.
Proof. apply init_forest_WFI. apply empty_WFI. reflexivity. Qed.

Definition ex_list_items : list (key * node) :=
  [(KI 0, Leaf (LInt 1)); (KI 1, Node 2 KDict (Some 1%N) [KI 1] default_flags [(ka, Leaf (LInt 2))]); (KI 2, Leaf (LStr [98%N]))].
Definition ex_dict_items : list (key * node) :=
  [(ka, Leaf (LInt 1)); (kb, Node 4 KList (Some 3%N) [kb] default_flags [(KI 0, Leaf LNone)])].

Ltac hist_ok := repeat (split; [split; reflexivity|]; split; [reflexivity|]; eexists; split; [reflexivity|]); try exact I.

Example ex_list_hypotheses :
  at_is ex_state (0%nat, []) 1%N KList None default_flags ex_list_items /\ clean ex_list_items /\
  lhist2_ok default_flags (evals ex_list_items) ex_list_history.
Proof.
  split; [vm_compute; reflexivity|]. split.
  - repeat (constructor; [reflexivity|]). constructor.
  - unfold ex_list_history. cbn [lhist2_ok]. hist_ok.
Qed.
Example ex_dict_hypotheses :
  at_is ex_state (1%nat, []) 3%N KDict None default_flags ex_dict_items /\ clean ex_dict_items /\
  dhist_ok default_flags (eitems ex_dict_items) ex_dict_history.
Proof.
  split; [vm_compute; reflexivity|]. split.
  - repeat (constructor; [reflexivity|]). constructor.
  - unfold ex_dict_history. cbn [dhist_ok]. hist_ok.
Qed.
(* what the list history computes on the Python side *)
Example ex_list_result :
  lhist2_py (evals ex_list_items) ex_list_history =
  [PLeaf (LInt 7); PLeaf (LInt 12); PLeaf (LInt 5); PLeaf (LInt 7); PLeaf (LInt 12); PLeaf (LInt 0)].
Proof. vm_compute. reflexivity. Qed.

(* a container below a root: the dict stored at index 1 of the list *)
Definition ex_nested_pos : pos := (0%nat, [KI 1]).
Definition ex_nested_items : list (key * node) := [(ka, Leaf (LInt 2))].
Definition ex_nested_history : list (scope * op value) :=
  [ (sc0, DSet true kb (VLit (LitNode KList default_flags true [(KI 0, LitLeaf (LInt 1))])));
    (sc0, DUpdate [(ka, vi 5); (KI 3, vi 6)]);
    (sc0, DPop ka None) ].
Example ex_nested_hypotheses :
  at_is ex_state ex_nested_pos 2%N KDict (Some 1%N) default_flags ex_nested_items /\ clean ex_nested_items /\
  anc_clean ex_state ex_nested_pos /\ dhist_ok default_flags (eitems ex_nested_items) ex_nested_history.
Proof.
  split; [vm_compute; reflexivity|]. split; [repeat (constructor; [reflexivity|]); constructor|]. split.
  - red. unfold ex_nested_pos. simpl. intros pre suf i pa pt fl its E NE G.
    destruct pre as [|k pre].
    + vm_compute in G. inv G. repeat (constructor; [reflexivity|]). constructor.
    + destruct pre; destruct suf; simpl in E; try discriminate; congruence.
  - unfold ex_nested_history. cbn [dhist_ok]. hist_ok.
Qed.

(* repetition of a list that holds a container *)
Definition ex_mul_history : list (scope * hop) := [ (sc0, HB (LIMul 2)); (sc0, HB (LMul 3)); (sc0, HB (LPop (Some 4))) ].
Example ex_mul_hypotheses : lhist2_ok default_flags (evals ex_list_items) ex_mul_history.
Proof. unfold ex_mul_history. cbn [lhist2_ok]. hist_ok. Qed.

(* a plain dict as the other operand of | *)
Example ex_or_hypotheses : plain_xdop (DOr [(ka, RLeaf (LInt 5)); (KI 3, RLit (LitNode KList default_flags true []))]) /\
  xdop_of (DROr [(kb, RLeaf LNone)]) = Some (PyDict.PDROr [(kb, PLeaf LNone)]).
Proof. split; [split; [repeat constructor|]|reflexivity]. repeat constructor; simpl; intuition discriminate. Qed.

(* a rebind batch on a 12-element list: the entry at index 10 is applied before the insertion at index 2 *)
Definition ex_batch : list (list key * rvalue) := [([KI 2], RIns (RLeaf (LInt 100))); ([KI 10], RLeaf (LInt 101)); ([KI (-1)], RLeaf (LInt 102))].
Example ex_batch_hypotheses : Forall SymCoreC02Rebind.entry_ok ex_batch /\ ex_batch <> [].
Proof. split; [|discriminate]. repeat (constructor; [split; [eexists; reflexivity|reflexivity]|]). constructor. Qed.
Example ex_batch_result :
  SymCoreC02Rebind.py_lwrites (map (fun z => PLeaf (LInt z)) [0;1;2;3;4;5;6;7;8;9;10;11]) (map SymCoreC02Rebind.entry_w (sort_desc ex_batch)) =
  (map (fun z => PLeaf (LInt z)) [0;1;100;2;3;4;5;6;7;8;9;101;102], None).
Proof. vm_compute. reflexivity. Qed.

(* a batch with paths of different lengths on the list root of ex_state: [1].a (a key of the nested dict), an insertion at 0,
   an append past the end, and an entry that fails (below -len) after the others were applied *)
Definition ex_nested_batch : list (list key * rvalue) :=
  [([KI 1; ka], RLeaf (LInt 7)); ([KI 0], RIns (RLit (LitNode KList default_flags true []))); ([KI 9], RLeaf (LStr [99%N]));
   ([KI (-7)], RLeaf LNone)].
Example ex_nested_batch_hypotheses :
  SymCoreC02Nested.root_dclean ex_state 0 /\ Forall (fun pv0 => SymCoreC02Nested.val_ok (snd pv0)) ex_nested_batch /\
  SymCoreC02Nested.py_batch (erase (Node 1 KList None [] default_flags ex_list_items))
    (SymCoreC02Nested.entries (sort_desc ex_nested_batch)) =
  Some (plist [PNode KList []; PLeaf (LInt 1); PNode KDict [(ka, PLeaf (LInt 7))]; PLeaf (LStr [98%N]); PLeaf (LStr [99%N])],
        Some PyList.PyIndexError).
Proof.
  split; [|split].
  - intros t G. vm_compute in G. inv G. simpl. repeat split; repeat constructor; simpl; intuition discriminate.
  - repeat (constructor; [reflexivity|]). constructor.
  - vm_compute. reflexivity.
Qed.

(* arguments that are existing values: the root dict of ex_state (adopted) and the dict stored in the list (copied) *)
Example ex_ref_hypotheses :
  SymCoreC02Refs.ref_value ex_state (RNodeId 3) (erase (Node 3 KDict None [] default_flags ex_dict_items)) /\
  SymCoreC02Refs.ref_value ex_state (RNodeId 2) (PNode KDict [(ka, PLeaf (LInt 2))]).
Proof.
  split.
  - exists (1%nat, []), (Node 3 KDict None [] default_flags ex_dict_items). repeat split; vm_compute; reflexivity.
  - exists (0%nat, [KI 1]), (Node 2 KDict (Some 1%N) [KI 1] default_flags [(ka, Leaf (LInt 2))]). repeat split; vm_compute; reflexivity.
Qed.

(* arguments taken from the list itself: l.append(l[1]); l[0] = l[1].a; l.insert(0, l); l.pop(2); l[-1] = l[0][3] *)
Definition ex_self_history : list (scope * rop) :=
  [ (sc0, RAppend [KI 1]); (sc0, RSet 0 [KI 1; ka]); (sc0, RInsert 0 []); (sc0, RPlain (LPop (Some 2))); (sc0, RSet (-1) [KI 0; KI 3]) ].
Definition ex_da : pv := PNode KDict [(ka, PLeaf (LInt 2))].
Example ex_self_hypotheses :
  rhist_ok default_flags (evals ex_list_items) ex_self_history /\
  rhist_py (evals ex_list_items) ex_self_history =
  [plist [PLeaf (LInt 2); ex_da; PLeaf (LStr [98%N]); ex_da]; PLeaf (LInt 2); PLeaf (LStr [98%N]); ex_da].
Proof.
  split; [|vm_compute; reflexivity].
  unfold ex_self_history. cbn [rhist_ok]. repeat (split; [split; reflexivity|]; eexists; split; [vm_compute; reflexivity|]). exact I.
Qed.
(* an opaque object written over itself: the tags agree because it is the same leaf *)
Example ex_tag_agree : forall t, tag_agree (Leaf (LOpq 5 t)) (RLeaf (LOpq 5 t)) /\ ref_value ex_state (RLeaf (LOpq 5 t)) (PLeaf (LOpq 0 t)).
Proof. intros t. split. intros o t1 t2 E1 E2. inv E1. inv E2. reflexivity. split. discriminate. reflexivity. Qed.

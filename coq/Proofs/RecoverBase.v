(* RecoverBase.v — reachability of generator states, history relations, and the recovery lemmas for
   Sweeping and seeded Random (property C15). *)
From PG Require Import Common.Tactics Model.Recover.

(* ---------------------------------------------------------------------------------------------- *)
(* histories *)
Definition unrewarded (h : list hentry) : Prop := Forall (fun e => snd e = None) h.

Fixpoint nrew (h : list hentry) : nat :=
  match h with [] => 0 | e :: r => rewarded (snd e) + nrew r end.

Lemma nrew_app : forall a b, nrew (a ++ b) = nrew a + nrew b.
Proof. induction a; intros; simpl; [reflexivity | rewrite IHa; lia]. Qed.

Lemma nrew_unrewarded : forall h, unrewarded h -> nrew h = 0.
Proof. induction 1; simpl; [reflexivity | rewrite H; simpl; assumption]. Qed.

Definition last_val (h : list hentry) : option Z :=
  match rev h with [] => None | e :: _ => Some (dval (fst e)) end.

Lemma last_val_snoc : forall h e, last_val (h ++ [e]) = Some (dval (fst e)).
Proof. intros. unfold last_val. rewrite rev_app_distr. reflexivity. Qed.

Lemma last_val_mid : forall h1 e e' h2, dval (fst e) = dval (fst e') ->
  last_val (h1 ++ e :: h2) = last_val (h1 ++ e' :: h2).
Proof.
  intros. unfold last_val. rewrite !rev_app_distr. simpl.
  destruct (rev h2) eqn:E; simpl; [rewrite H; reflexivity | reflexivity].
Qed.

(* the part of an observation the property speaks about: counters, population, de-duplication memory, and
   the same for a wrapped generator.  [extra] (population_initialized, num_generations) is dropped. *)
Fixpoint pview (o : obsv) : obsv :=
  match o with Obs np nf pop c _ inner => Obs np nf pop c [] (map pview inner) end.

(* ---------------------------------------------------------------------------------------------- *)
(* Reachable states of a generator together with the history an observer has recorded:
   every proposed DNA, in order, with the reward once it was fed back.  Feedback arrives in proposal order
   but proposals may stay in flight (or be abandoned) for ever: the entries after the one being fed back are
   all unrewarded.  [P proposed fed] restricts how the DNA handed to feedback may differ from the recorded
   one (a wrapper adds metadata). *)
Inductive Reach (g : gen) (P : dna -> dna -> Prop) : st g -> list hentry -> Prop :=
| R_init : Reach g P (init g) []
| R_prop : forall s h d s',
    Reach g P s h -> propose g s = (Ok d, s') -> Reach g P s' (h ++ [(d, None)])
| R_fb : forall s h1 dx h2 d r d' s',
    Reach g P s (h1 ++ (dx, None) :: h2) -> unrewarded h2 -> P dx d ->
    feedback g s d r = (d', s') -> Reach g P s' (h1 ++ (d', Some r) :: h2).

Lemma Reach_weaken : forall g (P Q : dna -> dna -> Prop), (forall a b, P a b -> Q a b) ->
  forall s h, Reach g P s h -> Reach g Q s h.
Proof. induction 2; econstructor; eauto. Qed.

Definition anyfed : dna -> dna -> Prop := fun _ _ => True.

(* history relations: what of the persisted history a generator's recovery depends on *)
Definition hrel := list hentry -> list hentry -> Prop.

(* same rewards at the same positions; a rewarded entry is identical, or it is the same DNA as it was before
   feedback put the sequence number and the fitness on it (a backend that stores the DNA when it is proposed
   and only the reward later; or a reward that reached the history while feedback() was never called) *)
Definition hs_weak (e e' : hentry) : Prop :=
  snd e = snd e' /\
  (forall r, snd e = Some r ->
     fst e' = fst e \/ (dfsn (fst e') = None /\ exists q, fst e = set_fed (fst e') q r)).
Definition HRw : hrel := Forall2 hs_weak.

Lemma hs_weak_refl : forall e, hs_weak e e.
Proof. intros. split; auto. Qed.
Lemma HRw_refl : forall h, HRw h h.
Proof. induction h; constructor; auto using hs_weak_refl. Qed.
Lemma HRw_length : forall h h', HRw h h' -> length h = length h'.
Proof. induction 1; simpl; congruence. Qed.
Lemma HRw_nrew : forall h h', HRw h h' -> nrew h = nrew h'.
Proof. induction 1; simpl; [reflexivity|]. destruct H as [H _]. rewrite H, IHForall2. reflexivity. Qed.

(* recoverability on the observable projection, and behavioural recoverability *)
Definition obs_rec (g : gen) (P : dna -> dna -> Prop) (HR : hrel) : Prop :=
  forall s h, Reach g P s h -> forall h', HR h h' ->
    pview (obs g (recover g (init g) h')) = pview (obs g s).

Definition cont_rec (g : gen) (P : dna -> dna -> Prop) (HR : hrel) (B : st g -> st g -> Prop) : Prop :=
  forall s h, Reach g P s h -> forall h', HR h h' -> B (recover g (init g) h') s.

(* B is a bisimulation for propose: related states propose the same DNA and stay related *)
Definition bisim (g : gen) (B : st g -> st g -> Prop) : Prop :=
  forall s1 s2, B s1 s2 ->
    fst (propose g s1) = fst (propose g s2) /\ B (snd (propose g s1)) (snd (propose g s2)).

Lemma bisim_continue : forall g B, bisim g B -> forall n s1 s2, B s1 s2 ->
  continue_from g n s1 = continue_from g n s2.
Proof.
  intros g B HB. induction n; intros; simpl; [reflexivity|].
  destruct (HB _ _ H) as [Ho Hs].
  destruct (propose g s1) as [o1 t1], (propose g s2) as [o2 t2]. simpl in *. subst o2.
  destruct o1; auto. f_equal. apply IHn. assumption.
Qed.

(* feedback hands the DNA back with the de-duplication metadata untouched *)
Definition meta_pres (g : gen) : Prop :=
  forall s d r, dkey (fst (feedback g s d r)) = dkey d /\ dskip (fst (feedback g s d r)) = dskip d
                /\ dval (fst (feedback g s d r)) = dval d.

(* same length and same last value: all a stream-like generator (Sweeping, Random) reads of its history *)
Definition HRlen : hrel := fun h h' => length h = length h' /\ last_val h = last_val h'.

(* ---------------------------------------------------------------------------------------------- *)
(* Sweeping *)
Lemma sw_recover_spec : forall h s,
  sw_np (sw_recover s h) = sw_np s + length h /\
  sw_nf (sw_recover s h) = sw_nf s + nrew h /\
  sw_last (sw_recover s h) = match last_val h with Some v => Some v | None => sw_last s end.
Proof.
  unfold sw_recover.
  induction h using rev_ind; intros; simpl.
  - repeat split; lia.
  - rewrite fold_left_app. simpl. destruct (IHh s) as (A & B & C).
    rewrite last_val_snoc, app_length, nrew_app. simpl. rewrite A, B. repeat split; lia.
Qed.

Lemma sw_reach_spec : forall m P s h, Reach (Sweeping m) P s h ->
  (forall a b, P a b -> dval b = dval a) ->
  sw_np s = length h /\ sw_nf s = nrew h /\ sw_last s = last_val h.
Proof.
  induction 1; intros HP.
  - simpl. auto.
  - destruct (IHReach HP) as (A & B & C). simpl in H0. unfold sw_propose in H0.
    destruct (match sw_last s with Some i => (i + 1)%Z | None => 0%Z end <? m)%Z eqn:E; inv H0.
    simpl. rewrite app_length, nrew_app, last_val_snoc. simpl. repeat split; lia.
  - destruct (IHReach HP) as (A & B & C). simpl in H2. unfold sw_feedback in H2. inv H2. simpl.
    rewrite app_length, nrew_app in *. simpl in *. rewrite (nrew_unrewarded _ H0) in *.
    repeat split; try lia.
    rewrite C. apply last_val_mid. simpl. symmetry. apply HP. assumption.
Qed.

Lemma sweeping_obs_rec : forall m, obs_rec (Sweeping m) anyfed HRw.
Proof.
  intros m s h HR h' Hh. simpl.
  destruct (sw_recover_spec h' (mkSw 0 0 None)) as (A & B & _).
  assert (sw_np s = length h /\ sw_nf s = nrew h) as [C D].
  { clear - HR. induction HR; simpl; auto.
    - destruct IHHR as [A B]. simpl in H. unfold sw_propose in H.
      destruct (match sw_last s with Some i => (i + 1)%Z | None => 0%Z end <? m)%Z; inv H.
      simpl. rewrite app_length, nrew_app. simpl. lia.
    - destruct IHHR as [A B]. simpl in H1. unfold sw_feedback in H1. inv H1. simpl.
      rewrite app_length, nrew_app in *. simpl in *. rewrite (nrew_unrewarded _ H) in *. lia. }
  rewrite A, B, C, D. simpl. rewrite (HRw_length _ _ Hh), (HRw_nrew _ _ Hh). reflexivity.
Qed.

Definition sw_beq (s1 s2 : sw_st) : Prop := sw_last s1 = sw_last s2.

Lemma sweeping_bisim : forall m, bisim (Sweeping m) sw_beq.
Proof.
  intros m s1 s2 H. unfold sw_beq in *. simpl. unfold sw_propose. rewrite H.
  destruct (match sw_last s2 with Some i => (i + 1)%Z | None => 0%Z end <? m)%Z; simpl; auto.
Qed.

Definition samefed : dna -> dna -> Prop := fun a b => dval b = dval a.

Lemma sweeping_cont_rec : forall m, cont_rec (Sweeping m) samefed HRlen sw_beq.
Proof.
  intros m s h HR h' [Hl Hv]. unfold sw_beq. simpl.
  destruct (sw_recover_spec h' (mkSw 0 0 None)) as (_ & _ & C).
  destruct (sw_reach_spec _ _ _ _ HR (fun a b H => H)) as (_ & _ & D).
  rewrite C, D, <- Hv. simpl. destruct (last_val h); reflexivity.
Qed.

Lemma sweeping_meta_pres : forall m, meta_pres (Sweeping m).
Proof. intros m s d r. simpl. auto. Qed.

(* ---------------------------------------------------------------------------------------------- *)
(* Random(seed) and Random() *)
Lemma rd_recover_spec : forall sd h s,
  rd_np (rd_recover sd s h) = rd_np s + length h /\
  rd_nf (rd_recover sd s h) = rd_nf s + nrew h /\
  rd_k (rd_recover sd s h) = rd_k s + (if sd then length h else 0).
Proof.
  unfold rd_recover.
  induction h using rev_ind; intros; simpl.
  - repeat split; destruct sd; lia.
  - rewrite fold_left_app. simpl. destruct (IHh s) as (A & B & C).
    rewrite app_length, nrew_app. simpl. rewrite A, B, C. repeat split; destruct sd; lia.
Qed.

Lemma rd_reach_spec : forall sd draw P s h, Reach (RandomGen sd draw) P s h ->
  rd_np s = length h /\ rd_nf s = nrew h /\ rd_k s = length h.
Proof.
  induction 1.
  - simpl. auto.
  - destruct IHReach as (A & B & C). simpl in H0. unfold rd_propose in H0. inv H0.
    simpl. rewrite app_length, nrew_app. simpl. repeat split; lia.
  - destruct IHReach as (A & B & C). simpl in H2. unfold rd_feedback in H2. inv H2. simpl.
    rewrite app_length, nrew_app in *. simpl in *. rewrite (nrew_unrewarded _ H0) in *.
    repeat split; lia.
Qed.

Lemma random_obs_rec : forall sd draw, obs_rec (RandomGen sd draw) anyfed HRw.
Proof.
  intros sd draw s h HR h' Hh. simpl.
  destruct (rd_recover_spec sd h' (mkRd 0 0 0)) as (A & B & _).
  destruct (rd_reach_spec _ _ _ _ _ HR) as (C & D & _).
  rewrite A, B, C, D. simpl. rewrite (HRw_length _ _ Hh), (HRw_nrew _ _ Hh). reflexivity.
Qed.

Definition rd_beq (s1 s2 : rd_st) : Prop := rd_k s1 = rd_k s2.

Lemma random_bisim : forall sd draw, bisim (RandomGen sd draw) rd_beq.
Proof. intros sd draw s1 s2 H. unfold rd_beq in *. simpl. unfold rd_propose. rewrite H. simpl. auto. Qed.

Lemma random_cont_rec : forall draw, cont_rec (RandomSeeded draw) samefed HRlen rd_beq.
Proof.
  intros draw s h HR h' [Hl _]. unfold rd_beq. simpl.
  destruct (rd_recover_spec true h' (mkRd 0 0 0)) as (_ & _ & C).
  destruct (rd_reach_spec _ _ _ _ _ HR) as (_ & _ & D).
  rewrite C, D. simpl. lia.
Qed.

Lemma random_meta_pres : forall sd draw, meta_pres (RandomGen sd draw).
Proof. intros sd draw s d r. simpl. auto. Qed.

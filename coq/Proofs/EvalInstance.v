(* Per-run instance obligation of C19 on the plan regenerated from evaluate() (Gen/EvalShape.v). *)
From PG Require Import Common.Tactics Gen.PermTable Model.EvalModel Gen.EvalShape Proofs.EvalProofs.
From Coq Require Import NArith.
Local Open Scope N_scope.

Lemma generated_shape_ok : shape_ok shape = true.
Proof. vm_compute. reflexivity. Qed.

Lemma generated_pops_expr_and_assign :
  existsb (N.eqb k_Expr) (sh_kinds shape) = true /\ existsb (N.eqb k_Assign) (sh_kinds shape) = true.
Proof. vm_compute. auto. Qed.

(* non-vacuity: `f(); d['k'] = g()` and `a = b[0] = g()` *)
Example evaluate_example :
  let p := [ {| s_kind := k_Expr; s_value := Some 5; s_targets := []; s_id := 1 |};
             {| s_kind := k_Assign; s_value := Some 6; s_targets := [TName 2; TComplex 9]; s_id := 2 |} ] in
  prog_wf p = true /\ effects (evaluate_events shape p) = [EvExpr 5; EvExpr 6; EvStoreComplex 9 6]
  /\ last_store 2 (evaluate_events shape p) = Some 6 /\ last_store result_name (evaluate_events shape p) = Some 6.
Proof. cbv zeta. repeat split; vm_compute; reflexivity. Qed.

Lemma popped_kinds_cover last : (is_expr last || is_assign last) = true ->
  existsb (N.eqb (s_kind last)) (sh_kinds shape) = true.
Proof.
  intros H. apply orb_true_iff in H. destruct generated_pops_expr_and_assign as [He Ha].
  unfold is_expr, is_assign in H. destruct H as [H | H]; apply N.eqb_eq in H; rewrite H; assumption.
Qed.

Lemma generated_result_is_last_value : forall p body last e, prog_wf p = true ->
  split_last p = Some (body, last) -> s_value last = Some e -> (is_expr last || is_assign last) = true ->
  last_store result_name (evaluate_events shape p) = Some e.
Proof.
  intros p body last e Hp Hs Hv Hk.
  apply (result_is_last_value shape p body last e generated_shape_ok Hp Hs Hv).
  exact (popped_kinds_cover last Hk).
Qed.
